import Astisub.Model.SSA
import Astisub.Lemmas.SSAStr

/-!
# Lemmas/SSAText — the event text: `\n`-joined lines of runs, read back by `ssaEvent.item`

* `splitOn_join2`: `strings.Split(strings.Join(ls, "ab"), "ab") = ls` when `ab` does not occur in the pieces;
* `textLines_join`: the reader's `\N` → `\n`, split, trim gives the written lines back;
* `segs_line` / `lineRuns_lineStr`: the override-block scanner (`ssaRegexpEffect`) cuts the
  concatenation of runs back into these runs.
-/

namespace Astisub
namespace SSA
open Go List

/-! ### a two-character sequence that does not occur -/

/-- the sequence `a b` does not occur in the string -/
def noPair (a b : Char) : Str → Bool
  | [] => true
  | c :: cs => !(decide (c = a) && decide (cs.head? = some b)) && noPair a b cs

theorem dropPrefix2_none {a b x : Char} {xs : Str} (h : (decide (x = a) && decide (xs.head? = some b)) = false) :
    dropPrefix? [a, b] (x :: xs) = none := by
  by_cases hx : a = x
  · subst hx
    cases xs with
    | nil => simp [dropPrefix?]
    | cons y ys =>
      have : ¬ b = y := by intro e; subst e; simp at h
      simp [dropPrefix?, this]
  · simp [dropPrefix?, hx]

theorem dropPrefix2_some (a b : Char) (r : Str) : dropPrefix? [a, b] (a :: b :: r) = some r := by
  simp [dropPrefix?]

theorem splitOnAux_last (a b : Char) : ∀ (L : Str) (fuel : Nat) (acc : Str), noPair a b L = true → L.length < fuel →
    splitOnAux [a, b] fuel L acc = [acc.reverse ++ L] := by
  intro L
  induction L with
  | nil =>
    intro fuel acc _ hf
    obtain ⟨f, rfl⟩ : ∃ f, fuel = f + 1 := ⟨fuel - 1, by simp at hf; omega⟩
    simp [splitOnAux]
  | cons c cs ih =>
    intro fuel acc hn hf
    obtain ⟨f, rfl⟩ : ∃ f, fuel = f + 1 := ⟨fuel - 1, by simp at hf; omega⟩
    simp only [noPair, Bool.and_eq_true, Bool.not_eq_true'] at hn
    simp only [splitOnAux, dropPrefix2_none hn.1]
    rw [ih f (c :: acc) hn.2 (by simp at hf; omega)]
    simp

theorem splitOnAux_piece (a b : Char) (hab : a ≠ b) (rest : Str) : ∀ (L : Str) (fuel : Nat) (acc : Str),
    noPair a b L = true → (L ++ a :: b :: rest).length < fuel →
    splitOnAux [a, b] fuel (L ++ a :: b :: rest) acc
      = (acc.reverse ++ L) :: splitOnAux [a, b] (fuel - L.length - 1) rest [] := by
  intro L
  induction L with
  | nil =>
    intro fuel acc _ hf
    obtain ⟨f, rfl⟩ : ∃ f, fuel = f + 1 := ⟨fuel - 1, by simp at hf; omega⟩
    simp only [nil_append, splitOnAux, dropPrefix2_some, append_nil, length_nil]
    simp
  | cons c cs ih =>
    intro fuel acc hn hf
    obtain ⟨f, rfl⟩ : ∃ f, fuel = f + 1 := ⟨fuel - 1, by simp at hf; omega⟩
    simp only [noPair, Bool.and_eq_true, Bool.not_eq_true'] at hn
    have hnone : dropPrefix? [a, b] (c :: (cs ++ a :: b :: rest)) = none := by
      apply dropPrefix2_none
      cases cs with
      | nil =>
        have : ¬ a = b := hab
        simp [this]
      | cons y ys => simpa using hn.1
    simp only [cons_append, splitOnAux, hnone]
    rw [ih f (c :: acc) hn.2 (by simp at hf ⊢; omega)]
    simp only [reverse_cons, append_assoc, singleton_append, length_cons]
    congr 2
    omega

theorem join2_cons (a b : Char) (x y : Str) (ys : List Str) :
    join [a, b] (x :: y :: ys) = x ++ a :: b :: join [a, b] (y :: ys) := by
  simp [join]

/-- `strings.Split(strings.Join(ls, "ab"), "ab") = ls` for pieces in which `ab` does not occur -/
theorem splitOnAux_join (a b : Char) (hab : a ≠ b) : ∀ (more : List Str) (first : Str) (fuel : Nat),
    (∀ L ∈ first :: more, noPair a b L = true) → (join [a, b] (first :: more)).length < fuel →
    splitOnAux [a, b] fuel (join [a, b] (first :: more)) [] = first :: more := by
  intro more
  induction more with
  | nil =>
    intro first fuel h hf
    simp only [join] at hf ⊢
    rw [splitOnAux_last a b first fuel [] (h first (by simp)) hf]
    simp
  | cons y ys ih =>
    intro first fuel h hf
    rw [join2_cons] at hf ⊢
    rw [splitOnAux_piece a b hab _ first fuel [] (h first (by simp)) hf]
    rw [ih y (fuel - first.length - 1) (fun L hL => h L (by simp [hL])) (by simp at hf ⊢; omega)]
    simp

theorem splitOn_join2 (a b : Char) (hab : a ≠ b) (ls : List Str) (hne : ls ≠ [])
    (h : ∀ L ∈ ls, noPair a b L = true) : Go.splitOn [a, b] (join [a, b] ls) = ls := by
  cases ls with
  | nil => exact absurd rfl hne
  | cons first more =>
    unfold Go.splitOn
    simp only [isEmpty_cons, Bool.false_eq_true, ↓reduceIte]
    exact splitOnAux_join a b hab more first _ h (by omega)

theorem splitOn_noPair (a b : Char) (s : Str) (h : noPair a b s = true) : Go.splitOn [a, b] s = [s] := by
  unfold Go.splitOn
  simp only [isEmpty_cons, Bool.false_eq_true, ↓reduceIte]
  rw [splitOnAux_last a b s _ [] h (by omega)]
  simp

theorem replaceAll_noPair (a b : Char) (new s : Str) (h : noPair a b s = true) : replaceAll [a, b] new s = s := by
  unfold replaceAll
  rw [splitOn_noPair a b s h]
  simp [join]

/-- appending keeps a sequence absent when it cannot straddle the seam -/
theorem noPair_append_cons (a b c : Char) (hc : c ≠ b) : ∀ (x y : Str), noPair a b x = true → noPair a b (c :: y) = true →
    noPair a b (x ++ c :: y) = true := by
  intro x
  induction x with
  | nil => intro y _ h; simpa using h
  | cons x0 xs ih =>
    intro y hx hy
    simp only [noPair, Bool.and_eq_true, Bool.not_eq_true'] at hx
    simp only [cons_append, noPair, Bool.and_eq_true, Bool.not_eq_true']
    refine ⟨?_, ih y hx.2 hy⟩
    cases xs with
    | nil =>
      have : ¬ c = b := hc
      simp [this]
    | cons z zs => simpa using hx.1

/-- `\N` does not occur in lines joined by `\n` when it occurs in none of them -/
theorem noPair_join (ls : List Str) (h : ∀ L ∈ ls, noPair '\\' 'N' L = true) :
    noPair '\\' 'N' (join ['\\', 'n'] ls) = true := by
  induction ls with
  | nil => rfl
  | cons x xs ih =>
    cases xs with
    | nil => simpa [join] using h x (by simp)
    | cons y ys =>
      rw [join2_cons]
      apply noPair_append_cons _ _ _ (by decide) _ _ (h x (by simp))
      have := ih (fun L hL => h L (by simp [hL]))
      simp only [noPair, Bool.and_eq_true, Bool.not_eq_true']
      refine ⟨by simp, ?_, this⟩
      simp

/-! ### lines -/

/-- a line that is cut out of the text as it is: neither `\n` nor `\N` in it, nothing to trim -/
structure LineOK (L : Str) : Prop where
  n : noPair '\\' 'n' L = true
  N : noPair '\\' 'N' L = true
  trimmed : Trimmed L

instance (L : Str) : Decidable (LineOK L) :=
  decidable_of_iff (noPair '\\' 'n' L = true ∧ noPair '\\' 'N' L = true ∧ Trimmed L)
    ⟨fun ⟨a, b, c⟩ => ⟨a, b, c⟩, fun ⟨a, b, c⟩ => ⟨a, b, c⟩⟩

theorem sepn : "\\n".toList = ['\\', 'n'] := by decide
theorem sepN : "\\N".toList = ['\\', 'N'] := by decide

/-- **Lines.** the lines joined with `\n` are read back as these lines -/
theorem textLines_join (ls : List Str) (hne : ls ≠ []) (h : ∀ L ∈ ls, LineOK L) :
    textLines (join "\\n".toList ls) = ls := by
  unfold textLines
  rw [sepn, sepN, replaceAll_noPair _ _ _ _ (noPair_join ls fun L hL => (h L hL).N),
    splitOn_join2 _ _ (by decide) ls hne fun L hL => (h L hL).n]
  have : ∀ (l : List Str), (∀ L ∈ l, LineOK L) → l.map trimSpace = l := by
    intro l
    induction l with
    | nil => intro _; rfl
    | cons x xs ih =>
      intro hl
      rw [map_cons, trimSpace_of_trimmed (hl x (by simp)).trimmed, ih fun L hL => hl L (by simp [hL])]
  exact this ls h

/-- the joined text needs no trimming when its lines need none -/
theorem trimmed_join (ls : List Str) (h : ∀ L ∈ ls, Trimmed L) : Trimmed (join ['\\', 'n'] ls) := by
  induction ls with
  | nil => exact trimmed_nil
  | cons x xs ih =>
    cases xs with
    | nil => simpa [join] using h x (by simp)
    | cons y ys =>
      rw [join2_cons]
      have hx := h x (by simp)
      have hr := ih (fun L hL => h L (by simp [hL]))
      constructor
      · intro c hc
        cases x with
        | nil => simp at hc; subst hc; decide
        | cons x0 xs0 => simp at hc; subst hc; exact hx.1 _ rfl
      · intro c hc
        cases hj : join ['\\', 'n'] (y :: ys) with
        | nil => rw [hj] at hc; simp at hc; subst hc; decide
        | cons j0 js =>
          rw [hj] at hc hr
          rw [getLast?_append] at hc
          simp only [getLast?_cons_cons] at hc
          have : (j0 :: js).getLast? = some c := by
            cases hl : (j0 :: js).getLast? with
            | none => simp at hl
            | some d => rw [hl] at hc; simpa using hc
          exact hr.2 c this

/-! ### override blocks -/

def NoBrace (s : Str) : Prop := '{' ∉ s ∧ '}' ∉ s

instance (s : Str) : Decidable (NoBrace s) := inferInstanceAs (Decidable ('{' ∉ s ∧ '}' ∉ s))

/-- what is between the braces of an override block -/
def blockInner (e : Str) : Str := (e.drop 1).dropLast

/-- `{…}` with at least one character and no brace inside -/
def IsBlock (e : Str) : Prop := e = '{' :: blockInner e ++ ['}'] ∧ blockInner e ≠ [] ∧ NoBrace (blockInner e)

instance (e : Str) : Decidable (IsBlock e) :=
  inferInstanceAs (Decidable (e = '{' :: blockInner e ++ ['}'] ∧ blockInner e ≠ [] ∧ NoBrace (blockInner e)))

theorem effLen_scan : ∀ (u rest : Str) (pos : Nat) (last : Option Nat), NoBrace u →
    effLen (u ++ rest) pos last = effLen rest (pos + u.length) last := by
  intro u
  induction u with
  | nil => intro rest pos last _; simp
  | cons c cs ih =>
    intro rest pos last h
    have h1 : ¬ c = '{' := fun e => h.1 (by simp [e])
    have h2 : ¬ c = '}' := fun e => h.2 (by simp [e])
    have hcs : NoBrace cs := ⟨fun e => h.1 (by simp [e]), fun e => h.2 (by simp [e])⟩
    simp only [cons_append, effLen, h1, ↓reduceIte, h2, false_and, length_cons]
    rw [ih rest (pos + 1) last hcs]
    congr 1
    omega

/-- what follows a run: nothing, or the next override block -/
def Tail (s : Str) : Prop := ∀ c, s.head? = some c → c = '{'

theorem effLen_tail (s : Str) (h : Tail s) (pos : Nat) (last : Option Nat) : effLen s pos last = last := by
  cases s with
  | nil => rfl
  | cons c cs =>
    have : c = '{' := h c rfl
    simp [effLen, this]

theorem effLen_block (inner t tail : Str) (hi : inner ≠ []) (hin : NoBrace inner) (ht : NoBrace t) (htail : Tail tail) :
    effLen (inner ++ '}' :: (t ++ tail)) 0 none = some (inner.length + 1) := by
  rw [effLen_scan inner _ 0 none hin]
  have hpos : 0 + inner.length ≥ 1 := by
    cases inner with
    | nil => exact absurd rfl hi
    | cons _ _ => simp
  have hb : ¬ '}' = '{' := by decide
  simp only [effLen, hb, ↓reduceIte, hpos, and_self]
  rw [effLen_scan t _ _ _ ht, effLen_tail tail htail]
  simp

theorem segsF_text : ∀ (t s : Str) (fuel : Nat) (acc : Str), '{' ∉ t → (t ++ s).length < fuel →
    segsF fuel (t ++ s) acc = segsF (fuel - t.length) s (t.reverse ++ acc) := by
  intro t
  induction t with
  | nil => intro s fuel acc _ _; simp
  | cons c cs ih =>
    intro s fuel acc h hf
    obtain ⟨f, rfl⟩ : ∃ f, fuel = f + 1 := ⟨fuel - 1, by simp at hf; omega⟩
    have h1 : ¬ c = '{' := fun e => h (by simp [e])
    simp only [cons_append, segsF, h1, ↓reduceIte]
    rw [ih s f (c :: acc) (fun e => h (by simp [e])) (by simp at hf ⊢; omega)]
    simp

theorem segsF_block (inner t tail : Str) (f : Nat) (acc : Str)
    (hi : inner ≠ []) (hin : NoBrace inner) (ht : NoBrace t) (htail : Tail tail) :
    segsF (f + 1) (('{' :: inner ++ ['}']) ++ (t ++ tail)) acc
      = .text acc.reverse :: .eff ('{' :: inner ++ ['}']) :: segsF f (t ++ tail) [] := by
  have e : ('{' :: inner ++ ['}']) ++ (t ++ tail) = '{' :: (inner ++ '}' :: (t ++ tail)) := by simp
  rw [e]
  simp only [segsF, ↓reduceIte, effLen_block inner t tail hi hin ht htail]
  have h1 : (inner ++ '}' :: (t ++ tail)).take (inner.length + 1) = inner ++ ['}'] := by
    rw [show inner ++ '}' :: (t ++ tail) = (inner ++ ['}']) ++ (t ++ tail) by simp]
    exact take_left' (by simp)
  have h2 : (inner ++ '}' :: (t ++ tail)).drop (inner.length + 1) = t ++ tail := by
    rw [show inner ++ '}' :: (t ++ tail) = (inner ++ ['}']) ++ (t ++ tail) by simp]
    exact drop_left' (by simp)
  rw [h1, h2]
  simp

/-! ### runs -/

/-- a run: its override block (if any) and its text -/
abbrev Run := Option Str × Str

/-- the `LineItem` of a run -/
def mkRun (r : Run) : LItem := { text := r.2, attrs := r.1.map fun e => [("SSAEffect".toList, e)] }

/-- what the writer emits for a run -/
def runStr (r : Run) : Str := r.1.getD [] ++ r.2

def lineStr (runs : List Run) : Str := (runs.map runStr).flatten

/-- a run that starts with an override block -/
def BlockRun (r : Run) : Prop := (match r.1 with | some e => IsBlock e | none => False) ∧ NoBrace r.2

instance : (r : Run) → Decidable (BlockRun r)
  | (some e, t) => inferInstanceAs (Decidable (IsBlock e ∧ NoBrace t))
  | (none, _) => isFalse (fun h => h.1)

def blocksSegs (rs : List Run) : List Seg := rs.flatMap fun r => [.eff (r.1.getD []), .text r.2]

theorem tail_lineStr (rs : List Run) (h : ∀ r ∈ rs, BlockRun r) : Tail (lineStr rs) := by
  cases rs with
  | nil => intro c hc; simp [lineStr] at hc
  | cons r rs =>
    obtain ⟨hb, _⟩ := h r (by simp)
    obtain ⟨eo, t⟩ := r
    cases eo with
    | none => exact absurd hb id
    | some e =>
      have he : e = '{' :: blockInner e ++ ['}'] := hb.1
      intro c hc
      rw [lineStr, map_cons, flatten_cons, runStr] at hc
      simp only [Option.getD_some] at hc
      rw [he] at hc
      simpa using hc.symm

theorem segsF_blocks : ∀ (rs : List Run) (t0 : Str) (fuel : Nat) (acc : Str), (∀ r ∈ rs, BlockRun r) → '{' ∉ t0 →
    (t0 ++ lineStr rs).length < fuel →
    segsF fuel (t0 ++ lineStr rs) acc = .text (acc.reverse ++ t0) :: blocksSegs rs := by
  intro rs
  induction rs with
  | nil =>
    intro t0 fuel acc _ ht hf
    rw [segsF_text t0 _ fuel acc ht hf]
    obtain ⟨f, hfe⟩ : ∃ f, fuel - t0.length = f + 1 := ⟨fuel - t0.length - 1, by simp [lineStr] at hf; omega⟩
    rw [hfe]
    simp [lineStr, segsF, blocksSegs]
  | cons r rs ih =>
    intro t0 fuel acc h ht hf
    rw [segsF_text t0 _ fuel acc ht hf]
    obtain ⟨hb, htx⟩ := h r (by simp)
    obtain ⟨eo, t⟩ := r
    cases eo with
    | none => exact absurd hb id
    | some e =>
      have hb' : IsBlock e := hb
      have he : e = '{' :: blockInner e ++ ['}'] := hb'.1
      have hrest : ∀ r ∈ rs, BlockRun r := fun r hr => h r (by simp [hr])
      have hl : lineStr ((some e, t) :: rs) = ('{' :: blockInner e ++ ['}']) ++ (t ++ lineStr rs) := by
        rw [lineStr, map_cons, flatten_cons, runStr]
        simp only [Option.getD_some]
        rw [← he, append_assoc]
        rfl
      have hlen : (t0 ++ lineStr ((some e, t) :: rs)).length < fuel := hf
      rw [hl] at hlen ⊢
      obtain ⟨f, hfe⟩ : ∃ f, fuel - t0.length = f + 1 :=
        ⟨fuel - t0.length - 1, by simp at hlen; omega⟩
      rw [hfe, segsF_block (blockInner e) t (lineStr rs) f _ hb'.2.1 hb'.2.2 htx (tail_lineStr rs hrest)]
      rw [ih t f [] hrest htx.1 (by simp at hlen ⊢; omega)]
      simp only [reverse_append, reverse_reverse, reverse_nil, nil_append, blocksSegs, flatMap_cons, Option.getD_some,
        cons_append]
      have he' : '{' :: (blockInner e ++ ['}']) = e := he.symm
      rw [he']

theorem segs_line (rs : List Run) (t0 : Str) (h : ∀ r ∈ rs, BlockRun r) (ht : '{' ∉ t0) :
    segs (t0 ++ lineStr rs) = .text t0 :: blocksSegs rs := by
  unfold segs
  rw [segsF_blocks rs t0 _ [] h ht (by omega)]
  simp

theorem pairRuns_blocks (rs : List Run) (h : ∀ r ∈ rs, BlockRun r) : pairRuns (blocksSegs rs) = rs.map mkRun := by
  induction rs with
  | nil => rfl
  | cons r rs ih =>
    obtain ⟨hb, _⟩ := h r (by simp)
    obtain ⟨eo, t⟩ := r
    cases eo with
    | none => exact absurd hb id
    | some e =>
      have := ih fun r hr => h r (by simp [hr])
      simp only [blocksSegs, flatMap_cons, cons_append, nil_append, pairRuns, Option.getD_some, map_cons] at this ⊢
      rw [this]
      rfl

/-- the runs of a line as the reader can give them back: a first run without override block only
    when it has text or is alone, an override block in front of every other run, no stray braces -/
def GoodLine : List Run → Prop
  | [] => False
  | [(none, t)] => NoBrace t
  | (none, t) :: rest => t ≠ [] ∧ NoBrace t ∧ ∀ r ∈ rest, BlockRun r
  | rs => ∀ r ∈ rs, BlockRun r

instance : (rs : List Run) → Decidable (GoodLine rs)
  | [] => isFalse id
  | [(none, t)] => inferInstanceAs (Decidable (NoBrace t))
  | (none, t) :: r :: rest => inferInstanceAs (Decidable (t ≠ [] ∧ NoBrace t ∧ ∀ x ∈ r :: rest, BlockRun x))
  | (some e, t) :: rest => inferInstanceAs (Decidable (∀ x ∈ (some e, t) :: rest, BlockRun x))

theorem lineRuns_plain (t : Str) (h : NoBrace t) : lineRuns t = [mkRun (none, t)] := by
  have := segs_line [] t (by simp) h.1
  simp only [lineStr, map_nil, flatten_nil, append_nil, blocksSegs, flatMap_nil] at this
  unfold lineRuns
  rw [this]
  rfl

theorem lineRuns_blocks (t0 : Str) (r : Run) (rs : List Run) (h : ∀ x ∈ r :: rs, BlockRun x) (ht : NoBrace t0) :
    lineRuns (t0 ++ lineStr (r :: rs))
      = (if t0.isEmpty then [] else [mkRun (none, t0)]) ++ (r :: rs).map mkRun := by
  have hs := segs_line (r :: rs) t0 h ht.1
  have hp := pairRuns_blocks (r :: rs) h
  unfold lineRuns
  rw [hs]
  have : blocksSegs (r :: rs) = .eff (r.1.getD []) :: .text r.2 :: blocksSegs rs := by
    simp [blocksSegs]
  rw [this] at hp ⊢
  simp only
  rw [hp]
  rfl

/-- **Runs.** the concatenation of the runs of a line is cut back into these runs -/
theorem lineRuns_lineStr (runs : List Run) (h : GoodLine runs) : lineRuns (lineStr runs) = runs.map mkRun := by
  cases runs with
  | nil => exact absurd h id
  | cons r0 rest =>
    obtain ⟨eo, t⟩ := r0
    cases eo with
    | none =>
      cases rest with
      | nil =>
        have h' : NoBrace t := h
        simpa [lineStr, runStr] using lineRuns_plain t h'
      | cons r rs =>
        have h' : t ≠ [] ∧ NoBrace t ∧ ∀ x ∈ r :: rs, BlockRun x := h
        obtain ⟨h1, h2, h3⟩ := h'
        have := lineRuns_blocks t r rs h3 h2
        have he : t.isEmpty = false := by cases t with | nil => exact absurd rfl h1 | cons _ _ => rfl
        rw [he] at this
        simpa [lineStr, runStr] using this
    | some e =>
      have h' : ∀ x ∈ (some e, t) :: rest, BlockRun x := h
      have := lineRuns_blocks [] (some e, t) rest h' ⟨by simp, by simp⟩
      simpa using this

end SSA
end Astisub
