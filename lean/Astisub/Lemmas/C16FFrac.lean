import Astisub.Lemmas.C16FRnd
import Astisub.Model.Duration

/-!
# Lemmas/C16FFrac — the fraction field of `formatDuration`, evaluated in binary64

`subtitles.go`:

    n = i % time.Second
    milliseconds = math.Floor(float64(n) / float64(time.Millisecond)
                                / float64(math.Pow(10, 3-float64(numberOfMillisecondDigits))))
    s += StrPad(strconv.FormatFloat(milliseconds, 'f', 0, 64), '0', numberOfMillisecondDigits, PadLeft)

`fracF n digits` evaluates exactly this expression tree with the executable binary64 model
`Go/Float53.lean` (proved correctly rounded in `Props/C15float.lean`). The constant
`float64(time.Millisecond)` is the double `1e6`; `math.Pow(10, 3-float64(d))` is the double
`10^(3-d)` (for `d = 3` and `d = 2`, the only values the package passes, Go's `pow` returns through
its special cases `y == 0 → 1` and `y == 1 → x`, with `3 - float64(d)` exact; `100` and `1000`
are exactly representable as well). `FormatFloat(v, 'f', 0, 64)` of the integer-valued double `v`
prints the integer `v` in decimal.
-/

namespace Astisub
namespace C16F
open Go F53

/-- the Go expression `math.Floor(float64(n) / float64(time.Millisecond) / float64(math.Pow(10, 3-digits)))`
    evaluated with the binary64 model (two correctly rounded divisions, then floor), for
    `digits ≤ 3` (the package passes 2 and 3) -/
def fracF (n : Int) (digits : Nat) : Int :=
  Dy.floor (Dy.div (Dy.div (Dy.ofInt n) (Dy.ofInt 1000000)) (Dy.ofInt (10 ^ (3 - digits))))

/-- the same on ℚ: floor of the twice rounded quotient -/
theorem fracF_val (n : Int) (digits : Nat) (hn : |n| ≤ 2 ^ 53) :
    fracF n digits
      = ⌊rnd (rnd ((n : ℚ) / 1000000) / (((10 : ℤ) ^ (3 - digits) : ℤ) : ℚ))⌋ := by
  unfold fracF
  have hk : |((10 : ℤ) ^ (3 - digits))| ≤ 2 ^ 53 := by
    have h3 : 3 - digits ≤ 3 := Nat.sub_le _ _
    have : (10 : ℤ) ^ (3 - digits) ≤ 10 ^ 3 := pow_le_pow_right₀ (by norm_num) h3
    rw [abs_of_nonneg (by positivity)]
    omega
  rw [floor_val, div_val, div_val, ofInt_val, ofInt_val, ofInt_val,
    rnd_int n hn, rnd_int 1000000 (by decide), rnd_int _ hk]
  norm_num

theorem pow_digits_range (digits : Nat) :
    (1 : ℤ) ≤ (10 : ℤ) ^ (3 - digits) ∧ (10 : ℤ) ^ (3 - digits) ≤ 1000 := by
  have h3 : 3 - digits ≤ 3 := Nat.sub_le _ _
  constructor
  · exact one_le_pow₀ (by norm_num)
  · have : (10 : ℤ) ^ (3 - digits) ≤ 10 ^ 3 := pow_le_pow_right₀ (by norm_num) h3
    omega

/-- **The float fraction is the integer quotient**, for every remainder `0 ≤ n < 10⁹` and every
    digit count (`10^(3-digits)` with natural subtraction is 1, 10, 100 or 1000). -/
theorem fracF_eq (n : Int) (digits : Nat) (hn0 : 0 ≤ n) (hn : n < 1000000000) :
    fracF n digits = n / (1000000 * 10 ^ (3 - digits)) := by
  obtain ⟨hk1, hk⟩ := pow_digits_range digits
  rw [fracF_val n digits (by rw [abs_of_nonneg hn0]; omega)]
  exact floor_two_div n _ hn0 hn hk1 hk

/-- the model's fraction (natural numbers, two successive divisions) is the same integer -/
theorem fracF_model (t : Int) (digits : Nat) (h0 : 0 ≤ t) :
    fracF (Int.tmod t 1000000000) digits
      = ((t.toNat % 1000000000 / 1000000 / 10 ^ (3 - digits) : Nat) : Int) := by
  obtain ⟨n, rfl⟩ : ∃ n : Nat, t = (n : Int) := ⟨t.toNat, by omega⟩
  have hm : Int.tmod (n : Int) 1000000000 = ((n % 1000000000 : Nat) : Int) := by
    rw [Int.tmod_eq_emod_of_nonneg (by omega)]; rfl
  rw [hm, fracF_eq _ _ (by omega) (by omega), Int.toNat_natCast, Nat.div_div_eq_div_mul]
  push_cast; rfl

/-! ### the formatter with the float fraction -/

/-- `formatDuration(i, sep, digits)` with the fraction computed in binary64 (`fracF`) and printed
    as `FormatFloat(…, 'f', 0, 64)` prints an integer-valued double; hours, minutes and seconds
    are integer operations in the Go code as well. -/
def formatF (t : Int) (sep : Char) (digits : Nat) : Str :=
  let h := Int.tdiv t 3600000000000
  let m := Int.tdiv (Int.tmod t 3600000000000) 60000000000
  let s := Int.tdiv (Int.tmod t 60000000000) 1000000000
  let n := Int.tmod t 1000000000
  Duration.pad2 h.toNat ++ ':' :: Duration.pad2 m.toNat ++ ':' :: Duration.pad2 s.toNat ++ sep ::
    padLeft0 digits (itoa (fracF n digits))

/-- **The integer model of `formatDuration` is the float evaluation**: for every instant `t ≥ 0`,
    separator and digit count, `Duration.format` prints what the binary64 expression gives. -/
theorem format_eq_formatF (t : Int) (sep : Char) (digits : Nat) (h0 : 0 ≤ t) :
    Duration.format t sep digits = formatF t sep digits := by
  unfold formatF
  simp only []
  rw [fracF_model t digits h0]
  obtain ⟨n, rfl⟩ : ∃ n : Nat, t = (n : Int) := ⟨t.toNat, by omega⟩
  have e1 : (Int.tdiv (n : Int) 3600000000000).toNat = n / 3600000000000 := by
    rw [Int.tdiv_eq_ediv_of_nonneg (by omega)]; omega
  have e2 : (Int.tdiv (Int.tmod (n : Int) 3600000000000) 60000000000).toNat
      = n % 3600000000000 / 60000000000 := by
    rw [Int.tmod_eq_emod_of_nonneg (by omega), Int.tdiv_eq_ediv_of_nonneg (by omega)]; omega
  have e3 : (Int.tdiv (Int.tmod (n : Int) 60000000000) 1000000000).toNat
      = n % 60000000000 / 1000000000 := by
    rw [Int.tmod_eq_emod_of_nonneg (by omega), Int.tdiv_eq_ediv_of_nonneg (by omega)]; omega
  simp only [e1, e2, e3]
  unfold Duration.format itoa
  simp only [Int.toNat_natCast]
  rw [if_neg (Int.not_lt.mpr (Int.natCast_nonneg _))]

/-! ### the reader side: `int(math.Pow10(k))` -/

/-- `int(math.Pow10(k))` of `parseDuration` (`milliseconds *= int(math.Pow10(digits - len(s)))`):
    `math.Pow10` is a table of the doubles nearest to `10^k`, `int(…)` truncates -/
def pow10F (k : Nat) : Int := Dy.trunc (Dy.ofInt (10 ^ k))

/-- the scale factor of the reader is the exact power of ten (`10^k ≤ 2⁵³` for `k ≤ 15`; the
    reader only uses `k ≤ 3`) -/
theorem pow10F_eq (k : Nat) (hk : k ≤ 15) : pow10F k = 10 ^ k := by
  unfold pow10F
  have h : |((10 : ℤ) ^ k)| ≤ 2 ^ 53 := by
    have : (10 : ℤ) ^ k ≤ 10 ^ 15 := pow_le_pow_right₀ (by norm_num) hk
    rw [abs_of_nonneg (by positivity)]
    omega
  rw [trunc_val, ofInt_val, rnd_int _ h, tr_intCast]

end C16F
end Astisub
