import Mathlib.Data.Int.Log
import Astisub.Lemmas.F53Rne

/-!
# Lemmas/F53Rnd — round-to-nearest-even to 53 significant bits, as a function `ℚ → ℚ`

`rnd x` is defined for every rational: with `E = ⌊log₂|x|⌋ − 52` (so that `|x| / 2^E ∈ [2⁵², 2⁵³)`),
`rnd x = rne (x / 2^E) · 2^E`. No overflow, no subnormals: the exponent range is unbounded, as in
`Go.Float53`. This file proves the properties of the abstract float model for it: relative error
at most 2⁻⁵³ (`rnd_err`), monotone (`rnd_mono`), odd (`rnd_neg`), commutes with scaling by powers
of two (`rnd_scale`), and a characterisation (`rnd_eq`) used to connect it with `Dy.round`.
-/

namespace Astisub
namespace F53

/-- exponent of the unit in the last place of `x` (for 53 significant bits) -/
def ex (x : ℚ) : ℤ := Int.log 2 |x| - 52

/-- round to nearest, ties to even, 53 significant bits, unbounded exponent -/
def rnd (x : ℚ) : ℚ := (rne (x / 2 ^ ex x) : ℚ) * 2 ^ ex x

theorem p2_pos (E : ℤ) : (0 : ℚ) < 2 ^ E := zpow_pos (by norm_num) E

theorem p2_ne (E : ℤ) : (2 : ℚ) ^ E ≠ 0 := ne_of_gt (p2_pos E)

theorem p2_add (a b : ℤ) : (2 : ℚ) ^ (a + b) = 2 ^ a * 2 ^ b := zpow_add₀ (by norm_num) a b

theorem p2_mono {a b : ℤ} (h : a ≤ b) : (2 : ℚ) ^ a ≤ 2 ^ b := zpow_le_zpow_right₀ (by norm_num) h

theorem p2_succ (a : ℤ) : (2 : ℚ) ^ (a + 1) = 2 * 2 ^ a := by
  rw [p2_add]; simp [mul_comm]

theorem p2_52 : (2 : ℚ) ^ (52 : ℤ) = ((2 ^ 52 : ℤ) : ℚ) := by norm_num

theorem p2_53 : (2 : ℚ) ^ (53 : ℤ) = ((2 ^ 53 : ℤ) : ℚ) := by norm_num

theorem ex_eq {x : ℚ} {E : ℤ} (h1 : 2 ^ (E + 52) ≤ |x|) (h2 : |x| < 2 ^ (E + 53)) : ex x = E := by
  have hpos : 0 < |x| := lt_of_lt_of_le (p2_pos _) h1
  have a1 : E + 52 ≤ Int.log 2 |x| := by
    apply (Int.zpow_le_iff_le_log (by norm_num) hpos).mp
    simpa using h1
  have a2 : Int.log 2 |x| < E + 53 := by
    apply (Int.lt_zpow_iff_log_lt (by norm_num) hpos).mp
    simpa using h2
  unfold ex; omega

theorem ex_bounds {x : ℚ} (hx : x ≠ 0) : 2 ^ (ex x + 52) ≤ |x| ∧ |x| < 2 ^ (ex x + 53) := by
  have hpos : 0 < |x| := abs_pos.mpr hx
  have a1 := Int.zpow_log_le_self (b := 2) (by norm_num) hpos
  have a2 := Int.lt_zpow_succ_log_self (b := 2) (by norm_num) |x|
  simp only [Nat.cast_ofNat] at a1 a2
  unfold ex
  constructor
  · rw [show Int.log 2 |x| - 52 + 52 = Int.log 2 |x| by ring]; exact a1
  · rw [show Int.log 2 |x| - 52 + 53 = Int.log 2 |x| + 1 by ring]; exact a2

theorem ex_neg (x : ℚ) : ex (-x) = ex x := by unfold ex; rw [abs_neg]

theorem rnd_zero : rnd 0 = 0 := by
  unfold rnd
  simp only [zero_div]
  rw [show (0 : ℚ) = ((0 : ℤ) : ℚ) by simp, rne_intCast]
  simp

/-- characterisation: whenever `E` is the binade exponent of `x` and `z` is the nearest-even integer
    of `x / 2^E`, `rnd x = z · 2^E` -/
theorem rnd_eq {x : ℚ} {E z : ℤ} (h1 : 2 ^ (E + 52) ≤ |x|) (h2 : |x| < 2 ^ (E + 53))
    (hz : IsRNE (x / 2 ^ E) z) : rnd x = (z : ℚ) * 2 ^ E := by
  unfold rnd
  rw [ex_eq h1 h2, rne_unique hz]

theorem rnd_neg (x : ℚ) : rnd (-x) = -rnd x := by
  unfold rnd
  rw [ex_neg, neg_div, rne_neg]
  push_cast; ring

theorem abs_mul_p2 (x : ℚ) (j : ℤ) : |x * 2 ^ j| = |x| * 2 ^ j := by
  rw [abs_mul, abs_of_pos (p2_pos j)]

theorem ex_scale {x : ℚ} (hx : x ≠ 0) (j : ℤ) : ex (x * 2 ^ j) = ex x + j := by
  obtain ⟨b1, b2⟩ := ex_bounds hx
  apply ex_eq
  · rw [abs_mul_p2, show ex x + j + 52 = (ex x + 52) + j by ring, p2_add]
    exact mul_le_mul_of_nonneg_right b1 (le_of_lt (p2_pos j))
  · rw [abs_mul_p2, show ex x + j + 53 = (ex x + 53) + j by ring, p2_add]
    exact mul_lt_mul_of_pos_right b2 (p2_pos j)

theorem rnd_scale (x : ℚ) (j : ℤ) : rnd (x * 2 ^ j) = rnd x * 2 ^ j := by
  by_cases hx : x = 0
  · subst hx; simp [rnd_zero]
  · unfold rnd
    rw [ex_scale hx, p2_add]
    have : x * 2 ^ j / (2 ^ ex x * 2 ^ j) = x / 2 ^ ex x := by
      field_simp [p2_ne]
    rw [this]; ring

/-- half an ulp -/
theorem rnd_err_ulp (x : ℚ) : |rnd x - x| ≤ 2 ^ ex x / 2 := by
  unfold rnd
  have hp := p2_pos (ex x)
  have e : (rne (x / 2 ^ ex x) : ℚ) * 2 ^ ex x - x
      = -((x / 2 ^ ex x - (rne (x / 2 ^ ex x) : ℚ)) * 2 ^ ex x) := by
    field_simp [p2_ne]
    ring
  rw [e, abs_neg, abs_mul, abs_of_pos hp]
  have := rne_err (x / 2 ^ ex x)
  have := mul_le_mul_of_nonneg_right this (le_of_lt hp)
  linarith

/-- relative error at most 2⁻⁵³ -/
theorem rnd_err (x : ℚ) : |rnd x - x| ≤ |x| * (1 / 2 ^ 53) := by
  by_cases hx : x = 0
  · subst hx; simp [rnd_zero]
  · obtain ⟨b1, _⟩ := ex_bounds hx
    have h := rnd_err_ulp x
    rw [show ex x + 52 = ex x + 53 + (-1) by ring, p2_add] at b1
    have e53 : (2 : ℚ) ^ (ex x + 53) = 2 ^ ex x * 2 ^ 53 := by
      rw [p2_add]; norm_num
    have em1 : (2 : ℚ) ^ (-1 : ℤ) = 1 / 2 := by norm_num
    rw [e53, em1] at b1
    have hp := p2_pos (ex x)
    calc |rnd x - x| ≤ 2 ^ ex x / 2 := h
      _ = (2 ^ ex x * 2 ^ 53 * (1 / 2)) * (1 / 2 ^ 53) := by field_simp
      _ ≤ |x| * (1 / 2 ^ 53) := mul_le_mul_of_nonneg_right b1 (by positivity)

theorem rnd_nonneg {x : ℚ} (hx : 0 ≤ x) : 0 ≤ rnd x := by
  unfold rnd
  have hp := p2_pos (ex x)
  have : (0 : ℚ) ≤ x / 2 ^ ex x := div_nonneg hx (le_of_lt hp)
  have := rne_mono this
  rw [show (0 : ℚ) = ((0 : ℤ) : ℚ) by simp, rne_intCast] at this
  have : (0 : ℚ) ≤ (rne (x / 2 ^ ex x) : ℚ) := by exact_mod_cast this
  exact mul_nonneg this (le_of_lt hp)

/-- a positive number and its rounding lie in the same closed binade -/
theorem rnd_range {x : ℚ} (hx : 0 < x) :
    2 ^ (ex x + 52) ≤ rnd x ∧ rnd x ≤ 2 ^ (ex x + 53) := by
  obtain ⟨b1, b2⟩ := ex_bounds (ne_of_gt hx)
  rw [abs_of_pos hx] at b1 b2
  have hp := p2_pos (ex x)
  have c1 : ((2 ^ 52 : ℤ) : ℚ) ≤ x / 2 ^ ex x := by
    rw [le_div_iff₀ hp, ← p2_52, ← p2_add, add_comm]; exact b1
  have c2 : x / 2 ^ ex x ≤ ((2 ^ 53 : ℤ) : ℚ) := by
    rw [div_le_iff₀ hp, ← p2_53, ← p2_add, add_comm]; exact le_of_lt b2
  have d1 := rne_mono c1
  have d2 := rne_mono c2
  rw [rne_intCast] at d1 d2
  have d1' : ((2 ^ 52 : ℤ) : ℚ) ≤ (rne (x / 2 ^ ex x) : ℚ) := Int.cast_le.mpr d1
  have d2' : (rne (x / 2 ^ ex x) : ℚ) ≤ ((2 ^ 53 : ℤ) : ℚ) := Int.cast_le.mpr d2
  unfold rnd
  constructor
  · rw [add_comm, p2_add, p2_52]
    exact mul_le_mul_of_nonneg_right d1' (le_of_lt hp)
  · rw [add_comm (ex x), p2_add, p2_53]
    exact mul_le_mul_of_nonneg_right d2' (le_of_lt hp)

theorem ex_mono_pos {x y : ℚ} (hx : 0 < x) (h : x ≤ y) : ex x ≤ ex y := by
  unfold ex
  have : |x| ≤ |y| := by rw [abs_of_pos hx, abs_of_pos (lt_of_lt_of_le hx h)]; exact h
  have := Int.log_mono_right (b := 2) (abs_pos.mpr (ne_of_gt hx)) this
  omega

theorem rnd_mono_pos {x y : ℚ} (hx : 0 < x) (h : x ≤ y) : rnd x ≤ rnd y := by
  have hy : 0 < y := lt_of_lt_of_le hx h
  have he := ex_mono_pos hx h
  by_cases heq : ex x = ex y
  · unfold rnd
    rw [heq]
    have hp := p2_pos (ex y)
    have : x / 2 ^ ex y ≤ y / 2 ^ ex y := div_le_div_of_nonneg_right h (le_of_lt hp)
    have := rne_mono this
    have : (rne (x / 2 ^ ex y) : ℚ) ≤ (rne (y / 2 ^ ex y) : ℚ) := Int.cast_le.mpr this
    exact mul_le_mul_of_nonneg_right this (le_of_lt hp)
  · have hlt : ex x + 53 ≤ ex y + 52 := by omega
    calc rnd x ≤ 2 ^ (ex x + 53) := (rnd_range hx).2
      _ ≤ 2 ^ (ex y + 52) := p2_mono hlt
      _ ≤ rnd y := (rnd_range hy).1

/-- monotone on all of ℚ -/
theorem rnd_mono {x y : ℚ} (h : x ≤ y) : rnd x ≤ rnd y := by
  by_cases hx : 0 < x
  · exact rnd_mono_pos hx h
  · have hx' : x ≤ 0 := not_lt.mp hx
    have nx : rnd x ≤ 0 := by
      have := rnd_nonneg (neg_nonneg.mpr hx')
      rw [rnd_neg] at this; linarith
    by_cases hy : 0 ≤ y
    · exact le_trans nx (rnd_nonneg hy)
    · have hy' : 0 < -y := by linarith [not_le.mp hy]
      have := rnd_mono_pos hy' (neg_le_neg h)
      rw [rnd_neg, rnd_neg] at this
      linarith

/-- a number that is an integer multiple of its own ulp is not changed -/
theorem rnd_fixed {x : ℚ} {z : ℤ} (h : x / 2 ^ ex x = (z : ℚ)) : rnd x = x := by
  unfold rnd
  rw [h, rne_intCast, ← h]
  field_simp [p2_ne]

/-- integers up to 2⁵³ in magnitude are not changed -/
theorem rnd_int (n : ℤ) (hn : |n| ≤ 2 ^ 53) : rnd (n : ℚ) = n := by
  by_cases h0 : n = 0
  · subst h0; simpa using rnd_zero
  · have hx : (n : ℚ) ≠ 0 := by exact_mod_cast h0
    obtain ⟨b1, b2⟩ := ex_bounds hx
    have hq : |(n : ℚ)| ≤ 2 ^ (53 : ℤ) := by
      rw [p2_53]; exact_mod_cast hn
    -- ex n ≤ 1
    have hE : ex (n : ℚ) ≤ 1 := by
      by_cases c : ex (n : ℚ) ≤ 1
      · exact c
      · exfalso
        have : (2 : ℚ) ^ (53 + 1 : ℤ) ≤ 2 ^ (ex (n : ℚ) + 52) := p2_mono (by omega)
        have h54 : (2 : ℚ) ^ (53 : ℤ) < 2 ^ (53 + 1 : ℤ) := by norm_num
        linarith
    by_cases c0 : ex (n : ℚ) ≤ 0
    · -- n / 2^E = n * 2^(-E), an integer
      obtain ⟨k, hk⟩ : ∃ k : ℕ, ex (n : ℚ) = -(k : ℤ) := ⟨(-ex (n : ℚ)).toNat, by omega⟩
      apply rnd_fixed (z := n * 2 ^ k)
      rw [hk, zpow_neg, zpow_natCast]
      push_cast
      field_simp
    · have hE1 : ex (n : ℚ) = 1 := by omega
      rw [hE1] at b1
      -- |n| = 2^53
      have habs : |(n : ℚ)| = 2 ^ (53 : ℤ) := le_antisymm hq (by simpa using b1)
      have habsZ : |n| = 2 ^ 53 := by
        have : ((|n| : ℤ) : ℚ) = ((2 ^ 53 : ℤ) : ℚ) := by
          rw [Int.cast_abs, habs, p2_53]
        exact Int.cast_injective this
      have hdiv : ∃ z : ℤ, n = 2 * z := by
        rcases abs_choice n with h | h
        · exact ⟨2 ^ 52, by rw [← h, habsZ]; norm_num⟩
        · exact ⟨-2 ^ 52, by have : n = -|n| := by rw [h]; ring
                             rw [this, habsZ]; norm_num⟩
      obtain ⟨z, hz⟩ := hdiv
      apply rnd_fixed (z := z)
      rw [hE1, hz]; push_cast; simp

end F53
end Astisub
