import Astisub.Lemmas.SSARead2Sec
import Astisub.Lemmas.SSA2Info
import Astisub.Lemmas.SSARead2Style

/-!
# Lemmas/SSARead2Info — the `[Script Info]` section: the reader's line-by-line parse and the decoder's "last one wins"
-/

namespace Astisub
namespace SSAR
open Go SSA
open Spec.SSA (SecKind secKind classify infoTable intOf floatOf)

/-! ### association lists -/

theorem lookup_filter_ne {κ} [DecidableEq κ] (l : Vals κ) (k k' : κ) :
    (l.filter fun p => p.1 ≠ k).lookup k' = if k' = k then none else l.lookup k' := by
  induction l with
  | nil => simp
  | cons p ps ih =>
    obtain ⟨a, b⟩ := p
    rw [List.filter_cons]
    by_cases h : a = k
    · subst h
      simp only [ne_eq, not_true_eq_false, decide_false, Bool.false_eq_true, ↓reduceIte, List.lookup_cons]
      rw [ih]
      by_cases hk : k' = a
      · simp [hk]
      · have hb : (k' == a) = false := by simp [hk]
        simp [hk, hb]
    · simp only [ne_eq, h, not_false_eq_true, decide_true, ↓reduceIte, List.lookup_cons]
      by_cases hb : k' = a
      · subst hb
        simp [h]
      · have hb' : (k' == a) = false := by simp [hb]
        simp only [hb']
        exact ih

theorem get_set_same {κ} [DecidableEq κ] (l : Vals κ) (k : κ) (v : Val) : (l.set k v).get k = some v := by
  unfold Vals.set Vals.get
  rw [List.lookup_append, lookup_filter_ne]
  simp

theorem get_set_other {κ} [DecidableEq κ] (l : Vals κ) (k k' : κ) (v : Val) (hne : k' ≠ k) : (l.set k v).get k' = l.get k' := by
  unfold Vals.set Vals.get
  rw [List.lookup_append, lookup_filter_ne]
  have hb : (k' == k) = false := by simp [hne]
  simp [hne, hb, List.lookup]

theorem get_erase_same {κ} [DecidableEq κ] (l : Vals κ) (k : κ) : (l.erase k).get k = none := by
  unfold Vals.erase Vals.get
  rw [lookup_filter_ne]
  simp

theorem get_erase_other {κ} [DecidableEq κ] (l : Vals κ) (k k' : κ) (hne : k' ≠ k) : (l.erase k).get k' = l.get k' := by
  unfold Vals.erase Vals.get
  rw [lookup_filter_ne]
  simp [hne]


/-! ### the script-info relation -/

/-- the typed value the reader stores for key `f` and text `v` (`none`: the key is cleared) -/
def tv (f : SI) (v : Str) : Option Val :=
  match f.kind with
  | .int => (intOf v).map Val.i
  | .float => (floatOf (commaToDot v)).map Val.f
  | _ => if v.isEmpty then none else some (.s v)

/-- the `Key: value` pairs of a list of lines, as `Spec.SSA.infoOf` collects them -/
def kvsOf (body : List Str) : List (String × Str) :=
  body.filterMap fun l => match classify l with | .kv k v => some (String.ofList k, v) | _ => none

/-- the reader's script-info values are "the last line of every key, typed" -/
def InfoRel (vals : Vals SI) (kvs : List (String × Str)) : Prop :=
  ∀ f : SI, vals.get f = (kvs.reverse.lookup f.header).bind (tv f)

theorem infoTable_lookup (f : SI) : infoTable.lookup f.header = some (f.key, gk f.kind) := by
  cases f <;> decide

theorem siOfHeader_none {k : Str} (h : siOfHeader k = none) (f : SI) : f.header ≠ String.ofList k := by
  intro e
  have : f.header.toList = k := by rw [e, String.toList_ofList]
  rw [← this, siOfHeader_header] at h
  cases h

theorem siOfHeader_some {k : Str} {f0 : SI} (h : siOfHeader k = some f0) :
    f0.header = String.ofList k ∧ ∀ f : SI, f.header = String.ofList k → f = f0 := by
  have h1 : f0.header.toList = k := by
    unfold siOfHeader at h
    have := List.find?_some h
    simpa using this
  refine ⟨by rw [← h1, String.ofList_toList], ?_⟩
  intro f e
  have : f.header.toList = k := by rw [e, String.toList_ofList]
  rw [← this, siOfHeader_header] at h
  cases h; rfl

theorem lookup_snoc (kvs : List (String × Str)) (k : String) (v : Str) (h : String) :
    (kvs ++ [(k, v)]).reverse.lookup h = if h = k then some v else kvs.reverse.lookup h := by
  rw [List.reverse_append, List.reverse_singleton, List.singleton_append, List.lookup_cons]
  by_cases e : h = k
  · simp [e]
  · have : (h == k) = false := by simp [e]
    simp [e, this]

theorem infoRel_skip {vals : Vals SI} {kvs : List (String × Str)} (hrel : InfoRel vals kvs) (k : Str) (v : Str)
    (h : siOfHeader k = none) : InfoRel vals (kvs ++ [(String.ofList k, v)]) := by
  intro f
  rw [lookup_snoc, if_neg (siOfHeader_none h f)]
  exact hrel f

theorem infoRel_set {vals : Vals SI} {kvs : List (String × Str)} (hrel : InfoRel vals kvs) (k : Str) (v : Str) (f0 : SI)
    (h : siOfHeader k = some f0) (x : Val) (hx : tv f0 v = some x) :
    InfoRel (vals.set f0 x) (kvs ++ [(String.ofList k, v)]) := by
  obtain ⟨h1, h2⟩ := siOfHeader_some h
  intro f
  rw [lookup_snoc]
  by_cases e : f = f0
  · subst e
    rw [get_set_same, if_pos h1]
    exact hx.symm
  · rw [get_set_other _ _ _ _ e, if_neg (fun he => e (h2 f he))]
    exact hrel f

theorem infoRel_erase {vals : Vals SI} {kvs : List (String × Str)} (hrel : InfoRel vals kvs) (k : Str) (v : Str) (f0 : SI)
    (h : siOfHeader k = some f0) (hx : tv f0 v = none) :
    InfoRel (vals.erase f0) (kvs ++ [(String.ofList k, v)]) := by
  obtain ⟨h1, h2⟩ := siOfHeader_some h
  intro f
  rw [lookup_snoc]
  by_cases e : f = f0
  · subst e
    rw [get_erase_same, if_pos h1]
    exact hx.symm
  · rw [get_erase_other _ _ _ e, if_neg (fun he => e (h2 f he))]
    exact hrel f

/-- a `Key: value` pair the class admits: numeric keys carry numbers -/
def kvOk (k v : Str) : Bool :=
  match infoTable.lookup (String.ofList k) with
  | some (_, .int) => (intOf v).any In64
  | some (_, .float) => (floatOf (commaToDot v)).isSome
  | _ => true

/-- **One script-info line.** `ssaScriptInfo.parse` succeeds on every admitted pair and keeps the relation -/
theorem parse_rel (b : Info) (k v : Str) (kvs : List (String × Str)) (hrel : InfoRel b.vals kvs) (hok : kvOk k v = true) :
    ∃ b', b.parse k v = .ok b' ∧ b'.comments = b.comments ∧ InfoRel b'.vals (kvs ++ [(String.ofList k, v)]) := by
  unfold Info.parse
  cases hs : siOfHeader k with
  | none => exact ⟨b, rfl, rfl, infoRel_skip hrel k v hs⟩
  | some f0 =>
    obtain ⟨h1, _⟩ := siOfHeader_some hs
    have hl := infoTable_lookup f0
    rw [h1] at hl
    unfold kvOk at hok
    rw [hl] at hok
    simp only
    cases hk : f0.kind with
    | int =>
      rw [hk] at hok
      simp only [gk] at hok
      cases hi : intOf v with
      | none => simp [hi] at hok
      | some i =>
        simp only [hi, Option.any_some] at hok
        rw [atoi_of_intOf hi hok]
        exact ⟨_, rfl, rfl, infoRel_set hrel k v f0 hs (.i i) (by simp [tv, hk, hi])⟩
    | float =>
      rw [hk] at hok
      simp only [gk] at hok
      cases hi : floatOf (commaToDot v) with
      | none => simp [hi] at hok
      | some x =>
        rw [replaceAll_commaToDot, parseFloat_of_floatOf hi]
        exact ⟨_, rfl, rfl, infoRel_set hrel k v f0 hs (.f x) (by simp [tv, hk, hi])⟩
    | str =>
      by_cases he : v.isEmpty = true
      · refine ⟨_, rfl, rfl, ?_⟩
        simp only [he, ↓reduceIte]
        exact infoRel_erase hrel k v f0 hs (by simp [tv, hk, he])
      · refine ⟨_, rfl, rfl, ?_⟩
        simp only [he, Bool.false_eq_true, ↓reduceIte]
        exact infoRel_set hrel k v f0 hs (.s v) (by simp [tv, hk, he])
    | bool => cases f0 <;> simp [SI.kind] at hk
    | colour => cases f0 <;> simp [SI.kind] at hk


theorem classify_kv_colon {l k v : Str} (h : classify l = .kv k v) (hc : l.head? = some ':') : k = [] := by
  cases l with
  | nil => cases hc
  | cons x xs =>
    simp only [List.head?_cons, Option.some.injEq] at hc
    subst hc
    simp only [classify, Spec.SSA.keyValue, List.contains_cons, beq_self_eq_true, Bool.true_or, ↓reduceIte] at h
    have : (':' :: xs).takeWhile (fun x => x ≠ ':') = [] := by simp
    rw [this] at h
    cases h
    decide

/-- the syntax of a `Key: value` pair is what its key asks for (the guard of `Spec.SSA.infoOf`) -/
def kvSyn (k v : Str) : Bool :=
  match infoTable.lookup (String.ofList k) with
  | some (_, .int) => (intOf v).isSome
  | some (_, .float) => (floatOf (commaToDot v)).isSome
  | _ => true

def lineSyn (l : Str) : Bool :=
  match classify l with
  | .kv k v => kvSyn k v
  | _ => true

theorem infoLineOk_kv {l k v : Str} (h : classify l = .kv k v) (hsyn : lineSyn l = true) (hok : infoLineOk l = true) :
    kvOk k v = true := by
  unfold infoLineOk at hok
  unfold lineSyn at hsyn
  rw [h] at hok hsyn
  simp only at hok hsyn
  unfold kvSyn at hsyn
  unfold kvOk
  cases hl : infoTable.lookup (String.ofList k) with
  | none => rfl
  | some p =>
    obtain ⟨key, kind⟩ := p
    rw [hl] at hok hsyn
    cases kind with
    | int =>
      simp only at hok hsyn ⊢
      cases hi : intOf v with
      | none => rw [hi] at hsyn; cases hsyn
      | some i => rw [hi] at hok; simpa using hok
    | float => exact hsyn
    | bool => rfl
    | colour => rfl
    | str => rfl

theorem commentsOf_cons (l : Str) (ls : List Str) :
    Spec.SSA.commentsOf (l :: ls) =
      (match classify l with | .comment c => [c] | _ => []) ++ Spec.SSA.commentsOf ls := by
  unfold Spec.SSA.commentsOf
  rw [List.filterMap_cons]
  cases classify l <;> rfl

theorem kvsOf_cons (l : Str) (ls : List Str) :
    kvsOf (l :: ls) = (match classify l with | .kv k v => [(String.ofList k, v)] | _ => []) ++ kvsOf ls := by
  unfold kvsOf
  rw [List.filterMap_cons]
  cases classify l <;> rfl

theorem kvStep_info (st : St) (k v : Str) (h : st.sec = .scriptInfo) :
    kvStep st k v = match st.info.parse k v with
      | .ok i => .ok { st with info := i }
      | .err => .err
      | .unmodelled => .unmodelled := by
  unfold kvStep
  split
  · rfl
  · rename_i h'; rw [h] at h'; cases h'
  · rename_i h'; rw [h] at h'; cases h'
  · rename_i h1 h2 h3; exact absurd h h1

theorem kvStep_events (st : St) (k v : Str) (h : st.sec = .events) : kvStep st k v = eventsLine st k v := by
  unfold kvStep
  split
  · rename_i h'; rw [h] at h'; cases h'
  · rfl
  · rename_i h'; rw [h] at h'; cases h'
  · rename_i h1 h2 h3; exact absurd h h2

theorem kvStep_styles (st : St) (k v : Str) (h : st.sec = .styles) : kvStep st k v = stylesLine st k v := by
  unfold kvStep
  split
  · rename_i h'; rw [h] at h'; cases h'
  · rename_i h'; rw [h] at h'; cases h'
  · rfl
  · rename_i h1 h2 h3; exact absurd h h3

/-- **Script-info section.** Over the body of a `[Script Info]` section the reader collects the comments and keeps
    "the last line of every key, typed"; nothing else changes -/
theorem run_info_sec : ∀ (body : List Str) (st : St) (kvs : List (String × Str)), st.sec = .scriptInfo → st.first = false →
    (∀ l ∈ body, BodyLine l) → (∀ l ∈ body, lineSyn l = true) → (∀ l ∈ body, infoLineOk l = true) →
    InfoRel st.info.vals kvs →
    ∃ st', runL st body = .ok st' ∧ st'.sec = .scriptInfo ∧ st'.first = false ∧ st'.styles = st.styles ∧
      st'.events = st.events ∧ st'.info.comments = st.info.comments ++ Spec.SSA.commentsOf body ∧
      InfoRel st'.info.vals (kvs ++ kvsOf body) := by
  intro body
  induction body with
  | nil =>
    intro st kvs hs hf _ _ _ hrel
    exact ⟨st, rfl, hs, hf, rfl, rfl, by simp [Spec.SSA.commentsOf], by simpa [kvsOf] using hrel⟩
  | cons l ls ih =>
    intro st kvs hs hf hb hsyn hok hrel
    have hl := hb l (by simp)
    have hu : ¬ st.sec = .unknown := by rw [hs]; decide
    rw [runL, stepL_body st l hl.1 hl.2 hf, if_neg hu, commentsOf_cons, kvsOf_cons]
    have hb' : ∀ x ∈ ls, BodyLine x := fun x hx => hb x (by simp [hx])
    have hsyn' : ∀ x ∈ ls, lineSyn x = true := fun x hx => hsyn x (by simp [hx])
    have hok' : ∀ x ∈ ls, infoLineOk x = true := fun x hx => hok x (by simp [hx])
    cases hc : classify l with
    | comment c =>
      simp only
      obtain ⟨st', h1, h2, h3, h4, h5, h6, h7⟩ := ih { st with info := { st.info with comments := st.info.comments ++ [c] } } kvs hs hf hb' hsyn' hok' hrel
      exact ⟨st', h1, h2, h3, h4, h5, by rw [h6]; simp, by simpa using h7⟩
    | junk =>
      simp only
      obtain ⟨st', h1, h2, h3, h4, h5, h6, h7⟩ := ih st kvs hs hf hb' hsyn' hok' hrel
      exact ⟨st', h1, h2, h3, h4, h5, by rw [h6]; simp, by simpa using h7⟩
    | kv k v =>
      simp only
      by_cases hcol : l.head? = some ':'
      · rw [if_pos hcol]
        have hk := classify_kv_colon hc hcol
        subst hk
        have hrel' := infoRel_skip hrel [] v (by decide)
        obtain ⟨st', h1, h2, h3, h4, h5, h6, h7⟩ := ih st _ hs hf hb' hsyn' hok' hrel'
        exact ⟨st', h1, h2, h3, h4, h5, by rw [h6]; simp, by simpa using h7⟩
      · rw [if_neg hcol]
        obtain ⟨b', p1, p2, p3⟩ := parse_rel st.info k v kvs hrel (infoLineOk_kv hc (hsyn l (by simp)) (hok l (by simp)))
        rw [kvStep_info st k v hs, p1]
        simp only
        obtain ⟨st', h1, h2, h3, h4, h5, h6, h7⟩ := ih { st with info := b' } _ hs hf hb' hsyn' hok' p3
        exact ⟨st', h1, h2, h3, h4, h5, by rw [h6, p2]; simp, by simpa using h7⟩

end SSAR
end Astisub
