import Astisub.Model.Ops
import Astisub.Spec.OpsSpec

namespace Astisub
open Ops Spec List

/-- `it` shows text `s` at instant `t` -/
def vis (it : Item) (s : String) (t : Int) : Prop := it.str = s ∧ it.startAt ≤ t ∧ t < it.endAt

theorem onScreen_iff (xs : List Item) (s : String) (t : Int) :
    onScreen xs s t ↔ ∃ it ∈ xs, vis it s t := Iff.rfl

/-- `y` cannot be merged into `cur`: other text, or it starts after `cur` ended -/
def Sep (cur y : Item) : Prop := cur.str ≠ y.str ∨ cur.endAt < y.startAt

/-- `z` is `y` with a possibly later end (what the outer loop may do to a kept cue) -/
def Ext (y z : Item) : Prop :=
  z.uid = y.uid ∧ z.startAt = y.startAt ∧ z.lines = y.lines ∧ z.pay = y.pay ∧ y.endAt ≤ z.endAt

theorem Ext.str {y z : Item} (h : Ext y z) : z.str = y.str := by
  unfold Item.str; rw [h.2.2.1]

theorem Ext.refl (y : Item) : Ext y y := ⟨rfl, rfl, rfl, rfl, Int.le_refl _⟩

theorem Ext.trans {a b c : Item} (h1 : Ext a b) (h2 : Ext b c) : Ext a c :=
  ⟨h2.1.trans h1.1, h2.2.1.trans h1.2.1, h2.2.2.1.trans h1.2.2.1, h2.2.2.2.1.trans h1.2.2.2.1,
   Int.le_trans h1.2.2.2.2 h2.2.2.2.2⟩

def extend (cur x : Item) : Item := if cur.endAt < x.endAt then { cur with endAt := x.endAt } else cur

theorem ext_extend (cur x : Item) : Ext cur (extend cur x) := by
  unfold extend; split
  · exact ⟨rfl, rfl, rfl, rfl, by simp only; omega⟩
  · exact Ext.refl _

theorem absorb_cons (cur x : Item) (rest : List Item) :
    absorb cur (x :: rest) =
      if cur.str = x.str ∧ cur.endAt ≥ x.startAt then absorb (extend cur x) rest
      else if cur.endAt < x.startAt then (cur, x :: rest)
      else ((absorb cur rest).1, x :: (absorb cur rest).2) := by
  rw [absorb]; rfl

/-- the inner loop only ever extends `cur` -/
theorem absorb_ext (cur : Item) (l : List Item) : Ext cur (absorb cur l).1 := by
  induction l generalizing cur with
  | nil => simp [absorb]; exact Ext.refl _
  | cons x rest ih =>
    rw [absorb_cons]
    split
    · exact (ext_extend cur x).trans (ih _)
    · split
      · exact Ext.refl _
      · exact ih cur

/-- what is left of the tail is a sub-sequence of it: cues are only deleted, never moved or changed -/
theorem absorb_sublist (cur : Item) (l : List Item) : (absorb cur l).2 <+ l := by
  induction l generalizing cur with
  | nil => simp [absorb]
  | cons x rest ih =>
    rw [absorb_cons]
    split
    · exact (ih _).cons _
    · split
      · exact Sublist.refl _
      · exact (ih cur).cons_cons _

/-- after the inner loop nothing left in the tail can be merged into `cur` (tail sorted by start) -/
theorem absorb_sep (cur : Item) (l : List Item)
    (hs : l.Pairwise (fun a b => a.startAt ≤ b.startAt)) :
    ∀ y ∈ (absorb cur l).2, Sep (absorb cur l).1 y := by
  induction l generalizing cur with
  | nil => simp [absorb]
  | cons x rest ih =>
    have hrest := (pairwise_cons.mp hs).2
    have hx := (pairwise_cons.mp hs).1
    rw [absorb_cons]
    split
    · exact ih _ hrest
    · rename_i h1
      split
      · rename_i h2
        intro y hy
        rcases mem_cons.mp hy with rfl | hy
        · right; exact h2
        · right
          show cur.endAt < y.startAt
          have := hx y hy; omega
      · rename_i h2
        intro y hy
        rcases mem_cons.mp hy with rfl | hy
        · -- skipped: the text differs; `cur` may still be extended later, the text stays
          have hne : cur.str ≠ y.str := by
            intro he; exact h1 ⟨he, by omega⟩
          left
          rw [(absorb_ext cur rest).str]; exact hne
        · exact ih cur hrest y hy

/-- the display is unchanged by the inner loop (needs: `cur` starts no later than the tail) -/
theorem absorb_vis (cur : Item) (l : List Item) (hc : ∀ y ∈ l, cur.startAt ≤ y.startAt)
    (s : String) (t : Int) :
    (∃ it ∈ cur :: l, vis it s t) ↔ (∃ it ∈ (absorb cur l).1 :: (absorb cur l).2, vis it s t) := by
  induction l generalizing cur with
  | nil => simp [absorb]
  | cons x rest ih =>
    have hcx := hc x (by simp)
    have hcr : ∀ y ∈ rest, cur.startAt ≤ y.startAt := fun y hy => hc y (by simp [hy])
    rw [absorb_cons]
    split
    · rename_i h1
      have hext := ext_extend cur x
      rw [← ih (extend cur x) (fun y hy => by rw [hext.2.1]; exact hcr y hy)]
      -- [cur] ∪ [x] = [extend cur x] on screen
      have key : (vis cur s t ∨ vis x s t) ↔ vis (extend cur x) s t := by
        unfold vis
        rw [hext.str, hext.2.1]
        unfold extend
        split
        · simp only; rw [← h1.1]
          constructor
          · rintro (⟨a, b, c⟩ | ⟨a, b, c⟩) <;> refine ⟨a, ?_, ?_⟩ <;> omega
          · rintro ⟨a, b, c⟩
            by_cases hh : t < cur.endAt
            · exact Or.inl ⟨a, b, hh⟩
            · exact Or.inr ⟨a, by omega, c⟩
        · rw [← h1.1]
          constructor
          · rintro (⟨a, b, c⟩ | ⟨a, b, c⟩)
            · exact ⟨a, b, c⟩
            · exact ⟨a, by omega, by omega⟩
          · intro h; exact Or.inl h
      constructor
      · rintro ⟨it, hit, hv⟩
        simp only [mem_cons] at hit
        rcases hit with rfl | rfl | hit
        · exact ⟨_, by simp, key.mp (Or.inl hv)⟩
        · exact ⟨_, by simp, key.mp (Or.inr hv)⟩
        · exact ⟨it, by simp [hit], hv⟩
      · rintro ⟨it, hit, hv⟩
        simp only [mem_cons] at hit
        rcases hit with rfl | hit
        · rcases key.mpr hv with h | h
          · exact ⟨_, by simp, h⟩
          · exact ⟨_, by simp, h⟩
        · exact ⟨it, by simp [hit], hv⟩
    · split
      · exact Iff.rfl
      · have ih' := ih cur hcr
        constructor
        · rintro ⟨it, hit, hv⟩
          simp only [mem_cons] at hit
          rcases hit with rfl | rfl | hit
          · obtain ⟨it', hit', hv'⟩ := ih'.mp ⟨_, by simp, hv⟩
            simp only [mem_cons] at hit'
            rcases hit' with rfl | hit'
            · exact ⟨_, by simp, hv'⟩
            · exact ⟨it', by simp [hit'], hv'⟩
          · exact ⟨_, by simp, hv⟩
          · obtain ⟨it', hit', hv'⟩ := ih'.mp ⟨it, by simp [hit], hv⟩
            simp only [mem_cons] at hit'
            rcases hit' with rfl | hit'
            · exact ⟨_, by simp, hv'⟩
            · exact ⟨it', by simp [hit'], hv'⟩
        · rintro ⟨it, hit, hv⟩
          simp only [mem_cons] at hit
          rcases hit with rfl | rfl | hit
          · obtain ⟨it', hit', hv'⟩ := ih'.mpr ⟨_, by simp, hv⟩
            simp only [mem_cons] at hit'
            rcases hit' with rfl | hit'
            · exact ⟨_, by simp, hv'⟩
            · exact ⟨it', by simp [hit'], hv'⟩
          · exact ⟨_, by simp, hv⟩
          · obtain ⟨it', hit', hv'⟩ := ih'.mpr ⟨it, by simp [hit], hv⟩
            simp only [mem_cons] at hit'
            rcases hit' with rfl | hit'
            · exact ⟨_, by simp, hv'⟩
            · exact ⟨it', by simp [hit'], hv'⟩

/-- element-wise relation between two lists of the same length (core has no `Forall₂`) -/
inductive All2 {α β : Type} (r : α → β → Prop) : List α → List β → Prop
  | nil : All2 r [] []
  | cons {a b as bs} : r a b → All2 r as bs → All2 r (a :: as) (b :: bs)

theorem unfragLoop_nil : unfragLoop [] = [] := by rw [unfragLoop]

theorem unfragLoop_cons (x : Item) (xs : List Item) :
    unfragLoop (x :: xs) = (absorb x xs).1 :: unfragLoop (absorb x xs).2 := by rw [unfragLoop]

/-- the outer loop: every cue of the result is a cue of the input, possibly extended, and the
    results come in the input's order (`Forall₂`-style statement as a sub-sequence relation) -/
theorem unfragLoop_ext (l : List Item) :
    ∃ sub, sub <+ l ∧ All2 Ext sub (unfragLoop l) := by
  induction hn : l.length using Nat.strongRecOn generalizing l with
  | _ n ih =>
    cases l with
    | nil => exact ⟨[], Sublist.refl _, by rw [unfragLoop_nil]; exact .nil⟩
    | cons x xs =>
      rw [unfragLoop_cons]
      have hlen := absorb_length x xs
      obtain ⟨sub, hsub, hf⟩ := ih (absorb x xs).2.length (by subst hn; simp; omega) _ rfl
      exact ⟨x :: sub, (hsub.trans (absorb_sublist x xs)).cons_cons x, .cons (absorb_ext x xs) hf⟩

end Astisub
