import Astisub.Lemmas.STL2Row
import Astisub.Lemmas.STLTime

/-!
# Lemmas/STL2Tti — one TTI block of a cue whose rows are made of several runs: what the writer emits, and what
the library reader (`STL.ttiItem`) and the independent decoder (`Spec.STL.tti`) make of it
-/

namespace Astisub
namespace C05
open Go STL

/-- a run the format carries as it is: repertoire units, text not empty and without white space at its ends -/
def RRun.okT (r : RRun) : Prop :=
  (∀ u ∈ r.units, RepUnit u) ∧ str r.text ≠ [] ∧ trimSpace (str r.text) = str r.text

/-- a cue whose rows are lists of runs -/
structure MCue where
  startAt : Int
  endAt : Int
  just : Option Int := none
  vp : Option Int := none
  rows : List (List RRun)

/-- the cue as the writer sees it -/
def MCue.toW (c : MCue) : WCue :=
  { startAt := c.startAt, endAt := c.endAt, just := c.just, vp := c.vp, lines := c.rows.map fun l => l.map RRun.toW }

/-- every row has at least one run, every run is carried as it is, and the encoded text fits the 112-byte field -/
def MCue.ok (c : MCue) : Prop :=
  (∀ l ∈ c.rows, l ≠ [] ∧ ∀ r ∈ l, r.okT) ∧ (encodeText (cueString c.toW)).length ≤ 112

theorem RRun.okT.tr {r : RRun} (h : r.okT) : Tr (str r.text) := Tr_of _ h.2.2 h.2.1

/-! ## joining lists with a separator -/

def joinL {α} (sep : List α) : List (List α) → List α
  | [] => []
  | [a] => a
  | a :: b :: rest => a ++ sep ++ joinL sep (b :: rest)

theorem joinL_flatMap {α} (f : α → List Nat) (sep : List α) (ls : List (List α)) :
    (joinL sep ls).flatMap f = joinN (sep.flatMap f) (ls.map fun l => l.flatMap f) := by
  induction ls with
  | nil => rfl
  | cons a rest ih =>
    cases rest with
    | nil => simp [joinL, joinN]
    | cons b rest' =>
      simp only [joinL, List.map_cons, joinN, List.flatMap_append]
      simp only [List.map_cons] at ih
      rw [ih]

theorem joinL_mem {α} (sep : List α) (ls : List (List α)) (x : α) (h : x ∈ joinL sep ls) :
    x ∈ sep ∨ ∃ l ∈ ls, x ∈ l := by
  induction ls with
  | nil => cases h
  | cons a rest ih =>
    cases rest with
    | nil => exact Or.inr ⟨a, by simp, h⟩
    | cons b rest' =>
      simp only [joinL, List.mem_append] at h
      rcases h with (h | h) | h
      · exact Or.inr ⟨a, by simp, h⟩
      · exact Or.inl h
      · rcases ih h with h | ⟨l, hl, hx⟩
        · exact Or.inl h
        · exact Or.inr ⟨l, by simp [hl], hx⟩

theorem joinN_mem (sep : List Nat) (ls : List (List Nat)) (x : Nat) (h : x ∈ joinN sep ls) :
    x ∈ sep ∨ ∃ l ∈ ls, x ∈ l := by
  induction ls with
  | nil => cases h
  | cons a rest ih =>
    cases rest with
    | nil => exact Or.inr ⟨a, by simp, h⟩
    | cons b rest' =>
      simp only [joinN, List.mem_append] at h
      rcases h with (h | h) | h
      · exact Or.inr ⟨a, by simp, h⟩
      · exact Or.inl h
      · rcases ih h with h | ⟨l, hl, hx⟩
        · exact Or.inl h
        · exact Or.inr ⟨l, by simp [hl], hx⟩

/-! ## the text field the writer emits -/

def lineUnits (l : List RRun) : List Unit := joinL [spaceU] (l.map RRun.allUnits)
def cueUnitsM (rows : List (List RRun)) : List Unit := joinL [codeUnit 0x8A] (rows.map lineUnits)

theorem lineUnits_text (l : List RRun) :
    (lineUnits l).flatMap (·.text) = joinN [0x20] ((l.map RRun.toW).map runString) := by
  unfold lineUnits
  rw [joinL_flatMap, List.map_map, List.map_map]
  congr 1
  apply List.map_congr_left
  intro r _
  exact r.allUnits_text

theorem lineUnits_bytes (l : List RRun) : (lineUnits l).flatMap (·.bytes) = lineBytes l := by
  unfold lineUnits lineBytes
  rw [joinL_flatMap, List.map_map]
  congr 1
  apply List.map_congr_left
  intro r _
  exact r.allUnits_bytes

theorem cueUnitsM_text (c : MCue) : (cueUnitsM c.rows).flatMap (·.text) = cueString c.toW := by
  unfold cueUnitsM cueString MCue.toW
  rw [joinL_flatMap, List.map_map, List.map_map]
  congr 1
  apply List.map_congr_left
  intro l _
  exact lineUnits_text l

theorem cueUnitsM_bytes (rows : List (List RRun)) :
    (cueUnitsM rows).flatMap (·.bytes) = joinN [0x8A] (rows.map lineBytes) := by
  unfold cueUnitsM
  rw [joinL_flatMap, List.map_map]
  congr 1
  apply List.map_congr_left
  intro l _
  exact lineUnits_bytes l

theorem cueUnitsM_mem (rows : List (List RRun)) (u : Unit) (h : u ∈ cueUnitsM rows) :
    u = codeUnit 0x8A ∨ u = spaceU ∨ ∃ l ∈ rows, ∃ r ∈ l, u ∈ r.allUnits := by
  unfold cueUnitsM at h
  rcases joinL_mem _ _ _ h with h | ⟨lu, hlu, hu⟩
  · exact Or.inl (by simpa using h)
  · obtain ⟨l, hl, rfl⟩ := List.mem_map.mp hlu
    unfold lineUnits at hu
    rcases joinL_mem _ _ _ hu with h | ⟨ru, hru, hu'⟩
    · exact Or.inr (Or.inl (by simpa using h))
    · obtain ⟨r, hr, rfl⟩ := List.mem_map.mp hru
      exact Or.inr (Or.inr ⟨l, hl, r, hr, hu'⟩)

theorem allUnits_dom (r : RRun) (h : ∀ u ∈ r.units, RepUnit u) : ∀ u ∈ r.allUnits, domGood u := by
  intro u hu
  unfold RRun.allUnits at hu
  simp only [List.mem_append, List.mem_map] at hu
  rcases hu with ⟨c, hc, rfl⟩ | hu | ⟨c, hc, rfl⟩
  · exact code_dom c (isCode_ctl (r.preCodes_isCode c hc))
  · exact repUnit_dom (h u hu)
  · exact code_dom c (isCode_ctl (r.postCodes_isCode c hc))

theorem cueUnitsM_encGood (rows : List (List RRun)) (h : ∀ l ∈ rows, ∀ r ∈ l, ∀ u ∈ r.units, RepUnit u) :
    ∀ u ∈ cueUnitsM rows, encGood u := by
  intro u hu
  rcases cueUnitsM_mem rows u hu with rfl | rfl | ⟨l, hl, r, hr, hu'⟩
  · exact codeUnit_encGood _ (by decide)
  · exact good_encGood (repUnit_good spaceU_rep)
  · exact r.allUnits_encGood (h l hl r hr) u hu'

theorem cueUnitsM_dom (rows : List (List RRun)) (h : ∀ l ∈ rows, ∀ r ∈ l, ∀ u ∈ r.units, RepUnit u) :
    ∀ u ∈ cueUnitsM rows, domGood u := by
  intro u hu
  rcases cueUnitsM_mem rows u hu with rfl | rfl | ⟨l, hl, r, hr, hu'⟩
  · exact code_dom _ (by decide)
  · exact repUnit_dom spaceU_rep
  · exact allUnits_dom r (h l hl r hr) u hu'

/-- **the writer's text field**: the rows' bytes joined by the line-break code, the runs of a row joined by a blank -/
theorem encode_cueM (c : MCue) (h : ∀ l ∈ c.rows, ∀ r ∈ l, ∀ u ∈ r.units, RepUnit u) :
    encodeText (cueString c.toW) = joinN [0x8A] (c.rows.map lineBytes) := by
  rw [← cueUnitsM_text, encodeText_units _ (cueUnitsM_encGood c.rows h), cueUnitsM_bytes]

/-- the text is inside the modelled domain of `norm.NFD` -/
theorem inDomain_cueM (c : MCue) (h : ∀ l ∈ c.rows, ∀ r ∈ l, ∀ u ∈ r.units, RepUnit u) :
    inDomain (cueString c.toW) = true := by
  rw [← cueUnitsM_text]
  exact inDomain_units _ (cueUnitsM_dom c.rows h)

theorem lineBytes_ne_break (l : List RRun) (h : ∀ r ∈ l, ∀ u ∈ r.units, RepUnit u) : ∀ b ∈ lineBytes l, b ≠ 0x8A := by
  intro b hb
  unfold lineBytes at hb
  rcases joinN_mem _ _ _ hb with h' | ⟨rb, hrb, hb'⟩
  · simp at h'; omega
  · obtain ⟨r, hr, rfl⟩ := List.mem_map.mp hrb
    exact r.bytes_ne_break (h r hr) b hb'

/-! ## a row, with padding, under both readers -/

theorem mpAux_ne_nil (l : List (Str × B3)) (hne : ∀ x ∈ l, x.1 ≠ []) (body : Str) (h : l ≠ [] ∨ body ≠ []) :
    mpAux body l ≠ [] := by
  induction l generalizing body with
  | nil =>
    rcases h with h | h
    · exact absurd rfl h
    · simp [mpAux, h]
  | cons x rest ih =>
    rw [mpAux]
    split
    · apply ih (fun y hy => hne y (by simp [hy]))
      right
      split
      · exact hne x (by simp)
      · simp
    · simp

theorem lineSegs_ne_nil (l : List RRun) (hne : l ≠ []) (h : ∀ r ∈ l, r.okT) : lineSegs l ≠ [] := by
  intro e
  have hv := lineSegs_view l (fun r hr => (h r hr).tr)
  rw [e] at hv
  have : mergePlain (l.map wv) ≠ [] := by
    apply mpAux_ne_nil
    · intro x hx
      obtain ⟨r, hr, rfl⟩ := List.mem_map.mp hx
      exact (h r hr).2.1
    · left; simpa using hne
  exact this hv.symm

/-- the line the library reader returns for the row -/
def lineOf (l : List RRun) : Line := { items := (lineSegs l).map itemOf }

theorem padToks_ok (l : List RRun) (h : ∀ r ∈ l, ∀ u ∈ r.units, RepUnit u) (k : Nat) :
    ∀ t ∈ lineToks l ++ List.replicate k Tok.pad, t.ok := by
  intro t ht
  rcases List.mem_append.mp ht with ht | ht
  · exact lineToks_ok l h t ht
  · rw [List.eq_of_mem_replicate ht]; trivial

theorem padToks_bytes (l : List RRun) (k : Nat) :
    (lineToks l ++ List.replicate k Tok.pad).flatMap Tok.bytes = lineBytes l ++ List.replicate k 0x8F := by
  rw [List.flatMap_append, lineToks_bytes, flatMap_pads]

theorem padToks_fold (l : List RRun) (k : Nat) :
    absEnd (absFold AS.init (lineToks l ++ List.replicate k Tok.pad)) = lineSegs l := by
  rw [absFold_append, absFold_pads]; rfl

/-- **library reader, one row of several runs** (followed by any amount of padding) -/
theorem openRow_line (l : List RRun) (hne : l ≠ []) (h : ∀ r ∈ l, r.okT) (k : Nat) :
    STL.openRow none (lineBytes l ++ List.replicate k 0x8F) = some (some (lineOf l), none) := by
  rw [← padToks_bytes, model_row _ (padToks_ok l (fun r hr => (h r hr).1) k), padToks_fold]
  have : (lineSegs l).isEmpty = false := by
    cases hs : lineSegs l with
    | nil => exact absurd hs (lineSegs_ne_nil l hne h)
    | cons _ _ => rfl
  rw [this]; rfl

/-- **independent decoder, one row of several runs** (followed by any amount of padding) -/
theorem spec_openRow_line (l : List RRun) (h : ∀ r ∈ l, ∀ u ∈ r.units, RepUnit u) (k : Nat) :
    Spec.STL.openRow (lineBytes l ++ List.replicate k 0x8F) {} [] [] = some ((lineSegs l).map runOf) := by
  rw [← padToks_bytes, spec_row _ (padToks_ok l h k), padToks_fold]

theorem rowsFold_lines (rows : List (List RRun)) (h : ∀ l ∈ rows, l ≠ [] ∧ ∀ r ∈ l, r.okT) (k : Nat) :
    rowsFold true none (appendLast (List.replicate k 0x8F) (rows.map lineBytes)) = some (rows.map lineOf, none) := by
  induction rows with
  | nil =>
    simp only [List.map_nil, appendLast, rowsFold, if_true]
    have : STL.openRow none (List.replicate k 0x8F) = some (none, none) := by
      unfold STL.openRow
      rw [openFold_pad]
      rfl
    rw [this]
    rfl
  | cons l ls ih =>
    obtain ⟨hne, hl⟩ := h l (by simp)
    cases ls with
    | nil =>
      simp only [List.map_cons, List.map_nil, appendLast, rowsFold, if_true]
      rw [openRow_line l hne hl k]
      rfl
    | cons l2 ls' =>
      have hr := openRow_line l hne hl 0
      simp only [List.replicate_zero, List.append_nil] at hr
      have ih' := ih (fun l' hl' => h l' (by simp [hl']))
      simp only [List.map_cons] at ih'
      simp only [List.map_cons, appendLast, rowsFold, if_true]
      rw [hr]
      simp only
      rw [ih']
      rfl

theorem spec_rows (rows : List (List RRun)) (h : ∀ l ∈ rows, ∀ r ∈ l, ∀ u ∈ r.units, RepUnit u) (k : Nat) (hk : rows ≠ []) :
    Spec.STL.mapM (fun r => Spec.STL.openRow r {} [] []) (appendLast (List.replicate k 0x8F) (rows.map lineBytes))
      = some (rows.map fun l => (lineSegs l).map runOf) := by
  induction rows with
  | nil => exact absurd rfl hk
  | cons l ls ih =>
    cases ls with
    | nil =>
      simp only [List.map_cons, List.map_nil, appendLast, Spec.STL.mapM]
      rw [spec_openRow_line l (h l (by simp)) k]
    | cons l2 ls' =>
      have hr := spec_openRow_line l (h l (by simp)) 0
      simp only [List.replicate_zero, List.append_nil] at hr
      have ih' := ih (fun l' hl' => h l' (by simp [hl'])) (by simp)
      simp only [List.map_cons] at ih'
      simp only [List.map_cons, appendLast, Spec.STL.mapM]
      rw [hr, ih']

/-! ## the whole block: library reader -/

/-- the cue the library reader builds from the block the writer emits for `c`, `off` being the programme start
    it subtracts -/
def ttiCueM (G : GSI) (g : WGSI) (off : Int) (c : MCue) : CItem :=
  { startAt := frameInstant g.m.framerate (c.startAt + g.m.tcp) - off,
    endAt := frameInstant g.m.framerate (c.endAt + g.m.tcp) - off,
    attrs := itemAttrs (justCode c.just) (vpByte (c.vp.getD 20) g.m.dsc) (G.m.maxRows.getD 0) (max 1 c.rows.length),
    lines := c.rows.map lineOf }

theorem text_split (c : MCue) (hok : c.ok) :
    splitRows (padR 0x8F 112 (encodeText (cueString c.toW)))
      = appendLast (List.replicate (112 - (encodeText (cueString c.toW)).length) 0x8F) (c.rows.map lineBytes) := by
  have hrep : ∀ l ∈ c.rows, ∀ r ∈ l, ∀ u ∈ r.units, RepUnit u := fun l hl r hr => ((hok.1 l hl).2 r hr).1
  have henc := encode_cueM c hrep
  rw [padR_fit _ _ _ hok.2]
  generalize 112 - (encodeText (cueString c.toW)).length = k
  rw [henc]
  apply splitRows_join_pad
  · intro rb hrb x hx
    obtain ⟨l, hl, rfl⟩ := List.mem_map.mp hrb
    exact lineBytes_ne_break l (hrep l hl) x hx
  · intro x hx; rw [List.eq_of_mem_replicate hx]; decide

theorem ttiItem_ttiBytesM (G : GSI) (g : WGSI) (off : Int) (idx : Nat) (c : MCue)
    (hfr : G.m.framerate = g.m.framerate) (hdsc : G.m.dsc = [0x30]) (hok : c.ok) :
    ttiItem G off none (ttiBytes g idx c.toW) = some (some (ttiCueM G g off c), none) := by
  obtain ⟨t0, t1, t2, t3, ht⟩ : ∃ t0 t1 t2 t3, Duration.formatSTLBytes (c.startAt + g.m.tcp) g.m.framerate.toNat = [t0, t1, t2, t3] :=
    ⟨_, _, _, _, rfl⟩
  obtain ⟨u0, u1, u2, u3, hu⟩ : ∃ u0 u1 u2 u3, Duration.formatSTLBytes (c.endAt + g.m.tcp) g.m.framerate.toNat = [u0, u1, u2, u3] :=
    ⟨_, _, _, _, rfl⟩
  obtain ⟨h3, h5, h9, h13, h14, h16⟩ := tti_layout 0 (idx % 256) (idx / 256 % 256) 255 0 t0 t1 t2 t3 u0 u1 u2 u3
    (vpByte (c.vp.getD 20) g.m.dsc) (justCode c.just) 0 (padR 0x8F 112 (encodeText (cueString c.toW))) (padR_length _ _ _)
  have hsplit := text_split c hok
  have hb : ttiBytes g idx c.toW = [0, idx % 256, idx / 256 % 256, 255, 0] ++ [t0, t1, t2, t3] ++ [u0, u1, u2, u3]
      ++ [vpByte (c.vp.getD 20) g.m.dsc, justCode c.just, 0] ++ padR 0x8F 112 (encodeText (cueString c.toW)) := by
    rw [← ht, ← hu]; rfl
  have h255 : ((255 : Nat) == 0xFE) = false := by decide
  have h30 : (([0x30] : Bytes) == [0x30]) = true := by decide
  rw [hb]
  unfold ttiItem
  simp only [h3, h5, h9, h13, h14, h16, hsplit, hdsc, h255, h30, Bool.false_eq_true, if_false,
    rowsFold_lines c.rows hok.1, appendLast_length, List.length_map]
  unfold ttiCueM frameInstant
  rw [ht, hu, hfr]

/-! ## the whole block: independent decoder -/

theorem splitAt8A_eq (b : Bytes) : Spec.STL.splitAt8A b = splitRows b := by
  induction b with
  | nil => rfl
  | cons x xs ih =>
    unfold Spec.STL.splitAt8A splitRows
    rw [ih]
    split
    · rfl
    · cases splitRows xs <;> rfl

theorem parse_instant (h m s f fr : Nat) (hfr : 0 < fr) :
    Duration.parseSTLBytes true [h, m, s, f] (fr : Int) = Spec.STL.instant fr h m s f := by
  unfold Duration.parseSTLBytes Spec.STL.instant
  simp only
  rw [C16.framesToNs_nat _ _ hfr]
  unfold Duration.nsPerH Duration.nsPerMin Duration.nsPerS
  have e : f * 1000000000 + fr - 1 = 1000000000 * f + fr - 1 := by omega
  rw [e]
  generalize (1000000000 * f + fr - 1) / fr = K
  omega

theorem justCode_le (j : Option Int) : justCode j ≤ 3 := by
  unfold justCode
  cases j with
  | none => decide
  | some j => simp only; split <;> (try split) <;> (try split) <;> (try split) <;> omega

theorem tti_layout2 (x0 x1 x2 x3 x4 t0 t1 t2 t3 u0 u1 u2 u3 v j z : Nat) (text : Bytes) (ht : text.length = 112) :
    let p := [x0, x1, x2, x3, x4] ++ [t0, t1, t2, t3] ++ [u0, u1, u2, u3] ++ [v, j, z] ++ text
    p.length = 128 ∧ p.getD 3 0 = x3 ∧ p.getD 5 0 = t0 ∧ p.getD 6 0 = t1 ∧ p.getD 7 0 = t2 ∧ p.getD 8 0 = t3 ∧
      p.getD 9 0 = u0 ∧ p.getD 10 0 = u1 ∧ p.getD 11 0 = u2 ∧ p.getD 12 0 = u3 ∧
      p.getD 13 0 = v ∧ p.getD 14 0 = j ∧ p.drop 16 = text := by
  simp [ht]

/-- the cue the independent decoder denotes for the block the writer emits for `c` at `fr` frames per second -/
def specCueM (fr : Nat) (g : WGSI) (off : Int) (c : MCue) : Spec.STL.Cue :=
  { startNs := frameInstant (fr : Int) (c.startAt + g.m.tcp) - off,
    endNs := frameInstant (fr : Int) (c.endAt + g.m.tcp) - off,
    just := justCode c.just, vp := vpByte (c.vp.getD 20) g.m.dsc, nrows := max 1 c.rows.length,
    lines := c.rows.map fun l => (lineSegs l).map runOf }

/-- the instant written lies within a day, as a TTI timecode requires -/
def InDay (T : Int) : Prop := 0 ≤ T ∧ T < 86400000000000

instance (T : Int) : Decidable (InDay T) := by unfold InDay; infer_instance

theorem filter_nonempty {α} (ls : List (List α)) (h : ∀ l ∈ ls, l ≠ []) : ls.filter (fun l => !l.isEmpty) = ls := by
  apply List.filter_eq_self.mpr
  intro l hl
  cases l with
  | nil => exact absurd rfl (h [] hl)
  | cons _ _ => rfl

theorem spec_tti_ttiBytesM (fr : Nat) (g : WGSI) (off : Int) (idx : Nat) (c : MCue)
    (hfr : fr = 25 ∨ fr = 30) (hg : g.m.framerate = (fr : Int)) (hok : c.ok) (hne : c.rows ≠ [])
    (hs : InDay (c.startAt + g.m.tcp)) (he : InDay (c.endAt + g.m.tcp)) :
    Spec.STL.tti fr 0 off (ttiBytes g idx c.toW) = some (some (specCueM fr g off c)) := by
  have hfrpos : 0 < fr := by rcases hfr with rfl | rfl <;> omega
  have hfrT : g.m.framerate.toNat = fr := by rw [hg]; rfl
  obtain ⟨t0, t1, t2, t3, ht, ht0, ht1, ht2, ht3⟩ := timecode_fields (c.startAt + g.m.tcp) fr hfr hs.1 hs.2
  obtain ⟨u0, u1, u2, u3, hu, hu0, hu1, hu2, hu3⟩ := timecode_fields (c.endAt + g.m.tcp) fr hfr he.1 he.2
  obtain ⟨hlen, h3, g5, g6, g7, g8, g9, g10, g11, g12, g13, g14, h16⟩ := tti_layout2 0 (idx % 256) (idx / 256 % 256) 255 0
    t0 t1 t2 t3 u0 u1 u2 u3 (vpByte (c.vp.getD 20) g.m.dsc) (justCode c.just) 0
    (padR 0x8F 112 (encodeText (cueString c.toW))) (padR_length _ _ _)
  have hb : ttiBytes g idx c.toW = [0, idx % 256, idx / 256 % 256, 255, 0] ++ [t0, t1, t2, t3] ++ [u0, u1, u2, u3]
      ++ [vpByte (c.vp.getD 20) g.m.dsc, justCode c.just, 0] ++ padR 0x8F 112 (encodeText (cueString c.toW)) := by
    rw [← ht, ← hu, ← hfrT]; rfl
  have hrep : ∀ l ∈ c.rows, ∀ r ∈ l, ∀ u ∈ r.units, RepUnit u := fun l hl r hr => ((hok.1 l hl).2 r hr).1
  have h255 : ((255 : Nat) == 0xFE) = false := by decide
  have htc : (Spec.STL.tcOK fr t0 t1 t2 t3 && Spec.STL.tcOK fr u0 u1 u2 u3) = true := by
    unfold Spec.STL.tcOK; simp [ht0, ht1, ht2, ht3, hu0, hu1, hu2, hu3]
  have hj : ¬ justCode c.just > 3 := by have := justCode_le c.just; omega
  have hsegs : ∀ l ∈ (c.rows.map fun l => (lineSegs l).map runOf), l ≠ [] := by
    intro l hl
    obtain ⟨l', hl', rfl⟩ := List.mem_map.mp hl
    have := lineSegs_ne_nil l' (hok.1 l' hl').1 (hok.1 l' hl').2
    simpa using this
  rw [hb]
  unfold Spec.STL.tti
  simp only [hlen, ne_eq, not_true_eq_false, if_false, h3, h255, Bool.false_eq_true, g5, g6, g7, g8, g9, g10, g11, g12,
    g13, g14, h16, htc, Bool.not_true, hj, splitAt8A_eq, text_split c hok, beq_self_eq_true, if_true,
    spec_rows c.rows hrep _ hne, appendLast_length, List.length_map, filter_nonempty _ hsegs]
  unfold specCueM frameInstant
  simp only [Int.toNat_natCast]
  rw [ht, hu, parse_instant _ _ _ _ _ hfrpos, parse_instant _ _ _ _ _ hfrpos]

end C05
end Astisub
