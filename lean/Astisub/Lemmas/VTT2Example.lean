import Astisub.Lemmas.VTT2Final

/-!
# Lemmas/VTT2Example — non-vacuity of `DocOk`: a concrete document with comments, regions, a CSS
block and a timestamp map (checked piece by piece to keep every evaluation short)
-/

namespace Astisub
namespace VTT
open Go List

/-- a cue with a three-line comment whose lines look like block starts, a region reference and settings -/
def exCue1 : CItem :=
  { startAt := 1000000000, endAt := 2500000123, lines := [{ voice := "Bob".toList, items := [exRun4] }],
    comments := ["first --> line".toList, "STYLE is fine here".toList, "Region: id=too".toList],
    region := some "r1".toList,
    attrs := some [("WebVTTAlign".toList, "start".toList), ("WebVTTPosition".toList, "10%".toList)] }

/-- a cue inheriting a setting from a style -/
def exCue2 : CItem :=
  { startAt := 3000000000, endAt := 4000000000, lines := [{ items := [exRun1] }], style := some "s1".toList }

/-- two cues, two regions (one inheriting from a style), a CSS block, a timestamp map -/
def exDoc : Subs :=
  { items := [exCue1, exCue2],
    regions := [{ id := "r2".toList, attrs := some [("WebVTTLines".toList, "3".toList), ("WebVTTWidth".toList, "40%".toList)] },
                { id := "r1".toList, ref := some "s1".toList }],
    styles := [{ id := "s1".toList, attrs := some [("WebVTTLine".toList, "0".toList), ("WebVTTScroll".toList, "up".toList),
       ("WebVTTStyles".toList, "::cue(b) {\ncolor: red\n}".toList)] }],
    metadata := some [("WebVTTTimestampMap".toList, "10000000123,-900000".toList)] }

theorem exDoc_styleLines : styleLines exDoc = ["::cue(b) {".toList, "color: red".toList, "}".toList] := by
  have h : VTT.sortDefs exDoc.styles = exDoc.styles := by simp [VTT.sortDefs, exDoc]
  simp only [styleLines, h]
  decide

theorem exDoc_cue1 : cueOk2 exDoc exCue1 = true := by decide
theorem exDoc_cue2 : cueOk2 exDoc exCue2 = true := by decide
theorem exDoc_regions : exDoc.regions.all (regionOk exDoc) = true := by decide
theorem exDoc_nodup : (exDoc.regions.map (·.id)).Nodup := by decide
theorem exDoc_tsmap : tsmapOk exDoc = true ∧ tsmapVal exDoc = some (10000000000, -900000) := by decide
theorem exDoc_css : (styleLines exDoc).all styleLineOk = true ∧ styleEndOk exDoc = true := by
  simp only [styleEndOk, exDoc_styleLines]; decide

theorem exDoc_ok : DocOk exDoc = true := by
  have h1 : exDoc.items.all (cueOk2 exDoc) = true := by
    show [exCue1, exCue2].all (cueOk2 exDoc) = true
    simp only [all_cons, all_nil, exDoc_cue1, exDoc_cue2, Bool.and_self]
  have h2 : (!exDoc.items.isEmpty) = true := rfl
  have h3 : decide (exDoc.items.length ≤ int64Max) = true := by decide
  have h4 : decide ((exDoc.regions.map (·.id)).Nodup) = true := decide_eq_true exDoc_nodup
  unfold DocOk
  rw [h1, h2, h3, h4, exDoc_regions, exDoc_css.1, exDoc_css.2, exDoc_tsmap.1]
  rfl

end VTT
end Astisub
