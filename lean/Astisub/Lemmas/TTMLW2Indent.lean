import Astisub.Lemmas.TTMLW2Final

/-!
# Lemmas/TTMLW2Indent — the independent decoder does not see the indentation `Encoder.Indent` adds

The `ttml.write` check compares the model's tokens `resolve w` with `dropIndent toks []` (`toks` = the tokens of the
written bytes) but runs the decoder on `toks` themselves.  Here, for **all** token lists: if every character-data token
that `dropIndent` removes contains a line feed and does not sit directly inside a `br` (`indentOk`, decidable — what
`Encoder.Indent` produces: `"\n"` + indentation between elements), the decoder answers the same on `toks` and on
`dropIndent toks []`.
-/

namespace Astisub
namespace TTMLW2
open Go TTML List
open Driver.TTMLD (specToks dropIndent)
open Spec.TTML (St PState GDoc step run decode hasNL allSpace)
open TTMLR (pRoot pStyle pRegion pTitle pCopy pPara)

/-- every token `dropIndent` removes holds a line feed and is not directly inside `br` -/
def indentOk : List XTok → List Str → Bool
  | [], _ => true
  | .start _ n _ :: rest, stack => indentOk rest (n :: stack)
  | .stop _ _ :: rest, stack => indentOk rest stack.tail
  | .text s :: rest, stack =>
    let keep := match stack with
      | p :: _ => p = "span".toList || p = "title".toList || p = "copyright".toList
      | [] => false
    (if !keep && s.all isSpace then hasNL s && !(stack.head? == some "br".toList) else true) && indentOk rest stack
  | .other :: rest, stack => indentOk rest stack

/-- the elements open inside the paragraph, as the paragraph state records them -/
def preOf (p : PState) : List Str :=
  (if p.inBr then ["br".toList] else []) ++ (if p.span.isSome then ["span".toList] else [])

/-- inside a paragraph the path is: (`br`) (`span`) and the four names down to `p` -/
def Inv (st : St) : Prop :=
  st.finished = true ∨ ∀ p, st.p = some p → ∃ base : List Str, base.length = 4 ∧ st.path = preOf p ++ base

theorem inv_init : Inv {} := Or.inr (fun p h => by cases h)

/-! ### one step keeps the invariant and moves the path like the stack -/

theorem start_in (st st' : St) (p : PState) (sp n : Str) (a : List TTMLW2.XAttr) (hp : st.p = some p)
    (hf : st.finished = false) (hi : Inv st) (h : step st (.start sp n a) = some st') :
    st'.path = n :: st.path ∧ st'.finished = false ∧ Inv st' := by
  rcases hi with hi | hi
  · rw [hf] at hi; cases hi
  obtain ⟨base, hb, hpath⟩ := hi p hp
  unfold step at h
  simp only [hp, hf, Bool.false_eq_true, if_false] at h
  split at h
  · cases h
  · split at h
    · cases h
    · rename_i hbr
      have hbr' : p.inBr = false := by simpa using hbr
      split at h
      · rename_i hn
        split at h
        · rename_i hs
          split at h
          · simp only [Option.some.injEq] at h
            subst h
            refine ⟨rfl, rfl, Or.inr ?_⟩
            intro q hq
            simp only [Option.some.injEq] at hq
            subst hq
            refine ⟨base, hb, ?_⟩
            simp only [preOf, hs, hn, hpath, hbr', Option.isSome_none, Bool.false_eq_true, if_false, if_true,
              List.nil_append, List.cons_append]
          · cases h
        · rename_i sty sa hs
          simp only [Option.some.injEq] at h
          subst h
          refine ⟨rfl, rfl, Or.inr ?_⟩
          intro q hq
          simp only [Option.some.injEq] at hq
          subst hq
          refine ⟨base, hb, ?_⟩
          simp only [preOf, hs, hn, hpath, hbr', Option.isSome_some, Bool.false_eq_true, if_false, if_true,
            List.nil_append, List.cons_append]
      · split at h
        · rename_i hcond
          simp only [Bool.and_eq_true, decide_eq_true_eq, Option.isNone_iff_eq_none] at hcond
          obtain ⟨⟨hn, hs⟩, _⟩ := hcond
          split at h
          · simp only [Option.some.injEq] at h
            subst h
            refine ⟨rfl, rfl, Or.inr ?_⟩
            intro q hq
            simp only [Option.some.injEq] at hq
            subst hq
            refine ⟨base, hb, ?_⟩
            simp only [preOf, hs, hn, hpath, hbr', Option.isSome_none, Option.isSome_some, Bool.false_eq_true, if_false,
              if_true, List.nil_append, List.cons_append]
          · cases h
        · cases h

theorem start_out (st st' : St) (sp n : Str) (a : List TTMLW2.XAttr) (hp : st.p = none) (hf : st.finished = false)
    (h : step st (.start sp n a) = some st') :
    st'.path = n :: st.path ∧ st'.finished = false ∧ Inv st' := by
  have vac : ∀ st'' : St, st''.p = none → Inv st'' := fun st'' hn => Or.inr (fun q hq => by rw [hn] at hq; cases hq)
  rcases TTMLR.ctxOf_cases (n :: st.path) with ⟨hc, _⟩ | ⟨hc, _⟩ | ⟨hc, _⟩ | ⟨hc, _⟩ | ⟨hc, _⟩ | ⟨hc, _⟩ | ⟨h1, h2, h3, h4, h5, h6, _⟩
  · obtain ⟨fr, tr, _, _, hcase⟩ := TTMLR.dec_start_root st st' sp n a hp hf hc h
    rcases hcase with ⟨_, e⟩ | ⟨l, _, e⟩ <;> subst e <;> exact ⟨rfl, hf, vac _ hp⟩
  · obtain ⟨g, _, e⟩ := TTMLR.dec_start_style st st' sp n a hp hf hc h
    subst e; exact ⟨rfl, hf, vac _ hp⟩
  · obtain ⟨g, _, e⟩ := TTMLR.dec_start_region st st' sp n a hp hf hc h
    subst e; exact ⟨rfl, hf, vac _ hp⟩
  · have e := TTMLR.dec_start_title st st' sp n a hp hf (Or.inl hc) h
    subst e; exact ⟨rfl, hf, vac _ hp⟩
  · have e := TTMLR.dec_start_title st st' sp n a hp hf (Or.inr hc) h
    subst e; exact ⟨rfl, hf, vac _ hp⟩
  · obtain ⟨b, e, cb, ce, sty, reg, sa, _, _, _, _, _, _, _, e'⟩ := TTMLR.dec_start_para st st' sp n a hp hf hc h
    subst e'
    refine ⟨rfl, rfl, Or.inr ?_⟩
    intro q hq
    simp only [TTMLR.inP, Option.some.injEq] at hq
    subst hq
    exact ⟨n :: st.path, by rw [hc]; rfl, rfl⟩
  · obtain ⟨e, _⟩ := TTMLR.dec_start_other st st' sp n a hp hf h1 h2 h3 h4 h5 h6 h
    subst e; exact ⟨rfl, hf, vac _ hp⟩

theorem stop_in (st st' : St) (p : PState) (hp : st.p = some p) (hf : st.finished = false) (hi : Inv st)
    (h : step st .stop = some st') : st'.path = st.path.tail ∧ st'.finished = false ∧ Inv st' := by
  rcases hi with hi | hi
  · rw [hf] at hi; cases hi
  obtain ⟨base, hb, hpath⟩ := hi p hp
  obtain ⟨b0, b1, b2, b3, rfl⟩ : ∃ b0 b1 b2 b3, base = [b0, b1, b2, b3] := by
    match base, hb with
    | [b0, b1, b2, b3], _ => exact ⟨b0, b1, b2, b3, rfl⟩
  unfold step at h
  simp only [hp, hf, Bool.false_eq_true, if_false] at h
  cases hbr : p.inBr with
  | true =>
    cases hs : p.span with
    | none =>
      simp only [preOf, hbr, hs, if_true, Option.isSome_none, Bool.false_eq_true, if_false, List.append_nil,
        List.cons_append, List.nil_append] at hpath
      simp only [hpath, hbr, if_true, Option.some.injEq] at h
      subst h
      refine ⟨by simp [hpath], rfl, Or.inr ?_⟩
      intro q hq
      simp only [Option.some.injEq] at hq
      subst hq
      exact ⟨[b0, b1, b2, b3], rfl, by simp [preOf, hs]⟩
    | some ss =>
      simp only [preOf, hbr, hs, if_true, Option.isSome_some, List.cons_append, List.nil_append] at hpath
      simp only [hpath, hbr, if_true, Option.some.injEq] at h
      subst h
      refine ⟨by simp [hpath], rfl, Or.inr ?_⟩
      intro q hq
      simp only [Option.some.injEq] at hq
      subst hq
      exact ⟨[b0, b1, b2, b3], rfl, by simp [preOf, hs]⟩
  | false =>
    cases hs : p.span with
    | none =>
      simp only [preOf, hbr, hs, Option.isSome_none, Bool.false_eq_true, if_false, List.append_nil,
        List.nil_append] at hpath
      simp only [hpath, hbr, hs, Bool.false_eq_true, if_false, Option.some.injEq] at h
      subst h
      exact ⟨by simp [hpath], rfl, Or.inr (fun q hq => by cases hq)⟩
    | some ss =>
      obtain ⟨sty, sa⟩ := ss
      simp only [preOf, hbr, hs, Option.isSome_some, Bool.false_eq_true, if_false, if_true, List.cons_append,
        List.nil_append] at hpath
      simp only [hpath, hbr, hs, Bool.false_eq_true, if_false, Option.some.injEq] at h
      subst h
      refine ⟨by simp [hpath], rfl, Or.inr ?_⟩
      intro q hq
      simp only [Option.some.injEq] at hq
      subst hq
      exact ⟨[b0, b1, b2, b3], rfl, by simp [preOf]⟩

theorem stop_out (st st' : St) (hp : st.p = none) (hf : st.finished = false) (h : step st .stop = some st') :
    st'.path = st.path.tail ∧ Inv st' := by
  have vac : ∀ st'' : St, st''.p = none → Inv st'' := fun st'' hn => Or.inr (fun q hq => by rw [hn] at hq; cases hq)
  obtain ⟨name, rest, hpath, hcase⟩ := TTMLR.dec_stop st st' hp hf h
  rcases hcase with ⟨_, e⟩ | ⟨_, e⟩ | ⟨_, _, e⟩ <;> subst e <;> exact ⟨by simp [hpath], vac _ hp⟩

theorem text_step (st st' : St) (s : Str) (hi : Inv st) (h : step st (.text s) = some st') :
    st'.path = st.path ∧ st'.finished = st.finished ∧ Inv st' := by
  cases hf : st.finished with
  | true =>
    obtain ⟨e, _⟩ := TTMLR.dec_finished st st' _ hf h
    subst e; exact ⟨rfl, hf, hi⟩
  | false =>
    cases hp : st.p with
    | none =>
      have vac : ∀ st'' : St, st''.p = none → Inv st'' := fun st'' hn => Or.inr (fun q hq => by rw [hn] at hq; cases hq)
      rcases TTMLR.dec_text st st' s hp hf h with ⟨_, e⟩ | ⟨_, e⟩ | ⟨_, _, e⟩ <;> subst e <;> exact ⟨rfl, hf, vac _ hp⟩
    | some p =>
      rcases hi with hi | hi
      · rw [hf] at hi; cases hi
      obtain ⟨base, hb, hpath⟩ := hi p hp
      unfold step at h
      simp only [hp, hf, Bool.false_eq_true, if_false] at h
      split at h
      · cases h
      · split at h
        · rename_i ss hs
          split at h
          · cases h
          · simp only [Option.some.injEq] at h
            subst h
            refine ⟨rfl, rfl, Or.inr ?_⟩
            intro q hq
            simp only [Option.some.injEq] at hq
            subst hq
            exact ⟨base, hb, by simpa [preOf, hs] using hpath⟩
        · rename_i hs
          split at h
          · split at h
            · simp only [Option.some.injEq] at h
              subst h
              exact ⟨rfl, hf, Or.inr (fun q hq => by rw [hp] at hq; cases hq; exact ⟨base, hb, hpath⟩)⟩
            · cases h
          · split at h
            · cases h
            · split at h
              · cases h
              · simp only [Option.some.injEq] at h
                subst h
                refine ⟨rfl, rfl, Or.inr ?_⟩
                intro q hq
                simp only [Option.some.injEq] at hq
                subst hq
                exact ⟨base, hb, by simpa [preOf, hs] using hpath⟩

/-- the condition under which `dropIndent` keeps a character-data token whatever it holds -/
def keepTop (stack : List Str) : Bool :=
  match stack with
  | p :: _ => p = "span".toList || p = "title".toList || p = "copyright".toList
  | [] => false

theorem head_preOf (p : PState) (base : List Str) (x : Str) (h : (preOf p ++ base).head? = some x)
    (h1 : x ≠ "br".toList) (h2 : x ≠ "span".toList) : p.inBr = false ∧ p.span = none := by
  cases hbr : p.inBr with
  | true =>
    simp only [preOf, hbr, if_true, List.cons_append, List.nil_append, List.head?_cons, Option.some.injEq] at h
    exact absurd h.symm h1
  | false =>
    cases hs : p.span with
    | none => exact ⟨rfl, rfl⟩
    | some ss =>
      simp only [preOf, hbr, hs, Bool.false_eq_true, if_false, Option.isSome_some, if_true, List.nil_append,
        List.cons_append, List.head?_cons, Option.some.injEq] at h
      exact absurd h.symm h2

/-- a white-space token with a line feed, outside `span` / `title` / `copyright` / `br`, changes nothing -/
theorem text_noop (st : St) (s : Str) (hi : Inv st) (hsp : allSpace s = true) (hnl : hasNL s = true)
    (hk : st.finished = true ∨ (keepTop st.path = false ∧ st.path.head? ≠ some "br".toList)) :
    step st (.text s) = some st := by
  cases hf : st.finished with
  | true =>
    unfold step
    simp only [hf, if_true, hsp]
  | false =>
    rcases hk with hk | ⟨hk1, hk2⟩
    · rw [hf] at hk; cases hk
    cases hp : st.p with
    | some p =>
      rcases hi with hi | hi
      · rw [hf] at hi; cases hi
      obtain ⟨base, hb, hpath⟩ := hi p hp
      cases hpp : st.path with
      | nil => rw [hpath] at hpp; simp at hpp; rw [hpp.2] at hb; cases hb
      | cons x rest =>
        have hx1 : x ≠ "br".toList := by
          intro e; rw [hpp, e] at hk2; exact hk2 rfl
        have hx2 : x ≠ "span".toList := by
          intro e
          rw [hpp, e] at hk1
          simp [keepTop] at hk1
        obtain ⟨i1, i2⟩ := head_preOf p base x (by rw [← hpath, hpp]; rfl) hx1 hx2
        unfold step
        simp only [hp, hf, Bool.false_eq_true, if_false, i1, i2, hsp, hnl, if_true]
    | none =>
      unfold step
      simp only [hp, hf, Bool.false_eq_true, if_false]
      split
      · rename_i heq
        have := TTMLR.map_ofList_eq heq
        rw [this] at hk1
        exact absurd hk1 (by decide)
      · rename_i heq
        have := TTMLR.map_ofList_eq heq
        rw [this] at hk1
        exact absurd hk1 (by decide)
      · rfl

theorem step_other_any (st : St) : step st .other = some st := by
  unfold step
  cases st.finished <;> simp

theorem step_fin_start (st : St) (hf : st.finished = true) (sp n : Str) (a : List TTMLW2.XAttr) :
    step st (.start sp n a) = none := by
  unfold step; simp [hf]

theorem step_fin_stop (st : St) (hf : st.finished = true) : step st .stop = none := by
  unfold step; simp [hf]

theorem dropIndent_text (s : Str) (rest : List XTok) (stack : List Str) :
    dropIndent (.text s :: rest) stack
      = if (!keepTop stack && s.all isSpace) = true then dropIndent rest stack else .text s :: dropIndent rest stack := by
  cases stack <;> rfl

theorem indentOk_text (s : Str) (rest : List XTok) (stack : List Str) :
    indentOk (.text s :: rest) stack
      = ((if (!keepTop stack && s.all isSpace) = true then hasNL s && !(stack.head? == some "br".toList) else true)
          && indentOk rest stack) := by
  cases stack <;> rfl

/-- **The decoder's run does not see the indentation.** -/
theorem run_dropIndent : ∀ (toks : List XTok) (stack : List Str) (st : St), Inv st →
    (st.finished = true ∨ st.path = stack) → indentOk toks stack = true →
    run (specToks toks) st = run (specToks (dropIndent toks stack)) st := by
  intro toks
  induction toks with
  | nil => intro stack st _ _ _; rfl
  | cons t rest ih =>
    intro stack st hi hrel hok
    cases t with
    | start sp n a =>
      rw [dropIndent, TTMLR.specToks_start, TTMLR.specToks_start, TTMLR.run_cons, TTMLR.run_cons]
      simp only [indentOk] at hok
      cases hs : step st (.start sp n a) with
      | none => rfl
      | some st' =>
        simp only
        cases hf : st.finished with
        | true => rw [step_fin_start st hf] at hs; cases hs
        | false =>
          have hpath : st.path = stack := by
            rcases hrel with h | h
            · rw [hf] at h; cases h
            · exact h
          cases hp : st.p with
          | some p =>
            obtain ⟨e1, e2, e3⟩ := start_in st st' p sp n a hp hf hi hs
            exact ih (n :: stack) st' e3 (Or.inr (by rw [e1, hpath])) hok
          | none =>
            obtain ⟨e1, e2, e3⟩ := start_out st st' sp n a hp hf hs
            exact ih (n :: stack) st' e3 (Or.inr (by rw [e1, hpath])) hok
    | stop sp n =>
      rw [dropIndent, TTMLR.specToks_stop, TTMLR.specToks_stop, TTMLR.run_cons, TTMLR.run_cons]
      simp only [indentOk] at hok
      cases hs : step st .stop with
      | none => rfl
      | some st' =>
        simp only
        cases hf : st.finished with
        | true => rw [step_fin_stop st hf] at hs; cases hs
        | false =>
          have hpath : st.path = stack := by
            rcases hrel with h | h
            · rw [hf] at h; cases h
            · exact h
          cases hp : st.p with
          | some p =>
            obtain ⟨e1, e2, e3⟩ := stop_in st st' p hp hf hi hs
            exact ih stack.tail st' e3 (Or.inr (by rw [e1, hpath])) hok
          | none =>
            obtain ⟨e1, e3⟩ := stop_out st st' hp hf hs
            exact ih stack.tail st' e3 (Or.inr (by rw [e1, hpath])) hok
    | other =>
      rw [dropIndent, TTMLR.specToks_other, TTMLR.specToks_other, TTMLR.run_cons, TTMLR.run_cons, step_other_any]
      simp only [indentOk] at hok
      exact ih stack st hi hrel hok
    | text s =>
      rw [dropIndent_text]
      rw [indentOk_text, Bool.and_eq_true] at hok
      obtain ⟨hcond, hok'⟩ := hok
      by_cases hd : (!keepTop stack && s.all isSpace) = true
      · -- dropped
        simp only [hd, if_true, Bool.and_eq_true, Bool.not_eq_true', beq_eq_false_iff_ne, ne_eq] at hcond ⊢
        simp only [Bool.and_eq_true, Bool.not_eq_true'] at hd
        rw [TTMLR.specToks_text, TTMLR.run_cons]
        have hno : step st (.text s) = some st := by
          apply text_noop st s hi hd.2 hcond.1
          rcases hrel with h | h
          · exact Or.inl h
          · exact Or.inr (by rw [h]; exact ⟨hd.1, hcond.2⟩)
        rw [hno]
        exact ih stack st hi hrel hok'
      · -- kept
        simp only [hd, Bool.false_eq_true, if_false]
        rw [TTMLR.specToks_text, TTMLR.specToks_text, TTMLR.run_cons, TTMLR.run_cons]
        cases hs : step st (.text s) with
        | none => rfl
        | some st' =>
          obtain ⟨e1, e2, e3⟩ := text_step st st' s hi hs
          simp only
          apply ih stack st' e3 _ hok'
          rcases hrel with h | h
          · exact Or.inl (by rw [e2, h])
          · exact Or.inr (by rw [e1, h])

/-- **Indentation is invisible to the decoder** (all token lists): if every character-data token `dropIndent` removes
    holds a line feed and is not directly inside a `br`, decoding the tokens and decoding them without those tokens
    give the same answer. -/
theorem decode_dropIndent (toks : List XTok) (h : indentOk toks [] = true) :
    decode (specToks toks) = decode (specToks (dropIndent toks [])) := by
  unfold decode
  rw [run_dropIndent toks [] {} inv_init (Or.inr rfl) h]

end TTMLW2
end Astisub
