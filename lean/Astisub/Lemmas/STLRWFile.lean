import Astisub.Lemmas.STLRWTti

/-!
# Lemmas/STLRWFile — the whole file written from what was read back

`out` = the file the writer model produces for metadata `m` and cues `cs`; `(m2, items2)` = what the reader model
returns for `out`; `again` = the file the writer model produces for `m2` and `items2.map Driver.STLD.cueOf`.

* `gsi_split` — the GSI block is `gsiHead` (bytes 0–255) ++ the programme-start field (256–263) ++ `gsiTail`
  (264–1023);
* `gsi2_head`, `gsi2_tail`, `gsi2_tcp` — head and tail of the second GSI block are those of the first, whatever the
  second writing day; the programme-start field too when the reader did not zero it;
* `rewrite_file` — the second write answers, and `again` is the second GSI block followed by *the TTI blocks of
  `out`*.
-/

namespace Astisub
namespace C05
open Go STL

/-! ## the GSI block in three parts -/

/-- bytes 0–255 of the GSI block: code page, disk format code, display standard, character table, language code,
    the six titles / names, reference code, creation and revision date, revision number, the three counts, maximum
    characters / rows, time code status -/
def gsiHead (g : WGSI) : Bytes :=
  [0x38, 0x35, 0x30] ++ padR 0x20 8 ((dfcOf g.m.framerate).getD []) ++ padR 0x20 1 g.m.dsc ++ [0x30, 0x30]
    ++ padR 0x20 2 g.langCode ++ padR 0x20 32 g.m.title ++ padR 0x20 32 g.m.origEpisode ++ padR 0x20 32 g.m.translProgram
    ++ padR 0x20 32 g.m.translEpisode ++ padR 0x20 32 g.m.translName ++ padR 0x20 32 g.m.translContact
    ++ padR 0x20 16 g.m.slr ++ padR 0x20 6 (formatDate (g.m.creation.getD zeroDate))
    ++ padR 0x20 6 (formatDate (g.m.revisionDate.getD zeroDate))
    ++ num 2 g.m.revisionNumber ++ num 5 (g.n : Int) ++ num 5 (g.n : Int) ++ num 3 1 ++ num 2 (g.m.maxChars.getD 0)
    ++ num 2 (g.m.maxRows.getD 0) ++ [0x31]

/-- bytes 256–263: the programme start, `HHMMSSFF` -/
def gsiTcpField (g : WGSI) : Bytes := padR 0x20 8 (ascii (Duration.formatSTL g.m.tcp g.m.framerate.toNat))

/-- bytes 264–1023: first in-cue, number of disks, disk sequence number, country, publisher, editor's name and
    contact, the unused rest -/
def gsiTail (g : WGSI) : Bytes :=
  padR 0x20 8 (ascii (Duration.formatSTL g.tcf g.m.framerate.toNat))
    ++ [0x31, 0x31] ++ padR 0x20 3 g.m.country ++ padR 0x20 32 g.m.publisher ++ padR 0x20 32 g.m.editorName
    ++ padR 0x20 32 g.m.editorContact ++ List.replicate 651 0x20

theorem gsi_split (g : WGSI) : gsiBytes g = gsiHead g ++ (gsiTcpField g ++ gsiTail g) := by
  unfold gsiBytes gsiHead gsiTcpField gsiTail
  simp only [List.append_assoc, List.cons_append, List.nil_append]

theorem gsiHead_length (g : WGSI) : (gsiHead g).length = 256 := by
  unfold gsiHead
  simp only [List.length_append, padR_length, num_length, List.length_cons, List.length_nil]

theorem gsiTcpField_length (g : WGSI) : (gsiTcpField g).length = 8 := padR_length _ _ _

/-! ## the language code survives -/

theorem lang_stable_table : ∀ e ∈ Generated.STL.languages,
    (languageCodeOf ((languageOf e.2.2).getD [])).getD (lit "0F") = e.2.2 := by decide

/-- the language code the writer chooses is one the reader has a name for, and that name is written as that code -/
theorem lang_stable (name : Bytes) :
    (languageCodeOf ((languageOf ((languageCodeOf name).getD (lit "0F"))).getD [])).getD (lit "0F")
      = (languageCodeOf name).getD (lit "0F") := by
  unfold languageCodeOf
  cases h : Generated.STL.languages.find? fun e => e.2.1 == name with
  | none => decide
  | some e => exact lang_stable_table e (List.mem_of_find?_eq_some h)

/-! ## the second GSI block -/

/-- what the second GSI block needs of the first: frame rate 25 / 30, open subtitling, options set, and a language
    code that is stable; all true of `newGSI now (some m) cues` for `MetaOK` metadata -/
structure Gsi1 (G : WGSI) : Prop where
  fr : G.m.framerate = 25 ∨ G.m.framerate = 30
  dsc : G.m.dsc = [0x30]
  cd : G.m.creation.isSome
  rd : G.m.revisionDate.isSome
  mc : G.m.maxChars.isSome
  mr : G.m.maxRows.isSome
  lang : (languageCodeOf ((languageOf G.langCode).getD [])).getD (lit "0F") = G.langCode

theorem newGSI_gsi1 (now : Date) (m : Meta) (cues : List WCue) (hm : MetaOK now m (firstStart cues)) :
    Gsi1 (newGSI now (some m) cues) := by
  obtain ⟨hG, hdsc⟩ := newGSI_ok now m cues hm
  exact ⟨hG.1, hdsc, rfl, rfl, rfl, rfl, lang_stable m.language⟩

theorem gsi2_framerate (G : WGSI) (h : Gsi1 G) (ig : Bool) (now2 : Date) (cues2 : List WCue) :
    (newGSI now2 (some (readMeta ig (gsiBack G))) cues2).m.framerate = G.m.framerate := by
  have e : (readMeta ig (gsiBack G)).framerate = G.m.framerate := by cases ig <;> rfl
  have hdfc : (dfcOf (readMeta ig (gsiBack G)).framerate).isSome = true := by
    rw [e]; rcases h.fr with e' | e' <;> rw [e'] <;> decide
  unfold newGSI
  simp only [hdfc, if_true]
  exact e

theorem gsi2_dsc (G : WGSI) (h : Gsi1 G) (ig : Bool) (now2 : Date) (cues2 : List WCue) :
    (newGSI now2 (some (readMeta ig (gsiBack G))) cues2).m.dsc = G.m.dsc := by
  have e : (readMeta ig (gsiBack G)).dsc = G.m.dsc := by cases ig <;> rfl
  unfold newGSI
  simp only [e, h.dsc]
  rfl

theorem gsi2_tcp (G : WGSI) (ig : Bool) (now2 : Date) (cues2 : List WCue) :
    (newGSI now2 (some (readMeta ig (gsiBack G))) cues2).m.tcp = (readMeta ig (gsiBack G)).tcp := rfl

theorem getD_of_isSome {α} (o : Option α) (d e : α) (h : o.isSome) : some ((some (o.getD d)).getD e) = o := by
  cases o with
  | none => cases h
  | some x => rfl

/-- **bytes 0–255 of the second GSI block are those of the first**, on whatever day it is written, with or without
    `IgnoreTimecodeStartOfProgramme`, provided the same number of cues is written -/
theorem gsi2_head (G : WGSI) (h : Gsi1 G) (ig : Bool) (now2 : Date) (cues2 : List WCue) (hn : cues2.length = G.n) :
    gsiHead (newGSI now2 (some (readMeta ig (gsiBack G))) cues2) = gsiHead G := by
  have hfr := gsi2_framerate G h ig now2 cues2
  have hdsc := gsi2_dsc G h ig now2 cues2
  generalize hG2 : newGSI now2 (some (readMeta ig (gsiBack G))) cues2 = G2 at hfr hdsc
  have hlang : G2.langCode = G.langCode := by
    rw [← hG2]
    have : (newGSI now2 (some (readMeta ig (gsiBack G))) cues2).langCode
        = (languageCodeOf ((languageOf G.langCode).getD [])).getD (lit "0F") := by cases ig <;> rfl
    rw [this, h.lang]
  have hcd : G2.m.creation = G.m.creation := by
    rw [← hG2]
    have : (newGSI now2 (some (readMeta ig (gsiBack G))) cues2).m.creation
        = some ((some (G.m.creation.getD zeroDate)).getD now2) := by cases ig <;> rfl
    rw [this, getD_of_isSome _ _ _ h.cd]
  have hrd : G2.m.revisionDate = G.m.revisionDate := by
    rw [← hG2]
    have : (newGSI now2 (some (readMeta ig (gsiBack G))) cues2).m.revisionDate
        = some ((some (G.m.revisionDate.getD zeroDate)).getD now2) := by cases ig <;> rfl
    rw [this, getD_of_isSome _ _ _ h.rd]
  have hmc : G2.m.maxChars = G.m.maxChars := by
    rw [← hG2]
    have : (newGSI now2 (some (readMeta ig (gsiBack G))) cues2).m.maxChars
        = some ((some (G.m.maxChars.getD 0)).getD 40) := by cases ig <;> rfl
    rw [this, getD_of_isSome _ _ _ h.mc]
  have hmr : G2.m.maxRows = G.m.maxRows := by
    rw [← hG2]
    have : (newGSI now2 (some (readMeta ig (gsiBack G))) cues2).m.maxRows
        = some ((some (G.m.maxRows.getD 0)).getD 23) := by cases ig <;> rfl
    rw [this, getD_of_isSome _ _ _ h.mr]
  have hnn : G2.n = G.n := by rw [← hG2, ← hn]; rfl
  have f1 : G2.m.title = G.m.title := by rw [← hG2]; cases ig <;> rfl
  have f2 : G2.m.origEpisode = G.m.origEpisode := by rw [← hG2]; cases ig <;> rfl
  have f3 : G2.m.translProgram = G.m.translProgram := by rw [← hG2]; cases ig <;> rfl
  have f4 : G2.m.translEpisode = G.m.translEpisode := by rw [← hG2]; cases ig <;> rfl
  have f5 : G2.m.translName = G.m.translName := by rw [← hG2]; cases ig <;> rfl
  have f6 : G2.m.translContact = G.m.translContact := by rw [← hG2]; cases ig <;> rfl
  have f7 : G2.m.slr = G.m.slr := by rw [← hG2]; cases ig <;> rfl
  have f8 : G2.m.revisionNumber = G.m.revisionNumber := by rw [← hG2]; cases ig <;> rfl
  unfold gsiHead
  rw [hfr, hdsc, hlang, hcd, hrd, hmc, hmr, hnn, f1, f2, f3, f4, f5, f6, f7, f8]

/-- **bytes 264–1023 too**, when the first cue written again starts (programme start included) on the frame of
    the first cue of the first file -/
theorem gsi2_tail (G : WGSI) (h : Gsi1 G) (ig : Bool) (now2 : Date) (cues2 : List WCue)
    (htcf : Duration.formatSTL (newGSI now2 (some (readMeta ig (gsiBack G))) cues2).tcf G.m.framerate.toNat
      = Duration.formatSTL G.tcf G.m.framerate.toNat) :
    gsiTail (newGSI now2 (some (readMeta ig (gsiBack G))) cues2) = gsiTail G := by
  have hfr := gsi2_framerate G h ig now2 cues2
  generalize hG2 : newGSI now2 (some (readMeta ig (gsiBack G))) cues2 = G2 at hfr htcf
  have f1 : G2.m.country = G.m.country := by rw [← hG2]; cases ig <;> rfl
  have f2 : G2.m.publisher = G.m.publisher := by rw [← hG2]; cases ig <;> rfl
  have f3 : G2.m.editorName = G.m.editorName := by rw [← hG2]; cases ig <;> rfl
  have f4 : G2.m.editorContact = G.m.editorContact := by rw [← hG2]; cases ig <;> rfl
  unfold gsiTail
  rw [hfr, htcf, f1, f2, f3, f4]

/-- **bytes 256–263 (programme start)** are unchanged when the reader kept the programme start and it lies within
    a day; they are `00000000` when the reader was told to ignore it -/
theorem gsi2_tcpField (G : WGSI) (h : Gsi1 G) (now2 : Date) (cues2 : List WCue) (hday : InDay G.m.tcp) :
    gsiTcpField (newGSI now2 (some (readMeta false (gsiBack G))) cues2) = gsiTcpField G := by
  have hfr := gsi2_framerate G h false now2 cues2
  unfold gsiTcpField
  rw [hfr, gsi2_tcp]
  obtain ⟨fr, hfrN, hfrI⟩ : ∃ fr : Nat, (fr = 25 ∨ fr = 30) ∧ G.m.framerate = (fr : Int) := by
    rcases h.fr with e | e
    · exact ⟨25, Or.inl rfl, e⟩
    · exact ⟨30, Or.inr rfl, e⟩
  have e : (readMeta false (gsiBack G)).tcp = frameInstant (fr : Int) G.m.tcp := by
    unfold readMeta gsiBack; simp only [Bool.false_eq_true, if_false, hfrI]
  rw [e, hfrI, Int.toNat_natCast, formatSTL_rewrite _ fr hfrN hday.1 hday.2]

theorem gsi2_tcpField_ignored (G : WGSI) (h : Gsi1 G) (now2 : Date) (cues2 : List WCue) :
    gsiTcpField (newGSI now2 (some (readMeta true (gsiBack G))) cues2) = lit "00000000" := by
  have hfr := gsi2_framerate G h true now2 cues2
  unfold gsiTcpField
  rw [hfr, gsi2_tcp]
  have e : (readMeta true (gsiBack G)).tcp = 0 := rfl
  rw [e]
  rcases h.fr with e' | e' <;> rw [e'] <;> decide

/-! ## the cues written again -/

/-- the cues handed to the second write: `cueOf` of every cue read back -/
theorem cues2_eq (R : GSI) (G : WGSI) (off : Int) (cs : List MCue) (hok : ∀ c ∈ cs, c.ok) :
    (cs.map fun c => ttiCueM R G off c).map Driver.STLD.cueOf = (cs.map (backCue G off)).map MCue.toW := by
  rw [List.map_map, List.map_map]
  apply List.map_congr_left
  intro c hc
  exact cueOf_ttiCueM R G off c (fun l hl => ((hok c hc).1 l hl).2)

/-- the TTI blocks written from the cues read back are the TTI blocks read -/
theorem ttiBlocks_back (G G2 : WGSI) (off : Int) (fr : Nat) (cs : List MCue)
    (hfr : fr = 25 ∨ fr = 30) (hg : G.m.framerate = (fr : Int)) (hg2 : G2.m.framerate = (fr : Int))
    (hdsc : G.m.dsc = [0x30]) (hdsc2 : G2.m.dsc = [0x30]) (htcp : G2.m.tcp = off) (hok : ∀ c ∈ cs, c.ok)
    (hday : ∀ c ∈ cs, InDay (c.startAt + G.m.tcp) ∧ InDay (c.endAt + G.m.tcp)) :
    ttiBlocks G2 (cs.map (backCue G off)) = ttiBlocks G cs := by
  unfold ttiBlocks
  rw [List.zipIdx_map, List.map_map]
  apply List.map_congr_left
  intro p hp
  have hc := mem_zipIdx_fst hp
  exact ttiBytes_back G G2 off fr (p.2 + 1) p.1 hfr hg hg2 hdsc hdsc2 htcp (hok p.1 hc) (hday p.1 hc).1 (hday p.1 hc).2

theorem write_body_of_ok {now : Date} {md : Option Meta} {cues : List WCue} {b : Bytes} (hw : write now md cues = .ok b) :
    b = writeBody now md cues := by
  unfold write at hw
  split at hw
  · cases hw
  · split at hw
    · cases hw
    · exact (Res.ok.inj hw).symm

/-- **the second write.**  `G` the first GSI block, `m2` / `off` the metadata / programme start the reader returned,
    `G2` the second GSI block: the writer model answers for the cues read back, with `gsiBytes G2` followed by the
    TTI blocks of the first file -/
theorem rewrite_file (ig : Bool) (now now2 : Date) (m : Meta) (cs : List MCue) (hne : cs ≠ [])
    (hm : MetaOK now m (firstStart (cs.map MCue.toW))) (htcp : 0 ≤ m.tcp) (hok : ∀ c ∈ cs, c.ok)
    (hday : ∀ c ∈ cs, InDay (c.startAt + m.tcp) ∧ InDay (c.endAt + m.tcp)) :
    write now2 (some (readMeta ig (gsiBack (newGSI now (some m) (cs.map MCue.toW)))))
        ((cs.map fun c => ttiCueM (gsiBack (newGSI now (some m) (cs.map MCue.toW))) (newGSI now (some m) (cs.map MCue.toW))
            (readMeta ig (gsiBack (newGSI now (some m) (cs.map MCue.toW)))).tcp c).map Driver.STLD.cueOf)
      = .ok (gsiBytes (newGSI now2 (some (readMeta ig (gsiBack (newGSI now (some m) (cs.map MCue.toW)))))
              ((cs.map fun c => ttiCueM (gsiBack (newGSI now (some m) (cs.map MCue.toW))) (newGSI now (some m) (cs.map MCue.toW))
                (readMeta ig (gsiBack (newGSI now (some m) (cs.map MCue.toW)))).tcp c).map Driver.STLD.cueOf))
            ++ (ttiBlocks (newGSI now (some m) (cs.map MCue.toW)) cs).flatten) := by
  have h1 := newGSI_gsi1 now m (cs.map MCue.toW) hm
  have htcpU : m.tcp < 360000000000000 := by
    obtain ⟨_, _, _, _, _, _, _, _, _, _, _, _, _, _, _, _, _, _, h, _⟩ := hm
    exact h
  have hGtcp : (newGSI now (some m) (cs.map MCue.toW)).m.tcp = m.tcp := rfl
  generalize hGd : newGSI now (some m) (cs.map MCue.toW) = G at h1 hGtcp
  obtain ⟨fr, hfrN, hfrI⟩ : ∃ fr : Nat, (fr = 25 ∨ fr = 30) ∧ G.m.framerate = (fr : Int) := by
    rcases h1.fr with e | e
    · exact ⟨25, Or.inl rfl, e⟩
    · exact ⟨30, Or.inr rfl, e⟩
  have hoff : (readMeta ig (gsiBack G)).tcp = if ig then 0 else frameInstant (fr : Int) m.tcp := by
    unfold readMeta gsiBack; cases ig <;> simp [hfrI, hGtcp]
  have hoff0 : 0 ≤ (readMeta ig (gsiBack G)).tcp := by
    rw [hoff]
    cases ig
    · simp only [Bool.false_eq_true, if_false]
      exact frameInstant_nonneg _ fr hfrN htcp (by omega)
    · simp
  rw [cues2_eq _ _ _ cs hok]
  have hday' : ∀ c ∈ cs, InDay (c.startAt + G.m.tcp) ∧ InDay (c.endAt + G.m.tcp) := by rw [hGtcp]; exact hday
  have hok2 : ∀ c ∈ cs.map (backCue G (readMeta ig (gsiBack G)).tcp), c.ok := by
    intro c hc
    obtain ⟨c0, hc0, rfl⟩ := List.mem_map.mp hc
    exact backCue_ok G _ c0 (hok c0 hc0)
  have ht2 : ∀ c ∈ cs.map (backCue G (readMeta ig (gsiBack G)).tcp), MTimesOK (readMeta ig (gsiBack G)).tcp c := by
    intro c hc
    obtain ⟨c0, hc0, rfl⟩ := List.mem_map.mp hc
    obtain ⟨⟨s0, s1⟩, ⟨e0, e1⟩⟩ := hday' c0 hc0
    have n1 := frameInstant_nonneg _ fr hfrN s0 (by omega)
    have n2 := frameInstant_nonneg _ fr hfrN e0 (by omega)
    unfold MTimesOK backCue
    simp only [hfrI]
    omega
  rw [write_okM now2 _ _ (by simpa using hne) hoff0 hok2 ht2, writeBody_eq]
  generalize hG2d : newGSI now2 (some (readMeta ig (gsiBack G))) ((cs.map (backCue G (readMeta ig (gsiBack G)).tcp)).map MCue.toW) = G2
  have hG2fr : G2.m.framerate = (fr : Int) := by rw [← hG2d, gsi2_framerate G h1, hfrI]
  have hG2dsc : G2.m.dsc = [0x30] := by rw [← hG2d, gsi2_dsc G h1, h1.dsc]
  have hG2tcp : G2.m.tcp = (readMeta ig (gsiBack G)).tcp := by rw [← hG2d]; rfl
  rw [ttiBlocks_back G G2 _ fr cs hfrN hfrI hG2fr h1.dsc hG2dsc hG2tcp hok hday']

/-! ## the shape of the two files -/

/-- the first in-cue field of the second GSI block shows the same eight digits -/
theorem gsi2_tcf (ig : Bool) (now now2 : Date) (m : Meta) (cs : List MCue) (hne : cs ≠ [])
    (hm : MetaOK now m (firstStart (cs.map MCue.toW)))
    (hday : ∀ c ∈ cs, InDay (c.startAt + m.tcp) ∧ InDay (c.endAt + m.tcp)) :
    Duration.formatSTL (newGSI now2 (some (readMeta ig (gsiBack (newGSI now (some m) (cs.map MCue.toW)))))
        ((cs.map (backCue (newGSI now (some m) (cs.map MCue.toW))
          (readMeta ig (gsiBack (newGSI now (some m) (cs.map MCue.toW)))).tcp)).map MCue.toW)).tcf
        (newGSI now (some m) (cs.map MCue.toW)).m.framerate.toNat
      = Duration.formatSTL (newGSI now (some m) (cs.map MCue.toW)).tcf (newGSI now (some m) (cs.map MCue.toW)).m.framerate.toNat := by
  have h1 := newGSI_gsi1 now m (cs.map MCue.toW) hm
  cases cs with
  | nil => exact absurd rfl hne
  | cons c0 rest =>
    have htcf : (newGSI now (some m) ((c0 :: rest).map MCue.toW)).tcf = c0.startAt + m.tcp := rfl
    have hGtcp : (newGSI now (some m) ((c0 :: rest).map MCue.toW)).m.tcp = m.tcp := rfl
    generalize newGSI now (some m) ((c0 :: rest).map MCue.toW) = G at h1 htcf hGtcp
    obtain ⟨fr, hfrN, hfrI⟩ : ∃ fr : Nat, (fr = 25 ∨ fr = 30) ∧ G.m.framerate = (fr : Int) := by
      rcases h1.fr with e | e
      · exact ⟨25, Or.inl rfl, e⟩
      · exact ⟨30, Or.inr rfl, e⟩
    have e2 : (newGSI now2 (some (readMeta ig (gsiBack G)))
        (((c0 :: rest).map (backCue G (readMeta ig (gsiBack G)).tcp)).map MCue.toW)).tcf
          = frameInstant (fr : Int) (c0.startAt + m.tcp) := by
      have : (newGSI now2 (some (readMeta ig (gsiBack G)))
          (((c0 :: rest).map (backCue G (readMeta ig (gsiBack G)).tcp)).map MCue.toW)).tcf
            = (backCue G (readMeta ig (gsiBack G)).tcp c0).startAt + (readMeta ig (gsiBack G)).tcp := rfl
      rw [this]
      simp only [backCue, hfrI, hGtcp]
      omega
    obtain ⟨s0, s1⟩ := (hday c0 (by simp)).1
    rw [e2, htcf, hfrI, Int.toNat_natCast, formatSTL_rewrite _ fr hfrN s0 s1]

/-- **the two files side by side.**  With `out` the first file, `(m2, items2)` what the reader returned and `again`
    the second file: both are `H ++ (M ++ (T ++ B))` with the same 256 bytes `H`, the same 760 bytes `T`, the same
    TTI blocks `B`; the eight bytes of the programme-start field are equal too when the reader kept the programme
    start (and it lies within a day), and `00000000` when it was told to ignore it -/
theorem rewrite_shape (ig : Bool) (now now2 : Date) (m : Meta) (cs : List MCue) (hne : cs ≠ [])
    (hm : MetaOK now m (firstStart (cs.map MCue.toW))) (htcp : 0 ≤ m.tcp) (hok : ∀ c ∈ cs, c.ok)
    (hday : ∀ c ∈ cs, InDay (c.startAt + m.tcp) ∧ InDay (c.endAt + m.tcp))
    (out : Bytes) (m2 : Meta) (items2 : List CItem)
    (hw : write now (some m) (cs.map MCue.toW) = .ok out) (hr : STL.read ig out = .ok (m2, items2)) :
    ∃ H M M' T B, write now2 (some m2) (items2.map Driver.STLD.cueOf) = .ok (H ++ (M' ++ (T ++ B))) ∧
      out = H ++ (M ++ (T ++ B)) ∧ H.length = 256 ∧ M.length = 8 ∧ M'.length = 8 ∧ T.length = 760 ∧
      B.length = 128 * cs.length ∧
      (ig = false → InDay m.tcp → M' = M) ∧ (ig = true → M' = lit "00000000") := by
  have hout := write_body_of_ok hw
  obtain ⟨hG, hdsc⟩ := newGSI_ok now m (cs.map MCue.toW) hm
  have hread := read_writeBodyM ig now (some m) cs hG hdsc hok
  rw [← hout, hr] at hread
  have hinj := Res.ok.inj hread
  obtain ⟨hm2, hitems⟩ := Prod.mk.inj hinj
  subst hm2
  subst hitems
  have hw2 := rewrite_file ig now now2 m cs hne hm htcp hok hday
  have h1 := newGSI_gsi1 now m (cs.map MCue.toW) hm
  have hcues : (cs.map fun c => ttiCueM (gsiBack (newGSI now (some m) (cs.map MCue.toW))) (newGSI now (some m) (cs.map MCue.toW))
            (readMeta ig (gsiBack (newGSI now (some m) (cs.map MCue.toW)))).tcp c).map Driver.STLD.cueOf
      = (cs.map (backCue (newGSI now (some m) (cs.map MCue.toW))
          (readMeta ig (gsiBack (newGSI now (some m) (cs.map MCue.toW)))).tcp)).map MCue.toW := by
    exact cues2_eq _ _ _ cs hok
  generalize (cs.map fun c => ttiCueM (gsiBack (newGSI now (some m) (cs.map MCue.toW))) (newGSI now (some m) (cs.map MCue.toW))
            (readMeta ig (gsiBack (newGSI now (some m) (cs.map MCue.toW)))).tcp c).map Driver.STLD.cueOf = cues2 at hw2 hcues ⊢
  have hhead := gsi2_head _ h1 ig now2 cues2 (by rw [hcues]; simp [newGSI])
  have htail := gsi2_tail _ h1 ig now2 cues2 (by rw [hcues]; exact gsi2_tcf ig now now2 m cs hne hm hday)
  have hGtcp : (newGSI now (some m) (cs.map MCue.toW)).m.tcp = m.tcp := rfl
  refine ⟨gsiHead (newGSI now (some m) (cs.map MCue.toW)), gsiTcpField (newGSI now (some m) (cs.map MCue.toW)),
    gsiTcpField (newGSI now2 (some (readMeta ig (gsiBack (newGSI now (some m) (cs.map MCue.toW))))) cues2), gsiTail (newGSI now (some m) (cs.map MCue.toW)),
    (ttiBlocks (newGSI now (some m) (cs.map MCue.toW)) cs).flatten, ?_, ?_, gsiHead_length _, gsiTcpField_length _,
    gsiTcpField_length _, ?_, ttiBlocks_flatten_length _ _, ?_, ?_⟩
  · rw [hw2, gsi_split, hhead, htail]
    simp only [List.append_assoc]
  · rw [hout, writeBody_eq, gsi_split]
    simp only [List.append_assoc]
  · have := gsiBytes_length (newGSI now (some m) (cs.map MCue.toW))
    rw [gsi_split, List.length_append, List.length_append, gsiHead_length, gsiTcpField_length] at this
    omega
  · intro hig hd
    subst hig
    exact gsi2_tcpField _ h1 now2 _ (by rw [hGtcp]; exact hd)
  · intro hig
    subst hig
    exact gsi2_tcpField_ignored _ h1 now2 _

end C05
end Astisub
