import Astisub.Lemmas.VTTRead2CueSim
import Astisub.Lemmas.VTTRead2TagView

/-!
# Lemmas/VTTRead2Block — header-metadata blocks, and every block of the decoder
-/

set_option linter.unusedSimpArgs false

namespace Astisub
namespace VTTRead
open Go Spec.VTT
open VTT (St step run Block)

/-! ### Region / X-TIMESTAMP-MAP lines -/

/-- the tests a metadata line passes (on the trimmed line) -/
def metaT (l : Str) : Bool := hasPrefix "Region: ".toList l || hasPrefix "X-TIMESTAMP-MAP".toList l

theorem prefix_tests_R {l : Str} (h : hasPrefix "Region: ".toList l = true) :
    noteTest l = false ∧ l ≠ "STYLE".toList ∧ noteLine l = none ∧ l ≠ [] := by
  have e := hasPrefix_split h
  generalize l.drop "Region: ".toList.length = r at e
  subst e
  refine ⟨?_, ?_, ?_, ?_⟩
  · unfold noteTest
    have a : ("Region: ".toList ++ r = "NOTE".toList) = False := by
      apply eq_false; intro x; rw [lit_region, lit_note] at x; simp at x
    have b : hasPrefix "NOTE ".toList ("Region: ".toList ++ r) = false := by
      rw [lit_region, lit_note_sp]; exact VTT.hasPrefix_ne _ _ (by decide)
    rw [b, Bool.or_false]; exact decide_eq_false (by rw [a]; exact fun x => x)
  · intro x; rw [lit_region, lit_style] at x; simp at x
  · unfold noteLine
    have a : ¬ ("Region: ".toList ++ r = "NOTE".toList) := by
      intro x; rw [lit_region, lit_note] at x; simp at x
    have b : dropPrefix? "NOTE".toList ("Region: ".toList ++ r) = none := by
      rw [lit_region, lit_note]; exact VTT.dropPrefix?_ne _ _ (by decide)
    rw [if_neg a, b]
  · rw [lit_region]; simp

theorem prefix_tests_X {l : Str} (h : hasPrefix "X-TIMESTAMP-MAP".toList l = true) :
    noteTest l = false ∧ l ≠ "STYLE".toList ∧ noteLine l = none ∧ l ≠ [] ∧
    hasPrefix "STYLE".toList l = false := by
  have e := hasPrefix_split h
  generalize l.drop "X-TIMESTAMP-MAP".toList.length = r at e
  subst e
  refine ⟨?_, ?_, ?_, ?_, ?_⟩
  · unfold noteTest
    have a : ("X-TIMESTAMP-MAP".toList ++ r = "NOTE".toList) = False := by
      apply eq_false; intro x; rw [lit_tsmap, lit_note] at x; simp at x
    have b : hasPrefix "NOTE ".toList ("X-TIMESTAMP-MAP".toList ++ r) = false := by
      rw [lit_tsmap, lit_note_sp]; exact VTT.hasPrefix_ne _ _ (by decide)
    rw [b, Bool.or_false]; exact decide_eq_false (by rw [a]; exact fun x => x)
  · intro x; rw [lit_tsmap, lit_style] at x; simp at x
  · unfold noteLine
    have a : ¬ ("X-TIMESTAMP-MAP".toList ++ r = "NOTE".toList) := by
      intro x; rw [lit_tsmap, lit_note] at x; simp at x
    have b : dropPrefix? "NOTE".toList ("X-TIMESTAMP-MAP".toList ++ r) = none := by
      rw [lit_tsmap, lit_note]; exact VTT.dropPrefix?_ne _ _ (by decide)
    rw [if_neg a, b]
  · rw [lit_tsmap]; simp
  · rw [lit_tsmap, lit_style]; exact VTT.hasPrefix_ne _ _ (by decide)

/-- one step of the decoder's fold over a metadata block -/
def metaStep (acc : Option DocSt) (l : Str) : Option DocSt :=
  match acc with
  | none => none
  | some st =>
    if hasPrefix "Region: ".toList l then
      match regionLine l with
      | some r => if st.regions.any (·.id = r.id) then none else some { st with regions := st.regions ++ [r] }
      | none => none
    else match tsmapLine l with
      | some m => if st.tsmap.isSome || !st.cues.isEmpty then none else some { st with tsmap := some m }
      | none => none

theorem foldl_metaStep_none (b : List Str) : b.foldl metaStep none = none := by
  induction b with
  | nil => rfl
  | cons l ls ih => simpa [List.foldl, metaStep] using ih

theorem mapM_nil_inv {α β} (f : α → Option β) : ∀ (l : List α), mapM f l = some [] → l = [] := by
  intro l h
  cases l with
  | nil => rfl
  | cons a as =>
    simp only [mapM] at h
    cases hfa : f a with
    | none => rw [hfa] at h; cases h
    | some x =>
      cases hm : mapM f as with
      | none => rw [hfa, hm] at h; cases h
      | some xs => rw [hfa, hm] at h; cases h

theorem sim_meta_line {ds ds1 : DocSt} {ms : St} (hR : R ds ms) (hB : Between ms) (l : Str)
    (hl : BLine l) (hok : regionOK l = true) (hm : metaT l = true)
    (h : metaStep (some ds) l = some ds1) :
    step ms (some l) = .unmodelled ∨ ∃ ms1, step ms (some l) = .ok ms1 ∧ R ds1 ms1 ∧ Between ms1 := by
  unfold metaStep at h
  simp only at h
  by_cases hr : hasPrefix "Region: ".toList l = true
  · rw [if_pos hr] at h
    obtain ⟨t1, _, _, _⟩ := prefix_tests_R hr
    cases hrl : regionLine l with
    | none => rw [hrl] at h; cases h
    | some r =>
      rw [hrl] at h
      simp only at h
      cases hany : ds.regions.any (fun x => decide (x.id = r.id)) with
      | true => rw [hany] at h; simp at h
      | false =>
        rw [hany] at h
        simp only [Bool.false_eq_true, if_false, Option.some.injEq] at h
        subst h
        have hb : r.lines.length ≤ 18 := by
          unfold regionOK at hok; rw [hrl] at hok; simpa using hok
        obtain ⟨acc, hacc, hview⟩ := regionParts_of_regionLine l r hrl hb
        right
        rw [step_region ms l hl.1 hl.2 hB.1 t1 hr, hacc]
        simp only
        have hid : (VTT.regionDef acc).id = r.id := by rw [← hview]; rfl
        have hnot : ms.regions.any (fun x => decide (x.id = (VTT.regionDef acc).id)) = false := by
          rw [hid, ← any_id_eq, hR.regions]; exact hany
        refine ⟨_, rfl, ⟨hR.cues, ?_, hR.styles, hR.seen, hR.closed, hR.tsmap, hR.comments, hR.index, hR.fresh⟩, hB⟩
        show (VTT.setDef ms.regions (VTT.regionDef acc)).map regionView = ds.regions ++ [r]
        unfold VTT.setDef
        rw [hnot]
        simp [hR.regions, hview]
  · have hr' : hasPrefix "Region: ".toList l = false := by simpa using hr
    rw [if_neg hr] at h
    have hx : hasPrefix "X-TIMESTAMP-MAP".toList l = true := by
      unfold metaT at hm; rw [hr'] at hm; simpa using hm
    obtain ⟨t1, _, _, _, t5⟩ := prefix_tests_X hx
    cases htl : tsmapLine l with
    | none => rw [htl] at h; cases h
    | some m =>
      rw [htl] at h
      simp only at h
      cases hc : (ds.tsmap.isSome || !ds.cues.isEmpty) with
      | true => rw [hc] at h; simp at h
      | false =>
        rw [hc] at h
        simp only [Bool.false_eq_true, if_false, Option.some.injEq] at h
        subst h
        simp only [Bool.or_eq_false_iff, Bool.not_eq_false'] at hc
        have hce : ds.cues = [] := by simpa using hc.2
        have hfl : VTT.flush ms = [] := by
          apply mapM_nil_inv cueView; rw [hR.cues, hce]; rfl
        have hcl : ms.curListed = false := by
          cases hcl : ms.curListed with
          | false => rfl
          | true => unfold VTT.flush at hfl; rw [hcl] at hfl; simp at hfl
        rw [step_tsmap ms l hl.1 hl.2 hB.1 t1 hr' t5 (by rw [arrow_eq]; exact tsmapLine_no_arrow l m htl) hx (hR.fresh hcl)]
        rcases parseTsMap_of_tsmapLine l m htl with hp | hp
        · right
          rw [hp]
          exact ⟨_, rfl, ⟨hR.cues, hR.regions, hR.styles, hR.seen, hR.closed, rfl, hR.comments, hR.index, hR.fresh⟩, hB⟩
        · left; rw [hp]

/-- a metadata block (the decoder's fold) -/
theorem sim_meta (b : List Str) : ∀ {ds ds' : DocSt} {ms : St}, R ds ms → Between ms →
    (∀ l ∈ b, BLine l) → (∀ l ∈ b, regionOK l = true) → (∀ l ∈ b, metaT l = true) →
    b.foldl metaStep (some ds) = some ds' →
    run ms (b.map some) = .unmodelled ∨ ∃ ms', run ms (b.map some) = .ok ms' ∧ R ds' ms' ∧ Between ms' := by
  induction b with
  | nil =>
    intro ds ds' ms hR hB _ _ _ h
    simp only [List.foldl, Option.some.injEq] at h
    subst h
    exact Or.inr ⟨ms, rfl, hR, hB⟩
  | cons l ls ih =>
    intro ds ds' ms hR hB hl hok hm h
    simp only [List.foldl] at h
    cases h1 : metaStep (some ds) l with
    | none => rw [h1, foldl_metaStep_none] at h; cases h
    | some ds1 =>
      rw [h1] at h
      simp only [List.map_cons, run]
      rcases sim_meta_line hR hB l (hl l (by simp)) (hok l (by simp)) (hm l (by simp)) h1 with hs | ⟨ms1, hs, hR1, hB1⟩
      · left; rw [hs]
      · rw [hs]
        exact ih hR1 hB1 (fun x hx => hl x (by simp [hx])) (fun x hx => hok x (by simp [hx]))
          (fun x hx => hm x (by simp [hx])) h

/-! ### every block -/

def blockOKWith (ok : Str → Bool) (b : List Str) : Bool :=
  match b with
  | [] => true
  | first :: _ =>
    if (noteLine first).isSome then b.all noteOK
    else b.all regionOK && (cueTextOf b).all ok

theorem blockOK_eq (b : List Str) : blockOK b = blockOKWith lineOK b := rfl

/-- the reader's answer on some lines holds the decoder's state `ds'` (or is not covered by the model) -/
def GoodRun (r : SRT.Res St) (ds' : DocSt) : Prop := r = .unmodelled ∨ ∃ ms', r = .ok ms' ∧ R ds' ms'

theorem block_cases (ds : DocSt) (first : Str) (rest : List Str) (hn : noteLine first = none)
    (hs : first ≠ "STYLE".toList) :
    block ds (first :: rest) =
      if (first :: rest).all metaT then (first :: rest).foldl metaStep (some ds) else cueBlock ds (first :: rest) := by
  unfold block
  simp only [hn]
  rw [if_neg hs]
  rfl

theorem sim_block {ok : Str → Bool} (T : TextLayer ok) {ds ds' : DocSt} {ms : St} (hR : R ds ms) (hB : Between ms)
    (b : List Str) (hl : ∀ l ∈ b, BLine l) (hok : blockOKWith ok b = true) (h : block ds b = some ds') :
    GoodRun (run ms (b.map some)) ds' := by
  cases b with
  | nil =>
    simp only [block, Option.some.injEq] at h
    subst h
    exact Or.inr ⟨ms, rfl, hR⟩
  | cons first rest =>
    unfold blockOKWith at hok
    simp only at hok
    cases hn : noteLine first with
    | some c =>
      rw [hn] at hok
      simp only [Option.isSome_some, if_true, List.all_eq_true] at hok
      obtain ⟨ms', h1, h2⟩ := sim_note hR hB first rest c hl hok hn h
      exact Or.inr ⟨ms', h1, h2⟩
    | none =>
      rw [hn] at hok
      simp only [Option.isSome_none, Bool.false_eq_true, if_false, Bool.and_eq_true, List.all_eq_true] at hok
      by_cases hs : first = "STYLE".toList
      · subst hs
        obtain ⟨ms', h1, h2⟩ := sim_style hR hB rest hl h
        exact Or.inr ⟨ms', h1, h2⟩
      · rw [block_cases ds first rest hn hs] at h
        by_cases hm : (first :: rest).all metaT = true
        · rw [if_pos hm] at h
          rcases sim_meta (first :: rest) hR hB hl hok.1 (by simpa using hm) h with h1 | ⟨ms', h1, h2, _⟩
          · exact Or.inl h1
          · exact Or.inr ⟨ms', h1, h2⟩
        · rw [if_neg hm] at h
          rcases sim_cue T hR hB (first :: rest) hl hok.2 h with h1 | ⟨ms', h1, h2⟩
          · exact Or.inl h1
          · exact Or.inr ⟨ms', h1, h2⟩

end VTTRead
end Astisub
