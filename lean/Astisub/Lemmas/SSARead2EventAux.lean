import Astisub.Lemmas.SSARead2Scalar
import Astisub.Lemmas.SSARead2Text
import Astisub.Lemmas.SSA2Fix

/-!
# Lemmas/SSARead2EventAux — helper lemmas for `SSARead2Event`

* `fold_field`: what `eventFields` leaves in one field of the event, in terms of a lookup in the (column, cell) pairs;
* `fold_ok`: `eventFields` succeeds when every cell is readable;
* `eventView_eventItem`: what the view makes of the item `ssaEvent.item` builds;
* `resolve_agree`: `resolveStyle` after the `*Default` normalisation = the decoder's `resolve`;
* `eventOf_inv`: what `eventOf … = some r` says, column by column.
-/

namespace Astisub
namespace SSAR
open Go SSA

/-! ## one field of `eventField` -/

def colsL : List Str := ["Start".toList, "End".toList, "Layer".toList, "MarginL".toList, "MarginR".toList,
  "MarginV".toList, "Effect".toList, "Name".toList, "Style".toList, "Text".toList, "Marked".toList]

theorem eventField_other (e : Event) (a i : Str) (h : a ∉ colsL) : eventField e a i = some e := by
  unfold eventField
  simp only [colsL, List.mem_cons, List.not_mem_nil, or_false, not_or] at h
  obtain ⟨h1, h2, h3, h4, h5, h6, h7, h8, h9, h10, h11⟩ := h
  rw [if_neg h1, if_neg h2, if_neg h3, if_neg h4, if_neg h5, if_neg h6, if_neg h7, if_neg h8, if_neg h9, if_neg h10,
    if_neg h11]

theorem eventField_cases (e : Event) (a i : Str) :
    (a = "Start".toList ∧ eventField e a i = (Duration.parseSSA i).map fun d => { e with startAt := d }) ∨
    (a = "End".toList ∧ eventField e a i = (Duration.parseSSA i).map fun d => { e with endAt := d }) ∨
    (a = "Layer".toList ∧ eventField e a i = (atoi i).map fun v => { e with layer := some v }) ∨
    (a = "MarginL".toList ∧ eventField e a i = (atoi i).map fun v => { e with marginL := some v }) ∨
    (a = "MarginR".toList ∧ eventField e a i = (atoi i).map fun v => { e with marginR := some v }) ∨
    (a = "MarginV".toList ∧ eventField e a i = (atoi i).map fun v => { e with marginV := some v }) ∨
    (a = "Effect".toList ∧ eventField e a i = some { e with effect := i }) ∨
    (a = "Name".toList ∧ eventField e a i = some { e with name := i }) ∨
    (a = "Style".toList ∧ eventField e a i
      = some { e with style := if i = "*Default".toList then "Default".toList else i }) ∨
    (a = "Text".toList ∧ eventField e a i = some { e with text := trimSpace i }) ∨
    (a = "Marked".toList ∧ eventField e a i = some { e with marked := some (i = "Marked=1".toList) }) ∨
    (a ∉ colsL ∧ eventField e a i = some e) := by
  by_cases h : a ∈ colsL
  · simp only [colsL, List.mem_cons, List.not_mem_nil, or_false] at h
    rcases h with rfl | rfl | rfl | rfl | rfl | rfl | rfl | rfl | rfl | rfl | rfl
    · exact .inl ⟨rfl, eventField_start _ _⟩
    · exact .inr (.inl ⟨rfl, eventField_end _ _⟩)
    · exact .inr (.inr (.inl ⟨rfl, eventField_layer _ _⟩))
    · exact .inr (.inr (.inr (.inl ⟨rfl, eventField_marginL _ _⟩)))
    · exact .inr (.inr (.inr (.inr (.inl ⟨rfl, eventField_marginR _ _⟩))))
    · exact .inr (.inr (.inr (.inr (.inr (.inl ⟨rfl, eventField_marginV _ _⟩)))))
    · exact .inr (.inr (.inr (.inr (.inr (.inr (.inl ⟨rfl, eventField_effect _ _⟩))))))
    · exact .inr (.inr (.inr (.inr (.inr (.inr (.inr (.inl ⟨rfl, eventField_name _ _⟩)))))))
    · exact .inr (.inr (.inr (.inr (.inr (.inr (.inr (.inr (.inl ⟨rfl, eventField_style _ _⟩))))))))
    · exact .inr (.inr (.inr (.inr (.inr (.inr (.inr (.inr (.inr (.inl ⟨rfl, eventField_text _ _⟩)))))))))
    · exact .inr (.inr (.inr (.inr (.inr (.inr (.inr (.inr (.inr (.inr (.inl ⟨rfl, eventField_marked _ _⟩))))))))))
  · exact .inr (.inr (.inr (.inr (.inr (.inr (.inr (.inr (.inr (.inr (.inr ⟨h, eventField_other _ _ _ h⟩))))))))))

/-- every column leaves the category alone -/
theorem eventField_category (e : Event) (a i : Str) (e1 : Event) (h : eventField e a i = some e1) :
    e1.category = e.category := by
  rcases eventField_cases e a i with ⟨_, h'⟩ | ⟨_, h'⟩ | ⟨_, h'⟩ | ⟨_, h'⟩ | ⟨_, h'⟩ | ⟨_, h'⟩ | ⟨_, h'⟩ | ⟨_, h'⟩ |
    ⟨_, h'⟩ | ⟨_, h'⟩ | ⟨_, h'⟩ | ⟨_, h'⟩
  all_goals
    rw [h'] at h
    first
    | (simp only [Option.map_eq_some_iff] at h; obtain ⟨d, _, rfl⟩ := h; rfl)
    | (injection h with h; subst h; rfl)


/-- what one (column, cell) pair does to one field -/
def FieldSpec {α : Type} (π : Event → α) (c : String) (g : Str → Option α) : Prop :=
  ∀ e a i e1, eventField e a i = some e1 → if a = c.toList then g i = some (π e1) else π e1 = π e

set_option hygiene false in
local macro "ef_tac" : tactic => `(tactic| (
  intro e a i e1 h
  rcases eventField_cases e a i with ⟨hn, h'⟩ | ⟨hn, h'⟩ | ⟨hn, h'⟩ | ⟨hn, h'⟩ | ⟨hn, h'⟩ | ⟨hn, h'⟩ | ⟨hn, h'⟩ |
    ⟨hn, h'⟩ | ⟨hn, h'⟩ | ⟨hn, h'⟩ | ⟨hn, h'⟩ | ⟨hn, h'⟩
  all_goals rw [h'] at h
  all_goals first
    | (subst hn; first | rw [if_pos (by decide)] | rw [if_neg (by decide)])
    | rw [if_neg (fun hh => hn (by rw [hh]; decide))]
  all_goals first
    | (simp only [Option.map_eq_some_iff] at h; obtain ⟨d, hd, rfl⟩ := h; simp [hd]; done)
    | (injection h with h; subst h; rfl)))

theorem fs_start : FieldSpec (·.startAt) "Start" Duration.parseSSA := by ef_tac
theorem fs_end : FieldSpec (·.endAt) "End" Duration.parseSSA := by ef_tac
theorem fs_layer : FieldSpec (·.layer) "Layer" (fun i => (atoi i).map some) := by ef_tac
theorem fs_marginL : FieldSpec (·.marginL) "MarginL" (fun i => (atoi i).map some) := by ef_tac
theorem fs_marginR : FieldSpec (·.marginR) "MarginR" (fun i => (atoi i).map some) := by ef_tac
theorem fs_marginV : FieldSpec (·.marginV) "MarginV" (fun i => (atoi i).map some) := by ef_tac
theorem fs_effect : FieldSpec (·.effect) "Effect" some := by ef_tac
theorem fs_name : FieldSpec (·.name) "Name" some := by ef_tac
theorem fs_style : FieldSpec (·.style) "Style" (fun i => some (if i = "*Default".toList then "Default".toList else i)) := by
  ef_tac
theorem fs_text : FieldSpec (·.text) "Text" (fun i => some (trimSpace i)) := by ef_tac
theorem fs_marked : FieldSpec (·.marked) "Marked" (fun i => some (some (decide (i = "Marked=1".toList)))) := by ef_tac

/-! ## the fold -/

theorem eventFields_cons (e0 : Event) (a i : Str) (rest : List (Str × Str)) (e' : Event)
    (h : eventFields e0 ((a, i) :: rest) = some e') :
    ∃ e1, eventField e0 a i = some e1 ∧ eventFields e1 rest = some e' := by
  unfold eventFields at h
  cases he : eventField e0 a i with
  | none => rw [he] at h; cases h
  | some e1 => rw [he] at h; exact ⟨e1, rfl, h⟩

theorem fold_category : ∀ (ps : List (Str × Str)) (e0 e' : Event), eventFields e0 ps = some e' →
    e'.category = e0.category := by
  intro ps
  induction ps with
  | nil => intro e0 e' h; unfold eventFields at h; injection h with h; rw [h]
  | cons p rest ih =>
    intro e0 e' h
    obtain ⟨a, i⟩ := p
    obtain ⟨e1, h1, h2⟩ := eventFields_cons _ _ _ _ _ h
    rw [ih _ _ h2, eventField_category _ _ _ _ h1]

theorem lookup_none_of_not_mem (a : Str) : ∀ (ps : List (Str × Str)), a ∉ ps.map (·.1) → ps.lookup a = none := by
  intro ps h
  rw [List.lookup_eq_none_iff]
  intro p hp
  simp only [bne_iff_ne, ne_eq]
  intro he
  exact h (List.mem_map.mpr ⟨p, hp, he.symm⟩)

/-- one field after the fold: decided by the cell of its column, if the column is there -/
theorem fold_field {α : Type} (π : Event → α) (c : String) (g : Str → Option α) (H : FieldSpec π c g) :
    ∀ (ps : List (Str × Str)) (e0 e' : Event), (ps.map (·.1)).Nodup → eventFields e0 ps = some e' →
      match ps.lookup c.toList with
      | some cell => g cell = some (π e')
      | none => π e' = π e0 := by
  intro ps
  induction ps with
  | nil =>
    intro e0 e' _ h
    unfold eventFields at h
    injection h with h
    rw [h]; rfl
  | cons p rest ih =>
    intro e0 e' hnd h
    obtain ⟨a, i⟩ := p
    obtain ⟨e1, h1, h2⟩ := eventFields_cons _ _ _ _ _ h
    rw [List.map_cons, List.nodup_cons] at hnd
    have hr := ih e1 e' hnd.2 h2
    have hH := H e0 a i e1 h1
    rw [List.lookup_cons]
    by_cases hac : a = c.toList
    · rw [if_pos hac] at hH
      subst hac
      rw [lookup_none_of_not_mem _ _ hnd.1] at hr
      simp only [beq_self_eq_true]
      simp only at hr
      rw [hH, hr]
    · rw [if_neg hac] at hH
      have : (c.toList == a) = false := by
        simp only [beq_eq_false_iff_ne, ne_eq]
        exact fun h => hac h.symm
      rw [this]
      simp only
      rw [← hH]
      exact hr

/-- a cell the model can read, whatever the event so far -/
def CellOk (a i : Str) : Prop :=
  ((a = "Start".toList ∨ a = "End".toList) → ∃ d, Duration.parseSSA i = some d) ∧
  ((a = "Layer".toList ∨ a = "MarginL".toList ∨ a = "MarginR".toList ∨ a = "MarginV".toList) → ∃ v, atoi i = some v)

theorem eventField_ok (e : Event) (a i : Str) (h : CellOk a i) : ∃ e1, eventField e a i = some e1 := by
  rcases eventField_cases e a i with ⟨hn, h'⟩ | ⟨hn, h'⟩ | ⟨hn, h'⟩ | ⟨hn, h'⟩ | ⟨hn, h'⟩ | ⟨hn, h'⟩ | ⟨hn, h'⟩ |
    ⟨hn, h'⟩ | ⟨hn, h'⟩ | ⟨hn, h'⟩ | ⟨hn, h'⟩ | ⟨hn, h'⟩
  · obtain ⟨d, hd⟩ := h.1 (.inl hn); rw [h', hd]; exact ⟨_, rfl⟩
  · obtain ⟨d, hd⟩ := h.1 (.inr hn); rw [h', hd]; exact ⟨_, rfl⟩
  · obtain ⟨d, hd⟩ := h.2 (.inl hn); rw [h', hd]; exact ⟨_, rfl⟩
  · obtain ⟨d, hd⟩ := h.2 (.inr (.inl hn)); rw [h', hd]; exact ⟨_, rfl⟩
  · obtain ⟨d, hd⟩ := h.2 (.inr (.inr (.inl hn))); rw [h', hd]; exact ⟨_, rfl⟩
  · obtain ⟨d, hd⟩ := h.2 (.inr (.inr (.inr hn))); rw [h', hd]; exact ⟨_, rfl⟩
  all_goals exact ⟨_, h'⟩

theorem fold_ok : ∀ (ps : List (Str × Str)) (e0 : Event), (∀ p ∈ ps, CellOk p.1 p.2) →
    ∃ e', eventFields e0 ps = some e' := by
  intro ps
  induction ps with
  | nil => intro e0 _; exact ⟨e0, by unfold eventFields; rfl⟩
  | cons p rest ih =>
    intro e0 h
    obtain ⟨a, i⟩ := p
    obtain ⟨e1, h1⟩ := eventField_ok e0 a i (h (a, i) List.mem_cons_self)
    obtain ⟨e', h2⟩ := ih e1 (fun p hp => h p (List.mem_cons_of_mem _ hp))
    refine ⟨e', ?_⟩
    unfold eventFields
    rw [h1]
    exact h2

/-- a pair of a list with distinct keys is what `lookup` finds -/
theorem lookup_of_mem : ∀ (ps : List (Str × Str)), (ps.map (·.1)).Nodup → ∀ a i, (a, i) ∈ ps → ps.lookup a = some i := by
  intro ps
  induction ps with
  | nil => intro _ a i h; cases h
  | cons p rest ih =>
    intro hnd a i hm
    obtain ⟨b, j⟩ := p
    rw [List.map_cons, List.nodup_cons] at hnd
    rw [List.lookup_cons]
    rcases List.mem_cons.mp hm with he | hr
    · injection he with h1 h2
      subst h1; subst h2
      simp
    · have hne : (a == b) = false := by
        simp only [beq_eq_false_iff_ne, ne_eq]
        intro hab
        subst hab
        exact hnd.1 (List.mem_map.mpr ⟨(a, i), hr, rfl⟩)
      rw [hne]
      exact ih hnd.2 a i hr

/-! ## the style reference -/

theorem resolve_agree (names : List Str) (hn : ∀ n ∈ names, n.head? ≠ some '*') (s : Str) :
    resolveStyle names (if s = "*Default".toList then "Default".toList else s) = Spec.SSA.resolve names s := by
  by_cases hs : s = "*Default".toList
  · rw [if_pos hs]
    subst hs
    have hnc : names.contains "*Default".toList = false := by
      cases hc : names.contains "*Default".toList with
      | false => rfl
      | true =>
        exfalso
        rw [List.contains_iff_mem] at hc
        exact hn _ hc (by decide)
    have ht : trimPrefix ['*'] "Default".toList = "Default".toList := by decide
    unfold resolveStyle Spec.SSA.resolve
    rw [ht, hnc]
    rw [show ("Default".toList).isEmpty = false from by decide, show ("*Default".toList).isEmpty = false from by decide]
    simp only [Bool.false_eq_true, if_false]
    rw [show "*Default".toList = '*' :: "Default".toList from by decide]
    simp only
    cases names.contains "Default".toList <;> rfl
  · rw [if_neg hs]
    unfold resolveStyle Spec.SSA.resolve
    cases s with
    | nil => rfl
    | cons c r =>
      simp only [List.isEmpty_cons, Bool.false_eq_true, if_false]
      by_cases hc : c = '*'
      · subst hc
        have : trimPrefix ['*'] ('*' :: r) = r := by simp [trimPrefix, dropPrefix?]
        rw [this]
        rfl
      · have : trimPrefix ['*'] (c :: r) = c :: r := by
          have hc' : ¬ '*' = c := fun h => hc h.symm
          simp [trimPrefix, dropPrefix?, hc']
        rw [this]
        cases names.contains (c :: r) with
        | true => rfl
        | false =>
          simp only [Bool.false_eq_true, if_false]
          split
          · rename_i heq
            injection heq with h1 _
            exact absurd h1 hc
          · rfl

/-! ## the view of the item -/

theorem spec_kvGet_eq (a : Attrs) (k : String) : Spec.SSA.kvGet a k = SSA.kvGet a k := rfl

theorem optInt_itoa (a : Attrs) (k : String) (o : Option Int) (h : SSA.kvGet a k = o.map itoa) :
    Spec.SSA.optInt a k = some o := by
  unfold Spec.SSA.optInt
  rw [spec_kvGet_eq, h]
  cases o with
  | none => rfl
  | some v => simp only [Option.map_some]; rw [spec_intOf_itoa]; rfl

theorem marked_view (o : Option Bool) : (o.map boolStr).map (fun s => decide (s = "true".toList)) = o := by
  cases o with
  | none => rfl
  | some b => cases b <;> decide

theorem eventView_eventItem (names : List Str) (e : Event) (s t : Int) (hs : e.startAt = s * 10000000)
    (ht : e.endAt = t * 10000000) (h0s : 0 ≤ s) (h0t : 0 ≤ t) :
    Spec.SSA.eventView (eventItem names e) = some
      { startCs := s, endCs := t, layer := e.layer, marked := e.marked, marginL := e.marginL, marginR := e.marginR,
        marginV := e.marginV, effect := e.effect, name := e.name, style := resolveStyle names e.style,
        lines := (textLines e.text).map fun s => (lineRuns s).map runView } := by
  have hp := ev_keys_pairwise (optStr e.effect) (e.layer.map itoa) (e.marginL.map itoa) (e.marginR.map itoa)
    (e.marginV.map itoa) (e.marked.map boolStr)
  have hit1 : (eventItem names e).startAt = s * 10000000 := hs
  have hit2 : (eventItem names e).endAt = t * 10000000 := ht
  have hlines : (eventItem names e).lines = (textLines e.text).map fun s => { voice := e.name, items := lineRuns s } := rfl
  have hattrs : (eventItem names e).attrs = some (mkAttrs [("SSAEffect", optStr e.effect), ("SSALayer", e.layer.map itoa),
      ("SSAMarginLeft", e.marginL.map itoa), ("SSAMarginRight", e.marginR.map itoa),
      ("SSAMarginVertical", e.marginV.map itoa), ("SSAMarked", e.marked.map boolStr)]) := rfl
  have hstyle : (eventItem names e).style = resolveStyle names e.style := rfl
  unfold Spec.SSA.eventView
  generalize eventItem names e = it at *
  have c1 : (decide (it.startAt % 10000000 ≠ 0) || decide (it.endAt % 10000000 ≠ 0) || decide (it.startAt < 0)
      || decide (it.endAt < 0)) = false := by
    rw [hit1, hit2]
    simp only [Int.mul_emod_left, ne_eq, not_true_eq_false, decide_false, Bool.false_or, decide_eq_false_iff_not,
      Bool.or_eq_false_iff]
    omega
  rw [if_neg (by rw [c1]; decide)]
  have hne : textLines e.text ≠ [] := textLines_ne_nil _
  have hname : (it.lines.head?.map (·.voice)).getD [] = e.name := by
    rw [hlines]
    cases hl : textLines e.text with
    | nil => exact absurd hl hne
    | cons x xs => rfl
  have c2 : (it.lines.isEmpty || it.lines.any (fun l => decide (l.voice ≠ (it.lines.head?.map (·.voice)).getD [])))
      = false := by
    rw [hname, hlines]
    simp only [Bool.or_eq_false_iff, List.isEmpty_eq_false_iff, ne_eq, List.map_eq_nil_iff, List.any_eq_false,
      List.mem_map, decide_eq_true_eq]
    refine ⟨hne, ?_⟩
    rintro l ⟨x, _, rfl⟩
    exact fun h => h rfl
  simp only
  rw [if_neg (by rw [c2]; decide)]
  rw [optInt_itoa it.attrs "SSALayer" e.layer (by rw [hattrs]; exact kvGet_mkAttrs_mem _ hp _ _ (by simp)),
    optInt_itoa it.attrs "SSAMarginLeft" e.marginL (by rw [hattrs]; exact kvGet_mkAttrs_mem _ hp _ _ (by simp)),
    optInt_itoa it.attrs "SSAMarginRight" e.marginR (by rw [hattrs]; exact kvGet_mkAttrs_mem _ hp _ _ (by simp)),
    optInt_itoa it.attrs "SSAMarginVertical" e.marginV (by rw [hattrs]; exact kvGet_mkAttrs_mem _ hp _ _ (by simp))]
  simp only
  rw [hname, hstyle, spec_kvGet_eq, spec_kvGet_eq, hattrs,
    kvGet_mkAttrs_mem _ hp "SSAMarked" (e.marked.map boolStr) (by simp),
    kvGet_mkAttrs_mem _ hp "SSAEffect" (optStr e.effect) (by simp), optStr_getD, marked_view, hlines, List.map_map,
    hit1, hit2, Int.mul_ediv_cancel _ (by decide), Int.mul_ediv_cancel _ (by decide)]
  rfl

/-! ## the decoder, column by column -/

/-- the decoder's `opt`: an absent column is fine, a present one must be readable -/
def optc {α : Type} (pairs : List (String × Str)) (c : String) (f : Str → Option α) : Option (Option α) :=
  match pairs.lookup c with
  | none => some none
  | some cell => (f cell).map some

def markedOf (s : Str) : Option Bool :=
  if s = "Marked=1".toList then some true else if s = "Marked=0".toList then some false else none

theorem eventOf_eq (cols : List String) (v : Str) :
    Spec.SSA.eventOf cols v =
      if (splitC ',' v).length < cols.length then none else
      match optc (cols.zip (Spec.SSA.absorbLast cols.length (splitC ',' v))) "Start" Spec.SSA.timeOf,
            optc (cols.zip (Spec.SSA.absorbLast cols.length (splitC ',' v))) "End" Spec.SSA.timeOf,
            optc (cols.zip (Spec.SSA.absorbLast cols.length (splitC ',' v))) "Layer" Spec.SSA.intOf,
            optc (cols.zip (Spec.SSA.absorbLast cols.length (splitC ',' v))) "MarginL" Spec.SSA.intOf,
            optc (cols.zip (Spec.SSA.absorbLast cols.length (splitC ',' v))) "MarginR" Spec.SSA.intOf,
            optc (cols.zip (Spec.SSA.absorbLast cols.length (splitC ',' v))) "MarginV" Spec.SSA.intOf,
            optc (cols.zip (Spec.SSA.absorbLast cols.length (splitC ',' v))) "Marked" markedOf,
            optc (cols.zip (Spec.SSA.absorbLast cols.length (splitC ',' v))) "Text" Spec.SSA.textOf with
      | some st, some en, some layer, some ml, some mr, some mv, some marked, some text =>
        some { ev := { startCs := st.getD 0, endCs := en.getD 0, layer := layer, marked := marked, marginL := ml,
                       marginR := mr, marginV := mv,
                       effect := ((cols.zip (Spec.SSA.absorbLast cols.length (splitC ',' v))).lookup "Effect").getD [],
                       name := ((cols.zip (Spec.SSA.absorbLast cols.length (splitC ',' v))).lookup "Name").getD [],
                       style := none, lines := text.getD [[{ effect := none, text := [] }]] },
               styleName := ((cols.zip (Spec.SSA.absorbLast cols.length (splitC ',' v))).lookup "Style").getD [] }
      | _, _, _, _, _, _, _, _ => none := by
  rfl

theorem beq_ofList (c : String) (a : Str) : (c == String.ofList a) = (c.toList == a) := by
  by_cases h : c = String.ofList a
  · subst h; rw [String.toList_ofList]; simp
  · have h2 : ¬ c.toList = a := fun h' => h (by rw [← h', String.ofList_toList])
    rw [beq_eq_false_iff_ne.mpr h, beq_eq_false_iff_ne.mpr h2]

theorem lookup_bridge (c : String) : ∀ (format cells : List Str),
    ((format.map String.ofList).zip cells).lookup c = (format.zip cells).lookup c.toList := by
  intro format
  induction format with
  | nil => intro cells; rfl
  | cons a rest ih =>
    intro cells
    cases cells with
    | nil => rfl
    | cons x xs =>
      simp only [List.map_cons, List.zip_cons_cons, List.lookup_cons, beq_ofList]
      cases c.toList == a
      · exact ih xs
      · rfl

theorem optc_some {α : Type} (format cells : List Str) (c : String) (f : Str → Option α) (o : Option α)
    (h : optc ((format.map String.ofList).zip cells) c f = some o) :
    match (format.zip cells).lookup c.toList with
    | some cell => ∃ v, f cell = some v ∧ o = some v
    | none => o = none := by
  unfold optc at h
  rw [lookup_bridge] at h
  cases hl : (format.zip cells).lookup c.toList with
  | none => rw [hl] at h; simp only at h ⊢; injection h with h; exact h.symm
  | some cell =>
    rw [hl] at h
    simp only [Option.map_eq_some_iff] at h ⊢
    obtain ⟨v, hv, rfl⟩ := h
    exact ⟨v, hv, rfl⟩

/-! ## model and decoder agree, column by column -/

theorem time_ok (l : Option Str) (st : Option Int)
    (F : match (generalizing := false) l with | some cell => ∃ v, Spec.SSA.timeOf cell = some v ∧ st = some v | none => st = none)
    (hok : hoursOk (st.getD 0) = true) (i : Str) (hl : l = some i) :
    Duration.parseSSA i = some (st.getD 0 * 10000000) ∧ 0 ≤ st.getD 0 := by
  subst hl
  obtain ⟨v, hv, rfl⟩ := F
  exact parseSSA_of_timeOf hv hok

theorem time_agree (l : Option Str) (st : Option Int) (x : Int)
    (F : match (generalizing := false) l with | some cell => ∃ v, Spec.SSA.timeOf cell = some v ∧ st = some v | none => st = none)
    (M : match (generalizing := false) l with | some cell => Duration.parseSSA cell = some x | none => x = 0)
    (hok : hoursOk (st.getD 0) = true) : x = st.getD 0 * 10000000 ∧ 0 ≤ st.getD 0 := by
  cases l with
  | none =>
    simp only at F M
    subst F; subst M
    exact ⟨by decide, by decide⟩
  | some cell =>
    have := time_ok (some cell) st F hok cell rfl
    simp only at M
    rw [this.1] at M
    injection M with M
    exact ⟨M.symm, this.2⟩

theorem int_ok (l : Option Str) (o : Option Int)
    (F : match (generalizing := false) l with | some cell => ∃ v, Spec.SSA.intOf cell = some v ∧ o = some v | none => o = none)
    (h64 : opt64 o = true) (i : Str) (hl : l = some i) : (atoi i).map some = some o := by
  subst hl
  obtain ⟨v, hv, rfl⟩ := F
  rw [atoi_of_intOf hv h64]
  rfl

theorem int_agree (l : Option Str) (o x : Option Int)
    (F : match (generalizing := false) l with | some cell => ∃ v, Spec.SSA.intOf cell = some v ∧ o = some v | none => o = none)
    (M : match (generalizing := false) l with | some cell => (atoi cell).map some = some x | none => x = none)
    (h64 : opt64 o = true) : x = o := by
  cases l with
  | none => simp only at F M; rw [F, M]
  | some cell =>
    have := int_ok (some cell) o F h64 cell rfl
    simp only at M
    rw [this] at M
    injection M with M
    exact M.symm

theorem marked_agree (l : Option Str) (o x : Option Bool)
    (F : match (generalizing := false) l with | some cell => ∃ v, markedOf cell = some v ∧ o = some v | none => o = none)
    (M : match (generalizing := false) l with | some cell => some (some (decide (cell = "Marked=1".toList))) = some x | none => x = none) :
    x = o := by
  cases l with
  | none => simp only at F M; rw [F, M]
  | some cell =>
    obtain ⟨v, hv, rfl⟩ := F
    simp only at M
    injection M with M
    rw [← M]
    unfold markedOf at hv
    by_cases h1 : cell = "Marked=1".toList
    · rw [if_pos h1] at hv; injection hv with hv; rw [← hv]; exact congrArg some (decide_eq_true h1)
    · rw [if_neg h1] at hv
      by_cases h0 : cell = "Marked=0".toList
      · rw [if_pos h0] at hv; injection hv with hv; rw [← hv]; exact congrArg some (decide_eq_false h1)
      · rw [if_neg h0] at hv; cases hv

theorem str_agree (l : Option Str) (x : Str)
    (M : match (generalizing := false) l with | some cell => some cell = some x | none => x = []) : x = l.getD [] := by
  cases l with
  | none => exact M
  | some cell => simp only at M; injection M with M; exact M.symm

theorem style_agree (l : Option Str) (x : Str)
    (M : match (generalizing := false) l with
      | some cell => some (if cell = "*Default".toList then "Default".toList else cell) = some x
      | none => x = []) :
    x = if l.getD [] = "*Default".toList then "Default".toList else l.getD [] := by
  cases l with
  | none => simp only at M; rw [M]; rfl
  | some cell => simp only at M; injection M with M; exact M.symm

theorem text_agree (l : Option Str) (x : Str) (text : Option (List (List Spec.SSA.GRun)))
    (F : match (generalizing := false) l with | some cell => ∃ gl, Spec.SSA.textOf cell = some gl ∧ text = some gl | none => text = none)
    (M : match (generalizing := false) l with | some cell => some (trimSpace cell) = some x | none => x = []) :
    (textLines x).map (fun s => (lineRuns s).map runView) = text.getD [[{ effect := none, text := [] }]] := by
  cases l with
  | none => simp only at F M; rw [F, M]; decide
  | some cell =>
    obtain ⟨gl, hgl, rfl⟩ := F
    simp only at M
    injection M with M
    rw [← M]
    exact textLines_textOf cell gl hgl

/-! ## the row, given its cells -/

theorem row_core (hdr : Str) (format cells : List Str) (hnd : ((format.zip cells).map (·.1)).Nodup)
    (st en : Option Int) (layer ml mr mv : Option Int) (marked : Option Bool)
    (text : Option (List (List Spec.SSA.GRun)))
    (hst : optc ((format.map String.ofList).zip cells) "Start" Spec.SSA.timeOf = some st)
    (hen : optc ((format.map String.ofList).zip cells) "End" Spec.SSA.timeOf = some en)
    (hlayer : optc ((format.map String.ofList).zip cells) "Layer" Spec.SSA.intOf = some layer)
    (hml : optc ((format.map String.ofList).zip cells) "MarginL" Spec.SSA.intOf = some ml)
    (hmr : optc ((format.map String.ofList).zip cells) "MarginR" Spec.SSA.intOf = some mr)
    (hmv : optc ((format.map String.ofList).zip cells) "MarginV" Spec.SSA.intOf = some mv)
    (hmarked : optc ((format.map String.ofList).zip cells) "Marked" markedOf = some marked)
    (htext : optc ((format.map String.ofList).zip cells) "Text" Spec.SSA.textOf = some text)
    (okS : hoursOk (st.getD 0) = true) (okE : hoursOk (en.getD 0) = true) (okL : opt64 layer = true)
    (okML : opt64 ml = true) (okMR : opt64 mr = true) (okMV : opt64 mv = true) :
    ∃ e, eventFields { category := hdr } (format.zip cells) = some e ∧ e.category = hdr ∧
      ∀ names : List Str, (∀ n ∈ names, n.head? ≠ some '*') →
        Spec.SSA.eventView (eventItem names e) = some
          { startCs := st.getD 0, endCs := en.getD 0, layer := layer, marked := marked, marginL := ml, marginR := mr,
            marginV := mv, effect := (((format.map String.ofList).zip cells).lookup "Effect").getD [],
            name := (((format.map String.ofList).zip cells).lookup "Name").getD [],
            style := Spec.SSA.resolve names ((((format.map String.ofList).zip cells).lookup "Style").getD []),
            lines := text.getD [[{ effect := none, text := [] }]] } := by
  have FS := optc_some _ _ _ _ _ hst
  have FE := optc_some _ _ _ _ _ hen
  have FL := optc_some _ _ _ _ _ hlayer
  have FML := optc_some _ _ _ _ _ hml
  have FMR := optc_some _ _ _ _ _ hmr
  have FMV := optc_some _ _ _ _ _ hmv
  have FM := optc_some _ _ _ _ _ hmarked
  have FT := optc_some _ _ _ _ _ htext
  rw [lookup_bridge, lookup_bridge, lookup_bridge]
  generalize format.zip cells = ps at *
  have hok : ∀ p ∈ ps, CellOk p.1 p.2 := by
    intro p hp
    obtain ⟨a, i⟩ := p
    have hl := lookup_of_mem ps hnd a i hp
    constructor
    · rintro (rfl | rfl)
      · exact ⟨_, (time_ok _ st FS okS i hl).1⟩
      · exact ⟨_, (time_ok _ en FE okE i hl).1⟩
    · rintro (rfl | rfl | rfl | rfl)
      · have := int_ok _ layer FL okL i hl
        cases hx : atoi i with
        | none => rw [hx] at this; cases this
        | some v => exact ⟨v, rfl⟩
      · have := int_ok _ ml FML okML i hl
        cases hx : atoi i with
        | none => rw [hx] at this; cases this
        | some v => exact ⟨v, rfl⟩
      · have := int_ok _ mr FMR okMR i hl
        cases hx : atoi i with
        | none => rw [hx] at this; cases this
        | some v => exact ⟨v, rfl⟩
      · have := int_ok _ mv FMV okMV i hl
        cases hx : atoi i with
        | none => rw [hx] at this; cases this
        | some v => exact ⟨v, rfl⟩
  obtain ⟨e, he⟩ := fold_ok ps { category := hdr } hok
  refine ⟨e, he, fold_category _ _ _ he, ?_⟩
  have hS := time_agree _ st e.startAt FS (fold_field _ _ _ fs_start ps _ e hnd he) okS
  have hE := time_agree _ en e.endAt FE (fold_field _ _ _ fs_end ps _ e hnd he) okE
  have hL := int_agree _ layer e.layer FL (fold_field _ _ _ fs_layer ps _ e hnd he) okL
  have hML := int_agree _ ml e.marginL FML (fold_field _ _ _ fs_marginL ps _ e hnd he) okML
  have hMR := int_agree _ mr e.marginR FMR (fold_field _ _ _ fs_marginR ps _ e hnd he) okMR
  have hMV := int_agree _ mv e.marginV FMV (fold_field _ _ _ fs_marginV ps _ e hnd he) okMV
  have hM := marked_agree _ marked e.marked FM (fold_field _ _ _ fs_marked ps _ e hnd he)
  have hEf := str_agree _ e.effect (fold_field _ _ _ fs_effect ps _ e hnd he)
  have hN := str_agree _ e.name (fold_field _ _ _ fs_name ps _ e hnd he)
  have hSt := style_agree _ e.style (fold_field _ _ _ fs_style ps _ e hnd he)
  have hT := text_agree _ e.text text FT (fold_field _ _ _ fs_text ps _ e hnd he)
  intro names hn
  rw [eventView_eventItem names e _ _ hS.1 hE.1 hS.2 hE.2, hL, hML, hMR, hMV, hM, hT, ← hEf, ← hN, hSt,
    resolve_agree names hn]

/-! ## distinct columns -/

theorem spec_nodup : ∀ (format : List Str), Spec.SSA.nodup (format.map String.ofList) = true → format.Nodup := by
  intro format
  induction format with
  | nil => intro _; exact List.nodup_nil
  | cons a as ih =>
    intro h
    rw [List.map_cons] at h
    unfold Spec.SSA.nodup at h
    simp only [Bool.and_eq_true, Bool.not_eq_true'] at h
    refine List.nodup_cons.mpr ⟨?_, ih h.2⟩
    intro hm
    have : (as.map String.ofList).contains (String.ofList a) = true :=
      List.contains_iff_mem.mpr (List.mem_map.mpr ⟨a, hm, rfl⟩)
    rw [h.1] at this
    cases this

theorem zip_keys_nodup : ∀ (format cells : List Str), format.Nodup → ((format.zip cells).map (·.1)).Nodup := by
  intro format
  induction format with
  | nil => intro cells _; exact List.nodup_nil
  | cons a rest ih =>
    intro cells h
    cases cells with
    | nil => exact List.nodup_nil
    | cons x xs =>
      rw [List.nodup_cons] at h
      simp only [List.zip_cons_cons, List.map_cons]
      refine List.nodup_cons.mpr ⟨?_, ih xs h.2⟩
      intro hm
      obtain ⟨p, hp, hpa⟩ := List.mem_map.mp hm
      obtain ⟨b, y⟩ := p
      simp only at hpa
      subst hpa
      exact h.1 (List.of_mem_zip hp).1

theorem format_keys_nodup (format cells : List Str) (hnd : Spec.SSA.nodup (format.map String.ofList) = true) :
    ((format.zip cells).map (·.1)).Nodup :=
  zip_keys_nodup format cells (spec_nodup _ hnd)

end SSAR
end Astisub
