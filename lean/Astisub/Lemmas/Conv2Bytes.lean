import Astisub.Driver.SSA
import Astisub.Lemmas.SRTBytes
import Astisub.Lemmas.SSA2Read

/-!
# Lemmas/Conv2Bytes — from the characters of a written SSA document to what `SSAD.readBytes` sees

`Driver.SSAD.readBytes` is the model side of the `ssa.read` / `ssa.write` / `conv.pair` streams: it
refuses (answers `none`) a document with a line of 64 KiB or more (`bufio.ErrTooLong` is outside the
reader model), cuts the bytes into lines with the scanner model, decodes every line as UTF-8, runs
`SSA.read` on the lines and refuses a result with an instant beyond 2⁶².

* `byteLen`, `utf8_length` : the number of bytes of the UTF-8 encoding, computed on characters
  (kernel-evaluable, unlike the `ByteArray` layer of `Driver.utf8`);
* `readBytes_unlines` : on the encoding of LF-terminated lines without CR / LF and shorter than
  64 KiB, `readBytes` is `SSA.read` on these lines;
* `read_blank_end` : a trailing empty line does not change what `SSA.read` answers;
* `written_lines` : the text `SSA.write` answers for a representable cue list is `unlines ls` for
  lines `ls` without line feed, and `splitC '\n'` gives `ls ++ [[]]`.
-/

namespace Astisub
namespace Conv2
open Go SSA List Driver

/-! ## byte lengths -/

/-- number of bytes of the UTF-8 encoding of a text -/
def byteLen (l : Str) : Nat := (l.map Char.utf8Size).sum

theorem utf8_length (l : Str) : (utf8 l).length = byteLen l := by
  rw [SRTDoc.utf8_eq_flatMap]
  induction l with
  | nil => rfl
  | cons c cs ih =>
    simp only [flatMap_cons, length_append, String.length_utf8EncodeChar, ih, byteLen, map_cons, sum_cons]

theorem unlines_eq (ls : List Str) : SRTDoc.unlines ls = SSA.unlines ls := by
  simp [SRTDoc.unlines, SSA.unlines, List.flatMap_def]

/-! ## `allSomeL` -/

theorem allSomeL_map_some {α} (l : List α) : SSAD.allSomeL (l.map some) = some l := by
  induction l with
  | nil => rfl
  | cons a as ih => simp [SSAD.allSomeL, ih]

/-! ## the bytes of LF-terminated lines -/

/-- **Bytes to lines.** for lines without CR / LF, each shorter than 64 KiB once encoded, the byte-level
    reader model is the line-level reader model on exactly these lines -/
theorem readBytes_unlines (ls : List Str) (hnl : ∀ l ∈ ls, '\n' ∉ l ∧ '\r' ∉ l)
    (hlen : ∀ l ∈ ls, byteLen l < 65536) :
    SSAD.readBytes (utf8 (SSA.unlines ls)) =
      match SSA.read ls with
      | .unmodelled => none
      | .ok s => if SSAD.inRange s then some (.ok s) else none
      | .err => some .err := by
  unfold SSAD.readBytes
  have hlong : tooLong (utf8 (SSA.unlines ls)) = false := by
    unfold tooLong
    rw [← unlines_eq, SRTDoc.linesOf_utf8_unlines ls hnl, any_eq_false]
    intro b hb
    obtain ⟨l, hl, rfl⟩ := mem_map.mp hb
    have := hlen l hl
    rw [utf8_length]
    simp only [ge_iff_le, decide_eq_true_eq]
    omega
  rw [hlong, ← unlines_eq, SRTDoc.docLines_utf8_unlines ls hnl, allSomeL_map_some]
  rfl

/-! ## a trailing empty line -/

theorem step_nil (st : St) : step st [] = .ok { st with first := false } := by
  unfold step
  cases st.first <;> rfl

theorem run_blank (st : St) (ls : List Str) :
    run st (ls ++ [[]]) = match run st ls with
      | .ok st' => .ok { st' with first := false }
      | .err => .err
      | .unmodelled => .unmodelled := by
  rw [run_append]
  cases run st ls with
  | ok st' => simp only [run, step_nil]
  | err => rfl
  | unmodelled => rfl

/-- the scanner hands `ReadFromSSA` no token for the empty remainder after the last line feed, whereas
    `splitC '\n'` yields a last empty line: the reader answers the same on both -/
theorem read_blank_end (ls : List Str) : SSA.read (ls ++ [[]]) = SSA.read ls := by
  unfold SSA.read
  rw [run_blank]
  cases run {} ls <;> rfl

/-! ## the lines of the written document -/

/-- **The written text as lines.** for a representable cue list the text `WriteToSSA` answers is a
    sequence of LF-terminated lines none of which contains a line feed -/
theorem written_lines (s : Subs) (out : Str) (hr : RepRead s) (h : write s = .ok out) :
    ∃ ls, out = SSA.unlines ls ∧ (∀ l ∈ ls, '\n' ∉ l) ∧ splitC '\n' out = ls ++ [[]] := by
  obtain ⟨hinfoOK, hstyles, hevents, _⟩ := hr
  obtain ⟨infoTxt, rows, hi, hrows, rfl⟩ := write_ok_lines s out h
  obtain ⟨infoLines, rfl, hnl, _⟩ := run_info _ infoTxt hinfoOK hi
  have hrowsnl := rows_nl (formatFlds (writerStyles s)) (writerStyles s) rows (fun st hst => (hstyles st hst).2.2) hrows
  rw [← unlines_append, ← unlines_append]
  have hall : ∀ l ∈ ("[Script Info]".toList :: infoLines ++ stylesBlock (isV4plus s) (formatFlds (writerStyles s)) rows)
      ++ eventsBlock (isV4plus s) (s.items.map eventOfItem), '\n' ∉ l := by
    intro l hl
    rcases mem_append.mp hl with hl | hl
    · rcases mem_append.mp hl with hl | hl
      · rcases mem_cons.mp hl with rfl | hl
        · decide
        · exact hnl l hl
      · exact stylesBlock_nl _ _ rows hrowsnl l hl
    · exact eventsBlock_nl _ _ (fun e he => ⟨(hevents e he).1, (hevents e he).2.2⟩) l hl
  exact ⟨_, rfl, hall, splitC_unlines _ hall⟩

end Conv2
end Astisub
