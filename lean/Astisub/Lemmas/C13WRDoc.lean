import Astisub.Lemmas.C13WROpt
import Astisub.Props.C03doc

/-!
# Lemmas/C13WRDoc — what `optimizeSubs` keeps, and the TTML proviso after it

General facts about `optimizeSubs` (cues untouched, kept definitions are definitions of the input, a
definition goes exactly when it is not referred to / not reachable, references that resolved still
resolve, idempotence) and the transfer of `TTMLDoc.rep` / `TTMLDoc.xmlCarries`.
-/

namespace Astisub
namespace C13WR
open Go List

/-! ### shape of the result -/

theorem optimizeSubs_of_empty (s : Subs) (h : s.items.isEmpty = true) : optimizeSubs s = s := by
  simp [optimizeSubs, h]

theorem optimizeSubs_items (s : Subs) : (optimizeSubs s).items = s.items := by
  unfold optimizeSubs; split <;> rfl

theorem optimizeSubs_metadata (s : Subs) : (optimizeSubs s).metadata = s.metadata := by
  unfold optimizeSubs; split <;> rfl

theorem optimizeSubs_styles_sublist (s : Subs) : (optimizeSubs s).styles <+ s.styles := by
  unfold optimizeSubs; split
  · exact Sublist.refl _
  · exact filter_sublist

theorem optimizeSubs_regions_sublist (s : Subs) : (optimizeSubs s).regions <+ s.regions := by
  unfold optimizeSubs; split
  · exact Sublist.refl _
  · exact filter_sublist

theorem mem_optimizeSubs_styles (s : Subs) (hne : s.items.isEmpty = false) (d : Def) :
    d ∈ (optimizeSubs s).styles ↔ d ∈ s.styles ∧ d.id ∈ usedStyleIds s := by
  rw [optimizeSubs_of_ne s hne]; simp [keptStyles, keepStyle]

theorem mem_optimizeSubs_regions (s : Subs) (hne : s.items.isEmpty = false) (d : Def) :
    d ∈ (optimizeSubs s).regions ↔ d ∈ s.regions ∧ d.id ∈ usedRegionIds s := by
  rw [optimizeSubs_of_ne s hne]; simp [keptRegions]

/-! ### references that resolved still resolve -/

/-- a defined style that is reachable is still defined -/
theorem styleId_kept (s : Subs) (v : Str) (hv : v ∈ s.styles.map (·.id))
    (hu : s.items.isEmpty = false → v ∈ usedStyleIds s) : v ∈ (optimizeSubs s).styles.map (·.id) := by
  cases he : s.items.isEmpty with
  | true => rw [optimizeSubs_of_empty s he]; exact hv
  | false =>
    obtain ⟨d, hd, rfl⟩ := mem_map.mp hv
    exact mem_map.mpr ⟨d, (mem_optimizeSubs_styles s he d).mpr ⟨hd, hu he⟩, rfl⟩

/-- a defined region some cue refers to is still defined -/
theorem regionId_kept (s : Subs) (v : Str) (hv : v ∈ s.regions.map (·.id))
    (hu : s.items.isEmpty = false → v ∈ usedRegionIds s) : v ∈ (optimizeSubs s).regions.map (·.id) := by
  cases he : s.items.isEmpty with
  | true => rw [optimizeSubs_of_empty s he]; exact hv
  | false =>
    obtain ⟨d, hd, rfl⟩ := mem_map.mp hv
    exact mem_map.mpr ⟨d, (mem_optimizeSubs_regions s he d).mpr ⟨hd, hu he⟩, rfl⟩

/-- the style a cue or one of its runs refers to -/
theorem itemRef_kept (s : Subs) (it : CItem) (hit : it ∈ s.items) (v : Str) (hr : some v ∈ itemRefs it)
    (hv : v ∈ s.styles.map (·.id)) : v ∈ (optimizeSubs s).styles.map (·.id) :=
  styleId_kept s v hv (fun _ => root_mem_used s v (itemRefs_root s it hit _ hr))

/-- the region a cue refers to -/
theorem itemRegion_kept (s : Subs) (it : CItem) (hit : it ∈ s.items) (v : Str) (hr : it.region = some v)
    (hv : v ∈ s.regions.map (·.id)) : v ∈ (optimizeSubs s).regions.map (·.id) :=
  regionId_kept s v hv (fun _ => by
    unfold usedRegionIds
    exact mem_filterMap.mpr ⟨it, hit, hr⟩)

/-- the style a kept region refers to -/
theorem regionRef_kept (s : Subs) (d : Def) (hd : d ∈ (optimizeSubs s).regions) (v : Str) (hr : d.ref = some v)
    (hv : v ∈ s.styles.map (·.id)) : v ∈ (optimizeSubs s).styles.map (·.id) :=
  styleId_kept s v hv (fun he => by
    have hd' : d ∈ keptRegions s := by rw [optimizeSubs_of_ne s he] at hd; exact hd
    exact root_mem_used s v (hr ▸ regionRef_root s d hd'))

/-- the parent a kept style refers to (identifiers pairwise distinct) -/
theorem styleRef_kept (s : Subs) (hnd : (s.styles.map (·.id)).Nodup) (d : Def) (hd : d ∈ (optimizeSubs s).styles)
    (v : Str) (hr : d.ref = some v) (hv : v ∈ s.styles.map (·.id)) : v ∈ (optimizeSubs s).styles.map (·.id) :=
  styleId_kept s v hv (fun he => by
    obtain ⟨hd1, hd2⟩ := (mem_optimizeSubs_styles s he d).mp hd
    apply usedStyleIds_closed s d.id v hd2
    unfold parentRef
    rw [findDef_of_mem hnd hd1]
    exact hr)

/-! ### `refsOk`: every reference resolves -/

/-- an optional reference is absent or names one of `ids` -/
def refIn (ids : List Str) (r : Option Str) : Bool :=
  match r with
  | none => true
  | some v => ids.contains v

/-- **every reference made anywhere in the list resolves** (decidable): the style of every cue and of
    every run, the region of every cue, the style of every region and the parent of every style are
    absent or defined -/
def refsOk (s : Subs) : Bool :=
  s.items.all (fun it => (itemRefs it).all (refIn (s.styles.map (·.id))) && refIn (s.regions.map (·.id)) it.region) &&
  s.regions.all (fun d => refIn (s.styles.map (·.id)) d.ref) &&
  s.styles.all (fun d => refIn (s.styles.map (·.id)) d.ref)

/-- style identifiers are pairwise distinct (they are map keys in Go) -/
def styleIdsDistinct (s : Subs) : Bool := decide (s.styles.map (·.id)).Nodup

theorem refIn_iff {ids : List Str} {r : Option Str} : refIn ids r = true ↔ ∀ v, r = some v → v ∈ ids := by
  cases r with
  | none => simp [refIn]
  | some v => simp [refIn]

theorem refsOk_optimizeSubs (s : Subs) (hnd : styleIdsDistinct s = true) (h : refsOk s = true) :
    refsOk (optimizeSubs s) = true := by
  simp only [styleIdsDistinct, decide_eq_true_eq] at hnd
  simp only [refsOk, Bool.and_eq_true, all_eq_true, refIn_iff] at h ⊢
  obtain ⟨⟨hi, hr⟩, hs⟩ := h
  refine ⟨⟨?_, ?_⟩, ?_⟩
  · intro it hit
    rw [optimizeSubs_items] at hit
    obtain ⟨h1, h2⟩ := hi it hit
    refine ⟨fun r hr v hv => ?_, fun v hv => ?_⟩
    · subst hv; exact itemRef_kept s it hit v hr (h1 _ hr v rfl)
    · exact itemRegion_kept s it hit v hv (h2 v hv)
  · intro d hd v hv
    exact regionRef_kept s d hd v hv (hr d ((optimizeSubs_regions_sublist s).subset hd) v hv)
  · intro d hd v hv
    exact styleRef_kept s hnd d hd v hv (hs d ((optimizeSubs_styles_sublist s).subset hd) v hv)

/-! ### twice = once -/

theorem flatMap_congr' {α β : Type} {l : List α} {f g : α → List β} (h : ∀ x ∈ l, f x = g x) :
    l.flatMap f = l.flatMap g := by
  induction l with
  | nil => rfl
  | cons a rest ih =>
    simp only [flatMap_cons]
    rw [h a (by simp), ih (fun x hx => h x (mem_cons_of_mem _ hx))]

theorem usedRegionIds_optimizeSubs (s : Subs) : usedRegionIds (optimizeSubs s) = usedRegionIds s := by
  unfold usedRegionIds; rw [optimizeSubs_items]

theorem keptRegions_optimizeSubs (s : Subs) : keptRegions (optimizeSubs s) = keptRegions s := by
  cases he : s.items.isEmpty with
  | true => rw [optimizeSubs_of_empty s he]
  | false =>
    unfold keptRegions
    rw [usedRegionIds_optimizeSubs]
    rw [optimizeSubs_of_ne s he]
    simp only [keptRegions, filter_filter, Bool.and_self]

theorem rootRefs_optimizeSubs (s : Subs) : rootRefs (optimizeSubs s) = rootRefs s := by
  unfold rootRefs; rw [keptRegions_optimizeSubs, optimizeSubs_items]

theorem usedStyleIds_optimizeSubs (s : Subs) : usedStyleIds (optimizeSubs s) = usedStyleIds s := by
  cases he : s.items.isEmpty with
  | true => rw [optimizeSubs_of_empty s he]
  | false =>
    unfold usedStyleIds
    rw [rootRefs_optimizeSubs]
    apply flatMap_congr'
    intro r hr
    rw [optimizeSubs_of_ne s he]
    exact chainOf_kept_root s r hr

/-- doing it twice changes nothing more -/
theorem optimizeSubs_idem (s : Subs) : optimizeSubs (optimizeSubs s) = optimizeSubs s := by
  cases he : s.items.isEmpty with
  | true => rw [optimizeSubs_of_empty s he, optimizeSubs_of_empty s he]
  | false =>
    have he' : (optimizeSubs s).items.isEmpty = false := by rw [optimizeSubs_items]; exact he
    rw [optimizeSubs_of_ne _ he']
    have hk : keptStyles (optimizeSubs s) = (optimizeSubs s).styles := by
      unfold keptStyles keepStyle
      rw [usedStyleIds_optimizeSubs]
      rw [optimizeSubs_of_ne s he]
      simp only [keptStyles, keepStyle, filter_filter, Bool.and_self]
    rw [hk, keptRegions_optimizeSubs]
    rw [optimizeSubs_of_ne s he]

/-! ### the TTML proviso -/

open TTMLDoc in
theorem normRef_some {r : Option Str} {v : Str} (h : normRef r = some v) : r = some v := by
  cases r with
  | none => cases h
  | some w =>
    simp only [normRef] at h
    split at h
    · cases h
    · exact h

open TTMLDoc in
theorem refOk_transfer {ids ids' : List Str} {r : Option Str} (h : refOk ids r = true)
    (ht : ∀ v, r = some v → v ∈ ids → v ∈ ids') : refOk ids' r = true := by
  rw [refOk_iff] at h ⊢
  exact fun v hv => ht v (normRef_some hv) (h v hv)

open TTMLDoc in
/-- **`rep` survives `Optimize`**: what `WriteToTTML` / `ReadFromTTML` can carry before, they can carry after -/
theorem rep_optimizeSubs (s : Subs) (h : rep s = true) : rep (optimizeSubs s) = true := by
  simp only [rep, Bool.and_eq_true, all_eq_true, decide_eq_true_eq, Bool.not_eq_true'] at h ⊢
  obtain ⟨⟨⟨⟨⟨hne, hns⟩, hnr⟩, hst⟩, hrg⟩, hitems⟩ := h
  refine ⟨⟨⟨⟨⟨?_, ?_⟩, ?_⟩, ?_⟩, ?_⟩, ?_⟩
  · rw [optimizeSubs_items]; exact hne
  · exact hns.sublist ((optimizeSubs_styles_sublist s).map _)
  · exact hnr.sublist ((optimizeSubs_regions_sublist s).map _)
  · intro d hd
    have := hst d ((optimizeSubs_styles_sublist s).subset hd)
    simp only [defOk, Bool.and_eq_true] at this ⊢
    exact ⟨this.1, refOk_transfer this.2 (fun v hv hin => styleRef_kept s hns d hd v hv hin)⟩
  · intro d hd
    have := hrg d ((optimizeSubs_regions_sublist s).subset hd)
    simp only [defOk, Bool.and_eq_true] at this ⊢
    exact ⟨this.1, refOk_transfer this.2 (fun v hv hin => regionRef_kept s d hd v hv hin)⟩
  · intro it hit'
    have hit : it ∈ s.items := by rw [optimizeSubs_items] at hit'; exact hit'
    have := hitems it hit
    simp only [cueOk, Bool.and_eq_true, all_eq_true] at this ⊢
    obtain ⟨⟨⟨⟨⟨t1, t2⟩, ha⟩, hs⟩, hr⟩, hl⟩ := this
    refine ⟨⟨⟨⟨⟨t1, t2⟩, ha⟩, ?_⟩, ?_⟩, ?_⟩
    · exact refOk_transfer hs (fun v hv hin => itemRef_kept s it hit v (by simp [itemRefs, hv]) hin)
    · exact refOk_transfer hr (fun v hv hin => itemRegion_kept s it hit v hv hin)
    · intro l hl' li hli
      have := hl l hl' li hli
      simp only [runOk, Bool.and_eq_true] at this ⊢
      refine ⟨this.1, refOk_transfer this.2 (fun v hv hin => itemRef_kept s it hit v ?_ hin)⟩
      simp only [itemRefs, runRefs, mem_cons, mem_flatMap, mem_map]
      exact Or.inr ⟨l, hl', li, hli, hv⟩

open TTMLDoc in
/-- the character data is still XML-legal: nothing was added -/
theorem xmlCarries_optimizeSubs (s : Subs) (h : xmlCarries s = true) : xmlCarries (optimizeSubs s) = true := by
  simp only [xmlCarries, Bool.and_eq_true, all_eq_true] at h ⊢
  obtain ⟨⟨⟨⟨h1, h2⟩, h3⟩, h4⟩, h5⟩ := h
  refine ⟨⟨⟨⟨?_, ?_⟩, ?_⟩, ?_⟩, ?_⟩
  · simpa [titleOf, optimizeSubs_metadata] using h1
  · simpa [copyrightOf, optimizeSubs_metadata] using h2
  · exact fun d hd => h3 d ((optimizeSubs_styles_sublist s).subset hd)
  · exact fun d hd => h4 d ((optimizeSubs_regions_sublist s).subset hd)
  · intro it hit; rw [optimizeSubs_items] at hit; exact h5 it hit

end C13WR
end Astisub
