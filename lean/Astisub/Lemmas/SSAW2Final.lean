import Astisub.Lemmas.SSAW2Class
import Astisub.Lemmas.SSAW2CR
import Astisub.Lemmas.SRTBytes

/-!
# Lemmas/SSAW2Final — `decode (write s) = denote s`, the view of what is read back, the driver's predicate
-/

namespace Astisub
namespace SSAW
open Go SSA SSAR List
open Spec.SSA (GDoc decode view denote)

/-- the written text has no carriage return -/
theorem written_no_cr (s : Subs) (out : Str) (want : GDoc) (hd : denote s = some want) (hr : RepRead s)
    (hx : Extra s want) (hw : write s = .ok out) : '\r' ∉ out :=
  out_no_cr s out want hd hr hw hx.cr

/-- **First conjunct**: the decoder, run on the written text, returns exactly `denote s`. -/
theorem decode_write_first (s : Subs) (out : Str) (want : GDoc) (hd : denote s = some want) (hr : RepRead s)
    (hx : Extra s want) (hw : write s = .ok out) : decode out = some want := by
  rw [decode_docG s out want hd hr hx hw (written_no_cr s out want hd hr hx hw), bridge s want hd hr hx]

/-- the written text is in the class of the read clause -/
theorem written_inClass (s : Subs) (out : Str) (want : GDoc) (hd : denote s = some want) (hr : RepRead s)
    (hx : Extra s want) (hw : write s = .ok out) : InClass out = true :=
  inClass_written s out want hr hx hw (written_no_cr s out want hd hr hx hw) (decode_write_first s out want hd hr hx hw)

/-- **Both conjuncts** of `C04doc2.decode_write_Statement`. -/
theorem decode_write_both (s : Subs) (out : Str) (want : GDoc) (hd : denote s = some want) (hr : RepRead s)
    (hx : Extra s want) (hw : write s = .ok out) : decode out = some want ∧ view (norm s) = some want :=
  ⟨decode_write_first s out want hd hr hx hw,
   decode_write_view s out want hr hw (written_no_cr s out want hd hr hx hw) (decode_write_first s out want hd hr hx hw)
     (written_inClass s out want hd hr hx hw)⟩

/-! ### the float predicates are strengthenings of the model's -/

theorem floatOK_of_decFloat3 (bits : Nat) (h : decFloat3 bits = true) : floatOK bits = true := by
  unfold decFloat3 at h
  unfold floatOK
  cases hs : formatFloat3 bits with
  | none => rw [hs] at h; cases h
  | some str =>
    rw [hs] at h
    simp only [beq_iff_eq] at h ⊢
    exact parseFloat_of_floatOf h

theorem timerOK_of_decTimer (bits : Nat) (h : decTimer bits = true) : timerOK bits = true := by
  unfold decTimer at h
  unfold timerOK
  cases hs : formatFloatShortest bits with
  | none => rw [hs] at h; cases h
  | some str =>
    rw [hs] at h
    simp only [beq_iff_eq] at h ⊢
    exact parseFloat_of_floatOf h

/-! ### the model's side of the `ssa.write` stream -/

/-- what the driver's model of `ReadFromSSA` answers on the bytes of the written text: the normal form -/
theorem readBytes_written (s : Subs) (out : Str) (want : GDoc) (hd : denote s = some want) (hr : RepRead s)
    (hx : Extra s want) (hw : write s = .ok out) (r : Res Subs)
    (hrb : Driver.SSAD.readBytes (Driver.utf8 out) = some r) : r = .ok (norm s) := by
  have hdl : Driver.decodeLine (Driver.utf8 out) = some out := SRTDoc.decodeLine_utf8 out
  have hread : SSA.read (Spec.SSA.splitLines out []) = .ok (norm s) := by
    rw [← read_splitC out (written_no_cr s out want hd hr hx hw)]
    exact SSA.write_read s out hr hw
  unfold Driver.SSAD.readBytes at hrb
  split at hrb
  · cases hrb
  · rw [docLines_of_decode _ _ hdl, allSomeL_map_some] at hrb
    simp only [hread] at hrb
    split at hrb
    · injection hrb with hrb; exact hrb.symm
    · cases hrb

end SSAW
end Astisub
