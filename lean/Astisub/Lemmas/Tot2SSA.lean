import Astisub.Lemmas.TotBase
import Astisub.Model.SSA

/-!
# Lemmas/Tot2SSA — the SSA writer with Go's nil-pointer dereferences and map look-ups made explicit

The writer model `SSA.write` is total by construction: `kvGet none _ = none`, `Option.getD`,
`List.map` over the sorted definitions.  Here the writer is written once more in the monad `Chk`, where a
field read through a pointer (`fieldC`), a `*p` (`deref`), a map look-up followed by a method call
(`deref (mapGet m n)`) and a store `l[i] = x` (`setC`) may answer `.error panic`, with the guards of the
Go code copied as explicit `if`s.  Sites of `ssa.go` covered:

* `newSSAScriptInfo(m *Metadata)`: sixteen reads `m.F` behind `if m != nil` — `infoOfMetaC`,
  unguarded `infoOfMetaU`;
* `WriteToSSA`: `v4plus = s.Metadata != nil && s.Metadata.SSAScriptType == "v4.00+"` — `v4plusC`,
  the pinned test `v4plusU` (D9);
* `ssaScriptInfo.bytes`: `*b.playDepth`, `*b.playResX`, `*b.playResY`, `*b.timer` behind `!= nil` —
  `fieldLineC` / `fieldLineU`, `bytesC`;
* `newSSAStyleFromStyle(i Style)`: twenty-three reads `i.InlineStyle.SSA…` behind
  `if i.InlineStyle == nil { return &ssaStyle{name: i.ID} }` — `styleOfDefC`, the pinned `styleOfDefU` (D9);
* `ssaStyle.string`: `*b`, `*f`, `*i`, `newSSAColorFromColor(c)` of the pointer fields behind `!= nil` —
  `cellC` / `cellU`, `colCellC`, `rowC` (`ssaStyle.updateFormat` only tests the pointers);
* `WriteToSSA`, styles block: `styles[ss.name] = ss`, then `styles[n].updateFormat(…)` and
  `styles[n].string(format)` for `n` in the sorted `styleNames` — a miss would be a nil `*ssaStyle` whose
  value-receiver method call panics: `buildG`, `formatLoopC`, `rowsLoopC`, never missing by `mapGet_hit`;
  (`formatMap`, `styles` are `make`d, so the stores into them cannot panic);
* `newSSAEventFromItem`: `i.Style.ID` behind `i.Style != nil`, six reads `i.InlineStyle.SSA…` behind
  `i.InlineStyle != nil`, `item.InlineStyle.SSAEffect` behind
  `item.InlineStyle != nil && len(item.InlineStyle.SSAEffect) > 0` — `eventOfItemC`, `runTextC`,
  unguarded `eventOfItemUStyle`, `eventOfItemUAttrs`, `runTextU`;
* `ssaEvent.string`: `e.marked != nil && *e.marked`, `if i == nil { i = astikit.IntPtr(0) }; *i` —
  `markedCellC` / `markedCellU`, `intCellC` / `intCellU`, `evCellC`, `evRowC`;
* `WriteToSSA`, events block: `format[0] = ssaEventFormatNameLayer` on the nine-element literal —
  `setC`, `eventFormatC`.

Results: `writeC s` never panics for any `Subs` (`writeC_safe`) and is the model's answer for the style
list as the look-ups see it (`writeC_lastWins`), hence `SSA.write s` whenever the style ids are distinct
(`writeC_eq`; the hypothesis is necessary: `writeC_eq_Statement_false`).  The pinned writer `writeU` panics
exactly when there is a cue and the metadata pointer is nil or some style has no inline style
(`writeU_panics_iff`); each unguarded piece panics exactly when its part is absent (`…_panics_iff`).

Not expressible in the model: a nil *entry* of `s.Styles` / `s.Items` (`newSSAStyleFromStyle(*s)`,
`newSSAEventFromItem(*i)`): the lists of the model hold values, not pointers.
-/

namespace Astisub
namespace Tot
namespace SSAW
open Astisub.SSA Go

/-! ## primitives of this file -/

/-- `p.k`: a field read through a pointer to a struct (`*Metadata`, `*StyleAttributes`); the read
    dereferences the pointer.  The value is the canonical text of the field when it is set. -/
def fieldC (a : Attrs) (k : String) : Chk (Option Str) := do
  let kv ← deref a
  pure (kv.lookup k.toList)

/-- `l[i] = x` -/
def setC {α} (l : List α) (i : Nat) (x : α) : Chk (List α) :=
  if i < l.length then .ok (l.set i x) else .error .index

/-- a `for … range` loop whose body may panic and that appends one result per element -/
def mapC {α β} (f : α → Chk β) : List α → Chk (List β)
  | [] => pure []
  | a :: as => do
    let b ← f a
    let bs ← mapC f as
    pure (b :: bs)

/-- through a non-nil pointer the field read is the model's `kvGet` -/
theorem fieldC_some (kv : KV) (k : String) : fieldC (some kv) k = .ok (kvGet (some kv) k) := rfl

/-- through the nil pointer the field read panics -/
theorem fieldC_none (k : String) : fieldC none k = .error .nilDeref := rfl

/-- a field read panics exactly on the nil pointer -/
theorem fieldC_panics_iff (a : Attrs) (k : String) : fieldC a k = .error .nilDeref ↔ a = none := by
  cases a with
  | none => exact ⟨fun _ => rfl, fun _ => rfl⟩
  | some kv => exact ⟨fun h => (nomatch h), fun h => (nomatch h)⟩

/-- a loop whose body never panics never panics, and collects the bodies' values -/
theorem mapC_eq {α β} (f : α → Chk β) (g : α → β) : ∀ (l : List α), (∀ a ∈ l, f a = .ok (g a)) →
    mapC f l = .ok (l.map g) := by
  intro l
  induction l with
  | nil => intro _; rfl
  | cons a as ih =>
    intro h
    unfold mapC
    rw [h a (List.mem_cons_self ..), ih (fun b hb => h b (List.mem_cons_of_mem _ hb))]
    rfl

/-- a loop whose body answers or panics with a nil dereference panics as soon as one element does -/
theorem mapC_panics {α β} (f : α → Chk β) : ∀ (l : List α),
    (∀ a ∈ l, f a = .error .nilDeref ∨ ∃ b, f a = .ok b) → (∃ a ∈ l, f a = .error .nilDeref) →
    mapC f l = .error .nilDeref := by
  intro l
  induction l with
  | nil => intro _ ⟨a, ha, _⟩; cases ha
  | cons a as ih =>
    intro hall ⟨x, hx, hxe⟩
    unfold mapC
    rcases hall a (List.mem_cons_self ..) with he | ⟨b, hb⟩
    · rw [he]; rfl
    · rw [hb]
      have hx' : x ∈ as := by
        rcases List.mem_cons.mp hx with rfl | h
        · rw [hb] at hxe; cases hxe
        · exact h
      rw [ih (fun c hc => hall c (List.mem_cons_of_mem _ hc)) ⟨x, hx', hxe⟩]
      rfl

/-- the store `l[0] = x` on a non-empty slice is in range -/
theorem setC_zero_cons {α} (a : α) (l : List α) (x : α) : setC (a :: l) 0 x = .ok (x :: l) := rfl

/-- the store `l[0] = x` on an empty slice panics -/
theorem setC_nil {α} (i : Nat) (x : α) : setC ([] : List α) i x = .error .index := rfl

/-! ## the typed fields of `*Metadata` / `*StyleAttributes` -/

/-- `o.f = m.F` for every field `f` of the list: each one a read through the pointer `a` -/
def valsC {κ} (key : κ → String) (kind : κ → Kind) (a : Attrs) : List κ → Chk (Vals κ)
  | [] => pure []
  | f :: fs => do
    let v ← fieldC a (key f)
    let rest ← valsC key kind a fs
    pure (match v with | some s => (f, Val.ofCanon (kind f) s) :: rest | none => rest)

/-- through a non-nil pointer the copies are the model's `filterMap` over `kvGet` -/
theorem valsC_some {κ} (key : κ → String) (kind : κ → Kind) (kv : KV) : ∀ (fs : List κ),
    valsC key kind (some kv) fs
      = .ok (fs.filterMap fun f => (kvGet (some kv) (key f)).map fun s => (f, Val.ofCanon (kind f) s)) := by
  intro fs
  induction fs with
  | nil => rfl
  | cons f fs ih =>
    unfold valsC
    rw [fieldC_some, ih]
    simp only [ok_bind, pure_eq, List.filterMap_cons]
    cases kvGet (some kv) (key f) <;> rfl

/-- through the nil pointer the first copy panics -/
theorem valsC_none {κ} (key : κ → String) (kind : κ → Kind) (f : κ) (fs : List κ) :
    valsC key kind none (f :: fs) = .error .nilDeref := rfl

/-! ## `newSSAScriptInfo` -/

/-- `newSSAScriptInfo`: `o = &ssaScriptInfo{}; if m != nil { o.comments = m.Comments; o.collisions = m.SSACollisions; … }` -/
def infoOfMetaC (m : Attrs) : Chk Info :=
  if m.isSome then do
    let c ← fieldC m "Comments"
    let vals ← valsC SI.key SI.kind m SI.all
    pure { comments := match c with | some c => splitC '\n' c | none => [], vals := vals }
  else pure {}

/-- `newSSAScriptInfo` without the `m != nil` guard -/
def infoOfMetaU (m : Attrs) : Chk Info := do
  let c ← fieldC m "Comments"
  let vals ← valsC SI.key SI.kind m SI.all
  pure { comments := match c with | some c => splitC '\n' c | none => [], vals := vals }

/-- `newSSAScriptInfo` never panics and is the model's `infoOfMeta`, nil metadata included -/
theorem infoOfMetaC_eq (m : Attrs) : infoOfMetaC m = .ok (infoOfMeta m) := by
  cases m with
  | none => rfl
  | some kv =>
    unfold infoOfMetaC infoOfMeta
    have h : (some kv : Attrs).isSome = true := rfl
    rw [if_pos h, fieldC_some, valsC_some]
    rfl

/-- without the guard, nil metadata panics -/
theorem infoOfMetaU_nil : infoOfMetaU none = .error .nilDeref := rfl

/-- without the guard, non-nil metadata is handled as with it -/
theorem infoOfMetaU_some (kv : KV) : infoOfMetaU (some kv) = .ok (infoOfMeta (some kv)) := by
  unfold infoOfMetaU infoOfMeta
  rw [fieldC_some, valsC_some]
  rfl

/-- the `m != nil` guard is necessary exactly for nil metadata -/
theorem infoOfMetaU_panics_iff (m : Attrs) : infoOfMetaU m = .error .nilDeref ↔ m = none := by
  cases m with
  | none => exact ⟨fun _ => rfl, fun _ => rfl⟩
  | some kv => rw [infoOfMetaU_some]; exact ⟨fun h => (nomatch h), fun h => (nomatch h)⟩

/-! ## `s.Metadata != nil && s.Metadata.SSAScriptType == "v4.00+"` -/

/-- `var v4plus = s.Metadata != nil && s.Metadata.SSAScriptType == "v4.00+"` -/
def v4plusC (m : Attrs) : Chk Bool :=
  if m.isSome then do
    let t ← fieldC m "SSAScriptType"
    pure (decide (t = some "v4.00+".toList))
  else pure false

/-- the pinned code: `s.Metadata.SSAScriptType == "v4.00+"` -/
def v4plusU (m : Attrs) : Chk Bool := do
  let t ← fieldC m "SSAScriptType"
  pure (decide (t = some "v4.00+".toList))

/-- the guarded test never panics and is the model's test -/
theorem v4plusC_eq (m : Attrs) : v4plusC m = .ok (decide (kvGet m "SSAScriptType" = some "v4.00+".toList)) := by
  cases m with
  | none => rfl
  | some kv => rfl

/-- D9: the unguarded test panics on nil metadata -/
theorem v4plusU_nil : v4plusU none = .error .nilDeref := rfl

/-- the unguarded test on non-nil metadata -/
theorem v4plusU_some (kv : KV) :
    v4plusU (some kv) = .ok (decide (kvGet (some kv) "SSAScriptType" = some "v4.00+".toList)) := rfl

/-- D9: the unguarded test panics exactly on nil metadata -/
theorem v4plusU_panics_iff (m : Attrs) : v4plusU m = .error .nilDeref ↔ m = none := by
  cases m with
  | none => exact ⟨fun _ => rfl, fun _ => rfl⟩
  | some kv => exact ⟨fun h => (nomatch h), fun h => (nomatch h)⟩

/-! ## `ssaScriptInfo.bytes` -/

/-- the model's local `fieldLine` of `Info.bytes`, named -/
def fieldLineM (b : Info) (f : SI) : Option (List Str) :=
  match b.vals.get f with
  | none => some []
  | some (.f bits) =>
    (formatFloatShortest bits).map fun s => [f.header.toList ++ ": ".toList ++ replaceAll ['.'] [','] s]
  | some v => some [f.header.toList ++ ": ".toList ++ v.canon]

/-- `Info.bytes` with its local function named -/
theorem bytes_eq (b : Info) : b.bytes = (Info.bytes.go (fieldLineM b) SI.all).map fun ls =>
    unlines ("[Script Info]".toList :: b.comments.map (fun c => "; ".toList ++ c) ++ ls) := rfl

/-- one `if b.f != nil { o = append…(…*b.f…) }` of `ssaScriptInfo.bytes` (for the string fields the test is
    `len(b.f) > 0` and nothing is dereferenced; an unset field is `none` in both cases) -/
def fieldLineC (b : Info) (f : SI) : Chk (Option (List Str)) :=
  let p := b.vals.get f
  if p.isSome then do
    let v ← deref p
    pure (match v with
      | .f bits => (formatFloatShortest bits).map fun s => [f.header.toList ++ ": ".toList ++ replaceAll ['.'] [','] s]
      | v => some [f.header.toList ++ ": ".toList ++ v.canon])
  else pure (some [])

/-- the same without the `!= nil` test -/
def fieldLineU (b : Info) (f : SI) : Chk (Option (List Str)) := do
  let v ← deref (b.vals.get f)
  pure (match v with
    | .f bits => (formatFloatShortest bits).map fun s => [f.header.toList ++ ": ".toList ++ replaceAll ['.'] [','] s]
    | v => some [f.header.toList ++ ": ".toList ++ v.canon])

/-- a script-info line never panics and is the model's -/
theorem fieldLineC_eq (b : Info) (f : SI) : fieldLineC b f = .ok (fieldLineM b f) := by
  unfold fieldLineC fieldLineM
  cases b.vals.get f with
  | none => rfl
  | some v => cases v <;> rfl

/-- without the test an unset `*int` / `*float64` field panics -/
theorem fieldLineU_panics_iff (b : Info) (f : SI) : fieldLineU b f = .error .nilDeref ↔ b.vals.get f = none := by
  unfold fieldLineU
  cases b.vals.get f with
  | none => exact ⟨fun _ => rfl, fun _ => rfl⟩
  | some v => exact ⟨fun h => (nomatch h), fun h => (nomatch h)⟩

/-- the field lines of `ssaScriptInfo.bytes` in order -/
def linesC (b : Info) : List SI → Chk (Option (List Str))
  | [] => pure (some [])
  | f :: fs => do
    let a ← fieldLineC b f
    let r ← linesC b fs
    pure (match a, r with | some a, some r => some (a ++ r) | _, _ => none)

/-- the field lines never panic and are the model's -/
theorem linesC_eq (b : Info) : ∀ (fs : List SI), linesC b fs = .ok (Info.bytes.go (fieldLineM b) fs) := by
  intro fs
  induction fs with
  | nil => rfl
  | cons f fs ih =>
    unfold linesC
    rw [fieldLineC_eq, ih]
    rfl

/-- `ssaScriptInfo.bytes` (`none` = a float outside the model) -/
def bytesC (b : Info) : Chk (Option Str) := do
  let ls ← linesC b SI.all
  pure (ls.map fun ls => unlines ("[Script Info]".toList :: b.comments.map (fun c => "; ".toList ++ c) ++ ls))

/-- `ssaScriptInfo.bytes` never panics and is the model's `Info.bytes` -/
theorem bytesC_eq (b : Info) : bytesC b = .ok b.bytes := by
  unfold bytesC
  rw [linesC_eq, bytes_eq]
  rfl

/-! ## `newSSAStyleFromStyle` -/

/-- `newSSAStyleFromStyle`: `if i.InlineStyle == nil { return &ssaStyle{name: i.ID} }`, then one
    `i.InlineStyle.SSA…` per field -/
def styleOfDefC (d : Def) : Chk Style :=
  if d.attrs.isNone then pure { name := d.id }
  else do
    let vals ← valsC Fld.key Fld.kind d.attrs Fld.all
    pure { name := d.id, vals := vals }

/-- the pinned `newSSAStyleFromStyle`: no test of `i.InlineStyle` -/
def styleOfDefU (d : Def) : Chk Style := do
  let vals ← valsC Fld.key Fld.kind d.attrs Fld.all
  pure { name := d.id, vals := vals }

/-- `newSSAStyleFromStyle` never panics and is the model's `styleOfDef`, nil `InlineStyle` included -/
theorem styleOfDefC_eq (d : Def) : styleOfDefC d = .ok (styleOfDef d) := by
  unfold styleOfDefC styleOfDef
  cases d.attrs with
  | none => rfl
  | some kv =>
    have h : ¬ ((some kv : Attrs).isNone = true) := by simp
    rw [if_neg h, valsC_some]
    rfl

/-- D9: the pinned code panics on a style without inline style -/
theorem styleOfDefU_nil (d : Def) (h : d.attrs = none) : styleOfDefU d = .error .nilDeref := by
  unfold styleOfDefU
  rw [h]
  rfl

/-- the pinned code on a style with inline style -/
theorem styleOfDefU_some (d : Def) (h : d.attrs ≠ none) : styleOfDefU d = .ok (styleOfDef d) := by
  unfold styleOfDefU styleOfDef
  cases hd : d.attrs with
  | none => exact absurd hd h
  | some kv => rw [valsC_some]; rfl

/-- D9: the pinned code panics exactly on a style without inline style -/
theorem styleOfDefU_panics_iff (d : Def) : styleOfDefU d = .error .nilDeref ↔ d.attrs = none := by
  by_cases h : d.attrs = none
  · exact ⟨fun _ => h, fun _ => styleOfDefU_nil d h⟩
  · rw [styleOfDefU_some d h]
    exact ⟨fun e => (nomatch e), fun e => absurd e h⟩

/-! ## `ssaStyle.string` -/

/-- one field of `ssaStyle.string`: `if p != nil { v = …(*p) }` (`*bool`, `*Color`, `*float64`, `*int`; for the
    string `fontName` there is nothing to dereference; unset is `none` in both cases).  The inner
    `none` = a float outside the model. -/
def cellC (s : Style) (f : Fld) : Chk (Option Str) :=
  let p := s.vals.get f
  if p.isSome then do
    let v ← deref p
    pure v.ssa
  else pure (some [])

/-- the same without the `!= nil` test -/
def cellU (s : Style) (f : Fld) : Chk (Option Str) := do
  let v ← deref (s.vals.get f)
  pure v.ssa

/-- the model's cell of `Style.row`, named -/
def cellM (s : Style) (col : Str) : Option (Option Str) :=
  match colOfName col with
  | some (.fld f) =>
    if col = "TertiaryColour".toList then some none else
    match s.vals.get f with
    | some v => (v.ssa).map some
    | none => some (some [])
  | _ => some none

/-- `Style.row` with its local function named -/
theorem row_eq (s : Style) (format : List Str) :
    s.row format = (allSome (format.map (cellM s))).map fun cs => join [','] (s.name :: cs.filterMap id) := rfl

/-- the `switch attr` of `ssaStyle.string` for one Format column -/
def colCellC (s : Style) (col : Str) : Chk (Option (Option Str)) :=
  match colOfName col with
  | some (.fld f) =>
    if col = "TertiaryColour".toList then pure (some none) else do
      let v ← cellC s f
      pure (v.map some)
  | _ => pure (some none)

/-- a style field never panics and is the model's -/
theorem cellC_eq (s : Style) (f : Fld) :
    cellC s f = .ok (match s.vals.get f with | some v => v.ssa | none => some []) := by
  unfold cellC
  cases s.vals.get f <;> rfl

/-- without the test an unset pointer field of the style panics -/
theorem cellU_panics_iff (s : Style) (f : Fld) : cellU s f = .error .nilDeref ↔ s.vals.get f = none := by
  unfold cellU
  cases s.vals.get f with
  | none => exact ⟨fun _ => rfl, fun _ => rfl⟩
  | some v => exact ⟨fun h => (nomatch h), fun h => (nomatch h)⟩

/-- a Format column of a style row never panics and is the model's -/
theorem colCellC_eq (s : Style) (col : Str) : colCellC s col = .ok (cellM s col) := by
  unfold colCellC cellM
  split
  · split
    · rfl
    · rw [cellC_eq]
      cases s.vals.get _ <;> rfl
  · rfl

/-- `ssaStyle.string` -/
def rowC (s : Style) (format : List Str) : Chk (Option Str) := do
  let cells ← mapC (colCellC s) format
  pure ((allSome cells).map fun cs => join [','] (s.name :: cs.filterMap id))

/-- `ssaStyle.string` never panics and is the model's `Style.row` -/
theorem rowC_eq (s : Style) (format : List Str) : rowC s format = .ok (s.row format) := by
  unfold rowC
  rw [mapC_eq (colCellC s) (cellM s) format (fun c _ => colCellC_eq s c), row_eq]
  rfl

/-! ## `newSSAEventFromItem` -/

/-- one run: `if item.InlineStyle != nil && len(item.InlineStyle.SSAEffect) > 0 { s += item.InlineStyle.SSAEffect }; s += item.Text` -/
def runTextC (li : LItem) : Chk Str := do
  let c ← (if li.attrs.isSome then do
             let e ← fieldC li.attrs "SSAEffect"
             pure (decide (0 < (e.getD []).length))
           else pure false)
  if c then do
    let e ← fieldC li.attrs "SSAEffect"
    pure (e.getD [] ++ li.text)
  else pure li.text

/-- the same with `len(item.InlineStyle.SSAEffect) > 0` alone -/
def runTextU (li : LItem) : Chk Str := do
  let e ← fieldC li.attrs "SSAEffect"
  if 0 < (e.getD []).length then do
    let e ← fieldC li.attrs "SSAEffect"
    pure (e.getD [] ++ li.text)
  else pure li.text

/-- the text of a run never panics and is the model's, nil inline style included -/
theorem runTextC_eq (li : LItem) : runTextC li = .ok ((kvGet li.attrs "SSAEffect").getD [] ++ li.text) := by
  unfold runTextC
  cases hl : li.attrs with
  | none => rfl
  | some kv =>
    have h : (some kv : Attrs).isSome = true := rfl
    rw [if_pos h, fieldC_some]
    simp only [ok_bind, pure_eq]
    cases hk : kvGet (some kv) "SSAEffect" with
    | none => rfl
    | some e =>
      cases e with
      | nil => rfl
      | cons c cs =>
        have : decide (0 < ((some (c :: cs) : Option Str).getD []).length) = true := by simp
        rw [this]
        rfl

/-- without the `!= nil` test a run without inline style panics -/
theorem runTextU_panics_iff (li : LItem) : runTextU li = .error .nilDeref ↔ li.attrs = none := by
  unfold runTextU
  cases li.attrs with
  | none => exact ⟨fun _ => rfl, fun _ => rfl⟩
  | some kv =>
    rw [fieldC_some]
    simp only [ok_bind, pure_eq]
    constructor
    · intro h; split at h <;> cases h
    · intro h; cases h

/-- one line: `strings.Join(items, "")` over the runs -/
def lineTextC (l : Line) : Chk Str := do
  let items ← mapC runTextC l.items
  pure items.flatten

/-- the text of a line never panics and is the model's, empty lines included -/
theorem lineTextC_eq (l : Line) :
    lineTextC l = .ok ((l.items.map fun li => (kvGet li.attrs "SSAEffect").getD [] ++ li.text).flatten) := by
  unfold lineTextC
  rw [mapC_eq runTextC _ l.items (fun li _ => runTextC_eq li)]
  rfl

/-- `newSSAEventFromItem`: `if i.Style != nil { e.style = i.Style.ID }`,
    `if i.InlineStyle != nil { e.effect = i.InlineStyle.SSAEffect; … }`, the lines -/
def eventOfItemC (it : CItem) : Chk Event := do
  let style ← (if it.style.isSome then deref it.style else pure [])
  let e : Event ← (if it.attrs.isSome then do
      let effect ← fieldC it.attrs "SSAEffect"
      let layer ← fieldC it.attrs "SSALayer"
      let ml ← fieldC it.attrs "SSAMarginLeft"
      let mr ← fieldC it.attrs "SSAMarginRight"
      let mv ← fieldC it.attrs "SSAMarginVertical"
      let marked ← fieldC it.attrs "SSAMarked"
      pure { category := "Dialogue".toList, endAt := it.endAt, startAt := it.startAt, style := style,
             effect := effect.getD [], layer := layer.map atoiLoose, marginL := ml.map atoiLoose,
             marginR := mr.map atoiLoose, marginV := mv.map atoiLoose,
             marked := marked.map fun s => decide (s = "true".toList) }
    else pure { category := "Dialogue".toList, endAt := it.endAt, startAt := it.startAt, style := style })
  let lines ← mapC lineTextC it.lines
  pure { e with name := it.lines.foldl (fun n l => if l.voice.isEmpty then n else l.voice) [],
                text := join "\\n".toList lines }

/-- `newSSAEventFromItem` without the `i.Style != nil` test -/
def eventOfItemUStyle (it : CItem) : Chk Event := do
  let style ← deref it.style
  let e ← eventOfItemC { it with style := none }
  pure { e with style := style }

/-- `newSSAEventFromItem` without the `i.InlineStyle != nil` test -/
def eventOfItemUAttrs (it : CItem) : Chk Event := do
  let effect ← fieldC it.attrs "SSAEffect"
  let layer ← fieldC it.attrs "SSALayer"
  let ml ← fieldC it.attrs "SSAMarginLeft"
  let mr ← fieldC it.attrs "SSAMarginRight"
  let mv ← fieldC it.attrs "SSAMarginVertical"
  let marked ← fieldC it.attrs "SSAMarked"
  let e ← eventOfItemC { it with attrs := none }
  pure { e with effect := effect.getD [], layer := layer.map atoiLoose, marginL := ml.map atoiLoose,
                marginR := mr.map atoiLoose, marginV := mv.map atoiLoose,
                marked := marked.map fun s => decide (s = "true".toList) }

/-- `newSSAEventFromItem` never panics and is the model's `eventOfItem`: nil style, nil inline style, no
    lines, lines without runs included -/
theorem eventOfItemC_eq (it : CItem) : eventOfItemC it = .ok (eventOfItem it) := by
  unfold eventOfItemC eventOfItem
  rw [mapC_eq lineTextC _ it.lines (fun l _ => lineTextC_eq l)]
  cases it.style <;> cases it.attrs <;> rfl

/-- without the `i.Style != nil` test a cue without style panics, and only such a cue -/
theorem eventOfItemUStyle_panics_iff (it : CItem) : eventOfItemUStyle it = .error .nilDeref ↔ it.style = none := by
  unfold eventOfItemUStyle
  rw [eventOfItemC_eq]
  cases it.style with
  | none => exact ⟨fun _ => rfl, fun _ => rfl⟩
  | some v => exact ⟨fun h => (nomatch h), fun h => (nomatch h)⟩

/-- without the `i.InlineStyle != nil` test a cue without inline style panics, and only such a cue -/
theorem eventOfItemUAttrs_panics_iff (it : CItem) : eventOfItemUAttrs it = .error .nilDeref ↔ it.attrs = none := by
  unfold eventOfItemUAttrs
  rw [eventOfItemC_eq]
  cases it.attrs with
  | none => exact ⟨fun _ => rfl, fun _ => rfl⟩
  | some v => exact ⟨fun h => (nomatch h), fun h => (nomatch h)⟩

/-- where the unguarded variants do not panic they are `newSSAEventFromItem` -/
theorem eventOfItemU_some (it : CItem) :
    (it.style ≠ none → eventOfItemUStyle it = .ok (eventOfItem it)) ∧
    (it.attrs ≠ none → eventOfItemUAttrs it = .ok (eventOfItem it)) := by
  constructor
  · intro h
    obtain ⟨_, _, _, style, _, _, _, _⟩ := it
    cases style with
    | none => exact absurd rfl h
    | some v => unfold eventOfItemUStyle; rw [eventOfItemC_eq]; rfl
  · intro h
    obtain ⟨_, _, _, _, _, attrs, _, _⟩ := it
    cases attrs with
    | none => exact absurd rfl h
    | some v => unfold eventOfItemUAttrs; rw [eventOfItemC_eq]; rfl

/-! ## `ssaEvent.string` -/

/-- `if i == nil { i = astikit.IntPtr(0) }; v = strconv.Itoa(*i)` -/
def intCellC (p : Option Int) : Chk Str := do
  let i := if p.isNone then some 0 else p
  let v ← deref i
  pure (itoa v)

/-- `v = strconv.Itoa(*i)` without the nil replacement -/
def intCellU (p : Option Int) : Chk Str := do
  let v ← deref p
  pure (itoa v)

/-- `if e.marked != nil && *e.marked { v = "Marked=1" } else { v = "Marked=0" }` -/
def markedCellC (p : Option Bool) : Chk Str := do
  let b ← (if p.isSome then deref p else pure false)
  pure (if b then "Marked=1".toList else "Marked=0".toList)

/-- `if *e.marked { … }` without the nil test -/
def markedCellU (p : Option Bool) : Chk Str := do
  let b ← deref p
  pure (if b then "Marked=1".toList else "Marked=0".toList)

/-- an integer column never panics: a nil pointer is written `0` -/
theorem intCellC_eq (p : Option Int) : intCellC p = .ok (itoa (p.getD 0)) := by
  cases p <;> rfl

/-- without the nil replacement an unset integer column panics, and only an unset one -/
theorem intCellU_panics_iff (p : Option Int) : intCellU p = .error .nilDeref ↔ p = none := by
  cases p with
  | none => exact ⟨fun _ => rfl, fun _ => rfl⟩
  | some v => exact ⟨fun h => (nomatch h), fun h => (nomatch h)⟩

/-- the Marked column never panics: a nil pointer is written `Marked=0` -/
theorem markedCellC_eq (p : Option Bool) :
    markedCellC p = .ok (if p = some true then "Marked=1".toList else "Marked=0".toList) := by
  cases p with
  | none => rfl
  | some b => cases b <;> rfl

/-- without the nil test an unset Marked column panics, and only an unset one -/
theorem markedCellU_panics_iff (p : Option Bool) : markedCellU p = .error .nilDeref ↔ p = none := by
  cases p with
  | none => exact ⟨fun _ => rfl, fun _ => rfl⟩
  | some v => exact ⟨fun h => (nomatch h), fun h => (nomatch h)⟩

/-- the `switch attr` of `ssaEvent.string`: `none` = `found = false` -/
def evCellC (e : Event) (attr : Str) : Chk (Option Str) :=
  if attr = "End".toList then pure (some (Duration.formatSSA e.endAt))
  else if attr = "Start".toList then pure (some (Duration.formatSSA e.startAt))
  else if attr = "Marked".toList then do let v ← markedCellC e.marked; pure (some v)
  else if attr = "Layer".toList then do let v ← intCellC e.layer; pure (some v)
  else if attr = "MarginL".toList then do let v ← intCellC e.marginL; pure (some v)
  else if attr = "MarginR".toList then do let v ← intCellC e.marginR; pure (some v)
  else if attr = "MarginV".toList then do let v ← intCellC e.marginV; pure (some v)
  else if attr = "Effect".toList then pure (some e.effect)
  else if attr = "Name".toList then pure (some e.name)
  else if attr = "Style".toList then pure (some e.style)
  else if attr = "Text".toList then pure (some e.text)
  else pure none

/-- what `ssaEvent.string` writes for one Format column, totalised -/
def evCellM (e : Event) (attr : Str) : Option Str :=
  if attr = "End".toList then some (Duration.formatSSA e.endAt)
  else if attr = "Start".toList then some (Duration.formatSSA e.startAt)
  else if attr = "Marked".toList then some (if e.marked = some true then "Marked=1".toList else "Marked=0".toList)
  else if attr = "Layer".toList then some (itoa (e.layer.getD 0))
  else if attr = "MarginL".toList then some (itoa (e.marginL.getD 0))
  else if attr = "MarginR".toList then some (itoa (e.marginR.getD 0))
  else if attr = "MarginV".toList then some (itoa (e.marginV.getD 0))
  else if attr = "Effect".toList then some e.effect
  else if attr = "Name".toList then some e.name
  else if attr = "Style".toList then some e.style
  else if attr = "Text".toList then some e.text
  else none

/-- a column of an event row never panics, whatever the Format -/
theorem evCellC_eq (e : Event) (attr : Str) : evCellC e attr = .ok (evCellM e attr) := by
  unfold evCellC evCellM
  simp only [intCellC_eq, markedCellC_eq, ok_bind, pure_eq]
  simp only [apply_ite Except.ok]

/-- `ssaEvent.string` for any Format -/
def evRowC (e : Event) (format : List Str) : Chk Str := do
  let cells ← mapC (evCellC e) format
  pure (join [','] (cells.filterMap id))

/-- `ssaEvent.string` never panics, whatever the Format -/
theorem evRowC_eq (e : Event) (format : List Str) :
    evRowC e format = .ok (join [','] ((format.map (evCellM e)).filterMap id)) := by
  unfold evRowC
  rw [mapC_eq (evCellC e) (evCellM e) format (fun a _ => evCellC_eq e a)]
  rfl

/-- on the writer's Format `ssaEvent.string` is the model's `Event.row` -/
theorem evRowM_format (e : Event) (v4plus : Bool) :
    join [','] (((eventFormat v4plus).map (evCellM e)).filterMap id) = e.row v4plus := by
  cases v4plus
  · unfold eventFormat Event.row
    simp only [List.map_cons, List.map_nil]
    unfold evCellM
    simp (decide := true) only [if_true, if_false, List.filterMap_cons, List.filterMap_nil, id]
  · unfold eventFormat Event.row
    simp only [List.map_cons, List.map_nil]
    unfold evCellM
    simp (decide := true) only [if_true, if_false, List.filterMap_cons, List.filterMap_nil, id]

/-- the Format of the events block: the 9-column literal, `if v4plus { format[0] = "Layer" }`,
    `format = append(format, "Text")` -/
def eventFormatC (v4plus : Bool) : Chk (List Str) := do
  let format := ["Marked".toList, "Start".toList, "End".toList, "Style".toList, "Name".toList,
    "MarginL".toList, "MarginR".toList, "MarginV".toList, "Effect".toList]
  let format ← (if v4plus then setC format 0 "Layer".toList else pure format)
  pure (format ++ ["Text".toList])

/-- the store `format[0] = …` is in range: the Format is the model's -/
theorem eventFormatC_eq (v4plus : Bool) : eventFormatC v4plus = .ok (eventFormat v4plus) := by
  cases v4plus <;> rfl

/-- the events block of `WriteToSSA` -/
def eventsBlockC (v4plus : Bool) (items : List CItem) : Chk Str := do
  let format ← eventFormatC v4plus
  let events ← mapC eventOfItemC items
  let rows ← mapC (fun e => evRowC e format) events
  pure ("\n[Events]\n".toList ++ "Format: ".toList ++ join ", ".toList format ++ ['\n']
    ++ unlines (rows.map fun r => "Dialogue: ".toList ++ r))

/-- the events block of the model's `write` -/
def eventsM (v4plus : Bool) (items : List CItem) : Str :=
  "\n[Events]\n".toList ++ "Format: ".toList ++ join ", ".toList (eventFormat v4plus) ++ ['\n']
    ++ unlines (items.map fun it => "Dialogue: ".toList ++ (eventOfItem it).row v4plus)

/-- the events block never panics and is the model's -/
theorem eventsBlockC_eq (v4plus : Bool) (items : List CItem) :
    eventsBlockC v4plus items = .ok (eventsM v4plus items) := by
  unfold eventsBlockC eventsM
  rw [eventFormatC_eq, mapC_eq eventOfItemC eventOfItem items (fun it _ => eventOfItemC_eq it)]
  simp only [ok_bind]
  rw [mapC_eq (fun e => evRowC e (eventFormat v4plus)) (fun e => e.row v4plus) _
    (fun e _ => by rw [evRowC_eq, evRowM_format])]
  simp only [ok_bind, pure_eq, List.map_map]
  rfl

/-! ## the styles block: `styles[n]` look-ups -/

/-- Go's `map[string]*ssaStyle` as an association list, the most recent insertion first -/
abbrev StyleMap := List (Str × Style)

/-- `styles[k] = v` (an earlier entry of the same key is shadowed) -/
def mapPut (m : StyleMap) (k : Str) (v : Style) : StyleMap := (k, v) :: m

/-- `styles[k]`: the nil pointer when the key is absent -/
def mapGet (m : StyleMap) (k : Str) : Option Style := m.lookup k

/-- `for _, s := range s.Styles { ss := newSSAStyleFromStyle(*s); styles[ss.name] = ss; styleNames = append(styleNames, ss.name) }`
    with `sod` for `newSSAStyleFromStyle` -/
def buildG (sod : Def → Chk Style) : List Def → StyleMap → List Str → Chk (StyleMap × List Str)
  | [], m, names => pure (m, names)
  | d :: ds, m, names => do
    let ss ← sod d
    buildG sod ds (mapPut m ss.name ss) (names ++ [ss.name])

/-- `for _, n := range styleNames { format = styles[n].updateFormat(formatMap, format) }`: the method has a
    value receiver, so the call dereferences `styles[n]` -/
def formatLoopC (m : StyleMap) : List Str → List Str → Chk (List Str)
  | [], format => pure format
  | n :: ns, format => do
    let st ← deref (mapGet m n)
    formatLoopC m ns (updateFormat st format)

/-- `for _, n := range styleNames { b = append(b, "Style: "+styles[n].string(format)+"\n") }` -/
def rowsLoopC (m : StyleMap) (format : List Str) : List Str → Chk (List (Option Str))
  | [] => pure []
  | n :: ns => do
    let st ← deref (mapGet m n)
    let r ← rowC st format
    let rs ← rowsLoopC m format ns
    pure (r :: rs)

/-- the first loop, when `newSSAStyleFromStyle` does not panic -/
theorem buildG_eq (sod : Def → Chk Style) : ∀ (ds : List Def) (m : StyleMap) (names : List Str),
    (∀ d ∈ ds, sod d = .ok (styleOfDef d)) →
    buildG sod ds m names = .ok ((ds.reverse.map fun d => (d.id, styleOfDef d)) ++ m, names ++ ds.map (·.id)) := by
  intro ds
  induction ds with
  | nil => intro m names _; simp [buildG]
  | cons d ds ih =>
    intro m names h
    unfold buildG
    rw [h d (List.mem_cons_self ..)]
    simp only [ok_bind]
    rw [ih _ _ (fun e he => h e (List.mem_cons_of_mem _ he))]
    simp [mapPut, styleOfDef]

/-- the first loop panics as soon as `newSSAStyleFromStyle` does on one style -/
theorem buildG_panics (sod : Def → Chk Style) : ∀ (ds : List Def) (m : StyleMap) (names : List Str),
    (∀ d ∈ ds, sod d = .error .nilDeref ∨ ∃ b, sod d = .ok b) → (∃ d ∈ ds, sod d = .error .nilDeref) →
    buildG sod ds m names = .error .nilDeref := by
  intro ds
  induction ds with
  | nil => intro _ _ _ ⟨d, hd, _⟩; cases hd
  | cons d ds ih =>
    intro m names hall ⟨x, hx, hxe⟩
    unfold buildG
    rcases hall d (List.mem_cons_self ..) with he | ⟨b, hb⟩
    · rw [he]; rfl
    · rw [hb]
      have hx' : x ∈ ds := by
        rcases List.mem_cons.mp hx with rfl | h
        · rw [hb] at hxe; cases hxe
        · exact h
      exact ih _ _ (fun c hc => hall c (List.mem_cons_of_mem _ hc)) ⟨x, hx', hxe⟩

/-- the Format loop when every look-up hits -/
theorem formatLoopC_eq (m : StyleMap) (g : Str → Style) : ∀ (ns : List Str) (format : List Str),
    (∀ n ∈ ns, mapGet m n = some (g n)) →
    formatLoopC m ns format = .ok ((ns.map g).foldl (fun fmt st => updateFormat st fmt) format) := by
  intro ns
  induction ns with
  | nil => intro _ _; rfl
  | cons n ns ih =>
    intro format h
    unfold formatLoopC
    rw [h n (List.mem_cons_self ..)]
    exact ih _ (fun k hk => h k (List.mem_cons_of_mem _ hk))

/-- the rows loop when every look-up hits -/
theorem rowsLoopC_eq (m : StyleMap) (format : List Str) (g : Str → Style) : ∀ (ns : List Str),
    (∀ n ∈ ns, mapGet m n = some (g n)) →
    rowsLoopC m format ns = .ok ((ns.map g).map fun st => st.row format) := by
  intro ns
  induction ns with
  | nil => intro _; rfl
  | cons n ns ih =>
    intro h
    unfold rowsLoopC
    rw [h n (List.mem_cons_self ..), ih (fun k hk => h k (List.mem_cons_of_mem _ hk))]
    simp only [deref, ok_bind, rowC_eq]
    rfl

/-- a look-up that misses is a nil `*ssaStyle`: the method call panics (Format loop) -/
theorem formatLoopC_miss (m : StyleMap) (n : Str) (ns format : List Str) (h : mapGet m n = none) :
    formatLoopC m (n :: ns) format = .error .nilDeref := by
  unfold formatLoopC; rw [h]; rfl

/-- a look-up that misses is a nil `*ssaStyle`: the method call panics (rows loop) -/
theorem rowsLoopC_miss (m : StyleMap) (n : Str) (ns format : List Str) (h : mapGet m n = none) :
    rowsLoopC m format (n :: ns) = .error .nilDeref := by
  unfold rowsLoopC; rw [h]; rfl

/-- a look-up in the map built by the first loop: the last style of that name -/
theorem mapGet_build (f : Def → Style) (n : Str) : ∀ (l : List Def),
    mapGet (l.map fun d => (d.id, f d)) n = (l.find? fun e => n == e.id).map f := by
  intro l
  induction l with
  | nil => rfl
  | cons d l ih =>
    unfold mapGet at ih ⊢
    rw [List.map_cons, List.lookup_cons, List.find?_cons]
    cases n == d.id with
    | true => rfl
    | false => exact ih

/-- the style definition a name resolves to after the first loop: the last one with that id -/
def resolve (defs : List Def) (n : Str) : Def := (defs.reverse.find? fun e => n == e.id).getD default

/-- every name just inserted is found -/
theorem resolve_spec (defs : List Def) (n : Str) (h : n ∈ defs.map (·.id)) :
    (defs.reverse.find? fun e => n == e.id) = some (resolve defs n) ∧ (resolve defs n).id = n
      ∧ resolve defs n ∈ defs := by
  have hs : ((defs.reverse.find? fun e => n == e.id)).isSome = true := by
    rw [List.find?_isSome]
    obtain ⟨d, hd, rfl⟩ := List.mem_map.mp h
    exact ⟨d, List.mem_reverse.mpr hd, by simp⟩
  unfold resolve
  cases hf : (defs.reverse.find? fun e => n == e.id) with
  | none => rw [hf] at hs; cases hs
  | some e =>
    refine ⟨rfl, ?_, ?_⟩
    · have := List.find?_some hf
      simp at this
      exact this.symm
    · exact List.mem_reverse.mp (List.mem_of_find?_eq_some hf)

/-- **the look-ups `styles[n]` never miss**: `n` ranges over the names just inserted -/
theorem mapGet_hit (defs : List Def) (n : Str) (h : n ∈ defs.map (·.id)) :
    mapGet (defs.reverse.map fun d => (d.id, styleOfDef d)) n = some (styleOfDef (resolve defs n)) := by
  rw [mapGet_build, (resolve_spec defs n h).1]
  rfl

/-- the list of style definitions as the Go map look-ups see it: every definition replaced by the last
    one of the same id -/
def lastWins (defs : List Def) : List Def := (defs.map (·.id)).map (resolve defs)

/-- with distinct ids every look-up answers the style's own definition -/
theorem eq_of_nodup_map {α β} (f : α → β) : ∀ (l : List α), (l.map f).Nodup →
    ∀ a ∈ l, ∀ b ∈ l, f a = f b → a = b := by
  intro l
  induction l with
  | nil => intro _ a ha; cases ha
  | cons x l ih =>
    intro hn a ha b hb hab
    rw [List.map_cons, List.nodup_cons] at hn
    rcases List.mem_cons.mp ha with rfl | ha' <;> rcases List.mem_cons.mp hb with rfl | hb'
    · rfl
    · exact absurd (List.mem_map.mpr ⟨b, hb', hab.symm⟩) hn.1
    · exact absurd (List.mem_map.mpr ⟨a, ha', hab⟩) hn.1
    · exact ih hn.2 a ha' b hb' hab

/-- with distinct style ids nothing is shadowed -/
theorem lastWins_nodup (defs : List Def) (h : (defs.map (·.id)).Nodup) : lastWins defs = defs := by
  unfold lastWins
  rw [List.map_map]
  conv => rhs; rw [← List.map_id defs]
  apply List.map_congr_left
  intro d hd
  have hs := resolve_spec defs d.id (List.mem_map.mpr ⟨d, hd, rfl⟩)
  exact eq_of_nodup_map (·.id) defs h _ hs.2.2 _ hd hs.2.1

/-- the styles block of the model's `write` -/
def styleBlockM (v4plus : Bool) (defs : List Def) : Option Str :=
  let styles := (defs.mergeSort fun a b => !strLt b.id a.id).map styleOfDef
  let format := styles.foldl (fun fmt st => updateFormat st fmt) ["Name".toList]
  if styles.isEmpty then some [] else
  (allSome (styles.map fun st => st.row format)).map fun rows =>
    (if v4plus then "\n[V4+ Styles]\n".toList else "\n[V4 Styles]\n".toList)
      ++ "Format: ".toList ++ join ", ".toList format ++ ['\n']
      ++ unlines (rows.map fun r => "Style: ".toList ++ r)

/-- the styles block of `WriteToSSA` (`none` = a float outside the model), with `sod` for `newSSAStyleFromStyle` -/
def stylesBlockG (sod : Def → Chk Style) (v4plus : Bool) (defs : List Def) : Chk (Option Str) :=
  if defs.isEmpty then pure (some [])
  else do
    let (m, names) ← buildG sod defs [] []
    let names := names.mergeSort (fun a b => !strLt b a)
    let format ← formatLoopC m names ["Name".toList]
    let rows ← rowsLoopC m format names
    pure ((allSome rows).map fun rows =>
      (if v4plus then "\n[V4+ Styles]\n".toList else "\n[V4 Styles]\n".toList)
        ++ "Format: ".toList ++ join ", ".toList format ++ ['\n']
        ++ unlines (rows.map fun r => "Style: ".toList ++ r))

/-- sorting the names and resolving them is sorting the resolved definitions by id -/
theorem sorted_lastWins (defs : List Def) :
    ((lastWins defs).mergeSort fun a b => !strLt b.id a.id)
      = ((defs.map (·.id)).mergeSort fun a b => !strLt b a).map (resolve defs) := by
  unfold lastWins
  symm
  apply List.map_mergeSort
  intro a ha b hb
  rw [(resolve_spec defs a ha).2.1, (resolve_spec defs b hb).2.1]

/-- **the styles block never panics** when `newSSAStyleFromStyle` does not, for every list of styles; it is
    the model's block for the list as the look-ups see it -/
theorem stylesBlockG_eq (sod : Def → Chk Style) (v4plus : Bool) (defs : List Def)
    (h : ∀ d ∈ defs, sod d = .ok (styleOfDef d)) :
    stylesBlockG sod v4plus defs = .ok (styleBlockM v4plus (lastWins defs)) := by
  cases defs with
  | nil => simp [stylesBlockG, styleBlockM, lastWins]
  | cons d ds =>
    unfold stylesBlockG
    rw [if_neg (by simp), buildG_eq sod _ _ _ h]
    simp only [ok_bind, List.append_nil, List.nil_append]
    have hit : ∀ n ∈ ((d :: ds).map (·.id)).mergeSort (fun a b => !strLt b a),
        mapGet ((d :: ds).reverse.map fun d => (d.id, styleOfDef d)) n
          = some (styleOfDef (resolve (d :: ds) n)) :=
      fun n hn => mapGet_hit _ n (List.mem_mergeSort.mp hn)
    rw [formatLoopC_eq _ (fun n => styleOfDef (resolve (d :: ds) n)) _ _ hit]
    simp only [ok_bind]
    rw [rowsLoopC_eq _ _ (fun n => styleOfDef (resolve (d :: ds) n)) _ hit]
    simp only [ok_bind, pure_eq]
    unfold styleBlockM
    simp only [sorted_lastWins, List.map_map]
    have hne : ¬ ((List.map (styleOfDef ∘ resolve (d :: ds))
        (((d :: ds).map (·.id)).mergeSort fun a b => !strLt b a)).isEmpty = true) := by
      intro he
      have hl := congrArg List.length (List.isEmpty_iff.mp he)
      simp at hl
    rw [if_neg hne]
    rfl

/-- the styles block panics as soon as `newSSAStyleFromStyle` does on one style -/
theorem stylesBlockG_panics (sod : Def → Chk Style) (v4plus : Bool) (defs : List Def)
    (hall : ∀ d ∈ defs, sod d = .error .nilDeref ∨ ∃ b, sod d = .ok b) (hex : ∃ d ∈ defs, sod d = .error .nilDeref) :
    stylesBlockG sod v4plus defs = .error .nilDeref := by
  unfold stylesBlockG
  have hne : ¬ (defs.isEmpty = true) := by
    obtain ⟨d, hd, _⟩ := hex
    intro he
    rw [List.isEmpty_iff.mp he] at hd
    cases hd
  rw [if_neg hne, buildG_panics sod defs [] [] hall hex]
  rfl

/-! ## `WriteToSSA` -/

/-- the model's `write` with its blocks named -/
theorem write_eq (s : Subs) : write s =
    if s.items.isEmpty then .err else
    if s.items.any (fun it => it.startAt < 0 || it.endAt < 0) then .unmodelled else
    match (infoOfMeta s.metadata).bytes,
      styleBlockM (decide (kvGet s.metadata "SSAScriptType" = some "v4.00+".toList)) s.styles with
    | some i, some sb =>
      .ok (i ++ sb ++ eventsM (decide (kvGet s.metadata "SSAScriptType" = some "v4.00+".toList)) s.items)
    | _, _ => .unmodelled := by
  unfold write styleBlockM eventsM
  simp only [decide_eq_true_eq]
  rfl

/-- `WriteToSSA` with `v4` for the script-type test and `sod` for `newSSAStyleFromStyle`.  Every
    dereference is executed before the answer is formed: the domain restriction of the model
    (`.unmodelled` for negative times) does not hide a panic. -/
def writeG (v4 : Attrs → Chk Bool) (sod : Def → Chk Style) (s : Subs) : Chk (Res Str) :=
  if s.items.isEmpty then pure .err
  else do
    let info ← infoOfMetaC s.metadata
    let ib ← bytesC info
    let v4plus ← v4 s.metadata
    let sb ← stylesBlockG sod v4plus s.styles
    let ev ← eventsBlockC v4plus s.items
    pure (if s.items.any (fun it => it.startAt < 0 || it.endAt < 0) then .unmodelled else
      match ib, sb with
      | some i, some sb => .ok (i ++ sb ++ ev)
      | _, _ => .unmodelled)

/-- the repaired `WriteToSSA` -/
def writeC (s : Subs) : Chk (Res Str) := writeG v4plusC styleOfDefC s

/-- the pinned `WriteToSSA` (before "SSA writer no longer panics without metadata or on a style without
    inline style"): `s.Metadata.SSAScriptType` and `i.InlineStyle.SSA…` unguarded -/
def writeU (s : Subs) : Chk (Res Str) := writeG v4plusU styleOfDefU s

/-- the writer never panics when the script-type test and `newSSAStyleFromStyle` do not; the answer is the
    model's for the style list as the look-ups see it -/
theorem writeG_eq (v4 : Attrs → Chk Bool) (sod : Def → Chk Style) (s : Subs)
    (hv : v4 s.metadata = .ok (decide (kvGet s.metadata "SSAScriptType" = some "v4.00+".toList)))
    (hs : ∀ d ∈ s.styles, sod d = .ok (styleOfDef d)) :
    writeG v4 sod s = .ok (write { s with styles := lastWins s.styles }) := by
  unfold writeG
  rw [write_eq]
  by_cases he : s.items.isEmpty = true
  · rw [if_pos he, if_pos he]; rfl
  · rw [if_neg he, if_neg he, infoOfMetaC_eq, hv]
    simp only [ok_bind]
    rw [bytesC_eq, stylesBlockG_eq sod _ _ hs, eventsBlockC_eq]
    rfl

/-- **the SSA writer never panics**, for every `Subs`: nil metadata, no styles, styles / cues / runs
    without inline style, cues without style, without lines, lines without runs; and it answers what the
    model answers for the style list as the look-ups `styles[n]` see it -/
theorem writeC_lastWins (s : Subs) : writeC s = .ok (write { s with styles := lastWins s.styles }) :=
  writeG_eq _ _ s (v4plusC_eq _) (fun d _ => styleOfDefC_eq d)

/-- the SSA writer never panics -/
theorem writeC_safe (s : Subs) : (writeC s).safe = true := safe_of_eq_ok (writeC_lastWins s)

/-- **the checked writer is the model's `write`** when the style ids are distinct (as the keys of Go's
    `Styles` map are when every style is filed under its own id) -/
theorem writeC_eq (s : Subs) (h : (s.styles.map (·.id)).Nodup) : writeC s = .ok (write s) := by
  rw [writeC_lastWins, lastWins_nodup _ h]

/-- the statement without the hypothesis; it is *false* (`writeC_eq_Statement_false`): with two styles of
    one id the Go code writes the last one twice, the model writes both -/
def writeC_eq_Statement : Prop := ∀ s : Subs, writeC s = .ok (write s)

/-! ### necessity of the guards of D9 -/

/-- the writer panics when the script-type test does (the cue list not being empty) -/
theorem writeG_v4_panics (v4 : Attrs → Chk Bool) (sod : Def → Chk Style) (s : Subs) (e : Panic)
    (h1 : s.items ≠ []) (hv : v4 s.metadata = .error e) : writeG v4 sod s = .error e := by
  unfold writeG
  rw [if_neg (by intro he; exact h1 (List.isEmpty_iff.mp he)), infoOfMetaC_eq]
  simp only [ok_bind]
  rw [bytesC_eq, hv]
  rfl

/-- the writer panics when `newSSAStyleFromStyle` does on one style (the cue list not being empty, the
    script-type test passed) -/
theorem writeG_sod_panics (v4 : Attrs → Chk Bool) (sod : Def → Chk Style) (s : Subs) (b : Bool)
    (h1 : s.items ≠ []) (hv : v4 s.metadata = .ok b)
    (hall : ∀ d ∈ s.styles, sod d = .error .nilDeref ∨ ∃ st, sod d = .ok st)
    (hex : ∃ d ∈ s.styles, sod d = .error .nilDeref) : writeG v4 sod s = .error .nilDeref := by
  unfold writeG
  rw [if_neg (by intro he; exact h1 (List.isEmpty_iff.mp he)), infoOfMetaC_eq]
  simp only [ok_bind]
  rw [bytesC_eq, hv]
  simp only [ok_bind]
  rw [stylesBlockG_panics sod b s.styles hall hex]
  rfl

/-- with an empty cue list nothing is dereferenced: `ErrNoSubtitlesToWrite` -/
theorem writeG_empty (v4 : Attrs → Chk Bool) (sod : Def → Chk Style) (s : Subs) (h : s.items = []) :
    writeG v4 sod s = .ok .err := by
  unfold writeG
  rw [h]
  rfl

/-- `newSSAStyleFromStyle` unguarded answers or panics with a nil dereference -/
theorem styleOfDefU_cases (d : Def) : styleOfDefU d = .error .nilDeref ∨ ∃ st, styleOfDefU d = .ok st := by
  by_cases h : d.attrs = none
  · exact .inl (styleOfDefU_nil d h)
  · exact .inr ⟨_, styleOfDefU_some d h⟩

/-- **D9 (metadata)**: the pinned writer panics whenever there is a cue and the metadata pointer is nil -/
theorem writeU_nil_metadata (s : Subs) (h1 : s.items ≠ []) (h2 : s.metadata = none) :
    writeU s = .error .nilDeref :=
  writeG_v4_panics _ _ s _ h1 (by rw [h2]; rfl)

/-- **D9 (styles)**: the pinned writer panics whenever there is a cue and some style has no inline style -/
theorem writeU_nil_inline (s : Subs) (h1 : s.items ≠ []) (h3 : ∃ d ∈ s.styles, d.attrs = none) :
    writeU s = .error .nilDeref := by
  by_cases h2 : s.metadata = none
  · exact writeU_nil_metadata s h1 h2
  · obtain ⟨kv, hkv⟩ : ∃ kv, s.metadata = some kv := by
      cases hm : s.metadata with
      | none => exact absurd hm h2
      | some kv => exact ⟨kv, rfl⟩
    obtain ⟨d, hd, hda⟩ := h3
    exact writeG_sod_panics _ _ s _ h1 (by rw [hkv]; exact v4plusU_some kv)
      (fun d _ => styleOfDefU_cases d) ⟨d, hd, styleOfDefU_nil d hda⟩

/-- where every optional part is present the pinned writer is the repaired one -/
theorem writeU_present (s : Subs) (h2 : s.metadata ≠ none) (h3 : ∀ d ∈ s.styles, d.attrs ≠ none) :
    writeU s = writeC s := by
  rw [writeC_lastWins]
  apply writeG_eq
  · cases hm : s.metadata with
    | none => exact absurd hm h2
    | some kv => rfl
  · exact fun d hd => styleOfDefU_some d (h3 d hd)

/-- **D9, exactly**: the pinned writer panics if and only if there is a cue and the metadata pointer is nil
    or some style has no inline style; the panic is a nil dereference -/
theorem writeU_panics_iff (s : Subs) :
    (writeU s).safe = false ↔ s.items ≠ [] ∧ (s.metadata = none ∨ ∃ d ∈ s.styles, d.attrs = none) := by
  constructor
  · intro h
    by_cases h1 : s.items = []
    · rw [show writeU s = .ok .err from writeG_empty _ _ s h1] at h; cases h
    · refine ⟨h1, ?_⟩
      by_cases h2 : s.metadata = none
      · exact .inl h2
      · by_cases h3 : ∃ d ∈ s.styles, d.attrs = none
        · exact .inr h3
        · have h3' : ∀ d ∈ s.styles, d.attrs ≠ none := fun d hd hda => h3 ⟨d, hd, hda⟩
          rw [writeU_present s h2 h3', writeC_safe] at h
          cases h
  · intro ⟨h1, h⟩
    rcases h with h2 | h3
    · rw [writeU_nil_metadata s h1 h2]; rfl
    · rw [writeU_nil_inline s h1 h3]; rfl

/-- the only panic of the pinned writer is the nil dereference -/
theorem writeU_panic_kind (s : Subs) (e : Panic) (h : writeU s = .error e) : e = .nilDeref := by
  have hs : (writeU s).safe = false := by rw [h]; rfl
  obtain ⟨h1, h2⟩ := (writeU_panics_iff s).mp hs
  rcases h2 with h2 | h3
  · rw [writeU_nil_metadata s h1 h2] at h; injection h with h; exact h.symm
  · rw [writeU_nil_inline s h1 h3] at h; injection h with h; exact h.symm

/-- the `s.Metadata != nil` guard alone: with it removed (styles guarded) the writer panics exactly on a
    non-empty cue list with nil metadata -/
theorem writeG_v4U_panics_iff (s : Subs) :
    writeG v4plusU styleOfDefC s = .error .nilDeref ↔ s.items ≠ [] ∧ s.metadata = none := by
  constructor
  · intro h
    by_cases h1 : s.items = []
    · rw [writeG_empty _ _ s h1] at h; cases h
    · refine ⟨h1, ?_⟩
      cases hm : s.metadata with
      | none => rfl
      | some kv =>
        rw [writeG_eq _ _ s (by rw [hm]; rfl) (fun d _ => styleOfDefC_eq d)] at h
        cases h
  · intro ⟨h1, h2⟩
    exact writeG_v4_panics _ _ s _ h1 (by rw [h2]; rfl)

/-- the `i.InlineStyle == nil` guard alone: with it removed (metadata guarded) the writer panics exactly on
    a non-empty cue list with a style without inline style -/
theorem writeG_sodU_panics_iff (s : Subs) :
    writeG v4plusC styleOfDefU s = .error .nilDeref ↔ s.items ≠ [] ∧ ∃ d ∈ s.styles, d.attrs = none := by
  constructor
  · intro h
    by_cases h1 : s.items = []
    · rw [writeG_empty _ _ s h1] at h; cases h
    · refine ⟨h1, ?_⟩
      by_cases h3 : ∃ d ∈ s.styles, d.attrs = none
      · exact h3
      · have h3' : ∀ d ∈ s.styles, d.attrs ≠ none := fun d hd hda => h3 ⟨d, hd, hda⟩
        rw [writeG_eq _ _ s (v4plusC_eq _) (fun d hd => styleOfDefU_some d (h3' d hd))] at h
        cases h
  · intro ⟨h1, d, hd, hda⟩
    exact writeG_sod_panics _ _ s _ h1 (v4plusC_eq _) (fun d _ => styleOfDefU_cases d)
      ⟨d, hd, styleOfDefU_nil d hda⟩

/-! ### the events block with another `newSSAEventFromItem` -/

/-- the events block with `eoi` for `newSSAEventFromItem` -/
def eventsBlockG (eoi : CItem → Chk Event) (v4plus : Bool) (items : List CItem) : Chk Str := do
  let format ← eventFormatC v4plus
  let events ← mapC eoi items
  let rows ← mapC (fun e => evRowC e format) events
  pure ("\n[Events]\n".toList ++ "Format: ".toList ++ join ", ".toList format ++ ['\n']
    ++ unlines (rows.map fun r => "Dialogue: ".toList ++ r))

/-- `eventsBlockC` is the instance with the guarded `newSSAEventFromItem` -/
theorem eventsBlockG_C (v4plus : Bool) (items : List CItem) :
    eventsBlockG eventOfItemC v4plus items = eventsBlockC v4plus items := rfl

/-- the events block panics as soon as `newSSAEventFromItem` does on one cue -/
theorem eventsBlockG_panics (eoi : CItem → Chk Event) (v4plus : Bool) (items : List CItem)
    (hall : ∀ it ∈ items, eoi it = .error .nilDeref ∨ ∃ e, eoi it = .ok e)
    (hex : ∃ it ∈ items, eoi it = .error .nilDeref) :
    eventsBlockG eoi v4plus items = .error .nilDeref := by
  unfold eventsBlockG
  rw [eventFormatC_eq, mapC_panics eoi items hall hex]
  rfl

/-- without the `i.InlineStyle != nil` test of `newSSAEventFromItem` the events block panics exactly when
    some cue has no inline style -/
theorem eventsBlockG_UAttrs_panics_iff (v4plus : Bool) (items : List CItem) :
    eventsBlockG eventOfItemUAttrs v4plus items = .error .nilDeref ↔ ∃ it ∈ items, it.attrs = none := by
  constructor
  · intro h
    by_cases hex : ∃ it ∈ items, it.attrs = none
    · exact hex
    · have hall : ∀ it ∈ items, eventOfItemUAttrs it = .ok (eventOfItem it) :=
        fun it hit => (eventOfItemU_some it).2 (fun hn => hex ⟨it, hit, hn⟩)
      unfold eventsBlockG at h
      rw [eventFormatC_eq, mapC_eq _ _ items hall] at h
      simp only [ok_bind] at h
      rw [mapC_eq (fun e => evRowC e (eventFormat v4plus)) (fun e => e.row v4plus) _
        (fun e _ => by rw [evRowC_eq, evRowM_format])] at h
      cases h
  · intro ⟨it, hit, hn⟩
    apply eventsBlockG_panics
    · intro it _
      by_cases h : it.attrs = none
      · exact .inl ((eventOfItemUAttrs_panics_iff it).mpr h)
      · exact .inr ⟨_, (eventOfItemU_some it).2 h⟩
    · exact ⟨it, hit, (eventOfItemUAttrs_panics_iff it).mpr hn⟩

/-- without the `i.Style != nil` test of `newSSAEventFromItem` the events block panics exactly when some
    cue has no style -/
theorem eventsBlockG_UStyle_panics_iff (v4plus : Bool) (items : List CItem) :
    eventsBlockG eventOfItemUStyle v4plus items = .error .nilDeref ↔ ∃ it ∈ items, it.style = none := by
  constructor
  · intro h
    by_cases hex : ∃ it ∈ items, it.style = none
    · exact hex
    · have hall : ∀ it ∈ items, eventOfItemUStyle it = .ok (eventOfItem it) :=
        fun it hit => (eventOfItemU_some it).1 (fun hn => hex ⟨it, hit, hn⟩)
      unfold eventsBlockG at h
      rw [eventFormatC_eq, mapC_eq _ _ items hall] at h
      simp only [ok_bind] at h
      rw [mapC_eq (fun e => evRowC e (eventFormat v4plus)) (fun e => e.row v4plus) _
        (fun e _ => by rw [evRowC_eq, evRowM_format])] at h
      cases h
  · intro ⟨it, hit, hn⟩
    apply eventsBlockG_panics
    · intro it _
      by_cases h : it.style = none
      · exact .inl ((eventOfItemUStyle_panics_iff it).mpr h)
      · exact .inr ⟨_, (eventOfItemU_some it).1 h⟩
    · exact ⟨it, hit, (eventOfItemUStyle_panics_iff it).mpr hn⟩

/-! ## non-vacuity: concrete documents -/

/-- a cue without style, inline style and lines -/
def cue0 : CItem := { startAt := 0, endAt := 1000000000, lines := [] }

/-- a cue with a line without runs, a run without inline style and an empty text -/
def cue1 : CItem :=
  { startAt := 1000000000, endAt := 2000000000,
    lines := [{ items := [] }, { items := [{ text := [] }, { text := "x".toList }] }] }

/-- nil metadata, no styles -/
def subs0 : Subs := { items := [cue0, cue1] }

/-- metadata without any field, a style without inline style -/
def subs1 : Subs := { items := [cue0], styles := [{ id := "a".toList }], metadata := some [] }

/-- two styles filed under one id: the first bold, the second without inline style -/
def subsDup : Subs :=
  { items := [cue0], metadata := some [],
    styles := [{ id := "a".toList, attrs := some [("SSABold".toList, "true".toList)] }, { id := "a".toList }] }

/-- D9: nil metadata — the pinned writer panics, the repaired one writes the document -/
example : writeU subs0 = .error .nilDeref := rfl
example : writeC subs0 = .ok (write subs0) := writeC_eq subs0 (by decide)
example : write subs0 = .ok (unlines ["[Script Info]".toList, [], "[Events]".toList,
    "Format: Marked, Start, End, Style, Name, ".toList ++ "MarginL, MarginR, MarginV, Effect, Text".toList,
    "Dialogue: Marked=0,00:00:00.00,".toList ++ "00:00:01.00,,,0,0,0,,".toList,
    "Dialogue: Marked=0,00:00:01.00,".toList ++ "00:00:02.00,,,0,0,0,,\\nx".toList]) := by
  unfold write
  simp only [subs0, List.mergeSort_nil]
  decide +kernel

/-- D9: a style without inline style — the pinned writer panics, the repaired one writes the document -/
example : writeU subs1 = .error .nilDeref := rfl
example : writeC subs1 = .ok (write subs1) := writeC_eq subs1 (by decide)
example : write subs1 = .ok (unlines ["[Script Info]".toList, [], "[V4 Styles]".toList, "Format: Name".toList,
    "Style: a".toList, [], "[Events]".toList,
    "Format: Marked, Start, End, Style, Name, ".toList ++ "MarginL, MarginR, MarginV, Effect, Text".toList,
    "Dialogue: Marked=0,00:00:00.00,".toList ++ "00:00:01.00,,,0,0,0,,".toList]) := by
  unfold write
  simp only [subs1, List.mergeSort_singleton]
  decide +kernel

/-- the pieces on absent parts -/
example : infoOfMetaC none = .ok {} := rfl
example : v4plusC none = .ok false := rfl
example : styleOfDefC { id := "a".toList } = .ok { name := "a".toList } := rfl
example : eventOfItemC cue0 = .ok { category := "Dialogue".toList, endAt := 1000000000 } := rfl
example : runTextC { text := [] } = .ok [] := rfl
example : intCellC none = .ok (itoa 0) := rfl
example : markedCellC none = .ok "Marked=0".toList := rfl
example : intCellU none = .error .nilDeref := rfl
example : markedCellU none = .error .nilDeref := rfl
example : runTextU { text := [] } = .error .nilDeref := rfl
example : eventOfItemUStyle cue0 = .error .nilDeref := rfl
example : eventOfItemUAttrs cue0 = .error .nilDeref := rfl
example : cellU {} .bold = .error .nilDeref := rfl
example : fieldLineU {} .playResX = .error .nilDeref := rfl
example : formatLoopC [] ["a".toList] [] = .error .nilDeref := rfl

/-- the hypothesis of `writeC_eq` holds on ordinary documents and fails on `subsDup` -/
example : (subs1.styles.map (·.id)).Nodup := by decide
example : ¬ (subsDup.styles.map (·.id)).Nodup := by decide
example : lastWins subsDup.styles = [{ id := "a".toList }, { id := "a".toList }] := by decide

/-- two definitions of one id keep their order under the writer's sort -/
theorem sort_pair (x y : Def) (h : x.id = y.id) : [x, y].mergeSort (fun a b => !strLt b.id a.id) = [x, y] := by
  apply List.mergeSort_of_pairwise
  rw [List.pairwise_pair, h]
  simp [strLt, String.lt_irrefl]

/-- the hypothesis of `writeC_eq` cannot be dropped: on `subsDup` the Go code (hence `writeC`) writes the
    style without inline style twice (`Format: Name`), the model writes both definitions
    (`Format: Name, Bold`) -/
theorem writeC_eq_Statement_false : ¬ writeC_eq_Statement := by
  intro h
  have h1 := h subsDup
  rw [writeC_lastWins] at h1
  have h2 : write { subsDup with styles := lastWins subsDup.styles } = write subsDup := by
    injection h1
  revert h2
  have hl : lastWins subsDup.styles = [{ id := "a".toList }, { id := "a".toList }] := by decide
  rw [hl]
  unfold write
  simp only [subsDup, sort_pair { id := "a".toList } { id := "a".toList } rfl,
    sort_pair { id := "a".toList, attrs := some [("SSABold".toList, "true".toList)] } { id := "a".toList } rfl]
  decide

end SSAW
end Tot
end Astisub
