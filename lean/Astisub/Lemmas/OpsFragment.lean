import Astisub.Model.Ops
import Astisub.Spec.OpsSpec

namespace Astisub
open Ops Spec

/-- no cue boundary strictly between: the cue contains no multiple of `f` -/
def NoMult (f : Int) (it : Item) : Prop := ¬ containsMultiple f it

theorem tmod_nonpos' (a b : Int) (h : a ≤ 0) : Int.tmod a b ≤ 0 := by
  have h1 : 0 ≤ Int.tmod (-a) b := Int.tmod_nonneg b (by omega)
  rw [Int.neg_tmod] at h1
  omega

/-- `firstBoundary f s` is the first multiple of `f` strictly after `s` -/
theorem firstBoundary_spec (f s : Int) (hf : 0 < f) :
    isMultiple f (firstBoundary f s) ∧ firstBoundary f s - f ≤ s ∧ s < firstBoundary f s := by
  have hdiv := Int.mul_tdiv_add_tmod s f
  have hlt := Int.tmod_lt_of_pos s hf
  have hgt := Int.lt_tmod_of_pos s hf
  unfold firstBoundary
  simp only
  have hb0 : s - Int.tmod s f = (Int.tdiv s f) * f := by rw [Int.mul_comm]; omega
  by_cases hs : 0 ≤ s
  · have hnn := Int.tmod_nonneg f hs
    have hle : s - Int.tmod s f ≤ s := by omega
    simp only [hle, ↓reduceIte]
    refine ⟨⟨Int.tdiv s f + 1, ?_⟩, by omega, by omega⟩
    rw [hb0, Int.add_mul]; omega
  · have hnp := tmod_nonpos' s f (by omega)
    by_cases hz : Int.tmod s f = 0
    · have hle : s - Int.tmod s f ≤ s := by omega
      simp only [hle, ↓reduceIte]
      refine ⟨⟨Int.tdiv s f + 1, ?_⟩, by omega, by omega⟩
      rw [hb0, Int.add_mul]; omega
    · have hle : ¬ (s - Int.tmod s f ≤ s) := by omega
      simp only [hle, ↓reduceIte]
      exact ⟨⟨Int.tdiv s f, hb0⟩, by omega, by omega⟩

/-- between a multiple `b` of `f` and `b - f` there is no other multiple -/
theorem no_mult_between {f b s e : Int} (hf : 0 < f) (hb : isMultiple f b) (h1 : b - f ≤ s) (h2 : e ≤ b) :
    ¬ ∃ k : Int, s < k * f ∧ k * f < e := by
  rintro ⟨k, hk1, hk2⟩
  obtain ⟨m, rfl⟩ := hb
  have hkm : k < m := by
    by_cases h : k < m
    · exact h
    · have : m * f ≤ k * f := Int.mul_le_mul_of_nonneg_right (by omega) (by omega)
      omega
  have : k * f ≤ (m - 1) * f := Int.mul_le_mul_of_nonneg_right (by omega) (by omega)
  rw [Int.sub_mul] at this
  omega

/-- everything the inner loop of `Fragment` guarantees about the pieces of one cue -/
structure Pieces (f : Int) (it : Item) (ps : List Item) : Prop where
  chain : Chain it ps
  noMult : ∀ p ∈ ps, NoMult f p
  content : ∀ p ∈ ps, p.content = it.content
  /-- every cut point is a multiple of `f` strictly inside the cue -/
  cuts : ∀ p ∈ ps.dropLast, isMultiple f p.endAt ∧ it.startAt < p.endAt ∧ p.endAt < it.endAt
  /-- the original pointer is the last piece, all earlier pieces are fresh copies -/
  lastUid : ∃ q, ps.getLast? = some q ∧ q.uid = it.uid ∧ q.endAt = it.endAt
  freshUids : ∀ p ∈ ps.dropLast, p.uid = 0

theorem cutLoop_pieces (f : Int) (hf : 0 < f) (fuel : Nat) (it : Item) (b : Int)
    (hb : isMultiple f b) (h1 : b - f ≤ it.startAt) (h2 : it.startAt < b)
    (hfuel : (it.endAt - b).toNat < fuel) : Pieces f it (cutLoop f fuel it b) := by
  induction fuel generalizing it b with
  | zero => omega
  | succ fuel ih =>
    unfold cutLoop
    by_cases hlt : b < it.endAt
    · simp only [hlt, ↓reduceIte]
      have hb' : isMultiple f (b + f) := by
        obtain ⟨m, rfl⟩ := hb; exact ⟨m + 1, by rw [Int.add_mul]; omega⟩
      have ih' := ih { it with startAt := b } (b + f) hb' (by simp) (by simp; omega)
        (by simp only; omega)
      -- the recursive result is non-empty: it ends with the original
      obtain ⟨q, hq, hqu, hqe⟩ := ih'.lastUid
      have hne : cutLoop f fuel { it with startAt := b } (b + f) ≠ [] := by
        intro h; rw [h] at hq; simp at hq
      obtain ⟨r, rs, hrs⟩ := List.exists_cons_of_ne_nil hne
      rw [hrs] at ih' hq ⊢
      refine ⟨?_, ?_, ?_, ?_, ?_, ?_⟩
      · -- chain
        show Chain it ({ it with uid := 0, endAt := b } :: r :: rs)
        unfold Chain
        exact ⟨rfl, rfl, h2, ih'.chain⟩
      · intro p hp
        rcases List.mem_cons.mp hp with rfl | hp
        · exact no_mult_between hf hb h1 (Int.le_refl _)
        · exact ih'.noMult p hp
      · intro p hp
        rcases List.mem_cons.mp hp with rfl | hp
        · rfl
        · exact ih'.content p hp
      · intro p hp
        rw [List.dropLast_cons_of_ne_nil (by simp)] at hp
        rcases List.mem_cons.mp hp with rfl | hp
        · exact ⟨hb, h2, hlt⟩
        · have := ih'.cuts p hp
          simp only at this
          exact ⟨this.1, by omega, this.2.2⟩
      · refine ⟨q, ?_, hqu, hqe⟩
        rw [List.getLast?_cons_cons]; exact hq
      · intro p hp
        rw [List.dropLast_cons_of_ne_nil (by simp)] at hp
        rcases List.mem_cons.mp hp with rfl | hp
        · rfl
        · exact ih'.freshUids p hp
    · simp only [hlt, ↓reduceIte]
      refine ⟨?_, ?_, ?_, ?_, ⟨it, rfl, rfl, rfl⟩, ?_⟩
      · exact ⟨rfl, rfl, rfl⟩
      · intro p hp
        simp at hp; subst hp
        exact no_mult_between hf hb h1 (by omega)
      · intro p hp; simp at hp; subst hp; rfl
      · intro p hp; simp at hp
      · intro p hp; simp at hp

theorem cut_pieces (f : Int) (hf : 0 < f) (it : Item) : Pieces f it (cut f it) := by
  have ⟨hm, h1, h2⟩ := firstBoundary_spec f it.startAt hf
  unfold cut
  exact cutLoop_pieces f hf _ it _ hm h1 h2 (by omega)

/-- a cue that contains no multiple of `f` is left as it was (same pointer) -/
theorem cut_noop (f : Int) (hf : 0 < f) (it : Item) (h : NoMult f it) : cut f it = [it] := by
  have ⟨⟨k, hk⟩, h1, h2⟩ := firstBoundary_spec f it.startAt hf
  unfold cut
  simp only
  have hge : ¬ (firstBoundary f it.startAt < it.endAt) := by
    intro hlt
    exact h ⟨k, by omega, by omega⟩
  generalize (it.endAt - firstBoundary f it.startAt).toNat = n
  unfold cutLoop
  simp [hge]

end Astisub
