import Astisub.Lemmas.VTT2Layout
import Astisub.Lemmas.SSAStr

/-!
# Lemmas/VTT2Blocks — the reader's step on the lines of a NOTE block, a STYLE block and a region
definition, as the writer emits them
-/

namespace Astisub
namespace VTT
open Go List

/-! ### trimmed lines -/

theorem trimmed_of_eq {c : Str} (h : trimSpace c = c) : Trimmed c := by
  have := trimmed_trimSpace c
  rwa [h] at this

theorem trimSpace_prefix (p : Char) (ps c : Str) (hp : isSpace p = false) (hc : trimSpace c = c) (hne : c ≠ []) :
    trimSpace (p :: ps ++ c) = p :: ps ++ c := by
  apply trimSpace_of_trimmed
  constructor
  · intro x hx
    simp at hx
    subst hx
    exact hp
  · intro x hx
    have : (p :: ps ++ c).getLast? = c.getLast? := by
      rw [show p :: ps ++ c = (p :: ps) ++ c from rfl, getLast?_append]
      cases hl : c.getLast? with
      | none => simp at hl; exact absurd hl hne
      | some d => simp
    rw [this] at hx
    exact (trimmed_of_eq hc).2 x hx

/-! ### NOTE blocks -/

def noBreakB (c : Str) : Bool := c.all fun ch => !(ch == '\n' || ch == '\r')

/-- the first line of a comment (written after `NOTE `): non-empty, trimmed, one line -/
def firstCommentOk (c : Str) : Bool := c != [] && trimSpace c == c && noBreakB c

/-- a later line of a comment: moreover it must not be taken for a timing line, nor for the
    start of another comment (`NOTE` alone would be dropped, `NOTE x` would lose its prefix) -/
def contCommentOk (c : Str) : Bool :=
  firstCommentOk c && !contains arrow c && c != "NOTE".toList && !hasPrefix "NOTE ".toList c

/-- a comment block that is read back line by line -/
def commentsOk : List Str → Bool
  | [] => true
  | c :: cs => firstCommentOk c && cs.all contCommentOk

example : commentsOk ["a --> b".toList, "STYLE of the translation".toList, "Region: id=none".toList,
  "X-TIMESTAMP-MAP is not here".toList] = true := by decide

theorem step_commentFirst (st : St) (c : Str) (hb : st.block ≠ .text) (hc : firstCommentOk c = true) :
    step st (some ("NOTE ".toList ++ c)) = .ok { st with block := .comment, comments := st.comments ++ [c] } := by
  simp only [firstCommentOk, Bool.and_eq_true, bne_iff_ne, ne_eq, beq_iff_eq] at hc
  exact C02.note_opens_comment st c hb (trimSpace_prefix 'N' "OTE ".toList c (by decide) hc.1.2 hc.1.1)

theorem step_commentCont (st : St) (c : Str) (hb : st.block = .comment) (hc : contCommentOk c = true) :
    step st (some c) = .ok { st with comments := st.comments ++ [c] } := by
  simp only [contCommentOk, firstCommentOk, Bool.and_eq_true, bne_iff_ne, ne_eq, beq_iff_eq,
    Bool.not_eq_true'] at hc
  obtain ⟨⟨⟨⟨⟨hne, htrim⟩, _⟩, harrow⟩, hn1⟩, hn2⟩ := hc
  unfold step
  simp only [htrim, hb, hne, hn1, hn2, harrow, Bool.or_self, Bool.and_false, Bool.false_eq_true, ↓reduceIte,
    reduceCtorEq, decide_false, ne_eq, not_true_eq_false, not_false_eq_true, decide_true,
    Bool.false_and]

theorem run_commentCont (cs : List Str) (hcs : ∀ c ∈ cs, contCommentOk c = true) (more : List (Option Str)) :
    ∀ (st : St), st.block = .comment →
      run st (cs.map some ++ more) = run { st with comments := st.comments ++ cs } more := by
  induction cs with
  | nil => intro st _; simp
  | cons c cs ih =>
    intro st hb
    simp only [map_cons, cons_append, run]
    rw [step_commentCont st c hb (hcs c (by simp))]
    simp only []
    refine (ih (fun x hx => hcs x (by simp [hx])) { st with comments := st.comments ++ [c] } hb).trans ?_
    simp

/-- **NOTE block.** outside a cue, the comment block the writer emits (with the blank line that
    ends it) adds its lines to the pending comments and leaves the reader outside any block -/
theorem run_commentLines (cs : List Str) (hok : commentsOk cs = true) (more : List (Option Str))
    (st : St) (hb : st.block = .none) :
    run st ((commentLines cs).map some ++ more) = run { st with comments := st.comments ++ cs, tags := if cs = [] then st.tags else [] } more := by
  cases cs with
  | nil => simp [commentLines]
  | cons c cs =>
    simp only [commentsOk, Bool.and_eq_true, all_eq_true] at hok
    simp only [commentLines, map_cons, map_append, cons_append, run, append_assoc]
    rw [step_commentFirst st c (by rw [hb]; decide) hok.1]
    simp only []
    rw [run_commentCont cs hok.2 _ _ rfl]
    simp only [map_nil, nil_append, run, C02.step_blank]
    congr 1
    simp [C02.blankStep, hb]

/-! ### STYLE blocks -/

/-- a line of a CSS block that the reader keeps as it is: non-empty, trimmed, one line, and not
    mistaken for a timing line or the start of another block -/
def styleLineOk (l : Str) : Bool :=
  l != [] && trimSpace l == l && noBreakB l && !contains arrow l && l != "NOTE".toList &&
  !hasPrefix "NOTE ".toList l && !hasPrefix "Region: ".toList l && !hasPrefix "STYLE".toList l &&
  !hasPrefix "X-TIMESTAMP-MAP".toList l

example : styleLineOk "::cue(b) { color: red }".toList = true := by decide

theorem step_styleOpen (st : St) (hb : st.block = .none) (hs : st.styleSeen = false) :
    step st (some "STYLE".toList) = .ok { st with block := .style, styleSeen := true, tags := [], styles := [] } := by
  have h1 : trimSpace "STYLE".toList = "STYLE".toList := by decide
  have h2 : ("STYLE".toList = "NOTE".toList) = False := by decide
  have h3 : hasPrefix "NOTE ".toList "STYLE".toList = false := by decide
  have h4 : ("STYLE".toList = ([] : Str)) = False := by decide
  have h5 : hasPrefix "Region: ".toList "STYLE".toList = false := by decide
  have h6 : hasPrefix "STYLE".toList "STYLE".toList = true := by decide
  unfold step
  simp only [h1, h2, h3, h4, h5, h6, hb, hs, Bool.or_self, Bool.and_false, Bool.false_eq_true, ↓reduceIte,
    reduceCtorEq, decide_false, ne_eq, not_false_eq_true, decide_true, Bool.and_self]

theorem step_styleLine (st : St) (l : Str) (hb : st.block = .style) (hl : styleLineOk l = true) :
    step st (some l) = .ok { st with styles := st.styles ++ [l] } := by
  simp only [styleLineOk, Bool.and_eq_true, bne_iff_ne, ne_eq, beq_iff_eq, Bool.not_eq_true'] at hl
  obtain ⟨⟨⟨⟨⟨⟨⟨⟨hne, htrim⟩, _⟩, harrow⟩, hn1⟩, hn2⟩, hr⟩, hs⟩, hx⟩ := hl
  unfold step
  simp only [htrim, hb, hne, hn1, hn2, hr, hs, hx, harrow, Bool.or_self, Bool.and_false, Bool.false_eq_true,
    ↓reduceIte, reduceCtorEq, decide_false, ne_eq, not_false_eq_true, decide_true, Bool.and_self]

theorem run_styleLines (ls : List Str) (hls : ∀ l ∈ ls, styleLineOk l = true) (more : List (Option Str)) :
    ∀ (st : St), st.block = .style →
      run st (ls.map some ++ more) = run { st with styles := st.styles ++ ls } more := by
  induction ls with
  | nil => intro st _; simp
  | cons l ls ih =>
    intro st hb
    simp only [map_cons, cons_append, run]
    rw [step_styleLine st l hb (hls l (by simp))]
    simp only []
    refine (ih (fun x hx => hls x (by simp [hx])) { st with styles := st.styles ++ [l] } hb).trans ?_
    simp

/-- **STYLE block.** blank line, `STYLE`, the CSS lines: the reader is inside the style block
    holding exactly those lines -/
theorem run_styleBlock (ls : List Str) (hls : ∀ l ∈ ls, styleLineOk l = true) (more : List (Option Str))
    (st : St) (hb : st.block = .none) (hs : st.styleSeen = false) :
    run st ((([] : Str) :: "STYLE".toList :: ls).map some ++ more)
      = run { st with block := .style, styleSeen := true, tags := [], styles := ls } more := by
  simp only [map_cons, cons_append, run, C02.step_blank]
  have hb' : (C02.blankStep st).block = .none := by simp [C02.blankStep, hb]
  rw [step_styleOpen _ hb' (by simpa [C02.blankStep] using hs)]
  simp only []
  rw [run_styleLines ls hls more _ rfl]
  simp [C02.blankStep]

end VTT
end Astisub
