import Astisub.Lemmas.TTMLRead2Defs
import Astisub.Lemmas.SRTSpecView
import Astisub.Lemmas.TTMLDocAttrs

/-!
# Lemmas/TTMLRead2SAttr — the reader's attribute conversion, its view, the metadata look-ups

* `styleAttributes_field`: the entry `"TTML" ++ Field` of `styleAttributes kv` is the field of `kv`
  (= `C03doc.styleAttributes_field_Statement`);
* `view_styleAttributes`, `view_styleAttributes_nil`, `view_get_congr`: the driver's view `ttmlAttrsOf` of it;
* `metadata_title`, `metadata_copyright`, `metadata_language`: entries of `metadataOf`;
* `language_view`: the decoder's language name is the reader's.
-/

namespace Astisub
namespace TTMLR
open Go TTML

/-! ## 1. looking up in `mkAttrs` (keys pairwise distinct) -/

theorem pairwise_key_unique {α β : Type} : ∀ {l : List (α × β)}, l.Pairwise (fun a b => a.1 ≠ b.1) →
    ∀ a ∈ l, ∀ b ∈ l, a.1 = b.1 → a = b := by
  intro l
  induction l with
  | nil => intro _ a ha; cases ha
  | cons z zs ih =>
    intro hd a ha b hb hab
    rw [List.pairwise_cons] at hd
    rcases List.mem_cons.mp ha with rfl | ha' <;> rcases List.mem_cons.mp hb with rfl | hb'
    · rfl
    · exact absurd hab (hd.1 b hb')
    · exact absurd hab.symm (hd.1 a ha')
    · exact ih hd.2 a ha' b hb' hab

/-- an entry of `mkAttrs l` (keys of `l` distinct): the value listed for the key -/
theorem kvGet_mkAttrs_mem (l : List (String × Option Str)) (hd : l.Pairwise (fun a b => a.1 ≠ b.1)) (k : String)
    (o : Option Str) (hm : (k, o) ∈ l) : kvGet (some (mkAttrs l)) k = o := by
  have hd' : (l.filterMap fun (k, v) => v.map fun v => (k.toList, v)).Pairwise (fun a b => a.1 ≠ b.1) := by
    apply List.Pairwise.filterMap _ _ hd
    intro a a' hne b hb b' hb'
    obtain ⟨ka, va⟩ := a
    obtain ⟨ka', va'⟩ := a'
    cases va with
    | none => simp at hb
    | some x =>
      cases va' with
      | none => simp at hb'
      | some x' =>
        simp only [Option.map_some, Option.some.injEq] at hb hb'
        subst hb; subst hb'
        exact fun e => hne (String.toList_injective e)
  unfold kvGet mkAttrs sortKV
  simp only
  rw [SRTDoc.lookup_perm (List.mergeSort_perm _ _) (by
    exact ((List.mergeSort_perm _ _).pairwise_iff (fun hxy => Ne.symm hxy)).mpr hd')]
  apply Option.ext
  intro v
  rw [SRTDoc.lookup_some_iff _ hd', List.mem_filterMap]
  constructor
  · rintro ⟨⟨ka, va⟩, hmem, he⟩
    cases va with
    | none => simp at he
    | some x =>
      simp only [Option.map_some, Option.some.injEq, Prod.mk.injEq] at he
      obtain ⟨e1, e2⟩ := he
      have := String.toList_injective e1
      subst this; subst e2
      have := pairwise_key_unique hd _ hm _ hmem rfl
      simpa using this
  · intro ho
    subst ho
    exact ⟨(k, some v), hm, rfl⟩

/-- keys pairwise distinct, stated on the key list -/
theorem pairwise_of_keys_nodup (l : List (String × Option Str)) (h : (l.map (·.1)).Nodup) :
    l.Pairwise (fun a b => a.1 ≠ b.1) := by
  unfold List.Nodup at h
  rw [List.pairwise_map] at h
  exact h

/-! ## 2. the list `styleAttributes` hands to `mkAttrs` -/

def saTtml (a : KV) : List (String × Option Str) := attrTable.map fun p => ("TTML" ++ p.1, get a p.1)

def saTb (a : KV) : Bool := match get a "WritingMode" with | some w => hasPrefix "tb".toList w | none => false

def saExt (a : KV) : List (String × Option Str) :=
  match get a "Extent" with
  | none => []
  | some e =>
    match splitC ' ' e with
    | d0 :: d1 :: _ =>
      let lines : Option Str :=
        match atoi (replaceAll "%".toList [] d1) with
        | some h => let q := goDiv h 5; if q = 0 then none else some (itoa q)
        | none => none
      [("WebVTTWidth", optStr d0), ("WebVTTLines", lines), ("WebVTTSize", optStr (if saTb a then d0 else d1))]
    | _ => []

def saOrg (a : KV) : List (String × Option Str) :=
  match get a "Origin" with
  | none => []
  | some o =>
    [("WebVTTRegionAnchor", some "0%,0%".toList),
     ("WebVTTViewportAnchor", optStr (replaceAll " ".toList ",".toList (trimSpace o))),
     ("WebVTTScroll", some "up".toList)] ++
    (match splitC ' ' o with
     | c0 :: c1 :: _ => [("WebVTTLine", optStr (if saTb a then c1 else c0)), ("WebVTTPosition", optStr (if saTb a then c0 else c1))]
     | _ => [])

def saAl (a : KV) : List (String × Option Str) :=
  match get a "TextAlign" with
  | some t => [("WebVTTAlign", optStr t)]
  | none => []

theorem styleAttributes_eq (a : KV) : styleAttributes a = mkAttrs (saTtml a ++ saAl a ++ saExt a ++ saOrg a) := rfl

def webKeys : List String :=
  ["WebVTTAlign"] ++ ["WebVTTWidth", "WebVTTLines", "WebVTTSize"] ++
    (["WebVTTRegionAnchor", "WebVTTViewportAnchor", "WebVTTScroll"] ++ ["WebVTTLine", "WebVTTPosition"])

theorem webKeys_nodup : webKeys.Nodup := by decide

theorem webKeys_head : ∀ k ∈ webKeys, k.toList.head? = some 'W' := by decide

theorem saAl_keys (a : KV) : ((saAl a).map (·.1)).Sublist ["WebVTTAlign"] := by
  unfold saAl
  cases get a "TextAlign" with
  | none => exact List.nil_sublist _
  | some t => exact List.Sublist.refl _

theorem saExt_keys (a : KV) : ((saExt a).map (·.1)).Sublist ["WebVTTWidth", "WebVTTLines", "WebVTTSize"] := by
  unfold saExt
  cases get a "Extent" with
  | none => exact List.nil_sublist _
  | some e =>
    simp only
    split
    · exact List.Sublist.refl _
    · exact List.nil_sublist _

theorem saOrg_keys (a : KV) :
    ((saOrg a).map (·.1)).Sublist
      (["WebVTTRegionAnchor", "WebVTTViewportAnchor", "WebVTTScroll"] ++ ["WebVTTLine", "WebVTTPosition"]) := by
  unfold saOrg
  cases get a "Origin" with
  | none => exact List.nil_sublist _
  | some o =>
    simp only
    rw [List.map_append]
    apply List.Sublist.append (List.Sublist.refl _)
    split
    · exact List.Sublist.refl _
    · exact List.nil_sublist _

theorem saWeb_keys (a : KV) : ((saAl a ++ saExt a ++ saOrg a).map (·.1)).Sublist webKeys := by
  rw [List.map_append, List.map_append]
  exact ((saAl_keys a).append (saExt_keys a)).append (saOrg_keys a)

theorem ttml_head (f : String) : ("TTML" ++ f).toList.head? = some 'T' := by
  rw [String.toList_append]
  rfl

theorem ttml_append_inj {f g : String} (h : "TTML" ++ f = "TTML" ++ g) : f = g := by
  have h' := congrArg String.toList h
  rw [String.toList_append, String.toList_append] at h'
  exact String.toList_injective (List.append_cancel_left h')

theorem saTtml_pairwise (a : KV) : (saTtml a).Pairwise (fun x y => x.1 ≠ y.1) := by
  unfold saTtml
  rw [List.pairwise_map]
  have h : (attrTable.map (·.1)).Nodup := by decide
  unfold List.Nodup at h
  rw [List.pairwise_map] at h
  exact h.imp fun hne e => hne (ttml_append_inj e)

theorem saList_pairwise (a : KV) :
    (saTtml a ++ saAl a ++ saExt a ++ saOrg a).Pairwise (fun x y => x.1 ≠ y.1) := by
  rw [List.append_assoc, List.append_assoc, ← List.append_assoc (saAl a)]
  rw [List.pairwise_append]
  refine ⟨saTtml_pairwise a, ?_, ?_⟩
  · exact pairwise_of_keys_nodup _ ((saWeb_keys a).nodup webKeys_nodup)
  · intro x hx y hy e
    unfold saTtml at hx
    obtain ⟨p, _, rfl⟩ := List.mem_map.mp hx
    have hy' : y.1 ∈ webKeys := (saWeb_keys a).subset (List.mem_map_of_mem (f := (·.1)) hy)
    have h1 := webKeys_head _ hy'
    rw [← e, ttml_head] at h1
    exact absurd h1 (by decide)

/-- **Target 1** (= `C03doc.styleAttributes_field_Statement`) -/
theorem styleAttributes_field (kv : KV) (p : String × String) (hp : p ∈ attrTable) :
    kvGet (some (styleAttributes kv)) ("TTML" ++ p.1) = TTML.get kv p.1 := by
  rw [styleAttributes_eq]
  apply kvGet_mkAttrs_mem _ (saList_pairwise kv)
  rw [List.append_assoc, List.append_assoc]
  apply List.mem_append_left
  unfold saTtml
  exact List.mem_map.mpr ⟨p, hp, rfl⟩

/-! ## 3. the driver's view -/

theorem stylingNames_eq : Spec.TTML.stylingNames = attrTable.map (·.2) := by decide

theorem capital_row : ∀ p ∈ attrTable,
    String.ofList (match p.2.toList with | c :: r => c.toUpper :: r | [] => []) = p.1 := by decide

theorem filterMap_congr'' {α β : Type} {f g : α → Option β} {l : List α} (h : ∀ x ∈ l, f x = g x) :
    l.filterMap f = l.filterMap g := by
  induction l with
  | nil => rfl
  | cons a l ih =>
    rw [List.filterMap_cons, List.filterMap_cons, h a (List.mem_cons_self ..),
      ih (fun x hx => h x (List.mem_cons_of_mem _ hx))]

/-- **Target 2** -/
theorem view_styleAttributes (kv : KV) :
    Driver.TTMLD.ttmlAttrsOf (some (styleAttributes kv)) =
      attrTable.filterMap (fun p => (TTML.get kv p.1).map fun v => (p.2.toList, v)) := by
  unfold Driver.TTMLD.ttmlAttrsOf
  rw [stylingNames_eq, List.filterMap_map]
  apply filterMap_congr''
  intro p hp
  have e : kvGet (some (styleAttributes kv))
      ("TTML" ++ String.ofList (match p.2.toList with | c :: r => c.toUpper :: r | [] => [])) = TTML.get kv p.1 := by
    rw [capital_row p hp]; exact styleAttributes_field kv p hp
  exact congrArg (Option.map fun v => (p.2.toList, v)) e

/-- **Target 3** -/
theorem view_styleAttributes_nil : Driver.TTMLD.ttmlAttrsOf (some (styleAttributes [])) = [] := by
  rw [view_styleAttributes]
  apply List.filterMap_eq_nil_iff.mpr
  intro p _
  rfl

/-- **Target 4** -/
theorem view_get_congr (kv kv' : KV) (h : ∀ p ∈ attrTable, TTML.get kv p.1 = TTML.get kv' p.1) :
    Driver.TTMLD.ttmlAttrsOf (some (styleAttributes kv)) = Driver.TTMLD.ttmlAttrsOf (some (styleAttributes kv')) := by
  rw [view_styleAttributes, view_styleAttributes]
  apply filterMap_congr''
  intro p hp
  rw [h p hp]

/-! ## 4. metadata -/

def metaList (t : TIn) : List (String × Option Str) :=
  [("Framerate", if t.framerate = 0 then none else some (itoa t.framerate)),
   ("Language", languageOf t.lang), ("TTMLCopyright", optStr t.copyright), ("Title", optStr t.title)]

theorem metadataOf_eq (t : TIn) : metadataOf t = some (mkAttrs (metaList t)) := rfl

theorem metaList_pairwise (t : TIn) : (metaList t).Pairwise (fun x y => x.1 ≠ y.1) := by
  apply pairwise_of_keys_nodup
  have : (metaList t).map (·.1) = ["Framerate", "Language", "TTMLCopyright", "Title"] := rfl
  rw [this]
  decide

theorem optStr_getD (s : Str) : (optStr s).getD [] = s := by
  unfold optStr
  cases s with
  | nil => rfl
  | cons c r => rfl

theorem metadata_title (t : TIn) : (kvGet (metadataOf t) "Title").getD [] = t.title := by
  rw [metadataOf_eq, kvGet_mkAttrs_mem _ (metaList_pairwise t) "Title" (optStr t.title) (by simp [metaList]),
    optStr_getD]

theorem metadata_copyright (t : TIn) : (kvGet (metadataOf t) "TTMLCopyright").getD [] = t.copyright := by
  rw [metadataOf_eq,
    kvGet_mkAttrs_mem _ (metaList_pairwise t) "TTMLCopyright" (optStr t.copyright) (by simp [metaList]),
    optStr_getD]

theorem metadata_language (t : TIn) : kvGet (metadataOf t) "Language" = languageOf t.lang := by
  rw [metadataOf_eq]
  exact kvGet_mkAttrs_mem _ (metaList_pairwise t) "Language" (languageOf t.lang) (by simp [metaList])

/-! ## 5. the language -/

theorem takeWhile_two {p : Char → Bool} {lang : Str} {a b : Char}
    (h : lang.takeWhile p = [a, b]) : ∃ rest, lang = a :: b :: rest := by
  cases lang with
  | nil => simp at h
  | cons x r =>
    rw [List.takeWhile_cons] at h
    split at h
    · cases r with
      | nil => simp at h
      | cons y r' =>
        rw [List.takeWhile_cons] at h
        split at h
        · simp only [List.cons.injEq] at h
          exact ⟨r', by rw [h.1, h.2.1]⟩
        · simp at h
    · simp at h

theorem languageOf_cons2 (a b : Char) (rest : Str) : languageOf (a :: b :: rest) = languages.lookup [a, b] := rfl

/-- **Target 6** -/
theorem language_view (lang : Str) (n : Str) (h : Spec.TTML.languageName lang = some n) :
    TTML.languageOf lang = some n := by
  unfold Spec.TTML.languageName Spec.TTML.languageTable at h
  simp only [List.findSome?] at h
  split at h
  · rename_i x heq
    split at heq
    · rename_i hp
      obtain ⟨rest, rfl⟩ := takeWhile_two (a := 'z') (b := 'h') hp
      rw [languageOf_cons2, ← h, ← heq]; rfl
    · simp at heq
  · split at h
    · rename_i x heq
      split at heq
      · rename_i hp
        obtain ⟨rest, rfl⟩ := takeWhile_two (a := 'e') (b := 'n') hp
        rw [languageOf_cons2, ← h, ← heq]; rfl
      · simp at heq
    · split at h
      · rename_i x heq
        split at heq
        · rename_i hp
          obtain ⟨rest, rfl⟩ := takeWhile_two (a := 'j') (b := 'a') hp
          rw [languageOf_cons2, ← h, ← heq]; rfl
        · simp at heq
      · split at h
        · rename_i x heq
          split at heq
          · rename_i hp
            obtain ⟨rest, rfl⟩ := takeWhile_two (a := 'f') (b := 'r') hp
            rw [languageOf_cons2, ← h, ← heq]; rfl
          · simp at heq
        · split at h
          · rename_i x heq
            split at heq
            · rename_i hp
              obtain ⟨rest, rfl⟩ := takeWhile_two (a := 'n') (b := 'o') hp
              rw [languageOf_cons2, ← h, ← heq]; rfl
            · simp at heq
          · simp at h

end TTMLR
end Astisub
