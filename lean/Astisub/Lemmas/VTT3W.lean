import Astisub.Lemmas.VTT3Layer
import Astisub.Lemmas.VTT3WText
import Astisub.Lemmas.VTT3WDoc
import Astisub.Lemmas.VTT3WDocWitness
import Astisub.Lemmas.VTT3WView
import Astisub.Lemmas.VTT2View
import Astisub.Lemmas.VTT2Compat

/-!
# Lemmas/VTT3W — W2 assembled: the independent decoder accepts what the writer model produces and denotes
what the check expects

`decode_docLines2` (the decoder accepts the written document) + `inClass_docLines2` (it lies in the class
`InClass2`) + `read_bytes2` (read clause) + `read_write_bytes2` (the reader returns `wanted2 s`) +
`view_wanted2` (the view of `wanted2 s` is the view the check expects).
-/

namespace Astisub
namespace VTT3W
open Go Spec.VTT VTTRead

/-- **the proviso of W2 beyond `DocOk`** (decidable): `docW2` (fewer than 2^62 cues, comment blocks the decoder
    takes, region `lines` values, unsigned MPEGTS below 2^62), `viewW2` (LOCAL a whole number of milliseconds),
    every text line `lineW2` (inline instants 0 or ≥ 1 ms, tags and voices in the class of the read theorem),
    and the CSS / region lines that the class predicate takes for cue text are in the class -/
def DocW2 (s : Subs) : Bool :=
  docW2 s && viewW2 s && s.items.all (fun it => it.lines.all lineW2) && metaTextW2 lineOK2 s

structure DocW2Facts (s : Subs) : Prop where
  doc : docW2 s = true
  view : viewW2 s = true
  lines : ∀ it ∈ s.items, ∀ l ∈ it.lines, lineW2 l = true
  meta_ : metaTextW2 lineOK2 s = true

theorem docW2Facts {s : Subs} (h : DocW2 s = true) : DocW2Facts s := by
  simp only [DocW2, Bool.and_eq_true, List.all_eq_true] at h
  obtain ⟨⟨⟨h1, h2⟩, h3⟩, h4⟩ := h
  exact ⟨h1, h2, h3, h4⟩

theorem lineFit_of_cueOk2 {s : Subs} {it : CItem} (h : VTT.cueOk2 s it = true) : ∀ l ∈ it.lines, VTT.lineFit l = true := by
  simp only [VTT.cueOk2, Bool.and_eq_true, List.all_eq_true] at h
  exact h.2

/-- no run of the decoded written document carries the timestamp 0 -/
theorem zeroTs_id (g : GDoc) (h : ∀ c ∈ g.cues, ∀ l ∈ c.lines, ∀ r ∈ l.runs, r.ts ≠ some 0) : Driver.zeroTs g = g := by
  rw [zeroTs_eq]
  have hc : g.cues.map zeroTsCue = g.cues := by
    conv => rhs; rw [← List.map_id g.cues]
    apply List.map_congr_left
    intro c hc
    unfold zeroTsCue
    have hl : c.lines.map zeroTsLine = c.lines := by
      conv => rhs; rw [← List.map_id c.lines]
      apply List.map_congr_left
      intro l hl
      unfold zeroTsLine
      have hr : l.runs.map zeroTsRun = l.runs := by
        conv => rhs; rw [← List.map_id l.runs]
        apply List.map_congr_left
        intro r hr
        unfold zeroTsRun
        have := h c hc l hl r hr
        simp [this]
      rw [hr]
      rfl
    rw [hl]
    rfl
  rw [hc]

/-- **W2.**  For every cue list satisfying `DocOk` and `DocW2`: the written document is accepted by the
    independent decoder, the view the check expects exists, and the two are equal under `norm` — the first
    conjunct of the `vtt.write` predicate of `Driver/VTT.lean`. -/
theorem decode_write (s : Subs) (hok : VTT.DocOk s = true) (hx : DocW2 s = true) (doc : Str)
    (hw : VTT.write s = some doc) :
    (Driver.vttView (Driver.vttWanted s)).isSome = true ∧
    (∃ g, decode doc = some g) ∧
    (decode doc).map norm = (Driver.vttView (Driver.vttWanted s)).map norm := by
  have F := VTT.docOk_facts hok
  have W := docW2Facts hx
  have hdoc : doc = VTT.unlines (VTT.docLines2 s) := by
    rw [VTT.write_lines2 s F.ne] at hw
    exact (Option.some.inj hw).symm
  have hfit : ∀ it ∈ s.items, ∀ l ∈ it.lines, VTT.lineFit l = true ∧ lineW2 l = true :=
    fun it hit l hl => ⟨lineFit_of_cueOk2 (F.cues it hit) l hl, W.lines it hit l hl⟩
  have htext : ∀ it ∈ s.items, ∃ gl, cueText (it.lines.map VTT.lineBody) [] = some gl ∧
      ∀ g ∈ gl, ∀ r ∈ g.runs, r.ts ≠ some 0 :=
    fun it hit => cueText_lineBodies it.lines (hfit it hit)
  have ht : ∀ it ∈ s.items, (cueText (it.lines.map VTT.lineBody) []).isSome = true := by
    intro it hit
    obtain ⟨gl, h1, _⟩ := htext it hit
    rw [h1]; rfl
  obtain ⟨g, hg, hlines⟩ := decode_docLines2 s hok W.doc ht
  have hin : InClass2 doc = true := by
    rw [hdoc]
    exact inClass_docLines2 lineOK2 s hok W.doc
      (fun it hit l hl => lineOK2_lineBody l (hfit it hit l hl).1 (hfit it hit l hl).2) W.meta_
  rw [← hdoc] at hg
  have hz : Driver.zeroTs g = g := by
    apply zeroTs_id
    intro c hc l hl r hr
    have hm : c.lines ∈ g.cues.map (·.lines) := List.mem_map.mpr ⟨c, hc, rfl⟩
    rw [hlines] at hm
    obtain ⟨it, hit, e⟩ := List.mem_map.mp hm
    obtain ⟨gl, h1, h2⟩ := htext it hit
    have : glOf it = gl := by unfold glOf; rw [h1]; rfl
    rw [this] at e
    rw [← e] at hl
    exact h2 l hl r hr
  have hread := read_bytes2 (Driver.utf8 doc) doc g (SRTDoc.decodeLine_utf8 doc) hin hg
  rw [VTT.read_write_bytes2 s hok doc hw] at hread
  obtain ⟨hsome, hview⟩ := view_wanted2 s hok W.view
  refine ⟨hsome, ⟨g, hg⟩, ?_⟩
  rcases hread with h1 | ⟨s', h1, h2⟩
  · cases h1
  · cases h1
    rw [hg, Option.map_some, ← hview, h2, hz]

/-! ### non-vacuity of `DocOk ∧ DocW2`: a document with everything -/

/-- `exDocW` (comment block, two regions, CSS block, settings, region reference, voice, escaped text) with a
    timestamp map whose LOCAL is a whole number of milliseconds -/
def exWritten : Subs :=
  { exDocW with metadata := some [("WebVTTTimestampMap".toList, "10000000000,900000".toList)] }

theorem exWritten_styleLines :
    VTT.styleLines exWritten = ["::cue(b) {".toList, "color: red".toList, "}".toList] := VTT.exDoc_styleLines

theorem exWritten_ok : VTT.DocOk exWritten = true := by
  have c1 : VTT.cueOk2 exWritten exCueW = true := by decide
  have c2 : VTT.cueOk2 exWritten VTT.exCue2 = true := by decide
  have h1 : exWritten.items.all (VTT.cueOk2 exWritten) = true := by
    show [exCueW, VTT.exCue2].all (VTT.cueOk2 exWritten) = true
    simp only [List.all_cons, List.all_nil, c1, c2, Bool.and_self]
  have h2 : (!exWritten.items.isEmpty) = true := rfl
  have h3 : decide (exWritten.items.length ≤ int64Max) = true := by decide
  have h4 : decide ((exWritten.regions.map (·.id)).Nodup) = true := decide_eq_true VTT.exDoc_nodup
  have h5 : exWritten.regions.all (VTT.regionOk exWritten) = true := by decide
  have h6 : (VTT.styleLines exWritten).all VTT.styleLineOk = true ∧ VTT.styleEndOk exWritten = true := by
    simp only [VTT.styleEndOk, exWritten_styleLines]; decide
  have h7 : VTT.tsmapOk exWritten = true := by decide
  unfold VTT.DocOk
  rw [h1, h2, h3, h4, h5, h6.1, h6.2, h7]
  rfl

theorem exWritten_regionLines : ∀ l ∈ regionLines exWritten, contains Spec.VTT.arrow l = false := by
  intro l hl
  unfold regionLines at hl
  obtain ⟨d, hd, rfl⟩ := List.mem_map.mp hl
  have hp : (VTT.sortDefs exWritten.regions).Perm exWritten.regions := List.mergeSort_perm _ _
  have hm : d ∈ exWritten.regions := hp.subset hd
  have : d = { id := "r2".toList, attrs := some [("WebVTTLines".toList, "3".toList), ("WebVTTWidth".toList, "40%".toList)] }
      ∨ d = { id := "r1".toList, ref := some "s1".toList } := by
    simpa [exWritten, exDocW, VTT.exDoc] using hm
  rcases this with rfl | rfl <;> decide

theorem exWritten_w2 : DocW2 exWritten = true := by
  have d1 : decide (exWritten.items.length < 2 ^ 62) = true := by decide
  have d2 : exWritten.items.all cueW2 = true := by decide
  have d3 : styleW2 exWritten = true := by
    unfold styleW2; rw [exWritten_styleLines]; decide
  have d4 : exWritten.regions.all (regionW2 exWritten) = true := by decide
  have d5 : tsmapW2 exWritten = true := by decide
  have h1 : docW2 exWritten = true := by
    unfold docW2
    rw [d1, d2, d3, d4, d5]
    rfl
  have h2 : viewW2 exWritten = true := by decide
  have h3 : exWritten.items.all (fun it => it.lines.all lineW2) = true := by decide
  have h4 : metaTextW2 lineOK2 exWritten = true := by
    unfold metaTextW2
    rw [exWritten_styleLines]
    have hlen : (regionLines exWritten).length ≤ 2 := by
      unfold regionLines
      have hp : (VTT.sortDefs exWritten.regions).Perm exWritten.regions := List.mergeSort_perm _ _
      rw [List.length_map, hp.length_eq]
      decide
    have hreg : cueTextOf (regionLines exWritten) = [] := by
      cases hr : regionLines exWritten with
      | nil => rfl
      | cons a l =>
        rw [hr] at hlen
        exact cueTextOf_short a l (by simpa using hlen) (exWritten_regionLines a (by rw [hr]; simp))
    rw [hreg]
    decide
  unfold DocW2
  rw [h1, h2, h3, h4]
  rfl

/-! ### the statement `C02doc2.decode_write_Statement` (plain documents), under the class provisos -/

/-- what the class of the read theorem asks of a plain written document beyond the hypotheses of
    `C02doc2.decode_write_Statement`: no `|` / form feed in a voice, no form feed in a tag annotation (both are
    inside `<…>` on the written line), no text line that reads as a region definition with a `lines` value of more
    than 18 digits -/
def classW2 (s : Subs) : Bool :=
  s.items.all fun it => it.lines.all fun l =>
    l.voice.all okc && l.items.all (fun li => (VTT.runTags li).all tagW2) && regionOK (VTT.lineBody l)

example : classW2 VTT.exSubs = true := by decide

theorem cueOk_comments {s : Subs} {it : CItem} (h : VTT.cueOk s it = true) : it.comments = [] := by
  simp only [VTT.cueOk, Bool.and_eq_true, beq_iff_eq] at h
  exact h.1.1.1.1.1.1.1.1.1.1.1

theorem decode_write_plain (s : Subs) (hne : s.items ≠ []) (hok : ∀ it ∈ s.items, VTT.cueOk s it = true)
    (hlen : s.items.length < 2 ^ 62) (hreg : s.regions = []) (hsty : VTT.styleLines s = [])
    (hmeta : SRT.kvGet s.metadata "WebVTTTimestampMap" = none)
    (hts : ∀ it ∈ s.items, ∀ l ∈ it.lines, ∀ li ∈ l.items, li.startAt = 0 ∨ 1000000 ≤ li.startAt)
    (hcl : classW2 s = true) (doc : Str) (hw : VTT.write s = some doc) :
    (Driver.vttView (Driver.vttWanted s)).isSome = true ∧
    (decode doc).map norm = (Driver.vttView (Driver.vttWanted s)).map norm := by
  simp only [classW2, List.all_eq_true, Bool.and_eq_true] at hcl
  have hcues : ∀ it ∈ s.items, VTT.cueOk2 s it = true := by
    intro it hit
    have hc := cueOk_comments (hok it hit)
    have e : ({ it with comments := [] } : CItem) = it := by
      cases it; simp_all
    exact (VTT.cueOk2_of_cueOk (by rw [e]; exact hok it hit) (by rw [hc]; rfl)).1
  have hdoc : VTT.DocOk s = true := by
    simp only [VTT.DocOk, Bool.and_eq_true, Bool.not_eq_true', List.all_eq_true, decide_eq_true_eq]
    refine ⟨⟨⟨⟨⟨⟨⟨?_, hcues⟩, ?_⟩, ?_⟩, ?_⟩, ?_⟩, ?_⟩, ?_⟩
    · cases h : s.items with
      | nil => exact absurd h hne
      | cons a b => rfl
    · have : (2 : Nat) ^ 62 ≤ int64Max := by decide
      omega
    · rw [hreg]; intro d hd; cases hd
    · rw [hreg]; exact List.nodup_nil
    · rw [hsty]; intro l hl; cases hl
    · simp [VTT.styleEndOk, hsty]
    · simp [VTT.tsmapOk, hmeta]
  have hx : DocW2 s = true := by
    simp only [DocW2, Bool.and_eq_true, List.all_eq_true]
    refine ⟨⟨⟨?_, ?_⟩, ?_⟩, ?_⟩
    · simp only [docW2, Bool.and_eq_true, List.all_eq_true, decide_eq_true_eq]
      refine ⟨⟨⟨⟨hlen, ?_⟩, ?_⟩, ?_⟩, ?_⟩
      · intro it hit
        simp only [cueW2, Bool.and_eq_true, List.all_eq_true]
        refine ⟨by rw [cueOk_comments (hok it hit)]; rfl, fun l hl => (hcl it hit l hl).2⟩
      · simp [styleW2, hsty]
      · rw [hreg]; intro d hd; cases hd
      · simp [tsmapW2, hmeta]
    · simp [viewW2, VTTRead.tsmapView, hmeta]
    · intro it hit l hl
      simp only [lineW2, Bool.and_eq_true, List.all_eq_true]
      refine ⟨(hcl it hit l hl).1.1, ?_⟩
      intro li hli
      simp only [runW2, Bool.and_eq_true, List.all_eq_true]
      refine ⟨?_, (hcl it hit l hl).1.2 li hli⟩
      simp only [tsW2, Bool.or_eq_true, beq_iff_eq, decide_eq_true_eq]
      exact hts it hit l hl li hli
    · simp [metaTextW2, hsty, regionLines, hreg, VTT.sortDefs, cueTextOf]
  obtain ⟨h1, _, h3⟩ := decode_write s hdoc hx doc hw
  exact ⟨h1, h3⟩

end VTT3W
end Astisub
