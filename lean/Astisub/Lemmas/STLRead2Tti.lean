import Astisub.Lemmas.STLRead2Gsi

/-!
# Lemmas/STLRead2Tti — TTI blocks and whole files under display standard 0, for every file the decoder accepts

* `rows_agree_open`: the rows of a text field (the pending diacritic of the model is `none` at every row boundary
  because the decoder demands a letter right after a floating diacritic);
* `tti_agree_open`: one 128-byte block — user data skipped by both, binary timecodes, justification, vertical
  position, number of rows, lines;
* `ttiFold_agree_open`, `chunks_fuel`: the block loop;
* `decode_inv`: what `Spec.STL.decode … = some d` says, field by field;
* `read_of_decode_open`: the reader model's answer is a function (`docMeta`, `openCue`) of the denotation.
-/

namespace Astisub
namespace C05
open Go STL

/-! ## runs, lines, cues of the model as functions of the decoder's -/

/-- the three style flags of a decoder run, with its text -/
def segOf (r : Spec.STL.Run) : Seg := (r.text, r.italic, r.underline, r.boxing)

theorem segOf_runOf (g : Seg) : segOf (runOf g) = g := rfl

/-- the line item the library reader builds for a run of an open-subtitling row -/
def openItem (r : Spec.STL.Run) : LItem := itemOf (segOf r)

theorem openItem_runOf (g : Seg) : openItem (runOf g) = itemOf g := rfl

/-- a run as open-subtitling rows produce them: no teletext attribute, no blank count -/
def OpenRun (r : Spec.STL.Run) : Prop :=
  r.color = none ∧ r.dh = none ∧ r.ds = none ∧ r.dw = none ∧ r.spacesBefore = 0 ∧ r.spacesAfter = 0

instance (r : Spec.STL.Run) : Decidable (OpenRun r) := by unfold OpenRun; infer_instance

theorem openRun_runOf (g : Seg) : OpenRun (runOf g) := ⟨rfl, rfl, rfl, rfl, rfl, rfl⟩

theorem runOf_segOf (r : Spec.STL.Run) (h : OpenRun r) : runOf (segOf r) = r := by
  obtain ⟨h1, h2, h3, h4, h5, h6⟩ := h
  cases r
  simp only at h1 h2 h3 h4 h5 h6
  subst h1 h2 h3 h4 h5 h6
  rfl

/-- the cue the library reader builds (display standard 0) for a cue the decoder denotes; `mnr` is the GSI's
    maximum number of rows -/
def openCue (mnr : Int) (c : Spec.STL.Cue) : CItem :=
  { startAt := c.startNs, endAt := c.endNs, attrs := itemAttrs c.just c.vp mnr c.nrows,
    lines := c.lines.map fun l => { items := l.map openItem } }

/-! ## rows -/

theorem rows_agree_open : ∀ (rows : List Bytes) (ls : List (List Spec.STL.Run)),
    Spec.STL.mapM (fun r => Spec.STL.openRow r {} [] []) rows = some ls →
    rowsFold true none rows =
      some ((ls.filter fun l => !l.isEmpty).map (fun l => ({ items := l.map openItem } : Line)), none) ∧
    ∀ l ∈ ls, ∀ r ∈ l, OpenRun r
  | [], ls, h => by
    rw [mapM_nil_inv _ _ h]
    exact ⟨rfl, by intro l hl; cases hl⟩
  | r :: rs, ls, h => by
    obtain ⟨x, xs, h1, h2, rfl⟩ := mapM_cons_inv _ _ _ _ h
    obtain ⟨segs, hx, hm⟩ := open_row_agree r x h1
    obtain ⟨ih, ihr⟩ := rows_agree_open rs xs h2
    constructor
    · simp only [rowsFold, if_true, hm, ih]
      subst hx
      cases segs with
      | nil => simp
      | cons g gs =>
        simp only [List.isEmpty_cons, Bool.false_eq_true, if_false, List.map_cons, List.filter_cons, Bool.not_false,
          if_true, List.cons_append, List.nil_append, openItem_runOf, List.map_map]
        rfl
    · intro l hl q hq
      rcases List.mem_cons.mp hl with rfl | hl
      · subst hx
        obtain ⟨g, _, rfl⟩ := List.mem_map.mp hq
        exact openRun_runOf g
      · exact ihr l hl q hq

/-! ## one block -/

theorem sl_four (b : Bytes) (lo : Nat) (h : lo + 3 < b.length) :
    Spec.STL.sl b lo 4 = [b.getD lo 0, b.getD (lo + 1) 0, b.getD (lo + 2) 0, b.getD (lo + 3) 0] := by
  rw [show (4 : Nat) = 2 + 2 from rfl, sl_add, sl_two b lo (by omega), sl_two b (lo + 2) (by omega)]
  rfl

theorem slice_text (p : Bytes) (h : p.length = 128) : slice p 16 128 = p.drop 16 := by
  unfold slice
  exact List.take_of_length_le (by simp [h])

/-- **One TTI block, display standard 0.**  For every 128-byte block the independent decoder accepts (user data:
    `r = none`; otherwise the cue it denotes), the reader model — with the decoder's frame rate, entered without a
    pending diacritic — skips it / returns `openCue` of that cue, and leaves no diacritic pending. -/
theorem tti_agree_open (g : GSI) (fr : Nat) (off : Int) (p : Bytes) (r : Option Spec.STL.Cue)
    (hfr : g.m.framerate = (fr : Int)) (hpos : 0 < fr) (hdsc : g.m.dsc = [0x30])
    (h : Spec.STL.tti fr 0 off p = some r) :
    ttiItem g off none p = some (r.map (openCue (g.m.maxRows.getD 0)), none) ∧
    ∀ c, r = some c → ∀ l ∈ c.lines, ∀ q ∈ l, OpenRun q := by
  unfold Spec.STL.tti at h
  split at h
  · cases h
  · rename_i hlen
    have hlen : p.length = 128 := by simpa using hlen
    split at h
    · rename_i hfe
      have hfe' : (p.getD 3 0 == 0xFE) = true := hfe
      rw [← Option.some.inj h]
      unfold ttiItem
      rw [if_pos hfe']
      exact ⟨rfl, by intro c hc; cases hc⟩
    · rename_i hfe
      simp only at h
      split at h
      · cases h
      · split at h
        · cases h
        · split at h
          · cases h
          · rename_i ls hrows
            simp only [beq_self_eq_true, if_true] at hrows
            obtain ⟨hfold, hopen⟩ := rows_agree_open _ ls hrows
            rw [← Option.some.inj h]
            constructor
            · unfold ttiItem
              rw [if_neg hfe]
              simp only
              have e1 : slice p 5 9 = [p.getD 5 0, p.getD 6 0, p.getD 7 0, p.getD 8 0] := by
                rw [show slice p 5 9 = Spec.STL.sl p 5 4 from (sl_eq_slice p 5 4).symm]
                exact sl_four p 5 (by omega)
              have e2 : slice p 9 13 = [p.getD 9 0, p.getD 10 0, p.getD 11 0, p.getD 12 0] := by
                rw [show slice p 9 13 = Spec.STL.sl p 9 4 from (sl_eq_slice p 9 4).symm]
                exact sl_four p 9 (by omega)
              have e3 : (g.m.dsc == [0x30]) = true := by rw [hdsc]; rfl
              rw [e1, e2, hfr, parse_instant _ _ _ _ fr hpos, parse_instant _ _ _ _ fr hpos, slice_text p hlen,
                ← splitAt8A_eq, e3, hfold]
              rfl
            · intro c hc l hl q hq
              rw [← Option.some.inj hc] at hl
              exact hopen l (List.mem_filter.mp hl).1 q hq

/-! ## the block loop -/

theorem chunks_nil (n fuel : Nat) : chunks n fuel [] = [] := by
  cases fuel <;> rfl

/-- any fuel that is at least the number of bytes gives the same blocks -/
theorem chunks_fuel : ∀ (fuel : Nat) (b : Bytes), b.length ≤ fuel → chunks 128 fuel b = chunks 128 b.length b
  | 0, b, h => by
    have : b = [] := List.length_eq_zero_iff.mp (by omega)
    subst this; rfl
  | fuel + 1, b, h => by
    cases b with
    | nil => rfl
    | cons x xs =>
      have hd : ((x :: xs).drop 128).length ≤ xs.length := by rw [List.length_drop, List.length_cons]; omega
      have e1 := chunks_fuel fuel ((x :: xs).drop 128) (by simp at h; omega)
      have e2 := chunks_fuel xs.length ((x :: xs).drop 128) hd
      show chunks 128 (fuel + 1) (x :: xs) = chunks 128 (xs.length + 1) (x :: xs)
      unfold chunks
      simp only [List.isEmpty_cons, Bool.false_eq_true, if_false]
      rw [e1, e2]

theorem ttiFold_agree_open (g : GSI) (fr : Nat) (off : Int) (hfr : g.m.framerate = (fr : Int)) (hpos : 0 < fr)
    (hdsc : g.m.dsc = [0x30]) : ∀ (ps : List Bytes) (cs : List (Option Spec.STL.Cue)),
    Spec.STL.mapM (Spec.STL.tti fr 0 off) ps = some cs →
    ttiFold g off none ps = some ((cs.filterMap id).map (openCue (g.m.maxRows.getD 0))) ∧
    ∀ c ∈ cs.filterMap id, ∀ l ∈ c.lines, ∀ q ∈ l, OpenRun q
  | [], cs, h => by
    rw [mapM_nil_inv _ _ h]
    exact ⟨rfl, by intro c hc; cases hc⟩
  | p :: ps, cs, h => by
    obtain ⟨x, xs, h1, h2, rfl⟩ := mapM_cons_inv _ _ _ _ h
    obtain ⟨hm, ho⟩ := tti_agree_open g fr off p x hfr hpos hdsc h1
    obtain ⟨ih, iho⟩ := ttiFold_agree_open g fr off hfr hpos hdsc ps xs h2
    constructor
    · simp only [ttiFold, hm, ih]
      cases x <;> simp
    · intro c hc
      cases x with
      | none => exact iho c (by simpa using hc)
      | some c0 =>
        simp only [List.filterMap_cons, id] at hc
        rcases List.mem_cons.mp hc with rfl | hc
        · exact ho c rfl
        · exact iho c hc

/-! ## what `decode … = some d` says -/

/-- the tests and readings of `Spec.STL.decode`, one by one (`b` is the GSI block) -/
structure Decoded (ig : Bool) (doc : Bytes) (d : Spec.STL.Doc) : Prop where
  len : 1024 ≤ doc.length
  mod : (doc.length - 1024) % 128 = 0
  fr : (if (Spec.STL.sl (doc.take 1024) 3 8 == Spec.STL.lit "STL25.01") = true then some 25
      else if (Spec.STL.sl (doc.take 1024) 3 8 == Spec.STL.lit "STL30.01") = true then some 30 else none) = some d.fr
  dsc : (match (doc.take 1024).getD 11 0 with | 0x30 => some 0 | 0x31 => some 1 | 0x32 => some 2 | _ => none) = some d.dsc
  cct : ¬ (Spec.STL.sl (doc.take 1024) 12 2 != Spec.STL.lit "00") = true
  lc : Spec.STL.printable (Spec.STL.sl (doc.take 1024) 14 2) = true
  lang : d.lang = Spec.STL.strip (Spec.STL.sl (doc.take 1024) 14 2)
  texts : Spec.STL.mapM (fun x : Nat × Nat => Spec.STL.textField (doc.take 1024) x.fst x.snd)
      [(16, 32), (48, 32), (80, 32), (112, 32), (144, 32), (176, 32), (208, 16), (274, 3), (277, 32), (309, 32),
        (341, 32)] = some d.texts
  cd : Spec.STL.dateField (doc.take 1024) 224 = some d.cd
  rd : Spec.STL.dateField (doc.take 1024) 230 = some d.rd
  rn : Spec.STL.numField (doc.take 1024) 236 2 = some d.rn
  n1 : ∃ v, Spec.STL.numField (doc.take 1024) 238 5 = some v
  n2 : ∃ v, Spec.STL.numField (doc.take 1024) 243 5 = some v
  n3 : ∃ v, Spec.STL.numField (doc.take 1024) 248 3 = some v
  mnc : Spec.STL.numField (doc.take 1024) 251 2 = some d.mnc
  mnr : Spec.STL.numField (doc.take 1024) 253 2 = some d.mnr
  tcp : ∃ t, Spec.STL.tcText (doc.take 1024) 256 d.fr = some t ∧ d.tcpNs = if ig then 0 else t
  tcf : ∃ t, Spec.STL.tcText (doc.take 1024) 264 d.fr = some t
  n4 : ∃ v, Spec.STL.numField (doc.take 1024) 272 1 = some v
  n5 : ∃ v, Spec.STL.numField (doc.take 1024) 273 1 = some v
  cues : ∃ cs, Spec.STL.mapM (Spec.STL.tti d.fr d.dsc d.tcpNs) (Spec.STL.blocks doc.length (doc.drop 1024)) = some cs ∧
    d.cues = cs.filterMap id

theorem decode_inv (ig : Bool) (doc : Bytes) (d : Spec.STL.Doc) (h : Spec.STL.decode ig doc = some d) :
    Decoded ig doc d := by
  unfold Spec.STL.decode at h
  split at h
  · cases h
  · rename_i hlen
    simp only [Bool.or_eq_true, decide_eq_true_eq, not_or, Nat.not_lt, ne_eq, Decidable.not_not] at hlen
    simp only at h
    split at h
    · rename_i fr dsc hfr hdsc
      split at h
      · cases h
      · rename_i hcct
        split at h
        · cases h
        · rename_i hpr
          simp only [Bool.not_eq_true', Bool.not_eq_false, Bool.and_eq_true] at hpr
          split at h
          · cases h
          · rename_i texts htexts
            split at h
            · rename_i cd rd rn v1 v2 v3 hcd hrd hrn hv1 hv2 hv3
              split at h
              · rename_i mnc mnr tcp tcf v4 v5 hmnc hmnr htcp htcf hv4 hv5
                split at h
                · cases h
                · rename_i cs hcs
                  have hd := (Option.some.inj h).symm
                  subst hd
                  exact { len := hlen.1, mod := hlen.2, fr := hfr, dsc := hdsc, cct := hcct, lc := hpr.1.2, lang := rfl,
                          texts := htexts, cd := hcd, rd := hrd, rn := hrn, n1 := ⟨_, hv1⟩, n2 := ⟨_, hv2⟩, n3 := ⟨_, hv3⟩,
                          mnc := hmnc, mnr := hmnr, tcp := ⟨tcp, htcp, rfl⟩, tcf := ⟨_, htcf⟩, n4 := ⟨_, hv4⟩,
                          n5 := ⟨_, hv5⟩, cues := ⟨cs, hcs, rfl⟩ }
              · cases h
            · cases h
    · cases h

/-! ## the whole file -/

/-- the metadata the reader model returns, as a function of the denotation -/
def docMeta (d : Spec.STL.Doc) : Meta :=
  { framerate := (d.fr : Int), language := (languageOf d.lang).getD [], country := d.texts.getD 7 [],
    creation := some { yy := d.cd.1, mm := d.cd.2.1, dd := d.cd.2.2 }, dsc := [0x30 + d.dsc],
    editorContact := d.texts.getD 10 [], editorName := d.texts.getD 9 [], maxChars := some (d.mnc : Int),
    maxRows := some (d.mnr : Int), origEpisode := d.texts.getD 1 [], publisher := d.texts.getD 8 [],
    revisionDate := some { yy := d.rd.1, mm := d.rd.2.1, dd := d.rd.2.2 }, revisionNumber := (d.rn : Int),
    slr := d.texts.getD 6 [], tcp := d.tcpNs, translEpisode := d.texts.getD 3 [], translProgram := d.texts.getD 2 [],
    translContact := d.texts.getD 5 [], translName := d.texts.getD 4 [], title := d.texts.getD 0 [] }

/-- the GSI block of every file the decoder accepts is parsed by the model, with the decoder's values -/
theorem parseGSI_of_decode (ig : Bool) (doc : Bytes) (d : Spec.STL.Doc) (D : Decoded ig doc d) :
    ∃ tcp : Int, parseGSI (doc.take 1024) = some (gsiOfSpec d.fr d.dsc d.lang d.texts d.cd d.rd d.rn d.mnc d.mnr tcp) ∧
      d.tcpNs = (if ig then 0 else tcp) ∧ (d.fr = 25 ∨ d.fr = 30) := by
  obtain ⟨v1, h1⟩ := D.n1
  obtain ⟨v2, h2⟩ := D.n2
  obtain ⟨v3, h3⟩ := D.n3
  obtain ⟨tcp, htcp, hoff⟩ := D.tcp
  obtain ⟨tcf, htcf⟩ := D.tcf
  obtain ⟨v4, h4⟩ := D.n4
  obtain ⟨v5, h5⟩ := D.n5
  have hlen : (doc.take 1024).length = 1024 := by rw [List.length_take]; have := D.len; omega
  refine ⟨tcp, ?_, hoff, (framerate_of_spec _ _ D.fr).2⟩
  rw [D.lang]
  exact parseGSI_of_spec (doc.take 1024) hlen d.fr d.dsc d.texts d.cd d.rd d.rn v1 v2 v3 d.mnc d.mnr tcp tcf v4 v5
    D.fr D.dsc D.cct D.lc D.texts D.cd D.rd D.rn h1 h2 h3 D.mnc D.mnr htcp htcf h4 h5

/-- **Reader model on every file of the decoder's class, display standard 0.**  If the independent decoder accepts
    `doc` and denotes `d` with display standard 0 (open subtitling), `ReadFromSTL` succeeds and returns the metadata
    `docMeta d` and, cue by cue, `openCue` of the decoder's cues; and every run of `d` is an open-subtitling run. -/
theorem read_of_decode_open (ig : Bool) (doc : Bytes) (d : Spec.STL.Doc) (h : Spec.STL.decode ig doc = some d)
    (hd : d.dsc = 0) :
    STL.read ig doc = .ok (docMeta d, d.cues.map (openCue (d.mnr : Int))) ∧
    ∀ c ∈ d.cues, ∀ l ∈ c.lines, ∀ q ∈ l, OpenRun q := by
  have D := decode_inv ig doc d h
  obtain ⟨tcp, hg, hoff, hfr⟩ := parseGSI_of_decode ig doc d D
  obtain ⟨cs, hcs, hcues⟩ := D.cues
  have hpos : 0 < d.fr := by rcases hfr with e | e <;> omega
  generalize hG : gsiOfSpec d.fr d.dsc d.lang d.texts d.cd d.rd d.rn d.mnc d.mnr tcp = G at hg
  have hGfr : G.m.framerate = (d.fr : Int) := by rw [← hG]; rfl
  have hGdsc : G.m.dsc = [0x30] := by rw [← hG, gsiOfSpec, hd]
  have hGmr : G.m.maxRows.getD 0 = (d.mnr : Int) := by rw [← hG]; rfl
  have hm : (if ig then { G.m with tcp := 0 } else G.m) = docMeta d := by
    rw [← hG]
    unfold gsiOfSpec docMeta
    rw [hoff]
    cases ig <;> rfl
  have hblocks : chunks 128 ((doc.drop 1024).length + 1) (doc.drop 1024)
      = Spec.STL.blocks doc.length (doc.drop 1024) := by
    rw [blocks_eq_chunks, chunks_fuel _ _ (by omega), chunks_fuel doc.length _ (by simp)]
  rw [hd] at hcs
  obtain ⟨hfold, hopen⟩ := ttiFold_agree_open G d.fr d.tcpNs hGfr hpos hGdsc _ cs hcs
  constructor
  · unfold STL.read
    rw [if_neg (by have := D.len; omega), hg]
    simp only
    rw [hm, hblocks]
    have htcp' : (docMeta d).tcp = d.tcpNs := rfl
    rw [htcp', hfold]
    simp only
    rw [if_neg (by rw [List.length_drop]; have := D.mod; omega), hGmr, hcues]
  · rw [hcues]; exact hopen

end C05
end Astisub
