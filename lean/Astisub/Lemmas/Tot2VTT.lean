import Astisub.Lemmas.TotLines
import Astisub.Lemmas.Tot2Base

/-!
# Lemmas/Tot2VTT — the WebVTT writer (and one reader site) with Go's run-time checks made explicit

Checked variants (`…C`, in the monad `Chk = Except Panic` of `TotBase`) of the model functions of
`Model/VTT.lean`: every Go index expression, slice expression and dereference of a pointer that may be nil
is a primitive that can answer `.error panic` (`idx`, `idxI`, `slcFrom`, `slcToI`, `deref`), reached only
behind the guard the Go code has, copied as an explicit `if`.  For each one: `fooC x = .ok (foo x)` — it never
panics and no default of the totalised model is ever used — and unguarded variants (`…U`) that do panic.

Go sites covered (`webvtt.go`):

* PART 1, `ReadFromWebVTT`, `case len(line) == 0:` —
  `blockName != "style" || sa == nil || len(sa.WebVTTStyles) == 0 || HasSuffix(sa.WebVTTStyles[len(sa.WebVTTStyles)-1], "}")`
  and `sa.WebVTTTags = …` (`blankC`, `stepC2`, `runC2`, `readC2`; necessity of the third disjunct: `stepU_blank_panics`).
* PART 2, `WriteToWebVTT`:
  (a) `s.Metadata != nil`, `s.Metadata.WebVTTTimestampMap != nil` (`headerC`);
  (b) `st := s.Styles[id]; st != nil && st.InlineStyle != nil`, `st.InlineStyle.WebVTTStyles` (`styleOneC`, `styleLinesC`);
  (c) `s.Regions[id].ID` — map look-up, then dereference — , `inlineStyle == nil ⇒ &StyleAttributes{}`, five times
      `s.Regions[id].Style != nil && s.Regions[id].Style.InlineStyle != nil && …` (`regionBytesC`, `fallbackC`, `regionsC`);
  (d) the same for a cue, and `item.Region != nil` before `item.Region.ID` (`cueBytesC`, `regionIdC`);
  (e) the final `c = c[:len(c)-1]` (`writeC`, `buffer_ne_nil`);
  (f) `Line.webVTTBytes`: `&l.Items[idx-1]` behind `idx > 0`, `&l.Items[idx+1]` behind `idx < len(l.Items)-1`,
      `l.Items[idx]` (`prevC`, `nextC`, `itemsLoopC`, `lineBytesC`);
  (g) `LineItem.webVTTBytes`: `li.InlineStyle != nil && li.InlineStyle.TTMLColor != nil` before `*…TTMLColor`
      (`colorC`), the slice `WebVTTTags[webVTTCommonTags(li, previous):]` (`opensC`, `commonTags_le_left`), the closing
      loop `for i := len(tags)-1; i >= webVTTCommonTags(li, next); i-- { tags[i] }` (`closeLoopC`, `closesC`);
  (h) `webVTTCommonTags`: the three nil guards and `a[n]`, `b[n]` behind `n < len(a) && n < len(b)`
      (`commonTagsC`, `commonLoopC`).

Main theorems: `VTT.readC2_eq` (all inputs), `VTTW.writeC_safe` (all inputs: the writer never panics),
`VTTW.writeC_eq` (the writer is the model's, for documents whose style and region lists are maps — one entry per
identifier: the look-up `s.Regions[id]` / `s.Styles[id]` is by identifier, the model walks the entries), and the
per-function lemmas `commonTagsC_eq`, `runBytesC_eq`, `lineBytesC_eq`, `headerC_eq`, `styleLinesC_eq`,
`regionBytesC_eq`, `cueBytesC_eq` (all inputs).  Necessity of the guards the pinned code lacked:
`regionBytesU_panics`, `cueBytesU_panics`, `styleLoopU_panics`, `writeU_panics_cue/region/style`, `opensU_panics`.

Loops are written on indexes with a fuel argument (the number of turns is bounded by a length); a fuel
that runs out would answer silently, so every `…_eq` lemma about a loop carries the hypothesis that the fuel
given by the caller is enough, and the callers discharge it.
-/

namespace Astisub
namespace Tot
open Go

/-! ## primitives whose operand is a Go `int` (may be negative) -/

-- `idxI` (`l[i]`) and `slcToI` (`l[:hi]`) with a Go `int` operand — a negative one panics — are those of `Tot2Base`

/-- dereferencing a non-nil pointer answers what it points to -/
@[simp] theorem deref_some {α} (a : α) : deref (some a) = .ok a := rfl
/-- dereferencing the nil pointer panics -/
@[simp] theorem deref_none {α} : deref (none : Option α) = .error .nilDeref := rfl

/-- an index inside the bounds answers the element -/
theorem idx_get {α} {l : List α} {i : Nat} (h : i < l.length) : idx l i = .ok l[i] := by
  unfold idx
  rw [List.getElem?_eq_getElem h]

/-- a non-negative Go `int` inside the bounds answers the element -/
theorem idxI_get {α} {l : List α} {i : Nat} (h : i < l.length) : idxI l (i : Int) = .ok l[i] := by
  unfold idxI
  rw [if_neg (by omega), Int.toNat_natCast, idx_get h]

/-- a negative index panics -/
theorem idxI_neg {α} (l : List α) {i : Int} (h : i < 0) : idxI l i = .error .index := by
  unfold idxI
  rw [if_pos h]

/-- `l[len(l)-1]` on the empty slice is `l[-1]`: a panic -/
theorem idxI_last_nil {α} : idxI ([] : List α) ((([] : List α).length : Int) - 1) = .error .index := rfl

/-- `l[len(l)-1]` on a non-empty slice is its last element -/
theorem idxI_last {α} (l : List α) (h : l ≠ []) (d : α) :
    idxI l ((l.length : Int) - 1) = .ok (l.getLast?.getD d) := by
  have hl : 0 < l.length := List.length_pos_iff.mpr h
  have e : ((l.length : Int) - 1) = ((l.length - 1 : Nat) : Int) := by omega
  rw [e, idxI_get (by omega), List.getLast?_eq_getElem?, List.getElem?_eq_getElem (by omega)]
  rfl

/-- `l[lo:]` past the length panics -/
theorem slcFrom_panics {α} {l : List α} {lo : Nat} (h : l.length < lo) : slcFrom l lo = .error .slice := by
  unfold slcFrom
  rw [if_neg (by omega)]

/-- `c[:len(c)-1]` on a non-empty slice is the slice without its last element -/
theorem slcToI_dropLast {α} (l : List α) (h : l ≠ []) : slcToI l ((l.length : Int) - 1) = .ok l.dropLast := by
  have hl : 0 < l.length := List.length_pos_iff.mpr h
  have e : ((l.length : Int) - 1) = ((l.length - 1 : Nat) : Int) := by omega
  unfold slcToI
  rw [e, if_neg (by omega), Int.toNat_natCast, slcTo_ok (by omega), List.dropLast_eq_take]

/-- `c[:len(c)-1]` on the empty slice is `c[:-1]`: a panic -/
theorem slcToI_nil {α} : slcToI ([] : List α) ((([] : List α).length : Int) - 1) = .error .slice := rfl

/-! ## PART 1 — `ReadFromWebVTT`, the `case len(line) == 0:` arm -/

namespace VTT
open Astisub.VTT
open Astisub.SRT (Res)

/-- the `case len(line) == 0:` arm of `ReadFromWebVTT`.  `sa` is the pointer `*StyleAttributes` of the
    Go code; it is initialised to `&StyleAttributes{}` and only ever re-assigned to `&StyleAttributes{}`,
    so it is `some _` here.  The four disjuncts of the `if` are evaluated left to right and
    `sa.WebVTTStyles[len(sa.WebVTTStyles)-1]` is reached only when the first three are false. -/
def blankC (st : St) : Chk (Res St) := do
  let sa : Option (List Str × List Tag) := some (st.styles, st.tags)
  let reset ←
    if st.block ≠ .style then pure true                    -- blockName != webvttBlockNameStyle
    else if sa.isNone then pure true                       -- sa == nil
    else do
      let a ← deref sa
      if a.1.length = 0 then pure true                     -- len(sa.WebVTTStyles) == 0
      else do
        let last ← idxI a.1 ((a.1.length : Int) - 1)       -- sa.WebVTTStyles[len(sa.WebVTTStyles)-1]
        pure (hasSuffix ['}'] last)
  let _ ← deref sa                                         -- sa.WebVTTTags = []WebVTTTag{}
  pure (.ok { st with block := if reset then .none else st.block, tags := [] })

/-- the model's blank-line arm -/
def blank (st : St) : Res St :=
  let keep := st.block = .style && !st.styles.isEmpty && !(hasSuffix ['}'] (st.styles.getLast?.getD []))
  .ok { st with block := if keep then st.block else .none, tags := [] }

/-- the blank-line arm never panics and is the model's arm (`getLast?.getD []` never uses its default) -/
theorem blankC_eq (st : St) : blankC st = .ok (blank st) := by
  unfold blankC blank
  by_cases hb : st.block = .style
  · cases hs : st.styles with
    | nil => simp [hb]
    | cons x xs =>
      have hl : idxI (x :: xs) (xs.length : Int) = .ok ((x :: xs).getLast?.getD []) := by
        have h := idxI_last (x :: xs) (by simp) ([] : Str)
        rw [List.length_cons, show ((xs.length + 1 : Nat) : Int) - 1 = (xs.length : Int) by omega] at h
        exact h
      simp [hb, hl]
      cases hasSuffix ['}'] ((x :: xs).getLast?.getD []) <;> simp
  · simp [hb]

/-- one iteration of the second scan loop of `ReadFromWebVTT`: `Tot.VTT.stepC` with the blank-line arm
    made explicit -/
def stepC2 (st : St) (raw : Option Str) : Chk (Res St) :=
  match raw with
  | none => stepC st none
  | some raw =>
    let line := trimSpace raw
    if st.block ≠ .text && (line = "NOTE".toList || hasPrefix "NOTE ".toList line) then stepC st (some raw)
    else if line = [] then blankC st
    else stepC st (some raw)

/-- on a blank line outside the `NOTE` arm the model's step is its blank-line arm -/
theorem step_blank (st : St) (raw : Str)
    (hn : ¬ ((st.block ≠ .text && (trimSpace raw = "NOTE".toList || hasPrefix "NOTE ".toList (trimSpace raw))) = true))
    (hl : trimSpace raw = []) : step st (some raw) = blank st := by
  unfold step blank
  simp only
  rw [if_neg hn, if_pos hl]

/-- **the step with the blank-line arm explicit never panics and is the model's step**, all states, all lines -/
theorem stepC2_eq (st : St) (raw : Option Str) : stepC2 st raw = .ok (step st raw) := by
  unfold stepC2
  cases raw with
  | none => exact stepC_eq st none
  | some raw =>
    simp only
    split
    · exact stepC_eq st _
    · rename_i hn
      split
      · rename_i hl
        rw [blankC_eq, step_blank st raw hn hl]
      · exact stepC_eq st _

/-- the second loop of `ReadFromWebVTT` -/
def runC2 : St → List (Option Str) → Chk (Res St)
  | st, [] => pure (.ok st)
  | st, l :: ls => do
    let r ← stepC2 st l
    match r with
    | .ok st' => runC2 st' ls
    | .err => pure .err
    | .unmodelled => pure .unmodelled

/-- the loop never panics and is the model's loop -/
theorem runC2_eq : ∀ (ls : List (Option Str)) (st : St), runC2 st ls = .ok (run st ls) := by
  intro ls
  induction ls with
  | nil => intro st; rfl
  | cons l ls ih =>
    intro st
    unfold runC2 run
    rw [stepC2_eq]
    simp only [ok_bind]
    cases step st l with
    | ok st' => exact ih st'
    | err => rfl
    | unmodelled => rfl

/-- `ReadFromWebVTT` on the scanned lines -/
def readC2 (lines : List (Option Str)) : Chk (Res Subs) :=
  match skipHeader lines with
  | none => pure .err
  | some rest => do
    let r ← runC2 {} rest
    match r with
    | .ok st => pure (.ok (result st))
    | .err => pure .err
    | .unmodelled => pure .unmodelled

/-- **`ReadFromWebVTT` with every index site explicit never panics and is the model's reader**, all inputs -/
theorem readC2_eq (lines : List (Option Str)) : readC2 lines = .ok (Astisub.VTT.read lines) := by
  unfold readC2 Astisub.VTT.read
  cases skipHeader lines with
  | none => rfl
  | some rest =>
    simp only [runC2_eq, ok_bind]
    cases run {} rest <;> rfl

/-! ### necessity of `len(sa.WebVTTStyles) == 0` -/

/-- the blank-line arm without the `len(sa.WebVTTStyles) == 0` disjunct -/
def blankU (st : St) : Chk (Res St) := do
  let sa : Option (List Str × List Tag) := some (st.styles, st.tags)
  let reset ←
    if st.block ≠ .style then pure true
    else if sa.isNone then pure true
    else do
      let a ← deref sa
      let last ← idxI a.1 ((a.1.length : Int) - 1)
      pure (hasSuffix ['}'] last)
  let _ ← deref sa
  pure (.ok { st with block := if reset then .none else st.block, tags := [] })

/-- the step without the `len(sa.WebVTTStyles) == 0` disjunct -/
def stepU (st : St) (raw : Option Str) : Chk (Res St) :=
  match raw with
  | none => stepC st none
  | some raw =>
    let line := trimSpace raw
    if st.block ≠ .text && (line = "NOTE".toList || hasPrefix "NOTE ".toList line) then stepC st (some raw)
    else if line = [] then blankU st
    else stepC st (some raw)

/-- a blank line never enters the `NOTE` arm -/
theorem blank_not_note (st : St) (line : Str) (hl : line = []) :
    ¬ ((st.block ≠ .text && (line = "NOTE".toList || hasPrefix "NOTE ".toList line)) = true) := by
  subst hl
  intro h
  rw [Bool.and_eq_true, Bool.or_eq_true] at h
  rcases h.2 with h | h
  · exact absurd h (by decide)
  · exact absurd h (by decide)

/-- **without the disjunct, a blank line in a `STYLE` block that has no style line yet panics**
    (`sa.WebVTTStyles[-1]`), whatever the rest of the state -/
theorem stepU_blank_panics (st : St) (raw : Str) (hb : st.block = .style) (hs : st.styles = [])
    (hl : trimSpace raw = []) : stepU st (some raw) = .error .index := by
  unfold stepU
  simp only
  rw [if_neg (blank_not_note st _ hl), if_pos hl]
  unfold blankU
  have h : idxI ([] : List Str) (-1) = .error .index := rfl
  simp [hb, hs, h]

/-- the same state and line are harmless with the disjunct -/
theorem stepC2_blank_ok (st : St) (raw : Str) (hb : st.block = .style) (hs : st.styles = [])
    (hl : trimSpace raw = []) : stepC2 st (some raw) = .ok (.ok { st with block := .none, tags := [] }) := by
  rw [stepC2_eq, step_blank st raw (blank_not_note st _ hl) hl]
  unfold blank
  simp [hb, hs]

/-- the loop and the reader without the disjunct -/
def runU : St → List (Option Str) → Chk (Res St)
  | st, [] => pure (.ok st)
  | st, l :: ls => do
    let r ← stepU st l
    match r with
    | .ok st' => runU st' ls
    | .err => pure .err
    | .unmodelled => pure .unmodelled

/-- `ReadFromWebVTT` without the disjunct -/
def readU (lines : List (Option Str)) : Chk (Res Subs) :=
  match skipHeader lines with
  | none => pure .err
  | some rest => do
    let r ← runU {} rest
    match r with
    | .ok st => pure (.ok (result st))
    | .err => pure .err
    | .unmodelled => pure .unmodelled

/-- non-vacuity: a state of the kind, and the document `WEBVTT / / STYLE / (blank)` that reaches it -/
example : stepU { block := .style } (some []) = .error .index := stepU_blank_panics _ _ rfl rfl (by decide)
example : stepU { block := .style } (some "  ".toList) = .error .index :=
  stepU_blank_panics _ _ rfl rfl (by decide)
example : (readU [some "WEBVTT".toList, some [], some "STYLE".toList, some []]).safe = false := by decide
example : (readC2 [some "WEBVTT".toList, some [], some "STYLE".toList, some []]).safe = true := by
  rw [readC2_eq]; rfl

end VTT

/-! ## PART 2 — `WriteToWebVTT` -/

namespace VTTW
open Astisub.VTT
open Astisub.SRT (kvGet escapeHTML)

/-- `sa.WebVTTTags` of a non-nil `*StyleAttributes` -/
def tagsOf (a : KV) : List Tag := tagsOfAttrs (some a)

/-- the model reads no tags off a nil inline style -/
theorem tagsOfAttrs_none : tagsOfAttrs none = [] := rfl

/-! ### (h) `webVTTCommonTags` -/

/-- `for n < len(a) && n < len(b) { x, y := a[n], b[n]; if x != y { break }; n++ }` (the comparison of
    two tags is the model's: equality of the three fields) -/
def commonLoopC (a b : List Tag) : Nat → Nat → Chk Nat
  | 0, n => pure n
  | fuel + 1, n =>
    if n < a.length ∧ n < b.length then do
      let x ← idx a n
      let y ← idx b n
      if x ≠ y then pure n else commonLoopC a b fuel (n + 1)
    else pure n

/-- nothing is shared with an empty stack -/
theorem commonTags_nil_right (a : List Tag) : commonTags a [] = 0 := by
  cases a <;> rfl

/-- the number of common leading tags is at most the length of the first stack: what makes
    `tags[webVTTCommonTags(li, previous):]` safe -/
theorem commonTags_le_left : ∀ (a b : List Tag), commonTags a b ≤ a.length := by
  intro a
  induction a with
  | nil => intro b; simp [commonTags]
  | cons x xs ih =>
    intro b
    cases b with
    | nil => simp [commonTags]
    | cons y ys =>
      unfold commonTags
      split
      · have := ih ys
        simp only [List.length_cons]
        omega
      · omega

/-- … and at most the length of the second -/
theorem commonTags_le_right : ∀ (a b : List Tag), commonTags a b ≤ b.length := by
  intro a
  induction a with
  | nil => intro b; simp [commonTags]
  | cons x xs ih =>
    intro b
    cases b with
    | nil => simp [commonTags]
    | cons y ys =>
      unfold commonTags
      split
      · have := ih ys
        simp only [List.length_cons]
        omega
      · omega

/-- the index loop never panics and counts what the structural `commonTags` counts -/
theorem commonLoopC_eq (a b : List Tag) : ∀ (fuel n : Nat), a.length - n ≤ fuel →
    commonLoopC a b fuel n = .ok (n + commonTags (a.drop n) (b.drop n)) := by
  intro fuel
  induction fuel with
  | zero =>
    intro n h
    have : a.drop n = [] := List.drop_eq_nil_of_le (by omega)
    simp [commonLoopC, this, commonTags]
  | succ fuel ih =>
    intro n h
    unfold commonLoopC
    by_cases hc : n < a.length ∧ n < b.length
    · rw [if_pos hc, idx_get hc.1, idx_get hc.2]
      simp only [ok_bind]
      rw [List.drop_eq_getElem_cons hc.1, List.drop_eq_getElem_cons hc.2]
      unfold commonTags
      by_cases he : a[n] = b[n]
      · rw [if_neg (by simpa using he), if_pos he, ih (n + 1) (by omega)]
        congr 1
        omega
      · rw [if_pos he, if_neg he]
        rfl
    · rw [if_neg hc]
      by_cases ha : n < a.length
      · have : b.drop n = [] := List.drop_eq_nil_of_le (by omega)
        rw [this, commonTags_nil_right]
        rfl
      · have : a.drop n = [] := List.drop_eq_nil_of_le (by omega)
        simp [this, commonTags]

/-- `webVTTCommonTags(li, other)`: the three nil guards, left to right, then the loop -/
def commonTagsC (li : LItem) (other : Option LItem) : Chk Nat :=
  if li.attrs.isNone then pure 0 else          -- li.InlineStyle == nil
  if other.isNone then pure 0 else do          -- other == nil
  let o ← deref other
  if o.attrs.isNone then pure 0 else do        -- other.InlineStyle == nil
  let a ← deref li.attrs
  let b ← deref o.attrs
  commonLoopC (tagsOf a) (tagsOf b) (tagsOf a).length 0

/-- what the model computes for a neighbour -/
def common (li : LItem) (other : Option LItem) : Nat :=
  match other with
  | some x => commonTags (tagsOfAttrs li.attrs) (tagsOfAttrs x.attrs)
  | none => 0

/-- **`webVTTCommonTags` never panics and is the model's count**, any of the three pointers nil or not -/
theorem commonTagsC_eq (li : LItem) (other : Option LItem) : commonTagsC li other = .ok (common li other) := by
  unfold commonTagsC common
  cases hl : li.attrs with
  | none =>
    cases other with
    | none => rfl
    | some x => simp [tagsOfAttrs_none, commonTags]
  | some a =>
    cases other with
    | none => rfl
    | some x =>
      cases hx : x.attrs with
      | none => simp [hx, tagsOfAttrs_none, commonTags_nil_right]
      | some b =>
        simp only [Option.isNone_some, Bool.false_eq_true, if_false, deref_some, ok_bind, hx]
        rw [commonLoopC_eq _ _ _ 0 (by omega)]
        simp [tagsOf]

/-- the count is within the run's own stack -/
theorem common_le (li : LItem) (other : Option LItem) : common li other ≤ (tagsOfAttrs li.attrs).length := by
  unfold common
  cases other with
  | none => exact Nat.zero_le _
  | some x => exact commonTags_le_left _ _

/-- `webVTTCommonTags` without `other == nil` (the first item of a line has no previous item) -/
def commonTagsU (li : LItem) (other : Option LItem) : Chk Nat :=
  if li.attrs.isNone then pure 0 else do
  let o ← deref other
  if o.attrs.isNone then pure 0 else do
  let a ← deref li.attrs
  let b ← deref o.attrs
  commonLoopC (tagsOf a) (tagsOf b) (tagsOf a).length 0

/-- without the guard the call for the first (or last) item of a line panics as soon as the item has an inline style -/
theorem commonTagsU_panics (li : LItem) (h : li.attrs ≠ none) : commonTagsU li none = .error .nilDeref := by
  unfold commonTagsU
  cases hl : li.attrs with
  | none => exact absurd hl h
  | some a => rfl

/-- `webVTTCommonTags` without `other.InlineStyle == nil` -/
def commonTagsU2 (li : LItem) (other : Option LItem) : Chk Nat :=
  if li.attrs.isNone then pure 0 else
  if other.isNone then pure 0 else do
  let o ← deref other
  let a ← deref li.attrs
  let b ← deref o.attrs
  commonLoopC (tagsOf a) (tagsOf b) (tagsOf a).length 0

/-- without the guard a neighbour without inline style panics -/
theorem commonTagsU2_panics (li x : LItem) (h : li.attrs ≠ none) (hx : x.attrs = none) :
    commonTagsU2 li (some x) = .error .nilDeref := by
  unfold commonTagsU2
  cases hl : li.attrs with
  | none => exact absurd hl h
  | some a => simp [hx]

/-- the loop with only the bound on `a` checked: `b[n]` runs past a shorter `b` -/
def commonLoopU (a b : List Tag) : Nat → Nat → Chk Nat
  | 0, n => pure n
  | fuel + 1, n =>
    if n < a.length then do
      let x ← idx a n
      let y ← idx b n
      if x ≠ y then pure n else commonLoopU a b fuel (n + 1)
    else pure n

example : commonLoopU [{ name := "b".toList }] [] 1 0 = .error .index := rfl
example : commonLoopC [{ name := "b".toList }] [] 1 0 = .ok 0 := rfl


/-! ### (g) `LineItem.webVTTBytes` -/

/-- `for i := len(tags)-1; i >= webVTTCommonTags(li, next); i-- { tags[i].endTag() }`: `i` is a Go `int`
    (it ends at `-1` when nothing is shared), `cn` is the bound, re-evaluated at every turn as in Go -/
def closeLoopC (cn : Chk Nat) (tags : List Tag) : Nat → Int → Chk Str
  | 0, _ => pure []
  | fuel + 1, i => do
    let n ← cn
    if i ≥ (n : Int) then do
      let t ← idxI tags i
      let r ← closeLoopC cn tags fuel (i - 1)
      pure (t.endTag ++ r)
    else pure []

/-- the closing loop never panics and closes the tags beyond the bound, innermost first -/
theorem closeLoopC_eq (cn : Chk Nat) (n : Nat) (hcn : cn = .ok n) (tags : List Tag) :
    ∀ (m fuel : Nat), m ≤ tags.length → m < fuel →
      closeLoopC cn tags fuel ((m : Int) - 1) = .ok ((((tags.take m).drop n).reverse.map Tag.endTag).flatten) := by
  subst hcn
  intro m
  induction m with
  | zero =>
    intro fuel _ hf
    cases fuel with
    | zero => omega
    | succ fuel =>
      unfold closeLoopC
      simp only [ok_bind]
      rw [if_neg (by omega)]
      simp
  | succ m ih =>
    intro fuel hm hf
    cases fuel with
    | zero => omega
    | succ fuel =>
      unfold closeLoopC
      simp only [ok_bind]
      have hi : ((m + 1 : Nat) : Int) - 1 = (m : Int) := by omega
      rw [hi]
      by_cases hge : (m : Int) ≥ (n : Int)
      · rw [if_pos hge, idxI_get (by omega)]
        simp only [ok_bind]
        rw [ih fuel (by omega) (by omega)]
        simp only [ok_bind, pure_eq]
        rw [← List.take_append_getElem (show m < tags.length by omega),
          List.drop_append_of_le_length (by rw [List.length_take]; omega)]
        simp
      · rw [if_neg hge]
        have : (tags.take (m + 1)).drop n = [] := List.drop_eq_nil_of_le (by rw [List.length_take]; omega)
        rw [this]
        rfl

/-- `if li.InlineStyle != nil && li.InlineStyle.TTMLColor != nil { color = cssColor(*li.InlineStyle.TTMLColor) }` -/
def colorC (li : LItem) : Chk Str :=
  if li.attrs.isSome then do                          -- li.InlineStyle != nil
    let a ← deref li.attrs
    let c := a.lookup "TTMLColor".toList              -- li.InlineStyle.TTMLColor : *string
    if c.isSome then do                               -- != nil
      let v ← deref c
      pure (cssColor v)
    else pure []
  else pure []

/-- the model's colour -/
def color (li : LItem) : Str := match kvGet li.attrs "TTMLColor" with | some c => cssColor c | none => []

/-- the colour never panics: both pointers are tested before `*li.InlineStyle.TTMLColor` -/
theorem colorC_eq (li : LItem) : colorC li = .ok (color li) := by
  unfold colorC color kvGet
  cases li.attrs with
  | none => rfl
  | some a =>
    simp only [Option.isSome_some, if_true, deref_some, ok_bind]
    cases List.lookup "TTMLColor".toList a with
    | none => rfl
    | some c => rfl

/-- `if li.InlineStyle != nil { for _, tag := range li.InlineStyle.WebVTTTags[webVTTCommonTags(li, previous):] { … } }` -/
def opensC (prev : Option LItem) (li : LItem) : Chk Str :=
  if li.attrs.isSome then do
    let a ← deref li.attrs
    let p ← commonTagsC li prev
    let ts ← slcFrom (tagsOf a) p                     -- li.InlineStyle.WebVTTTags[p:]
    pure ((ts.map Tag.startTag).flatten)
  else pure []

/-- the slice never panics (`commonTags_le_left`) and opens the tags beyond the ones shared with `previous` -/
theorem opensC_eq (prev : Option LItem) (li : LItem) :
    opensC prev li = .ok ((((tagsOfAttrs li.attrs).drop (common li prev)).map Tag.startTag).flatten) := by
  unfold opensC
  have hp := common_le li prev
  cases hl : li.attrs with
  | none => simp [tagsOfAttrs_none]
  | some a =>
    rw [hl] at hp
    simp only [Option.isSome_some, if_true, deref_some, ok_bind, commonTagsC_eq]
    rw [slcFrom_ok (show common li prev ≤ (tagsOf a).length from hp)]
    rfl

/-- `if li.InlineStyle != nil { for i := len(tags)-1; i >= webVTTCommonTags(li, next); i-- { tags[i].endTag() } }` -/
def closesC (next : Option LItem) (li : LItem) : Chk Str :=
  if li.attrs.isSome then do
    let a ← deref li.attrs
    closeLoopC (commonTagsC li next) (tagsOf a) ((tagsOf a).length + 1) (((tagsOf a).length : Int) - 1)
  else pure []

/-- the closing loop never panics and closes the tags beyond the ones shared with `next`, innermost first -/
theorem closesC_eq (next : Option LItem) (li : LItem) :
    closesC next li = .ok ((((tagsOfAttrs li.attrs).drop (common li next)).reverse.map Tag.endTag).flatten) := by
  unfold closesC
  cases hl : li.attrs with
  | none => simp [tagsOfAttrs_none]
  | some a =>
    simp only [Option.isSome_some, if_true, deref_some, ok_bind]
    rw [closeLoopC_eq (commonTagsC li next) _ (commonTagsC_eq li next) (tagsOf a)
      (tagsOf a).length ((tagsOf a).length + 1) (Nat.le_refl _) (Nat.lt_succ_self _), List.take_length]
    rfl

/-- `LineItem.webVTTBytes(previous, next)` -/
def runBytesC (prev next : Option LItem) (li : LItem) : Chk Str := do
  let color ← colorC li
  let opens ← opensC prev li
  let closes ← closesC next li
  pure ((if li.startAt > 0 then '<' :: Duration.formatVTT li.startAt ++ ['>'] else [])
    ++ (if color ≠ [] then "<c.".toList ++ color ++ ['>'] else [])
    ++ opens
    ++ escapeHTML li.text
    ++ closes
    ++ (if color ≠ [] then "</c>".toList else []))

/-- the model's `runBytes` in terms of `color` and `common` -/
theorem runBytes_common (prev next : Option LItem) (li : LItem) :
    runBytes prev next li =
      (if li.startAt > 0 then '<' :: Duration.formatVTT li.startAt ++ ['>'] else [])
      ++ (if color li ≠ [] then "<c.".toList ++ color li ++ ['>'] else [])
      ++ (((tagsOfAttrs li.attrs).drop (common li prev)).map Tag.startTag).flatten
      ++ escapeHTML li.text
      ++ ((((tagsOfAttrs li.attrs).drop (common li next)).reverse).map Tag.endTag).flatten
      ++ (if color li ≠ [] then "</c>".toList else []) := by
  unfold runBytes common color
  cases prev <;> cases next <;> rfl

/-- **`LineItem.webVTTBytes` never panics and is the model's `runBytes`**: any neighbours (none at the ends
    of a line), inline style nil or not, colour pointer nil or not, any two tag stacks -/
theorem runBytesC_eq (prev next : Option LItem) (li : LItem) :
    runBytesC prev next li = .ok (runBytes prev next li) := by
  unfold runBytesC
  rw [runBytes_common, colorC_eq, opensC_eq, closesC_eq]
  rfl

/-- `LineItem.webVTTBytes` with the pinned, unguarded read of the colour: `*li.InlineStyle.TTMLColor` -/
def colorU (li : LItem) : Chk Str := do
  let a ← deref li.attrs
  let v ← deref (a.lookup "TTMLColor".toList)
  pure (cssColor v)

/-- without `li.InlineStyle != nil` a run without inline style panics -/
theorem colorU_panics_nil (li : LItem) (h : li.attrs = none) : colorU li = .error .nilDeref := by
  unfold colorU; rw [h]; rfl

/-- without `TTMLColor != nil` a run whose inline style has no colour panics -/
theorem colorU_panics_nocolor (li : LItem) (a : KV) (h : li.attrs = some a)
    (hc : a.lookup "TTMLColor".toList = none) : colorU li = .error .nilDeref := by
  unfold colorU
  rw [h]
  simp only [deref_some, ok_bind]
  rw [hc]
  rfl

/-- the opening part slicing at the length of the *previous* run's stack instead of the common prefix -/
def opensU (prev : Option LItem) (li : LItem) : Chk Str :=
  if li.attrs.isSome then do
    let a ← deref li.attrs
    let p := match prev with | some x => (tagsOfAttrs x.attrs).length | none => 0
    let ts ← slcFrom (tagsOf a) p
    pure ((ts.map Tag.startTag).flatten)
  else pure []

/-- a bound larger than the length of the stack panics: the bound has to be proved `≤ len`
    (`commonTags_le_left`), it is not so by construction -/
theorem opensU_panics (x li : LItem) (a : KV) (h : li.attrs = some a)
    (hlt : (tagsOf a).length < (tagsOfAttrs x.attrs).length) : opensU (some x) li = .error .slice := by
  unfold opensU
  rw [h]
  simp [slcFrom_panics hlt]

/-- the closing loop started one too high (`i := len(tags)`) -/
example : closeLoopC (pure 0) [{ name := "b".toList }] 3 1 = .error .index := rfl
example : closeLoopC (pure 0) [{ name := "b".toList }] 3 0 = .ok "</b>".toList := rfl

/-! ### (f) `Line.webVTTBytes` -/

/-- `if idx > 0 { previous = &l.Items[idx-1] }` -/
def prevC (items : List LItem) (i : Nat) : Chk (Option LItem) :=
  if i > 0 then do
    let x ← idx items (i - 1)
    pure (some x)
  else pure none

/-- `if idx < len(l.Items)-1 { next = &l.Items[idx+1] }` (Go `int`s: `len-1` is `-1` on the empty line) -/
def nextC (items : List LItem) (i : Nat) : Chk (Option LItem) :=
  if (i : Int) < (items.length : Int) - 1 then do
    let x ← idx items (i + 1)
    pure (some x)
  else pure none

/-- `&l.Items[idx-1]` is in range behind `idx > 0` -/
theorem prevC_eq (items : List LItem) (i : Nat) (hi : i ≤ items.length) :
    prevC items i = .ok (if i = 0 then none else items[i - 1]?) := by
  unfold prevC
  by_cases h0 : i = 0
  · subst h0; rfl
  · rw [if_pos (by omega), if_neg h0, idx_get (show i - 1 < items.length by omega),
      List.getElem?_eq_getElem (show i - 1 < items.length by omega)]
    rfl

/-- `&l.Items[idx+1]` is in range behind `idx < len(l.Items)-1` -/
theorem nextC_eq (items : List LItem) (i : Nat) : nextC items i = .ok items[i + 1]? := by
  unfold nextC
  by_cases h1 : i + 1 < items.length
  · rw [if_pos (by omega), idx_get h1, List.getElem?_eq_getElem h1]
    rfl
  · rw [if_neg (by omega), List.getElem?_eq_none (by omega)]
    rfl

/-- `for idx := 0; idx < len(l.Items); idx++ { … l.Items[idx].webVTTBytes(previous, next) }` -/
def itemsLoopC (items : List LItem) : Nat → Nat → Chk Str
  | 0, _ => pure []
  | fuel + 1, i =>
    if i < items.length then do
      let prev ← prevC items i
      let next ← nextC items i
      let cur ← idx items i
      let b ← runBytesC prev next cur
      let r ← itemsLoopC items fuel (i + 1)
      pure (b ++ r)
    else pure []

/-- no items, no bytes -/
theorem itemsBytes_nil (p : Option LItem) : itemsBytes p [] = [] := by
  unfold itemsBytes; rfl

/-- the index loop never panics and is the model's structural `itemsBytes` -/
theorem itemsLoopC_eq (items : List LItem) : ∀ (fuel i : Nat), i ≤ items.length → items.length - i ≤ fuel →
    itemsLoopC items fuel i = .ok (itemsBytes (if i = 0 then none else items[i - 1]?) (items.drop i)) := by
  intro fuel
  induction fuel with
  | zero =>
    intro i hi hf
    have : items.drop i = [] := List.drop_eq_nil_of_le (by omega)
    rw [this, itemsBytes_nil]
    rfl
  | succ fuel ih =>
    intro i hi hf
    unfold itemsLoopC
    by_cases hlt : i < items.length
    · rw [if_pos hlt, List.drop_eq_getElem_cons hlt]
      unfold itemsBytes
      rw [List.head?_drop, idx_get hlt, ih (i + 1) (by omega) (by omega), prevC_eq items i hi, nextC_eq]
      simp only [ok_bind, runBytesC_eq, pure_eq]
      simp [List.getElem?_eq_getElem hlt]
    · have : items.drop i = [] := List.drop_eq_nil_of_le (by omega)
      rw [if_neg hlt, this, itemsBytes_nil]
      rfl

/-- `Line.webVTTBytes` -/
def lineBytesC (l : Line) : Chk Str := do
  let b ← itemsLoopC l.items l.items.length 0
  pure ((if l.voice ≠ [] then "<v ".toList ++ l.voice ++ ['>'] else []) ++ b ++ ['\n'])

/-- **`Line.webVTTBytes` never panics and is the model's `lineBytes`**, empty lines and one-item lines included -/
theorem lineBytesC_eq (l : Line) : lineBytesC l = .ok (lineBytes l) := by
  unfold lineBytesC lineBytes
  rw [itemsLoopC_eq l.items _ 0 (Nat.zero_le _) (by omega)]
  rfl

/-- the loop without `idx > 0`: `l.Items[-1]` at the first item -/
def itemsLoopU (items : List LItem) : Nat → Int → Chk Str
  | 0, _ => pure []
  | fuel + 1, i =>
    if i < (items.length : Int) then do
      let prev ← idxI items (i - 1)
      let next ← nextC items i.toNat
      let cur ← idxI items i
      let b ← runBytesC (some prev) next cur
      let r ← itemsLoopU items fuel (i + 1)
      pure (b ++ r)
    else pure []

/-- without `idx > 0` every non-empty line panics at its first item -/
theorem itemsLoopU_panics (items : List LItem) (h : items ≠ []) (fuel : Nat) :
    itemsLoopU items (fuel + 1) 0 = .error .index := by
  unfold itemsLoopU
  have hl : 0 < items.length := List.length_pos_iff.mpr h
  rw [if_pos (by omega), idxI_neg _ (by omega)]
  rfl

/-- the loop without `idx < len(l.Items)-1`: `l.Items[len]` at the last item -/
def itemsLoopU2 (items : List LItem) : Nat → Nat → Chk Str
  | 0, _ => pure []
  | fuel + 1, i =>
    if i < items.length then do
      let prev ← prevC items i
      let next ← idx items (i + 1)
      let cur ← idx items i
      let b ← runBytesC prev (some next) cur
      let r ← itemsLoopU2 items fuel (i + 1)
      pure (b ++ r)
    else pure []

/-- without the second guard a one-item line panics -/
theorem itemsLoopU2_panics (li : LItem) (fuel : Nat) : itemsLoopU2 [li] (fuel + 1) 0 = .error .index := by
  unfold itemsLoopU2
  rfl

/-- the lines of a cue -/
def linesC : List Line → Chk Str
  | [] => pure []
  | l :: ls => do
    let b ← lineBytesC l
    let r ← linesC ls
    pure (b ++ r)

/-- the lines of a cue never panic and are the model's -/
theorem linesC_eq : ∀ (ls : List Line), linesC ls = .ok ((ls.map lineBytes).flatten) := by
  intro ls
  induction ls with
  | nil => rfl
  | cons l ls ih =>
    unfold linesC
    rw [lineBytesC_eq, ih]
    rfl

/-! ### pointers of the cue model -/

/-- the map look-up `m[id]` of a `map[string]*T`: the nil pointer when the key is absent -/
def lookupDef (m : List Def) (id : Str) : Option Def := m.find? (·.id = id)

/-- the `*Style` pointer of a region or a cue: nil when there is none, or when the identifier that
    stands for the pointer does not resolve -/
def stylePtr (s : Subs) (ref : Option Str) : Option Def :=
  match ref with
  | none => none
  | some id => lookupDef s.styles id

/-- the model's `styleAttrs` is `p.InlineStyle` of that pointer, nil when the pointer is -/
theorem styleAttrs_eq (s : Subs) (ref : Option Str) : styleAttrs s ref = (stylePtr s ref).bind (·.attrs) := by
  unfold styleAttrs stylePtr lookupDef
  cases ref with
  | none => rfl
  | some id => cases h : List.find? (fun x => decide (x.id = id)) s.styles <;> simp [h]

/-- a map has one entry per key -/
def UniqueIds (m : List Def) : Prop := (m.map (·.id)).Nodup

/-- the invariant is decidable -/
instance (m : List Def) : Decidable (UniqueIds m) := by unfold UniqueIds; infer_instance

/-- a key of the map looks up its own entry -/
theorem lookupDef_self : ∀ (m : List Def), UniqueIds m → ∀ d ∈ m, lookupDef m d.id = some d := by
  intro m
  induction m with
  | nil => intro _ d hd; cases hd
  | cons x xs ih =>
    intro hu d hd
    unfold UniqueIds at hu
    rw [List.map_cons, List.nodup_cons] at hu
    unfold lookupDef
    rw [List.find?_cons]
    by_cases hx : x.id = d.id
    · rcases List.mem_cons.mp hd with h | h
      · subst h; simp
      · exact absurd (hx ▸ List.mem_map_of_mem (f := (·.id)) h) hu.1
    · rcases List.mem_cons.mp hd with h | h
      · subst h; exact absurd rfl hx
      · simp only [hx, decide_false]
        exact ih hu.2 d h

/-- a key of the map never misses, unique or not -/
theorem lookupDef_hit (m : List Def) (d : Def) (hd : d ∈ m) : ∃ d', lookupDef m d.id = some d' := by
  unfold lookupDef
  cases h : List.find? (fun x => decide (x.id = d.id)) m with
  | some d' => exact ⟨d', rfl⟩
  | none =>
    have := List.find?_eq_none.mp h d hd
    simp at this

/-- Go's `sort.Strings` -/
def sortStrs (l : List Str) : List Str := l.mergeSort (fun a b => !strLt b a)

/-- sorting the identifiers is taking the identifiers of the sorted entries -/
theorem sortStrs_ids (m : List Def) : sortStrs (m.map (·.id)) = (sortDefs m).map (·.id) := by
  unfold sortStrs sortDefs
  have h : ∀ a ∈ m, ∀ b ∈ m, (fun (a b : Def) => !strLt b.id a.id) a b
      = (fun (a b : Str) => !strLt b a) ((fun (x : Def) => x.id) a) ((fun (x : Def) => x.id) b) := by
    intro a _ b _
    simp only
  exact (List.map_mergeSort h).symm

/-! ### (a) the header -/

/-- `WebVTTTimestampMap.String()` preceded by the new line, on the canonical text of the map -/
def tsMapBytes (v : Str) : Str :=
  match splitC ',' v with
  | [l, m] => "\nX-TIMESTAMP-MAP=LOCAL:".toList ++ Duration.formatVTT ((atoi l).getD 0) ++ ",MPEGTS:".toList ++ m
  | _ => []

/-- `"WEBVTT"`, then `if s.Metadata != nil { if s.Metadata.WebVTTTimestampMap != nil { … } }`, then `"\n\n"` -/
def headerC (s : Subs) : Chk Str := do
  let m ←
    (if s.metadata.isSome then do                                -- s.Metadata != nil
      let md ← deref s.metadata
      let p := md.lookup "WebVTTTimestampMap".toList             -- s.Metadata.WebVTTTimestampMap
      if p.isSome then do                                        -- != nil
        let v ← deref p
        pure (tsMapBytes v)
      else pure []
    else pure [] : Chk Str)
  pure ("WEBVTT".toList ++ m ++ "\n\n".toList)

/-- **the header never panics and is the model's**, metadata nil or not, map nil or not -/
theorem headerC_eq (s : Subs) : headerC s = .ok (header s) := by
  unfold headerC header kvGet tsMapBytes
  cases s.metadata with
  | none => rfl
  | some md =>
    simp only [Option.isSome_some, if_true, deref_some, ok_bind]
    cases List.lookup "WebVTTTimestampMap".toList md with
    | none => rfl
    | some v => rfl

/-- the header without `s.Metadata != nil` -/
def headerU (s : Subs) : Chk Str := do
  let md ← deref s.metadata
  let p := md.lookup "WebVTTTimestampMap".toList
  let m ← (if p.isSome then do let v ← deref p; pure (tsMapBytes v) else pure [] : Chk Str)
  pure ("WEBVTT".toList ++ m ++ "\n\n".toList)

/-- without the guard every document without metadata panics -/
theorem headerU_panics (s : Subs) (h : s.metadata = none) : headerU s = .error .nilDeref := by
  unfold headerU; rw [h]; rfl

/-- the header is not empty: what makes the final `c[:len(c)-1]` safe -/
theorem header_ne_nil (s : Subs) : header s ≠ [] := by
  unfold header
  have : "WEBVTT".toList = ['W', 'E', 'B', 'V', 'T', 'T'] := by decide
  rw [this]
  simp

/-! ### (b) the styles loop -/

/-- the CSS lines of a non-nil `*StyleAttributes` (`WebVTTStyles`, a slice: nil when unset) -/
def cssOf (a : KV) : List Str :=
  match a.lookup "WebVTTStyles".toList with
  | some v => splitC '\n' v
  | none => []

/-- `if st := s.Styles[id]; st != nil && st.InlineStyle != nil { style = append(style, st.InlineStyle.WebVTTStyles...) }` -/
def styleOneC (s : Subs) (id : Str) : Chk (List Str) :=
  let st := lookupDef s.styles id                     -- s.Styles[id]
  if st.isSome then do                                -- st != nil
    let d ← deref st
    if d.attrs.isSome then do                         -- st.InlineStyle != nil
      let a ← deref d.attrs
      pure (cssOf a)
    else pure []
  else pure []

/-- `for _, id := range styleIDs { … }` -/
def styleLoopC (s : Subs) : List Str → Chk (List Str)
  | [] => pure []
  | id :: ids => do
    let here ← styleOneC s id
    let rest ← styleLoopC s ids
    pure (here ++ rest)

/-- the styles part of `WriteToWebVTT`: the keys of the map, sorted, then the loop -/
def styleLinesC (s : Subs) : Chk (List Str) := styleLoopC s (sortStrs (s.styles.map (·.id)))

/-- the model's contribution of one style -/
def cssOfDef (d : Def) : List Str :=
  match kvGet d.attrs "WebVTTStyles" with
  | some v => splitC '\n' v
  | none => []

/-- one turn of the styles loop never panics, whatever the identifier: absent key, nil inline style -/
theorem styleOneC_ok (s : Subs) (id : Str) :
    styleOneC s id = .ok (match lookupDef s.styles id with | some d => cssOfDef d | none => []) := by
  unfold styleOneC
  cases lookupDef s.styles id with
  | none => rfl
  | some d =>
    unfold cssOfDef kvGet
    cases hd : d.attrs with
    | none => simp [hd]
    | some a => simp [hd, cssOf]

/-- the styles loop never panics, whatever the list of identifiers -/
theorem styleLoopC_safe (s : Subs) : ∀ (ids : List Str), ∃ r, styleLoopC s ids = .ok r := by
  intro ids
  induction ids with
  | nil => exact ⟨[], rfl⟩
  | cons id ids ih =>
    obtain ⟨r, hr⟩ := ih
    unfold styleLoopC
    rw [styleOneC_ok, hr]
    exact ⟨_, rfl⟩

/-- over the identifiers of entries that look themselves up the loop is the model's `flatMap` -/
theorem styleLoopC_eq (s : Subs) : ∀ (ds : List Def), (∀ d ∈ ds, lookupDef s.styles d.id = some d) →
    styleLoopC s (ds.map (·.id)) = .ok (ds.flatMap cssOfDef) := by
  intro ds
  induction ds with
  | nil => intro _; rfl
  | cons d ds ih =>
    intro h
    rw [List.map_cons]
    unfold styleLoopC
    rw [styleOneC_ok, h d (List.mem_cons_self ..), ih (fun x hx => h x (List.mem_cons_of_mem _ hx))]
    rfl

/-- **the styles part never panics and is the model's `styleLines`** (map invariant: one entry per identifier) -/
theorem styleLinesC_eq (s : Subs) (hu : UniqueIds s.styles) : styleLinesC s = .ok (styleLines s) := by
  unfold styleLinesC styleLines
  have hm : ∀ d ∈ sortDefs s.styles, lookupDef s.styles d.id = some d := by
    intro d hd
    unfold sortDefs at hd
    exact lookupDef_self _ hu d (List.mem_mergeSort.mp hd)
  rw [sortStrs_ids, styleLoopC_eq s (sortDefs s.styles) hm]
  rfl

/-- … and it never panics without the invariant either -/
theorem styleLinesC_safe (s : Subs) : ∃ r, styleLinesC s = .ok r := styleLoopC_safe s _

/-- one turn of the pinned loop: `st.InlineStyle.WebVTTStyles` behind `st != nil` only -/
def styleOneU (s : Subs) (id : Str) : Chk (List Str) :=
  let st := lookupDef s.styles id
  if st.isSome then do
    let d ← deref st
    let a ← deref d.attrs
    pure (cssOf a)
  else pure []

/-- the pinned styles loop -/
def styleLoopU (s : Subs) : List Str → Chk (List Str)
  | [] => pure []
  | id :: ids => do
    let here ← styleOneU s id
    let rest ← styleLoopU s ids
    pure (here ++ rest)

/-- without `st.InlineStyle != nil` a style without inline style panics -/
theorem styleOneU_panics (s : Subs) (id : Str) (d : Def) (h : lookupDef s.styles id = some d)
    (hd : d.attrs = none) : styleOneU s id = .error .nilDeref := by
  unfold styleOneU
  rw [h]
  simp [hd]

/-- the only way the pinned turn can end badly is that panic -/
theorem styleOneU_cases (s : Subs) (id : Str) : (∃ r, styleOneU s id = .ok r) ∨ styleOneU s id = .error .nilDeref := by
  unfold styleOneU
  cases lookupDef s.styles id with
  | none => exact Or.inl ⟨_, rfl⟩
  | some d =>
    cases hd : d.attrs with
    | none => right; simp [hd]
    | some a => left; simp [hd]

/-- **without the guard the styles loop panics as soon as one style of the list has no inline style** -/
theorem styleLoopU_panics (s : Subs) : ∀ (ids : List Str),
    (∃ id ∈ ids, ∃ d, lookupDef s.styles id = some d ∧ d.attrs = none) → styleLoopU s ids = .error .nilDeref := by
  intro ids
  induction ids with
  | nil => intro ⟨_, h, _⟩; cases h
  | cons id ids ih =>
    intro ⟨id', hm, d, hl, hd⟩
    unfold styleLoopU
    rcases styleOneU_cases s id with ⟨r, hr⟩ | he
    · rw [hr]
      rcases List.mem_cons.mp hm with h | h
      · subst h
        rw [styleOneU_panics s id' d hl hd] at hr
        cases hr
      · rw [ih ⟨id', h, d, hl, hd⟩]
        rfl
    · rw [he]
      rfl

/-! ### (c) the regions loop -/

/-- `inlineStyle := p; if inlineStyle == nil { inlineStyle = &StyleAttributes{} }` -/
def orEmpty (p : Attrs) : Attrs := if p.isNone then some [] else p

/-- `if inlineStyle.X != "" { … inlineStyle.X } else if sty != nil && sty.InlineStyle != nil && sty.InlineStyle.X != "" { … sty.InlineStyle.X }`:
    the value written, if any -/
def fallbackC (inl : Attrs) (sty : Option Def) (k : String) : Chk (Option Str) := do
  let a ← deref inl                                    -- inlineStyle.X
  match getNE (some a) k with
  | some v => pure (some v)
  | none =>
    if sty.isSome then do                              -- sty != nil
      let st ← deref sty
      if st.attrs.isSome then do                       -- sty.InlineStyle != nil
        let b ← deref st.attrs
        pure (getNE (some b) k)                        -- sty.InlineStyle.X
      else pure none
    else pure none

/-- no field of the nil inline style is set (model side) -/
theorem getNE_none (k : String) : getNE none k = none := rfl
/-- no field of `&StyleAttributes{}` is set -/
theorem getNE_empty (k : String) : getNE (some []) k = none := rfl

/-- **a setting with fall-back never panics and is the model's `fallback`**: inline style nil (repaired to
    the empty one) or not, style pointer nil, dangling or not, the style's inline style nil or not -/
theorem fallbackC_eq (s : Subs) (own : Attrs) (ref : Option Str) (k : String) :
    fallbackC (orEmpty own) (stylePtr s ref) k = .ok (fallback own (styleAttrs s ref) k) := by
  rw [styleAttrs_eq]
  unfold fallbackC fallback
  have h1 : ∃ a, orEmpty own = some a ∧ getNE (some a) k = getNE own k := by
    cases own with
    | none => exact ⟨[], rfl, rfl⟩
    | some a => exact ⟨a, rfl, rfl⟩
  obtain ⟨a, ha, hg⟩ := h1
  rw [ha]
  simp only [deref_some, ok_bind, hg]
  cases getNE own k with
  | some v => rfl
  | none =>
    simp only
    cases stylePtr s ref with
    | none => rfl
    | some d =>
      cases hd : d.attrs with
      | none => simp [hd, getNE_none]
      | some b => simp [hd]

/-- without the repair (`inlineStyle == nil ⇒ &StyleAttributes{}`) a nil inline style panics at its first field -/
theorem fallbackC_nil (sty : Option Def) (k : String) : fallbackC none sty k = .error .nilDeref := rfl

/-- the body of `for _, id := range k` in the regions part.  `s.Regions[id]` is looked up and dereferenced
    once (Go does it at every use; the map is not modified in between) -/
def regionBytesC (s : Subs) (id : Str) : Chk Str := do
  let r ← deref (lookupDef s.regions id)               -- s.Regions[id].ID
  let inl := orEmpty r.attrs                            -- s.Regions[id].InlineStyle, repaired when nil
  let sty := stylePtr s r.ref                           -- s.Regions[id].Style
  let l ← fallbackC inl sty "WebVTTLines"
  let ra ← fallbackC inl sty "WebVTTRegionAnchor"
  let sc ← fallbackC inl sty "WebVTTScroll"
  let va ← fallbackC inl sty "WebVTTViewportAnchor"
  let w ← fallbackC inl sty "WebVTTWidth"
  pure ("Region: id=".toList ++ r.id ++ setting "lines=" l ++ setting "regionanchor=" ra ++ setting "scroll=" sc
    ++ setting "viewportanchor=" va ++ setting "width=" w ++ ['\n'])

/-- **a region line never panics and is the model's `regionBytes`** of the entry the identifier looks up -/
theorem regionBytesC_eq (s : Subs) (id : Str) (d : Def) (h : lookupDef s.regions id = some d) :
    regionBytesC s id = .ok (regionBytes s d) := by
  unfold regionBytesC regionBytes
  rw [h]
  simp only [deref_some, ok_bind, fallbackC_eq]
  rfl

/-- an identifier that is not a key of the map panics (`s.Regions[id].ID` on the nil pointer): the keys
    have to be the ones collected from the map -/
theorem regionBytesC_miss (s : Subs) (id : Str) (h : lookupDef s.regions id = none) :
    regionBytesC s id = .error .nilDeref := by
  unfold regionBytesC
  rw [h]
  rfl

/-- the pinned body: `s.Regions[id].InlineStyle.X` without the repair -/
def regionBytesU (s : Subs) (d : Def) : Chk Str := do
  let inl := d.attrs
  let sty := stylePtr s d.ref
  let l ← fallbackC inl sty "WebVTTLines"
  let ra ← fallbackC inl sty "WebVTTRegionAnchor"
  let sc ← fallbackC inl sty "WebVTTScroll"
  let va ← fallbackC inl sty "WebVTTViewportAnchor"
  let w ← fallbackC inl sty "WebVTTWidth"
  pure ("Region: id=".toList ++ d.id ++ setting "lines=" l ++ setting "regionanchor=" ra ++ setting "scroll=" sc
    ++ setting "viewportanchor=" va ++ setting "width=" w ++ ['\n'])

/-- **without the repair every region without inline style panics** -/
theorem regionBytesU_panics (s : Subs) (d : Def) (h : d.attrs = none) : regionBytesU s d = .error .nilDeref := by
  unfold regionBytesU
  rw [h]
  rfl

/-- with an inline style the pinned body is the model's line: the repair is the only difference -/
theorem regionBytesU_eq (s : Subs) (d : Def) (a : KV) (h : d.attrs = some a) :
    regionBytesU s d = .ok (regionBytes s d) := by
  unfold regionBytesU regionBytes
  have e : ∀ k, fallbackC d.attrs (stylePtr s d.ref) k = .ok (fallback d.attrs (styleAttrs s d.ref) k) := by
    intro k
    have := fallbackC_eq s d.attrs d.ref k
    rwa [show orEmpty d.attrs = d.attrs from by rw [h]; rfl] at this
  simp only [e, ok_bind]
  rfl

/-- the fall-back without `sty != nil` -/
def fallbackU (inl : Attrs) (sty : Option Def) (k : String) : Chk (Option Str) := do
  let a ← deref inl
  match getNE (some a) k with
  | some v => pure (some v)
  | none => do
    let st ← deref sty
    if st.attrs.isSome then do
      let b ← deref st.attrs
      pure (getNE (some b) k)
    else pure none

/-- without `sty != nil` an unset field of a region or cue without style panics -/
theorem fallbackU_panics (a : KV) (k : String) (h : getNE (some a) k = none) :
    fallbackU (some a) none k = .error .nilDeref := by
  unfold fallbackU
  simp [h]

/-- the fall-back without `sty.InlineStyle != nil` -/
def fallbackU2 (inl : Attrs) (sty : Option Def) (k : String) : Chk (Option Str) := do
  let a ← deref inl
  match getNE (some a) k with
  | some v => pure (some v)
  | none =>
    if sty.isSome then do
      let st ← deref sty
      let b ← deref st.attrs
      pure (getNE (some b) k)
    else pure none

/-- without `sty.InlineStyle != nil` an unset field falls on a style without inline style and panics -/
theorem fallbackU2_panics (a : KV) (d : Def) (k : String) (h : getNE (some a) k = none) (hd : d.attrs = none) :
    fallbackU2 (some a) (some d) k = .error .nilDeref := by
  unfold fallbackU2
  simp [h, hd]

/-- `for _, id := range k { … }` -/
def regionsLoopC (s : Subs) : List Str → Chk Str
  | [] => pure []
  | id :: ids => do
    let b ← regionBytesC s id
    let r ← regionsLoopC s ids
    pure (b ++ r)

/-- the regions part: the identifiers of the regions, sorted, then the loop -/
def regionsC (s : Subs) : Chk Str := regionsLoopC s (sortStrs (s.regions.map (·.id)))

/-- over the identifiers of entries that look themselves up the loop is the model's -/
theorem regionsLoopC_eq (s : Subs) : ∀ (ds : List Def), (∀ d ∈ ds, lookupDef s.regions d.id = some d) →
    regionsLoopC s (ds.map (·.id)) = .ok ((ds.map (regionBytes s)).flatten) := by
  intro ds
  induction ds with
  | nil => intro _; rfl
  | cons d ds ih =>
    intro h
    rw [List.map_cons]
    unfold regionsLoopC
    rw [regionBytesC_eq s d.id d (h d (List.mem_cons_self ..)), ih (fun x hx => h x (List.mem_cons_of_mem _ hx))]
    rfl

/-- over identifiers that are keys of the map the loop never panics -/
theorem regionsLoopC_safe (s : Subs) : ∀ (ids : List Str), (∀ id ∈ ids, ∃ d, lookupDef s.regions id = some d) →
    ∃ r, regionsLoopC s ids = .ok r := by
  intro ids
  induction ids with
  | nil => intro _; exact ⟨[], rfl⟩
  | cons id ids ih =>
    intro h
    obtain ⟨d, hd⟩ := h id (List.mem_cons_self ..)
    obtain ⟨r, hr⟩ := ih (fun x hx => h x (List.mem_cons_of_mem _ hx))
    unfold regionsLoopC
    rw [regionBytesC_eq s id d hd, hr]
    exact ⟨_, rfl⟩

/-- **the regions part never panics and is the model's** (map invariant: one entry per identifier) -/
theorem regionsC_eq (s : Subs) (hu : UniqueIds s.regions) :
    regionsC s = .ok (((sortDefs s.regions).map (regionBytes s)).flatten) := by
  have hm : ∀ d ∈ sortDefs s.regions, lookupDef s.regions d.id = some d := by
    intro d hd
    unfold sortDefs at hd
    exact lookupDef_self _ hu d (List.mem_mergeSort.mp hd)
  unfold regionsC
  rw [sortStrs_ids]
  exact regionsLoopC_eq s (sortDefs s.regions) hm

/-- the look-up `s.Regions[id]` never misses (the identifiers were collected from the map), so the regions
    part never panics, invariant or not -/
theorem regionsC_safe (s : Subs) : ∃ r, regionsC s = .ok r := by
  unfold regionsC
  rw [sortStrs_ids]
  apply regionsLoopC_safe
  intro id hid
  obtain ⟨d, hd, rfl⟩ := List.mem_map.mp hid
  unfold sortDefs at hd
  exact lookupDef_hit _ d (List.mem_mergeSort.mp hd)

/-! ### (d) the cues loop -/

/-- `if item.Region != nil { … "region:" + item.Region.ID }`: the identifier written, if any -/
def regionIdC (p : Option Str) : Chk (Option Str) :=
  if p.isSome then do                                   -- item.Region != nil
    let id ← deref p                                    -- item.Region.ID
    pure (some id)
  else pure none

/-- the region setting never panics: the pointer is tested before `.ID` -/
theorem regionIdC_eq (p : Option Str) : regionIdC p = .ok p := by
  cases p <;> rfl

/-- the body of `for index, item := range s.Items` -/
def cueBytesC (s : Subs) (k : Nat) (it : CItem) : Chk Str := do
  let inl := orEmpty it.attrs                            -- item.InlineStyle, repaired when nil
  let sty := stylePtr s it.style                         -- item.Style
  let al ← fallbackC inl sty "WebVTTAlign"
  let ln ← fallbackC inl sty "WebVTTLine"
  let po ← fallbackC inl sty "WebVTTPosition"
  let rg ← regionIdC it.region
  let sz ← fallbackC inl sty "WebVTTSize"
  let ve ← fallbackC inl sty "WebVTTVertical"
  let ls ← linesC it.lines
  pure ((if it.comments.isEmpty then [] else "NOTE ".toList ++ (it.comments.map (· ++ ['\n'])).flatten ++ ['\n'])
    ++ itoaNat (k + 1) ++ ['\n']
    ++ Duration.formatVTT it.startAt ++ " --> ".toList ++ Duration.formatVTT it.endAt
    ++ setting "align:" al ++ setting "line:" ln ++ setting "position:" po ++ setting "region:" rg
    ++ setting "size:" sz ++ setting "vertical:" ve
    ++ ['\n'] ++ ls ++ ['\n'])

/-- **a cue never panics and is the model's `cueBytes`**: inline style nil or not, style pointer nil, dangling
    or not, region pointer nil or not, any lines -/
theorem cueBytesC_eq (s : Subs) (k : Nat) (it : CItem) : cueBytesC s k it = .ok (cueBytes s k it) := by
  unfold cueBytesC cueBytes
  simp only [ok_bind, fallbackC_eq, regionIdC_eq, linesC_eq]
  rfl

/-- the pinned body: `item.InlineStyle.X` without the repair -/
def cueBytesU (s : Subs) (k : Nat) (it : CItem) : Chk Str := do
  let inl := it.attrs
  let sty := stylePtr s it.style
  let al ← fallbackC inl sty "WebVTTAlign"
  let ln ← fallbackC inl sty "WebVTTLine"
  let po ← fallbackC inl sty "WebVTTPosition"
  let rg ← regionIdC it.region
  let sz ← fallbackC inl sty "WebVTTSize"
  let ve ← fallbackC inl sty "WebVTTVertical"
  let ls ← linesC it.lines
  pure ((if it.comments.isEmpty then [] else "NOTE ".toList ++ (it.comments.map (· ++ ['\n'])).flatten ++ ['\n'])
    ++ itoaNat (k + 1) ++ ['\n']
    ++ Duration.formatVTT it.startAt ++ " --> ".toList ++ Duration.formatVTT it.endAt
    ++ setting "align:" al ++ setting "line:" ln ++ setting "position:" po ++ setting "region:" rg
    ++ setting "size:" sz ++ setting "vertical:" ve
    ++ ['\n'] ++ ls ++ ['\n'])

/-- **without the repair every cue without inline style panics** -/
theorem cueBytesU_panics (s : Subs) (k : Nat) (it : CItem) (h : it.attrs = none) :
    cueBytesU s k it = .error .nilDeref := by
  unfold cueBytesU
  rw [h]
  rfl

/-- with an inline style the pinned body is the model's cue: the repair is the only difference -/
theorem cueBytesU_eq (s : Subs) (k : Nat) (it : CItem) (a : KV) (h : it.attrs = some a) :
    cueBytesU s k it = .ok (cueBytes s k it) := by
  unfold cueBytesU cueBytes
  have e : ∀ key, fallbackC it.attrs (stylePtr s it.style) key = .ok (fallback it.attrs (styleAttrs s it.style) key) := by
    intro key
    have := fallbackC_eq s it.attrs it.style key
    rwa [show orEmpty it.attrs = it.attrs from by rw [h]; rfl] at this
  simp only [e, ok_bind, regionIdC_eq, linesC_eq]
  rfl

/-- the region setting without `item.Region != nil` -/
def regionIdU (p : Option Str) : Chk (Option Str) := do
  let id ← deref p
  pure (some id)

/-- without the guard every cue without region panics -/
theorem regionIdU_panics : regionIdU none = .error .nilDeref := rfl

/-- `for index, item := range s.Items { … }` from index `k` on -/
def cuesLoopC (s : Subs) : Nat → List CItem → Chk Str
  | _, [] => pure []
  | k, it :: its => do
    let b ← cueBytesC s k it
    let r ← cuesLoopC s (k + 1) its
    pure (b ++ r)

/-- the cues loop never panics and is the model's -/
theorem cuesLoopC_eq (s : Subs) : ∀ (its : List CItem) (k : Nat),
    cuesLoopC s k its = .ok (((its.zipIdx k).map fun (it, k) => cueBytes s k it).flatten) := by
  intro its
  induction its with
  | nil => intro k; rfl
  | cons it its ih =>
    intro k
    unfold cuesLoopC
    rw [cueBytesC_eq, ih]
    rfl

/-! ### (e) `WriteToWebVTT` -/

/-- the buffer starts with the header, so it is not empty at the final `c = c[:len(c)-1]` -/
theorem buffer_ne_nil (s : Subs) (a b c d : Str) : header s ++ a ++ b ++ c ++ d ≠ [] :=
  List.append_ne_nil_of_left_ne_nil (List.append_ne_nil_of_left_ne_nil (List.append_ne_nil_of_left_ne_nil
    (List.append_ne_nil_of_left_ne_nil (header_ne_nil s) _) _) _) _

/-- `WriteToWebVTT`; `none` = `ErrNoSubtitlesToWrite` -/
def writeC (s : Subs) : Chk (Option Str) :=
  if s.items.isEmpty then pure none else do              -- len(s.Items) == 0
  let h ← headerC s
  let st ← styleLinesC s
  let rg ← regionsC s
  let cs ← cuesLoopC s 0 s.items
  let c := h
    ++ (if st.isEmpty then [] else "STYLE\n".toList ++ join ['\n'] st ++ "\n\n".toList)     -- len(style) > 0
    ++ rg
    ++ (if s.regions.isEmpty then [] else ['\n'])                                          -- len(s.Regions) > 0
    ++ cs
  let c ← slcToI c ((c.length : Int) - 1)                -- c = c[:len(c)-1]
  pure (some c)

/-- **`WriteToWebVTT` with every index, slice and nil site explicit never panics and is the model's
    writer**, for every document whose two maps have one entry per identifier: `none` metadata, no styles,
    no regions, `none` attributes on a region / cue / run / style, absent or dangling style references,
    empty lines and empty texts included -/
theorem writeC_eq (s : Subs) (hs : UniqueIds s.styles) (hr : UniqueIds s.regions) :
    writeC s = .ok (write s) := by
  unfold writeC write
  by_cases he : s.items.isEmpty = true
  · rw [if_pos he, if_pos he]
    rfl
  · rw [if_neg he, if_neg he, headerC_eq, styleLinesC_eq s hs, regionsC_eq s hr, cuesLoopC_eq]
    simp only [ok_bind]
    rw [slcToI_dropLast]
    · rfl
    · exact buffer_ne_nil s _ _ _ _

/-- **`WriteToWebVTT` never panics**, for every document (the invariant of the maps is not needed) -/
theorem writeC_safe (s : Subs) : ∃ o, writeC s = .ok o := by
  unfold writeC
  by_cases he : s.items.isEmpty = true
  · rw [if_pos he]
    exact ⟨none, rfl⟩
  · obtain ⟨st, hst⟩ := styleLinesC_safe s
    obtain ⟨rg, hrg⟩ := regionsC_safe s
    rw [if_neg he, headerC_eq, hst, hrg, cuesLoopC_eq]
    simp only [ok_bind]
    rw [slcToI_dropLast]
    · exact ⟨_, rfl⟩
    · exact buffer_ne_nil s _ _ _ _

/-- in the `Chk.safe` form -/
theorem writeC_safe' (s : Subs) : (writeC s).safe = true := by
  obtain ⟨o, h⟩ := writeC_safe s
  exact safe_of_eq_ok h

/-- the writer refuses exactly the empty cue list -/
theorem writeC_none_iff (s : Subs) : writeC s = .ok none ↔ s.items = [] := by
  constructor
  · intro h
    by_cases he : s.items.isEmpty = true
    · exact List.isEmpty_iff.mp he
    · exfalso
      obtain ⟨st, hst⟩ := styleLinesC_safe s
      obtain ⟨rg, hrg⟩ := regionsC_safe s
      unfold writeC at h
      rw [if_neg he, headerC_eq, hst, hrg, cuesLoopC_eq] at h
      simp only [ok_bind] at h
      rw [slcToI_dropLast _ (buffer_ne_nil s _ _ _ _)] at h
      cases h
  · intro h
    unfold writeC
    rw [h]
    rfl

/-! ### the pinned writer as a whole

The pinned `WriteToWebVTT` (before "WebVTT writer sorts STYLE blocks by style id and tolerates nil inline
styles") read `st.InlineStyle.WebVTTStyles`, `s.Regions[id].InlineStyle.X` and `item.InlineStyle.X` without
testing the pointer.  Its only panics are nil dereferences, so it is enough that one stage meets one. -/

/-- a computation whose only possible panic is the nil dereference -/
def NilOnly {α} (c : Chk α) : Prop := (∃ a, c = .ok a) ∨ c = .error .nilDeref

/-- sequencing keeps the property -/
theorem nilOnly_bind {α β} {c : Chk α} {f : α → Chk β} (hc : NilOnly c) (hf : ∀ a, NilOnly (f a)) :
    NilOnly (c >>= f) := by
  rcases hc with ⟨a, rfl⟩ | rfl
  · exact hf a
  · exact Or.inr rfl

/-- a later stage that always panics makes the whole panic, when the earlier one can only panic the same way -/
theorem bind_panics_later {α β} {c : Chk α} {f : α → Chk β} (hc : NilOnly c)
    (hf : ∀ a, f a = .error .nilDeref) : (c >>= f) = .error .nilDeref := by
  rcases hc with ⟨a, rfl⟩ | rfl
  · exact hf a
  · rfl

/-- the pinned styles loop can only panic on a nil pointer -/
theorem styleLoopU_nilOnly (s : Subs) : ∀ (ids : List Str), NilOnly (styleLoopU s ids) := by
  intro ids
  induction ids with
  | nil => exact Or.inl ⟨_, rfl⟩
  | cons id ids ih =>
    unfold styleLoopU
    exact nilOnly_bind (styleOneU_cases s id) (fun _ => nilOnly_bind ih (fun _ => Or.inl ⟨_, rfl⟩))

/-- the pinned body of the regions loop behind the look-up -/
def regionOneU (s : Subs) (id : Str) : Chk Str := do
  let r ← deref (lookupDef s.regions id)
  regionBytesU s r

/-- the pinned regions loop -/
def regionsLoopU (s : Subs) : List Str → Chk Str
  | [] => pure []
  | id :: ids => do
    let b ← regionOneU s id
    let r ← regionsLoopU s ids
    pure (b ++ r)

/-- a pinned region line can only panic on a nil pointer -/
theorem regionOneU_nilOnly (s : Subs) (id : Str) : NilOnly (regionOneU s id) := by
  unfold regionOneU
  cases lookupDef s.regions id with
  | none => exact Or.inr rfl
  | some d =>
    cases hd : d.attrs with
    | none => exact Or.inr (regionBytesU_panics s d hd)
    | some a => exact Or.inl ⟨_, regionBytesU_eq s d a hd⟩

/-- the pinned regions loop can only panic on a nil pointer -/
theorem regionsLoopU_nilOnly (s : Subs) : ∀ (ids : List Str), NilOnly (regionsLoopU s ids) := by
  intro ids
  induction ids with
  | nil => exact Or.inl ⟨_, rfl⟩
  | cons id ids ih =>
    unfold regionsLoopU
    exact nilOnly_bind (regionOneU_nilOnly s id) (fun _ => nilOnly_bind ih (fun _ => Or.inl ⟨_, rfl⟩))

/-- the pinned regions loop panics as soon as one region of the list has no inline style -/
theorem regionsLoopU_panics (s : Subs) : ∀ (ids : List Str),
    (∃ id ∈ ids, ∃ d, lookupDef s.regions id = some d ∧ d.attrs = none) → regionsLoopU s ids = .error .nilDeref := by
  intro ids
  induction ids with
  | nil => intro ⟨_, h, _⟩; cases h
  | cons id ids ih =>
    intro ⟨id', hm, d, hl, hd⟩
    unfold regionsLoopU
    rcases List.mem_cons.mp hm with h | h
    · subst h
      have : regionOneU s id' = .error .nilDeref := by
        unfold regionOneU
        rw [hl]
        exact regionBytesU_panics s d hd
      rw [this]
      rfl
    · refine bind_panics_later (regionOneU_nilOnly s id) (fun _ => ?_)
      rw [ih ⟨id', h, d, hl, hd⟩]
      rfl

/-- the pinned cues loop -/
def cuesLoopU (s : Subs) : Nat → List CItem → Chk Str
  | _, [] => pure []
  | k, it :: its => do
    let b ← cueBytesU s k it
    let r ← cuesLoopU s (k + 1) its
    pure (b ++ r)

/-- a pinned cue can only panic on a nil pointer -/
theorem cueBytesU_nilOnly (s : Subs) (k : Nat) (it : CItem) : NilOnly (cueBytesU s k it) := by
  cases h : it.attrs with
  | none => exact Or.inr (cueBytesU_panics s k it h)
  | some a => exact Or.inl ⟨_, cueBytesU_eq s k it a h⟩

/-- the pinned cues loop panics as soon as one cue has no inline style -/
theorem cuesLoopU_panics (s : Subs) : ∀ (its : List CItem) (k : Nat),
    (∃ it ∈ its, it.attrs = none) → cuesLoopU s k its = .error .nilDeref := by
  intro its
  induction its with
  | nil => intro _ ⟨_, h, _⟩; cases h
  | cons it its ih =>
    intro k ⟨it', hm, hn⟩
    unfold cuesLoopU
    rcases List.mem_cons.mp hm with h | h
    · subst h
      rw [cueBytesU_panics s k it' hn]
      rfl
    · refine bind_panics_later (cueBytesU_nilOnly s k it) (fun _ => ?_)
      rw [ih (k + 1) ⟨it', h, hn⟩]
      rfl

/-- the pinned `WriteToWebVTT`, as far as its pointers go (the styles are taken in identifier order here
    too: the order does not matter for the panics) -/
def writeU (s : Subs) : Chk (Option Str) :=
  if s.items.isEmpty then pure none else do
  let h ← headerC s
  let st ← styleLoopU s (sortStrs (s.styles.map (·.id)))
  let rg ← regionsLoopU s (sortStrs (s.regions.map (·.id)))
  let cs ← cuesLoopU s 0 s.items
  let c := h
    ++ (if st.isEmpty then [] else "STYLE\n".toList ++ join ['\n'] st ++ "\n\n".toList)
    ++ rg
    ++ (if s.regions.isEmpty then [] else ['\n'])
    ++ cs
  let c ← slcToI c ((c.length : Int) - 1)
  pure (some c)

/-- **the pinned writer panics on every document one of whose cues has no inline style** -/
theorem writeU_panics_cue (s : Subs) (h : ∃ it ∈ s.items, it.attrs = none) : writeU s = .error .nilDeref := by
  have hne : ¬ s.items.isEmpty = true := by
    obtain ⟨it, hm, _⟩ := h
    intro he
    rw [List.isEmpty_iff.mp he] at hm
    cases hm
  unfold writeU
  rw [if_neg hne, headerC_eq]
  simp only [ok_bind]
  refine bind_panics_later (styleLoopU_nilOnly s _) (fun _ => ?_)
  refine bind_panics_later (regionsLoopU_nilOnly s _) (fun _ => ?_)
  rw [cuesLoopU_panics s s.items 0 h]
  rfl

/-- a key of the map is among the sorted identifiers -/
theorem mem_sortStrs_ids (m : List Def) (d : Def) (hd : d ∈ m) : d.id ∈ sortStrs (m.map (·.id)) := by
  unfold sortStrs
  exact List.mem_mergeSort.mpr (List.mem_map_of_mem hd)

/-- **the pinned writer panics on every non-empty document one of whose regions has no inline style** -/
theorem writeU_panics_region (s : Subs) (hi : s.items ≠ []) (hu : UniqueIds s.regions)
    (h : ∃ d ∈ s.regions, d.attrs = none) : writeU s = .error .nilDeref := by
  obtain ⟨d, hd, hn⟩ := h
  unfold writeU
  rw [if_neg (fun he => hi (List.isEmpty_iff.mp he)), headerC_eq]
  simp only [ok_bind]
  refine bind_panics_later (styleLoopU_nilOnly s _) (fun _ => ?_)
  rw [regionsLoopU_panics s _ ⟨d.id, mem_sortStrs_ids _ d hd, d, lookupDef_self _ hu d hd, hn⟩]
  rfl

/-- **the pinned writer panics on every non-empty document one of whose styles has no inline style** -/
theorem writeU_panics_style (s : Subs) (hi : s.items ≠ []) (hu : UniqueIds s.styles)
    (h : ∃ d ∈ s.styles, d.attrs = none) : writeU s = .error .nilDeref := by
  obtain ⟨d, hd, hn⟩ := h
  unfold writeU
  rw [if_neg (fun he => hi (List.isEmpty_iff.mp he)), headerC_eq]
  simp only [ok_bind]
  rw [styleLoopU_panics s _ ⟨d.id, mem_sortStrs_ids _ d hd, d, lookupDef_self _ hu d hd, hn⟩]
  rfl

/-! ### non-vacuity: a document with every optional part absent -/

/-- no metadata; a region and a style without inline style; a cue without inline style, style or region -/
def sNil : Subs :=
  { items := [{ startAt := 0, endAt := 1000000000, lines := [{ items := [{ text := "a".toList }] }] }],
    regions := [{ id := "r".toList }], styles := [{ id := "s".toList }], metadata := none }

/-- its cue -/
def cNil : CItem := { startAt := 0, endAt := 1000000000, lines := [{ items := [{ text := "a".toList }] }] }

example : headerC sNil = .ok "WEBVTT\n\n".toList := rfl
example : headerU sNil = .error .nilDeref := rfl
example : styleOneC sNil "s".toList = .ok [] := rfl
example : styleOneU sNil "s".toList = .error .nilDeref := rfl
example : regionBytesC sNil "r".toList = .ok "Region: id=r\n".toList := rfl
example : regionBytesU sNil { id := "r".toList } = .error .nilDeref := rfl
example : regionBytesC sNil "q".toList = .error .nilDeref := rfl
example : cueBytesU sNil 0 cNil = .error .nilDeref := rfl
example : cueBytesC sNil 0 cNil = .ok "1\n00:00:00.000 --> 00:00:01.000\na\n\n".toList := rfl
example : writeC sNil = .ok (some "WEBVTT\n\nRegion: id=r\n\n1\n00:00:00.000 --> 00:00:01.000\na\n".toList) := by
  have hs : styleLinesC sNil = .ok [] := by
    unfold styleLinesC sortStrs
    rw [show sNil.styles.map (·.id) = ["s".toList] from rfl, List.mergeSort_singleton]
    rfl
  have hr : regionsC sNil = .ok "Region: id=r\n".toList := by
    unfold regionsC sortStrs
    rw [show sNil.regions.map (·.id) = ["r".toList] from rfl, List.mergeSort_singleton]
    rfl
  unfold writeC
  rw [hs, hr]
  rfl
example : writeU sNil = .error .nilDeref := writeU_panics_cue sNil ⟨_, List.mem_cons_self .., rfl⟩
example : writeU sNil = .error .nilDeref :=
  writeU_panics_region sNil (by decide) (by decide) ⟨_, List.mem_cons_self .., rfl⟩
example : writeU sNil = .error .nilDeref :=
  writeU_panics_style sNil (by decide) (by decide) ⟨_, List.mem_cons_self .., rfl⟩

/-- tags shared with a neighbour are neither re-opened nor closed early; the index loops stay in range -/
example : lineBytesC { items := [{ text := "A".toList, attrs := some [("WebVTTTags".toList, "b|i".toList)] },
                                 { text := "B".toList, attrs := some [("WebVTTTags".toList, "b".toList)] },
                                 { text := "C".toList }] }
    = .ok "<b><i>A</i>B</b>C\n".toList := rfl

/-- the empty line and the line of one empty text -/
example : lineBytesC { items := [] } = .ok "\n".toList := rfl
example : lineBytesC { items := [{ text := [] }] } = .ok "\n".toList := rfl

/-- a bound larger than the stack: slicing at the previous run's stack length panics -/
example : opensU (some { text := [], attrs := some [("WebVTTTags".toList, "b|i".toList)] })
    { text := [], attrs := some [("WebVTTTags".toList, "b".toList)] } = .error .slice := rfl

/-- an absent and a dangling style reference, a reference to a style without inline style, and one that
    supplies the setting -/
def sRef : Subs :=
  { items := [cNil],
    styles := [{ id := "s".toList }, { id := "t".toList, attrs := some [("WebVTTAlign".toList, "left".toList)] }] }

example : cueBytesC sRef 0 { cNil with style := some "nope".toList } = cueBytesC sRef 0 cNil := rfl
example : cueBytesC sRef 0 { cNil with style := some "s".toList } = cueBytesC sRef 0 cNil := rfl
example : cueBytesC sRef 0 { cNil with style := some "t".toList }
    = .ok "1\n00:00:00.000 --> 00:00:01.000 align:left\na\n\n".toList := rfl
example : cueBytesC sRef 0 { cNil with region := some "r".toList }
    = .ok "1\n00:00:00.000 --> 00:00:01.000 region:r\na\n\n".toList := rfl

/-- the invariant of the maps is satisfiable, and it is needed for the *value* (not for safety): on a list
    with a repeated identifier — not a Go map — the look-up by identifier finds the first entry twice -/
example : UniqueIds sRef.styles := by decide
example : UniqueIds sNil.regions := by decide

/-- a list of regions that is not a map -/
def sDup : Subs :=
  { items := [cNil],
    regions := [{ id := "r".toList, attrs := some [("WebVTTWidth".toList, "40%".toList)] }, { id := "r".toList }] }

example : ¬ UniqueIds sDup.regions := by decide
example : regionsLoopC sDup (sDup.regions.map (·.id)) = .ok "Region: id=r width=40%\nRegion: id=r width=40%\n".toList := rfl
example : (sDup.regions.map (regionBytes sDup)).flatten = "Region: id=r width=40%\nRegion: id=r\n".toList := rfl
example : (writeC sDup).safe = true := writeC_safe' sDup

end VTTW

end Tot
end Astisub
