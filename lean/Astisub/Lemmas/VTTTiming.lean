import Astisub.Model.VTT
import Astisub.Props.C16
import Astisub.Lemmas.Str

/-!
# Lemmas/VTTTiming — the WebVTT cue timing line and cue number line, written then read

`step_timing`: the timing line `WriteToWebVTT` emits for a cue (any subset of the six cue settings)
is read by one iteration of the reader's loop as a new cue with the same instants (truncated to the
millisecond) and the same settings.  `step_number`: the cue number line sets the pending index.
-/

namespace Astisub
namespace VTT
open Go

/-! ### general string lemmas -/

theorem dropWhile_noSpace {l : Str} (hl : ∀ c ∈ l, isSpace c = false) : l.dropWhile isSpace = l := by
  cases l with
  | nil => rfl
  | cons x xs => simp [List.dropWhile, hl x (by simp)]

/-- `TrimSpace` is the identity on a string whose first and last characters are not spaces -/
theorem trimSpace_ends (x c : Char) (m : Str) (hx : isSpace x = false) (hc : isSpace c = false) :
    trimSpace (x :: (m ++ [c])) = x :: (m ++ [c]) := by
  unfold trimSpace trimRight trimLeft
  have h1 : (x :: (m ++ [c])).dropWhile isSpace = x :: (m ++ [c]) := by simp [hx]
  rw [h1]
  have h2 : (x :: (m ++ [c])).reverse = c :: (m.reverse ++ [x]) := by simp
  rw [h2]
  simp [List.dropWhile, hc]

/-- a trailing blank after a space-free string is trimmed away -/
theorem trimSpace_trailing {s : Str} (h : ∀ c ∈ s, isSpace c = false) : trimSpace (s ++ [' ']) = s := by
  unfold trimSpace trimRight trimLeft
  have hsp : isSpace ' ' = true := by decide
  cases s with
  | nil => simp [List.dropWhile, hsp]
  | cons x xs =>
    have hx : isSpace x = false := h x (by simp)
    have h1 : (x :: xs ++ [' ']).dropWhile isSpace = x :: xs ++ [' '] := by simp [hx]
    rw [h1]
    have h2 : (x :: xs ++ [' ']).reverse = ' ' :: (x :: xs).reverse := by simp
    rw [h2]
    have h3 : (' ' :: (x :: xs).reverse).dropWhile isSpace = (x :: xs).reverse.dropWhile isSpace := by
      simp [List.dropWhile, hsp]
    rw [h3, dropWhile_noSpace (by intro c hc; exact h c (List.mem_reverse.mp hc))]
    simp

theorem dropPrefix?_append (p b : Str) : dropPrefix? p (p ++ b) = some b := by
  induction p with
  | nil => cases b <;> rfl
  | cons x xs ih => simp [dropPrefix?, ih]

theorem dropPrefix?_some {p s r : Str} (h : dropPrefix? p s = some r) : s = p ++ r := by
  induction p generalizing s with
  | nil => cases s <;> simp_all [dropPrefix?]
  | cons x xs ih =>
    cases s with
    | nil => simp [dropPrefix?] at h
    | cons y ys =>
      simp only [dropPrefix?] at h
      by_cases e : x = y
      · subst e; simp only [↓reduceIte] at h; rw [ih h]; rfl
      · simp [e] at h

theorem dropPrefix?_ne {p x : Char} (ps xs : Str) (h : p ≠ x) : dropPrefix? (p :: ps) (x :: xs) = none := by
  simp [dropPrefix?, h]

theorem hasPrefix_ne {p x : Char} (ps xs : Str) (h : p ≠ x) : hasPrefix (p :: ps) (x :: xs) = false := by
  simp [hasPrefix, dropPrefix?_ne ps xs h]

theorem arrow_eq : arrow = ['-', '-', '>'] := rfl

theorem dropPrefix?_arrow_ne {x : Char} (xs : Str) (h : x ≠ '-') : dropPrefix? arrow (x :: xs) = none := by
  rw [arrow_eq]; exact dropPrefix?_ne _ _ (fun e => h e.symm)

theorem dropPrefix?_arrow_noGt {s : Str} (h : '>' ∉ s) : dropPrefix? arrow s = none := by
  cases hd : dropPrefix? arrow s with
  | none => rfl
  | some r =>
    have := dropPrefix?_some hd
    exact absurd (by rw [this, arrow_eq]; simp) h

theorem contains_append (sub a b : Str) (hne : sub ≠ []) : contains sub (a ++ sub ++ b) = true := by
  induction a with
  | nil =>
    cases sub with
    | nil => exact absurd rfl hne
    | cons y ys =>
      show contains (y :: ys) (y :: (ys ++ b)) = true
      unfold contains
      have : hasPrefix (y :: ys) (y :: (ys ++ b)) = true := by
        have := dropPrefix?_append (y :: ys) b
        simp only [hasPrefix]; rw [show y :: (ys ++ b) = (y :: ys) ++ b from rfl, this]; rfl
      simp [this]
  | cons x xs ih =>
    show contains sub (x :: (xs ++ sub ++ b)) = true
    unfold contains
    rw [ih]; simp

theorem contains_arrow_false {s : Str} (h : ∀ c ∈ s, c ≠ '-') : contains arrow s = false := by
  induction s with
  | nil => rfl
  | cons x xs ih =>
    unfold contains
    have h1 : hasPrefix arrow (x :: xs) = false := by
      simp [hasPrefix, dropPrefix?_arrow_ne xs (h x (by simp))]
    simp [h1, ih (fun c hc => h c (by simp [hc]))]

theorem splitOnAux_some (sep : Str) (f : Nat) (x : Char) (xs acc rest : Str)
    (h : dropPrefix? sep (x :: xs) = some rest) :
    splitOnAux sep (f + 1) (x :: xs) acc = acc.reverse :: splitOnAux sep f rest [] := by
  rw [splitOnAux, h]

theorem splitOnAux_none (sep : Str) (f : Nat) (x : Char) (xs acc : Str)
    (h : dropPrefix? sep (x :: xs) = none) :
    splitOnAux sep (f + 1) (x :: xs) acc = splitOnAux sep f xs (x :: acc) := by
  rw [splitOnAux, h]

theorem splitOnAux_arrow_first (a b : Str) (h : ∀ c ∈ a, c ≠ '-') (f : Nat) (acc : Str) :
    splitOnAux arrow (a.length + 1 + f) (a ++ arrow ++ b) acc
      = (acc.reverse ++ a) :: splitOnAux arrow f b [] := by
  induction a generalizing acc with
  | nil =>
    have e : ([] : Str).length + 1 + f = f + 1 := by simp; omega
    rw [e]
    show splitOnAux arrow (f + 1) ('-' :: ('-' :: '>' :: b)) acc = _
    have hd : dropPrefix? arrow ('-' :: '-' :: '>' :: b) = some b := by simp [arrow_eq, dropPrefix?]
    rw [splitOnAux_some _ _ _ _ _ b hd]
    simp
  | cons x xs ih =>
    have e : (x :: xs).length + 1 + f = (xs.length + 1 + f) + 1 := by simp; omega
    rw [e]
    show splitOnAux arrow ((xs.length + 1 + f) + 1) (x :: (xs ++ arrow ++ b)) acc = _
    rw [splitOnAux_none _ _ _ _ _ (dropPrefix?_arrow_ne _ (h x (by simp)))]
    rw [ih (fun c hc => h c (by simp [hc]))]
    simp

theorem splitOnAux_arrow_last (b : Str) (h : '>' ∉ b) (f : Nat) (hf : b.length ≤ f) (acc : Str) :
    splitOnAux arrow f b acc = [acc.reverse ++ b] := by
  induction b generalizing f acc with
  | nil => cases f <;> simp [splitOnAux]
  | cons x xs ih =>
    cases f with
    | zero => simp at hf
    | succ f =>
      rw [splitOnAux_none _ _ _ _ _ (dropPrefix?_arrow_noGt h)]
      rw [ih (fun hc => h (by simp [hc])) f (by simpa using hf)]
      simp

/-- the arrow splits the line in exactly two -/
theorem splitOn_arrow (a b : Str) (ha : ∀ c ∈ a, c ≠ '-') (hb : '>' ∉ b) :
    splitOn arrow (a ++ arrow ++ b) = [a, b] := by
  unfold splitOn
  have e : (a ++ arrow ++ b).length + 1 = a.length + 1 + (b.length + 3) := by
    simp [arrow_eq]; omega
  have hne : arrow.isEmpty = false := rfl
  rw [e, hne]
  simp only [Bool.false_eq_true, ↓reduceIte]
  rw [splitOnAux_arrow_first a b ha, splitOnAux_arrow_last b hb _ (by omega)]
  simp

/-! ### `strings.Fields` on words each preceded by one blank -/

/-- the words, each preceded by one blank -/
def spaced (ws : List Str) : Str := (ws.map (' ' :: ·)).flatten

theorem spaced_nil : spaced [] = [] := rfl
theorem spaced_cons (w : Str) (ws : List Str) : spaced (w :: ws) = ' ' :: w ++ spaced ws := rfl
theorem spaced_append (a b : List Str) : spaced (a ++ b) = spaced a ++ spaced b := by
  simp [spaced]

/-- a word `strings.Fields` gives back: non-empty and free of white space -/
def WordOk (w : Str) : Prop := w ≠ [] ∧ ∀ c ∈ w, isSpace c = false

theorem fieldsAux_word (w rest acc : Str) (h : ∀ c ∈ w, isSpace c = false) :
    fieldsAux (w ++ rest) acc = fieldsAux rest (w.reverse ++ acc) := by
  induction w generalizing acc with
  | nil => rfl
  | cons x xs ih =>
    show fieldsAux (x :: (xs ++ rest)) acc = _
    rw [fieldsAux]
    simp only [h x (by simp), Bool.false_eq_true, ↓reduceIte]
    rw [ih _ (fun c hc => h c (by simp [hc]))]
    simp

theorem fieldsAux_blank_nil (xs : Str) : fieldsAux (' ' :: xs) [] = fieldsAux xs [] := by
  rw [fieldsAux]
  have hsp : isSpace ' ' = true := by decide
  simp [hsp]

theorem fieldsAux_blank_acc (xs acc : Str) (h : acc ≠ []) :
    fieldsAux (' ' :: xs) acc = acc.reverse :: fieldsAux xs [] := by
  rw [fieldsAux]
  have hsp : isSpace ' ' = true := by decide
  have : acc.isEmpty = false := by cases acc <;> simp_all
  simp [hsp, this]

theorem fieldsAux_end (acc : Str) (h : acc ≠ []) : fieldsAux [] acc = [acc.reverse] := by
  rw [fieldsAux]
  have : acc.isEmpty = false := by cases acc <;> simp_all
  simp [this]

theorem fields_spaced (ws : List Str) (h : ∀ w ∈ ws, WordOk w) : fields (spaced ws) = ws := by
  unfold fields
  induction ws with
  | nil => rfl
  | cons w ws ih =>
    have hw := h w (by simp)
    have hr : w.reverse ≠ [] := by simpa using hw.1
    rw [spaced_cons]
    show fieldsAux (' ' :: (w ++ spaced ws)) [] = _
    rw [fieldsAux_blank_nil, fieldsAux_word _ _ _ hw.2]
    simp only [List.append_nil]
    have ih' := ih (fun w' hw' => h w' (by simp [hw']))
    cases ws with
    | nil => rw [spaced_nil, fieldsAux_end _ hr]; simp
    | cons w' ws' =>
      rw [spaced_cons] at ih' ⊢
      have e : ' ' :: w' ++ spaced ws' = ' ' :: (w' ++ spaced ws') := rfl
      rw [e] at ih' ⊢
      rw [fieldsAux_blank_nil] at ih'
      rw [fieldsAux_blank_acc _ _ hr, ih']
      simp

/-- the last character of a non-empty list of words is not a space -/
theorem spaced_last (ws : List Str) (hne : ws ≠ []) (h : ∀ w ∈ ws, WordOk w) :
    ∃ pre c, spaced ws = pre ++ [c] ∧ isSpace c = false := by
  induction ws with
  | nil => exact absurd rfl hne
  | cons w ws ih =>
    cases ws with
    | nil =>
      have hw := h w (by simp)
      have hne' : w ≠ [] := hw.1
      refine ⟨' ' :: w.dropLast, w.getLast hne', ?_, hw.2 _ (List.getLast_mem hne')⟩
      rw [spaced_cons, spaced_nil]
      simp [List.dropLast_concat_getLast]
    | cons w' ws' =>
      obtain ⟨pre, c, hp, hc⟩ := ih (by simp) (fun x hx => h x (by simp [hx]))
      refine ⟨' ' :: w ++ pre, c, ?_, hc⟩
      rw [spaced_cons, hp]; simp

/-! ### the rendering of an instant: characters, digit groups, parse with a trailing blank -/

theorem isDig_digitChar {k : Nat} (h : k < 10) : isDig (digitChar k) = true := by
  rcases digitChar_lt h with h|h|h|h|h|h|h|h|h|h <;> subst h <;> decide

/-- a character of a rendered instant: digit, `:` or `.` -/
def timeChar (c : Char) : Bool := isDig c || c == ':' || c == '.'

theorem timeChar_digit {k : Nat} (h : k < 10) : timeChar (digitChar k) = true := by
  simp [timeChar, isDig_digitChar h]

theorem timeChar_noSpace {c : Char} (h : timeChar c = true) : isSpace c = false := by
  cases hs : isSpace c with
  | false => rfl
  | true =>
    exfalso
    simp only [timeChar, isDig, Bool.or_eq_true, Bool.and_eq_true, decide_eq_true_eq, beq_iff_eq] at h
    rcases h with (⟨h1, h2⟩ | rfl) | rfl
    · have a1 : 48 ≤ c.toNat := h1
      have a2 : c.toNat ≤ 57 := h2
      simp only [isSpace, Bool.or_eq_true, Bool.and_eq_true, decide_eq_true_eq, beq_iff_eq] at hs
      omega
    · exact absurd hs (by decide)
    · exact absurd hs (by decide)

theorem timeChar_ne_minus {c : Char} (h : timeChar c = true) : c ≠ '-' := by
  intro e; subst e; exact absurd h (by decide)

theorem timeChar_ne_gt {c : Char} (h : timeChar c = true) : c ≠ '>' := by
  intro e; subst e; exact absurd h (by decide)

theorem timeChar_canon3 (h m s f : Nat) (hh : h < 100) (hm : m < 100) (hs : s < 100) (hf : f < 1000) :
    ∀ c ∈ C16.canon3 h m s f '.', timeChar c = true := by
  intro c hc
  have d : ∀ {v : Nat}, v < 10 → timeChar (digitChar v) = true := fun hv => timeChar_digit hv
  simp only [C16.canon3, dd, ddd, List.cons_append, List.nil_append, List.mem_cons, List.not_mem_nil, or_false] at hc
  rcases hc with rfl|rfl|rfl|rfl|rfl|rfl|rfl|rfl|rfl|rfl|rfl|rfl
  · exact d (by omega)
  · exact d (by omega)
  · decide
  · exact d (by omega)
  · exact d (by omega)
  · decide
  · exact d (by omega)
  · exact d (by omega)
  · decide
  · exact d (by omega)
  · exact d (by omega)
  · exact d (by omega)

theorem canon3_head (h m s f : Nat) :
    C16.canon3 h m s f '.' = digitChar (h / 10) :: (digitChar (h % 10) :: ':' :: dd m ++ ':' :: dd s ++ '.' :: ddd f) := rfl

theorem smallNumbers_canon3 (h m s f : Nat) (hh : h < 100) (hm : m < 100) (hs : s < 100) (hf : f < 1000)
    (tl : Str) (htl : tl = [] ∨ tl = [' ']) :
    smallNumbers (C16.canon3 h m s f '.' ++ tl) = true := by
  have d1 := isDig_digitChar (show h / 10 < 10 by omega)
  have d2 := isDig_digitChar (show h % 10 < 10 by omega)
  have d3 := isDig_digitChar (show m / 10 < 10 by omega)
  have d4 := isDig_digitChar (show m % 10 < 10 by omega)
  have d5 := isDig_digitChar (show s / 10 < 10 by omega)
  have d6 := isDig_digitChar (show s % 10 < 10 by omega)
  have d7 := isDig_digitChar (show f / 100 < 10 by omega)
  have d8 := isDig_digitChar (show f / 10 % 10 < 10 by omega)
  have d9 := isDig_digitChar (show f % 10 < 10 by omega)
  have c1 : isDig ':' = false := by decide
  have c2 : isDig '.' = false := by decide
  have c3 : isDig ' ' = false := by decide
  rcases htl with rfl | rfl <;>
    simp [smallNumbers, smallNumbers.go, C16.canon3, dd, ddd, d1, d2, d3, d4, d5, d6, d7, d8, d9, c1, c2, c3]

/-- the start time is handed to `parseDuration` with the blank that precedes the arrow -/
theorem parse_canon3_blank (h m s f : Nat) (hh : h < 100) (hm : m < 100) (hs : s < 100) (hf : f < 1000) :
    Duration.parseVTT (C16.canon3 h m s f '.' ++ [' '])
      = some ((f : Int) * Duration.nsPerMs + (s : Int) * Duration.nsPerS + (m : Int) * Duration.nsPerMin
              + (h : Int) * Duration.nsPerH) := by
  have hsepF : '.' ∉ ddd f ++ [' '] := by
    intro hc
    rcases List.mem_append.mp hc with hc | hc
    · exact (digitStr_ddd hf).not_mem (Or.inr (Or.inl rfl)) hc
    · exact absurd hc (by decide)
  unfold Duration.parseVTT Duration.parse C16.canon3
  rw [show dd h ++ ':' :: dd m ++ ':' :: dd s ++ '.' :: ddd f ++ [' ']
        = (dd h ++ ':' :: dd m ++ ':' :: dd s) ++ '.' :: (ddd f ++ [' ']) by simp]
  rw [splitC_append _ (C16.hms_not_mem h m s hh hm hs '.' (Or.inl rfl)), splitC_not_mem hsepF]
  simp only [List.length_cons, List.length_nil, ge_iff_le, Nat.le_refl, ↓reduceIte, List.getLast?_cons_cons,
    List.getLast?_singleton, Option.getD_some, List.dropLast_cons_cons, List.dropLast_singleton, join]
  rw [trimSpace_trailing (digitStr_ddd hf).noSpace, atoi_ddd hf]
  have hl : (ddd f).length = 3 := rfl
  simp only [hl, Nat.lt_irrefl, ↓reduceIte, Nat.sub_self, Int.pow_zero, Int.mul_one]
  rw [trimSpace_id (C16.hms_noSpace h m s hh hm hs), C16.hms_split h m s hh hm hs]
  simp only
  rw [trimSpace_id (digitStr_dd hs).noSpace, trimSpace_id (digitStr_dd hm).noSpace,
    trimSpace_id (digitStr_dd hh).noSpace, atoi_dd hs, atoi_dd hm, atoi_dd hh]
  have hl2 : (dd h).length = 2 := rfl
  simp [hl2]

/-! ### cue settings -/

/-- a value of a cue setting that survives the reader: non-empty, no white space, no `:` and no `>` -/
def settingVal (v : Str) : Bool := v != [] && v.all fun c => !(isSpace c || c == ':' || c == '>')
def optOk (o : Option Str) : Bool := match o with | none => true | some v => settingVal v

example : settingVal "line-left".toList = true := by decide
example : optOk (some "50%".toList) = true ∧ optOk none = true := by decide

theorem settingVal_spec {v : Str} (h : settingVal v = true) :
    v ≠ [] ∧ ∀ c ∈ v, isSpace c = false ∧ c ≠ ':' ∧ c ≠ '>' := by
  simp only [settingVal, Bool.and_eq_true, bne_iff_ne, ne_eq, List.all_eq_true, Bool.not_eq_true',
    Bool.or_eq_false_iff, beq_eq_false_iff_ne] at h
  exact ⟨h.1, fun c hc => ⟨(h.2 c hc).1.1, (h.2 c hc).1.2, (h.2 c hc).2⟩⟩

/-- the word a setting contributes to the timing line -/
def word (label : String) (o : Option Str) : List Str :=
  match o with
  | some v => [label.toList ++ v]
  | none => []

theorem setting_eq (label : String) (o : Option Str) : setting label o = spaced (word label o) := by
  cases o <;> simp [setting, word, spaced]

/-- a label of the writer: no white space, no `>` -/
def labelOk (label : String) : Bool := label.toList.all fun c => !(isSpace c || c == '>')

theorem word_ok (label : String) (hl : labelOk label = true) (o : Option Str) (ho : optOk o = true) :
    ∀ w ∈ word label o, WordOk w ∧ '>' ∉ w := by
  intro w hw
  cases o with
  | none => simp [word] at hw
  | some v =>
    simp only [word, List.mem_singleton] at hw
    subst hw
    obtain ⟨hne, hv⟩ := settingVal_spec ho
    simp only [labelOk, List.all_eq_true, Bool.not_eq_true', Bool.or_eq_false_iff, beq_eq_false_iff_ne] at hl
    refine ⟨⟨by simp [hne], ?_⟩, ?_⟩
    · intro c hc
      rcases List.mem_append.mp hc with hc | hc
      · exact (hl c hc).1
      · exact (hv c hc).1
    · intro hc
      rcases List.mem_append.mp hc with hc | hc
      · exact (hl _ hc).2 rfl
      · exact (hv _ hc).2.2 rfl

theorem splitC_word (key : Str) (v : Str) (hk : ':' ∉ key) (hv : ∀ c ∈ v, c ≠ ':') :
    splitC ':' (key ++ ':' :: v) = [key, v] := by
  rw [splitC_append _ hk, splitC_not_mem (fun hc => hv _ hc rfl)]

theorem settings_cons (regions : List Def) (key v : Str) (ps : List Str) (a : SetAcc)
    (hk : ':' ∉ key) (hv : ∀ c ∈ v, c ≠ ':') :
    settings regions ((key ++ ':' :: v) :: ps) a =
      (if key = "align".toList then settings regions ps { a with align := v }
       else if key = "line".toList then settings regions ps { a with line := v }
       else if key = "position".toList then settings regions ps { a with position := v }
       else if key = "region".toList then
         if regions.any (·.id = v) then settings regions ps { a with region := some v } else none
       else if key = "size".toList then settings regions ps { a with size := v }
       else if key = "vertical".toList then settings regions ps { a with vertical := v }
       else settings regions ps a) := by
  rw [settings, splitC_word key v hk hv]

theorem settings_align (regions : List Def) (o : Option Str) (ho : optOk o = true) (ps : List Str) (a : SetAcc) :
    settings regions (word "align:" o ++ ps) a = settings regions ps { a with align := o.getD a.align } := by
  cases o with
  | none => rfl
  | some v =>
    have hv := settingVal_spec ho
    show settings regions (("align".toList ++ ':' :: v) :: ps) a = _
    rw [settings_cons _ _ _ _ _ (by decide) (fun c hc => (hv.2 c hc).2.1)]
    rfl

theorem settings_line (regions : List Def) (o : Option Str) (ho : optOk o = true) (ps : List Str) (a : SetAcc) :
    settings regions (word "line:" o ++ ps) a = settings regions ps { a with line := o.getD a.line } := by
  cases o with
  | none => rfl
  | some v =>
    have hv := settingVal_spec ho
    show settings regions (("line".toList ++ ':' :: v) :: ps) a = _
    rw [settings_cons _ _ _ _ _ (by decide) (fun c hc => (hv.2 c hc).2.1)]
    rfl

theorem settings_position (regions : List Def) (o : Option Str) (ho : optOk o = true) (ps : List Str) (a : SetAcc) :
    settings regions (word "position:" o ++ ps) a = settings regions ps { a with position := o.getD a.position } := by
  cases o with
  | none => rfl
  | some v =>
    have hv := settingVal_spec ho
    show settings regions (("position".toList ++ ':' :: v) :: ps) a = _
    rw [settings_cons _ _ _ _ _ (by decide) (fun c hc => (hv.2 c hc).2.1)]
    rfl

theorem settings_size (regions : List Def) (o : Option Str) (ho : optOk o = true) (ps : List Str) (a : SetAcc) :
    settings regions (word "size:" o ++ ps) a = settings regions ps { a with size := o.getD a.size } := by
  cases o with
  | none => rfl
  | some v =>
    have hv := settingVal_spec ho
    show settings regions (("size".toList ++ ':' :: v) :: ps) a = _
    rw [settings_cons _ _ _ _ _ (by decide) (fun c hc => (hv.2 c hc).2.1)]
    rfl

theorem settings_vertical (regions : List Def) (o : Option Str) (ho : optOk o = true) (ps : List Str) (a : SetAcc) :
    settings regions (word "vertical:" o ++ ps) a = settings regions ps { a with vertical := o.getD a.vertical } := by
  cases o with
  | none => rfl
  | some v =>
    have hv := settingVal_spec ho
    show settings regions (("vertical".toList ++ ':' :: v) :: ps) a = _
    rw [settings_cons _ _ _ _ _ (by decide) (fun c hc => (hv.2 c hc).2.1)]
    rfl

theorem settings_region (regions : List Def) (o : Option Str) (ho : optOk o = true)
    (hdef : ∀ r, o = some r → regions.any (·.id = r) = true) (ps : List Str) (a : SetAcc) :
    settings regions (word "region:" o ++ ps) a
      = settings regions ps { a with region := match o with | some r => some r | none => a.region } := by
  cases o with
  | none => rfl
  | some v =>
    have hv := settingVal_spec ho
    show settings regions (("region".toList ++ ':' :: v) :: ps) a = _
    rw [settings_cons _ _ _ _ _ (by decide) (fun c hc => (hv.2 c hc).2.1)]
    have := hdef v rfl
    simp [this]

theorem optStr_getD (o : Option Str) (ho : optOk o = true) : optStr (o.getD []) = o := by
  cases o with
  | none => rfl
  | some v =>
    have hv := (settingVal_spec ho).1
    cases v with
    | nil => exact absurd rfl hv
    | cons x xs => rfl

/-- the six settings in the order of the writer -/
theorem settings_all (regions : List Def) (al ln po rg sz ve : Option Str)
    (hal : optOk al = true) (hln : optOk ln = true) (hpo : optOk po = true) (hrg : optOk rg = true)
    (hsz : optOk sz = true) (hve : optOk ve = true)
    (hdef : ∀ r, rg = some r → regions.any (·.id = r) = true) :
    settings regions (word "align:" al ++ (word "line:" ln ++ (word "position:" po ++ (word "region:" rg
        ++ (word "size:" sz ++ (word "vertical:" ve ++ [])))))) {}
      = some { align := al.getD [], line := ln.getD [], position := po.getD [], size := sz.getD [],
               vertical := ve.getD [], region := rg } := by
  rw [settings_align _ _ hal, settings_line _ _ hln, settings_position _ _ hpo, settings_region _ _ hrg hdef,
    settings_size _ _ hsz, settings_vertical _ _ hve]
  cases rg <;> rfl

/-! ### the reader's step on a line that starts with a digit -/

theorem isDig_ne {c : Char} (h : isDig c = true) (x : Char) (hx : isDig x = false) : x ≠ c := by
  intro e; subst e; rw [h] at hx; exact absurd hx (by decide)

theorem hasPrefix_digit (p : Char) (ps : Str) (c : Char) (tl : Str) (hc : isDig c = true)
    (hp : isDig p = false) : hasPrefix (p :: ps) (c :: tl) = false :=
  hasPrefix_ne ps tl (isDig_ne hc p hp)

/-- the tests of the reader's `switch` that precede the arrow test fail on a line starting with a digit -/
theorem digit_line_tests (c : Char) (tl : Str) (hc : isDig c = true) :
    (c :: tl = "NOTE".toList) = False ∧ hasPrefix "NOTE ".toList (c :: tl) = false ∧
    hasPrefix "Region: ".toList (c :: tl) = false ∧ hasPrefix "STYLE".toList (c :: tl) = false ∧
    hasPrefix "X-TIMESTAMP-MAP".toList (c :: tl) = false := by
  refine ⟨?_, ?_, ?_, ?_, ?_⟩
  · apply eq_false
    intro e
    have : c = 'N' := (List.cons.inj e).1
    exact isDig_ne hc 'N' (by decide) this.symm
  · exact hasPrefix_digit 'N' _ c tl hc (by decide)
  · exact hasPrefix_digit 'R' _ c tl hc (by decide)
  · exact hasPrefix_digit 'S' _ c tl hc (by decide)
  · exact hasPrefix_digit 'X' _ c tl hc (by decide)

/-- the arrow case of the reader's step, on an abstract line `left --> end words…` -/
theorem step_arrow (st : St) (c : Char) (tl left endTok : Str) (ws : List Str) (sv ev : Int) (a : SetAcc)
    (hline : c :: tl = left ++ arrow ++ spaced (endTok :: ws))
    (hc : isDig c = true)
    (htrim : trimSpace (c :: tl) = c :: tl)
    (hleft : ∀ x ∈ left, x ≠ '-')
    (hgt : '>' ∉ spaced (endTok :: ws))
    (hws : ∀ w ∈ endTok :: ws, WordOk w)
    (hsl : smallNumbers left = true) (hse : smallNumbers endTok = true)
    (hpl : Duration.parseVTT left = some sv) (hpe : Duration.parseVTT endTok = some ev)
    (hset : settings st.regions ws {} = some a) :
    step st (some (c :: tl)) =
      .ok { st with done := flush st,
                    cur := { index := st.index, startAt := sv, endAt := ev, region := a.region,
                             comments := st.comments, lines := [],
                             attrs := some (mkAttrs [("WebVTTAlign", optStr a.align), ("WebVTTLine", optStr a.line),
                                ("WebVTTPosition", optStr a.position), ("WebVTTSize", optStr a.size),
                                ("WebVTTVertical", optStr a.vertical)]) },
                    curListed := true, block := .text, index := 0, comments := [] } := by
  obtain ⟨t1, t2, t3, t4, _⟩ := digit_line_tests c tl hc
  have hcont : contains arrow (c :: tl) = true := by
    rw [hline]; exact contains_append _ _ _ (by decide)
  have hsplit : splitOn arrow (c :: tl) = [left, spaced (endTok :: ws)] := by
    rw [hline]; exact splitOn_arrow _ _ hleft hgt
  have hfields : fields (spaced (endTok :: ws)) = endTok :: ws := fields_spaced _ hws
  unfold step
  simp only [htrim, t1, t2, t3, t4, hcont, hsplit, hfields, hsl, hse, hpl, hpe, hset,
    Bool.or_self, Bool.and_false, Bool.false_eq_true, ↓reduceIte, reduceCtorEq, Bool.not_true,
    decide_false]

/-! ### the timing line -/

/-- the timing line of `cueBytes` -/
def timingLine (s e : Int) (al ln po rg sz ve : Option Str) : Str :=
  Duration.formatVTT s ++ " --> ".toList ++ Duration.formatVTT e
    ++ setting "align:" al ++ setting "line:" ln ++ setting "position:" po
    ++ setting "region:" rg ++ setting "size:" sz ++ setting "vertical:" ve

/-- the words of the settings in the order of the writer -/
def allWords (al ln po rg sz ve : Option Str) : List Str :=
  word "align:" al ++ (word "line:" ln ++ (word "position:" po ++ (word "region:" rg
    ++ (word "size:" sz ++ (word "vertical:" ve ++ [])))))

theorem timingLine_eq (s e : Int) (al ln po rg sz ve : Option Str) :
    timingLine s e al ln po rg sz ve
      = Duration.formatVTT s ++ [' '] ++ arrow ++ spaced (Duration.formatVTT e :: allWords al ln po rg sz ve) := by
  have e1 : " --> ".toList = [' '] ++ arrow ++ [' '] := rfl
  unfold timingLine allWords
  rw [e1]
  simp only [setting_eq, spaced_cons, spaced_append, List.append_assoc, List.cons_append,
    List.nil_append, List.append_nil]

theorem allWords_ok (al ln po rg sz ve : Option Str)
    (hal : optOk al = true) (hln : optOk ln = true) (hpo : optOk po = true) (hrg : optOk rg = true)
    (hsz : optOk sz = true) (hve : optOk ve = true) :
    ∀ w ∈ allWords al ln po rg sz ve, WordOk w ∧ '>' ∉ w := by
  intro w hw
  simp only [allWords, List.mem_append, List.not_mem_nil, or_false] at hw
  rcases hw with hw | hw | hw | hw | hw | hw
  · exact word_ok _ (by decide) _ hal w hw
  · exact word_ok _ (by decide) _ hln w hw
  · exact word_ok _ (by decide) _ hpo w hw
  · exact word_ok _ (by decide) _ hrg w hw
  · exact word_ok _ (by decide) _ hsz w hw
  · exact word_ok _ (by decide) _ hve w hw

theorem spaced_noGt (ws : List Str) (h : ∀ w ∈ ws, '>' ∉ w) : '>' ∉ spaced ws := by
  induction ws with
  | nil => simp [spaced_nil]
  | cons w ws ih =>
    rw [spaced_cons]
    intro hc
    have hc' : '>' ∈ ' ' :: (w ++ spaced ws) := hc
    rcases List.mem_cons.mp hc' with hc' | hc'
    · exact absurd hc' (by decide)
    · rcases List.mem_append.mp hc' with hc' | hc'
      · exact h w (by simp) hc'
      · exact ih (fun w' hw' => h w' (by simp [hw'])) hc'

theorem trimSpace_line (c : Char) (tlS m1 m2 : Str) (ws : List Str) (hc : isSpace c = false)
    (hne : ws ≠ []) (hws : ∀ w ∈ ws, WordOk w) :
    trimSpace ((c :: tlS) ++ m1 ++ m2 ++ spaced ws) = (c :: tlS) ++ m1 ++ m2 ++ spaced ws := by
  obtain ⟨pre, z, hp, hz⟩ := spaced_last ws hne hws
  have e : (c :: tlS) ++ m1 ++ m2 ++ spaced ws = c :: ((tlS ++ m1 ++ m2 ++ pre) ++ [z]) := by
    rw [hp]; simp
  rw [e]
  exact trimSpace_ends c z _ hc hz

/-- **Timing line.** whatever the state, the written timing line opens a new cue with the instants
    truncated to the millisecond and exactly the settings written -/
theorem step_timing (st : St) (s e : Int) (hs0 : 0 ≤ s) (hs1 : s < 360000000000000)
    (he0 : 0 ≤ e) (he1 : e < 360000000000000) (al ln po rg sz ve : Option Str)
    (hal : optOk al = true) (hln : optOk ln = true) (hpo : optOk po = true) (hrg : optOk rg = true)
    (hsz : optOk sz = true) (hve : optOk ve = true)
    (hdef : ∀ r, rg = some r → st.regions.any (·.id = r) = true) :
    step st (some (timingLine s e al ln po rg sz ve)) =
      .ok { st with done := flush st,
                    cur := { index := st.index, startAt := s - s % 1000000, endAt := e - e % 1000000,
                             region := rg, comments := st.comments, lines := [],
                             attrs := some (mkAttrs [("WebVTTAlign", al), ("WebVTTLine", ln), ("WebVTTPosition", po),
                                                     ("WebVTTSize", sz), ("WebVTTVertical", ve)]) },
                    curListed := true, block := .text, index := 0, comments := [] } := by
  obtain ⟨h1, m1, s1, f1, hh1, hm1, hs1', hf1, hfmt1, hval1⟩ := C16.format_shape3 s '.' hs0 hs1
  obtain ⟨h2, m2, s2, f2, hh2, hm2, hs2', hf2, hfmt2, hval2⟩ := C16.format_shape3 e '.' he0 he1
  have hF1 : Duration.formatVTT s = C16.canon3 h1 m1 s1 f1 '.' := hfmt1
  have hF2 : Duration.formatVTT e = C16.canon3 h2 m2 s2 f2 '.' := hfmt2
  have hm1' : m1 < 100 := by omega
  have hs1'' : s1 < 100 := by omega
  have hm2' : m2 < 100 := by omega
  have hs2'' : s2 < 100 := by omega
  have htc1 := timeChar_canon3 h1 m1 s1 f1 hh1 hm1' hs1'' hf1
  have htc2 := timeChar_canon3 h2 m2 s2 f2 hh2 hm2' hs2'' hf2
  have hwords := allWords_ok al ln po rg sz ve hal hln hpo hrg hsz hve
  have hFe : WordOk (C16.canon3 h2 m2 s2 f2 '.') ∧ '>' ∉ C16.canon3 h2 m2 s2 f2 '.' :=
    ⟨⟨by rw [canon3_head]; simp, fun c hc => timeChar_noSpace (htc2 c hc)⟩,
     fun hc => timeChar_ne_gt (htc2 _ hc) rfl⟩
  have hws : ∀ w ∈ C16.canon3 h2 m2 s2 f2 '.' :: allWords al ln po rg sz ve, WordOk w ∧ '>' ∉ w := by
    intro w hw
    rcases List.mem_cons.mp hw with rfl | hw
    · exact hFe
    · exact hwords w hw
  have hd : isDig (digitChar (h1 / 10)) = true := isDig_digitChar (by omega)
  rw [timingLine_eq, hF1, hF2]
  -- the line starts with a digit
  have hct : C16.canon3 h1 m1 s1 f1 '.' ++ [' '] ++ arrow
        ++ spaced (C16.canon3 h2 m2 s2 f2 '.' :: allWords al ln po rg sz ve)
      = digitChar (h1 / 10) :: ((digitChar (h1 % 10) :: ':' :: dd m1 ++ ':' :: dd s1 ++ '.' :: ddd f1) ++ [' '] ++ arrow
        ++ spaced (C16.canon3 h2 m2 s2 f2 '.' :: allWords al ln po rg sz ve)) := by
    rw [canon3_head h1 m1 s1 f1]; rfl
  have htrim : trimSpace (C16.canon3 h1 m1 s1 f1 '.' ++ [' '] ++ arrow
        ++ spaced (C16.canon3 h2 m2 s2 f2 '.' :: allWords al ln po rg sz ve))
      = C16.canon3 h1 m1 s1 f1 '.' ++ [' '] ++ arrow
        ++ spaced (C16.canon3 h2 m2 s2 f2 '.' :: allWords al ln po rg sz ve) := by
    rw [canon3_head h1 m1 s1 f1]
    exact trimSpace_line _ _ _ _ _ (isSpace_digitChar (by omega)) (by simp) (fun w hw => (hws w hw).1)
  rw [hct] at htrim ⊢
  rw [step_arrow st _ _ (C16.canon3 h1 m1 s1 f1 '.' ++ [' ']) (C16.canon3 h2 m2 s2 f2 '.')
    (allWords al ln po rg sz ve) (s - s % 1000000) (e - e % 1000000)
    { align := al.getD [], line := ln.getD [], position := po.getD [], size := sz.getD [],
      vertical := ve.getD [], region := rg }
    hct.symm hd htrim
    (by
      intro x hx
      rcases List.mem_append.mp hx with hx | hx
      · exact timeChar_ne_minus (htc1 x hx)
      · simp only [List.mem_singleton] at hx; subst hx; decide)
    (spaced_noGt _ (fun w hw => (hws w hw).2))
    (fun w hw => (hws w hw).1)
    (smallNumbers_canon3 h1 m1 s1 f1 hh1 hm1' hs1'' hf1 [' '] (Or.inr rfl))
    (by simpa using smallNumbers_canon3 h2 m2 s2 f2 hh2 hm2' hs2'' hf2 [] (Or.inl rfl))
    (by rw [parse_canon3_blank h1 m1 s1 f1 hh1 hm1' hs1'' hf1, hval1])
    (by
      show Duration.parse _ '.' 3 = _
      rw [C16.parse_canon3 h2 m2 s2 f2 hh2 hm2' hs2'' hf2 '.' (Or.inl rfl), hval2])
    (settings_all st.regions al ln po rg sz ve hal hln hpo hrg hsz hve hdef)]
  simp only [optStr_getD _ hal, optStr_getD _ hln, optStr_getD _ hpo, optStr_getD _ hsz, optStr_getD _ hve]

/-! ### the cue number line -/

theorem itoaAux_succ (fuel n : Nat) (acc : Str) :
    itoaAux (fuel + 1) n acc
      = if n < 10 then digitChar n :: acc else itoaAux fuel (n / 10) (digitChar (n % 10) :: acc) := rfl

theorem digitStr_itoaAux (fuel n : Nat) (acc : Str) (hacc : DigitStr acc) : DigitStr (itoaAux fuel n acc) := by
  induction fuel generalizing n acc with
  | zero => exact hacc
  | succ fuel ih =>
    rw [itoaAux_succ]
    split
    · rename_i h
      intro c hc
      rcases List.mem_cons.mp hc with rfl | hc
      · exact ⟨n, h, rfl⟩
      · exact hacc c hc
    · apply ih
      intro c hc
      rcases List.mem_cons.mp hc with rfl | hc
      · exact ⟨n % 10, by omega, rfl⟩
      · exact hacc c hc

theorem itoaAux_head (fuel n : Nat) (acc : Str) (h : n < fuel) :
    ∃ k tl, k < 10 ∧ itoaAux fuel n acc = digitChar k :: tl := by
  induction fuel generalizing n acc with
  | zero => omega
  | succ fuel ih =>
    rw [itoaAux_succ]
    split
    · rename_i h10; exact ⟨n, acc, h10, rfl⟩
    · exact ih _ _ (by omega)

theorem digitsVal_itoaAux (fuel n : Nat) (acc : Str) (h : n < fuel) :
    digitsVal (itoaAux fuel n acc) 0 = digitsVal acc n := by
  induction fuel generalizing n acc with
  | zero => omega
  | succ fuel ih =>
    rw [itoaAux_succ]
    split
    · rename_i h10
      rw [digitsVal, digitVal_digitChar h10]
      simp
    · rw [ih _ _ (by omega), digitsVal, digitVal_digitChar (show n % 10 < 10 by omega)]
      have : n / 10 * 10 + n % 10 = n := by omega
      simp only [this]

theorem digitStr_itoaNat (n : Nat) : DigitStr (itoaNat n) :=
  digitStr_itoaAux _ _ _ (fun _ hc => absurd hc (by simp))

theorem digitsVal_itoaNat (n : Nat) : digitsVal (itoaNat n) 0 = some n := by
  unfold itoaNat
  rw [digitsVal_itoaAux _ _ _ (by omega)]; rfl

/-- `Atoi ∘ Itoa` on the natural numbers an `int` holds -/
theorem atoiLoose_itoaNat (n : Nat) (hn : n ≤ int64Max) : atoiLoose (itoaNat n) = (n : Int) := by
  obtain ⟨k, tl, hk, he⟩ := itoaAux_head (n + 1) n [] (by omega)
  have hv := digitsVal_itoaNat n
  unfold itoaNat at hv ⊢
  rw [he] at hv ⊢
  unfold atoiLoose
  split
  · rename_i r heq; simp at heq; exact absurd heq.1 (by rw [digitChar_ne_minus hk]; exact id)
  · rename_i r heq; simp at heq; exact absurd heq.1 (by rw [digitChar_ne_plus hk]; exact id)
  · simp [parseDigits, hv, hn]

/-- **Cue number.** outside any block the number line the writer emits sets the pending index -/
theorem step_number (st : St) (k : Nat) (hb : st.block = .none) (hk : k + 1 ≤ int64Max) :
    step st (some (itoaNat (k + 1))) = .ok { st with index := (k : Int) + 1 } := by
  obtain ⟨d, tl, hd, he⟩ := itoaAux_head (k + 1 + 1) (k + 1) [] (by omega)
  have he' : itoaNat (k + 1) = digitChar d :: tl := he
  have hds := digitStr_itoaNat (k + 1)
  have hval := atoiLoose_itoaNat (k + 1) hk
  have htrim : trimSpace (itoaNat (k + 1)) = itoaNat (k + 1) := trimSpace_id hds.noSpace
  have hcont : contains arrow (itoaNat (k + 1)) = false := by
    apply contains_arrow_false
    intro c hc e
    obtain ⟨j, hj, rfl⟩ := hds c hc
    exact (digitChar_ne_minus hj).mp e
  rw [he'] at htrim hcont hval ⊢
  obtain ⟨t1, t2, t3, t4, t5⟩ := digit_line_tests (digitChar d) tl (isDig_digitChar hd)
  have hcast : ((k + 1 : Nat) : Int) = (k : Int) + 1 := by omega
  unfold step
  simp only [htrim, t1, t2, t3, t4, t5, hcont, hb, hval, hcast,
    Bool.or_self, Bool.and_false, Bool.false_eq_true, ↓reduceIte, reduceCtorEq, decide_false]

end VTT
end Astisub
