import Astisub.Props.C05doc2
import Astisub.Lemmas.ConvView

/-!
# Lemmas/Conv2STLTime — `truncSTL` of the conversion check is the frame floor of C05 (C07, destination `stl`)

`Spec.Conv.truncSTL fr tcp t` (what `Driver.convOk` expects of an STL destination) against
`C05.frameInstant` (what the reader model computes from the timecode the writer model emits) and
`Driver.STLD.floorFrame` (what the `stl.write` check expects):

* `truncSTL_floorFrame`  : `truncSTL fr tcp t = floorFrame fr (t + tcp) - tcp` for `0 ≤ t + tcp`;
* `truncSTL_frameInstant`: `frameInstant fr (t + tcp) - frameInstant fr tcp = truncSTL fr tcp t` when the
  programme start `tcp` is frame-aligned (`frameInstant fr tcp = tcp`) — the reader subtracts the programme
  start *as read back from the GSI block*, the check subtracts the programme start of the metadata;
* `convOk_of_view_stl`   : the predicate follows from "view of back = view of source at frame resolution".
-/

namespace Astisub
namespace Conv2STL
open Go Spec.Conv Driver ConvView C05

/-- on non-negative instants the check's truncation is the check's frame floor of C05, shifted by the programme start -/
theorem truncSTL_floorFrame (fr : Nat) (hfr : fr = 25 ∨ fr = 30) (tcp t : Int) (h0 : 0 ≤ t + tcp) :
    truncSTL (fr : Int) tcp t = STLD.floorFrame fr (t + tcp) - tcp := by
  unfold truncSTL STLD.floorFrame
  obtain ⟨n, hn⟩ : ∃ n : Nat, t + tcp = (n : Int) := ⟨(t + tcp).toNat, by omega⟩
  simp only [hn, Int.toNat_natCast]
  rcases hfr with rfl | rfl <;> omega

/-- **`truncSTL` is the frame floor the reader computes**, for a frame-aligned programme start -/
theorem truncSTL_frameInstant (fr : Nat) (hfr : fr = 25 ∨ fr = 30) (tcp t : Int) (h0 : 0 ≤ t + tcp)
    (h1 : t + tcp < 921600000000000) (ha : frameInstant (fr : Int) tcp = tcp) :
    frameInstant (fr : Int) (t + tcp) - frameInstant (fr : Int) tcp = truncSTL (fr : Int) tcp t := by
  rw [ha, truncSTL_floorFrame fr hfr tcp t h0, floorFrame_eq (t + tcp) fr hfr h1]

/-- a cue seen at the resolution of an STL file with frame rate `fr` and programme start `tcp` -/
def truncCueSTL (fr tcp : Int) (c : VCue) : VCue :=
  { c with startAt := truncSTL fr tcp c.startAt, endAt := truncSTL fr tcp c.endAt }

/-- **Sufficient condition for the conversion predicate, destination `stl`**: the destination read back
    shows exactly the source's cues with instants at frame resolution (as `truncSTL` defines it from the
    source's own metadata, `Driver.stlParams`) -/
theorem convOk_of_view_stl (strict : Bool) (s back : Subs)
    (h : viewOf back = (viewOf s).map (truncCueSTL (stlParams s).1 (stlParams s).2)) :
    convOk strict "stl" s back = true := by
  unfold convOk
  simp only [if_true, h, List.length_map, beq_self_eq_true, Bool.true_and, zip_map_all]
  rw [List.all_eq_true]
  intro a _
  simp [truncCueSTL]

/-- the range clause of the check for STL, cue by cue -/
theorem inRange_items_stl {s : Subs} (h : inRange "stl" s = true) :
    ∀ it ∈ s.items, 0 ≤ it.startAt ∧ it.startAt < 86400000000000 ∧ 0 ≤ it.endAt ∧ it.endAt < 86400000000000 := by
  intro it hit
  unfold inRange at h
  simp only [if_true, List.all_eq_true] at h
  have := h (cueView it) (by rw [viewOf_eq]; exact List.mem_map_of_mem hit)
  simp [cueView] at this
  omega

end Conv2STL
end Astisub
