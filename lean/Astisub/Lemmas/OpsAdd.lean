import Astisub.Model.Ops
import Astisub.Spec.OpsSpec

namespace Astisub
open Ops Spec

/-- the zipper loop of `Add` is `filterMap` of its body — the refinement lemma that the
    index rewind (`idx--` after a deletion) makes non-trivial: it holds for arbitrarily long
    runs of consecutive deleted items. -/
theorem addLoop_eq_filterMap (d : Int) (done todo : List Item) :
    addLoop d done todo = done.reverse ++ todo.filterMap (shift1 d) := by
  induction todo generalizing done with
  | nil => simp [addLoop]
  | cons it todo ih =>
    unfold addLoop
    cases h : shift1 d it with
    | none => simp [ih, h]
    | some it' => simp [ih, h]

theorem add_eq_filterMap (d : Int) (xs : List Item) : add d xs = xs.filterMap (shift1 d) := by
  simp [add, addLoop_eq_filterMap]

theorem survives_iff (d : Int) (it : Item) : survives d it = true ↔ 0 < it.endAt + d := by
  simp [survives]

/-- for a well-formed cue the body of `Add` is "drop iff dead, else shift and clamp" -/
theorem shift1_spec (d : Int) (it : Item) (h : it.startAt ≤ it.endAt) :
    shift1 d it = if survives d it then some (shifted d it) else none := by
  unfold shift1 survives shifted
  simp only
  by_cases h1 : it.endAt + d ≤ 0
  · have h2 : it.startAt + d ≤ 0 := by omega
    have h3 : ¬ (0 < it.endAt + d) := by omega
    simp [h1, h2, h3]
  · have h3 : 0 < it.endAt + d := by omega
    by_cases h2 : it.startAt + d ≤ 0
    · have : max 0 (it.startAt + d) = 0 := by omega
      simp [h1, h2, h3, this]
    · have : max 0 (it.startAt + d) = it.startAt + d := by omega
      simp [h1, h2, h3, this]

end Astisub
