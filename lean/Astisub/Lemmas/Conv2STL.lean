import Astisub.Lemmas.Conv2STLTime
import Astisub.Lemmas.SSAStr
import Astisub.Lemmas.SRTBytes

/-!
# Lemmas/Conv2STL — conversion to EBU STL under display standard 0 (C07, destination `stl`)

* `simple_carried`  : every character of `simpleText` is a carried character of the Latin table (a
  repertoire unit of `Props/C05.lean`), so simple text is repertoire text;
* `mcueOf`, `mcueOf_toW`, `mcueOf_ok` : the cue the stream hands to the writer (`Driver.STLD.cueOf`) is, for a
  plain cue, the writer's view of a well-formed `MCue` of `Props/C05doc2.lean`;
* `squash_mpAux`, `squash_line` : reading joins adjacent unstyled runs with a blank — white space disregarded,
  the line's text is unchanged;
* `cueView_tti`     : the view of the cue read back (`ttiCueM`);
* `PlainSTL`, `StlMetaOK` and `stl_read_write` : the file round trip and the view of its result.
-/

namespace Astisub
namespace Conv2STL
open Go Spec.Conv Driver ConvView C05 STL List

/-! ## simple characters are carried by the Latin table -/

/-- the code points of the characters of `simpleText` -/
def simpleCodes : List Nat := (List.range 123).filter fun n =>
  (97 ≤ n && n ≤ 122) || (65 ≤ n && n ≤ 90) || (48 ≤ n && n ≤ 57) || n == 32 || n == 44 || n == 46 || n == 33 || n == 63

theorem simpleCodes_carried : ∀ n ∈ simpleCodes, (n, [n]) ∈ carried := by decide +kernel

theorem char_toNat_eq {c : Char} {n : Nat} (d : Char) (hd : d.toNat = n) (h : c = d) : c.toNat = n := by rw [h, hd]

theorem simple_code {c : Char} (h : simpleChar c = true) : c.toNat ∈ simpleCodes := by
  have ⟨_, h2⟩ := simpleChar_le h
  simp only [simpleChar, Bool.or_eq_true, Bool.and_eq_true, decide_eq_true_eq] at h
  have hle : ∀ a b : Char, a ≤ b → a.toNat ≤ b.toNat := fun a b hab => hab
  simp only [simpleCodes, mem_filter, mem_range, Bool.or_eq_true, Bool.and_eq_true, decide_eq_true_eq, beq_iff_eq]
  refine ⟨by omega, ?_⟩
  rcases h with ((((((⟨h1, h2⟩ | ⟨h1, h2⟩) | ⟨h1, h2⟩) | h) | h) | h) | h) | h
  · have a := hle _ _ h1; have b := hle _ _ h2
    have : ('a' : Char).toNat = 97 := rfl
    have : ('z' : Char).toNat = 122 := rfl
    omega
  · have a := hle _ _ h1; have b := hle _ _ h2
    have : ('A' : Char).toNat = 65 := rfl
    have : ('Z' : Char).toNat = 90 := rfl
    omega
  · have a := hle _ _ h1; have b := hle _ _ h2
    have : ('0' : Char).toNat = 48 := rfl
    have : ('9' : Char).toNat = 57 := rfl
    omega
  · subst h; decide
  · subst h; decide
  · subst h; decide
  · subst h; decide
  · subst h; decide

/-- the repertoire unit of a simple character: the table character with the same code -/
def unitOf (c : Char) : C05.Unit := charUnit (c.toNat, [c.toNat])

theorem unitOf_rep {c : Char} (h : simpleChar c = true) : RepUnit (unitOf c) :=
  RepUnit.ch _ (simpleCodes_carried _ (simple_code h))

theorem flatMap_unit_text (t : Str) : (t.map unitOf).flatMap (·.text) = t.map Char.toNat := by
  induction t with
  | nil => rfl
  | cons c cs ih => simp only [map_cons, flatMap_cons, ih]; rfl

theorem str_toNat (t : Str) : str (t.map Char.toNat) = t := by
  unfold str
  rw [map_map]
  conv => rhs; rw [← map_id t]
  apply map_congr_left
  intro c _
  exact Char.ofNat_toNat c

/-! ## from the stream's cue to a well-formed `MCue` -/

/-- a run as the stream hands it to the writer, as a run of repertoire units -/
def rrunOf (li : LItem) : RRun :=
  { units := li.text.map unitOf, italics := STLD.isTrue li.attrs "STLItalics",
    underline := STLD.isTrue li.attrs "STLUnderline", boxing := STLD.isTrue li.attrs "STLBoxing" }

/-- a cue as the stream hands it to the writer, as an `MCue` -/
def mcueOf (it : CItem) : MCue :=
  { startAt := it.startAt, endAt := it.endAt, just := (STLD.cueOf it).just, vp := (STLD.cueOf it).vp,
    rows := it.lines.map fun l => l.items.map rrunOf }

theorem rrunOf_text (li : LItem) : (rrunOf li).text = li.text.map Char.toNat := flatMap_unit_text li.text

theorem rrunOf_str (li : LItem) : str (rrunOf li).text = li.text := by rw [rrunOf_text, str_toNat]

theorem mcueOf_toW (it : CItem) : (mcueOf it).toW = STLD.cueOf it := by
  unfold mcueOf MCue.toW STLD.cueOf
  simp only [map_map]
  congr 1
  apply map_congr_left
  intro l _
  simp only [Function.comp_apply, map_map]
  apply map_congr_left
  intro li _
  have e := rrunOf_text li
  simp only [Function.comp_apply, RRun.toW, e]
  rfl

/-- a run the STL writer and reader carry as it is: simple characters, at least one, no blank at either end.
    All attributes (the run's own `STLItalics` / `STLUnderline` / `STLBoxing` included) are free. -/
def plainRun (li : LItem) : Bool := simpleText li.text && li.text.head?.any (· != ' ') && li.text.getLast?.any (· != ' ')

theorem plainRun_simple {li : LItem} (h : plainRun li = true) : ∀ c ∈ li.text, simpleChar c = true := by
  simp only [plainRun, Bool.and_eq_true, simpleText_eq, all_eq_true] at h
  exact h.1.1

theorem plainRun_ne {li : LItem} (h : plainRun li = true) : li.text ≠ [] := by
  intro e
  simp [plainRun, e] at h

theorem plainRun_trimmed {li : LItem} (h : plainRun li = true) : Trimmed li.text := by
  have hs := plainRun_simple h
  simp only [plainRun, Bool.and_eq_true] at h
  obtain ⟨⟨_, h0⟩, h1⟩ := h
  constructor
  · intro c hc
    rw [hc] at h0
    have hm : c ∈ li.text := by
      cases ht : li.text with
      | nil => rw [ht] at hc; cases hc
      | cons x xs => rw [ht] at hc; simp at hc; subst hc; simp
    exact simpleChar_space (hs c hm) (by simpa using h0)
  · intro c hc
    rw [hc] at h1
    exact simpleChar_space (hs c (mem_of_getLast? hc)) (by simpa using h1)

theorem rrunOf_okT {li : LItem} (h : plainRun li = true) : (rrunOf li).okT := by
  refine ⟨?_, ?_, ?_⟩
  · intro u hu
    simp only [rrunOf, mem_map] at hu
    obtain ⟨c, hc, rfl⟩ := hu
    exact unitOf_rep (plainRun_simple h c hc)
  · rw [rrunOf_str]; exact plainRun_ne h
  · rw [rrunOf_str]; exact trimSpace_of_trimmed (plainRun_trimmed h)

/-- a cue the STL writer and reader carry: every line has a run, every run is plain, the encoded text
    (rows, line breaks, style codes) fits the 112-byte text field of a TTI block -/
def plainCue (it : CItem) : Bool :=
  (it.lines.all fun l => !l.items.isEmpty && l.items.all plainRun) &&
  decide ((encodeText (cueString (STLD.cueOf it))).length ≤ 112)

theorem mcueOf_ok {it : CItem} (h : plainCue it = true) : (mcueOf it).ok := by
  simp only [plainCue, Bool.and_eq_true, all_eq_true, Bool.not_eq_true', decide_eq_true_eq] at h
  refine ⟨?_, by rw [mcueOf_toW]; exact h.2⟩
  intro l hl
  simp only [mcueOf, mem_map] at hl
  obtain ⟨l0, hl0, rfl⟩ := hl
  have := h.1 l0 hl0
  refine ⟨by intro e; have := this.1; simp at e; simp [e] at this, ?_⟩
  intro r hr
  obtain ⟨li, hli, rfl⟩ := mem_map.mp hr
  exact rrunOf_okT (this.2 li hli)

/-! ## white space disregarded, reading keeps the text of a line -/

theorem squash_append (a b : Str) : squash (a ++ b) = squash a ++ squash b := by simp [squash]

theorem squash_space (a : Str) : squash (' ' :: a) = squash a := by
  have : isSpace ' ' = true := by decide
  simp [squash, this]

theorem squash_mpAux (body : Str) (xs : List (Str × B3)) :
    squash (((mpAux body xs).map (·.1)).flatten) = squash (body ++ (xs.map (·.1)).flatten) := by
  induction xs generalizing body with
  | nil =>
    by_cases hb : body = []
    · simp [mpAux, hb]
    · simp [mpAux, hb]
  | cons x rest ih =>
    by_cases hp : x.2 = plain3
    · simp only [mpAux, hp, if_true, ih, map_cons, flatten_cons]
      by_cases hb : body = []
      · simp [hb]
      · simp only [hb, if_false, squash_append, append_assoc, squash_space]
    · simp only [mpAux, hp, if_false, map_append, map_cons, flatten_append, flatten_cons, squash_append, ih, nil_append]
      by_cases hb : body = []
      · simp [hb, squash]
      · simp [hb]

/-- the text of the line the reader returns for a row, white space disregarded, is the text of the runs written -/
theorem squash_line (l : List RRun) (h : ∀ r ∈ l, r.okT) :
    squash (((lineOf l).items.map (·.text)).flatten) = squash ((l.map fun r => str r.text).flatten) := by
  have h1 := lineOf_runs l h
  have h2 : (lineOf l).items.map (·.text) = (mergePlain (l.map wv)).map (·.1) := by
    rw [← h1, map_map]; rfl
  rw [h2]
  unfold mergePlain
  rw [squash_mpAux, nil_append, map_map]
  rfl

/-! ## the view of the cue read back -/

theorem squash_ne_nil_of_head {t : Str} {c : Char} (h : t.head? = some c) (hc : isSpace c = false) : squash t ≠ [] := by
  cases t with
  | nil => cases h
  | cons x xs =>
    simp at h; subst h
    simp [squash, hc]

/-- the lines of a plain cue, white space disregarded -/
def sqLines (it : CItem) : List Str := it.lines.map fun l => squash (l.items.map (·.text)).flatten

theorem cueView_of_sq (a b : CItem) (h : sqLines a = sqLines b) :
    cueView a = { cueView b with startAt := a.startAt, endAt := a.endAt } := by
  unfold sqLines at h
  simp only [cueView, h]

theorem sqLines_tti (R : GSI) (G : WGSI) (off : Int) (it : CItem) (h : plainCue it = true) :
    sqLines (ttiCueM R G off (mcueOf it)) = sqLines it := by
  have hok := mcueOf_ok h
  unfold sqLines ttiCueM mcueOf
  simp only [map_map]
  apply map_congr_left
  intro l hl
  simp only [Function.comp_apply]
  have hrow : ∀ r ∈ l.items.map rrunOf, r.okT := (hok.1 _ (by simp only [mcueOf, mem_map]; exact ⟨l, hl, rfl⟩)).2
  rw [squash_line _ hrow, map_map]
  congr 2
  apply map_congr_left
  intro li _
  exact rrunOf_str li

/-- **The view of the cue read back**: the source cue's text lines, with the two instants the reader computes -/
theorem cueView_tti (R : GSI) (G : WGSI) (off : Int) (it : CItem) (h : plainCue it = true) :
    cueView (ttiCueM R G off (mcueOf it)) =
      { cueView it with startAt := frameInstant G.m.framerate (it.startAt + G.m.tcp) - off,
                        endAt := frameInstant G.m.framerate (it.endAt + G.m.tcp) - off } := by
  rw [cueView_of_sq _ it (sqLines_tti R G off it h)]
  rfl

/-! ## the metadata -/

/-- the cues the `conv.pair` / `stl.write` streams hand to the writer model -/
def cuesOf (s : Subs) : List WCue := s.items.map STLD.cueOf

theorem cuesOf_eq (s : Subs) : (s.items.map mcueOf).map MCue.toW = cuesOf s := by
  unfold cuesOf
  rw [map_map]
  apply map_congr_left
  intro it _
  exact mcueOf_toW it

/-- **what the metadata must be like**, for a document written on day `now`: the GSI block the writer fills
    (`newGSI`, after its defaults) is well-formed (`C05.GsiOK`: frame rate 25 / 30, values that fit their
    fields, existing dates, numbers within 0–99, timecodes below 100 h); the programme start is not negative
    and frame-aligned (it is when it was read from an STL file); the frame rate the writer uses is the one
    the check derives from the metadata (`Driver.stlParams`: 30 for the value `30`, else 25) -/
def MetaFit (now : Date) (s : Subs) (m : Meta) : Prop :=
  GsiOK (newGSI now (some m) (cuesOf s)) ∧ 0 ≤ m.tcp ∧
  (newGSI now (some m) (cuesOf s)).m.framerate = (stlParams s).1 ∧
  frameInstant (newGSI now (some m) (cuesOf s)).m.framerate m.tcp = m.tcp

instance (now : Date) (s : Subs) (m : Meta) : Decidable (MetaFit now s m) := by unfold MetaFit; infer_instance

/-- the cue list has metadata and it fits (decidable; depends on the day only through the default dates) -/
def stlMetaOK (now : Date) (s : Subs) : Bool :=
  match STLD.metaOf s.metadata with
  | some m => decide (MetaFit now s m)
  | none => false

/-- the programme start the check uses is the one the writer is given -/
theorem stlParams_tcp (s : Subs) (m : Meta) (h : STLD.metaOf s.metadata = some m) : (stlParams s).2 = m.tcp := by
  unfold STLD.metaOf at h
  cases hm : s.metadata with
  | none => rw [hm] at h; cases h
  | some kv =>
    rw [hm] at h
    simp only [Option.some.injEq] at h
    subst h
    simp only [stlParams, hm, SRT.kvGet, STLD.kv]
    cases kv.lookup "STLTimecodeStartOfProgramme".toList <;> rfl

theorem utf8N_zero : STLD.utf8N "0".toList = [0x30] := by
  have : STLD.utf8N "0".toList = STLD.toNats (utf8 "0".toList) := rfl
  rw [this, SRTDoc.utf8_eq_flatMap]
  decide

/-- display standard 0 in the metadata is display standard 0 in the GSI block -/
theorem dsc_open (now : Date) (s : Subs) (m : Meta) (h : STLD.metaOf s.metadata = some m)
    (hd : SRT.kvGet s.metadata "STLDisplayStandardCode" = some "0".toList) (cues : List WCue) :
    (newGSI now (some m) cues).m.dsc = [0x30] := by
  have hm : m.dsc = [0x30] := by
    unfold STLD.metaOf at h
    cases hmd : s.metadata with
    | none => rw [hmd] at h; cases h
    | some kv =>
      rw [hmd] at h hd
      simp only [Option.some.injEq] at h
      subst h
      simp only [SRT.kvGet] at hd
      simp only [STLD.kv, hd, Option.map_some, Option.getD_some, utf8N_zero]
  unfold newGSI
  simp only [hm]
  rfl

/-! ## plain cue lists and the round trip -/

/-- **Plain cue lists for EBU STL (display standard 0).** at least one cue; every line of every cue has at
    least one run; every run is simple text (`simpleText`), not empty, without a blank at either end; the
    encoded text of every cue fits the 112 bytes of a TTI block.  Free: all attributes of runs and cues
    (the STL ones included: italics / underline / boxing, justification, vertical position), voices, styles,
    regions, comments, indexes, cues without lines. -/
def PlainSTL (s : Subs) : Bool := !s.items.isEmpty && s.items.all plainCue

/-- the view an STL destination returns: instants at frame resolution, text untouched -/
def truncViewSTL (s : Subs) : List VCue := (viewOf s).map (truncCueSTL (stlParams s).1 (stlParams s).2)

/-- **Write, then read (model level, display standard 0).** for a plain cue list in range whose metadata
    fits: the writer model answers a file, the reader model reads it, and the cues read back show the
    source's cues with the instants at frame resolution -/
theorem stl_read_write (now : Date) (s : Subs) (hr : inRange "stl" s = true) (hp : PlainSTL s = true)
    (hd : SRT.kvGet s.metadata "STLDisplayStandardCode" = some "0".toList) (hm : stlMetaOK now s = true) :
    ∃ out md items, STL.write now (STLD.metaOf s.metadata) (cuesOf s) = .ok out ∧
      STL.read false out = .ok (md, items) ∧ viewOf { items := items } = truncViewSTL s := by
  unfold stlMetaOK at hm
  cases hmeta : STLD.metaOf s.metadata with
  | none => rw [hmeta] at hm; cases hm
  | some m =>
    rw [hmeta] at hm
    obtain ⟨hG, htcp, hfrm, hal⟩ : MetaFit now s m := by simpa using hm
    simp only [PlainSTL, Bool.and_eq_true, Bool.not_eq_true', all_eq_true] at hp
    obtain ⟨hne, hcues⟩ := hp
    have hrg := inRange_items_stl hr
    have hcs := cuesOf_eq s
    have hok : ∀ c ∈ s.items.map mcueOf, c.ok := by
      intro c hc
      obtain ⟨it, hit, rfl⟩ := mem_map.mp hc
      exact mcueOf_ok (hcues it hit)
    have hne' : s.items.map mcueOf ≠ [] := by
      intro e
      have : s.items = [] := by simpa using e
      rw [this] at hne; cases hne
    have ht : ∀ c ∈ s.items.map mcueOf, MTimesOK m.tcp c := by
      intro c hc
      obtain ⟨it, hit, rfl⟩ := mem_map.mp hc
      obtain ⟨r1, _, r3, _⟩ := hrg it hit
      unfold MTimesOK mcueOf
      simp only
      omega
    have hw := write_okM now m (s.items.map mcueOf) hne' htcp hok ht
    have hdsc := dsc_open now s m hmeta hd (cuesOf s)
    rw [hcs] at hw
    have hread := file_roundtrip_multirun false now (some m) (s.items.map mcueOf) (by rw [hcs]; exact hG)
      (by rw [hcs]; exact hdsc) hok
    rw [hcs] at hread
    refine ⟨_, _, _, hw, hread, ?_⟩
    -- the view
    generalize hGd : newGSI now (some m) (cuesOf s) = G at hG hfrm hal hread
    obtain ⟨fr, hfrN, hfrI⟩ : ∃ fr : Nat, (fr = 25 ∨ fr = 30) ∧ G.m.framerate = (fr : Int) := by
      rcases hG.1 with e | e
      · exact ⟨25, Or.inl rfl, e⟩
      · exact ⟨30, Or.inr rfl, e⟩
    have hGtcp : G.m.tcp = m.tcp := by rw [← hGd]; rfl
    have hGtcp1 : m.tcp < 360000000000000 := by
      have := hG.2.2.2.2.2.2.2.2.2.2.2.2.2.2.2.2.2.2.2.1
      rw [hGtcp] at this; exact this
    have hoff : (readMeta false (gsiBack G)).tcp = frameInstant G.m.framerate G.m.tcp := rfl
    have hp2 := stlParams_tcp s m hmeta
    simp only [viewOf_eq, truncViewSTL, map_map]
    apply map_congr_left
    intro it hit
    obtain ⟨r1, r2, r3, r4⟩ := hrg it hit
    simp only [Function.comp_apply]
    rw [cueView_tti _ _ _ it (hcues it hit), hoff, hGtcp, hfrI]
    rw [hfrI] at hal hfrm
    rw [truncSTL_frameInstant fr hfrN m.tcp it.startAt (by omega) (by omega) hal,
      truncSTL_frameInstant fr hfrN m.tcp it.endAt (by omega) (by omega) hal, hp2, ← hfrm]
    rfl

/-! ## metadata with both dates set: the day of writing does not matter -/

/-- the metadata carries a creation date and a revision date (so the writer does not look at the clock) -/
def datesSet (s : Subs) : Bool :=
  match STLD.metaOf s.metadata with
  | some m => m.creation.isSome && m.revisionDate.isSome
  | none => false

theorem newGSI_day (now now' : Date) (m : Meta) (cues : List WCue) (h1 : m.creation.isSome = true)
    (h2 : m.revisionDate.isSome = true) : newGSI now (some m) cues = newGSI now' (some m) cues := by
  obtain ⟨c, hc⟩ := Option.isSome_iff_exists.mp h1
  obtain ⟨r, hr⟩ := Option.isSome_iff_exists.mp h2
  unfold newGSI
  simp only [hc, hr, Option.getD_some]
  rfl

theorem stlMetaOK_day (now now' : Date) (s : Subs) (hd : datesSet s = true) (h : stlMetaOK now s = true) :
    stlMetaOK now' s = true := by
  unfold stlMetaOK datesSet at *
  cases hm : STLD.metaOf s.metadata with
  | none => rw [hm] at h; cases h
  | some m =>
    rw [hm] at h hd
    simp only [Bool.and_eq_true] at hd
    simp only [decide_eq_true_eq] at h ⊢
    unfold MetaFit at h ⊢
    rw [newGSI_day now' now m _ hd.1 hd.2]
    exact h

/-- **Plain cue lists with their own dates**: plain, both dates set, fitting metadata (on any day) -/
def PlainSTLdoc (s : Subs) : Bool := PlainSTL s && datesSet s && stlMetaOK zeroDate s

/-! ## non-vacuity -/

theorem encodeChar_ascii (c : Char) (h : c.toNat < 128) : String.utf8EncodeChar c = [UInt8.ofNat c.toNat] := by
  unfold String.utf8EncodeChar
  have : c.val.toNat ≤ 127 := by have : c.toNat = c.val.toNat := rfl; omega
  simp only [this, if_true]
  rfl

theorem toNats_encode_ascii (t : Str) (h : ∀ c ∈ t, c.toNat < 128) :
    STLD.toNats (t.flatMap String.utf8EncodeChar) = t.map Char.toNat := by
  induction t with
  | nil => rfl
  | cons c cs ih =>
    have hc := h c (by simp)
    have ih' := ih (fun x hx => h x (by simp [hx]))
    unfold STLD.toNats at ih' ⊢
    simp only [flatMap_cons, map_append, map_cons, encodeChar_ascii c hc, ih']
    simp [Nat.mod_eq_of_lt (show c.toNat < 256 by omega)]

/-- the bytes of an ASCII metadata value are its code points -/
theorem utf8N_ascii (t : Str) (h : ∀ c ∈ t, c.toNat < 128) : STLD.utf8N t = t.map Char.toNat := by
  have e : STLD.utf8N t = STLD.toNats (utf8 t) := rfl
  rw [e, SRTDoc.utf8_eq_flatMap, toNats_encode_ascii t h]

/-- two cues with foreign attributes everywhere: a line of two runs (the second in STL italics, with two
    blanks inside), a second line, a cue without text ending at 0 and starting one nanosecond before 24 h;
    a region, a style, metadata with display standard 0, a title, both dates and a foreign key -/
def exampleSTL : Subs :=
  { items := [
      { startAt := 1234567890, endAt := 3000000000, index := 7, region := some "r".toList, style := some "Top".toList,
        attrs := some [("SSAMarginLeft".toList, "12".toList), ("WebVTTAlign".toList, "start".toList)],
        comments := ["seen".toList],
        lines := [ { voice := "Bob".toList,
                     items := [ { text := "Hello,".toList, attrs := some [("TTMLColor".toList, "#ff0000".toList)] },
                                { text := "world  42!".toList, style := some "s".toList,
                                  attrs := some [("SRTBold".toList, "true".toList), ("STLItalics".toList, "true".toList),
                                                 ("WebVTTTags".toList, "b|i".toList)] } ] },
                   { items := [ { text := "Is it?".toList, attrs := some [("SSAEffect".toList, [])] } ] } ] },
      { startAt := 86399999999999, endAt := 0, lines := [] } ],
    regions := [{ id := "r".toList }],
    styles := [{ id := "Top".toList, attrs := some [("SSABold".toList, "true".toList)] }],
    metadata := some [("SSAPlayResX".toList, "384".toList), ("STLCreationDate".toList, "260927".toList),
                      ("STLDisplayStandardCode".toList, "0".toList), ("STLRevisionDate".toList, "260928".toList),
                      ("Title".toList, "Plain".toList)] }

def exampleMeta : Meta :=
  { dsc := [0x30], title := "Plain".toList.map Char.toNat, creation := some { yy := 26, mm := 9, dd := 27 },
    revisionDate := some { yy := 26, mm := 9, dd := 28 } }

theorem exampleSTL_meta : STLD.metaOf exampleSTL.metadata = some exampleMeta := by
  have h1 : STLD.utf8N ['0'] = [48] := utf8N_ascii _ (by decide)
  have h2 : STLD.utf8N ['P', 'l', 'a', 'i', 'n'] = [80, 108, 97, 105, 110] := utf8N_ascii _ (by decide)
  simp only [STLD.metaOf, exampleSTL, STLD.kv, List.lookup]
  simp [h1, h2, exampleMeta, STLD.dateOf]

/-- the runs of the example are plain (the cheap half of `plainCue`) … -/
theorem exampleSTL_runs : (exampleSTL.items.all fun it => it.lines.all fun l => !l.items.isEmpty && l.items.all plainRun) = true := by
  decide

/-- … and the encoded text of each cue fits the text field (the kernel evaluates the NFD tables here) -/
theorem exampleSTL_fits : ∀ it ∈ exampleSTL.items, (encodeText (cueString (STLD.cueOf it))).length ≤ 112 := by
  decide +kernel

theorem exampleSTL_plain : PlainSTL exampleSTL = true := by
  have h1 := exampleSTL_runs
  have h2 := exampleSTL_fits
  simp only [all_eq_true, Bool.and_eq_true] at h1
  simp only [PlainSTL, plainCue, Bool.and_eq_true, all_eq_true, decide_eq_true_eq]
  exact ⟨rfl, fun it hit => ⟨h1 it hit, h2 it hit⟩⟩

theorem exampleSTL_gsi : GsiOK (newGSI zeroDate (some exampleMeta) (cuesOf exampleSTL)) := by decide +kernel

theorem exampleSTL_fr : (newGSI zeroDate (some exampleMeta) (cuesOf exampleSTL)).m.framerate = (stlParams exampleSTL).1 := by
  decide +kernel

theorem exampleSTL_aligned :
    frameInstant (newGSI zeroDate (some exampleMeta) (cuesOf exampleSTL)).m.framerate exampleMeta.tcp = exampleMeta.tcp := by
  decide +kernel

theorem exampleSTL_metaOK (now : Date) : stlMetaOK now exampleSTL = true := by
  apply stlMetaOK_day zeroDate now
  · unfold datesSet; rw [exampleSTL_meta]; rfl
  · unfold stlMetaOK
    rw [exampleSTL_meta]
    exact decide_eq_true ⟨exampleSTL_gsi, by decide, exampleSTL_fr, exampleSTL_aligned⟩

theorem exampleSTL_doc : PlainSTLdoc exampleSTL = true := by
  have : datesSet exampleSTL = true := by unfold datesSet; rw [exampleSTL_meta]; rfl
  simp only [PlainSTLdoc, exampleSTL_plain, this, exampleSTL_metaOK, Bool.and_self]

example : inRange "stl" exampleSTL = true := by decide
example : SRT.kvGet exampleSTL.metadata "STLDisplayStandardCode" = some "0".toList := by decide
-- the predicates exclude something
example : plainRun { text := " x".toList } = false := by decide
example : plainRun { text := "".toList } = false := by decide
example : plainRun { text := "x[".toList } = false := by decide
example : plainCue { startAt := 0, endAt := 1, lines := [{ items := [] }] } = false := by decide
example : stlMetaOK zeroDate { items := [], metadata := none } = false := by decide

end Conv2STL
end Astisub
