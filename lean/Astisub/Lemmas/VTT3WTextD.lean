import Astisub.Lemmas.VTT3WTextC

/-!
# Lemmas/VTT3WTextD — the decoder accepts a written cue-text line

`lineW2`: the proviso of the theorems.  `textLine_lineBody`, `cueText_lineBodies`.
-/

namespace Astisub
namespace VTT3W
open Go Spec.VTT List
open VTT (runTags runOk runBytesPN tsPart opensBytes closesBytes sharedWith itemsBytes lineBody)
open SRT (escapeHTML)

/-! ### the proviso -/

/-- a character of a voice that `lineOK2` accepts inside `<…>` (beyond what `lineOk` guarantees
    already: no `=`; line breaks are excluded by `lineFit`) -/
def okc (c : Char) : Bool := !(c == '|' || c == '\x0c')

/-- no form feed in the annotation of a tag (a `|` cannot occur in a tag of a run: the library splits the
    tag list at `|`, see `tags_noBar`; a form feed cannot occur in a class of a well-formed tag) -/
def tagW2 (t : VTT.Tag) : Bool := t.annotation.all (fun c => c != '\x0c')

/-- the inline instant is 0 (not written) or at least one millisecond (an instant in (0, 1 ms) is written
    `<00:00:00.000>`, which the decoder reads as the timestamp 0) -/
def tsW2 (li : LItem) : Bool := li.startAt == 0 || decide (1000000 ≤ li.startAt)

def runW2 (li : LItem) : Bool := tsW2 li && (runTags li).all tagW2

/-- no text of the line holds a no-break space U+00A0 (which the writer escapes as `&nbsp;`) -/
def nbspFree (l : Line) : Bool := l.items.all (fun li => !li.text.contains C01.nbsp)

/-- no inline timestamp is written on the line -/
def tsFree (l : Line) : Bool := l.items.all (fun li => li.startAt == 0)

example : nbspFree VTT.exLine = true := by decide
example : tsFree { items := [VTT.exRun1, VTT.exRun3] } = true := by decide

/-- the proviso of the write → decode theorems for one line:
    * every inline instant is 0 or ≥ 1 ms;
    * no `|`, no form feed in the voice, no form feed in the annotations (the class `lineOK2`) -/
def lineW2 (l : Line) : Bool := l.voice.all okc && l.items.all runW2

example : lineW2 VTT.exLine = true := by decide

/-! ### one run -/

theorem Acc_tsPart {o : List GTag} (li : LItem) (h1 : li.startAt < 360000000000000) (hts : tsW2 li = true)
    {s : Str} {tags : List VTT.Tag} (h : Acc o s tags) : Acc o (tsPart li ++ s) tags := by
  unfold tsPart
  split
  · rename_i hpos
    simp only [tsW2, Bool.or_eq_true, beq_iff_eq, decide_eq_true_eq] at hts
    exact Acc_ts li.startAt (by omega) h1 h
  · simpa using h

theorem Acc_opens {o : List GTag} (l : List VTT.Tag) (hl : ∀ t ∈ l, t.wf = true) :
    ∀ {s : Str} {tags : List VTT.Tag}, Acc o s (tags ++ l) → Acc o (opensBytes l ++ s) tags := by
  induction l with
  | nil => intro s tags h; simpa [opensBytes] using h
  | cons t l ih =>
    intro s tags h
    simp only [opensBytes, map_cons, flatten_cons, append_assoc]
    apply Acc_open t (hl t (by simp))
    apply ih (fun u hu => hl u (by simp [hu]))
    simpa using h

theorem Acc_closes {o : List GTag} (r : List VTT.Tag) (hr : ∀ t ∈ r, t.wf = true) :
    ∀ {s : Str} {base : List VTT.Tag}, Acc o s base → Acc o (closesBytes r ++ s) (base ++ r.reverse) := by
  induction r with
  | nil => intro s base h; simpa [closesBytes] using h
  | cons t r ih =>
    intro s base h
    have e : base ++ (r.reverse ++ [t]) = (base ++ r.reverse) ++ [t] := by simp
    simp only [closesBytes, map_cons, flatten_cons, append_assoc, reverse_cons]
    rw [e]
    apply Acc_close t (hr t (by simp))
    exact ih (fun u hu => hr u (by simp [hu])) h

/-- **One run.** -/
theorem Acc_run {o : List GTag} (li : LItem) (hok : runOk li = true) (hts : tsW2 li = true) (p n : Nat)
    {s : Str} (h : Acc o s ((runTags li).take n)) : Acc o (runBytesPN p n li ++ s) ((runTags li).take p) := by
  have F := VTT.runOk_facts hok
  unfold runBytesPN
  simp only [append_assoc]
  apply Acc_tsPart li F.t1 hts
  apply Acc_opens _ (fun t ht => F.wf t (mem_of_mem_drop ht))
  rw [take_append_drop]
  apply Acc_esc
  have hc := Acc_closes (o := o) ((runTags li).drop n).reverse
    (fun t ht => F.wf t (mem_of_mem_drop (mem_reverse.mp ht))) h
  rw [reverse_reverse, take_append_drop] at hc
  exact hc

/-! ### the runs of a line -/

theorem Acc_items {o : List GTag} (rest : List LItem) :
    ∀ (li : LItem) (prev : Option LItem), (∀ x ∈ li :: rest, runOk x = true ∧ tsW2 x = true) →
      Acc o (itemsBytes prev (li :: rest)) ((runTags li).take (sharedWith prev li)) := by
  induction rest with
  | nil =>
    intro li prev hok
    obtain ⟨hli, hts⟩ := hok li (by simp)
    have := Acc_run (o := o) li hli hts (sharedWith prev li) 0 (s := []) (by simpa using Acc_nil o)
    simpa [itemsBytes, VTT.runBytes_eq prev none li (VTT.runOk_facts hli).col, sharedWith] using this
  | cons b rest ih =>
    intro li prev hok
    obtain ⟨hli, hts⟩ := hok li (by simp)
    have hn : sharedWith (some li) b = sharedWith (some b) li := by
      simp [sharedWith, C02.commonTags_comm]
    have htk : (runTags li).take (sharedWith (some b) li) = (runTags b).take (sharedWith (some li) b) := by
      rw [hn]; exact C02.take_commonTags _ _
    have hb := ih b (some li) (fun x hx => hok x (by simp [mem_cons.mp hx]))
    rw [← htk] at hb
    have := Acc_run (o := o) li hli hts (sharedWith prev li) (sharedWith (some b) li) hb
    simpa [itemsBytes, VTT.runBytes_eq prev (some b) li (VTT.runOk_facts hli).col] using this

theorem Acc_itemsBytes {o : List GTag} (items : List LItem) (hok : ∀ x ∈ items, runOk x = true ∧ tsW2 x = true) :
    Acc o (itemsBytes none items) [] := by
  cases items with
  | nil => simpa [itemsBytes] using Acc_nil o
  | cons li rest =>
    have := Acc_items (o := o) rest li none hok
    simpa [sharedWith] using this

/-! ### the line -/

theorem lineFit_lineOk {l : Line} (h : VTT.lineFit l = true) : VTT.lineOk l = true := by
  simp only [VTT.lineFit, Bool.and_eq_true] at h
  exact h.1.1.1.1.1

theorem line_items_ok {l : Line} (hfit : VTT.lineFit l = true) (hx : lineW2 l = true) :
    ∀ x ∈ l.items, runOk x = true ∧ tsW2 x = true := by
  have hok := lineFit_lineOk hfit
  simp only [VTT.lineOk, Bool.and_eq_true, all_eq_true] at hok
  simp only [lineW2, Bool.and_eq_true, all_eq_true, runW2] at hx
  intro x hm
  exact ⟨hok.1.2 x hm, (hx.2 x hm).1⟩

theorem ready_init (o : List GTag) (v : Option Str) : Ready o [] { stack := o, voice := v } :=
  ⟨by simp, ⟨by simp, by intro r hr; simp at hr⟩⟩

theorem voice_tag_eq (v rest : Str) :
    ("<v ".toList ++ v ++ ['>']) ++ rest = '<' :: (('v' :: ' ' :: v) ++ '>' :: rest) := by
  rw [litVsp]; simp

/-- the decoder at the body of the voice tag -/
theorem tagStep_voiceBody (v : Str) (hv : VTT.voiceOk v = true) (st : TextSt) (hvo : st.voice = none) :
    VTTRead.tagStep ('v' :: ' ' :: v) st = some { st with voice := some v } := by
  simp only [VTT.voiceOk, Bool.and_eq_true, bne_iff_ne, ne_eq] at hv
  obtain ⟨hne, hok⟩ := hv
  have hf := VTT.annOk_facts hok
  have hh : VTTRead.headOf ('v' :: ' ' :: v) = ['v'] := by
    simp [VTTRead.headOf, takeWhile, isBlank]
  have ha : VTTRead.annOf ('v' :: ' ' :: v) = v := by
    unfold VTTRead.annOf
    rw [hh]
    have : drop (['v'] : Str).length ('v' :: ' ' :: v) = [' '] ++ v := rfl
    rw [this, VTTRead.trimSpace_ws_app [' '] _ (by intro d hd; simp at hd; subst hd; decide)]
    exact hf.1
  have hs : ('v' :: ' ' :: v).contains '/' = false := by
    cases hc : ('v' :: ' ' :: v).contains '/' with
    | false => rfl
    | true =>
      have hm : '/' ∈ 'v' :: ' ' :: v := by simpa using hc
      rcases mem_cons.mp hm with e | hm
      · exact absurd e (by decide)
      · rcases mem_cons.mp hm with e | hm
        · exact absurd e (by decide)
        · exact absurd rfl (markup_safe (hf.2 _ hm)).1.2.2.2
  have := tagStep_voice 'v' (' ' :: v) st [] (by decide) (by decide) (by decide) hs
    (by rw [hh]; decide) rfl hvo (by rw [ha]; exact hne)
  rw [this, ha]

theorem voice_chars (v : Str) (hv : VTT.voiceOk v = true) :
    ∀ c ∈ 'v' :: ' ' :: v, c ≠ '>' ∧ c ≠ '<' ∧ c ≠ '&' := by
  simp only [VTT.voiceOk, Bool.and_eq_true, bne_iff_ne, ne_eq] at hv
  have hf := VTT.annOk_facts hv.2
  intro c hc
  rcases mem_cons.mp hc with e | hc
  · subst e; exact ⟨by decide, by decide, by decide⟩
  · rcases mem_cons.mp hc with e | hc
    · subst e; exact ⟨by decide, by decide, by decide⟩
    · exact safe3 (markup_safe (hf.2 _ hc)).1

/-- the line, from any outer stack `o` -/
theorem textLine_lineBody_from (o : List GTag) (l : Line) (hfit : VTT.lineFit l = true) (hx : lineW2 l = true) :
    ∃ st, textLine ((lineBody l).length + 2) (lineBody l) { stack := o } = some st ∧
      st.stack = o ∧ (∀ r ∈ st.runs, r.ts ≠ some 0) := by
  have hitems := line_items_ok hfit hx
  have hacc := Acc_itemsBytes (o := o) l.items hitems
  have hok := lineFit_lineOk hfit
  simp only [VTT.lineOk, Bool.and_eq_true, Bool.or_eq_true, beq_iff_eq] at hok
  obtain ⟨⟨hv, _⟩, _⟩ := hok
  unfold lineBody
  by_cases hvn : l.voice = []
  · rw [if_neg (by simpa using hvn), nil_append]
    exact hacc _ (ready_init o none) _ (by omega)
  · have hvo : VTT.voiceOk l.voice = true := by
      rcases hv with h | h
      · exact absurd h hvn
      · exact h
    rw [if_pos hvn, voice_tag_eq]
    rw [textLine_tag _ _ _ _ (voice_chars l.voice hvo), flushText_empty _ rfl,
      tagStep_voiceBody l.voice hvo _ rfl]
    exact hacc _ (ready_init o (some l.voice)) _ (by simp; omega)

/-- **W2, text part.** The decoder accepts a written cue-text line, ends with an empty tag stack and
    produces no run with the timestamp 0. -/
theorem textLine_lineBody (l : Line) (hfit : VTT.lineFit l = true) (hx : lineW2 l = true) :
    ∃ st, Spec.VTT.textLine ((VTT.lineBody l).length + 2) (VTT.lineBody l) { stack := [] } = some st ∧
      st.stack = [] ∧ (∀ r ∈ st.runs, r.ts ≠ some 0) :=
  textLine_lineBody_from [] l hfit hx

/-- the text lines of a written cue -/
theorem cueText_lineBodies (ls : List Line) (h : ∀ l ∈ ls, VTT.lineFit l = true ∧ lineW2 l = true) :
    ∃ gl, Spec.VTT.cueText (ls.map VTT.lineBody) [] = some gl ∧ ∀ g ∈ gl, ∀ r ∈ g.runs, r.ts ≠ some 0 := by
  induction ls with
  | nil => exact ⟨[], rfl, by intro g hg; simp at hg⟩
  | cons l ls ih =>
    obtain ⟨hfit, hx⟩ := h l (by simp)
    obtain ⟨st, h1, h2, h3⟩ := textLine_lineBody l hfit hx
    obtain ⟨gl, h4, h5⟩ := ih (fun x hm => h x (by simp [hm]))
    refine ⟨{ voice := st.voice.getD [], runs := st.runs } :: gl, ?_, ?_⟩
    · simp only [map_cons, cueText, h1, h2, h4]
    · intro g hg
      rcases mem_cons.mp hg with e | hg
      · subst e; exact h3
      · exact h5 g hg

end VTT3W
end Astisub
