import Astisub.Spec.SRT
import Astisub.Lemmas.SRTLine

/-!
# Lemmas/SRTSpecRuns — the independent decoder's `runsOf` / `cueLines` on written text lines
-/

namespace Astisub
namespace SRTDoc
open Go SRT
open Spec.SRT (GRun Sty runsOf tagAt cueLines)

/-- what the independent decoder should see in a run -/
def viewRun (li : LItem) : Spec.SRT.GRun :=
  { text := li.text, bold := (styleOf li).bold, italic := (styleOf li).italics,
    underline := (styleOf li).underline, color := (styleOf li).color }

/-- the `flush` of `runsOf` -/
def flushS (sty : Sty) (acc : Str) (out : List GRun) : List GRun :=
  if trimSpace acc.reverse = [] then out
  else out ++ [{ text := replacer Spec.SRT.entities acc.reverse, bold := sty.bold, italic := sty.italic,
                 underline := sty.underline, color := sty.color }]

theorem flushS_nil (sty : Sty) (out : List GRun) : flushS sty [] out = out := by
  have : trimSpace ([] : Str) = [] := by decide
  simp [flushS, this]

/-! ## one step of `runsOf` -/

theorem runsOf_nil (fuel : Nat) (sty : Sty) (acc : Str) (out : List GRun) :
    runsOf (fuel + 1) [] sty acc out = some (sty, flushS sty acc out) := by
  simp [runsOf, flushS]

theorem runsOf_char (fuel : Nat) (c : Char) (rest : Str) (sty : Sty) (acc : Str) (out : List GRun) (h : c ≠ '<') :
    runsOf (fuel + 1) (c :: rest) sty acc out = runsOf fuel rest sty (c :: acc) out := by
  simp [runsOf]

theorem runsOf_tag (fuel : Nat) (c : Char) (rest after : Str) (f : Sty → Sty) (sty : Sty) (acc : Str) (out : List GRun)
    (hc : (runsOf.isLetter' c || c = '/' || c = '!' || c = '?') = true)
    (ht : tagAt ('<' :: c :: rest) = some (f, after)) :
    runsOf (fuel + 1) ('<' :: c :: rest) sty acc out = runsOf fuel after (f sty) [] (flushS sty acc out) := by
  rw [runsOf]
  simp only [hc, ↓reduceIte, ht]
  rfl

/-! ## the writer's tags -/

def fB : Sty → Sty := fun y => { y with bold := true }
def fI : Sty → Sty := fun y => { y with italic := true }
def fU : Sty → Sty := fun y => { y with underline := true }
def fEB : Sty → Sty := fun y => { y with bold := false }
def fEI : Sty → Sty := fun y => { y with italic := false }
def fEU : Sty → Sty := fun y => { y with underline := false }
def fEFont : Sty → Sty := fun y => { y with color := none }
def fFont (c : Str) : Sty → Sty := fun y => { y with color := some c }

theorem tagAt_b (rest : Str) : tagAt ('<' :: 'b' :: '>' :: rest) = some (fB, rest) := by
  simp [tagAt, toLowerAscii, hasPrefix, dropPrefix?]; rfl
theorem tagAt_i (rest : Str) : tagAt ('<' :: 'i' :: '>' :: rest) = some (fI, rest) := by
  simp [tagAt, toLowerAscii, hasPrefix, dropPrefix?]; rfl
theorem tagAt_u (rest : Str) : tagAt ('<' :: 'u' :: '>' :: rest) = some (fU, rest) := by
  simp [tagAt, toLowerAscii, hasPrefix, dropPrefix?]; rfl
theorem tagAt_eb (rest : Str) : tagAt ('<' :: '/' :: 'b' :: '>' :: rest) = some (fEB, rest) := by
  simp [tagAt, toLowerAscii, hasPrefix, dropPrefix?]; rfl
theorem tagAt_ei (rest : Str) : tagAt ('<' :: '/' :: 'i' :: '>' :: rest) = some (fEI, rest) := by
  simp [tagAt, toLowerAscii, hasPrefix, dropPrefix?]; rfl
theorem tagAt_eu (rest : Str) : tagAt ('<' :: '/' :: 'u' :: '>' :: rest) = some (fEU, rest) := by
  simp [tagAt, toLowerAscii, hasPrefix, dropPrefix?]; rfl
theorem tagAt_efont (rest : Str) :
    tagAt ('<' :: '/' :: 'f' :: 'o' :: 'n' :: 't' :: '>' :: rest) = some (fEFont, rest) := by
  simp [tagAt, toLowerAscii, hasPrefix, dropPrefix?]; rfl

theorem takeWhile_quote (c rest : Str) (h : '"' ∉ c) : (c ++ '"' :: rest).takeWhile (· != '"') = c := by
  induction c with
  | nil => simp
  | cons x c ih =>
    have hx : x ≠ '"' := fun e => h (by simp [e])
    simp [hx, ih (fun e => h (by simp [e]))]

theorem tagAt_font_aux (c z rest : Str) (hd : z.drop c.length = '"' :: '>' :: rest)
    (htw : z.takeWhile (· != '"') = c) (h2 : '&' ∉ c) (h3 : '>' ∉ c) :
    tagAt ('<' :: 'f' :: 'o' :: 'n' :: 't' :: ' ' :: 'c' :: 'o' :: 'l' :: 'o' :: 'r' :: '=' :: '"' :: z)
      = some (fFont c, rest) := by
  simp [tagAt, toLowerAscii, hasPrefix, dropPrefix?, htw, hd, h2, h3]; rfl

theorem tagAt_font (c rest : Str) (h1 : '"' ∉ c) (h2 : '&' ∉ c) (h3 : '>' ∉ c) :
    tagAt ('<' :: 'f' :: 'o' :: 'n' :: 't' :: ' ' :: 'c' :: 'o' :: 'l' :: 'o' :: 'r' :: '=' :: '"' :: (c ++ '"' :: '>' :: rest))
      = some (fFont c, rest) :=
  tagAt_font_aux c _ rest (by simp) (takeWhile_quote c _ h1) h2 h3

/-! ## enough fuel -/

/-- with more fuel than characters, `runsOf` on `s` from the state `(sty, acc, out)` answers `r` -/
def Good (s : Str) (sty : Sty) (acc : Str) (out : List GRun) (r : Sty × List GRun) : Prop :=
  ∀ fuel, s.length < fuel → runsOf fuel s sty acc out = some r

theorem good_nil (sty : Sty) (acc : Str) (out : List GRun) : Good [] sty acc out (sty, flushS sty acc out) := by
  intro fuel hf
  obtain ⟨n, rfl⟩ : ∃ n, fuel = n + 1 := ⟨fuel - 1, by simp at hf; omega⟩
  exact runsOf_nil n sty acc out

theorem good_char {c : Char} {rest : Str} {sty : Sty} {acc : Str} {out : List GRun} {r : Sty × List GRun}
    (hc : c ≠ '<') (h : Good rest sty (c :: acc) out r) : Good (c :: rest) sty acc out r := by
  intro fuel hf
  obtain ⟨n, rfl⟩ : ∃ n, fuel = n + 1 := ⟨fuel - 1, by simp at hf; omega⟩
  rw [runsOf_char n c rest sty acc out hc]
  exact h n (by simp at hf; omega)

theorem good_text {t rest : Str} {sty : Sty} {acc : Str} {out : List GRun} {r : Sty × List GRun}
    (ht : '<' ∉ t) (h : Good rest sty (t.reverse ++ acc) out r) : Good (t ++ rest) sty acc out r := by
  induction t generalizing acc with
  | nil => simpa using h
  | cons c t ih =>
    have hc : c ≠ '<' := fun e => ht (by simp [e])
    rw [List.cons_append]
    apply good_char hc
    apply ih (fun e => ht (by simp [e]))
    simpa using h

/-- `raw` is a tag the decoder recognises, with style update `f` -/
def TagOK (raw : Str) (f : Sty → Sty) : Prop :=
  ∃ c raw', raw = '<' :: c :: raw' ∧ (runsOf.isLetter' c || c = '/' || c = '!' || c = '?') = true
    ∧ ∀ rest, tagAt (raw ++ rest) = some (f, rest)

theorem good_tag {raw rest : Str} {f : Sty → Sty} {sty : Sty} {acc : Str} {out : List GRun} {r : Sty × List GRun}
    (ht : TagOK raw f) (h : Good rest (f sty) [] (flushS sty acc out) r) : Good (raw ++ rest) sty acc out r := by
  obtain ⟨c, raw', rfl, hc, htag⟩ := ht
  intro fuel hf
  obtain ⟨n, rfl⟩ : ∃ n, fuel = n + 1 := ⟨fuel - 1, by simp at hf; omega⟩
  have ht' := htag rest
  simp only [List.cons_append] at ht' ⊢
  rw [runsOf_tag n c (raw' ++ rest) rest f sty acc out hc ht']
  exact h n (by simp at hf; omega)

theorem good_opt {raw rest : Str} {f : Sty → Sty} {sty : Sty} {acc : Str} {out : List GRun} {r : Sty × List GRun}
    (b : Bool) (ht : TagOK raw f)
    (h : Good rest (if b then f sty else sty) (if b then [] else acc) (if b then flushS sty acc out else out) r) :
    Good ((if b then raw else []) ++ rest) sty acc out r := by
  cases b with
  | false => simpa using h
  | true => exact good_tag ht (by simpa using h)

theorem raw_font (c rest : Str) : (tokFont c).raw ++ rest
    = '<' :: 'f' :: 'o' :: 'n' :: 't' :: ' ' :: 'c' :: 'o' :: 'l' :: 'o' :: 'r' :: '=' :: '"' :: (c ++ '"' :: '>' :: rest) := by
  have e1 : (tokFont c).raw = "<font color=\"".toList ++ c ++ "\">".toList := rfl
  have e2 : "<font color=\"".toList
      = '<' :: 'f' :: 'o' :: 'n' :: 't' :: ' ' :: 'c' :: 'o' :: 'l' :: 'o' :: 'r' :: '=' :: ['"'] := rfl
  have e3 : "\">".toList = ['"', '>'] := rfl
  rw [e1, e2, e3, List.append_assoc, List.append_assoc]
  rfl

theorem tagOK_b : TagOK tokB.raw fB := ⟨'b', ['>'], rfl, by decide, fun rest => tagAt_b rest⟩
theorem tagOK_i : TagOK tokI.raw fI := ⟨'i', ['>'], rfl, by decide, fun rest => tagAt_i rest⟩
theorem tagOK_u : TagOK tokU.raw fU := ⟨'u', ['>'], rfl, by decide, fun rest => tagAt_u rest⟩
theorem tagOK_eb : TagOK tokEB.raw fEB := ⟨'/', ['b', '>'], rfl, by decide, fun rest => tagAt_eb rest⟩
theorem tagOK_ei : TagOK tokEI.raw fEI := ⟨'/', ['i', '>'], rfl, by decide, fun rest => tagAt_ei rest⟩
theorem tagOK_eu : TagOK tokEU.raw fEU := ⟨'/', ['u', '>'], rfl, by decide, fun rest => tagAt_eu rest⟩
theorem tagOK_efont : TagOK tokEFont.raw fEFont :=
  ⟨'/', ['f', 'o', 'n', 't', '>'], rfl, by decide, fun rest => tagAt_efont rest⟩

theorem colorRep_mem {c : Str} (h : colorRep c = true) : '"' ∉ c ∧ '&' ∉ c ∧ '>' ∉ c := by
  refine ⟨?_, ?_, ?_⟩ <;> intro hm <;> have := List.all_eq_true.mp h _ hm <;> simp at this

theorem tagOK_font (c : Str) (h : colorRep c = true) : TagOK (tokFont c).raw (fFont c) := by
  obtain ⟨h1, h2, h3⟩ := colorRep_mem h
  refine ⟨'f', 'o' :: 'n' :: 't' :: ' ' :: 'c' :: 'o' :: 'l' :: 'o' :: 'r' :: '=' :: '"' :: (c ++ ['"', '>']), ?_,
    by decide, ?_⟩
  · have := raw_font c []
    simpa using this
  · intro rest
    rw [raw_font]
    exact tagAt_font c rest h1 h2 h3

/-! ## the tags around a run -/

def styOf (r : Run) : Sty := { bold := r.bold, italic := r.italics, underline := r.underline, color := r.color }

def fontOpen : Option Str → Str
  | some c => (tokFont c).raw
  | none => []

def openStr (r : Run) : Str :=
  fontOpen r.color ++ ((if r.bold then tokB.raw else []) ++ ((if r.italics then tokI.raw else [])
    ++ (if r.underline then tokU.raw else [])))

def closeStr (r : Run) : Str :=
  (if r.underline then tokEU.raw else []) ++ ((if r.italics then tokEI.raw else [])
    ++ ((if r.bold then tokEB.raw else []) ++ (if r.color.isSome then tokEFont.raw else [])))

theorem openers_raw (r : Run) : (openers r).flatMap Tok.raw = openStr r := by
  rcases r with ⟨b, i, u, c⟩
  cases b <;> cases i <;> cases u <;> cases c <;>
    simp [openers, openStr, fontOpen]

theorem closers_raw (r : Run) : (closers r).flatMap Tok.raw = closeStr r := by
  rcases r with ⟨b, i, u, c⟩
  cases b <;> cases i <;> cases u <;> cases c <;>
    simp [closers, closeStr]

theorem good_optFont {rest : Str} {sty : Sty} {acc : Str} {out : List GRun} {r : Sty × List GRun}
    (c : Option Str) (hc : ∀ x, c = some x → colorRep x = true)
    (h : Good rest (if c.isSome then { sty with color := c } else sty) (if c.isSome then [] else acc)
      (if c.isSome then flushS sty acc out else out) r) :
    Good (fontOpen c ++ rest) sty acc out r := by
  cases c with
  | none => simpa [fontOpen] using h
  | some x => exact good_tag (tagOK_font x (hc x rfl)) (by simpa [fFont] using h)

/-- the opening tags of a styled run: the pending text is flushed, the style is the run's -/
theorem good_open {r : Run} {rest : Str} {acc : Str} {out : List GRun} {res : Sty × List GRun}
    (hs : styled r = true) (hc : ∀ x, r.color = some x → colorRep x = true)
    (h : Good rest (styOf r) [] (flushS {} acc out) res) : Good (openStr r ++ rest) {} acc out res := by
  unfold openStr
  simp only [List.append_assoc]
  apply good_optFont r.color hc
  apply good_opt r.bold tagOK_b
  apply good_opt r.italics tagOK_i
  apply good_opt r.underline tagOK_u
  rcases r with ⟨b, i, u, c⟩
  cases b <;> cases i <;> cases u <;> cases c <;>
    first
    | (simpa [flushS_nil, styOf, fB, fI, fU] using h)
    | (simp [styled] at hs)

/-- the closing tags of a styled run: the run is flushed, the style is empty again -/
theorem good_close {r : Run} {rest : Str} {acc : Str} {out : List GRun} {res : Sty × List GRun}
    (hs : styled r = true)
    (h : Good rest {} [] (flushS (styOf r) acc out) res) : Good (closeStr r ++ rest) (styOf r) acc out res := by
  unfold closeStr
  simp only [List.append_assoc]
  apply good_opt r.underline tagOK_eu
  apply good_opt r.italics tagOK_ei
  apply good_opt r.bold tagOK_eb
  apply good_opt r.color.isSome tagOK_efont
  rcases r with ⟨b, i, u, c⟩
  cases b <;> cases i <;> cases u <;> cases c <;>
    first
    | (simpa [flushS_nil, styOf, fEB, fEI, fEU, fEFont] using h)
    | (simp [styled] at hs)

/-! ## a run -/

theorem entities_eq : Spec.SRT.entities = unescapePairs := rfl

theorem flush_run (li : LItem) (h : RepRun li = true) (out : List GRun) :
    flushS (styOf (styleOf li)) (escapeHTML li.text).reverse out = out ++ [viewRun li] := by
  have hb := escape_not_blank li.text (repRun_vis h)
  have hu : replacer Spec.SRT.entities (escapeHTML li.text) = li.text := C01.unescape_escape li.text
  unfold flushS
  rw [List.reverse_reverse]
  simp only [hb, ↓reduceIte, hu]
  rfl

theorem styOf_plain (r : Run) (h : styled r = false) : styOf r = {} := by
  rcases r with ⟨b, i, u, c⟩
  cases b <;> cases i <;> cases u <;> cases c <;> simp [styled] at h ⊢ <;> rfl

theorem good_run_styled (li : LItem) (h : RepRun li = true) (hs : styled (styleOf li) = true)
    {rest acc : Str} {out : List GRun} {res : Sty × List GRun}
    (hg : Good rest {} [] (flushS {} acc out ++ [viewRun li]) res) :
    Good (runBytes li ++ rest) {} acc out res := by
  rw [runBytes_parts li h, openers_raw, closers_raw]
  simp only [List.append_assoc]
  apply good_open hs (repRun_color h)
  apply good_text (C01.escape_no_lt li.text)
  apply good_close hs
  rw [List.append_nil, flush_run li h]
  exact hg

theorem good_run_plain (li : LItem) (h : RepRun li = true) (hs : styled (styleOf li) = false)
    {rest : Str} {out : List GRun} {res : Sty × List GRun}
    (hg : Good rest {} (escapeHTML li.text).reverse out res) :
    Good (runBytes li ++ rest) {} [] out res := by
  rw [plain_runBytes li h hs]
  apply good_text (C01.escape_no_lt li.text)
  rw [List.append_nil]
  exact hg

/-! ## a line -/

/-- **Runs.** a written line comes back as its runs, un-merged, and the running style is empty again -/
theorem good_runs (items : List LItem) (hrep : ∀ li ∈ items, RepRun li = true) (hadj : noAdjPlain items = true) :
    ∀ (acc : Str) (out : List GRun),
      (acc = [] ∨ (match items.head? with | some li => styled (styleOf li) = true | none => True)) →
      Good (items.map runBytes).flatten {} acc out ({}, flushS {} acc out ++ items.map viewRun) := by
  induction items with
  | nil =>
    intro acc out _
    simpa using good_nil {} acc out
  | cons li rest ih =>
    intro acc out hacc
    have hli := hrep li (by simp)
    have hrest : ∀ x ∈ rest, RepRun x = true := fun x hx => hrep x (by simp [hx])
    have hadj' : noAdjPlain rest = true := by
      cases rest with
      | nil => rfl
      | cons b r => simp only [noAdjPlain, Bool.and_eq_true] at hadj; exact hadj.2
    rw [List.map_cons, List.flatten_cons]
    cases hs : styled (styleOf li) with
    | true =>
      apply good_run_styled li hli hs
      have := ih hrest hadj' [] (flushS {} acc out ++ [viewRun li]) (Or.inl rfl)
      rw [flushS_nil] at this
      simpa using this
    | false =>
      have hacc0 : acc = [] := by
        rcases hacc with hq | hq
        · exact hq
        · simp [hs] at hq
      subst hacc0
      apply good_run_plain li hli hs
      have hnext : (escapeHTML li.text).reverse = [] ∨
          (match rest.head? with | some li => styled (styleOf li) = true | none => True) := by
        right
        cases rest with
        | nil => trivial
        | cons b r =>
          simp only [noAdjPlain, Bool.and_eq_true, plainRun, hs] at hadj
          simpa using hadj.1
      have := ih hrest hadj' (escapeHTML li.text).reverse out hnext
      have hf := flush_run li hli out
      rw [styOf_plain _ hs] at hf
      rw [hf] at this
      rw [flushS_nil]
      simpa using this

theorem runsOf_lineStr (l : Line) (h : RepLine l = true) (fuel : Nat) (hf : (lineStr l).length < fuel) :
    runsOf fuel (lineStr l) {} [] [] = some ({}, l.items.map viewRun) := by
  have := good_runs l.items (repLine_runs h) (repLine_noAdj h) [] [] (Or.inl rfl) fuel hf
  rw [flushS_nil] at this
  unfold lineStr
  simpa using this

/-- **Text lines of a cue.** -/
theorem cueLines_lines (ls : List Line) (h : ∀ l ∈ ls, RepLine l = true) :
    cueLines (ls.map lineStr) {} = some (ls.map fun l => l.items.map viewRun) := by
  induction ls with
  | nil => rfl
  | cons l ls ih =>
    have hl := h l (by simp)
    have hne : (l.items.map viewRun).isEmpty = false := by
      have := repLine_items_ne hl
      cases hi : l.items with
      | nil => exact absurd hi this
      | cons a b => rfl
    rw [List.map_cons, cueLines, runsOf_lineStr l hl _ (by omega)]
    simp only [ih (fun x hx => h x (by simp [hx])), hne]
    simp

end SRTDoc
end Astisub
