import Astisub.Lemmas.VTT2Doc

/-!
# Lemmas/VTT2Final — header, STYLE block, region block, cues: the document-level round trip
-/

namespace Astisub
namespace VTT
open Go List

/-! ### region block -/

theorem run_regionLines (s : Subs) (ds : List Def) (hok : ∀ d ∈ ds, regionOk s d = true) (more : List (Option Str)) :
    ∀ (st : St), st.block = .none →
      run st ((ds.map (regionLine s)).map some ++ more)
        = run { st with regions := ds.foldl (fun acc d => setDef acc (readRegion s d)) st.regions } more := by
  induction ds with
  | nil => intro st _; simp
  | cons d ds ih =>
    intro st hb
    simp only [map_cons, cons_append, run]
    rw [step_region s d (hok d (by simp)) st hb]
    simp only []
    refine (ih (fun x hx => hok x (by simp [hx])) { st with regions := setDef st.regions (readRegion s d) } hb).trans ?_
    simp

theorem foldl_setDef (s : Subs) (ds : List Def) : ∀ (acc : List Def), (ds.map (·.id)).Nodup →
    (∀ d ∈ ds, acc.any (·.id = d.id) = false) →
    ds.foldl (fun acc d => setDef acc (readRegion s d)) acc = acc ++ ds.map (readRegion s) := by
  induction ds with
  | nil => intro acc _ _; simp
  | cons d ds ih =>
    intro acc hnd hacc
    simp only [map_cons, nodup_cons, mem_map, not_exists, not_and] at hnd
    have h1 : setDef acc (readRegion s d) = acc ++ [readRegion s d] := by
      unfold setDef
      have : acc.any (fun x => decide (x.id = (readRegion s d).id)) = false := hacc d (by simp)
      simp [this]
    rw [foldl_cons, h1, ih (acc ++ [readRegion s d]) hnd.2]
    · simp
    · intro d' hd'
      rw [any_append, hacc d' (by simp [hd'])]
      have : ¬ d.id = d'.id := fun e => hnd.1 d' hd' e.symm
      simp [readRegion, this]

/-- the regions the reader holds after the region block -/
def readRegions (s : Subs) : List Def := (VTT.sortDefs s.regions).map (readRegion s)

theorem sortDefs_nil : VTT.sortDefs [] = [] := by simp [VTT.sortDefs]

theorem run_regionBlock (s : Subs) (hok : ∀ d ∈ s.regions, regionOk s d = true) (hnd : (s.regions.map (·.id)).Nodup)
    (more : List (Option Str)) (st : St) (hb : (C02.blankStep st).block = .none) (hr : st.regions = [])
    (htg : st.tags = []) :
    ∃ st', run st ((regionBlock s).map some ++ more) = run st' more ∧ st'.regions = readRegions s ∧
      (C02.blankStep st').block = .none ∧ st'.styles = st.styles ∧ st'.styleSeen = st.styleSeen ∧ st'.tags = [] ∧
      st'.comments = st.comments ∧ st'.tsmap = st.tsmap ∧ flush st' = flush st := by
  unfold regionBlock
  cases hreg : s.regions with
  | nil =>
    refine ⟨st, by simp, ?_, hb, rfl, rfl, htg, rfl, rfl, rfl⟩
    simp [readRegions, hreg, sortDefs_nil, hr]
  | cons d0 ds0 =>
    rw [← hreg]
    have hperm : (VTT.sortDefs s.regions).Perm s.regions := mergeSort_perm _ _
    have hok' : ∀ d ∈ VTT.sortDefs s.regions, regionOk s d = true := fun d hd => hok d (hperm.mem_iff.mp hd)
    have hnd' : ((VTT.sortDefs s.regions).map (·.id)).Nodup := (hperm.map _).nodup_iff.mpr hnd
    have hne : s.regions.isEmpty = false := by rw [hreg]; rfl
    simp only [hne, Bool.false_eq_true, if_false, map_cons, cons_append, run, C02.step_blank]
    rw [run_regionLines s _ hok' more _ hb]
    refine ⟨_, rfl, ?_, ?_, by simp [C02.blankStep], by simp [C02.blankStep], by simp [C02.blankStep],
      by simp [C02.blankStep], by simp [C02.blankStep], by simp [C02.blankStep, flush]⟩
    · have : (C02.blankStep st).regions = [] := by simp [C02.blankStep, hr]
      simp only [this]
      rw [foldl_setDef s _ [] hnd' (by intro d _; rfl)]
      simp [readRegions]
    · exact C02.blank_ends_block _ (Or.inl (by show (C02.blankStep st).block ≠ _; rw [hb]; decide))

/-! ### STYLE block -/

/-- the CSS block can be closed: its last line ends with `}` -/
def styleEndOk (s : Subs) : Bool := ((styleLines s).getLast?.map (hasSuffix ['}'])) != some false

theorem run_styleBlock2 (s : Subs) (hls : ∀ l ∈ styleLines s, styleLineOk l = true) (hend : styleEndOk s = true)
    (more : List (Option Str)) (st : St) (hb : st.block = .none) (hs : st.styleSeen = false) (hst : st.styles = [])
    (htg : st.tags = []) :
    ∃ st', run st ((styleBlock s).map some ++ more) = run st' more ∧ st'.styles = styleLines s ∧
      st'.styleSeen = !(styleLines s).isEmpty ∧ st'.tags = [] ∧ (C02.blankStep st').block = .none ∧
      st'.comments = st.comments ∧ st'.regions = st.regions ∧ st'.tsmap = st.tsmap ∧ flush st' = flush st := by
  unfold styleBlock
  cases hsl : styleLines s with
  | nil =>
    refine ⟨st, by simp, hst, by simp [hs], htg, ?_, rfl, rfl, rfl, rfl⟩
    exact C02.blank_ends_block st (Or.inl (by rw [hb]; decide))
  | cons a l =>
    rw [← hsl]
    have hne : (styleLines s).isEmpty = false := by rw [hsl]; rfl
    simp only [hne, Bool.false_eq_true, if_false, Bool.not_false]
    rw [run_styleBlock (styleLines s) hls more st hb hs]
    refine ⟨_, rfl, rfl, rfl, rfl, ?_, rfl, rfl, rfl, rfl⟩
    apply C02.blank_ends_block
    right; right
    show hasSuffix ['}'] ((styleLines s).getLast?.getD []) = true
    unfold styleEndOk at hend
    cases hl : (styleLines s).getLast? with
    | none => rw [hsl] at hl; simp at hl
    | some z =>
      rw [hl] at hend
      show hasSuffix ['}'] z = true
      cases hz : hasSuffix ['}'] z with
      | true => rfl
      | false => simp [hz] at hend

/-! ### timestamp map -/

/-- the timestamp map can be carried: when the metadata value has the two comma-separated parts
    the writer prints, the first is an `int` in `[0, 100 h)` and the second an `int`
    (a value of another shape is not written at all) -/
def tsmapOk (s : Subs) : Bool :=
  match SRT.kvGet s.metadata "WebVTTTimestampMap" with
  | none => true
  | some v =>
    match splitC ',' v with
    | [l, m] =>
      (match atoi l with
       | some lv => decide (0 ≤ lv) && decide (lv < 360000000000000)
       | none => false) && (atoi m).isSome
    | _ => true

/-- the map the reader holds: `LOCAL` truncated to the millisecond, `MPEGTS` as it is -/
def tsmapVal (s : Subs) : Option (Int × Int) :=
  match SRT.kvGet s.metadata "WebVTTTimestampMap" with
  | none => none
  | some v =>
    match splitC ',' v with
    | [l, m] => some ((atoi l).getD 0 - (atoi l).getD 0 % 1000000, (atoi m).getD 0)
    | _ => none

theorem run_tsmapLines (s : Subs) (hok : tsmapOk s = true) (more : List (Option Str)) :
    run {} ((tsmapLines s).map some ++ more) = run { tsmap := tsmapVal s } more := by
  unfold tsmapOk at hok
  unfold tsmapLines tsmapVal
  cases hkv : SRT.kvGet s.metadata "WebVTTTimestampMap" with
  | none => rfl
  | some v =>
    rw [hkv] at hok
    simp only [] at hok ⊢
    generalize splitC ',' v = parts at hok ⊢
    match parts, hok with
    | [], _ => rfl
    | [_], _ => rfl
    | _ :: _ :: _ :: _, _ => rfl
    | [l, m], hok =>
      simp only [Bool.and_eq_true] at hok
      obtain ⟨hl, hm⟩ := hok
      have hmc := atoi_signDig hm
      cases hal : atoi l with
      | none => rw [hal] at hl; cases hl
      | some lv =>
        rw [hal] at hl
        simp only [Bool.and_eq_true, decide_eq_true_eq] at hl
        cases ham : atoi m with
        | none => rw [ham] at hm; cases hm
        | some mv =>
          obtain ⟨f1, f2, f3⟩ := format_facts lv hl.1 hl.2
          have hstep := step_tsLine {} (Duration.formatVTT lv) m _ mv f1 hmc f2 f3 ham rfl rfl
          simp only [hal, ham, map_cons, map_nil, cons_append, nil_append, run, Option.getD_some]
          rw [show ("X-TIMESTAMP-MAP=LOCAL:".toList ++ Duration.formatVTT lv ++ ",MPEGTS:".toList ++ m)
            = tsLine (Duration.formatVTT lv) m from rfl, hstep]

/-! ### the document -/

/-- **The proviso of the document-level round trip** (decidable): at least one cue; every cue
    `cueOk2` (comment block, region reference, instants, settings, lines); at most `int64` cues;
    every region `regionOk`, region identifiers pairwise different; every CSS line `styleLineOk`
    and the last one closing the block; the timestamp map `tsmapOk` -/
def DocOk (s : Subs) : Bool :=
  !s.items.isEmpty && s.items.all (cueOk2 s) && decide (s.items.length ≤ int64Max) &&
  s.regions.all (regionOk s) && decide ((s.regions.map (·.id)).Nodup) &&
  (styleLines s).all styleLineOk && styleEndOk s && tsmapOk s

structure DocFacts (s : Subs) : Prop where
  ne : s.items ≠ []
  cues : ∀ it ∈ s.items, cueOk2 s it = true
  len : s.items.length ≤ int64Max
  regs : ∀ d ∈ s.regions, regionOk s d = true
  nodup : (s.regions.map (·.id)).Nodup
  sty : ∀ l ∈ styleLines s, styleLineOk l = true
  styEnd : styleEndOk s = true
  ts : tsmapOk s = true

theorem docOk_facts {s : Subs} (h : DocOk s = true) : DocFacts s := by
  simp only [DocOk, Bool.and_eq_true, Bool.not_eq_true', all_eq_true, decide_eq_true_eq] at h
  obtain ⟨⟨⟨⟨⟨⟨⟨h1, h2⟩, h3⟩, h4⟩, h5⟩, h6⟩, h7⟩, h8⟩ := h
  exact ⟨(by intro e; rw [e] at h1; cases h1), h2, h3, h4, h5, h6, h7, h8⟩

/-- what the reader returns for the written document: every cue with its number, truncated
    instants, resolved settings, region reference, comments and lines (`readCue2`); every region in
    identifier order with its resolved attributes (`readRegion`); the CSS lines as the default
    style; the timestamp map with `LOCAL` truncated to the millisecond -/
def wanted2 (s : Subs) : Subs :=
  { items := s.items.zipIdx.map fun x => readCue2 s x.2 x.1,
    regions := readRegions s,
    styles := if (styleLines s).isEmpty then [] else
      [{ id := defaultStyleID,
         attrs := some (mkAttrs [("WebVTTStyles", some (join ['\n'] (styleLines s))), ("WebVTTTags", none)]) }],
    metadata := (tsmapVal s).map fun (l, m) => [("WebVTTTimestampMap".toList, itoa l ++ ',' :: itoa m)] }

theorem any_readRegions (s : Subs) (r : Str) (h : s.regions.any (·.id = r) = true) :
    (readRegions s).any (·.id = r) = true := by
  simp only [any_eq_true, decide_eq_true_eq] at h ⊢
  obtain ⟨d, hd, hid⟩ := h
  have hperm : (VTT.sortDefs s.regions).Perm s.regions := mergeSort_perm _ _
  exact ⟨readRegion s d, mem_map_of_mem (hperm.mem_iff.mpr hd), hid⟩

theorem region_of_cueOk2 {s : Subs} {it : CItem} (h : cueOk2 s it = true) (r : Str) (hr : it.region = some r) :
    s.regions.any (·.id = r) = true := by
  simp only [cueOk2, Bool.and_eq_true] at h
  have := h.1.1.1.1.1.1.1.1.1.1.2
  rw [hr] at this
  simp only [regionRefOk, Bool.and_eq_true] at this
  exact this.2

/-- **Document (general).** the reader, given the lines of the written document, returns `wanted2 s` -/
theorem read_docLines2 (s : Subs) (hok : DocOk s = true) :
    read ((docLines2 s).map some) = .ok (wanted2 s) := by
  have F := docOk_facts hok
  have hshape : (docLines2 s).map some = some "WEBVTT".toList :: ((tsmapLines s).map some ++
      ((styleBlock s).map some ++ ((regionBlock s).map some ++ (cuesLines2 s 0 s.items).map some))) := by
    simp [docLines2]
  obtain ⟨st2, hrun2, a1, a2, a3, a4, a5, a6, a7, a8⟩ :=
    run_styleBlock2 s F.sty F.styEnd ((regionBlock s).map some ++ (cuesLines2 s 0 s.items).map some)
      { tsmap := tsmapVal s } rfl rfl rfl rfl
  obtain ⟨st3, hrun3, b1, b2, b3, b4, b5, b6, b7, b8⟩ :=
    run_regionBlock s F.regs F.nodup ((cuesLines2 s 0 s.items).map some) st2 a4 a6 a3
  obtain ⟨st4, hrun4, c1, c2, c3, c4, c5, c6⟩ :=
    run_cues2 s s.items 0 st3 F.cues (by have := F.len; omega) b2 (by rw [b6, a5]) b5
      (fun it hit r hr => by rw [b1]; exact any_readRegions s r (region_of_cueOk2 (F.cues it hit) r hr))
  rw [hshape]
  simp only [read, skipHeader_webvtt]
  rw [run_tsmapLines s F.ts, hrun2, hrun3, hrun4]
  simp only []
  have hitems : flush st4 = s.items.zipIdx.map fun x => readCue2 s x.2 x.1 := by
    rw [c1, b8, a8]; simp [flush]
  have hregs : st4.regions = readRegions s := by rw [c3, b1]
  have hseen : st4.styleSeen = !(styleLines s).isEmpty := by rw [c4, b4, a2]
  have hsty : st4.styles = styleLines s := by rw [c5, b3, a1]
  have hts : st4.tsmap = tsmapVal s := by rw [c6, b7, a7]
  congr 1
  unfold result wanted2
  rw [hitems, hregs, hseen, hsty, hts, c2]
  cases hsl : (styleLines s).isEmpty <;> simp

/-! ### from the written text to its lines -/

theorem noBreak_of_B {l : Str} (h : noBreakB l = true) : NoBreak l := by
  simp only [noBreakB, all_eq_true, Bool.not_eq_true', Bool.or_eq_false_iff, beq_eq_false_iff_ne, ne_eq] at h
  exact fun c hc => h c hc

theorem noBreak_lit (l : Str) (h : noBreakB l = true) : NoBreak l := noBreak_of_B h

theorem noBreak_commentLines (cs : List Str) (h : commentsOk cs = true) : ∀ l ∈ commentLines cs, NoBreak l := by
  cases cs with
  | nil => intro l hl; simp [commentLines] at hl
  | cons c cs =>
    simp only [commentsOk, Bool.and_eq_true, all_eq_true] at h
    intro l hl
    simp only [commentLines, mem_cons, mem_append, not_mem_nil, or_false] at hl
    rcases hl with (rfl | hl) | rfl
    · have hc := h.1
      simp only [firstCommentOk, Bool.and_eq_true] at hc
      exact noBreak_append (noBreak_lit _ (by decide)) (noBreak_of_B hc.2)
    · have hc := h.2 l hl
      simp only [contCommentOk, firstCommentOk, Bool.and_eq_true] at hc
      exact noBreak_of_B hc.1.1.1.2
    · intro c hc; simp at hc

theorem noBreak_cueCore2 (s : Subs) (k : Nat) (it : CItem) (hok : cueOk2 s it = true) :
    ∀ l ∈ cueCore s k it, NoBreak l := by
  simp only [cueOk2, Bool.and_eq_true, decide_eq_true_eq, all_eq_true] at hok
  obtain ⟨⟨⟨⟨⟨⟨⟨⟨⟨⟨⟨hc, hr⟩, hs0⟩, hs1⟩, he0⟩, he1⟩, hal⟩, hln⟩, hpo⟩, hsz⟩, hve⟩, hlines⟩ := hok
  intro l hl
  simp only [cueCore, cons_append, nil_append, mem_cons, mem_map] at hl
  rcases hl with rfl | rfl | ⟨x, hx, rfl⟩
  · exact noBreak_of_noSpace (VTT.digitStr_itoaNat (k + 1)).noSpace
  · exact noBreak_timing _ _ hs0 hs1 he0 he1 _ _ _ _ _ _ hal hln hpo (optOk_of_ref hr) hsz hve
  · have := hlines x hx
    simp only [lineFit, Bool.and_eq_true, all_eq_true, Bool.not_eq_true', Bool.or_eq_false_iff, beq_eq_false_iff_ne, ne_eq] at this
    exact fun c hc => this.2 c hc

theorem noBreak_cuesLines2 (s : Subs) (items : List CItem) : ∀ (k : Nat), (∀ it ∈ items, cueOk2 s it = true) →
    ∀ l ∈ cuesLines2 s k items, NoBreak l := by
  induction items with
  | nil => intro k _ l hl; simp [cuesLines2] at hl
  | cons it rest ih =>
    intro k h l hl
    simp only [cuesLines2, cueLines2, cons_append, mem_cons, mem_append] at hl
    rcases hl with rfl | (hl | hl) | hl
    · intro c hc; simp at hc
    · have hc := h it (by simp)
      simp only [cueOk2, Bool.and_eq_true] at hc
      exact noBreak_commentLines _ hc.1.1.1.1.1.1.1.1.1.1.1 l hl
    · exact noBreak_cueCore2 s k it (h it (by simp)) l hl
    · exact ih (k + 1) (fun x hx => h x (by simp [hx])) l hl

theorem noBreak_regionLine (s : Subs) (d : Def) (hok : regionOk s d = true) : NoBreak (regionLine s d) := by
  simp only [regionOk, Bool.and_eq_true] at hok
  obtain ⟨⟨⟨⟨⟨hid, hli⟩, han⟩, hsc⟩, hvp⟩, hwi⟩ := hok
  rw [regionLine_eq]
  exact noBreak_append (noBreak_lit _ (by decide)) (noBreak_spaced _ (regWords_ok d.id _ _ _ _ _ hid hli han hsc hvp hwi))

theorem noBreak_tsLine (F m : Str) (hF : ∀ c ∈ F, timeChar c = true) (hm : ∀ c ∈ m, signDig c = true) :
    NoBreak (tsLine F m) := by
  apply noBreak_of_noSpace
  intro c hc
  rw [tsLine_eq] at hc
  rcases mem_append.mp hc with hc' | hc
  · exact (show ∀ c ∈ "X-TIMESTAMP-MAP".toList, isSpace c = false by decide) c hc'
  · rcases mem_cons.mp hc with rfl | hc
    · decide
    · by_cases hcomma : c = ','
      · subst hcomma; decide
      · exact (plainC_spec (tsLine_plain F m hF hm c hc hcomma)).1

theorem noBreak_tsmapLines (s : Subs) (hok : tsmapOk s = true) : ∀ l ∈ tsmapLines s, NoBreak l := by
  unfold tsmapOk at hok
  unfold tsmapLines
  cases hkv : SRT.kvGet s.metadata "WebVTTTimestampMap" with
  | none => intro l hl; simp at hl
  | some v =>
    rw [hkv] at hok
    simp only [] at hok ⊢
    generalize splitC ',' v = parts at hok ⊢
    match parts, hok with
    | [], _ => intro l hl; simp at hl
    | [_], _ => intro l hl; simp at hl
    | _ :: _ :: _ :: _, _ => intro l hl; simp at hl
    | [l, m], hok =>
      simp only [Bool.and_eq_true] at hok
      obtain ⟨hl, hm⟩ := hok
      have hmc := atoi_signDig hm
      cases hal : atoi l with
      | none => rw [hal] at hl; cases hl
      | some lv =>
        rw [hal] at hl
        simp only [Bool.and_eq_true, decide_eq_true_eq] at hl
        intro x hx
        simp only [mem_singleton, hal, Option.getD_some] at hx
        subst hx
        exact noBreak_tsLine _ m (format_facts lv hl.1 hl.2).1 hmc

theorem noBreak_docLines2 (s : Subs) (hok : DocOk s = true) : ∀ l ∈ docLines2 s, NoBreak l := by
  have F := docOk_facts hok
  intro l hl
  simp only [docLines2, cons_append, mem_cons, mem_append] at hl
  rcases hl with rfl | ((hl | hl) | hl) | hl
  · exact noBreak_lit _ (by decide)
  · exact noBreak_tsmapLines s F.ts l hl
  · unfold styleBlock at hl
    split at hl
    · simp at hl
    · simp only [mem_cons] at hl
      rcases hl with rfl | rfl | hl
      · intro c hc; simp at hc
      · exact noBreak_lit _ (by decide)
      · have := F.sty l hl
        simp only [styleLineOk, Bool.and_eq_true] at this
        exact noBreak_of_B this.1.1.1.1.1.1.2
  · unfold regionBlock at hl
    split at hl
    · simp at hl
    · simp only [mem_cons, mem_map] at hl
      rcases hl with rfl | ⟨d, hd, rfl⟩
      · intro c hc; simp at hc
      · have hperm : (VTT.sortDefs s.regions).Perm s.regions := mergeSort_perm _ _
        exact noBreak_regionLine s d (F.regs d (hperm.mem_iff.mp hd))
  · exact noBreak_cuesLines2 s s.items 0 F.cues l hl

/-- **Write → read (general).** a cue list satisfying `DocOk` is written; the written text has no
    carriage return; the reader, given the lines of the text, returns `wanted2 s` -/
theorem read_write2 (s : Subs) (hok : DocOk s = true) :
    ∃ doc, write s = some doc ∧ '\r' ∉ doc ∧ read (textLines doc) = .ok (wanted2 s) := by
  have F := docOk_facts hok
  refine ⟨_, write_lines2 s F.ne, ?_, ?_⟩
  · intro hc
    simp only [unlines, mem_flatten, mem_map] at hc
    obtain ⟨_, ⟨l, hl, rfl⟩, hcl⟩ := hc
    rcases mem_append.mp hcl with h | h
    · exact (noBreak_docLines2 s hok l hl _ h).2 rfl
    · simp at h
  · rw [textLines_unlines _ (noBreak_docLines2 s hok)]
    exact read_docLines2 s hok

end VTT
end Astisub
