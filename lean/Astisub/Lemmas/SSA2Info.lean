import Astisub.Lemmas.SSADoc

/-!
# Lemmas/SSA2Info — the `[Script Info]` block of a written document under the reader's scan loop

* `step_first` / `run_first`: the scan loop always leaves `first = false` (invariant of `SSA.step`);
* `replaceAll_single`: `strings.ReplaceAll` with one-character pattern and replacement is a character map,
  so `,` → `.` undoes `.` → `,` on a text without comma (`Timer`);
* `formatFloatShortest_numChar`: `FormatFloat(·,'f',-1,64)` only emits digits, `-` and `.`;
* `parse_written`: every `Header: value` line `ssaScriptInfo.bytes` emits is parsed back into the same typed value;
* `run_info`: the whole block (section header, comments, the 15 keys) takes the reader from the initial
  state to the script info it was written from.
-/

namespace Astisub
namespace SSA
open Go List

/-! ### the invariant `first = false` -/

theorem eventsLine_first (st st' : St) (h c : Str) (he : eventsLine st h c = .ok st') : st'.first = st.first := by
  unfold eventsLine at he
  repeat' split at he
  all_goals (cases he <;> rfl)

theorem stylesLine_first (st st' : St) (h c : Str) (he : stylesLine st h c = .ok st') : st'.first = st.first := by
  unfold stylesLine at he
  repeat' split at he
  all_goals (cases he <;> rfl)

/-- **Invariant of the scan loop**: whatever the line, a successful iteration leaves `first = false`
    (the byte-order mark is only looked for on the first line) -/
theorem step_first (st st' : St) (l : Str) (h : step st l = .ok st') : st'.first = false := by
  unfold step at h
  simp only at h
  repeat' split at h
  all_goals first
    | (cases h <;> rfl)
    | exact (eventsLine_first _ _ _ _ h).trans rfl
    | exact (stylesLine_first _ _ _ _ h).trans rfl

/-- … hence after any non-empty sequence of lines -/
theorem run_first : ∀ (ls : List Str) (st st' : St), run st ls = .ok st' → ls ≠ [] → st'.first = false := by
  intro ls
  induction ls with
  | nil => intro _ _ _ h; exact absurd rfl h
  | cons l ls ih =>
    intro st st' h _
    simp only [run] at h
    cases hs : step st l with
    | ok s1 =>
      rw [hs] at h
      have h1 := step_first st s1 l hs
      cases ls with
      | nil => simp only [run, Res.ok.injEq] at h; subst h; exact h1
      | cons l2 ls2 => exact ih s1 st' h (by simp)
    | err => rw [hs] at h; cases h
    | unmodelled => rw [hs] at h; cases h

/-! ### `strings.ReplaceAll` for one-character pattern and replacement -/

theorem join_cons_ne (sep a : Str) (l : List Str) (h : l ≠ []) : join sep (a :: l) = a ++ sep ++ join sep l := by
  cases l with
  | nil => exact absurd rfl h
  | cons b r => rfl

theorem splitOnAux_ne_nil (sep : Str) : ∀ (fuel : Nat) (s acc : Str), splitOnAux sep fuel s acc ≠ [] := by
  intro fuel
  induction fuel with
  | zero => intro s acc; simp [splitOnAux]
  | succ n ih =>
    intro s acc
    cases s with
    | nil => simp [splitOnAux]
    | cons x xs =>
      unfold splitOnAux
      split
      · simp
      · exact ih _ _

theorem splitOnAux_single (a b : Char) : ∀ (s : Str) (fuel : Nat) (acc : Str), s.length < fuel →
    join [b] (splitOnAux [a] fuel s acc) = acc.reverse ++ s.map (fun c => if c = a then b else c) := by
  intro s
  induction s with
  | nil =>
    intro fuel acc h
    cases fuel with
    | zero => simp at h
    | succ n => simp [splitOnAux, join]
  | cons x xs ih =>
    intro fuel acc h
    cases fuel with
    | zero => simp at h
    | succ n =>
      have hlen : xs.length < n := by simpa using h
      unfold splitOnAux
      by_cases hx : a = x
      · subst hx
        have hd : dropPrefix? [a] (a :: xs) = some xs := by
          cases xs <;> simp [dropPrefix?]
        simp only [hd]
        rw [join_cons_ne _ _ _ (splitOnAux_ne_nil _ _ _ _), ih n [] hlen]
        simp
      · have hd : dropPrefix? [a] (x :: xs) = none := by simp [dropPrefix?, hx]
        simp only [hd]
        rw [ih n (x :: acc) hlen]
        have : ¬ x = a := fun e => hx e.symm
        simp [this]

/-- `strings.ReplaceAll(s, "a", "b")` for single characters replaces character by character -/
theorem replaceAll_single (a b : Char) (s : Str) :
    replaceAll [a] [b] s = s.map (fun c => if c = a then b else c) := by
  unfold replaceAll Go.splitOn
  simp only [isEmpty_cons, Bool.false_eq_true, ↓reduceIte]
  rw [splitOnAux_single a b s _ [] (by omega)]
  rfl

/-- what `ssaScriptInfo.parse` does to the `Timer` value undoes what `ssaScriptInfo.bytes` did to it -/
theorem replaceAll_comma_dot (s : Str) (h : ',' ∉ s) : replaceAll [','] ['.'] (replaceAll ['.'] [','] s) = s := by
  rw [replaceAll_single, replaceAll_single, map_map]
  conv => rhs; rw [← map_id s]
  apply map_congr_left
  intro c hc
  have hne : c ≠ ',' := fun e => h (e ▸ hc)
  by_cases hd : c = '.'
  · subst hd; decide
  · simp [Function.comp, hd, hne]

theorem mem_replaceAll_single {a b c : Char} {s : Str} (h : c ∈ replaceAll [a] [b] s) : c ∈ s ∨ c = b := by
  rw [replaceAll_single] at h
  obtain ⟨x, hx, rfl⟩ := mem_map.mp h
  by_cases hxa : x = a
  · right; simp [hxa]
  · left; simpa [hxa] using hx

/-! ### characters of `FormatFloat(·,'f',-1,64)` -/

theorem getD_mem_or (l : Str) (n : Nat) (d : Char) : l.getD n d ∈ l ∨ l.getD n d = d := by
  rw [getD_eq_getElem?_getD]
  cases h : l[n]? with
  | none => right; rfl
  | some x => left; simpa using mem_of_getElem? h

theorem fmtF_numChar (ds : Str) (dp : Int) (prec : Nat) (hds : DigitStr ds) : ∀ c ∈ fmtF ds dp prec, numChar c = true := by
  have h0 : numChar '0' = true := by decide
  have hip : ∀ c ∈ (if dp > 0 then (ds.take dp.toNat) ++ List.replicate (dp.toNat - ds.length) '0' else ['0']), numChar c = true := by
    intro c hc
    split at hc
    · rcases mem_append.mp hc with h | h
      · exact hds.numChar c (mem_of_mem_take h)
      · rw [(mem_replicate.mp h).2]; exact h0
    · simp at hc; subst hc; exact h0
  have hfp : ∀ c ∈ ((List.range prec).map fun (i : Nat) =>
      let j : Int := dp + (i : Int)
      if 0 ≤ j ∧ j < (ds.length : Int) then ds.getD j.toNat '0' else '0'), numChar c = true := by
    intro c hc
    obtain ⟨i, _, rfl⟩ := mem_map.mp hc
    simp only
    split
    · rcases getD_mem_or ds (dp + (i : Int)).toNat '0' with h | h
      · exact hds.numChar _ h
      · rw [h]; exact h0
    · exact h0
  intro c hc
  unfold fmtF at hc
  simp only at hc
  split at hc
  · rcases mem_append.mp hc with h | h
    · exact hip c h
    · rcases mem_cons.mp h with rfl | h
      · decide
      · exact hfp c h
  · exact hip c hc

/-- the text `strconv.FormatFloat(f,'f',-1,64)` emits consists of digits, `-` and `.` -/
theorem formatFloatShortest_numChar (bits : Nat) (str : Str) (h : formatFloatShortest bits = some str) :
    ∀ c ∈ str, numChar c = true := by
  have hm : numChar '-' = true := by decide
  have hsign : ∀ (neg : Bool) c, c ∈ (if neg = true then ['-'] else ([] : Str)) → numChar c = true := by
    intro neg c hc
    cases neg
    · simp at hc
    · simp at hc; subst hc; exact hm
  unfold formatFloatShortest at h
  split at h
  · cases h
  · rename_i neg m e _
    simp only at h
    split at h
    · simp only [Option.some.injEq] at h
      subst h
      intro c hc
      rcases mem_append.mp hc with h | h
      · exact hsign neg c h
      · simp at h; subst h; decide
    · split at h
      · cases h
      · rename_i d n dp _
        simp only [Option.some.injEq] at h
        subst h
        intro c hc
        rcases mem_append.mp hc with h | h
        · exact hsign neg c h
        · exact fmtF_numChar _ _ _ (digitStr_itoaNat d) c h

theorem numChar_ne_nl {c : Char} (h : numChar c = true) : c ≠ '\n' := by
  intro e
  have := numChar_not_space h
  rw [e] at this
  exact absurd this (by decide)

theorem nl_not_mem_of_numChar {s : Str} (h : ∀ c ∈ s, numChar c = true) : '\n' ∉ s :=
  fun hm => numChar_ne_nl (h _ hm) rfl

/-! ### one script-info value -/

/-- the double survives `FormatFloat(·,'f',-1,64)` followed by `ParseFloat` (as the `Numconv` model computes them) -/
def timerOK (bits : Nat) : Bool :=
  match formatFloatShortest bits with
  | some str => parseFloat str == .ok bits
  | none => false

/-- the text `ssaScriptInfo.bytes` writes after `Header: ` -/
def siText : Val → Option Str
  | .f bits => (formatFloatShortest bits).map (replaceAll ['.'] [','])
  | v => some v.canon

/-- a value that can be written to the script info and read back: of the key's type; a 64-bit integer;
    a double that survives shortest formatting; a string that is not empty (an empty value is read as
    "unset"), needs no trimming and has no line feed -/
def SIOK (f : SI) (v : Val) : Prop :=
  v.kind = f.kind ∧
  match v with
  | .i i => Int64 i
  | .f bits => timerOK bits = true
  | .s str => str ≠ [] ∧ Trimmed str ∧ '\n' ∉ str
  | _ => True

instance (f : SI) : (v : Val) → Decidable (SIOK f v)
  | .b w => inferInstanceAs (Decidable ((Val.b w).kind = f.kind ∧ True))
  | .c c => inferInstanceAs (Decidable ((Val.c c).kind = f.kind ∧ True))
  | .f bits => inferInstanceAs (Decidable ((Val.f bits).kind = f.kind ∧ timerOK bits = true))
  | .i i => inferInstanceAs (Decidable ((Val.i i).kind = f.kind ∧ Int64 i))
  | .s str => inferInstanceAs (Decidable ((Val.s str).kind = f.kind ∧ str ≠ [] ∧ Trimmed str ∧ '\n' ∉ str))

theorem siOfHeader_header (f : SI) : siOfHeader f.header.toList = some f := by cases f <;> rfl

theorem si_headerOK (f : SI) : HeaderOK f.header.toList := by cases f <;> decide

theorem si_header_nl (f : SI) : '\n' ∉ f.header.toList := by cases f <;> decide

theorem si_all_complete (f : SI) : f ∈ SI.all := by cases f <;> decide

theorem si_all_nodup : SI.all.Nodup := by decide

theorem si_kind (f : SI) : f.kind = .int ∨ f.kind = .float ∨ f.kind = .str := by cases f <;> simp [SI.kind]

/-- **One value.** The text written for a good value needs no trimming, has no line feed, and
    `ssaScriptInfo.parse` turns it back into the value (integers through `Atoi`, `Timer` through
    `,` → `.` and `ParseFloat`, strings as they are). -/
theorem parse_written (b : Info) (f : SI) (v : Val) (h : SIOK f v) :
    ∃ t, siText v = some t ∧ Trimmed t ∧ '\n' ∉ t ∧
      b.parse f.header.toList t = .ok { b with vals := b.vals.set f v } := by
  obtain ⟨hk, hv⟩ := h
  cases v with
  | b w => rcases si_kind f with e | e | e <;> rw [e] at hk <;> cases hk
  | c w => rcases si_kind f with e | e | e <;> rw [e] at hk <;> cases hk
  | i i =>
    have hi : Int64 i := hv
    refine ⟨itoa i, rfl, trimmed_itoa i, nl_not_mem_of_numChar (numChar_itoa i), ?_⟩
    have hk' : f.kind = .int := hk.symm
    simp only [Info.parse, siOfHeader_header, hk', atoi_itoa i hi]
  | f bits =>
    have hf : timerOK bits = true := hv
    unfold timerOK at hf
    cases hs : formatFloatShortest bits with
    | none => rw [hs] at hf; cases hf
    | some str =>
      rw [hs] at hf
      have hp : parseFloat str = .ok bits := by simpa using hf
      have hnum := formatFloatShortest_numChar bits str hs
      have hnum' : ∀ c ∈ replaceAll ['.'] [','] str, isSpace c = false := by
        intro c hc
        rcases mem_replaceAll_single hc with h | h
        · exact numChar_not_space (hnum c h)
        · subst h; decide
      refine ⟨replaceAll ['.'] [','] str, by simp [siText, hs], trimmed_of_noSpace hnum', ?_, ?_⟩
      · intro hm
        exact absurd (hnum' _ hm) (by decide)
      · have hk' : f.kind = .float := hk.symm
        simp only [Info.parse, siOfHeader_header, hk', replaceAll_comma_dot str (not_mem_of_numChar hnum), hp]
  | s str =>
    have hs : str ≠ [] ∧ Trimmed str ∧ '\n' ∉ str := hv
    refine ⟨str, rfl, hs.2.1, hs.2.2, ?_⟩
    have hk' : f.kind = .str := hk.symm
    have hne : str.isEmpty = false := by
      cases str with
      | nil => exact absurd rfl hs.1
      | cons _ _ => rfl
    simp only [Info.parse, siOfHeader_header, hk', hne, Bool.false_eq_true, ↓reduceIte]

/-! ### comment lines -/

theorem step_comment (st : St) (c : Str) (hf : st.first = false) (hsec : st.sec = .scriptInfo) (hc : Trimmed c) :
    step st ("; ".toList ++ c) = .ok { st with info := { st.info with comments := st.info.comments ++ [c] } } := by
  obtain ⟨sec, format, info, styles, events, first⟩ := st
  simp only at hf hsec
  subst hf hsec
  have ht : trimSpace ("; ".toList ++ c) = ';' :: (if c = [] then [] else ' ' :: c) := by
    by_cases h0 : c = []
    · subst h0; decide
    · simp only [h0, ↓reduceIte]
      apply trimSpace_of_trimmed
      have e : "; ".toList ++ c = [] ++ ';' :: (' ' :: c) := rfl
      rw [e]
      apply trimmed_append_cons _ _ _ (by simp) (by decide)
      intro x hx
      cases c with
      | nil => exact absurd rfl h0
      | cons c0 cs =>
        rw [getLast?_cons_cons] at hx
        exact hc.2 x hx
  unfold step
  simp only [ht, Bool.false_eq_true, ↓reduceIte]
  have hpre : hasPrefix ['['] (';' :: (if c = [] then [] else ' ' :: c)) = false := by
    simp [hasPrefix, dropPrefix?]
  simp only [isEmpty_cons, hpre, Bool.false_and, Bool.false_eq_true, ↓reduceIte, reduceCtorEq, head?_cons,
    drop_succ_cons, drop_zero, kvTrim_content c hc]

theorem run_comments : ∀ (cs : List Str) (st : St), st.first = false → st.sec = .scriptInfo → (∀ c ∈ cs, Trimmed c) →
    run st (cs.map fun c => "; ".toList ++ c)
      = .ok { st with info := { st.info with comments := st.info.comments ++ cs } } := by
  intro cs
  induction cs with
  | nil => intro st _ _ _; simp [run]
  | cons c cs ih =>
    intro st hf hsec h
    simp only [map_cons, run, step_comment st c hf hsec (h c (by simp))]
    have := ih { st with info := { st.info with comments := st.info.comments ++ [c] } } hf hsec
      (fun c' hc' => h c' (by simp [hc']))
    simpa using this

/-! ### the key lines -/

/-- the lines `ssaScriptInfo.bytes` writes for key `f` -/
def fieldLine (b : Info) (f : SI) : Option (List Str) :=
  match b.vals.get f with
  | none => some []
  | some v => (siText v).map fun t => [kvLine f.header.toList t]

theorem bytes_eq (b : Info) :
    b.bytes = (Info.bytes.go (fieldLine b) SI.all).map fun ls =>
      unlines ("[Script Info]".toList :: b.comments.map (fun c => "; ".toList ++ c) ++ ls) := by
  have : fieldLine b = fun f =>
      match b.vals.get f with
      | none => some []
      | some (Val.f bits) =>
        Option.map (fun s => [f.header.toList ++ ": ".toList ++ replaceAll ['.'] [','] s]) (formatFloatShortest bits)
      | some v => some [f.header.toList ++ ": ".toList ++ v.canon] := by
    funext f
    unfold fieldLine
    cases b.vals.get f with
    | none => rfl
    | some v =>
      cases v <;> simp [siText, kvLine] <;> rfl
  rw [this]
  rfl

theorem vals_set_fresh {κ} [DecidableEq κ] (l : Vals κ) (k : κ) (v : Val) (h : ∀ p ∈ l, p.1 ≠ k) :
    l.set k v = l ++ [(k, v)] := by
  unfold Vals.set
  rw [filter_eq_self.mpr (by intro p hp; simpa using h p hp)]

/-- a key line written for a good value sets the key -/
theorem step_field (st : St) (f : SI) (v : Val) (t : Str) (hf : st.first = false) (hsec : st.sec = .scriptInfo)
    (ht : Trimmed t) (hp : st.info.parse f.header.toList t = .ok { st.info with vals := st.info.vals.set f v }) :
    step st (kvLine f.header.toList t) = .ok { st with info := { st.info with vals := st.info.vals.set f v } } := by
  rw [step_kv st _ _ hf (si_headerOK f) ht]
  obtain ⟨sec, format, info, styles, events, first⟩ := st
  simp only at hsec hp
  subst hsec
  simp only [hp]

/-- the table of the values of the keys `fs` -/
def tabulate (b : Info) (fs : List SI) : Vals SI := fs.filterMap fun f => (b.vals.get f).map fun v => (f, v)

/-- **The key lines.** The lines written for the keys `fs` of a script info whose values are good set
    exactly these keys, in this order; none of the lines has a line feed -/
theorem run_fields (b : Info) (hb : ∀ f v, b.vals.get f = some v → SIOK f v) :
    ∀ (fs : List SI) (ls : List Str) (st : St), fs.Nodup → st.first = false → st.sec = .scriptInfo →
      (∀ p ∈ st.info.vals, p.1 ∉ fs) → Info.bytes.go (fieldLine b) fs = some ls →
      run st ls = .ok { st with info := { st.info with vals := st.info.vals ++ tabulate b fs } }
      ∧ ∀ l ∈ ls, '\n' ∉ l := by
  intro fs
  induction fs with
  | nil =>
    intro ls st _ _ _ _ h
    simp only [Info.bytes.go, Option.some.injEq] at h
    subst h
    simp [run, tabulate]
  | cons f fs ih =>
    intro ls st hnd hf hsec hfresh h
    rw [nodup_cons] at hnd
    simp only [Info.bytes.go] at h
    cases hfl : fieldLine b f with
    | none => rw [hfl] at h; simp at h
    | some a =>
      cases hrest : Info.bytes.go (fieldLine b) fs with
      | none => rw [hfl, hrest] at h; simp at h
      | some r =>
        rw [hfl, hrest] at h
        simp only [Option.some.injEq] at h
        subst h
        unfold fieldLine at hfl
        cases hget : b.vals.get f with
        | none =>
          rw [hget] at hfl
          simp only [Option.some.injEq] at hfl
          subst hfl
          have := ih r st hnd.2 hf hsec (fun p hp hm => hfresh p hp (mem_cons_of_mem _ hm)) hrest
          simpa [tabulate, hget] using this
        | some v =>
          obtain ⟨t, ht, htr, hnl, hparse⟩ := parse_written st.info f v (hb f v hget)
          simp only [hget, ht, Option.map_some, Option.some.injEq] at hfl
          subst hfl
          have hset : st.info.vals.set f v = st.info.vals ++ [(f, v)] :=
            vals_set_fresh _ _ _ (fun p hp e => hfresh p hp (e ▸ mem_cons_self))
          have hstep := step_field st f v t hf hsec htr hparse
          rw [hset] at hstep
          have hfresh' : ∀ p ∈ st.info.vals ++ [(f, v)], p.1 ∉ fs := by
            intro p hp hm
            rcases mem_append.mp hp with hp | hp
            · exact hfresh p hp (mem_cons_of_mem _ hm)
            · simp at hp; subst hp; exact hnd.1 hm
          obtain ⟨h1, h2⟩ := ih r { st with info := { st.info with vals := st.info.vals ++ [(f, v)] } } hnd.2 hf hsec hfresh' hrest
          constructor
          · simp only [cons_append, nil_append, run, hstep, h1]
            simp [tabulate, hget]
          · intro l hl
            rcases mem_append.mp hl with hl | hl
            · simp at hl
              subst hl
              unfold kvLine
              intro hm
              simp only [mem_append] at hm
              rcases hm with (hm | hm) | hm
              · exact si_header_nl f hm
              · revert hm; decide
              · exact hnl hm
            · exact h2 l hl

/-- a script info that can be written and read back: comments need no trimming, values are good -/
def InfoOK (b : Info) : Prop :=
  (∀ c ∈ b.comments, Trimmed c ∧ '\n' ∉ c) ∧ ∀ f ∈ SI.all, ∀ v, b.vals.get f = some v → SIOK f v

instance (b : Info) : Decidable (InfoOK b) :=
  inferInstanceAs (Decidable ((∀ c ∈ b.comments, Trimmed c ∧ '\n' ∉ c) ∧ ∀ f ∈ SI.all, ∀ v, b.vals.get f = some v → SIOK f v))

/-- **The script-info block.** Whenever `ssaScriptInfo.bytes` succeeds on a good script info, its text
    is `[Script Info]` and further lines without line feeds, and the reader's scan loop, started in
    the initial state, ends in the `[Script Info]` section with exactly the comments and the values
    (tabulated in the writer's key order) it was written from. -/
theorem run_info (b : Info) (txt : Str) (hb : InfoOK b) (h : b.bytes = some txt) :
    ∃ infoLines, txt = unlines ("[Script Info]".toList :: infoLines) ∧ (∀ l ∈ infoLines, '\n' ∉ l) ∧
      run {} ("[Script Info]".toList :: infoLines)
        = .ok { sec := .scriptInfo, first := false, info := { comments := b.comments, vals := tabulate b SI.all } } := by
  rw [bytes_eq] at h
  cases hgo : Info.bytes.go (fieldLine b) SI.all with
  | none => rw [hgo] at h; cases h
  | some ls =>
    rw [hgo] at h
    simp only [Option.map_some, Option.some.injEq] at h
    subst h
    refine ⟨b.comments.map (fun c => "; ".toList ++ c) ++ ls, rfl, ?_, ?_⟩
    · have hfields := (run_fields b (fun f v hv => hb.2 f (si_all_complete f) v hv) SI.all ls
        { sec := .scriptInfo, first := false, info := { comments := b.comments } } si_all_nodup rfl rfl
        (by intro p hp; cases hp) hgo).2
      intro l hl
      rcases mem_append.mp hl with hl | hl
      · obtain ⟨c, hc, rfl⟩ := mem_map.mp hl
        intro hm
        rcases mem_append.mp hm with hm | hm
        · revert hm; decide
        · exact (hb.1 c hc).2 hm
      · exact hfields l hl
    · simp only [run, step_info_header]
      rw [run_append_ok (run_comments b.comments { sec := .scriptInfo, first := false } rfl rfl (fun c hc => (hb.1 c hc).1))]
      have := (run_fields b (fun f v hv => hb.2 f (si_all_complete f) v hv) SI.all ls
        { sec := .scriptInfo, first := false, info := { comments := [] ++ b.comments } } si_all_nodup rfl rfl
        (by intro p hp; cases hp) hgo).1
      simpa using this

end SSA
end Astisub
