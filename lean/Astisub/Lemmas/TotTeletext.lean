import Astisub.Lemmas.TotBase
import Astisub.Model.Teletext

/-!
# Lemmas/TotTeletext — the teletext packet layer with Go's index checks made explicit

Checked variants (monad `Chk`) of `teletextPageBuffer.process`, `parseDataUnit`, `parsePacket`,
`parsePacketHeader`, `parsePacketData`, `parsePacket28And29` (`teletext.go`) and of the two astikit
table look-ups they use, each proved (a) never to panic and (b) to compute what the totalised model
(`Model/Teletext.lean`) computes, for every payload of bytes and every page buffer in which
"receiving" implies "there is a current page" (`BufOk`; established by `newTeletextPageBuffer` and
kept by every function here).  The guards that make (a) true:

* `process`: the empty-payload check before `d.Data[0]` (fix-1 of C06), the loop condition that
  leaves room for the id *and* the length byte, and the `offsetEnd > len(d.Data)` break;
* `parseDataUnit`: `len(i) < 44` ⇒ skip (fix-2 of C06) — `i[1]`, `i[2]`, `i[3]`, `i[4:]` and, further
  down, `i[0]`…`i[39]` of the packet, `i[1:]` and `i[0]`…`i[2]` of the X/28 – M/29 payload;
* `parsePacket`: `parsePacketData` is only reached while `receiving`, i.e. with a current page.
-/

namespace Astisub
namespace Tot
namespace Teletext
open Astisub.Teletext Generated.Teletext

/-- every element is a byte -/
def Bytes256 (l : List Nat) : Prop := ∀ b ∈ l, b < 256

instance (l : List Nat) : Decidable (Bytes256 l) := by unfold Bytes256; infer_instance

example : Bytes256 [0x10, 3, 44, 255, 0xe4] := by decide

theorem Bytes256.take {l : List Nat} (h : Bytes256 l) (n : Nat) : Bytes256 (l.take n) :=
  fun b hb => h b (List.mem_of_mem_take hb)

theorem Bytes256.drop {l : List Nat} (h : Bytes256 l) (n : Nat) : Bytes256 (l.drop n) :=
  fun b hb => h b (List.mem_of_mem_drop hb)

theorem Bytes256.nth {l : List Nat} (h : Bytes256 l) (k : Nat) : nth l k < 256 := by
  unfold Astisub.Teletext.nth
  by_cases hk : k < l.length
  · rw [List.getD_eq_getElem?_getD, List.getElem?_eq_getElem hk]
    exact h _ (List.getElem_mem hk)
  · rw [List.getD_eq_getElem?_getD, List.getElem?_eq_none (by omega)]
    decide

theorem idx_nth {l : List Nat} {i : Nat} (h : i < l.length) : idx l i = .ok (nth l i) := idx_ok h 0

/-! ## astikit tables -/

set_option maxRecDepth 8192 in
theorem hamming_len : hamming84Tab.length = 256 := by decide
set_option maxRecDepth 8192 in
theorem parity_len : parityTab.length = 256 := by decide

/-- `astikit.ByteHamming84Decode`: look-up in a 256-entry table -/
def hammingDecodeC (b : Nat) : Chk (Option Nat) := do
  let v ← idx hamming84Tab b
  pure (if v = 255 then none else some v)

theorem hammingDecodeC_eq {b : Nat} (h : b < 256) : hammingDecodeC b = .ok (hammingDecode b) := by
  unfold hammingDecodeC hammingDecode
  rw [idx_ok (by rw [hamming_len]; exact h) 255]
  rfl

theorem reverse8_lt (b : Nat) : reverse8 b < 256 := by unfold reverse8; omega

/-- `astikit.ByteParity` -/
def byteParityC (b : Nat) : Chk (Nat × Bool) := do
  let ok ← idx parityTab b
  pure (b % 128, ok)

theorem byteParityC_eq {b : Nat} (h : b < 256) : byteParityC b = .ok (byteParity b) := by
  unfold byteParityC byteParity
  rw [idx_ok (by rw [parity_len]; exact h) false]
  rfl

def storeCharC (b : Nat) : Chk Nat := do
  let r ← byteParityC (reverse8 b)
  pure (if r.2 then r.1 else invalidChar)

theorem storeCharC_eq (b : Nat) : storeCharC b = .ok (storeChar b) := by
  unfold storeCharC storeChar
  rw [byteParityC_eq (reverse8_lt b)]
  rfl

/-! ## a monadic map -/

def mapC {α β} (f : α → Chk β) : List α → Chk (List β)
  | [] => pure []
  | a :: as => do
    let b ← f a
    let bs ← mapC f as
    pure (b :: bs)

theorem mapC_ok {α β} {f : α → Chk β} {g : α → β} {l : List α} (h : ∀ a ∈ l, f a = .ok (g a)) :
    mapC f l = .ok (l.map g) := by
  induction l with
  | nil => rfl
  | cons a as ih =>
    unfold mapC
    rw [h a (by simp), ih (fun x hx => h x (by simp [hx]))]
    rfl

/-! ## the page buffer invariant -/

/-- `receiving` is only set together with a current page (`parsePacketHeader`), so the
    `b.currentPage.…` of `parsePacketData` is never a nil dereference -/
def BufOk (b : Buf) : Prop := b.receiving = true → b.current.isSome = true

instance (b : Buf) : Decidable (BufOk b) := by unfold BufOk; infer_instance

theorem newBuf_ok (page : Nat) : BufOk (newBuf page) := by intro h; cases h

example : BufOk { mag := 8, page := 88, receiving := true, current := some { charsetCode := 0, start := 0 } } := by decide

/-! ## packets -/

/-- `parsePacketHeader` (teletext.go): `i[0]`, `i[1]`, `i[5]`, `i[7]`, all evaluated up front -/
def parseHeaderC (b : Buf) (i : List Nat) (mag : Nat) (t : Int) : Chk Buf := do
  let i0 ← idx i 0
  let i1 ← idx i 1
  let i5 ← idx i 5
  let i7 ← idx i 7
  let d0 ← hammingDecodeC i0
  let d1 ← hammingDecodeC i1
  let d5 ← hammingDecodeC i5
  let d7 ← hammingDecodeC i7
  pure (
    match d0, d1 with
    | some units, some tens =>
      if tens = 15 && units = 15 then b else
      let pn : Option Nat := if tens > 9 || units > 9 then none else some (tens * 10 + units)
      let auto : Option Buf :=
        if b.mag = 0 && b.page = 0 then
          match d5 with
          | none => none
          | some cb =>
            match pn with
            | some p => if cb &&& 8 > 0 then some { b with mag := mag, page := p } else some b
            | none => some b
        else some b
      match auto with
      | none => b
      | some b =>
        match d7 with
        | none => b
        | some cb =>
          let serial := cb &&& 1 > 0
          let code := cb >>> 1
          let other := pn != some b.page
          if b.receiving && ((serial && (other || mag != b.mag)) || (!serial && other && mag = b.mag)) then { b with receiving := false }
          else if other || mag != b.mag then b
          else
            let done := match b.current with
              | some p => b.done ++ [{ p with end_ := t }]
              | none => b.done
            { b with done := done, receiving := true, current := some { charsetCode := code, start := t } }
    | _, _ => b)

theorem parseHeaderC_eq (b : Buf) (i : List Nat) (mag : Nat) (t : Int) (hi : Bytes256 i) (hl : 8 ≤ i.length) :
    parseHeaderC b i mag t = .ok (parseHeader b i mag t) := by
  unfold parseHeaderC
  simp (disch := omega) only [idx_nth, ok_bind, hammingDecodeC_eq (hi.nth _), pure_eq]
  rfl

theorem auto_ok (b : Buf) (c : Bool) (d5 pn : Option Nat) (mag : Nat) (b' : Buf)
    (h : (if c then
            match d5 with
            | none => none
            | some cb =>
              match pn with
              | some p => if cb &&& 8 > 0 then some { b with mag := mag, page := p } else some b
              | none => some b
          else some b) = some b') (hb : BufOk b) : BufOk b' := by
  cases c with
  | false => simp at h; subst h; exact hb
  | true =>
    cases d5 with
    | none => simp at h
    | some cb =>
      cases pn with
      | none => simp at h; subst h; exact hb
      | some p =>
        simp only [if_true] at h
        split at h <;> (cases h; exact hb)

theorem tail_ok (b : Buf) (d7 pn : Option Nat) (mag : Nat) (t : Int) (hb : BufOk b) :
    BufOk (match d7 with
      | none => b
      | some cb =>
        let serial := cb &&& 1 > 0
        let code := cb >>> 1
        let other := pn != some b.page
        if b.receiving && ((serial && (other || mag != b.mag)) || (!serial && other && mag = b.mag)) then { b with receiving := false }
        else if other || mag != b.mag then b
        else
          let done := match b.current with
            | some p => b.done ++ [{ p with end_ := t }]
            | none => b.done
          { b with done := done, receiving := true, current := some { charsetCode := code, start := t } }) := by
  cases d7 with
  | none => exact hb
  | some cb =>
    simp only
    split
    · intro h; cases h
    · split
      · exact hb
      · intro _; rfl

theorem parseHeader_ok (b : Buf) (i : List Nat) (mag : Nat) (t : Int) (hb : BufOk b) :
    BufOk (parseHeader b i mag t) := by
  unfold parseHeader
  split
  · split
    · exact hb
    · simp only
      split
      · exact hb
      · rename_i b' hauto
        exact tail_ok b' _ _ mag t (auto_ok b _ _ _ mag b' hauto hb)
  · exact hb
/-- `parsePacketData` (teletext.go): `b.currentPage` dereferenced, `i[0]` … `i[39]` -/
def parseDataC (b : Buf) (i : List Nat) (y : Nat) : Chk Buf := do
  let p ← deref b.current
  let row ← mapC (fun k => do let x ← idx i k; storeCharC x) (List.range 40)
  pure { b with current := some { p with data := setData p.data y row, rows := p.rows ++ [y] } }

theorem parseDataC_eq (b : Buf) (i : List Nat) (y : Nat) (hc : b.current.isSome = true) (hl : 40 ≤ i.length) :
    parseDataC b i y = .ok (parseData b i y) := by
  unfold parseDataC parseData
  cases hcur : b.current with
  | none => rw [hcur] at hc; cases hc
  | some p =>
    have : mapC (fun k => do let x ← idx i k; storeCharC x) (List.range 40)
        = .ok ((List.range 40).map fun k => storeChar (nth i k)) := by
      apply mapC_ok
      intro k hk
      have hk' : k < 40 := List.mem_range.mp hk
      rw [idx_nth (by omega)]
      exact storeCharC_eq _
    simp only [deref, ok_bind, this, pure_eq]

/-- outside the invariant — receiving without a current page — `parsePacketData` is a nil dereference -/
theorem parseDataC_nil (b : Buf) (i : List Nat) (y : Nat) (hc : b.current = none) :
    parseDataC b i y = .error .nilDeref := by
  unfold parseDataC
  rw [hc]
  rfl

theorem parseData_ok (b : Buf) (i : List Nat) (y : Nat) (hb : BufOk b) : BufOk (parseData b i y) := by
  unfold parseData
  split
  · exact hb
  · intro _; rfl

/-- `parsePacket28And29` (teletext.go): `i[2]`, `i[1]`, `i[0]` (after the designation code check) -/
def parse2829C (b : Buf) (i : List Nat) (y dc : Nat) : Chk Buf :=
  if dc != 0 && dc != 4 then pure b else do
  let i2 ← idx i 2
  let i1 ← idx i 1
  let i0 ← idx i 0
  let t := i2 * 65536 + i1 * 256 + i0
  pure (if y = 28 && t &&& 0xf > 0 then b
        else if y = 28 then { b with x28 := some t } else { b with m29 := some t })

theorem parse2829C_eq (b : Buf) (i : List Nat) (y dc : Nat) (hl : 3 ≤ i.length) :
    parse2829C b i y dc = .ok (parse2829 b i y dc) := by
  unfold parse2829C parse2829
  split
  · rfl
  · simp (disch := omega) only [idx_nth, ok_bind, pure_eq]

theorem parse2829_ok (b : Buf) (i : List Nat) (y dc : Nat) (hb : BufOk b) : BufOk (parse2829 b i y dc) := by
  unfold parse2829
  split
  · exact hb
  · simp only
    split
    · exact hb
    · split <;> exact hb

/-- `parsePacket` (teletext.go): dispatch on the packet number; `i[0]` for the designation code,
    `i[1:]` for the X/28 – M/29 payload -/
def parsePacketC (b : Buf) (i : List Nat) (mag y : Nat) (t : Int) : Chk Buf :=
  if y = 0 then parseHeaderC b i mag t
  else if b.receiving && mag = b.mag && 1 ≤ y && y ≤ 25 then parseDataC b i y
  else do
    let i0 ← idx i 0
    let d ← hammingDecodeC i0
    match d with
    | none => pure b
    | some dc =>
      if b.receiving && mag = b.mag && y = 26 then pure b
      else if b.receiving && mag = b.mag && y = 28 then do
        let tl ← slcFrom i 1
        parse2829C b tl y dc
      else if mag = b.mag && y = 29 then do
        let tl ← slcFrom i 1
        parse2829C b tl y dc
      else pure b

theorem parsePacketC_eq (b : Buf) (i : List Nat) (mag y : Nat) (t : Int) (hb : BufOk b) (hi : Bytes256 i)
    (hl : 40 ≤ i.length) : parsePacketC b i mag y t = .ok (parsePacket b i mag y t) := by
  unfold parsePacketC parsePacket
  split
  · exact parseHeaderC_eq b i mag t hi (by omega)
  · split
    · rename_i hrecv
      have : b.receiving = true := by
        simp only [Bool.and_eq_true] at hrecv
        exact hrecv.1.1.1
      exact parseDataC_eq b i y (hb this) hl
    · simp (disch := omega) only [idx_nth, ok_bind, hammingDecodeC_eq (hi.nth _)]
      cases hammingDecode (nth i 0) with
      | none => rfl
      | some dc =>
        have htl : 3 ≤ (i.drop 1).length := by rw [List.length_drop]; omega
        simp only
        split
        · rfl
        · split
          · rw [slcFrom_ok (by omega)]; exact parse2829C_eq _ _ _ _ htl
          · split
            · rw [slcFrom_ok (by omega)]; exact parse2829C_eq _ _ _ _ htl
            · rfl

theorem parsePacket_ok (b : Buf) (i : List Nat) (mag y : Nat) (t : Int) (hb : BufOk b) :
    BufOk (parsePacket b i mag y t) := by
  unfold parsePacket
  split
  · exact parseHeader_ok _ _ _ _ hb
  · split
    · exact parseData_ok _ _ _ hb
    · split
      · exact hb
      · split
        · exact hb
        · split
          · exact parse2829_ok _ _ _ _ hb
          · split
            · exact parse2829_ok _ _ _ _ hb
            · exact hb

/-! ## data units -/

/-- `parseDataUnit` (teletext.go; fix-2: a unit shorter than 44 bytes is skipped): `i[1]`, `i[2]`, `i[3]`, `i[4:]` -/
def parseDataUnitC (b : Buf) (i : List Nat) (id : Nat) (t : Int) : Chk Buf :=
  if id != 3 then pure b
  else if i.length < 44 then pure b
  else do
    let fc ← idx i 1
    if fc != 0xe4 then pure b else do
    let i2 ← idx i 2
    let i3 ← idx i 3
    let d2 ← hammingDecodeC i2
    let d3 ← hammingDecodeC i3
    match d2, d3 with
    | some h1, some h2 => do
      let h := (h2 * 16 ||| h1) % 256
      let mag := if h &&& 7 = 0 then 8 else h &&& 7
      let pk ← slcFrom i 4
      parsePacketC b pk mag (h >>> 3) t
    | _, _ => pure b

theorem parseDataUnitC_eq (b : Buf) (i : List Nat) (id : Nat) (t : Int) (hb : BufOk b) (hi : Bytes256 i) :
    parseDataUnitC b i id t = .ok (parseDataUnit b i id t) := by
  unfold parseDataUnitC parseDataUnit
  split
  · rfl
  · split
    · rfl
    · rename_i hlen
      simp (disch := omega) only [idx_nth, ok_bind, hammingDecodeC_eq (hi.nth _)]
      split
      · rfl
      · cases hammingDecode (nth i 2) with
        | none => rfl
        | some h1 =>
          cases hammingDecode (nth i 3) with
          | none => rfl
          | some h2 =>
            simp only
            rw [slcFrom_ok (by omega)]
            exact parsePacketC_eq _ _ _ _ _ hb (hi.drop 4) (by rw [List.length_drop]; omega)

theorem parseDataUnit_ok (b : Buf) (i : List Nat) (id : Nat) (t : Int) (hb : BufOk b) :
    BufOk (parseDataUnit b i id t) := by
  unfold parseDataUnit
  split
  · exact hb
  · split
    · exact hb
    · split
      · exact hb
      · split
        · exact parsePacket_ok _ _ _ _ _ hb
        · exact hb

/-- a data unit of type 3 with the framing code but fewer than 44 bytes makes the unguarded code
    panic: without fix-2 `parseDataUnit` is not total (here: a 3-byte unit, `i[3]` out of range) -/
example : idx [0x02, 0xe4, 0x15] 3 = .error .index := rfl

/-! ## the data-unit loop of `process`, on offsets as the Go code has it -/

/-- the loop `for offset+1 < len(d.Data)` of `teletextPageBuffer.process` (teletext.go):
    `d.Data[offset]` (id), `d.Data[offset+1]` (length), `offsetEnd > len(d.Data)` ⇒ break,
    `d.Data[offset+2 : offsetEnd]` -/
def unitLoopC : Nat → Buf → List Nat → Nat → Int → Chk Buf
  | 0, b, _, _, _ => pure b
  | fuel + 1, b, data, off, t =>
    if off + 1 < data.length then do
      let id ← idx data off
      let len ← idx data (off + 1)
      let offEnd := off + 2 + len
      if offEnd > data.length then pure b
      else do
        let u ← slc data (off + 2) offEnd
        let b' ← parseDataUnitC b u id t
        unitLoopC fuel b' data offEnd t
    else pure b

theorem unitLoopC_eq (data : List Nat) (t : Int) (hd : Bytes256 data) :
    ∀ (fuel : Nat) (b : Buf) (off : Nat), BufOk b →
      unitLoopC fuel b data off t = .ok (unitLoop fuel b (data.drop off) t) := by
  intro fuel
  induction fuel with
  | zero => intro b off _; cases h : data.drop off <;> rfl
  | succ fuel ih =>
    intro b off hb
    unfold unitLoopC
    by_cases h : off + 1 < data.length
    · rw [if_pos h]
      have e1 : data.drop off = nth data off :: nth data (off + 1) :: data.drop (off + 2) := by
        rw [List.drop_eq_getElem_cons (by omega : off < data.length),
            List.drop_eq_getElem_cons (by omega : off + 1 < data.length)]
        unfold Astisub.Teletext.nth
        rw [List.getD_eq_getElem?_getD, List.getElem?_eq_getElem (by omega : off < data.length),
            List.getD_eq_getElem?_getD, List.getElem?_eq_getElem (by omega : off + 1 < data.length)]
        rfl
      rw [e1]
      simp (disch := omega) only [idx_nth, ok_bind]
      unfold unitLoop
      have hlen : (data.drop (off + 2)).length = data.length - (off + 2) := List.length_drop
      by_cases hbr : off + 2 + nth data (off + 1) > data.length
      · rw [if_pos hbr, if_pos (by rw [hlen]; omega)]; rfl
      · rw [if_neg hbr, if_neg (by rw [hlen]; omega)]
        rw [slc_ok (by omega) (by omega)]
        have e2 : off + 2 + nth data (off + 1) - (off + 2) = nth data (off + 1) := by omega
        rw [e2]
        simp only [ok_bind]
        rw [parseDataUnitC_eq b _ _ t hb ((hd.drop _).take _)]
        simp only [ok_bind]
        rw [ih _ _ (parseDataUnit_ok _ _ _ _ hb), List.drop_drop]
    · rw [if_neg h]
      cases hdo : data.drop off with
      | nil => rfl
      | cons x xs =>
        cases xs with
        | nil => rfl
        | cons y ys =>
          have : (data.drop off).length ≥ 2 := by rw [hdo]; simp
          rw [List.length_drop] at this
          omega

theorem unitLoop_ok (t : Int) : ∀ (fuel : Nat) (b : Buf) (l : List Nat), BufOk b → BufOk (unitLoop fuel b l t) := by
  intro fuel
  induction fuel with
  | zero => intro b l hb; unfold unitLoop; exact hb
  | succ fuel ih =>
    intro b l hb
    match l with
    | [] => unfold unitLoop; exact hb
    | [_] => unfold unitLoop; exact hb
    | id :: len :: rest =>
      unfold unitLoop
      split
      · exact hb
      · exact ih _ _ (parseDataUnit_ok _ _ _ _ hb)

/-- `teletextPageBuffer.process` (teletext.go): empty payload ⇒ return (guard), `d.Data[0]`, the loop -/
def processC (b : Buf) (data : List Nat) (t : Int) : Chk (Buf × List Page) :=
  if data.isEmpty then pure (b, []) else do
  let ident ← idx data 0
  if !(0x10 ≤ ident && ident ≤ 0x1f) then pure (b, []) else do
  let b' ← unitLoopC (data.length - 1) b data 1 t
  pure ({ b' with done := [] }, b'.done)

theorem processC_eq (b : Buf) (data : List Nat) (t : Int) (hb : BufOk b) (hd : Bytes256 data) :
    processC b data t = .ok (process b data t) := by
  unfold processC process
  cases data with
  | nil => rfl
  | cons ident rest =>
    simp only [List.isEmpty_cons, Bool.false_eq_true, if_false, idx, List.getElem?_cons_zero, ok_bind]
    split
    · rfl
    · rw [unitLoopC_eq _ t hd _ _ _ hb]
      rfl

theorem process_ok (b : Buf) (data : List Nat) (t : Int) (hb : BufOk b) : BufOk (process b data t).1 := by
  unfold process
  split
  · exact hb
  · split
    · exact hb
    · exact unitLoop_ok t _ _ _ hb

end Teletext
end Tot
end Astisub
