import Astisub.Lemmas.VTT3WDocDefs
import Astisub.Lemmas.VTTRead2Block
import Astisub.Lemmas.VTTRead2Time
import Astisub.Lemmas.VTTRead2Region
import Astisub.Lemmas.VTT2TsMap
import Astisub.Lemmas.VTT2Region
import Astisub.Props.C16

/-!
# Lemmas/VTT3WDocMeta — the independent decoder on the written header metadata lines

* `tsmapLine_written`: `Spec.VTT.tsmapLine` reads the written `X-TIMESTAMP-MAP` line;
* `regionLine_written`: `Spec.VTT.regionLine` reads the written `Region: ` definition line (same identifier,
  a `lines` value of at most 18 digits);
* `foldl_metaStep_regions`: the decoder's fold over the written region definition lines.
-/

namespace Astisub
namespace VTT3W
open Go Spec.VTT

/-! ### digits -/

theorem isDigit_dc {k : Nat} (h : k < 10) : isDigit (digitChar k) = true := by
  rcases digitChar_lt h with h|h|h|h|h|h|h|h|h|h <;> subst h <;> decide

theorem toNat_dc {k : Nat} (h : k < 10) : (digitChar k).toNat - 48 = k := by
  rcases digitChar_lt h with h|h|h|h|h|h|h|h|h|h <;> subst h <;> decide

theorem natOf_ddM {v : Nat} (h : v < 100) : natOf (dd v) = some v := by
  have d1 : v / 10 < 10 := by omega
  have d2 : v % 10 < 10 := by omega
  unfold natOf dd
  simp only [List.isEmpty_cons, List.all_cons, List.all_nil, isDigit_dc d1, isDigit_dc d2,
    List.foldl_cons, List.foldl_nil, toNat_dc d1, toNat_dc d2]
  simp
  omega

theorem natOf_dddM {v : Nat} (h : v < 1000) : natOf (ddd v) = some v := by
  have d1 : v / 100 < 10 := by omega
  have d2 : v / 10 % 10 < 10 := by omega
  have d3 : v % 10 < 10 := by omega
  unfold natOf ddd
  simp only [List.isEmpty_cons, List.all_cons, List.all_nil, isDigit_dc d1, isDigit_dc d2,
    isDigit_dc d3, List.foldl_cons, List.foldl_nil, toNat_dc d1, toNat_dc d2, toNat_dc d3]
  simp
  omega

/-! ### `timeMs` on a written instant -/

theorem canon3_split (h m s f : Nat) (hh : h < 100) (hm : m < 100) (hs : s < 100) (hf : f < 1000) :
    splitC '.' (C16.canon3 h m s f '.') = [dd h ++ ':' :: dd m ++ ':' :: dd s, ddd f] := by
  unfold C16.canon3
  exact VTT.splitC_kv '.' _ _ (C16.hms_not_mem h m s hh hm hs '.' (Or.inl rfl))
    ((digitStr_ddd hf).not_mem (Or.inr (Or.inl rfl)))

theorem timeOf_canon3M (h m s f : Nat) (hh : h < 100) (hm : m < 60) (hs : s < 60) (hf : f < 1000) :
    VTTRead.timeOf (dd h ++ ':' :: dd m ++ ':' :: dd s) (some (ddd f))
      = some (((h * 60 + m) * 60 + s) * 1000 + f) := by
  have hl : (ddd f).length = 3 := rfl
  have hfr : VTTRead.fracSpec (some (ddd f)) = some f := by
    simp [VTTRead.fracSpec, hl, natOf_dddM hf]
  have hmap : (splitC ':' (dd h ++ ':' :: dd m ++ ':' :: dd s)).map natOf = [some h, some m, some s] := by
    rw [C16.hms_split h m s hh (by omega) (by omega)]
    simp only [List.map_cons, List.map_nil, natOf_ddM hh, natOf_ddM (show m < 100 by omega),
      natOf_ddM (show s < 100 by omega)]
  unfold VTTRead.timeOf
  rw [hfr, hmap]
  have hb : (decide (m < 60) && decide (s < 60) && decide (h < 1000000)) = true := by
    simp only [Bool.and_eq_true, decide_eq_true_eq]; omega
  simp only [hb, if_true]

/-- `timeMs` on the canonical rendering `hh:mm:ss.fff` -/
theorem timeMs_canon3M (h m s f : Nat) (hh : h < 100) (hm : m < 60) (hs : s < 60) (hf : f < 1000) :
    timeMs (C16.canon3 h m s f '.') = some (((h * 60 + m) * 60 + s) * 1000 + f) := by
  have htrim : trimSpace (C16.canon3 h m s f '.') = C16.canon3 h m s f '.' :=
    trimSpace_id (fun c hc => VTT.timeChar_noSpace (VTT.timeChar_canon3 h m s f hh (by omega) (by omega) hf c hc))
  have hdp : VTTRead.dotPair (C16.canon3 h m s f '.') = (dd h ++ ':' :: dd m ++ ':' :: dd s, some (ddd f)) := by
    unfold VTTRead.dotPair
    rw [canon3_split h m s f hh (by omega) (by omega) hf]
  rw [VTTRead.timeMs_eq, htrim, hdp]
  exact timeOf_canon3M h m s f hh hm hs hf

/-- `timeMs` on a written instant (the `timeMs_stamp` of the plan, stated on `formatVTT`) -/
theorem timeMs_stamp (lv : Int) (h0 : 0 ≤ lv) (h1 : lv < 360000000000000) :
    ∃ ms, timeMs (Duration.formatVTT lv) = some ms := by
  obtain ⟨h, m, s, f, hh, hm, hs, hf, hfmt, _⟩ := C16.format_shape3 lv '.' h0 h1
  have hF : Duration.formatVTT lv = C16.canon3 h m s f '.' := hfmt
  exact ⟨_, by rw [hF]; exact timeMs_canon3M h m s f hh hm hs hf⟩

/-! ### the timestamp-map line -/

theorem lit_tsPrefix (r : Str) : "X-TIMESTAMP-MAP".toList ++ '=' :: r = VTTRead.tsPrefix ++ r := rfl

theorem kvSpec_local (F : Str) : VTTRead.kvSpec ("LOCAL".toList ++ ':' :: F) = some ("local".toList, F) := by
  have k1 : toLowerAscii (trimSpace "LOCAL".toList) = "local".toList := by decide
  unfold VTTRead.kvSpec
  rw [VTT.splitOnce_colon _ _ (by decide)]
  simp only [k1]

theorem kvSpec_mpegts (m : Str) : VTTRead.kvSpec ("MPEGTS".toList ++ ':' :: m) = some ("mpegts".toList, m) := by
  have k2 : toLowerAscii (trimSpace "MPEGTS".toList) = "mpegts".toList := by decide
  unfold VTTRead.kvSpec
  rw [VTT.splitOnce_colon _ _ (by decide)]
  simp only [k2]

theorem tsCore_local (F m : Str) : VTTRead.tsCore "local".toList F "mpegts".toList m = VTTRead.tsVal F m := by
  unfold VTTRead.tsCore
  simp

theorem comma_not_mem_local (F : Str) (hF : ∀ c ∈ F, VTT.timeChar c = true) : ',' ∉ "LOCAL".toList ++ ':' :: F := by
  intro hc
  simp only [List.mem_append, List.mem_cons] at hc
  rcases hc with hc | hc | hc
  · revert hc; decide
  · revert hc; decide
  · exact (VTT.plainC_spec (VTT.plainC_of_time (hF _ hc))).2.2.2 rfl

theorem comma_not_mem_mpegts (m : Str) (hm : ∀ c ∈ m, isDigit c = true) : ',' ∉ "MPEGTS".toList ++ ':' :: m := by
  intro hc
  simp only [List.mem_append, List.mem_cons] at hc
  rcases hc with hc | hc | hc
  · revert hc; decide
  · revert hc; decide
  · exact absurd (hm _ hc) (by decide)

/-- the decoder on a timestamp-map line whose parts it can read -/
theorem tsmapLine_tsLine (F m : Str) (ms n : Nat) (hF : ∀ c ∈ F, VTT.timeChar c = true)
    (ht : timeMs F = some ms) (hm : natOf m = some n) (hn : n < 2 ^ 62) :
    tsmapLine (VTT.tsLine F m) = some ((ms : Int) * 1000000, (n : Int)) := by
  have hmd : ∀ c ∈ m, isDigit c = true := (VTTRead.natOf_spec hm).2.2.1
  have hsplit : splitC ',' ("LOCAL".toList ++ ':' :: F ++ ',' :: ("MPEGTS".toList ++ ':' :: m))
      = ["LOCAL".toList ++ ':' :: F, "MPEGTS".toList ++ ':' :: m] := by
    rw [show "LOCAL".toList ++ ':' :: F ++ ',' :: ("MPEGTS".toList ++ ':' :: m)
        = ("LOCAL".toList ++ ':' :: F) ++ ',' :: ("MPEGTS".toList ++ ':' :: m) by simp]
    exact VTT.splitC_kv ',' _ _ (comma_not_mem_local F hF) (comma_not_mem_mpegts m hmd)
  rw [VTTRead.tsmapLine_eq2, VTT.tsLine_eq, lit_tsPrefix, VTT.dropPrefix?_append]
  simp only [hsplit, List.map_cons, List.map_nil, kvSpec_local, kvSpec_mpegts, tsCore_local]
  unfold VTTRead.tsVal
  rw [ht, hm]
  simp only [hn, if_true]

/-- the decoder reads the written timestamp-map line -/
theorem tsmapLine_written (lv : Int) (h0 : 0 ≤ lv) (h1 : lv < 360000000000000) (m : Str) (n : Nat)
    (hm : Spec.VTT.natOf m = some n) (hn : n < 2 ^ 62) :
    ∃ v, Spec.VTT.tsmapLine (VTT.tsLine (Duration.formatVTT lv) m) = some v := by
  obtain ⟨ms, hms⟩ := timeMs_stamp lv h0 h1
  exact ⟨_, tsmapLine_tsLine _ m ms n (VTT.format_facts lv h0 h1).1 hms hm hn⟩

theorem hasPrefix_tsLine (F m : Str) : hasPrefix "X-TIMESTAMP-MAP".toList (VTT.tsLine F m) = true := by
  rw [VTT.tsLine_eq]; unfold hasPrefix; rw [VTT.dropPrefix?_append]; rfl

theorem not_region_tsLine (F m : Str) : hasPrefix "Region: ".toList (VTT.tsLine F m) = false := by
  have hX : VTT.tsLine F m = 'X' :: ("-TIMESTAMP-MAP=LOCAL:".toList ++ F ++ ",MPEGTS:".toList ++ m) := rfl
  rw [hX]; exact VTT.hasPrefix_ne _ _ (by decide)

/-! ### the region definition line: from words to `key = value` pairs -/

/-- the pair a setting contributes -/
def kvw (K : Str) (o : Option Str) : List (Str × Str) :=
  match o with
  | some v => [(K, v)]
  | none => []

/-- the pairs of a written region definition, over abstract keys -/
def regKvsG (I L A S V W : Str) (id : Str) (li an sc vp wi : Option Str) : List (Str × Str) :=
  (I, id) :: (kvw L li ++ (kvw A an ++ (kvw S sc ++ (kvw V vp ++ (kvw W wi ++ [])))))

theorem kvOf_kv (key v : Str) (hk : '=' ∉ key) (hv : '=' ∉ v) :
    VTTRead.kvOf (key ++ '=' :: v) = some (key, v) := by
  unfold VTTRead.kvOf
  rw [VTT.splitC_kv '=' key v hk hv]

theorem map_kvOf_word (label : String) (K : Str) (hl : label.toList = K ++ ['=']) (hK : '=' ∉ K)
    (o : Option Str) (ho : VTT.regOptOk o = true) :
    (VTT.word label o).map VTTRead.kvOf = (kvw K o).map some := by
  cases o with
  | none => rfl
  | some v =>
    simp only [VTT.word, kvw, List.map_cons, List.map_nil]
    rw [hl, show K ++ ['='] ++ v = K ++ '=' :: v by simp, kvOf_kv K v hK (VTT.regVal_noEq ho)]

theorem map_kvOf_regWords (id : Str) (li an sc vp wi : Option Str) (hid : VTT.regValOk id = true)
    (hli : VTT.regOptOk li = true) (han : VTT.regOptOk an = true) (hsc : VTT.regOptOk sc = true)
    (hvp : VTT.regOptOk vp = true) (hwi : VTT.regOptOk wi = true) :
    (VTT.regWords id li an sc vp wi).map VTTRead.kvOf =
      (regKvsG "id".toList "lines".toList "regionanchor".toList "scroll".toList "viewportanchor".toList
        "width".toList id li an sc vp wi).map some := by
  have h0 : VTTRead.kvOf ("id=".toList ++ id) = some ("id".toList, id) := by
    show VTTRead.kvOf ("id".toList ++ '=' :: id) = _
    exact kvOf_kv _ _ (by decide) (VTT.regVal_noEq hid)
  unfold VTT.regWords regKvsG
  simp only [List.map_cons, List.map_append, List.map_nil, h0,
    map_kvOf_word "lines=" "lines".toList rfl (by decide) li hli,
    map_kvOf_word "regionanchor=" "regionanchor".toList rfl (by decide) an han,
    map_kvOf_word "scroll=" "scroll".toList rfl (by decide) sc hsc,
    map_kvOf_word "viewportanchor=" "viewportanchor".toList rfl (by decide) vp hvp,
    map_kvOf_word "width=" "width".toList rfl (by decide) wi hwi]

theorem any_isNone_map_some {α : Type} (l : List α) : (l.map some).any (·.isNone) = false := by
  induction l with
  | nil => rfl
  | cons a l ih => simp only [List.map_cons, List.any_cons, Option.isNone_some, Bool.false_or, ih]

theorem filterMap_id_map_some {α : Type} (l : List α) : (l.map some).filterMap id = l := by
  induction l with
  | nil => rfl
  | cons a l ih => rw [List.map_cons, List.filterMap_cons_some (by rfl : id (some a) = some a), ih]

/-! ### `regionOfKvs` over abstract keys -/

def regionOfKvsG (I W L A V S : Str) (kvs : List (Str × Str)) : Option GRegion :=
  let keys := kvs.map (·.1)
  let known := [I, W, L, A, V, S]
  if !(keys.all (known.contains ·)) || !keys.Nodup || !(keys.contains I) || kvs.any (fun kv => kv.2.isEmpty) then none else
  let get (k : Str) : Str := (kvs.lookup k).getD []
  if get L ≠ [] && (natOf (get L)).isNone then none else
  let ln := if (natOf (get L)) = some 0 then [] else
    (get L).dropWhile (· = '0')
  some { id := get I, lines := ln, anchor := get A, scroll := get S, viewport := get V, width := get W }

theorem regionOfKvs_eqG (kvs : List (Str × Str)) :
    VTTRead.regionOfKvs kvs = regionOfKvsG "id".toList "width".toList "lines".toList "regionanchor".toList
      "viewportanchor".toList "scroll".toList kvs := rfl

/-- the six keys are pairwise different -/
def keysDistinct (I L A S V W : Str) : Prop :=
  I ≠ L ∧ I ≠ A ∧ I ≠ S ∧ I ≠ V ∧ I ≠ W ∧ L ≠ A ∧ L ≠ S ∧ L ≠ V ∧ L ≠ W ∧ A ≠ S ∧ A ≠ V ∧ A ≠ W ∧ S ≠ V ∧ S ≠ W ∧ V ≠ W

theorem keys_distinct :
    keysDistinct "id".toList "lines".toList "regionanchor".toList "scroll".toList "viewportanchor".toList "width".toList := by
  unfold keysDistinct; decide

theorem keys_nodup {I L A S V W : Str} (h : keysDistinct I L A S V W) : [I, L, A, S, V, W].Nodup := by
  obtain ⟨h1, h2, h3, h4, h5, h6, h7, h8, h9, h10, h11, h12, h13, h14, h15⟩ := h
  simp only [List.nodup_cons, List.mem_cons, List.not_mem_nil, or_false, not_or, List.nodup_nil, and_true,
    not_false_eq_true]
  exact ⟨⟨h1, h2, h3, h4, h5⟩, ⟨h6, h7, h8, h9⟩, ⟨h10, h11, h12⟩, ⟨h13, h14⟩, h15⟩

theorem keys_kvw_sub (K : Str) (o : Option Str) : List.Sublist ((kvw K o).map (·.1)) [K] := by
  cases o with
  | none => exact List.nil_sublist _
  | some v => exact List.Sublist.refl _

theorem keys_regKvsG_sub (I L A S V W : Str) (id : Str) (li an sc vp wi : Option Str) :
    List.Sublist ((regKvsG I L A S V W id li an sc vp wi).map (·.1)) [I, L, A, S, V, W] := by
  unfold regKvsG
  simp only [List.map_cons, List.map_append, List.map_nil]
  exact List.Sublist.cons_cons I
    ((keys_kvw_sub L li).append ((keys_kvw_sub A an).append ((keys_kvw_sub S sc).append
      ((keys_kvw_sub V vp).append ((keys_kvw_sub W wi).append (List.Sublist.refl []))))))

theorem lookup_kvw_ne {K K' : Str} (h : K ≠ K') (o : Option Str) (rest : List (Str × Str)) :
    (kvw K' o ++ rest).lookup K = rest.lookup K := by
  cases o with
  | none => rfl
  | some v =>
    have hb : (K == K') = false := by simpa using h
    simp only [kvw, List.cons_append, List.nil_append, List.lookup_cons, hb]

theorem lookup_kvw_self (K : Str) (o : Option Str) (rest : List (Str × Str)) (hr : rest.lookup K = none) :
    (kvw K o ++ rest).lookup K = o := by
  cases o with
  | none => exact hr
  | some v =>
    have hb : (K == K) = true := by simp
    simp only [kvw, List.cons_append, List.nil_append, List.lookup_cons, hb]

theorem lookupI_regKvsG (I L A S V W : Str) (id : Str) (li an sc vp wi : Option Str) :
    (regKvsG I L A S V W id li an sc vp wi).lookup I = some id := by
  have hb : (I == I) = true := by simp
  simp only [regKvsG, List.lookup_cons, hb]

theorem lookupL_regKvsG {I L A S V W : Str} (h : keysDistinct I L A S V W) (id : Str) (li an sc vp wi : Option Str) :
    (regKvsG I L A S V W id li an sc vp wi).lookup L = li := by
  obtain ⟨h1, _, _, _, _, h6, h7, h8, h9, _⟩ := h
  have hb : (L == I) = false := by simpa using Ne.symm h1
  simp only [regKvsG, List.lookup_cons, hb]
  apply lookup_kvw_self
  rw [lookup_kvw_ne h6, lookup_kvw_ne h7, lookup_kvw_ne h8, lookup_kvw_ne h9]
  rfl

theorem mem_kvw {K : Str} {o : Option Str} {kv : Str × Str} (h : kv ∈ kvw K o) : kv.1 = K ∧ o = some kv.2 := by
  cases o with
  | none => cases h
  | some v =>
    simp only [kvw, List.mem_singleton] at h
    subst h
    exact ⟨rfl, rfl⟩

theorem mem_regKvsG {I L A S V W : Str} {id : Str} {li an sc vp wi : Option Str} {kv : Str × Str}
    (h : kv ∈ regKvsG I L A S V W id li an sc vp wi) :
    kv.2 = id ∨ li = some kv.2 ∨ an = some kv.2 ∨ sc = some kv.2 ∨ vp = some kv.2 ∨ wi = some kv.2 := by
  simp only [regKvsG, List.mem_cons, List.mem_append, List.not_mem_nil, or_false] at h
  rcases h with rfl | h | h | h | h | h
  · exact Or.inl rfl
  · exact Or.inr (Or.inl (mem_kvw h).2)
  · exact Or.inr (Or.inr (Or.inl (mem_kvw h).2))
  · exact Or.inr (Or.inr (Or.inr (Or.inl (mem_kvw h).2)))
  · exact Or.inr (Or.inr (Or.inr (Or.inr (Or.inl (mem_kvw h).2))))
  · exact Or.inr (Or.inr (Or.inr (Or.inr (Or.inr (mem_kvw h).2))))

/-- a value that is set is not empty -/
def optNe (o : Option Str) : Prop := ∀ v, o = some v → v ≠ []

/-- the decoder's region, over abstract keys -/
theorem regionOfKvsG_regKvsG {I L A S V W : Str} (h : keysDistinct I L A S V W) (id : Str) (li an sc vp wi : Option Str)
    (hid : id ≠ []) (hli : optNe li) (han : optNe an) (hsc : optNe sc) (hvp : optNe vp) (hwi : optNe wi)
    (hnat : ∀ v, li = some v → (natOf v).isSome = true) :
    ∃ r : GRegion, regionOfKvsG I W L A V S (regKvsG I L A S V W id li an sc vp wi) = some r ∧ r.id = id ∧
      r.lines.length ≤ (li.getD []).length := by
  have hsub := keys_regKvsG_sub I L A S V W id li an sc vp wi
  have c1 : ((regKvsG I L A S V W id li an sc vp wi).map (·.1)).all ([I, W, L, A, V, S].contains ·) = true := by
    rw [List.all_eq_true]
    intro k hk
    have := hsub.subset hk
    simp only [List.mem_cons, List.not_mem_nil, or_false] at this
    simp only [List.contains_eq_mem, List.mem_cons, List.not_mem_nil, or_false, decide_eq_true_eq]
    rcases this with e | e | e | e | e | e <;> simp [e]
  have c2 : ((regKvsG I L A S V W id li an sc vp wi).map (·.1)).Nodup := hsub.nodup (keys_nodup h)
  have c3 : ((regKvsG I L A S V W id li an sc vp wi).map (·.1)).contains I = true := by
    simp [regKvsG]
  have c4 : (regKvsG I L A S V W id li an sc vp wi).any (fun kv => kv.2.isEmpty) = false := by
    rw [List.any_eq_false]
    intro kv hkv
    have hne : kv.2 ≠ [] := by
      rcases mem_regKvsG hkv with e | e | e | e | e | e
      · rw [e]; exact hid
      · exact hli _ e
      · exact han _ e
      · exact hsc _ e
      · exact hvp _ e
      · exact hwi _ e
    simpa using hne
  have c5 : ((((regKvsG I L A S V W id li an sc vp wi).lookup L).getD [] ≠ [] : Bool) &&
      (natOf (((regKvsG I L A S V W id li an sc vp wi).lookup L).getD [])).isNone) = false := by
    rw [lookupL_regKvsG h]
    cases li with
    | none => simp
    | some v =>
      obtain ⟨n, hn⟩ := Option.isSome_iff_exists.mp (hnat v rfl)
      simp [hn]
  unfold regionOfKvsG
  simp only [c1, c2, c3, c4, c5, decide_true, Bool.not_true, Bool.or_false, Bool.false_eq_true, if_false]
  refine ⟨_, rfl, ?_, ?_⟩
  · simp only [lookupI_regKvsG, Option.getD_some]
  · simp only [lookupL_regKvsG h]
    split
    · exact Nat.zero_le _
    · exact (List.dropWhile_sublist _).length_le

/-! ### the written region definition line -/

theorem natOf_isSome_of_digits {v : Str} (hne : v ≠ []) (hd : v.all isDigit = true) : (natOf v).isSome = true := by
  unfold natOf
  cases v with
  | nil => exact absurd rfl hne
  | cons c cs => simp only [List.isEmpty_cons, hd, Bool.not_true, Bool.or_self, Bool.false_eq_true, if_false,
      Option.isSome_some]

theorem regOpt_optNe {o : Option Str} (h : VTT.regOptOk o = true) : optNe o := by
  intro v e
  subst e
  exact (VTT.regValOk_spec h).1

theorem linesW2_len {li : Option Str} (h : linesW2 li = true) : (li.getD []).length ≤ 18 := by
  cases li with
  | none => exact Nat.zero_le _
  | some v =>
    simp only [linesW2, Bool.and_eq_true, decide_eq_true_eq] at h
    exact h.2

theorem regionLine_split (w0 : Str) (W' : List Str) :
    "Region:".toList ++ VTT.spaced (w0 :: W') = "Region: ".toList ++ (w0 ++ VTT.spaced W') := by
  rw [VTT.spaced_cons]; rfl

/-- the decoder on `Region:` followed by the words of a definition -/
theorem regionLine_regWords (id : Str) (li an sc vp wi : Option Str) (hid : VTT.regValOk id = true)
    (hli : VTT.linesOptOk li = true) (han : VTT.regOptOk an = true) (hsc : VTT.regOptOk sc = true)
    (hvp : VTT.regOptOk vp = true) (hwi : VTT.regOptOk wi = true) (hx : linesW2 li = true) :
    ∃ r : GRegion, regionLine ("Region:".toList ++ VTT.spaced (VTT.regWords id li an sc vp wi)) = some r ∧
      r.id = id ∧ r.lines.length ≤ 18 := by
  have hli' := VTT.linesOpt_reg hli
  have hws := VTT.regWords_ok id li an sc vp wi hid hli han hsc hvp hwi
  have hmap := map_kvOf_regWords id li an sc vp wi hid hli' han hsc hvp hwi
  have hnat : ∀ v, li = some v → (natOf v).isSome = true := by
    intro v e
    subst e
    simp only [linesW2, Bool.and_eq_true, decide_eq_true_eq] at hx
    exact natOf_isSome_of_digits (VTT.regValOk_spec hli').1 hx.1
  obtain ⟨r, hr, hrid, hrl⟩ := regionOfKvsG_regKvsG keys_distinct id li an sc vp wi (VTT.regValOk_spec hid).1
    (regOpt_optNe hli') (regOpt_optNe han) (regOpt_optNe hsc) (regOpt_optNe hvp) (regOpt_optNe hwi) hnat
  refine ⟨r, ?_, hrid, Nat.le_trans hrl (linesW2_len hx)⟩
  rw [← regionOfKvs_eqG] at hr
  generalize regKvsG "id".toList "lines".toList "regionanchor".toList "scroll".toList "viewportanchor".toList
    "width".toList id li an sc vp wi = kvs at hmap hr
  obtain ⟨w0, W', hW⟩ : ∃ w0 W', VTT.regWords id li an sc vp wi = w0 :: W' := ⟨_, _, rfl⟩
  rw [hW] at hws hmap ⊢
  have hsplit : splitC ' ' (w0 ++ VTT.spaced W') = w0 :: W' :=
    VTT.splitC_spaced W' w0 (VTT.noSpace_ne_blank (hws w0 (by simp)).2)
      (fun x hx => VTT.noSpace_ne_blank (hws x (by simp [hx])).2)
  rw [VTTRead.regionLine_eq, regionLine_split, VTT.dropPrefix?_append]
  simp only [hsplit, hmap, any_isNone_map_some, filterMap_id_map_some, Bool.false_eq_true, if_false]
  exact hr

/-- the decoder reads the written region definition line: same identifier, `lines` of at most 18 digits -/
theorem regionLine_written (s : Subs) (d : Def) (hok : VTT.regionOk s d = true) (hx : regionW2 s d = true) :
    ∃ r : GRegion, Spec.VTT.regionLine (VTT.regionLine s d) = some r ∧ r.id = d.id ∧ r.lines.length ≤ 18 := by
  simp only [VTT.regionOk, Bool.and_eq_true] at hok
  obtain ⟨⟨⟨⟨⟨hid, hli⟩, han⟩, hsc⟩, hvp⟩, hwi⟩ := hok
  rw [VTT.regionLine_eq]
  exact regionLine_regWords d.id _ _ _ _ _ hid hli han hsc hvp hwi hx

theorem hasPrefix_regionLine (s : Subs) (d : Def) : hasPrefix "Region: ".toList (VTT.regionLine s d) = true := by
  rw [VTT.regionLine_eq]
  obtain ⟨w0, W', hW⟩ : ∃ w0 W', VTT.regWords d.id (VTT.regSetting s d "WebVTTLines")
      (VTT.regSetting s d "WebVTTRegionAnchor") (VTT.regSetting s d "WebVTTScroll")
      (VTT.regSetting s d "WebVTTViewportAnchor") (VTT.regSetting s d "WebVTTWidth") = w0 :: W' := ⟨_, _, rfl⟩
  rw [hW, regionLine_split]
  unfold hasPrefix
  rw [VTT.dropPrefix?_append]
  rfl

/-- hence `VTTRead.regionOK` of the written line -/
theorem regionOK_written (s : Subs) (d : Def) (hok : VTT.regionOk s d = true) (hx : regionW2 s d = true) :
    VTTRead.regionOK (VTT.regionLine s d) = true := by
  obtain ⟨r, hr, _, hl⟩ := regionLine_written s d hok hx
  unfold VTTRead.regionOK
  rw [hr]
  simpa using hl

/-! ### the decoder's fold over the written region definition lines -/

theorem metaStep_region (s : Subs) (d : Def) (hok : VTT.regionOk s d = true) (hx : regionW2 s d = true)
    (st : DocSt) (hfresh : st.regions.any (·.id = d.id) = false) :
    ∃ r : GRegion, r.id = d.id ∧
      VTTRead.metaStep (some st) (VTT.regionLine s d) = some { st with regions := st.regions ++ [r] } := by
  obtain ⟨r, hr, hid, _⟩ := regionLine_written s d hok hx
  refine ⟨r, hid, ?_⟩
  unfold VTTRead.metaStep
  simp only [hasPrefix_regionLine, if_true, hr, hid, hfresh, Bool.false_eq_true, if_false]

/-- the decoder's fold step over the written region lines, identifiers pairwise different and different
    from those already defined -/
theorem foldl_metaStep_regions (s : Subs) (ds : List Def) (hok : ∀ d ∈ ds, VTT.regionOk s d = true)
    (hx : ∀ d ∈ ds, regionW2 s d = true) :
    ∀ (st : DocSt), (ds.map (·.id)).Nodup → (∀ d ∈ ds, st.regions.any (·.id = d.id) = false) →
      ∃ rs : List GRegion, rs.map (·.id) = ds.map (·.id) ∧
        (ds.map (VTT.regionLine s)).foldl VTTRead.metaStep (some st) = some { st with regions := st.regions ++ rs } := by
  induction ds with
  | nil =>
    intro st _ _
    exact ⟨[], rfl, by simp⟩
  | cons d ds ih =>
    intro st hnd hfresh
    simp only [List.map_cons, List.nodup_cons] at hnd
    obtain ⟨r, hrid, hstep⟩ := metaStep_region s d (hok d (by simp)) (hx d (by simp)) st (hfresh d (by simp))
    have hfresh' : ∀ e ∈ ds, ({ st with regions := st.regions ++ [r] } : DocSt).regions.any (·.id = e.id) = false := by
      intro e he
      have h1 := hfresh e (by simp [he])
      have h2 : ¬ r.id = e.id := by
        rw [hrid]
        intro heq
        exact hnd.1 (by rw [heq]; exact List.mem_map_of_mem he)
      simp only [List.any_append, h1, List.any_cons, List.any_nil, Bool.or_false, Bool.false_or, decide_eq_false_iff_not]
      exact h2
    obtain ⟨rs, hrs, hfold⟩ := ih (fun e he => hok e (by simp [he])) (fun e he => hx e (by simp [he]))
      { st with regions := st.regions ++ [r] } hnd.2 hfresh'
    refine ⟨r :: rs, by simp only [List.map_cons, hrid, hrs], ?_⟩
    rw [List.map_cons, List.foldl_cons, hstep, hfold]
    simp only [List.append_assoc, List.singleton_append]

end VTT3W
end Astisub
