import Astisub.Lemmas.VTTRead2Defs
import Astisub.Lemmas.VTTLine

/-!
# Lemmas/VTTRead2TextA — cue text, read side: the decoder `Spec.VTT.textLine` piece by piece

* equations of `textLine` and of `unescapeHTML`, character by character;
* `textLine_chunk`: over a `<`-free chunk the decoder accumulates exactly `unescapeHTML chunk`;
* `textLine_lt_inv`: what a successful step of the decoder at `<` says about the tag (`TagStep`).
-/

namespace Astisub
namespace VTTRead
open Go Spec.VTT List
open SRT (unescapeHTML unescapePairs)

/-! ### equations of the decoder -/

theorem textLine_nil (f : Nat) (st : TextSt) : textLine (f + 1) [] st = some (flushText st) := rfl

theorem textLine_char (f : Nat) (c : Char) (rest : Str) (st : TextSt) (h1 : c ≠ '<') (h2 : c ≠ '&') :
    textLine (f + 1) (c :: rest) st = textLine f rest { st with acc := c :: st.acc } := by
  rw [textLine]
  · intro a; exact absurd a h1
  · intro a; exact absurd a h2

theorem textLine_amp (f : Nat) (rest : Str) (st : TextSt) :
    textLine (f + 1) ('&' :: rest) st =
      if hasPrefix "amp;".toList rest then textLine f (rest.drop 4) { st with acc := '&' :: st.acc }
      else if hasPrefix "lt;".toList rest then textLine f (rest.drop 3) { st with acc := '<' :: st.acc }
      else if hasPrefix "nbsp;".toList rest then textLine f (rest.drop 5) { st with acc := Char.ofNat 0xA0 :: st.acc }
      else if hasPrefix "gt;".toList rest || hasPrefix "lrm;".toList rest || hasPrefix "rlm;".toList rest then none
      else textLine f rest { st with acc := '&' :: st.acc } := by
  rw [textLine]

/-! ### equations of `unescapeHTML` -/

theorem replGo_skip (pairs : List (Str × Str)) (xs : Str) (k : Nat) :
    replGo pairs xs k = replGo pairs (xs.drop k) 0 := by
  induction k generalizing xs with
  | zero => rfl
  | succ k ih =>
    cases xs with
    | nil => simp [replGo]
    | cons x xs => simp [replGo, ih]

theorem hasPrefix_cons (c : Char) (p x : Str) : hasPrefix (c :: p) (c :: x) = hasPrefix p x := by
  simp [hasPrefix, dropPrefix?]

theorem amp5 : "&amp;".toList = '&' :: "amp;".toList := by decide
theorem lt4 : "&lt;".toList = '&' :: "lt;".toList := by decide
theorem nbsp6 : "&nbsp;".toList = '&' :: "nbsp;".toList := by decide

theorem matchPair_amp (x : Str) :
    matchPair unescapePairs ('&' :: x) =
      if hasPrefix "amp;".toList x then some ("&".toList, 5)
      else if hasPrefix "lt;".toList x then some ("<".toList, 4)
      else if hasPrefix "nbsp;".toList x then some ([Char.ofNat 0xA0], 6)
      else none := by
  unfold matchPair unescapePairs
  rw [amp5, lt4, nbsp6]
  simp only [List.findSome?, hasPrefix_cons]
  cases hasPrefix "amp;".toList x <;> cases hasPrefix "lt;".toList x <;> cases hasPrefix "nbsp;".toList x <;> rfl

theorem matchPair_char (c : Char) (x : Str) (h : c ≠ '&') : matchPair unescapePairs (c :: x) = none := by
  have e : ∀ p : Str, hasPrefix ('&' :: p) (c :: x) = false := by
    intro p; simp [hasPrefix, dropPrefix?, Ne.symm h]
  unfold matchPair unescapePairs
  rw [amp5, lt4, nbsp6]
  simp only [List.findSome?, e]
  rfl

theorem unescape_nil : unescapeHTML [] = [] := rfl

theorem unescape_char (c : Char) (x : Str) (h : c ≠ '&') : unescapeHTML (c :: x) = c :: unescapeHTML x := by
  unfold unescapeHTML replacer
  rw [replGo, matchPair_char c x h]

theorem unescape_amp (x : Str) :
    unescapeHTML ('&' :: x) =
      if hasPrefix "amp;".toList x then '&' :: unescapeHTML (x.drop 4)
      else if hasPrefix "lt;".toList x then '<' :: unescapeHTML (x.drop 3)
      else if hasPrefix "nbsp;".toList x then Char.ofNat 0xA0 :: unescapeHTML (x.drop 5)
      else '&' :: unescapeHTML x := by
  unfold unescapeHTML replacer
  rw [replGo, matchPair_amp]
  cases hasPrefix "amp;".toList x
  · cases hasPrefix "lt;".toList x
    · cases hasPrefix "nbsp;".toList x
      · simp only [Bool.false_eq_true, if_false]
      · simp only [Bool.false_eq_true, if_false, if_true]; rw [replGo_skip]; rfl
    · simp only [Bool.false_eq_true, if_false, if_true]; rw [replGo_skip]; rfl
  · simp only [if_true]; rw [replGo_skip]; rfl

/-! ### the decoder over a `<`-free chunk -/

/-- what follows a chunk: the end of the line or a `<` -/
def RestLt (r : Str) : Prop := ∀ c r', r = c :: r' → c = '<'

theorem restLt_nil : RestLt [] := by intro c r' h; cases h
theorem restLt_lt (r : Str) : RestLt ('<' :: r) := by intro c r' h; cases h; rfl

theorem hasPrefix_nil (x : Str) : hasPrefix [] x = true := by simp [hasPrefix, dropPrefix?]

theorem hasPrefix_app (p : Str) (hp : ∀ c ∈ p, c ≠ '<') (r : Str) (hr : RestLt r) :
    ∀ x : Str, hasPrefix p (x ++ r) = hasPrefix p x := by
  induction p with
  | nil => intro x; rw [hasPrefix_nil, hasPrefix_nil]
  | cons a p ih =>
    intro x
    cases x with
    | nil =>
      cases r with
      | nil => rfl
      | cons c r' =>
        have hc := hr c r' rfl
        subst hc
        have : a ≠ '<' := hp a (by simp)
        simp [hasPrefix, dropPrefix?, this]
    | cons b x =>
      by_cases hab : a = b
      · subst hab
        rw [List.cons_append, hasPrefix_cons, hasPrefix_cons]
        exact ih (fun c hc => hp c (by simp [hc])) x
      · simp [hasPrefix, dropPrefix?, hab]

theorem hasPrefix_length : ∀ (p x : Str), hasPrefix p x = true → p.length ≤ x.length := by
  intro p
  induction p with
  | nil => intro x _; simp
  | cons a p ih =>
    intro x h
    cases x with
    | nil => simp [hasPrefix, dropPrefix?] at h
    | cons b x =>
      by_cases hab : a = b
      · subst hab
        rw [hasPrefix_cons] at h
        have := ih x h
        simp; omega
      · simp [hasPrefix, dropPrefix?, hab] at h

theorem mem_drop_ne {x : Str} (hx : ∀ c ∈ x, c ≠ '<') (k : Nat) : ∀ c ∈ x.drop k, c ≠ '<' :=
  fun c hc => hx c (List.mem_of_mem_drop hc)

theorem textLine_chunk (n : Nat) : ∀ (x : Str), x.length ≤ n → (∀ c ∈ x, c ≠ '<') →
    ∀ (r : Str), RestLt r → ∀ (fuel : Nat) (st fD : TextSt), x.length + r.length + 1 ≤ fuel →
    textLine fuel (x ++ r) st = some fD →
    ∃ fuel', r.length + 1 ≤ fuel' ∧
      textLine fuel' r { st with acc := (unescapeHTML x).reverse ++ st.acc } = some fD := by
  induction n with
  | zero =>
    intro x hl _ r _ fuel st fD hf h
    have : x = [] := by cases x with | nil => rfl | cons => simp at hl
    subst this
    exact ⟨fuel, by simpa using hf, by simpa [unescape_nil] using h⟩
  | succ n ih =>
    intro x hl hx r hr fuel st fD hf h
    cases x with
    | nil => exact ⟨fuel, by simpa using hf, by simpa [unescape_nil] using h⟩
    | cons c x0 =>
      obtain ⟨f, rfl⟩ : ∃ f, fuel = f + 1 := ⟨fuel - 1, by omega⟩
      have hc : c ≠ '<' := hx c (by simp)
      have hx0 : ∀ d ∈ x0, d ≠ '<' := fun d hd => hx d (by simp [hd])
      simp only [List.length_cons] at hl hf
      have key : ∀ (y : Str) (a : Char), y.length ≤ x0.length → (∀ d ∈ y, d ≠ '<') →
          textLine f (y ++ r) { st with acc := a :: st.acc } = some fD →
          ∃ fuel', r.length + 1 ≤ fuel' ∧
            textLine fuel' r { st with acc := (a :: unescapeHTML y).reverse ++ st.acc } = some fD := by
        intro y a hy hy' hh
        obtain ⟨fuel', h1, h2⟩ := ih y (by omega) hy' r hr f _ fD (by omega) hh
        exact ⟨fuel', h1, by simpa using h2⟩
      rw [List.cons_append] at h
      by_cases hamp : c = '&'
      · subst hamp
        rw [textLine_amp] at h
        rw [hasPrefix_app _ (by decide) r hr, hasPrefix_app _ (by decide) r hr, hasPrefix_app _ (by decide) r hr,
          hasPrefix_app _ (by decide) r hr, hasPrefix_app _ (by decide) r hr, hasPrefix_app _ (by decide) r hr] at h
        rw [unescape_amp]
        cases h1 : hasPrefix "amp;".toList x0 with
        | true =>
          have hlen : 4 ≤ x0.length := hasPrefix_length "amp;".toList x0 h1
          simp only [h1, if_true] at h ⊢
          rw [List.drop_append_of_le_length hlen] at h
          exact key _ _ (by simp) (mem_drop_ne hx0 _) h
        | false =>
          cases h2 : hasPrefix "lt;".toList x0 with
          | true =>
            have hlen : 3 ≤ x0.length := hasPrefix_length "lt;".toList x0 h2
            simp only [h1, h2, Bool.false_eq_true, if_false, if_true] at h ⊢
            rw [List.drop_append_of_le_length hlen] at h
            exact key _ _ (by simp) (mem_drop_ne hx0 _) h
          | false =>
            cases h3 : hasPrefix "nbsp;".toList x0 with
            | true =>
              have hlen : 5 ≤ x0.length := hasPrefix_length "nbsp;".toList x0 h3
              simp only [h1, h2, h3, Bool.false_eq_true, if_false, if_true] at h ⊢
              rw [List.drop_append_of_le_length hlen] at h
              exact key _ _ (by simp) (mem_drop_ne hx0 _) h
            | false =>
              simp only [h1, h2, h3, Bool.false_eq_true, if_false] at h ⊢
              split at h
              · cases h
              · exact key _ _ (Nat.le_refl _) hx0 h
      · rw [textLine_char f c _ st hc hamp] at h
        rw [unescape_char c x0 hamp]
        exact key _ _ (Nat.le_refl _) hx0 h

/-! ### the decoder at a tag -/

theorem drop_takeWhile_cons {p : Char → Bool} : ∀ (l : Str) (x : Char) (after : Str),
    l.drop (l.takeWhile p).length = x :: after → l = l.takeWhile p ++ x :: after ∧ p x = false := by
  intro l
  induction l with
  | nil => intro x after h; simp at h
  | cons a l ih =>
    intro x after h
    cases ha : p a with
    | false =>
      simp [List.takeWhile, ha] at h ⊢
      obtain ⟨rfl, rfl⟩ := h
      exact ⟨⟨rfl, rfl⟩, ha⟩
    | true =>
      simp [List.takeWhile, ha] at h ⊢
      exact ih x after h

/-- the decoder's action on a tag `<body>` (state already flushed); `none` = not well-formed -/
def tagStep (body : Str) (st : TextSt) : Option TextSt :=
  match body with
  | '/' :: name =>
    if name = "v".toList then (if st.voice.isSome then some st else none)
    else match st.stack.getLast? with
      | some t => if t.name = name then some { st with stack := st.stack.dropLast } else none
      | none => none
  | c :: _ =>
    if isDigit c then
      match inlineTs body with
      | some t => some { st with pending := some t }
      | none => none
    else if isAlpha c then
      if body.contains '/' then none else
      let head := body.takeWhile (fun ch => !isBlank ch)
      let ann := trimSpace (body.drop head.length)
      match splitC '.' head with
      | name :: classes =>
        if classes.any (·.isEmpty) then none
        else if name = "v".toList then
          (if st.voice.isSome || ann = [] then none else some { st with voice := some ann })
        else some { st with stack := st.stack ++ [{ name := name, classes := classes, annotation := ann }] }
      | [] => none
    else none
  | [] => none

theorem textLine_lt (f : Nat) (rest : Str) (st : TextSt) :
    textLine (f + 1) ('<' :: rest) st =
      match rest.drop (rest.takeWhile (· != '>')).length with
      | [] => none
      | _ :: after =>
        if (rest.takeWhile (· != '>')).any (fun c => c = '<' || c = '&') then none else
        match tagStep (rest.takeWhile (· != '>')) (flushText st) with
        | some st3 => textLine f after st3
        | none => none := by
  rw [textLine]
  generalize rest.takeWhile (· != '>') = body
  generalize flushText st = st2
  cases rest.drop body.length with
  | nil => rfl
  | cons x after =>
    dsimp only
    by_cases hb : (body.any fun c => decide (c = '<') || decide (c = '&')) = true
    · simp only [hb, if_true]
    · simp only [hb]
      cases body with
      | nil => rfl
      | cons c tl =>
        by_cases hc : c = '/'
        · subst hc
          simp only [tagStep, Bool.false_eq_true, if_false]
          by_cases h1 : tl = "v".toList
          · by_cases h2 : st2.voice.isSome = true
            · simp only [h1, h2, if_true]
            · simp only [h1, h2, if_true, Bool.false_eq_true, if_false]
          · simp only [h1, if_false]
            cases st2.stack.getLast? with
            | none => rfl
            | some t =>
              dsimp only
              by_cases h3 : t.name = tl
              · simp only [h3, if_true]
              · simp only [h3, if_false]
        · have e : tagStep (c :: tl) st2 = 
            if isDigit c then
              match inlineTs (c :: tl) with
              | some t => some { st2 with pending := some t }
              | none => none
            else if isAlpha c then
              if (c :: tl).contains '/' then none else
              match splitC '.' ((c :: tl).takeWhile (fun ch => !isBlank ch)) with
              | name :: classes =>
                if classes.any (·.isEmpty) then none
                else if name = "v".toList then
                  (if st2.voice.isSome || trimSpace ((c :: tl).drop ((c :: tl).takeWhile (fun ch => !isBlank ch)).length) = [] then none else some { st2 with voice := some (trimSpace ((c :: tl).drop ((c :: tl).takeWhile (fun ch => !isBlank ch)).length)) })
                else some { st2 with stack := st2.stack ++ [{ name := name, classes := classes, annotation := trimSpace ((c :: tl).drop ((c :: tl).takeWhile (fun ch => !isBlank ch)).length) }] }
              | [] => none
            else none := by
            rw [tagStep]
            intro h; exact hc h
          rw [e]
          simp only [Bool.false_eq_true, if_false]
          generalize trimSpace (drop (takeWhile (fun ch => !isBlank ch) (c :: tl)).length (c :: tl)) = ann
          generalize splitC '.' (takeWhile (fun ch => !isBlank ch) (c :: tl)) = parts
          generalize inlineTs (c :: tl) = its
          generalize (c :: tl).contains '/' = hasSl
          clear e
          generalize isDigit c = dg
          generalize isAlpha c = al
          cases dg with
          | true => simp only [if_true]; cases its <;> rfl
          | false =>
            simp only [Bool.false_eq_true, if_false]
            cases al with
            | false => simp only [Bool.false_eq_true, if_false]
            | true =>
              simp only [if_true]
              cases hasSl with
              | true => simp only [if_true]
              | false =>
                simp only [Bool.false_eq_true, if_false]
                cases parts with
                | nil => rfl
                | cons name classes =>
                  dsimp only
                  cases classes.any (fun x => isEmpty x) with
                  | true => simp only [if_true]
                  | false =>
                    simp only [Bool.false_eq_true, if_false]
                    by_cases hv : name = "v".toList
                    · simp only [hv, if_true]
                      cases (st2.voice.isSome || decide (ann = [])) with
                      | true => simp only [if_true]
                      | false => simp only [Bool.false_eq_true, if_false]
                    · simp only [hv, if_false]

/-- a successful step of the decoder at `<`: the tag `<body>`, the state after it, the rest -/
theorem textLine_lt_inv (f : Nat) (rest : Str) (st fD : TextSt) (h : textLine (f + 1) ('<' :: rest) st = some fD) :
    ∃ body after st3, rest = body ++ '>' :: after ∧ (∀ c ∈ body, c ≠ '>' ∧ c ≠ '<' ∧ c ≠ '&') ∧
      tagStep body (flushText st) = some st3 ∧ textLine f after st3 = some fD := by
  rw [textLine_lt] at h
  split at h
  · cases h
  · rename_i x after heq
    obtain ⟨h1, h2⟩ := drop_takeWhile_cons rest x after heq
    have hx : x = '>' := by simpa using h2
    subst hx
    split at h
    · cases h
    · rename_i hb
      split at h
      · rename_i st3 h3
        refine ⟨_, after, st3, h1, ?_, h3, h⟩
        intro c hc
        have h4 := VTT.TokAux.takeWhile_all rest c hc
        simp only [Bool.not_eq_true, List.any_eq_false, Bool.or_eq_false_iff, decide_eq_false_iff_not] at hb
        exact ⟨by simpa using h4, (hb c hc).1, (hb c hc).2⟩
      · cases h

/-! ### what a successful tag step says -/

/-- the part of a tag body before the first blank -/
def headOf (body : Str) : Str := body.takeWhile (fun ch => !isBlank ch)
/-- the annotation of a tag body -/
def annOf (body : Str) : Str := trimSpace (body.drop (headOf body).length)

theorem tagStep_close (name : Str) (st st3 : TextSt) (h : tagStep ('/' :: name) st = some st3) :
    (name = "v".toList ∧ st.voice.isSome = true ∧ st3 = st) ∨
    (name ≠ "v".toList ∧ ∃ t, st.stack.getLast? = some t ∧ t.name = name ∧
      st3 = { st with stack := st.stack.dropLast }) := by
  simp only [tagStep] at h
  by_cases h1 : name = "v".toList
  · left
    simp only [h1, if_true] at h
    split at h
    · rename_i h2; cases h; exact ⟨h1, h2, rfl⟩
    · cases h
  · right
    simp only [h1, if_false] at h
    split at h
    · rename_i t ht
      split at h
      · rename_i h3; cases h; exact ⟨h1, t, ht, h3, rfl⟩
      · cases h
    · cases h

theorem tagStep_open (c : Char) (tl : Str) (st st3 : TextSt) (hc : c ≠ '/') (hd : isDigit c = false)
    (h : tagStep (c :: tl) st = some st3) :
    isAlpha c = true ∧ (c :: tl).contains '/' = false ∧
    ∃ name classes, splitC '.' (headOf (c :: tl)) = name :: classes ∧ classes.any (·.isEmpty) = false ∧
      ((name = "v".toList ∧ st.voice = none ∧ annOf (c :: tl) ≠ [] ∧ st3 = { st with voice := some (annOf (c :: tl)) }) ∨
       (name ≠ "v".toList ∧
        st3 = { st with stack := st.stack ++ [{ name := name, classes := classes, annotation := annOf (c :: tl) }] })) := by
  rw [tagStep] at h
  · simp only [hd, Bool.false_eq_true, if_false] at h
    split at h
    · rename_i ha
      split at h
      · cases h
      · rename_i hs
        refine ⟨ha, by simpa using hs, ?_⟩
        split at h
        · rename_i name classes hsp
          split at h
          · cases h
          · rename_i hcl
            refine ⟨name, classes, hsp, by simpa only [Bool.not_eq_true] using hcl, ?_⟩
            split at h
            · rename_i hv
              left
              split at h
              · cases h
              · rename_i hva
                cases h
                simp only [Bool.or_eq_true, decide_eq_true_eq, not_or] at hva
                refine ⟨hv, ?_, hva.2, rfl⟩
                cases hvo : st.voice with
                | none => rfl
                | some v => rw [hvo] at hva; simp at hva
            · rename_i hv
              right
              cases h
              exact ⟨hv, rfl⟩
        · cases h
    · cases h
  · intro h; exact hc h

/-! ### `lineOK` piece by piece -/

/-- a character allowed inside a tag -/
def tagCharOK (c : Char) : Bool := !(c = '=' || c = '\x0c' || c = '|' || c = '\n' || c = '\r')

theorem scanOK_false_cons (c : Char) (cs : Str) :
    scanOK false (c :: cs) =
      if c = '<' then (match cs with | d :: _ => !isDigit d | [] => true) && scanOK true cs else scanOK false cs := by
  simp only [scanOK]
  cases cs <;> rfl

theorem scanOK_true_cons (c : Char) (cs : Str) :
    scanOK true (c :: cs) =
      if c = '>' then scanOK false cs
      else !(c = '=' || c = '\x0c' || c = '|' || c = '\n' || c = '\r') && scanOK true cs := by
  simp only [scanOK]

theorem scanOK_text (x r : Str) (hx : ∀ c ∈ x, c ≠ '<') : scanOK false (x ++ r) = scanOK false r := by
  induction x with
  | nil => rfl
  | cons c x ih =>
    have hc : c ≠ '<' := hx c (by simp)
    rw [List.cons_append, scanOK_false_cons]
    simp only [hc, if_false]
    exact ih (fun d hd => hx d (by simp [hd]))

theorem scanOK_lt_tx (s : Str) :
    scanOK false ('<' :: s) = ((match s with | d :: _ => !isDigit d | [] => true) && scanOK true s) := by
  rw [scanOK_false_cons]; simp only [if_true]

theorem scanOK_body (body after : Str) (hb : ∀ c ∈ body, c ≠ '>') :
    scanOK true (body ++ '>' :: after) = (body.all tagCharOK && scanOK false after) := by
  induction body with
  | nil => simp [scanOK_true_cons]
  | cons c body ih =>
    have hc : c ≠ '>' := hb c (by simp)
    rw [List.cons_append, scanOK_true_cons]
    simp only [hc, if_false, List.all_cons, ih (fun d hd => hb d (by simp [hd])), tagCharOK, Bool.and_assoc]

/-- `lineOK` of `chunk <body> after` -/
theorem scanOK_tag (body after : Str) (hb : ∀ c ∈ body, c ≠ '>') (h : scanOK false ('<' :: (body ++ '>' :: after)) = true) :
    (∀ d tl, body = d :: tl → isDigit d = false) ∧ (∀ c ∈ body, tagCharOK c = true) ∧ scanOK false after = true := by
  rw [scanOK_lt_tx, scanOK_body body after hb] at h
  simp only [Bool.and_eq_true, List.all_eq_true] at h
  refine ⟨?_, h.2.1, h.2.2⟩
  intro d tl e
  subst e
  simpa using h.1

end VTTRead
end Astisub
