import Astisub.Driver.SRT
import Astisub.Lemmas.SRTSpec

/-!
# Lemmas/SRTSpecView — `specView` is the check's own `Driver.srtView` of the normal form
-/

namespace Astisub
namespace SRTDoc
open Go SRT

/-! ## looking up a key in a sorted attribute list -/

theorem lookup_some_iff (l : KV) (h : l.Pairwise (fun a b => a.1 ≠ b.1)) (k v : Str) :
    l.lookup k = some v ↔ (k, v) ∈ l := by
  induction l with
  | nil => simp
  | cons e l ih =>
    obtain ⟨k', v'⟩ := e
    rw [List.pairwise_cons] at h
    rw [List.lookup_cons]
    by_cases hk : k = k'
    · subst hk
      have hnot : (k, v) ∉ l := fun hm => h.1 (k, v) hm rfl
      simp only [beq_self_eq_true, Option.some.injEq, List.mem_cons, Prod.mk.injEq, true_and, hnot, or_false]
      exact eq_comm
    · have hb : (k == k') = false := by simpa using hk
      simp only [hb, List.mem_cons, Prod.mk.injEq, hk, false_and, false_or]
      exact ih h.2

theorem lookup_perm {l₁ l₂ : KV} (hp : l₁.Perm l₂) (h : l₁.Pairwise (fun a b => a.1 ≠ b.1)) (k : Str) :
    l₁.lookup k = l₂.lookup k := by
  have h2 : l₂.Pairwise (fun a b => a.1 ≠ b.1) := (hp.pairwise_iff (fun hxy => Ne.symm hxy)).mp h
  apply Option.ext
  intro v
  rw [lookup_some_iff l₁ h, lookup_some_iff l₂ h2, hp.mem_iff]

/-- an entry of `mkAttrs l`, for distinct keys -/
theorem kvGet_mkAttrs (l : List (String × Option Str)) (hd : l.Pairwise (fun a b => a.1 ≠ b.1)) (k : String)
    (o : Option Str) (h : ∀ v, (k, some v) ∈ l ↔ o = some v) : kvGet (some (mkAttrs l)) k = o := by
  have hd' : (l.filterMap fun (k, v) => v.map fun v => (k.toList, v)).Pairwise (fun a b => a.1 ≠ b.1) := by
    apply List.Pairwise.filterMap _ _ hd
    intro a a' hne b hb b' hb'
    obtain ⟨ka, va⟩ := a
    obtain ⟨ka', va'⟩ := a'
    cases va with
    | none => simp at hb
    | some x =>
      cases va' with
      | none => simp at hb'
      | some x' =>
        simp only [Option.map_some, Option.some.injEq] at hb hb'
        subst hb; subst hb'
        exact fun e => hne (String.toList_injective e)
  unfold kvGet mkAttrs sortKV
  simp only
  rw [lookup_perm (List.mergeSort_perm _ _) (by
    exact ((List.mergeSort_perm _ _).pairwise_iff (fun hxy => Ne.symm hxy)).mpr hd')]
  apply Option.ext
  intro v
  rw [lookup_some_iff _ hd', ← h v, List.mem_filterMap]
  constructor
  · rintro ⟨⟨ka, va⟩, hm, he⟩
    cases va with
    | none => simp at he
    | some x =>
      simp only [Option.map_some, Option.some.injEq, Prod.mk.injEq] at he
      obtain ⟨e1, e2⟩ := he
      have := String.toList_injective e1
      subst this; subst e2
      exact hm
  · intro hm
    exact ⟨(k, some v), hm, rfl⟩

/-! ## the four markers of `runAttrs` -/

theorem runAttrs_keys (r : Run) (t : Option Str) :
    ([("SRTBold", optBool r.bold), ("SRTColor", r.color), ("SRTItalics", optBool r.italics),
      ("SRTUnderline", optBool r.underline), ("TTMLColor", r.color),
      ("WebVTTBold", optBool r.bold), ("WebVTTItalics", optBool r.italics), ("WebVTTUnderline", optBool r.underline),
      ("WebVTTTags", t)] : List (String × Option Str)).Pairwise (fun a b => a.1 ≠ b.1) := by
  simp [List.pairwise_cons]

theorem optBool_none_of_plain (r : Run) (h : styled r = false) :
    r.bold = false ∧ r.italics = false ∧ r.underline = false ∧ r.color = none := by
  rcases r with ⟨b, i, u, c⟩
  cases b <;> cases i <;> cases u <;> cases c <;> simp [styled] at h ⊢

theorem kvGet_runAttrs_bold (r : Run) : kvGet (runAttrs r) "SRTBold" = optBool r.bold := by
  cases hs : styled r with
  | false =>
    have hp := optBool_none_of_plain r hs
    have : (r.bold || r.color.isSome || r.italics || r.underline) = false := hs
    unfold runAttrs
    simp only [this, Bool.false_eq_true, ↓reduceIte]
    rw [hp.1]; rfl
  | true =>
    have : (r.bold || r.color.isSome || r.italics || r.underline) = true := hs
    unfold runAttrs
    simp only [this, ↓reduceIte]
    apply kvGet_mkAttrs _ (runAttrs_keys r _)
    intro v
    simp
    exact eq_comm

theorem kvGet_runAttrs_italics (r : Run) : kvGet (runAttrs r) "SRTItalics" = optBool r.italics := by
  cases hs : styled r with
  | false =>
    have hp := optBool_none_of_plain r hs
    have : (r.bold || r.color.isSome || r.italics || r.underline) = false := hs
    unfold runAttrs
    simp only [this, Bool.false_eq_true, ↓reduceIte]
    rw [hp.2.1]; rfl
  | true =>
    have : (r.bold || r.color.isSome || r.italics || r.underline) = true := hs
    unfold runAttrs
    simp only [this, ↓reduceIte]
    apply kvGet_mkAttrs _ (runAttrs_keys r _)
    intro v
    simp
    exact eq_comm

theorem kvGet_runAttrs_underline (r : Run) : kvGet (runAttrs r) "SRTUnderline" = optBool r.underline := by
  cases hs : styled r with
  | false =>
    have hp := optBool_none_of_plain r hs
    have : (r.bold || r.color.isSome || r.italics || r.underline) = false := hs
    unfold runAttrs
    simp only [this, Bool.false_eq_true, ↓reduceIte]
    rw [hp.2.2.1]; rfl
  | true =>
    have : (r.bold || r.color.isSome || r.italics || r.underline) = true := hs
    unfold runAttrs
    simp only [this, ↓reduceIte]
    apply kvGet_mkAttrs _ (runAttrs_keys r _)
    intro v
    simp
    exact eq_comm

theorem kvGet_runAttrs_color (r : Run) : kvGet (runAttrs r) "SRTColor" = r.color := by
  cases hs : styled r with
  | false =>
    have hp := optBool_none_of_plain r hs
    have : (r.bold || r.color.isSome || r.italics || r.underline) = false := hs
    unfold runAttrs
    simp only [this, Bool.false_eq_true, ↓reduceIte]
    rw [hp.2.2.2]; rfl
  | true =>
    have : (r.bold || r.color.isSome || r.italics || r.underline) = true := hs
    unfold runAttrs
    simp only [this, ↓reduceIte]
    apply kvGet_mkAttrs _ (runAttrs_keys r _)
    intro v
    simp
    exact eq_comm

theorem optBool_isSome (b : Bool) : (optBool b).isSome = b := by cases b <;> rfl

/-! ## the view of the normal form -/

/-- the run `srtView` builds from an `LItem` -/
def drvRun (li : LItem) : Spec.SRT.GRun :=
  { text := li.text, bold := (SRT.kvGet li.attrs "SRTBold").isSome, italic := (SRT.kvGet li.attrs "SRTItalics").isSome,
    underline := (SRT.kvGet li.attrs "SRTUnderline").isSome, color := SRT.kvGet li.attrs "SRTColor" }

theorem drvRun_normRun (li : LItem) : drvRun (normRun li) = viewRun li := by
  unfold drvRun normRun viewRun
  simp only [kvGet_runAttrs_bold, kvGet_runAttrs_italics, kvGet_runAttrs_underline, kvGet_runAttrs_color,
    optBool_isSome]

/-- the cue `srtView` builds -/
def drvItem (it : CItem) : Option Spec.SRT.GCue :=
  if it.startAt % 1000000 ≠ 0 || it.endAt % 1000000 ≠ 0 || it.startAt < 0 || it.endAt < 0 then none else
  some { startMs := (it.startAt / 1000000).toNat, endMs := (it.endAt / 1000000).toNat,
         lines := it.lines.map fun l => l.items.map drvRun }

theorem srtView_eq (s : Subs) : Driver.srtView s = Spec.SRT.mapM drvItem s.items := rfl

theorem drvItem_normItem (k : Nat) (it : CItem) (h0 : 0 ≤ it.startAt) (h1 : 0 ≤ it.endAt) :
    drvItem (normItem k it) = some (viewItem it) := by
  have e1 : (it.startAt - it.startAt % 1000000) % 1000000 = 0 := by omega
  have e2 : (it.endAt - it.endAt % 1000000) % 1000000 = 0 := by omega
  have e3 : ¬ (it.startAt - it.startAt % 1000000 < 0) := by omega
  have e4 : ¬ (it.endAt - it.endAt % 1000000 < 0) := by omega
  have e5 : (it.startAt - it.startAt % 1000000) / 1000000 = it.startAt / 1000000 := by omega
  have e6 : (it.endAt - it.endAt % 1000000) / 1000000 = it.endAt / 1000000 := by omega
  have hl : ((it.lines.map normLine).map fun l => l.items.map drvRun) = it.lines.map fun l => l.items.map viewRun := by
    rw [List.map_map]
    apply List.map_congr_left
    intro l _
    simp only [Function.comp, normLine, List.map_map]
    apply List.map_congr_left
    intro li _
    exact drvRun_normRun li
  unfold drvItem normItem truncMs viewItem
  simp only [e1, e2, e3, e4, e5, e6, hl, ne_eq, not_true_eq_false, decide_false, Bool.or_self, Bool.false_eq_true,
    ↓reduceIte]

theorem mapM_normItems (k : Nat) (items : List CItem) (h : ∀ it ∈ items, RepItem it = true) :
    Spec.SRT.mapM drvItem (normItems k items) = some (items.map viewItem) := by
  induction items generalizing k with
  | nil => rfl
  | cons it rest ih =>
    obtain ⟨hs0, _, he0, _⟩ := repItem_bounds (h it (by simp))
    simp only [normItems, Spec.SRT.mapM, drvItem_normItem k it hs0 he0,
      ih (k + 1) (fun x hx => h x (by simp [hx])), List.map_cons]

/-- **View.** the check's own view of the normal form is `specView` -/
theorem srtView_norm (s : Subs) (h : Rep s = true) : Driver.srtView (norm s) = some (specView s) := by
  rw [srtView_eq]
  exact mapM_normItems 0 s.items (rep_items h)

end SRTDoc
end Astisub
