import Astisub.Model.SSA
import Astisub.Lemmas.SSAStr
import Astisub.Props.C04

/-!
# Lemmas/SSAEvent — one `Dialogue` row: `ssaEvent.string` read back by `newSSAEventFromString`
-/

namespace Astisub
namespace SSA
open Go List

/-! ### what each column of the writer's Format does -/

theorem eventField_layer (e : Event) (i : Str) :
    eventField e "Layer".toList i = (atoi i).map fun v => { e with layer := some v } := by
  unfold eventField
  rw [if_neg (by decide), if_neg (by decide), if_pos rfl]

theorem eventField_marked (e : Event) (i : Str) :
    eventField e "Marked".toList i = some { e with marked := some (i = "Marked=1".toList) } := by
  unfold eventField
  rw [if_neg (by decide), if_neg (by decide), if_neg (by decide), if_neg (by decide), if_neg (by decide),
    if_neg (by decide), if_neg (by decide), if_neg (by decide), if_neg (by decide), if_neg (by decide), if_pos rfl]

theorem eventField_start (e : Event) (i : Str) :
    eventField e "Start".toList i = (Duration.parseSSA i).map fun d => { e with startAt := d } := by
  unfold eventField
  rw [if_pos rfl]

theorem eventField_end (e : Event) (i : Str) :
    eventField e "End".toList i = (Duration.parseSSA i).map fun d => { e with endAt := d } := by
  unfold eventField
  rw [if_neg (by decide), if_pos rfl]

theorem eventField_style (e : Event) (i : Str) :
    eventField e "Style".toList i
      = some { e with style := if i = "*Default".toList then "Default".toList else i } := by
  unfold eventField
  rw [if_neg (by decide), if_neg (by decide), if_neg (by decide), if_neg (by decide), if_neg (by decide),
    if_neg (by decide), if_neg (by decide), if_neg (by decide), if_pos rfl]

theorem eventField_name (e : Event) (i : Str) : eventField e "Name".toList i = some { e with name := i } := by
  unfold eventField
  rw [if_neg (by decide), if_neg (by decide), if_neg (by decide), if_neg (by decide), if_neg (by decide),
    if_neg (by decide), if_neg (by decide), if_pos rfl]

theorem eventField_marginL (e : Event) (i : Str) :
    eventField e "MarginL".toList i = (atoi i).map fun v => { e with marginL := some v } := by
  unfold eventField
  rw [if_neg (by decide), if_neg (by decide), if_neg (by decide), if_pos rfl]

theorem eventField_marginR (e : Event) (i : Str) :
    eventField e "MarginR".toList i = (atoi i).map fun v => { e with marginR := some v } := by
  unfold eventField
  rw [if_neg (by decide), if_neg (by decide), if_neg (by decide), if_neg (by decide), if_pos rfl]

theorem eventField_marginV (e : Event) (i : Str) :
    eventField e "MarginV".toList i = (atoi i).map fun v => { e with marginV := some v } := by
  unfold eventField
  rw [if_neg (by decide), if_neg (by decide), if_neg (by decide), if_neg (by decide), if_neg (by decide), if_pos rfl]

theorem eventField_effect (e : Event) (i : Str) : eventField e "Effect".toList i = some { e with effect := i } := by
  unfold eventField
  rw [if_neg (by decide), if_neg (by decide), if_neg (by decide), if_neg (by decide), if_neg (by decide),
    if_neg (by decide), if_pos rfl]

theorem eventField_text (e : Event) (i : Str) : eventField e "Text".toList i = some { e with text := trimSpace i } := by
  unfold eventField
  rw [if_neg (by decide), if_neg (by decide), if_neg (by decide), if_neg (by decide), if_neg (by decide),
    if_neg (by decide), if_neg (by decide), if_neg (by decide), if_neg (by decide), if_pos rfl]

/-! ### the written time has no comma -/

theorem comma_not_mem_formatSSA (t : Int) (h0 : 0 ≤ t) (h1 : t < 360000000000000) :
    ',' ∉ Duration.formatSSA t := by
  obtain ⟨h, m, s, f, hh, hm, hs, hf, hfmt, _⟩ := C16.format_shape2 t '.' h0 h1
  unfold Duration.formatSSA
  rw [hfmt]
  unfold C16.canon2
  intro hc
  rw [show dd h ++ ':' :: dd m ++ ':' :: dd s ++ '.' :: dd f
      = (dd h ++ ':' :: dd m ++ ':' :: dd s) ++ '.' :: dd f by simp] at hc
  rcases mem_append.mp hc with hc | hc
  · exact C16.hms_not_mem h m s hh (by omega) (by omega) ',' (Or.inr rfl) hc
  · rcases mem_cons.mp hc with e | hc
    · exact absurd e (by decide)
    · exact (digitStr_dd hf).not_mem (Or.inr (Or.inr rfl)) hc

/-! ### the row -/

/-- an instant the `HH:MM:SS.cc` layout can hold (below 100 h) -/
def TimeOK (t : Int) : Prop := 0 ≤ t ∧ t < 360000000000000

instance (t : Int) : Decidable (TimeOK t) := inferInstanceAs (Decidable (0 ≤ t ∧ t < 360000000000000))

/-- an event every column of which survives being a cell of a comma-separated row: times below
    100 h, 64-bit integers, no comma in `Style`, `Name`, `Effect` (the last column `Text` may contain any) -/
structure EventCells (e : Event) : Prop where
  start : TimeOK e.startAt
  stop : TimeOK e.endAt
  layer : Int64 (e.layer.getD 0)
  marginL : Int64 (e.marginL.getD 0)
  marginR : Int64 (e.marginR.getD 0)
  marginV : Int64 (e.marginV.getD 0)
  style : ',' ∉ e.style
  name : ',' ∉ e.name
  effect : ',' ∉ e.effect

instance (e : Event) : Decidable (EventCells e) :=
  decidable_of_iff (TimeOK e.startAt ∧ TimeOK e.endAt ∧ Int64 (e.layer.getD 0) ∧ Int64 (e.marginL.getD 0) ∧
      Int64 (e.marginR.getD 0) ∧ Int64 (e.marginV.getD 0) ∧ ',' ∉ e.style ∧ ',' ∉ e.name ∧ ',' ∉ e.effect)
    ⟨fun ⟨a, b, c, d, e', f, g, h, i⟩ => ⟨a, b, c, d, e', f, g, h, i⟩,
     fun ⟨a, b, c, d, e', f, g, h, i⟩ => ⟨a, b, c, d, e', f, g, h, i⟩⟩

/-- what the reader makes of a written event: times truncated to the centisecond, the integer
    columns of the Format made explicit (an unset margin is written — and read — as 0),
    `Layer` only in v4+, `Marked` only in v4, `*Default` renamed, the text trimmed -/
def Event.norm (hdr : Str) (v4plus : Bool) (e : Event) : Event :=
  { category := hdr,
    startAt := e.startAt - e.startAt % 10000000,
    endAt := e.endAt - e.endAt % 10000000,
    layer := if v4plus then some (e.layer.getD 0) else none,
    marked := if v4plus then none else some (e.marked = some true),
    marginL := some (e.marginL.getD 0), marginR := some (e.marginR.getD 0), marginV := some (e.marginV.getD 0),
    name := e.name, effect := e.effect,
    style := if e.style = "*Default".toList then "Default".toList else e.style,
    text := trimSpace e.text }

/-- the cells before `Text` -/
def Event.pre (e : Event) (v4plus : Bool) : List Str :=
  [if v4plus then itoa (e.layer.getD 0) else (if e.marked = some true then "Marked=1".toList else "Marked=0".toList),
   Duration.formatSSA e.startAt, Duration.formatSSA e.endAt, e.style, e.name,
   itoa (e.marginL.getD 0), itoa (e.marginR.getD 0), itoa (e.marginV.getD 0), e.effect]

theorem Event.row_eq (e : Event) (v : Bool) : e.row v = join [','] (e.pre v ++ [e.text]) := rfl

theorem Event.pre_noComma (e : Event) (v : Bool) (h : EventCells e) : ∀ p ∈ e.pre v, ',' ∉ p := by
  intro p hp
  simp only [Event.pre, mem_cons, not_mem_nil, or_false] at hp
  rcases hp with rfl | rfl | rfl | rfl | rfl | rfl | rfl | rfl | rfl
  · cases v
    · simp only [Bool.false_eq_true, ↓reduceIte]
      split <;> decide
    · exact comma_not_mem_itoa _
  · exact comma_not_mem_formatSSA _ h.start.1 h.start.2
  · exact comma_not_mem_formatSSA _ h.stop.1 h.stop.2
  · exact h.style
  · exact h.name
  · exact comma_not_mem_itoa _
  · exact comma_not_mem_itoa _
  · exact comma_not_mem_itoa _
  · exact h.effect

/-- the cells the reader sees are the cells the writer wrote -/
theorem Event.cells (e : Event) (v : Bool) (h : EventCells e) :
    absorb 10 (splitC ',' (e.row v)) = e.pre v ++ [e.text] ∧ 10 ≤ (splitC ',' (e.row v)).length := by
  have hp := Event.pre_noComma e v h
  constructor
  · exact C04.row_cells (e.pre v) e.text hp
  · rw [Event.row_eq, C04.splitC_row _ _ hp, length_append]
    have : (splitC ',' e.text).length ≠ 0 := fun h0 => C04.splitC_ne_nil _ _ (length_eq_zero_iff.mp h0)
    have : (e.pre v).length = 9 := rfl
    omega

theorem eventFields_v4plus (e0 : Event) (cl cs ce st nm cml cmr cmv ef tx : Str) (l s en ml mr mv : Int)
    (h1 : atoi cl = some l) (h2 : Duration.parseSSA cs = some s) (h3 : Duration.parseSSA ce = some en)
    (h4 : atoi cml = some ml) (h5 : atoi cmr = some mr) (h6 : atoi cmv = some mv) :
    eventFields e0 [("Layer".toList, cl), ("Start".toList, cs), ("End".toList, ce), ("Style".toList, st),
      ("Name".toList, nm), ("MarginL".toList, cml), ("MarginR".toList, cmr), ("MarginV".toList, cmv),
      ("Effect".toList, ef), ("Text".toList, tx)]
    = some { e0 with layer := some l, startAt := s, endAt := en,
                     style := if st = "*Default".toList then "Default".toList else st, name := nm,
                     marginL := some ml, marginR := some mr, marginV := some mv, effect := ef, text := trimSpace tx } := by
  simp only [eventFields, eventField_layer, eventField_start, eventField_end, eventField_style, eventField_name,
    eventField_marginL, eventField_marginR, eventField_marginV, eventField_effect, eventField_text,
    h1, h2, h3, h4, h5, h6, Option.map_some]

theorem eventFields_v4 (e0 : Event) (cm cs ce st nm cml cmr cmv ef tx : Str) (s en ml mr mv : Int)
    (h2 : Duration.parseSSA cs = some s) (h3 : Duration.parseSSA ce = some en)
    (h4 : atoi cml = some ml) (h5 : atoi cmr = some mr) (h6 : atoi cmv = some mv) :
    eventFields e0 [("Marked".toList, cm), ("Start".toList, cs), ("End".toList, ce), ("Style".toList, st),
      ("Name".toList, nm), ("MarginL".toList, cml), ("MarginR".toList, cmr), ("MarginV".toList, cmv),
      ("Effect".toList, ef), ("Text".toList, tx)]
    = some { e0 with marked := some (cm = "Marked=1".toList), startAt := s, endAt := en,
                     style := if st = "*Default".toList then "Default".toList else st, name := nm,
                     marginL := some ml, marginR := some mr, marginV := some mv, effect := ef, text := trimSpace tx } := by
  simp only [eventFields, eventField_marked, eventField_start, eventField_end, eventField_style, eventField_name,
    eventField_marginL, eventField_marginR, eventField_marginV, eventField_effect, eventField_text,
    h2, h3, h4, h5, h6, Option.map_some]

theorem eventRow_row_v4plus (e : Event) (hdr : Str) (h : EventCells e) :
    eventRow hdr (e.row true) (eventFormat true) = some (e.norm hdr true) := by
  obtain ⟨hc, hl⟩ := Event.cells e true h
  unfold eventRow
  have hlen : (eventFormat true).length = 10 := rfl
  simp only [hlen]
  rw [if_neg (by omega), hc]
  exact eventFields_v4plus _ _ _ _ _ _ _ _ _ _ _ _ _ _ _ _ _ (atoi_itoa _ h.layer)
    (C04.event_time _ h.start.1 h.start.2) (C04.event_time _ h.stop.1 h.stop.2)
    (atoi_itoa _ h.marginL) (atoi_itoa _ h.marginR) (atoi_itoa _ h.marginV)

theorem marked_cell (m : Option Bool) :
    decide ((if m = some true then "Marked=1".toList else "Marked=0".toList) = "Marked=1".toList) = decide (m = some true) := by
  by_cases hb : m = some true
  · simp [hb]
  · rw [if_neg hb]; simp only [hb, decide_false]; decide

theorem eventRow_row_v4 (e : Event) (hdr : Str) (h : EventCells e) :
    eventRow hdr (e.row false) (eventFormat false) = some (e.norm hdr false) := by
  obtain ⟨hc, hl⟩ := Event.cells e false h
  unfold eventRow
  have hlen : (eventFormat false).length = 10 := rfl
  simp only [hlen]
  rw [if_neg (by omega), hc]
  have := eventFields_v4 { category := hdr } _ _ e.style e.name _ _ _ e.effect e.text _ _ _ _ _
    (C04.event_time _ h.start.1 h.start.2) (C04.event_time _ h.stop.1 h.stop.2)
    (atoi_itoa _ h.marginL) (atoi_itoa _ h.marginR) (atoi_itoa _ h.marginV)
    (cm := if e.marked = some true then "Marked=1".toList else "Marked=0".toList)
  rw [marked_cell] at this
  exact this
/-- normalising twice is normalising once -/
theorem event_norm_idem (e : Event) (v4plus : Bool) (hdr : Str) :
    (e.norm hdr v4plus).norm hdr v4plus = e.norm hdr v4plus := by
  have ht : ∀ t : Int, (t - t % 10000000) - (t - t % 10000000) % 10000000 = t - t % 10000000 := by
    intro t; omega
  have hs : ∀ s : Str, (if (if s = "*Default".toList then "Default".toList else s) = "*Default".toList
      then "Default".toList else (if s = "*Default".toList then "Default".toList else s))
      = (if s = "*Default".toList then "Default".toList else s) := by
    intro s
    by_cases h : s = "*Default".toList
    · simp only [h, ↓reduceIte]; decide
    · simp only [h, ↓reduceIte]
  have htr : ∀ s : Str, trimSpace (trimSpace s) = trimSpace s := fun s => trimSpace_of_trimmed (trimmed_trimSpace s)
  cases v4plus
  · simp only [Event.norm, Event.mk.injEq, ht, hs, htr, Bool.false_eq_true, ↓reduceIte, Option.getD_some, true_and, and_true,
      Option.some.injEq, decide_eq_decide]
    cases e.marked with
    | none => decide
    | some b => cases b <;> decide
  · simp only [Event.norm, ht, hs, htr, ↓reduceIte, Option.getD_some]

end SSA
end Astisub
