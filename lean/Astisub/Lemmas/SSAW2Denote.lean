import Astisub.Lemmas.SSAW2Common

/-!
# Lemmas/SSAW2Denote — `Spec.SSA.denote s = some want`, piece by piece
-/

namespace Astisub
namespace SSAW
open Go SSA SSAR List
open Spec.SSA (GVal GStyle GRun GEvent GDoc REvent infoTable styleTable cleanValue cleanField exact3 natOf repLine attrsView denoteEvent)

/-- the script-info clause of `denote`: string values and comments need no trimming and have no line break -/
def metaOkB (s : Subs) : Bool :=
  (infoTable.all fun (_, key, kind) =>
      match Spec.SSA.kvGet s.metadata key with | some v => kind ≠ .str || cleanValue v | none => true) &&
    (match Spec.SSA.kvGet s.metadata "Comments" with | some c => (splitC '\n' c).all cleanValue | none => true)

/-- the clause of `denote` on one style definition -/
def styleOkB (d : Def) : Bool :=
  cleanField d.id && d.id.head? ≠ some '*' &&
    (match Spec.SSA.kvGet d.attrs "SSAFontName" with | some f => cleanField f | none => true) &&
    (styleTable.all fun (_, key, kind) =>
      match Spec.SSA.kvGet d.attrs key with
      | some v => kind ≠ .float || (match v with | 'f' :: r => (natOf r).any exact3 | _ => false)
      | none => true)

/-- the clause of `denote` on one cue (`names`: the identifiers of the styles) -/
def itemOkB (names : List Str) (it : CItem) : Bool :=
  decide (0 ≤ it.startAt) && decide (0 ≤ it.endAt) &&
    cleanField ((Spec.SSA.kvGet it.attrs "SSAEffect").getD []) &&
    (match it.style with | some id => cleanField id && id.head? ≠ some '*' && names.contains id | none => true) &&
    !it.lines.isEmpty && it.lines.all (fun l => cleanField l.voice && repLine l)

theorem denote_eq (s : Subs) :
    Spec.SSA.denote s =
      if !(metaOkB s && s.styles.all styleOkB && s.items.all (itemOkB (s.styles.map (·.id)))) then none else
      match Spec.SSA.view { s with items := [] } with
      | none => none
      | some g =>
        (Spec.SSA.mapM (denoteEvent (isV4plus s) (s.styles.map (·.id))) s.items).map fun evs => { g with events := evs } := rfl

theorem view_noItems (s : Subs) :
    Spec.SSA.view { s with items := [] } =
      match attrsView infoTable s.metadata,
        Spec.SSA.mapM (fun (d : Def) => (attrsView styleTable d.attrs).map fun a => ({ name := d.id, attrs := a } : GStyle)) s.styles with
      | some info, some styles =>
        some { comments := (infoOfMeta s.metadata).comments, info := info,
               styles := styles.mergeSort (fun a b => Spec.SSA.strLe a.name b.name), events := [] }
      | _, _ => none := by
  unfold Spec.SSA.view
  simp only [Spec.SSA.mapM]
  cases attrsView infoTable s.metadata <;>
    cases Spec.SSA.mapM (fun (d : Def) => (attrsView styleTable d.attrs).map fun a => ({ name := d.id, attrs := a } : GStyle)) s.styles <;> rfl

/-- **`denote`, piece by piece.** -/
theorem denote_some (s : Subs) (want : GDoc) (hd : Spec.SSA.denote s = some want) :
    ∃ gi L evs,
      metaOkB s = true ∧ (∀ d ∈ s.styles, styleOkB d = true) ∧ (∀ it ∈ s.items, itemOkB (s.styles.map (·.id)) it = true) ∧
      attrsView infoTable s.metadata = some gi ∧
      Spec.SSA.mapM (fun (d : Def) => (attrsView styleTable d.attrs).map fun a => ({ name := d.id, attrs := a } : GStyle)) s.styles = some L ∧
      Spec.SSA.mapM (denoteEvent (isV4plus s) (s.styles.map (·.id))) s.items = some evs ∧
      want = { comments := (infoOfMeta s.metadata).comments, info := gi,
               styles := L.mergeSort (fun a b => Spec.SSA.strLe a.name b.name), events := evs } := by
  rw [denote_eq] at hd
  by_cases hok : (metaOkB s && s.styles.all styleOkB && s.items.all (itemOkB (s.styles.map (·.id)))) = true
  · rw [hok] at hd
    simp only [Bool.not_true, Bool.false_eq_true, ↓reduceIte, view_noItems] at hd
    simp only [Bool.and_eq_true] at hok
    obtain ⟨⟨hm, hs⟩, hi⟩ := hok
    cases hgi : attrsView infoTable s.metadata with
    | none => simp [hgi] at hd
    | some gi =>
      cases hL : Spec.SSA.mapM (fun (d : Def) => (attrsView styleTable d.attrs).map fun a => ({ name := d.id, attrs := a } : GStyle)) s.styles with
      | none => simp [hgi, hL] at hd
      | some L =>
        simp only [hgi, hL] at hd
        cases hev : Spec.SSA.mapM (denoteEvent (isV4plus s) (s.styles.map (·.id))) s.items with
        | none => simp [hev] at hd
        | some evs =>
          simp only [hev, Option.map_some, Option.some.injEq] at hd
          exact ⟨gi, L, evs, hm, fun d hd' => (List.all_eq_true.mp hs) d hd', fun it hit => (List.all_eq_true.mp hi) it hit,
            rfl, rfl, rfl, hd.symm⟩
  · have : (metaOkB s && s.styles.all styleOkB && s.items.all (itemOkB (s.styles.map (·.id)))) = false := by
      simpa using hok
    rw [this] at hd
    simp at hd

end SSAW
end Astisub
