import Astisub.Lemmas.TTMLRead2Defs
import Astisub.Props.C03

/-!
# Lemmas/TTMLRead2Para — one `<p>` on the model side (READ clause of C03)

* `decodeItems_canon`: `decodeItems` only sees a re-tokenised paragraph up to `canon` (all token lists);
* `decodeItems_para`: a paragraph of the decoder's class (`ParaBody`) decodes into `itemsM its`;
* `para_segs`: what the grammar says about the texts of the items;
* `linesLoop_para`: line splitting of the decoded items is `semP mkTM mkSM`;
* `semP_map`, `semP_congr`: the generic line builder under a map / with another span-run maker.
-/

namespace Astisub
namespace TTMLR
open Go TTML

/-! ## 0. small facts -/

theorem canon_nil (d : Nat) : canon d [] = [] := by cases d <;> rfl

theorem canon_start (d : Nat) (sp n : Str) (a : List XAttr) (r : List XTok) :
    canon d (.start sp n a :: r) = .start [] n (a.map eraseA) :: canon (d + 1) r := by
  cases d <;> simp [canon]

theorem canon_stop (d : Nat) (sp n : Str) (r : List XTok) :
    canon d (.stop sp n :: r) = .stop [] n :: canon (d - 1) r := by
  cases d <;> simp [canon]

theorem canon_other (d : Nat) (r : List XTok) : canon d (.other :: r) = .other :: canon d r := by
  cases d <;> simp [canon]

theorem canon_text_zero (s : Str) (r : List XTok) :
    canon 0 (.text s :: r) = if s.all isSpace then canon 0 r else .text s :: canon 0 r := by
  simp [canon]

theorem canon_text_succ (d : Nat) (s : Str) (r : List XTok) :
    canon (d + 1) (.text s :: r) = .text s :: canon (d + 1) r := by
  simp [canon]

theorem brTrick_stop (sp n : Str) (r : List XTok) : brTrick (.stop sp n :: r) = .stop sp n :: brTrick r := by
  simp [brTrick]
theorem brTrick_text (s : Str) (r : List XTok) : brTrick (.text s :: r) = .text s :: brTrick r := by
  simp [brTrick]
theorem brTrick_other' (r : List XTok) : brTrick (.other :: r) = .other :: brTrick r := by
  simp [brTrick]
theorem brTrick_start (sp n : Str) (a : List XAttr) (r : List XTok) :
    brTrick (.start sp n a :: r) =
      if isBr n then .text ['\n'] :: .start sp n a :: brTrick r else .start sp n a :: brTrick r := by
  simp [brTrick]

theorem dropWhile_isEmpty {α} (p : α → Bool) (l : List α) : (l.dropWhile p).isEmpty = l.all p := by
  induction l with
  | nil => rfl
  | cons x l ih =>
    simp only [List.dropWhile_cons, List.all_cons]
    cases hp : p x
    · simp
    · simpa using ih

/-- `TrimSpace` leaves nothing exactly when the text is all white space -/
theorem trimSpace_isEmpty (t : Str) : (trimSpace t).isEmpty = t.all isSpace := by
  unfold trimSpace trimRight trimLeft
  have h1 : ((List.dropWhile isSpace (List.dropWhile isSpace t).reverse).reverse).isEmpty
      = (List.dropWhile isSpace (List.dropWhile isSpace t).reverse).isEmpty := by
    cases List.dropWhile isSpace (List.dropWhile isSpace t).reverse <;> simp
  rw [h1, dropWhile_isEmpty, List.all_reverse]
  induction t with
  | nil => rfl
  | cons x l ih =>
    simp only [List.dropWhile_cons, List.all_cons]
    cases hp : isSpace x
    · simp [hp]
    · simpa using ih

theorem trimSpace_eq_nil_of (s : Str) (h : s.all isSpace = true) : trimSpace s = [] := by
  have := trimSpace_isEmpty s
  rw [h] at this
  simpa using this

theorem trimSpace_ne_nil_of (s : Str) (h : s.all isSpace = false) : trimSpace s ≠ [] := by
  have := trimSpace_isEmpty s
  rw [h] at this
  intro e
  rw [e] at this
  simp at this

/-! ## 1. `decodeItems` up to `canon` -/

/-- `itemOfStart` never looks at the name space of an attribute -/
theorem itemOfStart_erase (name : Str) (a : List XAttr) (it : InItem) :
    itemOfStart name (a.map eraseA) it = itemOfStart name a it := by
  induction a generalizing it with
  | nil => rfl
  | cons x a ih =>
    obtain ⟨sp, l, v⟩ := x
    simp only [List.map_cons, eraseA]
    rw [itemOfStart, itemOfStart]
    simp only [ih]

/-- `elemBody` hands back fewer tokens than it got -/
theorem elemBody_length (r : List XTok) : ∀ (d : Nat) (acc t : Str) (r' : List XTok),
    elemBody r d acc = some (t, r') → r'.length < r.length := by
  induction r with
  | nil => intro d acc t r' h; simp [elemBody] at h
  | cons x r ih =>
    intro d acc t r' h
    cases x with
    | start sp n a =>
      rw [elemBody] at h
      have := ih _ _ _ _ h
      simp only [List.length_cons]; omega
    | stop sp n =>
      cases d with
      | zero =>
        rw [elemBody] at h
        simp only [Option.some.injEq, Prod.mk.injEq] at h
        rw [← h.2]; simp
      | succ d =>
        rw [elemBody] at h
        have := ih _ _ _ _ h
        simp only [List.length_cons]; omega
    | text s =>
      cases d with
      | zero =>
        rw [elemBody] at h
        have := ih _ _ _ _ h
        simp only [List.length_cons]; omega
      | succ d =>
        rw [elemBody] at h
        have := ih _ _ _ _ h
        simp only [List.length_cons]; omega
    | other =>
      rw [elemBody] at h
      have := ih _ _ _ _ h
      simp only [List.length_cons]; omega

theorem elemBody_canon (r : List XTok) : ∀ (d : Nat) (acc : Str),
    elemBody (canon (d + 1) r) d acc = (elemBody r d acc).map (fun x => (x.1, canon 0 x.2)) := by
  induction r with
  | nil => intro d acc; simp [canon_nil, elemBody]
  | cons x r ih =>
    intro d acc
    cases x with
    | start sp n a =>
      rw [canon_start, elemBody, elemBody, ih]
    | stop sp n =>
      cases d with
      | zero => rw [canon_stop, elemBody, elemBody]; rfl
      | succ d => rw [canon_stop, elemBody, elemBody]; exact ih d acc
    | text s =>
      cases d with
      | zero => rw [canon_text_succ, elemBody, elemBody]; exact ih 0 _
      | succ d => rw [canon_text_succ, elemBody, elemBody]; exact ih (d + 1) _
    | other => rw [canon_other, elemBody, elemBody, ih]

/-- with enough fuel, `itemsLoop` only sees the tokens up to `canon` -/
theorem itemsLoop_canon : ∀ (f f' : Nat) (X : List XTok) (acc : List InItem),
    X.length < f → (canon 0 X).length < f' → itemsLoop f X acc = itemsLoop f' (canon 0 X) acc := by
  intro f
  induction f with
  | zero => intro f' X acc h; omega
  | succ f ih =>
    intro f' X acc h h'
    obtain ⟨g, rfl⟩ : ∃ g, f' = g + 1 := ⟨f' - 1, by omega⟩
    cases X with
    | nil => simp [canon_nil, itemsLoop]
    | cons x X =>
      simp only [List.length_cons] at h
      cases x with
      | start sp n a =>
        rw [canon_start] at h' ⊢
        simp only [List.length_cons, Nat.zero_add] at h' ⊢
        rw [itemsLoop, itemsLoop, itemOfStart_erase, elemBody_canon]
        cases hi : itemOfStart n a {} with
        | none => rfl
        | some it =>
          cases he : elemBody X 0 [] with
          | none => rfl
          | some p =>
            obtain ⟨txt, X'⟩ := p
            have hl := elemBody_length _ _ _ _ _ he
            have he' : elemBody (canon 1 X) 0 [] = some (txt, canon 0 X') := by
              rw [elemBody_canon, he]; rfl
            have hl' := elemBody_length _ _ _ _ _ he'
            simp only [Option.map_some]
            rw [if_pos (by omega), if_pos (by omega)]
            exact ih g X' _ (by omega) (by omega)
      | stop sp n =>
        rw [canon_stop, itemsLoop, itemsLoop]
      | text s =>
        rw [canon_text_zero] at h' ⊢
        cases hs : s.all isSpace with
        | true =>
          rw [hs] at h'
          simp only [↓reduceIte] at h' ⊢
          rw [itemsLoop, if_neg (by simp [trimSpace_eq_nil_of s hs])]
          exact ih (g + 1) X acc (by omega) h'
        | false =>
          rw [hs] at h'
          simp only [Bool.false_eq_true, ↓reduceIte, List.length_cons] at h' ⊢
          rw [itemsLoop, itemsLoop, if_pos (trimSpace_ne_nil_of s hs), if_pos (trimSpace_ne_nil_of s hs)]
          exact ih g X _ (by omega) (by omega)
      | other =>
        rw [canon_other] at h' ⊢
        simp only [List.length_cons] at h'
        rw [itemsLoop, itemsLoop]
        exact ih g X _ (by omega) (by omega)

/-- `brTrick` on canonical tokens: the `"\n"` token only at depth ≥ 1 (at depth 0 `canon` drops it again) -/
def brTrick' : Nat → List XTok → List XTok
  | _, [] => []
  | d, .start sp n a :: r =>
    if isBr n && decide (1 ≤ d) then .text ['\n'] :: .start sp n a :: brTrick' (d + 1) r
    else .start sp n a :: brTrick' (d + 1) r
  | d, .stop sp n :: r => .stop sp n :: brTrick' (d - 1) r
  | d, .text s :: r => .text s :: brTrick' d r
  | d, .other :: r => .other :: brTrick' d r

theorem canon_brTrick (r : List XTok) : ∀ d : Nat, canon d (brTrick r) = brTrick' d (canon d r) := by
  induction r with
  | nil => intro d; simp [brTrick, canon_nil, brTrick']
  | cons x r ih =>
    intro d
    cases x with
    | start sp n a =>
      rw [brTrick_start, canon_start, brTrick']
      cases hb : isBr n with
      | false =>
        simp only [Bool.false_eq_true, ↓reduceIte, Bool.false_and]
        rw [canon_start, ih]
      | true =>
        simp only [↓reduceIte, Bool.true_and]
        cases d with
        | zero =>
          have : (['\n'] : Str).all isSpace = true := by decide
          rw [canon_text_zero, this]
          simp only [↓reduceIte, Nat.le_zero_eq, Nat.succ_ne_self, decide_false, Bool.false_eq_true]
          rw [canon_start, ih]
        | succ d =>
          rw [canon_text_succ, canon_start, ih]
          simp
    | stop sp n => rw [brTrick_stop, canon_stop, canon_stop, brTrick', ih]
    | text s =>
      cases d with
      | zero =>
        rw [brTrick_text, canon_text_zero, canon_text_zero]
        cases hs : s.all isSpace with
        | true => simp only [↓reduceIte]; exact ih 0
        | false => simp only [Bool.false_eq_true, ↓reduceIte]; rw [brTrick', ih]
      | succ d => rw [brTrick_text, canon_text_succ, canon_text_succ, brTrick', ih]
    | other => rw [brTrick_other', canon_other, canon_other, brTrick', ih]

theorem decodeItems_start (sp n : Str) (a : List XAttr) (r : List XTok) (hn : isBr n = false) :
    decodeItems (.start sp n a :: r) true = itemsLoop ((brTrick r).length + 1) (brTrick r) [] := by
  unfold decodeItems
  simp only [Bool.not_true, Bool.false_eq_true, ↓reduceIte, brTrick, hn]

/-- **`decodeItems` only sees the paragraph up to `canon`** (all token lists). -/
theorem decodeItems_canon (sp n sp' n' : Str) (a a' : List XAttr) (r₁ r₂ : List XTok)
    (hn : isBr n = false) (hn' : isBr n' = false) (h : canon 0 r₁ = canon 0 r₂) :
    decodeItems (.start sp n a :: r₁) true = decodeItems (.start sp' n' a' :: r₂) true := by
  rw [decodeItems_start _ _ _ _ hn, decodeItems_start _ _ _ _ hn']
  have e : canon 0 (brTrick r₁) = canon 0 (brTrick r₂) := by
    rw [canon_brTrick, canon_brTrick, h]
  rw [itemsLoop_canon _ ((canon 0 (brTrick r₁)).length + 1) (brTrick r₁) [] (by omega) (by omega),
    itemsLoop_canon _ ((canon 0 (brTrick r₁)).length + 1) (brTrick r₂) [] (by omega) (by rw [e]; omega), e]

/-! ## 2. a paragraph of the decoder's class is decoded into its items -/

theorem isBr_br : isBr "br".toList = true := by decide
theorem isBr_span : isBr "span".toList = false := by decide

theorem brTrick_brBody {b : List XTok} (h : BrBody b) : brTrick b = b := by
  induction h with
  | stop sp n => rfl
  | other _ ih => rw [brTrick_other', ih]

/-- inside a `br` (one open child element): comments, then the end tag -/
theorem elemBody_brBody_one {b : List XTok} (h : BrBody b) (rest : List XTok) (acc : Str) :
    elemBody (b ++ rest) 1 acc = elemBody rest 0 acc := by
  induction h with
  | stop sp n => rw [List.singleton_append, elemBody]
  | other _ ih => rw [List.cons_append, elemBody, ih]

theorem elemBody_brBody_zero {b : List XTok} (h : BrBody b) (rest : List XTok) (acc : Str) :
    elemBody (b ++ rest) 0 acc = some (acc, rest) := by
  induction h with
  | stop sp n => rw [List.singleton_append, elemBody]
  | other _ ih => rw [List.cons_append, elemBody, ih]

theorem spanBody_ne_nil {b : List XTok} {segs : List Str} (h : SpanBody b segs) : segs ≠ [] := by
  induction h with
  | stop sp n => simp
  | other _ ih => exact ih
  | text _ _ _ => simp
  | br _ _ _ => simp

theorem join_cons_append (s seg : Str) (segs : List Str) :
    Go.join ['\n'] ((s ++ seg) :: segs) = s ++ Go.join ['\n'] (seg :: segs) := by
  cases segs with
  | nil => simp [Go.join]
  | cons x xs => simp [Go.join]

theorem join_nil_cons (segs : List Str) (h : segs ≠ []) :
    Go.join ['\n'] ([] :: segs) = '\n' :: Go.join ['\n'] segs := by
  cases segs with
  | nil => exact absurd rfl h
  | cons x xs => simp [Go.join]

/-- the character data of a span after `brTrick`: the segments joined by the `"\n"` of the `br`s -/
theorem elemBody_spanBody {b : List XTok} {segs : List Str} (h : SpanBody b segs) (rest : List XTok) :
    ∀ acc : Str, elemBody (brTrick b ++ rest) 0 acc = some (acc ++ Go.join ['\n'] segs, rest) := by
  induction h with
  | stop sp n => intro acc; rw [brTrick_stop, List.cons_append, elemBody]; simp [brTrick, Go.join]
  | other _ ih => intro acc; rw [brTrick_other', List.cons_append, elemBody, ih]
  | @text s r seg segs _ _ ih =>
    intro acc
    rw [brTrick_text, List.cons_append, elemBody, ih, join_cons_append, List.append_assoc]
  | @br sp a b r segs hb hr ih =>
    intro acc
    rw [List.cons_append, brTrick_start, isBr_br]
    simp only [↓reduceIte]
    rw [C03.brTrick_append, brTrick_brBody hb, List.cons_append, List.cons_append, elemBody, elemBody,
      List.append_assoc, elemBody_brBody_one hb, ih, join_nil_cons _ (spanBody_ne_nil hr)]
    simp

theorem itemsM_cons {p : PItem} {its : List PItem} {items : List InItem} (h : itemsM (p :: its) = some items) :
    ∃ i is, itemM p = some i ∧ itemsM its = some is ∧ items = i :: is := by
  rw [itemsM] at h
  cases hp : itemM p with
  | none => rw [hp] at h; simp at h
  | some i =>
    cases hr : itemsM its with
    | none => rw [hp, hr] at h; simp at h
    | some is =>
      rw [hp, hr] at h
      simp only [Option.some.injEq] at h
      exact ⟨i, is, rfl, rfl, h.symm⟩

theorem itemM_br {a : List XAttr} {i : InItem} (h : itemM (.br a) = some i) :
    ∃ it, itemOfStart "br".toList a {} = some it ∧ i = { it with text := [] } := by
  rw [itemM] at h
  cases hi : itemOfStart "br".toList a {} with
  | none => rw [hi] at h; simp at h
  | some it => rw [hi] at h; simp only [Option.map_some, Option.some.injEq] at h; exact ⟨it, rfl, h.symm⟩

theorem itemM_span {a : List XAttr} {segs : List Str} {i : InItem} (h : itemM (.span a segs) = some i) :
    ∃ it, itemOfStart "span".toList a {} = some it ∧ i = { it with text := Go.join ['\n'] segs } := by
  rw [itemM] at h
  cases hi : itemOfStart "span".toList a {} with
  | none => rw [hi] at h; simp at h
  | some it => rw [hi] at h; simp only [Option.map_some, Option.some.injEq] at h; exact ⟨it, rfl, h.symm⟩

theorem nl_trim : trimSpace ['\n'] = [] := by decide

theorem itemsLoop_para {r : List XTok} {its : List PItem} (h : ParaBody r its) :
    ∀ (items : List InItem), itemsM its = some items → ∀ (fuel : Nat) (acc : List InItem),
      (brTrick r).length < fuel → itemsLoop fuel (brTrick r) acc = .ok (acc.reverse ++ items) := by
  induction h with
  | stop sp n =>
    intro items hi fuel acc hf
    obtain ⟨f, rfl⟩ : ∃ f, fuel = f + 1 := ⟨fuel - 1, by omega⟩
    simp only [itemsM, Option.some.injEq] at hi
    rw [brTrick_stop, itemsLoop, ← hi, List.append_nil]
  | other _ ih =>
    intro items hi fuel acc hf
    rw [brTrick_other', List.length_cons] at hf
    obtain ⟨f, rfl⟩ : ∃ f, fuel = f + 1 := ⟨fuel - 1, by omega⟩
    rw [brTrick_other', itemsLoop]
    exact ih items hi f acc (by omega)
  | @ws s r its hs _ ih =>
    intro items hi fuel acc hf
    rw [brTrick_text, List.length_cons] at hf
    obtain ⟨f, rfl⟩ : ∃ f, fuel = f + 1 := ⟨fuel - 1, by omega⟩
    rw [brTrick_text, itemsLoop, if_neg (by simp [trimSpace_eq_nil_of s hs])]
    exact ih items hi f acc (by omega)
  | @text s r its hs _ _ ih =>
    intro items hi fuel acc hf
    rw [brTrick_text, List.length_cons] at hf
    obtain ⟨f, rfl⟩ : ∃ f, fuel = f + 1 := ⟨fuel - 1, by omega⟩
    obtain ⟨i, is, h1, h2, rfl⟩ := itemsM_cons hi
    simp only [itemM, Option.some.injEq] at h1
    rw [brTrick_text, itemsLoop, if_pos (trimSpace_ne_nil_of s hs), ih is h2 f _ (by omega), ← h1]
    simp
  | @br sp a b r its hb _ ih =>
    intro items hi fuel acc hf
    obtain ⟨i, is, h1, h2, rfl⟩ := itemsM_cons hi
    obtain ⟨it, h3, rfl⟩ := itemM_br h1
    have e : brTrick (.start sp "br".toList a :: b ++ r)
        = .text ['\n'] :: .start sp "br".toList a :: (b ++ brTrick r) := by
      rw [List.cons_append, brTrick_start, isBr_br, C03.brTrick_append, brTrick_brBody hb]; rfl
    rw [e] at hf ⊢
    simp only [List.length_cons, List.length_append] at hf
    obtain ⟨f, rfl⟩ : ∃ f, fuel = f + 2 := ⟨fuel - 2, by omega⟩
    rw [itemsLoop, if_neg (by simp [nl_trim]), itemsLoop, h3]
    simp only [elemBody_brBody_zero hb]
    rw [if_pos (by simp), ih is h2 f _ (by omega)]
    simp
  | @span sp a b r segs its hb _ ih =>
    intro items hi fuel acc hf
    obtain ⟨i, is, h1, h2, rfl⟩ := itemsM_cons hi
    obtain ⟨it, h3, rfl⟩ := itemM_span h1
    have e : brTrick (.start sp "span".toList a :: b ++ r)
        = .start sp "span".toList a :: (brTrick b ++ brTrick r) := by
      rw [List.cons_append, brTrick_start, isBr_span, C03.brTrick_append]; rfl
    rw [e] at hf ⊢
    simp only [List.length_cons, List.length_append] at hf
    obtain ⟨f, rfl⟩ : ∃ f, fuel = f + 1 := ⟨fuel - 1, by omega⟩
    rw [itemsLoop, h3]
    simp only [elemBody_spanBody hb, List.nil_append]
    rw [if_pos (by simp), ih is h2 f _ (by omega)]
    simp

/-- **A paragraph of the decoder's class is decoded into the items of its grammar.** -/
theorem decodeItems_para (sp n : Str) (a : List XAttr) (r : List XTok) (its : List PItem) (items : List InItem)
    (hn : isBr n = false) (h : ParaBody r its) (hi : itemsM its = some items) :
    decodeItems (.start sp n a :: r) true = .ok items := by
  rw [decodeItems_start _ _ _ _ hn, itemsLoop_para h items hi _ _ (by omega)]
  rfl

/-! ## 3. what the grammar says about the texts -/

theorem hasNL_false {s : Str} (h : Spec.TTML.hasNL s = false) : '\n' ∉ s := by
  intro hm
  have : Spec.TTML.hasNL s = true := by
    unfold Spec.TTML.hasNL
    rw [List.any_eq_true]
    exact ⟨'\n', hm, by simp⟩
  rw [h] at this
  exact Bool.noConfusion this

theorem spanBody_segs {b : List XTok} {segs : List Str} (h : SpanBody b segs) : ∀ s ∈ segs, '\n' ∉ s := by
  induction h with
  | stop sp n => intro s hs; simp at hs; subst hs; simp
  | other _ ih => exact ih
  | @text s r seg segs hnl _ ih =>
    intro x hx
    rcases List.mem_cons.mp hx with rfl | hx
    · intro hm
      rcases List.mem_append.mp hm with hm | hm
      · exact hasNL_false hnl hm
      · exact ih seg (by simp) hm
    · exact ih x (by simp [hx])
  | br _ _ ih =>
    intro x hx
    rcases List.mem_cons.mp hx with rfl | hx
    · simp
    · exact ih x hx

theorem para_segs (r : List XTok) (its : List PItem) (h : ParaBody r its) :
    (∀ s, PItem.text s ∈ its → '\n' ∉ s ∧ s.all isSpace = false) ∧
    (∀ a segs, PItem.span a segs ∈ its → segs ≠ [] ∧ ∀ s ∈ segs, '\n' ∉ s) := by
  induction h with
  | stop sp n => simp
  | other _ ih => exact ih
  | ws _ _ ih => exact ih
  | @text s r its hs hnl _ ih =>
    refine ⟨?_, ?_⟩
    · intro x hx
      rcases List.mem_cons.mp hx with e | hx
      · cases e; exact ⟨hasNL_false hnl, hs⟩
      · exact ih.1 x hx
    · intro a segs hx
      rcases List.mem_cons.mp hx with e | hx
      · cases e
      · exact ih.2 a segs hx
  | br _ _ ih =>
    refine ⟨?_, ?_⟩
    · intro x hx
      rcases List.mem_cons.mp hx with e | hx
      · cases e
      · exact ih.1 x hx
    · intro a segs hx
      rcases List.mem_cons.mp hx with e | hx
      · cases e
      · exact ih.2 a segs hx
  | @span sp a b r segs its hb _ ih =>
    refine ⟨?_, ?_⟩
    · intro x hx
      rcases List.mem_cons.mp hx with e | hx
      · cases e
      · exact ih.1 x hx
    · intro a' segs' hx
      rcases List.mem_cons.mp hx with e | hx
      · cases e; exact ⟨spanBody_ne_nil hb, spanBody_segs hb⟩
      · exact ih.2 a' segs' hx

/-! ## 4. the generic line builder -/

theorem spanFin_map {α β : Type} (f : α → β) (mk : Str → α) (d : List (List α)) (c : List α) (segs : List Str) :
    spanFin (fun s => f (mk s)) (d.map (List.map f)) (c.map f) segs =
      ((spanFin mk d c segs).1.map (List.map f), (spanFin mk d c segs).2.map f) := by
  cases segs with
  | nil => rfl
  | cons first more =>
    simp only [spanFin]
    cases more.getLast? with
    | none => simp
    | some last => simp [Function.comp_def]

theorem semP_map {α β : Type} (f : α → β) (mkT : Str → α) (mkS : List XAttr → Str → α) (its : List PItem)
    (d : List (List α)) (c : List α) :
    semP (fun s => f (mkT s)) (fun a s => f (mkS a s)) its (d.map (List.map f), c.map f) =
      (((semP mkT mkS its (d, c)).1).map (List.map f), ((semP mkT mkS its (d, c)).2).map f) := by
  induction its generalizing d c with
  | nil => rfl
  | cons p its ih =>
    cases p with
    | text s =>
      rw [semP, semP, ← ih]
      simp
    | br a =>
      rw [semP, semP, ← ih]
      simp
    | span a segs =>
      rw [semP, semP, spanFin_map f (mkS a), ← ih]

theorem semP_congr {α : Type} (mkT : Str → α) (mkS mkS' : List XAttr → Str → α) (its : List PItem)
    (h : ∀ a segs, PItem.span a segs ∈ its → mkS a = mkS' a) (s : List (List α) × List α) :
    semP mkT mkS its s = semP mkT mkS' its s := by
  induction its generalizing s with
  | nil => rfl
  | cons p its ih =>
    obtain ⟨d, c⟩ := s
    have ih' := ih (fun a segs hm => h a segs (List.mem_cons_of_mem _ hm))
    cases p with
    | text x => rw [semP, semP, ih']
    | br a => rw [semP, semP, ih']
    | span a segs => rw [semP, semP, ih', h a segs (List.mem_cons_self ..)]

/-! ## 5. line splitting of the decoded items -/

theorem itemOfStart_name (name : Str) (a : List XAttr) :
    ∀ it₀ it : InItem, itemOfStart name a it₀ = some it → it.name = name := by
  induction a with
  | nil =>
    intro it₀ it h
    rw [itemOfStart] at h
    simp only [Option.some.injEq] at h
    rw [← h]
  | cons x a ih =>
    obtain ⟨sp, l, v⟩ := x
    intro it₀ it h
    rw [itemOfStart] at h
    by_cases h1 : l = "style".toList
    · rw [if_pos h1] at h; exact ih _ _ h
    · rw [if_neg h1] at h
      cases hf : attrTable.find? (fun p => p.2.toList = l) with
      | none => rw [hf] at h; exact ih _ _ h
      | some p =>
        obtain ⟨f, x⟩ := p
        rw [hf] at h
        simp only at h
        by_cases hz : f = "ZIndex"
        · rw [if_pos hz] at h
          cases hp : parseIntAttr v with
          | none => rw [hp] at h; simp at h
          | some z => rw [hp] at h; exact ih _ _ h
        · rw [if_neg hz] at h; exact ih _ _ h

theorem mkLine_append (d : List (List LItem)) (c : List LItem) :
    d.map mkLine ++ [({ items := c } : Line)] = (d ++ [c]).map mkLine := by
  simp [mkLine]

/-- a bare text: one more run on the current line -/
theorem linesLoop_textM (styles : List Str) (s : Str) (hs : '\n' ∉ s) (rest : List InItem) (done : List Line)
    (cur : List LItem) :
    linesLoop styles ({ text := s } :: rest) done cur = linesLoop styles rest done (cur ++ [mkTM s]) := by
  have hb : isBr [] = false := by decide
  rw [C03.linesLoop_run styles { text := s } ⟨⟨hb, Or.inl rfl⟩, hs⟩]
  rfl

/-- a `br` item: a new line -/
theorem linesLoop_brM (styles : List Str) (i : InItem) (hb : isBr i.name = true) (rest : List InItem)
    (d : List (List LItem)) (c : List LItem) :
    linesLoop styles (i :: rest) (d.map mkLine) c = linesLoop styles rest ((d ++ [c]).map mkLine) [] := by
  rw [linesLoop]
  simp only [hb, ↓reduceIte]
  rw [mkLine_append]

/-- a span with segments `segs`: `spanFin` -/
theorem linesLoop_spanM (styles : List Str) (it : InItem) (segs : List Str) (hr : C03.Run styles it)
    (hne : segs ≠ []) (hseg : ∀ s ∈ segs, '\n' ∉ s) (rest : List InItem) (d : List (List LItem)) (c : List LItem) :
    linesLoop styles ({ it with text := Go.join ['\n'] segs } :: rest) (d.map mkLine) c =
      linesLoop styles rest ((spanFin (mkLI it) d c segs).1.map mkLine) (spanFin (mkLI it) d c segs).2 := by
  have hr' : C03.Run styles { it with text := Go.join ['\n'] segs } := hr
  cases segs with
  | nil => exact absurd rfl hne
  | cons first more =>
    cases hm : more.getLast? with
    | none =>
      have e : more = [] := List.getLast?_eq_none_iff.mp hm
      subst e
      rw [C03.linesLoop_run styles _ ⟨hr', by simpa [Go.join] using hseg first (by simp)⟩]
      simp only [spanFin, List.getLast?_nil]
      rfl
    | some last =>
      rw [C03.linesLoop_segs styles _ hr' first last more hm rfl hseg]
      simp only [spanFin, hm]
      congr 1
      simp [mkLine, Function.comp_def, C03.mkItem, mkLI]

theorem linesLoop_para_aux (styles : List Str) (its : List PItem) :
    ∀ (items : List InItem), itemsM its = some items → stylesOk styles its = true →
      (∀ s, PItem.text s ∈ its → '\n' ∉ s) →
      (∀ a segs, PItem.span a segs ∈ its → segs ≠ [] ∧ ∀ s ∈ segs, '\n' ∉ s) →
      ∀ (d : List (List LItem)) (c : List LItem),
        linesLoop styles items (d.map mkLine) c =
          some (((semP mkTM mkSM its (d, c)).1 ++ [(semP mkTM mkSM its (d, c)).2]).map mkLine) := by
  induction its with
  | nil =>
    intro items hi _ _ _ d c
    simp only [itemsM, Option.some.injEq] at hi
    rw [← hi, linesLoop, semP, mkLine_append]
  | cons p its ih =>
    intro items hi hs ht hsp d c
    obtain ⟨i, is, h1, h2, rfl⟩ := itemsM_cons hi
    have ht' : ∀ s, PItem.text s ∈ its → '\n' ∉ s := fun s hm => ht s (List.mem_cons_of_mem _ hm)
    have hsp' : ∀ a segs, PItem.span a segs ∈ its → segs ≠ [] ∧ ∀ s ∈ segs, '\n' ∉ s :=
      fun a segs hm => hsp a segs (List.mem_cons_of_mem _ hm)
    cases p with
    | text s =>
      simp only [itemM, Option.some.injEq] at h1
      simp only [stylesOk] at hs
      rw [← h1, linesLoop_textM styles s (ht s (List.mem_cons_self ..)), semP]
      exact ih is h2 hs ht' hsp' d _
    | br a =>
      obtain ⟨it, h3, rfl⟩ := itemM_br h1
      simp only [stylesOk] at hs
      have hb : isBr ({ it with text := [] } : InItem).name = true := by
        show isBr it.name = true
        rw [itemOfStart_name _ _ _ _ h3]; exact isBr_br
      rw [linesLoop_brM styles _ hb, semP]
      exact ih is h2 hs ht' hsp' _ _
    | span a segs =>
      obtain ⟨it, h3, rfl⟩ := itemM_span h1
      simp only [stylesOk, h3] at hs
      simp only [Bool.and_eq_true, Bool.or_eq_true, List.isEmpty_iff, List.contains_eq_mem,
        decide_eq_true_eq] at hs
      have hr : C03.Run styles it := by
        refine ⟨?_, hs.1⟩
        rw [itemOfStart_name _ _ _ _ h3]; exact isBr_span
      obtain ⟨hne, hseg⟩ := hsp a segs (List.mem_cons_self ..)
      have hm : mkSM a = mkLI it := by
        funext s
        simp only [mkSM, h3, Option.getD_some]
      rw [linesLoop_spanM styles it segs hr hne hseg, semP, hm]
      exact ih is h2 hs.2 ht' hsp' _ _

/-- **Line splitting of the items of a paragraph of the decoder's class.** -/
theorem linesLoop_para (styles : List Str) (r : List XTok) (its : List PItem) (items : List InItem)
    (h : ParaBody r its) (hi : itemsM its = some items) (hs : stylesOk styles its = true)
    (d : List (List LItem)) (c : List LItem) :
    linesLoop styles items (d.map mkLine) c =
      some (((semP mkTM mkSM its (d, c)).1 ++ [(semP mkTM mkSM its (d, c)).2]).map mkLine) := by
  have hp := para_segs r its h
  exact linesLoop_para_aux styles its items hi hs (fun s hm => (hp.1 s hm).1) hp.2 d c

/-! ## 6. non-vacuity -/

def exToks : List XTok :=
  [.text "hi".toList, .start [] "span".toList [([], "style".toList, "s1".toList)], .text "a".toList, .other,
   .start [] "br".toList [], .stop [] "br".toList, .text "b".toList, .stop [] "span".toList,
   .start [] "br".toList [], .stop [] "br".toList, .text "\n ".toList, .stop [] "p".toList]

def exItems : List PItem :=
  [.text "hi".toList, .span [([], "style".toList, "s1".toList)] ["a".toList, "b".toList], .br []]

/-- `hi<span style="s1">a<!-- --><br/>b</span><br/>\n </p>`: a bare text, a span with text, a comment and a `br`,
    a top-level `br`, white space -/
theorem exPara : ParaBody exToks exItems :=
  .text (by decide) (by decide)
    (.span (b := [.text "a".toList, .other, .start [] "br".toList [], .stop [] "br".toList, .text "b".toList,
                  .stop [] "span".toList])
      (.text (seg := []) (by decide) (.other (.br (b := [.stop [] "br".toList]) (.stop _ _)
        (.text (seg := []) (by decide) (.stop _ _)))))
      (.br (b := [.stop [] "br".toList]) (.stop _ _) (.ws (by decide) (.stop _ _))))

example :
    decodeItems (.start [] "p".toList [] :: exToks) true
    = .ok [{ text := "hi".toList }, { name := "span".toList, style := "s1".toList, text := "a\nb".toList },
           { name := "br".toList }] :=
  decodeItems_para _ _ _ _ _ _ (by decide) exPara rfl

example :
    linesLoop ["s1".toList]
      [{ text := "hi".toList }, { name := "span".toList, style := "s1".toList, text := "a\nb".toList },
       { name := "br".toList }] [] []
    = some ([[mkTM "hi".toList, mkSM [([], "style".toList, "s1".toList)] "a".toList],
             [mkSM [([], "style".toList, "s1".toList)] "b".toList], []].map mkLine) :=
  linesLoop_para ["s1".toList] _ _ _ exPara rfl (by decide) [] []

end TTMLR
end Astisub
