import Astisub.Lemmas.TeleFrame

/-!
# Lemmas/TelePacket — one subtitle data unit: the model's `parseDataUnit` and the specification's `decodePacket`

`applyPacket` says what the model's page buffer does with a packet *as the specification decodes it*
(`Spec.Teletext.Packet`); `parseDataUnit_decodePacket` proves that this is what `parseDataUnit` does with the
44 bytes, for every byte string the specification accepts.
-/

namespace Astisub
namespace Teletext
open Go Generated.Teletext

/-! ## bytes -/

/-- all elements are bytes -/
def Bytes (l : List Nat) : Prop := ∀ x ∈ l, x < 256

instance (l : List Nat) : Decidable (Bytes l) := by unfold Bytes; infer_instance

theorem nth_lt_256 (l : List Nat) (h : Bytes l) (k : Nat) : nth l k < 256 := by
  unfold nth
  rw [List.getD_eq_getElem?_getD]
  by_cases hk : k < l.length
  · rw [List.getElem?_eq_getElem hk]; exact h _ (List.getElem_mem hk)
  · rw [List.getElem?_eq_none (by omega)]; decide

theorem Bytes.drop {l : List Nat} (h : Bytes l) (n : Nat) : Bytes (l.drop n) :=
  fun x hx => h x (List.mem_of_mem_drop hx)

theorem nth_drop (l : List Nat) (n k : Nat) : nth (l.drop n) k = nth l (n + k) := by
  simp [nth, List.getD_eq_getElem?_getD]

theorem hammingExact_lt (b n : Nat) (h : Spec.Teletext.hammingExact b = some n) : n < 16 := by
  unfold Spec.Teletext.hammingExact at h
  simp only at h
  split at h
  · simp at h
    rw [← h]
    simp only [Spec.Teletext.bit]
    omega
  · simp at h

/-- a valid codeword (as the specification sees it) is decoded by the library to the same value -/
theorem hamming_of_exact (l : List Nat) (hb : Bytes l) (k n : Nat)
    (h : Spec.Teletext.hammingExact (l.getD k 0) = some n) : hammingDecode (nth l k) = some n :=
  C06.C06_hamming_extends _ (nth_lt_256 l hb k) n h

/-! ## packet address -/

/-- magazine and packet number as `parseDataUnit` computes them from the two decoded address nibbles -/
def modelAddress (h1 h2 : Nat) : Nat × Nat :=
  let h := (h2 * 16 ||| h1) % 256
  (if h &&& 7 = 0 then 8 else h &&& 7, h >>> 3)

/-- magazine and packet number as the specification computes them -/
def specAddress (a b : Nat) : Nat × Nat := (if a % 8 = 0 then 8 else a % 8, a / 8 + b * 2)

set_option maxRecDepth 8192 in
theorem address_table : ∀ a, a < 16 → ∀ b, b < 16 → modelAddress a b = specAddress a b := by decide

theorem specAddress_y_le (a b : Nat) (ha : a < 16) (hb : b < 16) : (specAddress a b).2 ≤ 31 := by
  simp only [specAddress]; omega

theorem specAddress_mag (a b : Nat) : 1 ≤ (specAddress a b).1 ∧ (specAddress a b).1 ≤ 8 := by
  simp only [specAddress]; split <;> omega

/-- `parseDataUnit` on a subtitle unit whose address bytes decode: the packet parser runs on the 40 bytes after the
    address with the magazine and packet number of `modelAddress` -/
theorem parseDataUnit_address (b : Buf) (f : List Nat) (t : Int) (h1 h2 : Nat)
    (hlen : 44 ≤ f.length) (hfc : nth f 1 = 0xe4)
    (ha : hammingDecode (nth f 2) = some h1) (hb : hammingDecode (nth f 3) = some h2) :
    parseDataUnit b f 3 t = parsePacket b (f.drop 4) (modelAddress h1 h2).1 (modelAddress h1 h2).2 t := by
  have : ¬ f.length < 44 := by omega
  simp [parseDataUnit, this, hfc, ha, hb, modelAddress]

/-! ## page header -/

/-- what `parsePacketHeader` does once a page is selected, written on the decoded fields of the header:
    a header of another page ends the reception (serial mode: any magazine; parallel mode: same magazine); a header of
    the selected page closes the page under construction at `t` and starts a new one -/
def headerCore (b : Buf) (t : Int) (mag : Nat) (pn : Option Nat) (serial : Bool) (code : Nat) : Buf :=
  let other := pn != some b.page
  if b.receiving && ((serial && (other || mag != b.mag)) || (!serial && other && mag = b.mag)) then { b with receiving := false }
  else if other || mag != b.mag then b
  else
    let done := match b.current with
      | some p => b.done ++ [{ p with end_ := t }]
      | none => b.done
    { b with done := done, receiving := true, current := some { charsetCode := code, start := t } }

/-- automatic page selection: with no page selected, a decimal page whose header has the subtitle flag is selected -/
def autoSelect (b : Buf) (mag : Nat) (pn : Option Nat) (subtitle : Bool) : Buf :=
  if b.mag = 0 && b.page = 0 then
    match pn with
    | some p => if subtitle then { b with mag := mag, page := p } else b
    | none => b
  else b

/-- the page number of a header: two decimal digits, or none -/
def pageNo (tens units : Nat) : Option Nat := if tens > 9 || units > 9 then none else some (tens * 10 + units)

def headerStep (b : Buf) (t : Int) (mag tens units : Nat) (subtitle serial : Bool) (code : Nat) : Buf :=
  if tens = 15 && units = 15 then b else
  headerCore (autoSelect b mag (pageNo tens units) subtitle) t mag (pageNo tens units) serial code

theorem c5_bit : ∀ c, c < 16 → (decide (c &&& 8 > 0)) = decide (c / 8 % 2 = 1) := by decide
theorem c7_bit : ∀ c, c < 16 → (decide (c &&& 1 > 0)) = decide (c % 2 = 1) := by decide

theorem parseHeader_eq (b : Buf) (i : List Nat) (mag : Nat) (t : Int) (u tn c5 c7 : Nat)
    (h0 : hammingDecode (nth i 0) = some u) (h1 : hammingDecode (nth i 1) = some tn)
    (h5 : hammingDecode (nth i 5) = some c5) (h7 : hammingDecode (nth i 7) = some c7)
    (l5 : c5 < 16) (l7 : c7 < 16) :
    parseHeader b i mag t = headerStep b t mag tn u (decide (c5 / 8 % 2 = 1)) (decide (c7 % 2 = 1)) (c7 / 2) := by
  unfold parseHeader headerStep
  rw [h0, h1]
  simp only [h5, h7]
  have hsh : c7 >>> 1 = c7 / 2 := by rw [Nat.shiftRight_eq_div_pow]
  rw [← c5_bit c5 l5, ← c7_bit c7 l7, hsh]
  by_cases hff : (decide (tn = 15) && decide (u = 15)) = true
  · simp only [hff, if_true]
  · simp only [hff]
    unfold autoSelect pageNo
    by_cases hsel : (decide (b.mag = 0) && decide (b.page = 0)) = true
    · simp only [hsel, if_true]
      cases hpn : (if (decide (tn > 9) || decide (u > 9)) = true then (none : Option Nat) else some (tn * 10 + u)) with
      | none => rfl
      | some p =>
        simp only []
        by_cases hs : c5 &&& 8 > 0
        · simp [hs, headerCore]
          cases b.current <;> rfl
        · simp [hs, headerCore]
          cases b.current <;> rfl
    · simp only [hsel]; rfl

/-! ## rows -/

/-- the value `parsePacketData` stores for a received cell -/
def storedCell : Option Nat → Nat
  | some c => c
  | none => invalidChar

/-- `parsePacketData` with the stored row given -/
def storeRow (b : Buf) (y : Nat) (row : List Nat) : Buf :=
  match b.current with
  | none => b
  | some p => { b with current := some { p with data := setData p.data y row, rows := p.rows ++ [y] } }

theorem map_range_getD (g : Nat → Nat) : ∀ (l : List Nat) (n : Nat), l.length = n →
    (List.range n).map (fun k => g (nth l k)) = l.map g := by
  intro l n hn
  apply List.ext_getElem
  · simp [hn]
  · intro k h1 h2
    simp at h1 h2
    simp [nth, List.getD_eq_getElem?_getD, h2]

theorem storeChar_eq (x : Nat) (hx : x < 256) : storeChar x = storedCell (Spec.Teletext.parityDecode x) := by
  rw [C06.C06_parity_agree x hx]
  cases Spec.Teletext.parityDecode x <;> rfl

theorem parseData_eq (b : Buf) (d : List Nat) (y : Nat) (hl : d.length = 40) (hb : Bytes d) :
    parseData b d y = storeRow b y ((d.map Spec.Teletext.parityDecode).map storedCell) := by
  have : (List.range 40).map (fun k => storeChar (nth d k)) = (d.map Spec.Teletext.parityDecode).map storedCell := by
    rw [map_range_getD storeChar d 40 hl, List.map_map]
    apply List.map_congr_left
    intro x hx
    exact storeChar_eq x (hb x hx)
  unfold parseData storeRow
  rw [this]
  rfl

/-! ## X/28 and M/29 -/

theorem and15 (t : Nat) : t &&& 0xf = t % 16 := Nat.and_two_pow_sub_one_eq_mod t 4

/-- what `parsePacket28And29` does, written on the specification's `.desig` fields -/
def desigStep (b : Buf) (mag y dc raw : Nat) : Buf :=
  if mag = b.mag && (dc = 0 || dc = 4) then
    if y = 28 then (if b.receiving && raw % 16 = 0 then { b with x28 := some raw } else b)
    else if y = 29 then { b with m29 := some raw }
    else b
  else b

/-! ## the packet -/

/-- the model's page buffer after a packet, as a function of the packet the specification decodes -/
def applyPacket (t : Int) (b : Buf) : Spec.Teletext.Packet → Buf
  | .header mag tens units subtitle serial code => headerStep b t mag tens units subtitle serial code
  | .row mag y cells => if b.receiving && mag = b.mag then storeRow b y (cells.map storedCell) else b
  | .desig mag y dc raw => desigStep b mag y dc raw
  | .other => b

theorem parsePacket_desig (b : Buf) (d : List Nat) (mag y dc : Nat) (t : Int) (hy : y = 28 ∨ y = 29)
    (h0 : hammingDecode (nth d 0) = some dc) :
    parsePacket b d mag y t = desigStep b mag y dc (d.getD 1 0 + d.getD 2 0 * 256 + d.getD 3 0 * 65536) := by
  have hraw : nth (d.drop 1) 2 * 65536 + nth (d.drop 1) 1 * 256 + nth (d.drop 1) 0
      = d.getD 1 0 + d.getD 2 0 * 256 + d.getD 3 0 * 65536 := by
    rw [nth_drop, nth_drop, nth_drop]; simp only [nth, Nat.reduceAdd]; omega
  unfold parsePacket desigStep parse2829
  rw [h0, hraw]
  simp only [and15]
  generalize d.getD 1 0 + d.getD 2 0 * 256 + d.getD 3 0 * 65536 = raw
  rcases hy with hy | hy <;> subst hy
  · by_cases hm : mag = b.mag <;> by_cases hr : b.receiving = true <;> by_cases h0 : dc = 0 <;> by_cases h4 : dc = 4 <;>
      by_cases hz : raw % 16 = 0 <;> simp [hm, hr, h0, h4, hz] <;> omega
  · by_cases hm : mag = b.mag <;> by_cases hr : b.receiving = true <;> by_cases h0 : dc = 0 <;> by_cases h4 : dc = 4 <;>
      simp [hm, hr, h0, h4]

theorem parsePacket_other (b : Buf) (d : List Nat) (mag y : Nat) (t : Int)
    (hy : 26 ≤ y) (h28 : y ≠ 28) (h29 : y ≠ 29) : parsePacket b d mag y t = b := by
  unfold parsePacket
  have h0 : y ≠ 0 := by omega
  have h25 : ¬ y ≤ 25 := by omega
  simp only [h0, h25, h28, h29, if_false, decide_false, Bool.and_false, Bool.false_eq_true]
  cases hammingDecode (nth d 0) <;> simp

theorem parsePacket_row (b : Buf) (d : List Nat) (mag y : Nat) (t : Int) (h1 : 1 ≤ y) (h25 : y ≤ 25) :
    parsePacket b d mag y t = if b.receiving && mag = b.mag then parseData b d y else b := by
  unfold parsePacket
  have h0 : y ≠ 0 := by omega
  have h26 : y ≠ 26 := by omega
  have h28 : y ≠ 28 := by omega
  have h29 : y ≠ 29 := by omega
  simp only [h0, h1, h25, h26, h28, h29, if_false, decide_false, decide_true, Bool.and_false, Bool.and_true, Bool.false_eq_true]
  by_cases hc : (b.receiving && decide (mag = b.mag)) = true
  · simp [hc]
  · simp only [hc, if_false]
    cases hammingDecode (nth d 0) <;> simp

/-- **Packet agreement.**  For every 44-byte data field the specification decodes into a packet `p`, the
    model's `parseDataUnit` moves the page buffer exactly as `applyPacket` says for `p`. -/
theorem parseDataUnit_decodePacket (b : Buf) (f : List Nat) (t : Int) (p : Spec.Teletext.Packet)
    (hb : Bytes f) (h : Spec.Teletext.decodePacket f = some p) :
    parseDataUnit b f 3 t = applyPacket t b p := by
  unfold Spec.Teletext.decodePacket at h
  by_cases hlen : f.length = 44
  · simp only [hlen, bne_self_eq_false, Bool.false_eq_true, if_false] at h
    by_cases hfc : f.getD 1 0 = 0xe4
    · simp only [hfc, bne_self_eq_false, Bool.false_eq_true, if_false] at h
      cases ha : Spec.Teletext.hammingExact (f.getD 2 0) with
      | none => rw [ha] at h; cases h
      | some a =>
        cases hbb : Spec.Teletext.hammingExact (f.getD 3 0) with
        | none => rw [ha, hbb] at h; cases h
        | some b2 =>
          simp only [ha, hbb] at h
          have la := hammingExact_lt _ _ ha
          have lb := hammingExact_lt _ _ hbb
          have hadr := address_table a la b2 lb
          rw [parseDataUnit_address b f t a b2 (by omega) hfc (hamming_of_exact f hb 2 a ha) (hamming_of_exact f hb 3 b2 hbb), hadr]
          have hd : Bytes (f.drop 4) := hb.drop 4
          have hdl : (f.drop 4).length = 40 := by simp [hlen]
          simp only [specAddress]
          by_cases hy0 : a / 8 + b2 * 2 = 0
          · simp only [hy0, if_true] at h
            cases e0 : Spec.Teletext.hammingExact ((f.drop 4).getD 0 0) with
            | none => rw [e0] at h; cases h
            | some u =>
            cases e1 : Spec.Teletext.hammingExact ((f.drop 4).getD 1 0) with
            | none => rw [e0, e1] at h; cases h
            | some tn =>
            cases e5 : Spec.Teletext.hammingExact ((f.drop 4).getD 5 0) with
            | none => rw [e0, e1, e5] at h; cases h
            | some c5 =>
            cases e7 : Spec.Teletext.hammingExact ((f.drop 4).getD 7 0) with
            | none => rw [e0, e1, e5, e7] at h; cases h
            | some c7 =>
              simp only [e0, e1, e5, e7, Option.some.injEq] at h
              subst h
              simp only [hy0, parsePacket, if_true, applyPacket]
              exact parseHeader_eq b _ _ t u tn c5 c7 (hamming_of_exact _ hd 0 u e0) (hamming_of_exact _ hd 1 tn e1)
                (hamming_of_exact _ hd 5 c5 e5) (hamming_of_exact _ hd 7 c7 e7) (hammingExact_lt _ _ e5) (hammingExact_lt _ _ e7)
          · simp only [hy0, if_false] at h
            by_cases hy25 : a / 8 + b2 * 2 ≤ 25
            · simp only [hy25, if_true, Option.some.injEq] at h
              subst h
              rw [parsePacket_row b _ _ _ t (by omega) hy25]
              simp only [applyPacket]
              rw [parseData_eq b _ _ hdl hd]
            · simp only [hy25, if_false] at h
              by_cases hy : a / 8 + b2 * 2 = 28 ∨ a / 8 + b2 * 2 = 29
              · have hyb : (decide (a / 8 + b2 * 2 = 28) || decide (a / 8 + b2 * 2 = 29)) = true := by
                  rcases hy with hy | hy <;> simp [hy]
                simp only [hyb, if_true] at h
                cases e0 : Spec.Teletext.hammingExact ((f.drop 4).getD 0 0) with
                | none => rw [e0] at h; cases h
                | some dc =>
                  simp only [e0, Option.some.injEq] at h
                  subst h
                  simp only [applyPacket]
                  exact parsePacket_desig b _ _ _ dc t hy (hamming_of_exact _ hd 0 dc e0)
              · have hyb : (decide (a / 8 + b2 * 2 = 28) || decide (a / 8 + b2 * 2 = 29)) = false := by
                  simp; omega
                simp only [hyb, Bool.false_eq_true, if_false, Option.some.injEq] at h
                subst h
                simp only [applyPacket]
                exact parsePacket_other b _ _ _ t (by omega) (by omega) (by omega)
    · have hfc' : (f.getD 1 0 != 0xe4) = true := bne_iff_ne.mpr hfc
      simp only [hfc', if_true, Option.some.injEq] at h
      subst h
      exact C06.C06_unit_framing b f 3 t hfc
  · have : (f.length != 44) = true := by simp [hlen]
    simp [this] at h

end Teletext
end Astisub
