import Astisub.Lemmas.VTTRead2Doc
import Astisub.Lemmas.VTTRead2Header
import Astisub.Lemmas.VTTRead2View
import Astisub.Lemmas.VTTRead2Bytes

/-!
# Lemmas/VTTRead2Main — the whole document: header, header metadata, blocks, final view
-/

set_option linter.unusedSimpArgs false

namespace Astisub
namespace VTTRead
open Go Spec.VTT
open VTT (St step run Block)

/-! ### two facts about the decoder's state that the view needs -/

/-- the decoder's CSS lines hold no line feed and its timestamp map fits 64 bits -/
def D2 (ds : DocSt) : Prop :=
  (∀ l ∈ ds.styles, '\n' ∉ l) ∧ (∀ l m, ds.tsmap = some (l, m) → Go.Int64 l ∧ Go.Int64 m)

theorem timeMs_bound {s : Str} {ms : Nat} (h : timeMs s = some ms) : ms < 3700000000000 := by
  obtain ⟨x, f, v, hx, hms, hf⟩ := timeMs_inv h
  have hv : v < 3600003600 := by
    rcases hmsSpec_inv hx with ⟨_, _, _, hh, m, sec, _, _, _, _, h1, h2, h3, h4⟩ | ⟨_, _, m, sec, _, _, _, h1, h2, h4⟩
    · subst h4; omega
    · subst h4; omega
  have hf' : f < 1000 := by
    rcases hf with ⟨y, fv, _, hlen, hn, hfe⟩ | ⟨_, hfe⟩
    · obtain ⟨_, _, _, hb⟩ := natOf_spec hn
      subst hfe
      have : y.length = 0 ∨ y.length = 1 ∨ y.length = 2 ∨ y.length = 3 := by omega
      rcases this with e | e | e | e <;> rw [e] at hb ⊢ <;> simp at hb ⊢ <;> omega
    · subst hfe; omega
  subst hms; omega

theorem tsmapLine_int64 {l : Str} {m : Int × Int} (h : tsmapLine l = some m)   : Go.Int64 m.1 ∧ Go.Int64 m.2 := by
  obtain ⟨_, _, _, _, _, _, _, lms, mv, _, _, _, _, hmv, hm, hcase⟩ := tsmapLine_inv h
  have hl : lms < 3700000000000 := by
    rcases hcase with ⟨_, _, ht, _⟩ | ⟨_, _, ht, _⟩ <;> exact timeMs_bound ht
  subst hm
  unfold Go.Int64
  simp only
  have : (2 : Nat) ^ 62 = 4611686018427387904 := by decide
  rw [this] at hmv
  omega

theorem metaStep_D2 {ds ds1 : DocSt} {l : Str} (hD : D2 ds) (h : metaStep (some ds) l = some ds1) : D2 ds1 := by
  unfold metaStep at h
  simp only at h
  split at h
  · split at h
    · split at h
      · cases h
      · simp only [Option.some.injEq] at h; subst h; exact hD
    · cases h
  · split at h
    · rename_i m hm
      split at h
      · cases h
      · simp only [Option.some.injEq] at h
        subst h
        refine ⟨hD.1, ?_⟩
        intro a b hab
        simp only [Option.some.injEq] at hab
        have := tsmapLine_int64 hm
        rw [hab] at this
        exact this
    · cases h

theorem foldl_metaStep_D2 (b : List Str) : ∀ {ds ds' : DocSt}, D2 ds → b.foldl metaStep (some ds) = some ds' → D2 ds' := by
  induction b with
  | nil => intro ds ds' hD h; simp only [List.foldl, Option.some.injEq] at h; subst h; exact hD
  | cons l ls ih =>
    intro ds ds' hD h
    simp only [List.foldl] at h
    cases h1 : metaStep (some ds) l with
    | none => rw [h1, foldl_metaStep_none] at h; cases h
    | some ds1 => rw [h1] at h; exact ih (metaStep_D2 hD h1) h

theorem block_D2 {ds ds' : DocSt} {b : List Str} (hD : D2 ds) (hb : ∀ l ∈ b, '\n' ∉ l) (h : block ds b = some ds') :
    D2 ds' := by
  cases b with
  | nil => simp only [block, Option.some.injEq] at h; subst h; exact hD
  | cons first rest =>
    cases hn : noteLine first with
    | some c =>
      simp only [block, hn] at h
      generalize ((if c = [] then [] else [c]) ++ List.map (fun l => match noteLine l with | some c => c | none => l) rest) = all at h
      cases hany : all.any (fun l => contains Spec.VTT.arrow l || decide (l = [])) with
      | true => rw [hany] at h; simp at h
      | false =>
        rw [hany] at h
        simp only [Bool.false_eq_true, if_false, Option.some.injEq] at h
        subst h; exact hD
    | none =>
      by_cases hs : first = "STYLE".toList
      · subst hs
        simp only [block, hn, if_true] at h
        cases hany : rest.any (fun l => contains Spec.VTT.arrow l || opener l) with
        | true => rw [hany] at h; simp at h
        | false =>
          rw [hany] at h
          simp only [Bool.false_eq_true, if_false] at h
          cases hlast : rest.getLast? with
          | none =>
            rw [hlast] at h
            simp only [Option.some.injEq] at h
            subst h; exact hD
          | some x =>
            rw [hlast] at h
            simp only at h
            by_cases hsx : hasSuffix ['}'] x = true
            · rw [if_pos hsx] at h
              simp only [Option.some.injEq] at h
              subst h
              refine ⟨?_, hD.2⟩
              intro l hl
              rcases List.mem_append.mp hl with e | e
              · exact hD.1 l e
              · exact hb l (by simp [e])
            · rw [if_neg hsx] at h; cases h
      · rw [block_cases ds first rest hn hs] at h
        split at h
        · exact foldl_metaStep_D2 _ hD h
        · rw [cueBlock_eq] at h
          cases hp : partsOf (first :: rest) with
          | none => rw [hp] at h; cases h
          | some pr =>
            obtain ⟨id, timing, text⟩ := pr
            rw [hp] at h
            simp only at h
            obtain ⟨_, _, _, _, _, _, _, _, _, _, _, _, _, _, _, hds⟩ := cueCore_inv h
            subst hds
            exact hD

theorem foldl_F_D2 (bs : List (List Str)) : ∀ {ds ds' : DocSt}, D2 ds → (∀ b ∈ bs, ∀ l ∈ b, '\n' ∉ l) →
    bs.foldl F (some ds) = some ds' → D2 ds' := by
  induction bs with
  | nil => intro ds ds' hD _ h; simp only [List.foldl, Option.some.injEq] at h; subst h; exact hD
  | cons b bs ih =>
    intro ds ds' hD hb h
    simp only [List.foldl] at h
    cases h1 : F (some ds) b with
    | none => rw [h1, foldl_F_none] at h; cases h
    | some ds1 =>
      rw [h1] at h
      exact ih (block_D2 hD (hb b (by simp)) h1) (fun x hx => hb x (by simp [hx])) h

/-- the lines of the blocks are trimmed lines of the input -/
theorem go_lines (lines : List Str) : ∀ (cur : List Str), ∀ b ∈ blocks.go lines cur, ∀ l ∈ b,
    l ∈ cur ∨ ∃ x ∈ lines, l = trimSpace x := by
  induction lines with
  | nil =>
    intro cur b hb l hl
    rw [go_nil] at hb
    by_cases hc : cur.isEmpty = true
    · rw [if_pos hc] at hb; cases hb
    · rw [if_neg hc] at hb
      simp only [List.mem_singleton] at hb
      subst hb
      exact Or.inl (List.mem_reverse.mp hl)
  | cons x xs ih =>
    intro cur b hb l hl
    rw [go_cons] at hb
    by_cases hbk : trimSpace x = []
    · rw [if_pos hbk] at hb
      by_cases hc : cur.isEmpty = true
      · rw [if_pos hc] at hb
        rcases ih [] b hb l hl with e | ⟨y, hy, e⟩
        · cases e
        · exact Or.inr ⟨y, by simp [hy], e⟩
      · rw [if_neg hc] at hb
        rcases List.mem_cons.mp hb with e | e
        · subst e; exact Or.inl (List.mem_reverse.mp hl)
        · rcases ih [] b e l hl with e' | ⟨y, hy, e'⟩
          · cases e'
          · exact Or.inr ⟨y, by simp [hy], e'⟩
    · rw [if_neg hbk] at hb
      rcases ih (trimSpace x :: cur) b hb l hl with e | ⟨y, hy, e⟩
      · rcases List.mem_cons.mp e with e' | e'
        · exact Or.inr ⟨x, by simp, e'⟩
        · exact Or.inl e'
      · exact Or.inr ⟨y, by simp [hy], e⟩

/-! ### the lines after the header -/

def InClassWith (ok : Str → Bool) (doc : Str) : Bool :=
  match docBlocks doc with
  | some bs => bs.all (blockOKWith ok)
  | none => true

theorem InClass_eq (doc : Str) : InClass doc = InClassWith lineOK doc := rfl

theorem R_init : R {} {} :=
  ⟨rfl, rfl, rfl, fun _ => rfl, fun l hl => (by cases hl), rfl, rfl, rfl, fun _ => rfl⟩

theorem between_init : Between {} := ⟨rfl, rfl⟩

theorem takeWhile_append_drop' {α} (p : α → Bool) : ∀ l : List α, l.takeWhile p ++ l.drop (l.takeWhile p).length = l := by
  intro l
  induction l with
  | nil => rfl
  | cons x xs ih =>
    simp only [List.takeWhile]
    cases p x with
    | true => simp [ih]
    | false => simp

theorem mem_takeWhile' {α} (p : α → Bool) : ∀ (l : List α), ∀ x ∈ l.takeWhile p, p x = true ∧ x ∈ l := by
  intro l
  induction l with
  | nil => intro x hx; cases hx
  | cons y ys ih =>
    intro x hx
    simp only [List.takeWhile] at hx
    cases hy : p y with
    | true =>
      rw [hy] at hx
      rcases List.mem_cons.mp hx with e | e
      · subst e; exact ⟨hy, by simp⟩
      · exact ⟨(ih x e).1, by simp [(ih x e).2]⟩
    | false => rw [hy] at hx; cases hx

theorem blocks_eq (lines : List Str) : blocks lines = blocks.go lines [] := rfl

/-- the decoder's block list of the lines after the header -/
def bsOf (rest : List Str) : List (List Str) :=
  (if (rest.takeWhile metaLine).isEmpty then [] else [(rest.takeWhile metaLine).map trimSpace]) ++
    blocks (rest.drop (rest.takeWhile metaLine).length)

theorem sim_lines {ok : Str → Bool} (T : TextLayer ok) (rest : List Str) (ds' : DocSt)
    (hok : ∀ b ∈ bsOf rest, blockOKWith ok b = true) (h : (bsOf rest).foldl F (some {}) = some ds') :
    GoodRun (run {} (rest.map some)) ds' := by
  unfold bsOf at h hok
  by_cases he : (rest.takeWhile metaLine).isEmpty = true
  · rw [if_pos he] at h hok
    have e0 : rest.takeWhile metaLine = [] := by simpa using he
    rw [e0] at h hok
    simp only [List.nil_append, List.length_nil, List.drop_zero, blocks_eq] at h hok
    have := sim_go T rest [] {} ds' {} R_init between_init (by intro x hx; cases hx) hok h
    simpa using this
  · rw [if_neg he] at h hok
    generalize hhdr : rest.takeWhile metaLine = hdr at h hok he
    have hsplit : hdr ++ rest.drop hdr.length = rest := by rw [← hhdr]; exact takeWhile_append_drop' _ _
    generalize rest.drop hdr.length = rest' at h hok hsplit
    have hmeta : ∀ l ∈ hdr.map trimSpace, metaT l = true := by
      intro l hl
      obtain ⟨x, hx, rfl⟩ := List.mem_map.mp hl
      have := (mem_takeWhile' metaLine rest x (by rw [hhdr]; exact hx)).1
      exact this
    have hbl : ∀ l ∈ hdr.map trimSpace, BLine l := by
      intro l hl
      have hm := hmeta l hl
      obtain ⟨x, _, rfl⟩ := List.mem_map.mp hl
      refine ⟨trimSpace_idem x, ?_⟩
      unfold metaT at hm
      rcases Bool.or_eq_true _ _ |>.mp hm with h1 | h1
      · exact (prefix_tests_R h1).2.2.2
      · exact (prefix_tests_X h1).2.2.2.1
    cases hB : hdr.map trimSpace with
    | nil =>
      have : hdr = [] := by simpa using hB
      rw [this] at he; simp at he
    | cons first more =>
      rw [hB] at h hok hmeta hbl
      simp only [List.cons_append, List.nil_append, List.foldl] at h
      have hm1 := hmeta first (by simp)
      have hfacts : noteLine first = none ∧ first ≠ "STYLE".toList := by
        unfold metaT at hm1
        rcases Bool.or_eq_true _ _ |>.mp hm1 with h1 | h1
        · exact ⟨(prefix_tests_R h1).2.2.1, (prefix_tests_R h1).2.1⟩
        · exact ⟨(prefix_tests_X h1).2.2.1, (prefix_tests_X h1).2.1⟩
      cases hblk : F (some {}) (first :: more) with
      | none => rw [hblk, foldl_F_none] at h; cases h
      | some ds1 =>
        rw [hblk] at h
        simp only [F] at hblk
        rw [block_cases _ first more hfacts.1 hfacts.2] at hblk
        have hall : (first :: more).all metaT = true := by
          rw [List.all_eq_true]; exact hmeta
        rw [if_pos hall] at hblk
        have hokb := hok (first :: more) (by simp)
        unfold blockOKWith at hokb
        simp only [hfacts.1, Option.isSome_none, Bool.false_eq_true, if_false, Bool.and_eq_true, List.all_eq_true] at hokb
        have hsim := sim_meta (first :: more) R_init between_init hbl hokb.1 hmeta hblk
        rw [← hsplit, List.map_append, run_append, run_trim, hB]
        rcases hsim with hu | ⟨ms1, hrun, hR1, hB1⟩
        · rw [hu]; exact goodRun_of_unmodelled
        · rw [hrun]
          simp only
          have := sim_go T rest' [] ds1 ds' ms1 hR1 hB1 (by intro x hx; cases hx)
            (fun b hb => hok b (by simp [blocks_eq, hb])) (by simpa [blocks_eq] using h)
          simpa using this

/-! ### the whole document -/

theorem D2_init : D2 {} := ⟨fun l hl => (by cases hl), fun l m h => (by cases h)⟩

theorem bsOf_no_lf (rest : List Str) (hr : ∀ l ∈ rest, '\n' ∉ l) : ∀ b ∈ bsOf rest, ∀ l ∈ b, '\n' ∉ l := by
  intro b hb l hl
  unfold bsOf at hb
  rcases List.mem_append.mp hb with e | e
  · by_cases he : (rest.takeWhile metaLine).isEmpty = true
    · rw [if_pos he] at e; cases e
    · rw [if_neg he] at e
      simp only [List.mem_singleton] at e
      subst e
      obtain ⟨x, hx, rfl⟩ := List.mem_map.mp hl
      exact trimSpace_no_lf x (hr x (mem_takeWhile' _ _ x hx).2)
  · rw [blocks_eq] at e
    rcases go_lines _ [] b e l hl with e' | ⟨x, hx, rfl⟩
    · cases e'
    · exact trimSpace_no_lf x (hr x (List.mem_of_mem_drop hx))

/-- **The read clause on character lines.** -/
theorem read_decode_chars {ok : Str → Bool} (T : TextLayer ok) (text : Str) (g : GDoc)
    (hin : InClassWith ok text = true) (h : decode text = some g) :
    Good (VTT.read ((splitLines text []).map some)) g := by
  rw [decode_eq] at h
  unfold InClassWith at hin
  cases hdb : docBlocks text with
  | none => rw [hdb] at h; cases h
  | some bs =>
    rw [hdb] at h hin
    simp only at h hin
    cases hfb : foldBlocks bs with
    | none => rw [hfb] at h; cases h
    | some ds' =>
      rw [hfb] at h
      simp only [Option.map_some, Option.some.injEq] at h
      subst h
      unfold docBlocks at hdb
      cases hsl : splitLines (stripBom text) [] with
      | nil => rw [hsl] at hdb; cases hdb
      | cons first rest =>
        rw [hsl] at hdb
        simp only at hdb
        cases hoh : okHeader first with
        | false => rw [hoh] at hdb; simp at hdb
        | true =>
          rw [hoh] at hdb
          simp only [Bool.not_true, Bool.false_eq_true, if_false, Option.some.injEq] at hdb
          have hbs : bs = bsOf rest := hdb.symm
          subst hbs
          rw [foldBlocks_eq] at hfb
          have hokb : ∀ b ∈ bsOf rest, blockOKWith ok b = true := by
            intro b hb; exact List.all_eq_true.mp hin b hb
          have hsim := sim_lines T rest ds' hokb hfb
          have hrest : ∀ l ∈ rest, '\n' ∉ l := by
            intro l hl
            have := splitLines_no_eol (stripBom text) l (by rw [hsl]; simp [hl])
            exact this.1
          have hD := foldl_F_D2 (bsOf rest) D2_init (bsOf_no_lf rest hrest) hfb
          unfold VTT.read
          rw [skipHeader_of_okHeader text first rest hsl hoh]
          simp only
          rcases hsim with hu | ⟨ms', hrun, hR⟩
          · left; rw [hu]
          · right
            rw [hrun]
            refine ⟨_, rfl, ?_⟩
            have := view_result ms' ds'.cues ds'.regions hR.cues hR.regions hR.seen
              (by rw [hR.styles]; exact hD.1) (by rw [hR.tsmap]; exact hD.2)
            rw [this, hR.styles, hR.tsmap]
            rfl

/-- **The read clause on bytes**, as the `vtt.read` case of the driver evaluates it -/
theorem read_decode_bytes {ok : Str → Bool} (T : TextLayer ok) (doc : List UInt8) (text : Str) (g : GDoc)
    (hdec : Driver.decodeLine doc = some text)
    (hin : InClassWith ok text = true) (h : decode text = some g) :
    Good (VTT.read (Driver.docLines doc)) g := by
  rw [docLines_of_decodeLine doc text hdec]
  exact read_decode_chars T text g hin h

end VTTRead
end Astisub
