import Astisub.Go.Float53
import Astisub.Lemmas.F53Rnd

/-!
# Lemmas/F53Round — `Dy.round` is `rnd` on values

`Dy.val d = m · 2^e` as a rational. Main result: `round_val : (Dy.round d).val = rnd d.val` for
every `d` (no side condition: the model has no exponent bounds).
-/

namespace Astisub
namespace Go

/-- the rational number a dyadic stands for -/
def Dy.val (d : Dy) : ℚ := (d.m : ℚ) * 2 ^ d.e

end Go

namespace F53
open Go

/-! ### bit length -/

theorem bitlen_zero : bitlen 0 = 0 := by simp [bitlen]

theorem bitlen_pos {n : ℕ} (hn : n ≠ 0) : bitlen n = Nat.log2 n + 1 := by simp [bitlen, hn]

theorem bitlen_ub (n : ℕ) : n < 2 ^ bitlen n := by
  by_cases hn : n = 0
  · subst hn; simp [bitlen]
  · rw [bitlen_pos hn]; exact Nat.lt_log2_self

theorem bitlen_lb {n : ℕ} (hn : n ≠ 0) : 2 ^ (bitlen n - 1) ≤ n := by
  rw [bitlen_pos hn, Nat.add_sub_cancel]; exact Nat.log2_self_le hn

theorem bitlen_le_iff (n k : ℕ) : bitlen n ≤ k ↔ n < 2 ^ k := by
  by_cases hn : n = 0
  · subst hn; simp [bitlen]
  · rw [bitlen_pos hn, ← Nat.log2_lt hn]; omega

theorem bitlen_ne_zero {n : ℕ} (hn : n ≠ 0) : bitlen n ≠ 0 := by rw [bitlen_pos hn]; omega

/-! ### nearest-even for quotients -/

theorem isRNE_div_iff {N P : ℚ} (hP : 0 < P) (z : ℤ) :
    IsRNE (N / P) z ↔ (|N - z * P| ≤ P / 2 ∧ (|N - z * P| = P / 2 → z % 2 = 0)) := by
  have e : |N / P - z| = |N - z * P| / P := by
    have : N / P - z = (N - z * P) / P := by field_simp
    rw [this, abs_div, abs_of_pos hP]
  have a1 : |N - z * P| / P ≤ 1 / 2 ↔ |N - z * P| ≤ P / 2 := by
    rw [div_le_iff₀ hP]
    constructor <;> intro h <;> linarith
  have a2 : |N - z * P| / P = 1 / 2 ↔ |N - z * P| = P / 2 := by
    rw [div_eq_iff (ne_of_gt hP)]
    constructor <;> intro h <;> linarith
  unfold IsRNE
  rw [e, a1, a2]

theorem isRNE_neg {y : ℚ} {z : ℤ} (h : IsRNE y z) : IsRNE (-y) (-z) := by
  obtain ⟨h1, h2⟩ := h
  have e : |(-y) - ((-z : ℤ) : ℚ)| = |y - (z : ℚ)| := by
    push_cast
    rw [show -y - -(z : ℚ) = -(y - (z : ℚ)) by ring, abs_neg]
  refine ⟨by rw [e]; exact h1, fun h => ?_⟩
  rw [e] at h
  have := h2 h
  omega

/-- the rounded quotient computed by `Dy.round` -/
def rq (n sh : ℕ) : ℕ :=
  if n % 2 ^ sh > 2 ^ (sh - 1) ∨ (n % 2 ^ sh = 2 ^ (sh - 1) ∧ n / 2 ^ sh % 2 = 1) then n / 2 ^ sh + 1
  else n / 2 ^ sh

theorem rq_isRNE (n sh : ℕ) (hsh : 1 ≤ sh) : IsRNE ((n : ℚ) / 2 ^ sh) ((rq n sh : ℕ) : ℤ) := by
  obtain ⟨s, rfl⟩ : ∃ s, sh = s + 1 := ⟨sh - 1, by omega⟩
  have hP : (0 : ℚ) < 2 ^ (s + 1) := by positivity
  rw [isRNE_div_iff hP]
  have hdm := Nat.div_add_mod n (2 ^ (s + 1))
  have hlt := Nat.mod_lt n (show 2 ^ (s + 1) > 0 by positivity)
  generalize hq : n / 2 ^ (s + 1) = q at *
  generalize hr : n % 2 ^ (s + 1) = r at *
  have hpow : 2 ^ (s + 1) = 2 * 2 ^ s := by rw [pow_succ]; ring
  rw [hpow] at hdm hlt
  generalize hH : 2 ^ s = H at *
  -- now everything is linear in q*H? no: n = 2*H*q + r
  have hn : (n : ℚ) = 2 * (H : ℚ) * q + r := by exact_mod_cast hdm.symm
  have hPq : (2 : ℚ) ^ (s + 1) = 2 * (H : ℚ) := by
    rw [pow_succ, ← hH]; push_cast; ring
  have hltq : (r : ℚ) < 2 * H := by exact_mod_cast hlt
  have hr0 : (0 : ℚ) ≤ r := by positivity
  rw [hPq]
  unfold rq
  rw [hq, hr]
  simp only [Nat.add_sub_cancel, hH]
  by_cases c : r > H ∨ (r = H ∧ q % 2 = 1)
  · rw [if_pos c]
    have hge : (H : ℚ) ≤ r := by
      rcases c with c | c
      · exact_mod_cast le_of_lt c
      · exact_mod_cast le_of_eq c.1.symm
    have e : (n : ℚ) - (((q + 1 : ℕ) : ℤ) : ℚ) * (2 * (H : ℚ)) = (r : ℚ) - 2 * H := by
      rw [hn]; push_cast; ring
    rw [e, abs_of_neg (by linarith)]
    refine ⟨by linarith, fun h => ?_⟩
    have hrH : (r : ℚ) = H := by linarith
    have hrH' : r = H := by exact_mod_cast hrH
    rcases c with c | c
    · omega
    · omega
  · rw [if_neg c]
    have hle : (r : ℚ) ≤ H := by
      have : r ≤ H := by omega
      exact_mod_cast this
    have e : (n : ℚ) - ((q : ℤ) : ℚ) * (2 * (H : ℚ)) = (r : ℚ) := by
      rw [hn]; push_cast; ring
    rw [e, abs_of_nonneg hr0]
    refine ⟨by linarith, fun h => ?_⟩
    have hrH : (r : ℚ) = H := by linarith
    have hrH' : r = H := by exact_mod_cast hrH
    omega

/-! ### the shape of `Dy.round` -/

theorem round_small (d : Dy) (h : bitlen d.m.natAbs ≤ 53) : d.round = d := by
  unfold Dy.round; simp only [h, ↓reduceIte]

theorem round_big (d : Dy) (h : ¬ bitlen d.m.natAbs ≤ 53) :
    d.round = { m := if d.m < 0 then -((rq d.m.natAbs (bitlen d.m.natAbs - 53) : ℕ) : ℤ)
                     else ((rq d.m.natAbs (bitlen d.m.natAbs - 53) : ℕ) : ℤ),
                e := d.e + ((bitlen d.m.natAbs - 53 : ℕ) : ℤ) } := by
  unfold Dy.round rq; simp only [h, ↓reduceIte]

/-! ### values -/

theorem val_abs (d : Dy) : |d.val| = (d.m.natAbs : ℚ) * 2 ^ d.e := by
  unfold Dy.val
  rw [abs_mul, abs_of_pos (p2_pos _), Nat.cast_natAbs, Int.cast_abs]

theorem val_mk (m e : ℤ) : (Dy.mk m e).val = (m : ℚ) * 2 ^ e := rfl

theorem val_zero_m (e : ℤ) : (Dy.mk 0 e).val = 0 := by simp [Dy.val]

/-- the binade of a non-zero dyadic is determined by the bit length of its significand -/
theorem ex_val (d : Dy) (hn : d.m.natAbs ≠ 0) :
    ex d.val = d.e + (bitlen d.m.natAbs : ℤ) - 53 := by
  have lb := bitlen_lb hn
  have ub := bitlen_ub d.m.natAbs
  obtain ⟨k, hk⟩ : ∃ k, bitlen d.m.natAbs = k + 1 := ⟨bitlen d.m.natAbs - 1, by have := bitlen_ne_zero hn; omega⟩
  rw [hk] at lb ub ⊢
  simp only [Nat.add_sub_cancel] at lb
  have lbq : (2 : ℚ) ^ (k : ℤ) ≤ (d.m.natAbs : ℚ) := by
    rw [zpow_natCast]; exact_mod_cast lb
  have ubq : (d.m.natAbs : ℚ) < (2 : ℚ) ^ ((k : ℤ) + 1) := by
    rw [show ((k : ℤ) + 1) = ((k + 1 : ℕ) : ℤ) by push_cast; ring, zpow_natCast]; exact_mod_cast ub
  apply ex_eq
  · rw [val_abs, show d.e + ((k + 1 : ℕ) : ℤ) - 53 + 52 = (k : ℤ) + d.e by push_cast; ring, p2_add]
    exact mul_le_mul_of_nonneg_right lbq (le_of_lt (p2_pos _))
  · rw [val_abs, show d.e + ((k + 1 : ℕ) : ℤ) - 53 + 53 = ((k : ℤ) + 1) + d.e by push_cast; ring, p2_add]
    exact mul_lt_mul_of_pos_right ubq (p2_pos _)

/-- a dyadic whose significand fits in 53 bits is a fixed point of `rnd` -/
theorem rnd_val_small (d : Dy) (h : bitlen d.m.natAbs ≤ 53) : rnd d.val = d.val := by
  by_cases hn : d.m.natAbs = 0
  · have : d.m = 0 := Int.natAbs_eq_zero.mp hn
    unfold Dy.val; rw [this]; simp [rnd_zero]
  · obtain ⟨j, hj⟩ : ∃ j : ℕ, bitlen d.m.natAbs + j = 53 := ⟨53 - bitlen d.m.natAbs, by omega⟩
    apply rnd_fixed (z := d.m * 2 ^ j)
    rw [ex_val d hn]
    have : d.e + (bitlen d.m.natAbs : ℤ) - 53 = d.e + -(j : ℤ) := by omega
    rw [this, p2_add, zpow_neg, zpow_natCast]
    unfold Dy.val
    push_cast
    field_simp [p2_ne]

/-- **`Dy.round` computes `rnd`.** -/
theorem round_val (d : Dy) : d.round.val = rnd d.val := by
  by_cases h : bitlen d.m.natAbs ≤ 53
  · rw [round_small d h, rnd_val_small d h]
  · have hn : d.m.natAbs ≠ 0 := by
      intro h0; rw [h0, bitlen_zero] at h; omega
    obtain ⟨sh, hsh⟩ : ∃ sh : ℕ, bitlen d.m.natAbs = 53 + sh := ⟨bitlen d.m.natAbs - 53, by omega⟩
    have hsh1 : 1 ≤ sh := by omega
    have hsub : bitlen d.m.natAbs - 53 = sh := by omega
    have hE : ex d.val = d.e + (sh : ℤ) := by rw [ex_val d hn, hsh]; push_cast; ring
    obtain ⟨b1, b2⟩ := ex_bounds (x := d.val) (by
      intro h0
      have := val_abs d
      rw [h0, abs_zero] at this
      have hp := p2_pos d.e
      have : (d.m.natAbs : ℚ) = 0 := by
        rcases mul_eq_zero.mp this.symm with h | h
        · exact h
        · exact absurd h (p2_ne _)
      exact hn (by exact_mod_cast this))
    rw [hE] at b1 b2
    rw [round_big d h, hsub]
    have hrne := rq_isRNE d.m.natAbs sh hsh1
    have hdiv : d.val / 2 ^ (d.e + (sh : ℤ)) = (d.m : ℚ) / 2 ^ sh := by
      unfold Dy.val
      rw [p2_add, zpow_natCast]
      field_simp [p2_ne]
    by_cases hneg : d.m < 0
    · simp only [hneg, ↓reduceIte]
      have hm : (d.m : ℚ) = -(d.m.natAbs : ℚ) := by
        have : d.m = -(d.m.natAbs : ℤ) := by omega
        rw [this]; push_cast; simp
      have hz : IsRNE (d.val / 2 ^ (d.e + (sh : ℤ))) (-((rq d.m.natAbs sh : ℕ) : ℤ)) := by
        rw [hdiv, hm, neg_div]
        exact isRNE_neg hrne
      rw [rnd_eq b1 b2 hz]
      rfl
    · simp only [hneg, ↓reduceIte]
      have hm : (d.m : ℚ) = (d.m.natAbs : ℚ) := by
        have : d.m = (d.m.natAbs : ℤ) := by omega
        rw [this]; push_cast; simp
      have hz : IsRNE (d.val / 2 ^ (d.e + (sh : ℤ))) ((rq d.m.natAbs sh : ℕ) : ℤ) := by
        rw [hdiv, hm]
        exact hrne
      rw [rnd_eq b1 b2 hz]
      rfl

/-- the rounded significand has at most 53 bits, or is exactly 2⁵³ (carry) -/
theorem round_m_le (d : Dy) : d.round.m.natAbs ≤ 2 ^ 53 := by
  by_cases h : bitlen d.m.natAbs ≤ 53
  · rw [round_small d h]
    exact le_of_lt ((bitlen_le_iff _ _).mp h)
  · rw [round_big d h]
    obtain ⟨sh, hsh⟩ : ∃ sh : ℕ, bitlen d.m.natAbs = 53 + sh := ⟨bitlen d.m.natAbs - 53, by omega⟩
    have hsub : bitlen d.m.natAbs - 53 = sh := by omega
    rw [hsub]
    have ub := bitlen_ub d.m.natAbs
    rw [hsh, pow_add] at ub
    have hq : d.m.natAbs / 2 ^ sh < 2 ^ 53 := by
      rw [Nat.div_lt_iff_lt_mul (by positivity)]; exact ub
    have hrq : rq d.m.natAbs sh ≤ d.m.natAbs / 2 ^ sh + 1 := by
      unfold rq; split <;> omega
    have : (if d.m < 0 then -((rq d.m.natAbs sh : ℕ) : ℤ) else ((rq d.m.natAbs sh : ℕ) : ℤ)).natAbs
        = rq d.m.natAbs sh := by
      split <;> simp
    simp only [this]
    omega

/-- rounding twice is rounding once -/
theorem round_round_val (d : Dy) : d.round.round.val = d.round.val := by
  rw [round_val d.round]
  have h := round_m_le d
  have hi : |d.round.m| ≤ 2 ^ 53 := by
    have : (2 : ℤ) ^ 53 = ((2 ^ 53 : ℕ) : ℤ) := by norm_num
    rw [this]; exact abs_le.mpr ⟨by omega, by omega⟩
  unfold Dy.val
  rw [rnd_scale, rnd_int _ hi]

/-- `round` sees only the value, not the representation -/
theorem round_val_congr {d₁ d₂ : Dy} (h : d₁.val = d₂.val) : d₁.round.val = d₂.round.val := by
  rw [round_val, round_val, h]

end F53
end Astisub
