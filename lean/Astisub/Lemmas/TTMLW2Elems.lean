import Astisub.Lemmas.TTMLW2Attr
import Astisub.Lemmas.TTMLW2Time

/-!
# Lemmas/TTMLW2Elems — the start tags the writer emits (`tt`, `style`, `region`, `p`, `span`) under the decoder
-/

namespace Astisub
namespace TTMLW2
open Go TTML List
open Driver.TTMLD (nsTTML nsTTS nsTTM nsXML ttmlAttrsOf)
open Spec.TTML (isDecl attr? ref? styling hasNL natAttr denote)
open TTMLDoc (normRef optAttr_norm NotRow headerAttrs pAttrs)

/-! ### optional attributes -/

/-- an optional un-prefixed attribute, resolved: written when the value is not empty -/
def refE (nm : String) (r : Option Str) : List XAttr :=
  match normRef r with
  | some v => [([], nm.toList, v)]
  | none => []

/-- a reference the decoder reads back as it is: not the empty string, no line feed -/
def refW (r : Option Str) : Bool :=
  match r with
  | none => true
  | some x => !x.isEmpty && okStr x

example : refW (some "a".toList) = true ∧ refW none = true ∧ refW (some []) = false := by decide

theorem refW_norm {r : Option Str} (h : refW r = true) : normRef r = r := by
  cases r with
  | none => rfl
  | some x =>
    cases x with
    | nil => simp [refW] at h
    | cons c cs => rfl

theorem refW_ok {r : Option Str} (h : refW r = true) {v : Str} (hv : normRef r = some v) : hasNL v = false := by
  rw [refW_norm h] at hv
  subst hv
  simp [refW, okStr] at h
  exact h.2

theorem vals_single (x : XAttr) (nm : String) (hd : isDecl x = false) :
    vals [x] nm = if x.2.1 = nm.toList then [x.2.2] else [] := by
  by_cases h : x.2.1 = nm.toList
  · rw [if_pos h, vals_cons_hit _ _ _ hd h]; rfl
  · rw [if_neg h, vals_cons_miss _ _ _ (Or.inr h)]; rfl

theorem vals_refE (nm nm' : String) (r : Option Str) (hx : nm.toList ≠ "xmlns".toList) :
    vals (refE nm r) nm' = if nm.toList = nm'.toList then (normRef r).toList else [] := by
  unfold refE
  cases normRef r with
  | none => simp [vals_nil]
  | some v =>
    rw [vals_single _ _ (isDecl_plain _ _ hx)]
    rfl

theorem nlAttr_refE (nm : String) (r : Option Str) (h : refW r = true) : nlAttr (refE nm r) = false := by
  unfold refE
  cases hr : normRef r with
  | none => rfl
  | some v => rw [nlAttr_single]; exact refW_ok h hr

theorem map_optAttr_style (r : Option Str) : (optAttr "style" r).map rAttr = refE "style" r := by
  rw [optAttr_norm]
  unfold refE
  cases normRef r with
  | none => rfl
  | some v => simp only [map_cons, map_nil, at_style]

theorem map_optAttr_region (r : Option Str) : (optAttr "region" r).map rAttr = refE "region" r := by
  rw [optAttr_norm]
  unfold refE
  cases normRef r with
  | none => rfl
  | some v => simp only [map_cons, map_nil, at_region]

theorem style_ne_xmlns : "style".toList ≠ "xmlns".toList := by decide
theorem region_ne_xmlns : "region".toList ≠ "xmlns".toList := by decide
theorem begin_ne_xmlns : "begin".toList ≠ "xmlns".toList := by decide
theorem end_ne_xmlns : "end".toList ≠ "xmlns".toList := by decide

theorem plain_refE (nm : String) (r : Option Str) (hx : nm.toList ≠ "xmlns".toList) (hn : NotRow nm) :
    Plain (refE nm r) := by
  intro p hp
  rw [vals_refE nm p.2 r hx, if_neg (fun e => hn p hp e.symm)]

theorem plain_append {A B : List XAttr} (ha : Plain A) (hb : Plain B) : Plain (A ++ B) := by
  intro p hp
  rw [vals_append, ha p hp, hb p hp]; rfl

theorem plain_single (x : XAttr) (hd : isDecl x = false) (hn : ∀ p ∈ attrTable, x.2.1 ≠ p.2.toList) : Plain [x] := by
  intro p hp
  rw [vals_single _ _ hd, if_neg (hn p hp)]

/-! ### `style` / `region` -/

/-- a definition the decoder reads back as it is -/
def defW (d : Def) : Bool := !d.id.isEmpty && okStr d.id && refW d.ref && attrsW d.attrs

/-- what the decoder makes of a definition -/
def toG (d : Def) : Spec.TTML.GDef := { id := d.id, ref := d.ref, attrs := ttmlAttrsOf d.attrs }

theorem header_attrs (d : Def) (hid : d.id ≠ []) :
    (headerAttrs d).map rAttr = [(nsXML, "id".toList, d.id)] ++ refE "style" d.ref ++ outR d.attrs := by
  unfold headerAttrs
  rw [map_append, map_append, map_optAttr_style]
  congr 2
  cases h : d.id with
  | nil => exact absurd h hid
  | cons c cs =>
    have e1 : optAttr "xml:id" (some (c :: cs)) = [("xml:id".toList, c :: cs)] := rfl
    rw [e1, map_cons, map_nil, at_xmlid]

theorem id_ne_style : "id".toList ≠ "style".toList := by decide
theorem style_ne_id : "style".toList ≠ "id".toList := by decide

/-- **A `style` / `region` start tag under the decoder.** -/
theorem mkDef_header (d : Def) (h : defW d = true) :
    Spec.TTML.mkDef ((headerAttrs d).map rAttr) = some (toG d) ∧ nlAttr ((headerAttrs d).map rAttr) = false := by
  simp only [defW, Bool.and_eq_true, Bool.not_eq_true', List.isEmpty_eq_false_iff] at h
  obtain ⟨⟨⟨hid, hidnl⟩, href⟩, hat⟩ := h
  have hz : zCanon d.attrs = true := by
    simp only [attrsW, Bool.and_eq_true] at hat; exact hat.1
  rw [header_attrs d hid]
  have hplain : Plain ([(nsXML, "id".toList, d.id)] ++ refE "style" d.ref) :=
    plain_append (plain_single _ (isDecl_xml _ _) (fun p hp => (TTMLDoc.notRow_id p hp).symm))
      (plain_refE _ _ style_ne_xmlns notRow_style)
  have h1 : attr? ([(nsXML, "id".toList, d.id)] ++ refE "style" d.ref ++ outR d.attrs) "id" = some (some d.id) := by
    apply attr_one
    rw [vals_append, vals_append, vals_single _ _ (isDecl_xml _ _), if_pos rfl,
      vals_refE _ _ _ style_ne_xmlns, if_neg style_ne_id, vals_outR_other _ TTMLDoc.notRow_id]
    rfl
  have h2 : ref? ([(nsXML, "id".toList, d.id)] ++ refE "style" d.ref ++ outR d.attrs) "style" = some d.ref := by
    have := ref_opt (A := [(nsXML, "id".toList, d.id)] ++ refE "style" d.ref ++ outR d.attrs) (name := "style") (r := d.ref) (by
      rw [vals_append, vals_append, vals_single _ _ (isDecl_xml _ _), if_neg id_ne_style,
        vals_refE _ _ _ style_ne_xmlns, if_pos rfl, vals_outR_other _ notRow_style]
      simp)
    rw [this, refW_norm href]
  have h3 := styling_written _ d.attrs hplain hz
  refine ⟨?_, ?_⟩
  · unfold Spec.TTML.mkDef
    rw [h1, h2, h3]
    have : d.id.isEmpty = false := by cases hd : d.id with
      | nil => exact absurd hd hid
      | cons c cs => rfl
    simp only [this, Bool.false_eq_true, if_false, toG]
  · rw [nlAttr_append, nlAttr_append, nlAttr_single, nlAttr_refE _ _ href, nlAttr_outR _ hat]
    simpa [okStr] using hidnl

/-! ### `p` -/

theorem p_attrs (it : CItem) :
    (pAttrs it).map rAttr = [([], "begin".toList, Duration.formatTTML it.startAt), ([], "end".toList, Duration.formatTTML it.endAt)]
      ++ refE "region" it.region ++ refE "style" it.style ++ outR it.attrs := by
  unfold pAttrs
  rw [map_append, map_append, map_append, map_optAttr_style, map_optAttr_region]
  simp only [map_cons, map_nil, at_begin, at_end]
  rfl

/-- the start tag of a cue the decoder reads back as it is (the runs apart) -/
def cueHeadW (it : CItem) : Bool :=
  decide (0 ≤ it.startAt) && decide (0 ≤ it.endAt) && refW it.style && refW it.region && attrsW it.attrs

theorem begin_ne : "begin".toList ≠ "end".toList ∧ "begin".toList ≠ "region".toList ∧ "begin".toList ≠ "style".toList ∧
    "end".toList ≠ "begin".toList ∧ "end".toList ≠ "region".toList ∧ "end".toList ≠ "style".toList ∧
    "region".toList ≠ "begin".toList ∧ "region".toList ≠ "end".toList ∧ "region".toList ≠ "style".toList ∧
    "style".toList ≠ "begin".toList ∧ "style".toList ≠ "end".toList ∧ "style".toList ≠ "region".toList := by decide

/-- **A `p` start tag under the decoder.** -/
theorem p_fields (it : CItem) (h : cueHeadW it = true) (fr tr : Nat) :
    attr? ((pAttrs it).map rAttr) "begin" = some (some (Duration.formatTTML it.startAt)) ∧
    attr? ((pAttrs it).map rAttr) "end" = some (some (Duration.formatTTML it.endAt)) ∧
    ref? ((pAttrs it).map rAttr) "style" = some it.style ∧
    ref? ((pAttrs it).map rAttr) "region" = some it.region ∧
    styling ((pAttrs it).map rAttr) = some (ttmlAttrsOf it.attrs) ∧
    denote (Duration.formatTTML it.startAt) fr tr = some ((it.startAt - it.startAt % 1000000).toNat, 1) ∧
    denote (Duration.formatTTML it.endAt) fr tr = some ((it.endAt - it.endAt % 1000000).toNat, 1) ∧
    nlAttr ((pAttrs it).map rAttr) = false := by
  simp only [cueHeadW, Bool.and_eq_true, decide_eq_true_eq] at h
  obtain ⟨⟨⟨⟨hs, he⟩, hst⟩, hrg⟩, hat⟩ := h
  have hz : zCanon it.attrs = true := by
    simp only [attrsW, Bool.and_eq_true] at hat; exact hat.1
  obtain ⟨n1, n2, n3, n4, n5, n6, n7, n8, n9, n10, n11, n12⟩ := begin_ne
  rw [p_attrs]
  have hb : isDecl (([] : Str), "begin".toList, Duration.formatTTML it.startAt) = false := isDecl_plain _ _ begin_ne_xmlns
  have hen : isDecl (([] : Str), "end".toList, Duration.formatTTML it.endAt) = false := isDecl_plain _ _ end_ne_xmlns
  have hplain : Plain ([([], "begin".toList, Duration.formatTTML it.startAt), ([], "end".toList, Duration.formatTTML it.endAt)]
      ++ refE "region" it.region ++ refE "style" it.style) := by
    refine plain_append (plain_append ?_ (plain_refE _ _ region_ne_xmlns TTMLDoc.notRow_region))
      (plain_refE _ _ style_ne_xmlns notRow_style)
    exact plain_append (A := [_]) (B := [_]) (plain_single _ hb (fun p hp => (TTMLDoc.notRow_begin p hp).symm))
      (plain_single _ hen (fun p hp => (TTMLDoc.notRow_end p hp).symm))
  refine ⟨?_, ?_, ?_, ?_, styling_written _ it.attrs hplain hz, (denote_formatTTML_any _ hs fr tr).1,
    (denote_formatTTML_any _ he fr tr).1, ?_⟩
  · apply attr_one
    rw [vals_append, vals_append, vals_append, vals_cons_hit _ _ _ hb rfl, vals_cons_miss _ _ _ (Or.inr n4),
      vals_refE _ _ _ region_ne_xmlns, if_neg n7, vals_refE _ _ _ style_ne_xmlns, if_neg n10,
      vals_outR_other _ TTMLDoc.notRow_begin]
    rfl
  · apply attr_one
    rw [vals_append, vals_append, vals_append, vals_cons_miss _ _ _ (Or.inr n1), vals_cons_hit _ _ _ hen rfl,
      vals_refE _ _ _ region_ne_xmlns, if_neg n8, vals_refE _ _ _ style_ne_xmlns, if_neg n11,
      vals_outR_other _ TTMLDoc.notRow_end]
    rfl
  · have := ref_opt (A := [([], "begin".toList, Duration.formatTTML it.startAt), ([], "end".toList, Duration.formatTTML it.endAt)]
        ++ refE "region" it.region ++ refE "style" it.style ++ outR it.attrs) (name := "style") (r := it.style) (by
      rw [vals_append, vals_append, vals_append, vals_cons_miss _ _ _ (Or.inr n3), vals_cons_miss _ _ _ (Or.inr n6),
        vals_refE _ _ _ region_ne_xmlns, if_neg n9, vals_refE _ _ _ style_ne_xmlns, if_pos rfl,
        vals_outR_other _ notRow_style]
      simp [vals_nil])
    rw [this, refW_norm hst]
  · have := ref_opt (A := [([], "begin".toList, Duration.formatTTML it.startAt), ([], "end".toList, Duration.formatTTML it.endAt)]
        ++ refE "region" it.region ++ refE "style" it.style ++ outR it.attrs) (name := "region") (r := it.region) (by
      rw [vals_append, vals_append, vals_append, vals_cons_miss _ _ _ (Or.inr n2), vals_cons_miss _ _ _ (Or.inr n5),
        vals_refE _ _ _ region_ne_xmlns, if_pos rfl, vals_refE _ _ _ style_ne_xmlns, if_neg n12,
        vals_outR_other _ TTMLDoc.notRow_region]
      simp [vals_nil])
    rw [this, refW_norm hrg]
  · rw [nlAttr_append, nlAttr_append, nlAttr_append, nlAttr_refE _ _ hrg, nlAttr_refE _ _ hst, nlAttr_outR _ hat]
    have e : nlAttr [(([] : Str), "begin".toList, Duration.formatTTML it.startAt), ([], "end".toList, Duration.formatTTML it.endAt)]
        = (hasNL (Duration.formatTTML it.startAt) || hasNL (Duration.formatTTML it.endAt)) := by
      simp [nlAttr, hasNL]
    rw [e, (denote_formatTTML_any _ hs 0 0).2, (denote_formatTTML_any _ he 0 0).2]
    rfl

/-! ### `span` -/

/-- a run the decoder reads back as it is -/
def runW (li : LItem) : Bool := okStr li.text && refW li.style && attrsW li.attrs

/-- the attributes of the `span` of a run, resolved -/
def spanAttrs (li : LItem) : List XAttr := (optAttr "style" li.style ++ outAttrs li.attrs).map rAttr

/-- **A `span` start tag under the decoder.** -/
theorem span_fields (li : LItem) (h : runW li = true) :
    ref? (spanAttrs li) "style" = some li.style ∧ styling (spanAttrs li) = some (ttmlAttrsOf li.attrs) ∧
    nlAttr (spanAttrs li) = false := by
  simp only [runW, Bool.and_eq_true] at h
  obtain ⟨⟨_, hst⟩, hat⟩ := h
  have hz : zCanon li.attrs = true := by
    simp only [attrsW, Bool.and_eq_true] at hat; exact hat.1
  have e : spanAttrs li = refE "style" li.style ++ outR li.attrs := by
    unfold spanAttrs
    rw [map_append, map_optAttr_style]; rfl
  rw [e]
  refine ⟨?_, styling_written _ li.attrs (plain_refE _ _ style_ne_xmlns notRow_style) hz, ?_⟩
  · have := ref_opt (A := refE "style" li.style ++ outR li.attrs) (name := "style") (r := li.style) (by
      rw [vals_append, vals_refE _ _ _ style_ne_xmlns, if_pos rfl, vals_outR_other _ notRow_style]
      simp)
    rw [this, refW_norm hst]
  · rw [nlAttr_append, nlAttr_refE _ _ hst, nlAttr_outR _ hat]; rfl

/-! ### `tt` -/

/-- the attributes of `<tt>`, resolved -/
def rootR (m : Attrs) : List XAttr := (TTMLDoc.rootAttrs m).map rAttr

theorem rootR_eq (m : Attrs) :
    rootR m = [([], "xmlns".toList, "http://www.w3.org/ns/ttml".toList)] ++
      (match normRef (langOut m) with | some v => [(nsXML, "lang".toList, v)] | none => []) ++
      [("xmlns".toList, "ttm".toList, "http://www.w3.org/ns/ttml#metadata".toList),
       ("xmlns".toList, "tts".toList, "http://www.w3.org/ns/ttml#styling".toList)] := by
  unfold rootR TTMLDoc.rootAttrs
  rw [map_append, map_append, optAttr_norm]
  simp only [map_cons, map_nil, at_xmlns, at_xmlnsttm, at_xmlnstts]
  cases normRef (langOut m) with
  | none => rfl
  | some v => simp only [map_cons, map_nil, at_xmllang]

theorem isDecl_xmlns0 (v : Str) : isDecl ([], "xmlns".toList, v) = true := by
  simp [isDecl]

theorem isDecl_xmlns1 (l v : Str) : isDecl ("xmlns".toList, l, v) = true := by
  simp [isDecl]

/-- the language code the writer puts on `<tt>` holds no line feed -/
theorem langOut_noNL (m : Attrs) {v : Str} (h : normRef (langOut m) = some v) : hasNL v = false := by
  have key : ∀ p ∈ languages, hasNL p.1 = false := by decide
  unfold langOut at h
  cases hk : kvGet m "Language" with
  | none => simp [hk, normRef] at h
  | some l =>
    simp only [hk] at h
    cases hf : languages.find? (fun p => p.2 = l) with
    | none => simp [hf, normRef] at h
    | some p =>
      simp only [hf, Option.map_some] at h
      have := key p (List.mem_of_find?_eq_some hf)
      cases hp1 : p.1 with
      | nil => simp [hp1, normRef] at h
      | cons c cs =>
        rw [hp1] at h this
        simp [normRef] at h
        rw [← h]; exact this

/-- **The `tt` start tag under the decoder**: no frame rate, no tick rate, the language code if any. -/
theorem root_fields (m : Attrs) :
    natAttr (rootR m) "frameRate" = some 0 ∧ natAttr (rootR m) "tickRate" = some 0 ∧
    attr? (rootR m) "lang" = (normRef (langOut m)).map some ∧ nlAttr (rootR m) = false := by
  have hv : ∀ nm : String, vals (rootR m) nm =
      (match normRef (langOut m) with | some v => if "lang".toList = nm.toList then [v] else [] | none => []) := by
    intro nm
    rw [rootR_eq, vals_append, vals_append, vals_cons_miss _ _ _ (Or.inl (isDecl_xmlns0 _)), vals_nil,
      vals_cons_miss _ _ _ (Or.inl (isDecl_xmlns1 _ _)), vals_cons_miss _ _ _ (Or.inl (isDecl_xmlns1 _ _)), vals_nil]
    cases normRef (langOut m) with
    | none => rfl
    | some v =>
      simp only [nil_append, append_nil]
      rw [vals_single _ _ (isDecl_xml _ _)]
  have hfr : vals (rootR m) "frameRate" = [] := by
    rw [hv]; cases normRef (langOut m) <;> simp +decide
  have htr : vals (rootR m) "tickRate" = [] := by
    rw [hv]; cases normRef (langOut m) <;> simp +decide
  refine ⟨?_, ?_, ?_, ?_⟩
  · unfold natAttr; rw [attr_none hfr]
  · unfold natAttr; rw [attr_none htr]
  · apply attr_opt
    rw [hv]
    cases normRef (langOut m) with
    | none => rfl
    | some v => simp
  · rw [rootR_eq, nlAttr_append, nlAttr_append]
    have e1 : nlAttr [(([] : Str), "xmlns".toList, "http://www.w3.org/ns/ttml".toList)] = false := by decide
    have e2 : nlAttr [("xmlns".toList, "ttm".toList, "http://www.w3.org/ns/ttml#metadata".toList),
       ("xmlns".toList, "tts".toList, "http://www.w3.org/ns/ttml#styling".toList)] = false := by decide
    rw [e1, e2]
    cases hr : normRef (langOut m) with
    | none => rfl
    | some v =>
      simp only [nlAttr_single, langOut_noNL m hr]
      rfl

end TTMLW2
end Astisub
