import Astisub.Lemmas.VTT3DocCue

/-!
# Lemmas/VTT3Doc — the read clause with inline timestamps, document level (3): every block, all the
blocks, the whole document — for a cue-text layer `TextLayer2`, with `Driver.zeroTs` on the denotation
-/

set_option linter.unusedSimpArgs false

namespace Astisub
namespace VTTRead
open Go Spec.VTT
open VTT (St step run Block)

/-- the reader's answer on some lines holds the decoder's state `ds'` up to blank runs and zero
    timestamps (or is not covered by the model) -/
def GoodRun2 (r : SRT.Res St) (ds' : DocSt) : Prop := r = .unmodelled ∨ ∃ ms', r = .ok ms' ∧ R2 ds' ms'

theorem goodRun2_of_unmodelled {ds : DocSt} : GoodRun2 .unmodelled ds := Or.inl rfl

theorem sim_block2 {ok : Str → Bool} (T : TextLayer2 ok) {ds ds' : DocSt} {ms : St} (hR : R2 ds ms) (hB : Between ms)
    (b : List Str) (hl : ∀ l ∈ b, BLine l) (hok : blockOKWith ok b = true) (h : block ds b = some ds') :
    GoodRun2 (run ms (b.map some)) ds' := by
  cases b with
  | nil =>
    simp only [block, Option.some.injEq] at h
    subst h
    exact Or.inr ⟨ms, rfl, hR⟩
  | cons first rest =>
    unfold blockOKWith at hok
    simp only at hok
    cases hn : noteLine first with
    | some c =>
      rw [hn] at hok
      simp only [Option.isSome_some, if_true, List.all_eq_true] at hok
      obtain ⟨ms', h1, h2⟩ := sim_note2 hR hB first rest c hl hok hn h
      exact Or.inr ⟨ms', h1, h2⟩
    | none =>
      rw [hn] at hok
      simp only [Option.isSome_none, Bool.false_eq_true, if_false, Bool.and_eq_true, List.all_eq_true] at hok
      by_cases hs : first = "STYLE".toList
      · subst hs
        obtain ⟨ms', h1, h2⟩ := sim_style2 hR hB rest hl h
        exact Or.inr ⟨ms', h1, h2⟩
      · rw [block_cases ds first rest hn hs] at h
        by_cases hm : (first :: rest).all metaT = true
        · rw [if_pos hm] at h
          rcases sim_meta2 (first :: rest) hR hB hl hok.1 (by simpa using hm) h with h1 | ⟨ms', h1, h2, _⟩
          · exact Or.inl h1
          · exact Or.inr ⟨ms', h1, h2⟩
        · rw [if_neg hm] at h
          rcases sim_cue2 T hR hB (first :: rest) hl hok.2 h with h1 | ⟨ms', h1, h2⟩
          · exact Or.inl h1
          · exact Or.inr ⟨ms', h1, h2⟩

theorem sim_go2 {ok : Str → Bool} (T : TextLayer2 ok) (lines : List Str) :
    ∀ (cur : List Str) (ds ds' : DocSt) (ms0 : St), R2 ds ms0 → Between ms0 → (∀ l ∈ cur, BLine l) →
      (∀ b ∈ blocks.go lines cur, blockOKWith ok b = true) →
      (blocks.go lines cur).foldl F (some ds) = some ds' →
      GoodRun2 (run ms0 ((cur.reverse ++ lines).map some)) ds' := by
  induction lines with
  | nil =>
    intro cur ds ds' ms0 hR hB hcur hok h
    rw [go_nil] at h hok
    simp only [List.append_nil]
    by_cases hc : cur.isEmpty = true
    · rw [if_pos hc] at h
      have : cur = [] := by simpa using hc
      subst this
      simp only [List.foldl, Option.some.injEq] at h
      subst h
      exact Or.inr ⟨ms0, rfl, hR⟩
    · rw [if_neg hc] at h hok
      simp only [List.foldl, F] at h
      exact sim_block2 T hR hB cur.reverse (fun l hl => hcur l (List.mem_reverse.mp hl)) (hok _ (by simp)) h
  | cons l ls ih =>
    intro cur ds ds' ms0 hR hB hcur hok h
    rw [go_cons] at h hok
    by_cases hb : trimSpace l = []
    · rw [if_pos hb] at h hok
      by_cases hc : cur.isEmpty = true
      · rw [if_pos hc] at h hok
        have : cur = [] := by simpa using hc
        subst this
        obtain ⟨ms1, hs, hR1, hB1⟩ := step_blank_R2 hR l hb
        simp only [List.reverse_nil, List.nil_append, List.map_cons, run]
        rw [hs]
        have := ih [] ds ds' ms1 hR1 hB1 (by intro x hx; cases hx) hok h
        simpa using this
      · rw [if_neg hc] at h hok
        simp only [List.foldl] at h
        cases hblk : F (some ds) cur.reverse with
        | none => rw [hblk, foldl_F_none] at h; cases h
        | some ds1 =>
          rw [hblk] at h
          simp only [F] at hblk
          have hsim := sim_block2 T hR hB cur.reverse (fun x hx => hcur x (List.mem_reverse.mp hx)) (hok _ (by simp)) hblk
          rw [List.map_append, run_append]
          rcases hsim with hu | ⟨ms1, hrun, hR1⟩
          · rw [hu]; exact goodRun2_of_unmodelled
          · rw [hrun]
            simp only [List.map_cons, run]
            obtain ⟨ms2, hs, hR2, hB2⟩ := step_blank_R2 hR1 l hb
            rw [hs]
            have := ih [] ds1 ds' ms2 hR2 hB2 (by intro x hx; cases hx) (fun b hb' => hok b (by simp [hb'])) h
            simpa using this
    · rw [if_neg hb] at h hok
      have := ih (trimSpace l :: cur) ds ds' ms0 hR hB
        (by
          intro x hx
          rcases List.mem_cons.mp hx with e | e
          · subst e; exact ⟨trimSpace_idem l, hb⟩
          · exact hcur x e) hok h
      rw [List.map_append, List.map_cons, run_trim_mid]
      simpa [List.reverse_cons, List.append_assoc] using this

theorem sim_lines2 {ok : Str → Bool} (T : TextLayer2 ok) (rest : List Str) (ds' : DocSt)
    (hok : ∀ b ∈ bsOf rest, blockOKWith ok b = true) (h : (bsOf rest).foldl F (some {}) = some ds') :
    GoodRun2 (run {} (rest.map some)) ds' := by
  unfold bsOf at h hok
  by_cases he : (rest.takeWhile metaLine).isEmpty = true
  · rw [if_pos he] at h hok
    have e0 : rest.takeWhile metaLine = [] := by simpa using he
    rw [e0] at h hok
    simp only [List.nil_append, List.length_nil, List.drop_zero, blocks_eq] at h hok
    have := sim_go2 T rest [] {} ds' {} R2_init between_init (by intro x hx; cases hx) hok h
    simpa using this
  · rw [if_neg he] at h hok
    generalize hhdr : rest.takeWhile metaLine = hdr at h hok he
    have hsplit : hdr ++ rest.drop hdr.length = rest := by rw [← hhdr]; exact takeWhile_append_drop' _ _
    generalize rest.drop hdr.length = rest' at h hok hsplit
    have hmeta : ∀ l ∈ hdr.map trimSpace, metaT l = true := by
      intro l hl
      obtain ⟨x, hx, rfl⟩ := List.mem_map.mp hl
      have := (mem_takeWhile' metaLine rest x (by rw [hhdr]; exact hx)).1
      exact this
    have hbl : ∀ l ∈ hdr.map trimSpace, BLine l := by
      intro l hl
      have hm := hmeta l hl
      obtain ⟨x, _, rfl⟩ := List.mem_map.mp hl
      refine ⟨trimSpace_idem x, ?_⟩
      unfold metaT at hm
      rcases Bool.or_eq_true _ _ |>.mp hm with h1 | h1
      · exact (prefix_tests_R h1).2.2.2
      · exact (prefix_tests_X h1).2.2.2.1
    cases hB : hdr.map trimSpace with
    | nil =>
      have : hdr = [] := by simpa using hB
      rw [this] at he; simp at he
    | cons first more =>
      rw [hB] at h hok hmeta hbl
      simp only [List.cons_append, List.nil_append, List.foldl] at h
      have hm1 := hmeta first (by simp)
      have hfacts : noteLine first = none ∧ first ≠ "STYLE".toList := by
        unfold metaT at hm1
        rcases Bool.or_eq_true _ _ |>.mp hm1 with h1 | h1
        · exact ⟨(prefix_tests_R h1).2.2.1, (prefix_tests_R h1).2.1⟩
        · exact ⟨(prefix_tests_X h1).2.2.1, (prefix_tests_X h1).2.1⟩
      cases hblk : F (some {}) (first :: more) with
      | none => rw [hblk, foldl_F_none] at h; cases h
      | some ds1 =>
        rw [hblk] at h
        simp only [F] at hblk
        rw [block_cases _ first more hfacts.1 hfacts.2] at hblk
        have hall : (first :: more).all metaT = true := by
          rw [List.all_eq_true]; exact hmeta
        rw [if_pos hall] at hblk
        have hokb := hok (first :: more) (by simp)
        unfold blockOKWith at hokb
        simp only [hfacts.1, Option.isSome_none, Bool.false_eq_true, if_false, Bool.and_eq_true, List.all_eq_true] at hokb
        have hsim := sim_meta2 (first :: more) R2_init between_init hbl hokb.1 hmeta hblk
        rw [← hsplit, List.map_append, run_append, run_trim, hB]
        rcases hsim with hu | ⟨ms1, hrun, hR1, hB1⟩
        · rw [hu]; exact goodRun2_of_unmodelled
        · rw [hrun]
          simp only
          have := sim_go2 T rest' [] ds1 ds' ms1 hR1 hB1 (by intro x hx; cases hx)
            (fun b hb => hok b (by simp [blocks_eq, hb])) (by simpa [blocks_eq] using h)
          simpa using this

/-! ### the whole document -/

/-- the final view: the phantom state under `norm` is the denotation under `zeroTs` and `norm` -/
theorem view_result2 {ds' : DocSt} {ms' : St} (hR : R2 ds' ms') (hD : D2 ds') :
    (Driver.vttView (VTT.result ms')).map norm = some (norm (Driver.zeroTs (docOf ds'))) := by
  obtain ⟨cs, hR1, hc⟩ := hR
  have hst : ms'.styles = ds'.styles := hR1.styles
  have hts : ms'.tsmap = ds'.tsmap := hR1.tsmap
  have hrg : ms'.regions.map regionView = ds'.regions := hR1.regions
  have := view_result ms' cs ds'.regions hR1.cues hrg hR1.seen
    (by rw [hst]; exact hD.1) (by rw [hts]; exact hD.2)
  rw [this, hst, hts, norm_eq, norm_eq, zeroTs_eq]
  simp only [docOf]
  rw [hc]

/-- **The read clause on character lines, with inline timestamps.** -/
theorem read_decode_chars2 {ok : Str → Bool} (T : TextLayer2 ok) (text : Str) (g : GDoc)
    (hin : InClassWith ok text = true) (h : decode text = some g) :
    Good2 (VTT.read ((splitLines text []).map some)) g := by
  unfold Good2
  rw [decode_eq] at h
  unfold InClassWith at hin
  cases hdb : docBlocks text with
  | none => rw [hdb] at h; cases h
  | some bs =>
    rw [hdb] at h hin
    simp only at h hin
    cases hfb : foldBlocks bs with
    | none => rw [hfb] at h; cases h
    | some ds' =>
      rw [hfb] at h
      simp only [Option.map_some, Option.some.injEq] at h
      subst h
      unfold docBlocks at hdb
      cases hsl : splitLines (stripBom text) [] with
      | nil => rw [hsl] at hdb; cases hdb
      | cons first rest =>
        rw [hsl] at hdb
        simp only at hdb
        cases hoh : okHeader first with
        | false => rw [hoh] at hdb; simp at hdb
        | true =>
          rw [hoh] at hdb
          simp only [Bool.not_true, Bool.false_eq_true, if_false, Option.some.injEq] at hdb
          have hbs : bs = bsOf rest := hdb.symm
          subst hbs
          rw [foldBlocks_eq] at hfb
          have hokb : ∀ b ∈ bsOf rest, blockOKWith ok b = true := by
            intro b hb; exact List.all_eq_true.mp hin b hb
          have hsim := sim_lines2 T rest ds' hokb hfb
          have hrest : ∀ l ∈ rest, '\n' ∉ l := by
            intro l hl
            have := splitLines_no_eol (stripBom text) l (by rw [hsl]; simp [hl])
            exact this.1
          have hD := foldl_F_D2 (bsOf rest) D2_init (bsOf_no_lf rest hrest) hfb
          unfold VTT.read
          rw [skipHeader_of_okHeader text first rest hsl hoh]
          simp only
          rcases hsim with hu | ⟨ms', hrun, hR⟩
          · left; rw [hu]
          · right
            rw [hrun]
            exact ⟨_, rfl, view_result2 hR hD⟩

/-- **The read clause on bytes, with inline timestamps**, as the `vtt.read` case of the driver
    evaluates it -/
theorem read_decode_bytes2 {ok : Str → Bool} (T : TextLayer2 ok) (doc : List UInt8) (text : Str) (g : GDoc)
    (hdec : Driver.decodeLine doc = some text)
    (hin : InClassWith ok text = true) (h : decode text = some g) :
    Good2 (VTT.read (Driver.docLines doc)) g := by
  rw [docLines_of_decodeLine doc text hdec]
  exact read_decode_chars2 T text g hin h

end VTTRead
end Astisub
