import Astisub.Lemmas.VTT3DocNorm

/-!
# Lemmas/VTT3DocCue — the read clause with inline timestamps, document level (2): cue blocks
for a cue-text layer `TextLayer2`
-/

set_option linter.unusedSimpArgs false

namespace Astisub
namespace VTTRead
open Go Spec.VTT
open VTT (St step run Block)

/-! ### the text lines of a cue -/

/-- the reader's line for the runs the cue-text layer names -/
def lineOf2 (g : GLine) : Line := { voice := g.voice, items := g.runs.map runItem2 }

def keptLines2 (rl : List GLine) : List Line := (rl.filter fun g => !g.runs.isEmpty).map lineOf2

theorem keptLines2_cons_nil (v : Str) (rl : List GLine) :
    keptLines2 ({ voice := v, runs := [] } :: rl) = keptLines2 rl := by
  simp [keptLines2, List.filter]

theorem keptLines2_cons_cons (v : Str) (r : GRun) (rs : List GRun) (rl : List GLine) :
    keptLines2 ({ voice := v, runs := r :: rs } :: rl) =
      { voice := v, items := (r :: rs).map runItem2 } :: keptLines2 rl := by
  simp [keptLines2, List.filter, lineOf2]

/-- the lines `rl` the layer names (raw), against the decoder's lines `glines` -/
def LinesRel (rl glines : List GLine) : Prop :=
  (∀ g ∈ rl, ∀ r ∈ g.runs, runView (runItem2 r) = some (zeroTsRun r)) ∧
  (rl.map zeroTsLine).map normLine = (glines.map zeroTsLine).map normLine

theorem linesRel_nil : LinesRel [] [] := ⟨fun g hg => (by cases hg), rfl⟩

theorem linesRel_cons (v : Str) (rs runs : List GRun) (rl grest : List GLine)
    (hf : rs.filter nb = runs.filter nb) (hv : ∀ r ∈ rs, runView (runItem2 r) = some (zeroTsRun r))
    (h : LinesRel rl grest) :
    LinesRel ({ voice := v, runs := rs } :: rl) ({ voice := v, runs := runs } :: grest) := by
  refine ⟨?_, ?_⟩
  · intro g hgm r hr
    rcases List.mem_cons.mp hgm with e | e
    · subst e; exact hv r hr
    · exact h.1 g e r hr
  · simp only [List.map_cons]
    rw [h.2]
    congr 1
    exact normLine_phantom v rs runs hf

theorem run_text_lines2 {ok : Str → Bool} (T : TextLayer2 ok) (text : List Str) :
    ∀ (stack : List GTag) (glines : List GLine) (st : St),
      st.block = .text → st.tags = stack.map modelTag → T.good stack →
      (∀ l ∈ text, BLine l ∧ ok l = true ∧ contains Spec.VTT.arrow l = false) →
      cueText text stack = some glines →
      run st (text.map some) = .unmodelled ∨
      ∃ (rl : List GLine) (tags' : List VTT.Tag), LinesRel rl glines ∧
        run st (text.map some) =
         .ok { st with tags := tags', cur := { st.cur with lines := st.cur.lines ++ keptLines2 rl } } := by
  induction text with
  | nil =>
    intro stack glines st hb ht hg hl h
    simp only [cueText, Option.some.injEq] at h
    subst h
    right
    refine ⟨[], st.tags, linesRel_nil, ?_⟩
    simp [run, keptLines2]
  | cons l ls ih =>
    intro stack glines st hb ht hg hl h
    obtain ⟨hbl, hokl, hal⟩ := hl l (by simp)
    unfold cueText at h
    cases htl : textLine (l.length + 2) l { stack := stack } with
    | none => rw [htl] at h; cases h
    | some tst =>
      rw [htl] at h
      simp only at h
      cases hrest : cueText ls tst.stack with
      | none => rw [hrest] at h; cases h
      | some grest =>
        rw [hrest] at h
        simp only [Option.some.injEq] at h
        subst h
        obtain ⟨hg', hp⟩ := T.agree l stack tst hokl hg htl
        simp only [List.map_cons, run]
        rw [step_text st l hbl.1 hbl.2 hb (by rw [arrow_eq]; exact hal), ht]
        rcases hp with hp | ⟨rs, hp, hfil, hview⟩
        · left; rw [hp]
        · rw [hp]
          simp only
          have ih' := ih tst.stack grest
            { st with tags := tst.stack.map modelTag,
                      cur := if (rs.map runItem2).isEmpty then st.cur
                             else { st.cur with lines := st.cur.lines ++ [{ voice := tst.voice.getD [], items := rs.map runItem2 }] } }
            hb rfl hg' (fun x hx => hl x (by simp [hx])) hrest
          rcases ih' with ih' | ⟨rl, tags', hrel, ih'⟩
          · left; exact ih'
          · right
            refine ⟨{ voice := tst.voice.getD [], runs := rs } :: rl, tags',
              linesRel_cons _ rs tst.runs rl grest hfil hview hrel, ?_⟩
            rw [ih']
            congr 1
            cases hre : rs with
            | nil => rw [keptLines2_cons_nil]; simp
            | cons r0 rs' => rw [keptLines2_cons_cons]; simp [List.append_assoc]

/-! ### the view of the cue the reader builds -/

theorem lineView_lineOf2 (g : GLine) (h : ∀ r ∈ g.runs, runView (runItem2 r) = some (zeroTsRun r)) :
    lineView (lineOf2 g) = some (zeroTsLine g) := by
  unfold lineView lineOf2
  simp only
  have : mapM runView (g.runs.map runItem2) = some (g.runs.map zeroTsRun) := by
    generalize g.runs = rs at h
    induction rs with
    | nil => rfl
    | cons r rs ih =>
      simp only [List.map_cons, mapM]
      rw [h r (by simp), ih (fun y hy => h y (by simp [hy]))]
  rw [this]
  rfl

theorem filter_nonempty_zero (rl : List GLine) :
    (rl.map zeroTsLine).filter (fun g => !g.runs.isEmpty) = (rl.filter fun g => !g.runs.isEmpty).map zeroTsLine := by
  induction rl with
  | nil => rfl
  | cons g rl ih =>
    have e : (!(zeroTsLine g).runs.isEmpty) = (!g.runs.isEmpty) := by
      unfold zeroTsLine
      cases g.runs <;> rfl
    simp only [List.map_cons, List.filter_cons, e]
    by_cases h : (!g.runs.isEmpty) = true
    · rw [if_pos h, if_pos h, List.map_cons, ih]
    · rw [if_neg h, if_neg h, ih]

theorem mapM_map_some2 {α β γ} (f : α → Option β) (g : γ → α) (k : γ → β) : ∀ (l : List γ),
    (∀ x ∈ l, f (g x) = some (k x)) → mapM f (l.map g) = some (l.map k) := by
  intro l
  induction l with
  | nil => intro _; rfl
  | cons x xs ih =>
    intro h
    simp only [List.map_cons, mapM]
    rw [h x (by simp), ih (fun y hy => h y (by simp [hy]))]

theorem mapM_keptLines2 (rl : List GLine)
    (h : ∀ g ∈ rl, ∀ r ∈ g.runs, runView (runItem2 r) = some (zeroTsRun r)) :
    mapM lineView (keptLines2 rl) = some ((rl.map zeroTsLine).filter fun g => !g.runs.isEmpty) := by
  unfold keptLines2
  rw [filter_nonempty_zero]
  apply mapM_map_some2
  intro g hg
  exact lineView_lineOf2 g (h g (List.mem_filter.mp hg).1)

/-- `cueView_built` for any kept lines with a known view -/
theorem cueView_built2 (idx : Int) (s e : Nat) (b : VTT.SetAcc) (a : Settings) (hrel : setRel a b)
    (comments : List Str) (kl : List Line) (gl : List GLine)
    (hv : mapM lineView kl = some (gl.filter fun g => !g.runs.isEmpty)) :
    cueView { index := idx, startAt := (s : Int) * 1000000, endAt := (e : Int) * 1000000, region := b.region,
              comments := comments, lines := kl,
              attrs := some (mkAttrs [("WebVTTAlign", optStr b.align), ("WebVTTLine", optStr b.line),
                ("WebVTTPosition", optStr b.position), ("WebVTTSize", optStr b.size),
                ("WebVTTVertical", optStr b.vertical)]) } =
      some (slim { id := idx, comments := comments, startMs := s, endMs := e, align := a.align, line := a.line,
                   position := a.position, size := a.size, vertical := a.vertical, region := a.region, lines := gl }) := by
  obtain ⟨r1, r2, r3, r4, r5, r6⟩ := hrel
  unfold cueView
  have g1 : ¬ (((s : Int) * 1000000 % 1000000 ≠ 0 || (e : Int) * 1000000 % 1000000 ≠ 0 ||
      (s : Int) * 1000000 < 0 || (e : Int) * 1000000 < 0) = true) := by
    simp only [Bool.or_eq_true, decide_eq_true_eq, not_or]
    omega
  simp only
  rw [if_neg g1, hv]
  simp only
  rw [attrStr_cue _ _ _ _ _ "WebVTTAlign" b.align (by simp), attrStr_cue _ _ _ _ _ "WebVTTLine" b.line (by simp),
    attrStr_cue _ _ _ _ _ "WebVTTPosition" b.position (by simp), attrStr_cue _ _ _ _ _ "WebVTTSize" b.size (by simp),
    attrStr_cue _ _ _ _ _ "WebVTTVertical" b.vertical (by simp)]
  have e1 : ((s : Int) * 1000000 / 1000000).toNat = s := by
    rw [Int.mul_ediv_cancel _ (by decide)]; simp
  have e2 : ((e : Int) * 1000000 / 1000000).toNat = e := by
    rw [Int.mul_ediv_cancel _ (by decide)]; simp
  rw [e1, e2, r1, r2, r3, r4, r5, r6]
  rfl

/-- the phantom cue has the normal form of the decoder's cue with its zero timestamps erased -/
theorem normCue_phantom (ds : DocSt) (id : Int) (s en : Nat) (a : Settings) (pl lines : List GLine)
    (h : pl.map normLine = (lines.map zeroTsLine).map normLine) :
    normCue (mkCue ds id s en a pl) = normCue (zeroTsCue (mkCue ds id s en a lines)) := by
  unfold normCue zeroTsCue mkCue
  simp only
  rw [h]

/-! ### from the timing line to the end of the block -/

theorem sim_cue_core2 {ok : Str → Bool} (T : TextLayer2 ok) {ds : DocSt} {ms0 : St} (cs : List GCue) (id : Int)
    (hcues : mapM cueView (VTT.flush ms0) = some (cs.map slim))
    (hregs : ms0.regions.map regionView = ds.regions) (hcomm : ms0.comments = ds.comments)
    (hidx : ms0.index = id) (hblock : ms0.block = .none) (htags : ms0.tags = [])
    (timing : Str) (text : List Str) (l r e : Str) (sets : List Str) (s en : Nat) (a : Settings) (lines : List GLine)
    (hbt : BLine timing) (hbx : ∀ x ∈ text, BLine x ∧ ok x = true)
    (hany : text.any (contains Spec.VTT.arrow) = false)
    (hat : contains Spec.VTT.arrow timing = true)
    (hsp : splitOn Spec.VTT.arrow timing = [l, r]) (hf : fields r = e :: sets)
    (ht1 : timeMs l = some s) (ht2 : timeMs e = some en) (hset : cueSettings ds.regions sets {} = some a)
    (htext : cueText text [] = some lines) :
    run ms0 ((timing :: text).map some) = .unmodelled ∨
    ∃ (ms' : St) (pl : List GLine), run ms0 ((timing :: text).map some) = .ok ms' ∧
      mapM cueView (VTT.flush ms') = some ((cs ++ [mkCue ds id s en a pl]).map slim) ∧
      pl.map normLine = (lines.map zeroTsLine).map normLine ∧
      ms'.regions = ms0.regions ∧ ms'.styles = ms0.styles ∧ ms'.styleSeen = ms0.styleSeen ∧ ms'.tsmap = ms0.tsmap ∧
      ms'.comments = [] ∧ ms'.index = 0 ∧ ms'.curListed = true := by
  obtain ⟨c, tl, hct, hdig⟩ := timing_head_digit hbt hsp ht1
  obtain ⟨d1, d2, d3, d4, _⟩ := VTT.digit_line_tests c tl hdig
  rw [← hct] at d1 d2 d3 d4
  have hnt : noteTest timing = false := by
    unfold noteTest
    simp only [Bool.or_eq_false_iff, decide_eq_false_iff_not]
    exact ⟨by rw [d1]; exact fun x => x, d2⟩
  obtain ⟨b, hb1, hrel⟩ := settings_of_cueSettings ds.regions ms0.regions hregs sets {} {} a
    ⟨rfl, rfl, rfl, rfl, rfl, rfl⟩ hset
  simp only [List.map_cons, run]
  rw [step_timing ms0 timing l r e sets [] hbt.1 hbt.2 hblock hnt d3 d4 (by rw [arrow_eq]; exact hat)
    (by rw [arrow_eq]; exact hsp) hf]
  by_cases hsm : (!VTT.smallNumbers l || !VTT.smallNumbers e) = true
  · left; rw [if_pos hsm]
  · rw [if_neg hsm, parseVTT_of_timeMs l s ht1, parseVTT_of_timeMs e en ht2]
    simp only [hb1]
    have htx : ∀ x ∈ text, BLine x ∧ ok x = true ∧ contains Spec.VTT.arrow x = false := by
      intro x hx
      refine ⟨(hbx x hx).1, (hbx x hx).2, ?_⟩
      have := List.any_eq_false.mp hany x hx
      simpa using this
    have hrun := run_text_lines2 T text [] lines
      { ms0 with done := VTT.flush ms0,
                 cur := { index := ms0.index, startAt := (s : Int) * 1000000, endAt := (en : Int) * 1000000,
                          region := b.region, comments := ms0.comments, lines := [],
                          attrs := some (mkAttrs [("WebVTTAlign", optStr b.align), ("WebVTTLine", optStr b.line),
                            ("WebVTTPosition", optStr b.position), ("WebVTTSize", optStr b.size),
                            ("WebVTTVertical", optStr b.vertical)]) },
                 curListed := true, block := .text, index := 0, comments := [] }
      rfl (by simpa using htags) T.good_nil htx htext
    rcases hrun with hrun | ⟨rl, tags', hrel2, hrun⟩
    · left; exact hrun
    · right
      refine ⟨_, rl.map zeroTsLine, hrun, ?_, hrel2.2, rfl, rfl, rfl, rfl, rfl, rfl, rfl⟩
      simp only [List.nil_append]
      show mapM cueView (VTT.flush ms0 ++ [_]) = _
      rw [List.map_append]
      apply mapM_append_one _ _ _ _ _ hcues
      rw [hidx, hcomm]
      exact cueView_built2 id s en b a hrel ds.comments (keptLines2 rl) (rl.map zeroTsLine)
        (mapM_keptLines2 rl hrel2.1)

/-- the new state of `R2` after a cue -/
theorem R2_after_cue {ds : DocSt} {ms ms' : St} (cs : List GCue) (hR : R (swapC cs ds) ms)
    (hc : cs.map normCue = (ds.cues.map zeroTsCue).map normCue)
    (id : Int) (s en : Nat) (a : Settings) (pl lines : List GLine)
    (h1 : mapM cueView (VTT.flush ms') = some ((cs ++ [mkCue ds id s en a pl]).map slim))
    (hpl : pl.map normLine = (lines.map zeroTsLine).map normLine)
    (h2 : ms'.regions = ms.regions) (h3 : ms'.styles = ms.styles) (h4 : ms'.styleSeen = ms.styleSeen)
    (h5 : ms'.tsmap = ms.tsmap) (h6 : ms'.comments = []) (h7 : ms'.index = 0) (h8 : ms'.curListed = true) :
    R2 { ds with comments := [], cues := ds.cues ++ [mkCue ds id s en a lines] } ms' := by
  refine ⟨cs ++ [mkCue ds id s en a pl], ⟨h1, by rw [h2]; exact hR.regions, by rw [h3]; exact hR.styles, ?_, ?_,
    by rw [h5]; exact hR.tsmap, h6, h7, ?_⟩, ?_⟩
  · intro hs; rw [h3]; apply hR.seen; rw [← h4]; exact hs
  · intro x hx; rw [h3] at hx; exact hR.closed x hx
  · intro hcl; rw [h8] at hcl; cases hcl
  · simp only [List.map_append, List.map_cons, List.map_nil]
    rw [hc, normCue_phantom ds id s en a pl lines hpl]

/-- a cue block -/
theorem sim_cue2 {ok : Str → Bool} (T : TextLayer2 ok) {ds ds' : DocSt} {ms : St} (hR : R2 ds ms) (hB : Between ms)
    (b : List Str) (hl : ∀ l ∈ b, BLine l) (hok : ∀ l ∈ cueTextOf b, ok l = true)
    (h : cueBlock ds b = some ds') :
    run ms (b.map some) = .unmodelled ∨ ∃ ms', run ms (b.map some) = .ok ms' ∧ R2 ds' ms' := by
  obtain ⟨cs, hR, hc⟩ := hR
  rw [cueBlock_eq] at h
  cases hp : partsOf b with
  | none => rw [hp] at h; cases h
  | some pr =>
    obtain ⟨id, timing, text⟩ := pr
    rw [hp] at h
    simp only at h
    obtain ⟨hat, hshape⟩ := partsOf_inv hp
    obtain ⟨l, r, e, sets, s, en, a, lines, hany, hsp, hf, ht1, ht2, hset, htext, hds⟩ := cueCore_inv h
    subst hds
    rcases hshape with ⟨hb, hid⟩ | ⟨l1, hb, ha1, hcid⟩
    · subst hb; subst hid
      rw [cueTextOf_one _ _ hat] at hok
      have hcore := sim_cue_core2 T (ds := ds) cs 0 hR.cues hR.regions hR.comments hR.index hB.1 hB.2 timing text l r e sets s en a lines
        (hl timing (by simp)) (fun x hx => ⟨hl x (by simp [hx]), hok x hx⟩) hany hat hsp hf ht1 ht2 hset htext
      rcases hcore with hc' | ⟨ms', pl, hrun, h1, hpl, h2, h3, h4, h5, h6, h7, h8⟩
      · left; exact hc'
      · right
        exact ⟨ms', hrun, R2_after_cue cs hR hc 0 s en a pl lines h1 hpl h2 h3 h4 h5 h6 h7 h8⟩
    · subst hb
      rw [cueTextOf_two _ _ _ ha1] at hok
      obtain ⟨hop, hal⟩ := cueId_facts hcid
      obtain ⟨o1, o2, o3, o4⟩ := opener_false hop
      have hb1 := hl l1 (by simp)
      simp only [List.map_cons, run]
      rw [step_id ms l1 hb1.1 hb1.2 hB.1 o1 o3 o2 o4 (by rw [arrow_eq]; exact ha1)]
      simp only
      have hcore := sim_cue_core2 T (ds := ds) (ms0 := { ms with index := atoiLoose l1 }) cs id hR.cues hR.regions hR.comments hal hB.1 hB.2
        timing text l r e sets s en a lines
        (hl timing (by simp)) (fun x hx => ⟨hl x (by simp [hx]), hok x hx⟩) hany hat hsp hf ht1 ht2 hset htext
      simp only [List.map_cons, run] at hcore
      rcases hcore with hc' | ⟨ms', pl, hrun, h1, hpl, h2, h3, h4, h5, h6, h7, h8⟩
      · left; exact hc'
      · right
        exact ⟨ms', hrun, R2_after_cue cs hR hc id s en a pl lines h1 hpl h2 h3 h4 h5 h6 h7 h8⟩

end VTTRead
end Astisub
