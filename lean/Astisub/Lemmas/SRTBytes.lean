import Astisub.Driver.SRT
import Astisub.Lemmas.SRTDoc
import Astisub.Lemmas.Scan

/-!
# Lemmas/SRTBytes — from the bytes of a document to the decoded lines the SubRip reader sees

`Driver.docLines` cuts the bytes of a document into lines the way `bufio.ScanLines` does
(`Go.linesOf`) and decodes each line as UTF-8.  For a text made of lines without CR/LF, each ended
by LF, and encoded as UTF-8 (`Driver.utf8 (unlines ls)`), this gives back exactly the lines:
`docLines_utf8_unlines`.

Ingredients:
* `byteArray_toList`     : `ByteArray.toList` (a loop in core, without lemmas) is `data.toList`;
* `utf8_eq_flatMap`      : `Driver.utf8` is `flatMap String.utf8EncodeChar`, hence a homomorphism;
* `ascii_mem_encodeChar` : a byte < 0x80 in the encoding of a character is that character's code
                           point, so only LF/CR produce the bytes 10/13;
* `linesOf_lf`           : `linesOf (p ++ 10 :: rest) = p :: linesOf rest` when `p` has no CR/LF;
* `decodeLine_utf8`      : decoding the encoding of a text gives the text back.
-/

namespace Astisub
namespace SRTDoc
open Go List

/-! ## `ByteArray.toList` -/

theorem byteArray_toList_loop (d : Array UInt8) (i : Nat) (r : List UInt8) :
    ByteArray.toList.loop ⟨d⟩ i r = r.reverse ++ d.toList.drop i := by
  induction hn : d.size - i using Nat.strongRecOn generalizing i r with
  | _ n ih =>
    rw [ByteArray.toList.loop]
    have hs : (ByteArray.mk d).size = d.size := rfl
    rw [hs]
    split
    · rename_i hlt
      rw [ih (d.size - (i+1)) (by omega) (i+1) _ rfl]
      have hlt' : i < d.toList.length := by simpa using hlt
      rw [List.drop_eq_getElem_cons hlt']
      have hg : (ByteArray.mk d).get! i = d[i]! := rfl
      rw [hg]
      simp [hlt]
    · rename_i hge
      have : d.toList.length ≤ i := by simp; omega
      simp [List.drop_eq_nil_of_le this]

theorem byteArray_toList (bs : ByteArray) : bs.toList = bs.data.toList := by
  cases bs with
  | mk d => simp [ByteArray.toList, byteArray_toList_loop]

/-! ## UTF-8 encoding is a homomorphism -/

theorem utf8_eq_flatMap (s : Str) : Driver.utf8 s = s.flatMap String.utf8EncodeChar := by
  simp [Driver.utf8, byteArray_toList, List.utf8Encode]

theorem utf8_nil : Driver.utf8 [] = [] := by simp [utf8_eq_flatMap]

theorem utf8_append (a b : Str) : Driver.utf8 (a ++ b) = Driver.utf8 a ++ Driver.utf8 b := by
  simp [utf8_eq_flatMap]

theorem utf8_newline : Driver.utf8 ['\n'] = [10] := by
  simp [utf8_eq_flatMap]; decide

/-! ## the bytes 10 and 13 only come from LF and CR -/

/-- a byte below 0x80 in the UTF-8 encoding of a character is the character's code point
    (every byte of a multi-byte sequence is ≥ 0x80) -/
theorem ascii_mem_encodeChar {c : Char} {b : UInt8} (h : b ∈ String.utf8EncodeChar c)
    (hb : b.toNat < 128) : c.val.toNat = b.toNat := by
  unfold String.utf8EncodeChar at h
  simp only at h
  split at h
  · simp only [List.mem_cons, List.not_mem_nil, or_false] at h
    subst h
    simp only [UInt8.toNat_ofNat']
    omega
  · exfalso
    split at h
    · simp only [List.mem_cons, List.not_mem_nil, or_false] at h
      rcases h with h | h <;> (subst h; simp only [UInt8.toNat_ofNat'] at hb; omega)
    · split at h
      · simp only [List.mem_cons, List.not_mem_nil, or_false] at h
        rcases h with h | h | h <;> (subst h; simp only [UInt8.toNat_ofNat'] at hb; omega)
      · simp only [List.mem_cons, List.not_mem_nil, or_false] at h
        rcases h with h | h | h | h <;> (subst h; simp only [UInt8.toNat_ofNat'] at hb; omega)

theorem char_eq_of_toNat {c d : Char} (h : c.val.toNat = d.val.toNat) : c = d :=
  Char.ext (UInt32.toNat_inj.mp h)

theorem lf_mem_encodeChar {c : Char} (h : (10 : UInt8) ∈ String.utf8EncodeChar c) : c = '\n' :=
  char_eq_of_toNat (by rw [ascii_mem_encodeChar h (by decide)]; decide)

theorem cr_mem_encodeChar {c : Char} (h : (13 : UInt8) ∈ String.utf8EncodeChar c) : c = '\r' :=
  char_eq_of_toNat (by rw [ascii_mem_encodeChar h (by decide)]; decide)

/-- the encoding of a text without LF/CR contains neither the byte 10 nor the byte 13 -/
theorem utf8_no_eol (l : Str) (h : '\n' ∉ l ∧ '\r' ∉ l) : ∀ b ∈ Driver.utf8 l, b ≠ 10 ∧ b ≠ 13 := by
  intro b hb
  rw [utf8_eq_flatMap, List.mem_flatMap] at hb
  obtain ⟨c, hc, hbc⟩ := hb
  constructor
  · intro e; subst e
    exact h.1 (lf_mem_encodeChar hbc ▸ hc)
  · intro e; subst e
    exact h.2 (cr_mem_encodeChar hbc ▸ hc)

/-! ## `linesOf` on LF-terminated lines -/

theorem breakEOL_lf (p rest : List UInt8) (hp : ∀ b ∈ p, b ≠ 10 ∧ b ≠ 13) :
    breakEOL (p ++ 10 :: rest) = (p, 10 :: rest) := by
  induction p with
  | nil => simp [breakEOL, isEOL]
  | cons c cs ih =>
    have hc := hp c (by simp)
    have := ih (fun b hb => hp b (by simp [hb]))
    simp [breakEOL, isEOL, hc.1, hc.2, this]

theorem splitLine_lf (p rest : List UInt8) (hp : ∀ b ∈ p, b ≠ 10 ∧ b ≠ 13) :
    splitLine true (p ++ 10 :: rest) true = .tok (p.length + 1) p := by
  unfold splitLine
  rw [breakEOL_lf p rest hp]
  simp

theorem linesOf_nil : linesOf [] = [] := by
  unfold linesOf; rw [drain]; simp [splitLine]

/-- a line without CR/LF followed by LF is the first line; the scan resumes after the LF -/
theorem linesOf_lf (p rest : List UInt8) (hp : ∀ b ∈ p, b ≠ 10 ∧ b ≠ 13) :
    linesOf (p ++ 10 :: rest) = p :: linesOf rest := by
  unfold linesOf
  rw [drain_tok (splitLine_lf p rest hp)]
  simp

/-- the byte lines of the encoded text are the encoded text lines -/
theorem linesOf_utf8_unlines (ls : List Str) (h : ∀ l ∈ ls, '\n' ∉ l ∧ '\r' ∉ l) :
    linesOf (Driver.utf8 (unlines ls)) = ls.map Driver.utf8 := by
  induction ls with
  | nil => simp [unlines, utf8_nil, linesOf_nil]
  | cons l ls ih =>
    have hl := h l (by simp)
    have e : Driver.utf8 (unlines (l :: ls)) = Driver.utf8 l ++ 10 :: Driver.utf8 (unlines ls) := by
      rw [unlines_cons, utf8_append, show '\n' :: unlines ls = ['\n'] ++ unlines ls from rfl,
        utf8_append, utf8_newline]
      rfl
    rw [e, linesOf_lf _ _ (utf8_no_eol l hl), ih (fun l' hl' => h l' (by simp [hl']))]
    simp

/-! ## decoding -/

theorem decodeLine_utf8 (l : Str) : Driver.decodeLine (Driver.utf8 l) = some l := by
  have h1 : ByteArray.mk (Driver.utf8 l).toArray = l.utf8Encode := by
    simp [Driver.utf8, byteArray_toList]
  unfold Driver.decodeLine
  rw [h1, String.fromUTF8?, dif_pos ByteArray.isValidUTF8_utf8Encode]
  have h2 : String.fromUTF8 l.utf8Encode ByteArray.isValidUTF8_utf8Encode = String.ofList l := by
    rw [← String.toByteArray_inj]; simp [String.fromUTF8]
  simp [h2]

/-- **Bytes to lines.**  Encoding the text as UTF-8, cutting the bytes into lines the way
    `bufio.ScanLines` does and decoding each line gives back exactly the text lines. -/
theorem docLines_utf8_unlines (ls : List Str) (h : ∀ l ∈ ls, '\n' ∉ l ∧ '\r' ∉ l) :
    Driver.docLines (Driver.utf8 (unlines ls)) = ls.map some := by
  unfold Driver.docLines
  rw [linesOf_utf8_unlines ls h, List.map_map]
  apply List.map_congr_left
  intro l _
  exact decodeLine_utf8 l

/-- the drivers' "has a line the scanner refuses" is the byte-level predicate of the repaired
    scanner: a line of more than `maxLineSize = 65535` bytes, whatever ends it -/
theorem tooLong_eq_firstLong (doc : List UInt8) : Driver.tooLong doc = Go.firstLong doc := by
  unfold Driver.tooLong Go.firstLong Go.maxLineSize
  congr 1

end SRTDoc
end Astisub
