import Astisub.Lemmas.VTT3WTextG

/-!
# Lemmas/VTT3WText — W2, text part: a written cue-text line against the independent decoder

For a line `l` with `VTT.lineFit l` and the proviso `lineW2 l` (`Lemmas/VTT3WTextD.lean`):

* `textLine_lineBody`: the decoder accepts `VTT.lineBody l`, ends with an empty tag stack and produces no
  run with the timestamp 0 (`Lemmas/VTT3WTextD.lean`);
* `cueText_lineBodies`: the same for the lines of a cue (`Lemmas/VTT3WTextD.lean`);
* `scanOK2_lineBody`, `chunksOK_lineBody`, `lineOK2_lineBody` (here): the line lies in the class
  `VTTRead.lineOK2` of the read theorem (the proof does not look inside `VTTRead.hasTs`);
* extras: `noNbsp_lineBody` (under `nbspFree l`), `hasTs_lineBody` (under `tsFree l`).

The TTMLColor wrapper `<c.color>` does not occur: `runOk` (part of `lineOk`, hence of `lineFit`) asks
`runColor li = []`.

Why the proviso (witnesses in `Lemmas/VTT3WTextWitness.lean`, all `by decide`):
* an inline instant in (0, 1 ms) is written `<00:00:00.000>`; the decoder reads the timestamp 0;
* a `|` or a form feed in a voice, a form feed in an annotation stands between `<` and `>`: `lineOK2`
  is false.  (A `|` cannot occur in the tags of a run: `tags_noBar`.)
The writer escapes U+00A0 as `&nbsp;`; a written piece of text is never blank (`runOk`), so it is `chunkOK`.
-/

namespace Astisub
namespace VTT3W
open Go Spec.VTT List
open VTT (runTags runOk runColor tsPart itemsBytes lineBody)
open VTTRead (scanOK2 tsScan hasTs noNbsp lineOK2 tagCharOK chunksOK)
open SRT (escapeHTML)

/-! ### the voice tag -/

theorem Q1_voice (v r : Str) (hv : VTT.voiceOk v = true) (hc : v.all okc = true) (hr : Q1 r) :
    Q1 (("<v ".toList ++ v ++ ['>']) ++ r) := by
  rw [voice_tag_eq]
  intro hnb
  have hnb2 : NoBreak (('v' :: ' ' :: v) ++ '>' :: r) := fun c hc => hnb c (mem_cons_of_mem _ hc)
  have hv2 := hv
  simp only [VTT.voiceOk, Bool.and_eq_true, bne_iff_ne, ne_eq] at hv2
  have hf := VTT.annOk_facts hv2.2
  refine scanOK2_tag _ _ (fun c hc => (voice_chars v hv c hc).1) ?_
    (hr (fun c hc => noBreak_right hnb2 c (by simp [hc])))
  intro c hm
  rcases mem_cons.mp hm with e | hm'
  · subst e; decide
  · rcases mem_cons.mp hm' with e | hm''
    · subst e; decide
    · have ho := (okc_iff c).mp (all_eq_true.mp hc c hm'')
      have hb := noBreak_left hnb2 c hm
      rw [tagCharOK_iff]
      exact ⟨(markup_safe (hf.2 c hm'')).2, ho.2, ho.1, hb.1, hb.2⟩

theorem Q2_voice (v r : Str) (hv : VTT.voiceOk v = true) (hr : Q2 r) :
    Q2 (("<v ".toList ++ v ++ ['>']) ++ r) := by
  rw [voice_tag_eq]
  unfold Q2
  rw [tsScan_tag 'v' (' ' :: v) r (by decide) (fun c hc => (voice_chars v hv c hc).1)]
  exact hr

theorem Q3_voice (v r : Str) (hv : VTT.voiceOk v = true) (hr : Q3 r) :
    Q3 (("<v ".toList ++ v ++ ['>']) ++ r) := by
  rw [voice_tag_eq]
  unfold Q3
  have e : '<' :: (('v' :: ' ' :: v) ++ '>' :: r) = ('<' :: ('v' :: ' ' :: v) ++ ['>']) ++ r := by simp
  rw [e, noNbsp_skip]
  · exact hr
  · intro c hc
    rcases mem_append.mp hc with hc | hc
    · rcases mem_cons.mp hc with e | hc
      · subst e; decide
      · exact (voice_chars v hv c hc).2.2
    · simp at hc; subst hc; decide

/-- a property that the voice tag and the runs preserve holds for the line -/
theorem line_closed (Q : Str → Prop) (l : Line)
    (hvoice : l.voice ≠ [] → ∀ r, Q r → Q (("<v ".toList ++ l.voice ++ ['>']) ++ r))
    (hitems : Q (itemsBytes none l.items)) : Q (lineBody l) := by
  unfold lineBody
  by_cases hvn : l.voice = []
  · rw [if_neg (by simpa using hvn), nil_append]; exact hitems
  · rw [if_pos hvn]; exact hvoice hvn _ hitems

/-! ### the facts in `lineFit` and `lineW2` -/

structure LineFacts (l : Line) : Prop where
  voice : l.voice ≠ [] → VTT.voiceOk l.voice = true
  voiceC : l.voice.all okc = true
  runs : ∀ li ∈ l.items, runColor li = [] ∧ WI li ∧ ∀ t ∈ runTags li, WT t
  noBreak : NoBreak (lineBody l)
  visible : ∀ li ∈ l.items, trimSpace li.text ≠ []

theorem lineFacts {l : Line} (hfit : VTT.lineFit l = true) (hx : lineW2 l = true) : LineFacts l := by
  have hok := lineFit_lineOk hfit
  simp only [VTT.lineOk, Bool.and_eq_true, Bool.or_eq_true, beq_iff_eq, all_eq_true] at hok
  obtain ⟨⟨hv, hruns⟩, _⟩ := hok
  simp only [VTT.lineFit, Bool.and_eq_true, all_eq_true, Bool.not_eq_true', Bool.or_eq_false_iff,
    beq_eq_false_iff_ne, ne_eq] at hfit
  have hbr := hfit.2
  simp only [lineW2, Bool.and_eq_true, all_eq_true, runW2] at hx
  obtain ⟨hvc, hw⟩ := hx
  refine ⟨?_, all_eq_true.mpr hvc, ?_, fun c hc => hbr c hc, ?_⟩
  · intro hne
    rcases hv with h | h
    · exact absurd h hne
    · exact h
  · intro li hm
    have F := VTT.runOk_facts (hruns li hm)
    exact ⟨F.col, ⟨F.t0, F.t1⟩, fun t ht => ⟨F.wf t ht, (hw li hm).2 t ht, tags_noBar li.attrs t ht⟩⟩
  · intro li hm
    exact (VTT.runOk_facts (hruns li hm)).nb

/-! ### the class -/

/-- the tag scan of `lineOK2` -/
theorem scanOK2_lineBody (l : Line) (hfit : VTT.lineFit l = true) (hx : lineW2 l = true) :
    VTTRead.scanOK2 false (VTT.lineBody l) = true := by
  have F := lineFacts hfit hx
  have h1 : Q1 (lineBody l) := by
    apply line_closed Q1 l (fun hne r hr => Q1_voice l.voice r (F.voice hne) F.voiceC hr)
    have := items_closed Q1 WT WI Q1_open Q1_close Q1_ts (fun li r _ hr => Q1_text li.text r hr) []
      (fun _ => rfl) l.items none F.runs
    simpa using this
  exact h1 F.noBreak

/-- without U+00A0 in the texts, `&nbsp;` does not occur in the written line
    (`hx` is not used beyond the range of the instants; kept for a uniform interface) -/
theorem noNbsp_lineBody (l : Line) (hfit : VTT.lineFit l = true) (hx : lineW2 l = true)
    (hn : nbspFree l = true) : VTTRead.noNbsp (VTT.lineBody l) = true := by
  have F := lineFacts hfit hx
  simp only [nbspFree, all_eq_true, Bool.not_eq_true'] at hn
  have hn' : ∀ li ∈ l.items, C01.nbsp ∉ li.text := by
    intro li hm hc
    have := hn li hm
    rw [contains_eq_mem, decide_eq_false_iff_not] at this
    exact this hc
  have h3 : Q3 (lineBody l) := by
    apply line_closed Q3 l (fun hne r hr => Q3_voice l.voice r (F.voice hne) hr)
    have := items_closed Q3 WT (fun li => WI li ∧ C01.nbsp ∉ li.text) Q3_open Q3_close
      (fun li r h hr => Q3_ts li r h.1 hr) (fun li r h hr => Q3_text li.text r h.2 hr) [] rfl l.items none
      (fun li hm => ⟨(F.runs li hm).1, ⟨(F.runs li hm).2.1, hn' li hm⟩, (F.runs li hm).2.2⟩)
    simpa using this
  exact h3

/-- without inline instants, no `<` + digit occurs outside a tag in the written line.
    (The only statement of this development that looks inside `VTTRead.hasTs` = `tsScan false`, through the
    lemmas `tsScan_false_cons`, `tsScan_true_cons`, `tsScan_text`, `tsScan_body`, `tsScan_tag` of
    `Lemmas/VTT3WTextF.lean`.) -/
theorem hasTs_lineBody (l : Line) (hfit : VTT.lineFit l = true) (hx : lineW2 l = true)
    (hz : tsFree l = true) : VTTRead.hasTs (VTT.lineBody l) = false := by
  have F := lineFacts hfit hx
  simp only [tsFree, all_eq_true, beq_iff_eq] at hz
  have h2 : Q2 (lineBody l) := by
    apply line_closed Q2 l (fun hne r hr => Q2_voice l.voice r (F.voice hne) hr)
    have := items_closed Q2 WT (fun li => li.startAt = 0) Q2_open Q2_close Q2_ts
      (fun li r _ hr => Q2_text li.text r hr) [] rfl l.items none
      (fun li hm => ⟨(F.runs li hm).1, hz li hm, (F.runs li hm).2.2⟩)
    simpa using this
  exact h2

/-- every piece of text of the written line is blank neither before nor after decoding -/
theorem chunksOK_lineBody (l : Line) (hfit : VTT.lineFit l = true) (hx : lineW2 l = true) :
    VTTRead.chunksOK false (VTT.lineBody l) [] = true := by
  have F := lineFacts hfit hx
  have h4 : Q4 (lineBody l) := by
    apply line_closed Q4 l (fun hne r hr => Q4_voice l.voice r (F.voice hne) hr)
    have := items_closed Q4 WT (fun li => WI li ∧ trimSpace li.text ≠ []) Q4_open Q4_close
      (fun li r h hr => Q4_ts li r h.1 hr) (fun li r h hr => Q4_text li.text r h.2 hr) [] Q4_nil l.items none
      (fun li hm => ⟨(F.runs li hm).1, ⟨(F.runs li hm).2.1, F.visible li hm⟩, (F.runs li hm).2.2⟩)
    simpa using this
  have := h4 [] (Or.inl rfl)
  rw [escape_nil] at this
  exact this

/-- **W2, text part: the class.** A written cue-text line lies in the class `lineOK2` of the read theorem. -/
theorem lineOK2_lineBody (l : Line) (hfit : VTT.lineFit l = true) (hx : lineW2 l = true) :
    VTTRead.lineOK2 (VTT.lineBody l) = true := by
  unfold VTTRead.lineOK2
  rw [scanOK2_lineBody l hfit hx, chunksOK_lineBody l hfit hx, Bool.or_true]
  rfl

end VTT3W
end Astisub
