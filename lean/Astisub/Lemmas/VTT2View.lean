import Astisub.Driver.VTT
import Astisub.Lemmas.SRTBytes
import Astisub.Lemmas.VTT2Final

/-!
# Lemmas/VTT2View — the round trip on bytes as the check computes it, `wanted2` against the check's
`Driver.vttWanted`, and "regions are defined before they are used"
-/

namespace Astisub
namespace VTT
open Go List

theorem unlines_eq_srt (ls : List Str) : unlines ls = SRTDoc.unlines ls := by
  simp [unlines, SRTDoc.unlines, List.flatMap_def]

/-- **Write → read on bytes.** the model side of the `vtt.write` stream: encode the written text
    as UTF-8, cut it into lines with the scanner model, decode each line, read -/
theorem read_write_bytes2 (s : Subs) (hok : DocOk s = true) (doc : Str) (hw : write s = some doc) :
    read (Driver.docLines (Driver.utf8 doc)) = .ok (wanted2 s) := by
  have F := docOk_facts hok
  rw [write_lines2 s F.ne] at hw
  cases hw
  rw [unlines_eq_srt, SRTDoc.docLines_utf8_unlines _ (fun l hl => ?_)]
  · exact read_docLines2 s hok
  · have := noBreak_docLines2 s hok l hl
    exact ⟨fun h => (this _ h).1 rfl, fun h => (this _ h).2 rfl⟩

/-! ### `wanted2` and `Driver.vttWanted` -/

/-- what the WebVTT reader cannot tell apart in a run: the style reference is not written, and
    of the attributes only the tag stack is -/
def normRun (li : LItem) : LItem := { li with style := none, attrs := tagsAttrs (tagsOfAttrs li.attrs) }

/-- … and in a cue: the style reference is resolved into the settings by the writer -/
def normCue (c : CItem) : CItem :=
  { c with style := none, lines := c.lines.map fun l => { l with items := l.items.map normRun } }

theorem wanted2_items (s : Subs) : (wanted2 s).items = (Driver.vttWanted s).items.map normCue := by
  simp only [wanted2, Driver.vttWanted, map_map]
  apply map_congr_left
  intro x _
  simp only [Function.comp, readCue2, readCue, normCue, map_map, cueSetting]
  congr 1
  apply map_congr_left
  intro l _
  simp only [Function.comp, readLine, map_map]
  congr 1

/-- a region as the check wants it back (`Driver.vttWanted`) -/
def wantedRegion (s : Subs) (d : Def) : Def :=
  { d with attrs := some (mkAttrs [("WebVTTLines", fallback d.attrs (styleAttrs s d.ref) "WebVTTLines"),
      ("WebVTTRegionAnchor", fallback d.attrs (styleAttrs s d.ref) "WebVTTRegionAnchor"),
      ("WebVTTScroll", fallback d.attrs (styleAttrs s d.ref) "WebVTTScroll"),
      ("WebVTTViewportAnchor", fallback d.attrs (styleAttrs s d.ref) "WebVTTViewportAnchor"),
      ("WebVTTWidth", fallback d.attrs (styleAttrs s d.ref) "WebVTTWidth")]) }

theorem vttWanted_regions (s : Subs) : (Driver.vttWanted s).regions = s.regions.map (wantedRegion s) := rfl

theorem wanted2_regions (s : Subs) :
    (wanted2 s).regions = (VTT.sortDefs (Driver.vttWanted s).regions).map fun d => { d with ref := none } := by
  rw [vttWanted_regions]
  have h := map_mergeSort (r := fun (a b : Def) => !strLt b.id a.id) (s := fun (a b : Def) => !strLt b.id a.id)
    (f := wantedRegion s) (l := s.regions) (fun a _ b _ => by simp only [wantedRegion])
  simp only [wanted2, readRegions]
  unfold VTT.sortDefs
  rw [← h, map_map]
  apply map_congr_left
  intro d _
  rfl

/-! ### regions are defined before they are used -/

/-- the written lines are: what precedes the region block, the region block, the cues -/
theorem docLines2_split (s : Subs) :
    docLines2 s = (("WEBVTT".toList :: tsmapLines s) ++ styleBlock s) ++ regionBlock s ++ cuesLines2 s 0 s.items := rfl

/-- every region of the list has its definition line in the region block -/
theorem regionLine_mem (s : Subs) (d : Def) (hd : d ∈ s.regions) : regionLine s d ∈ regionBlock s := by
  unfold regionBlock
  have hne : s.regions.isEmpty = false := by
    cases h : s.regions with
    | nil => rw [h] at hd; cases hd
    | cons a b => rfl
  simp only [hne, Bool.false_eq_true, if_false]
  apply mem_cons_of_mem
  apply mem_map_of_mem
  exact (mergeSort_perm _ _).mem_iff.mpr hd

/-- the timing line of every cue is among the cue lines -/
theorem cueTiming_mem (s : Subs) (items : List CItem) : ∀ (k : Nat) (it : CItem), it ∈ items →
    cueTiming s it ∈ cuesLines2 s k items := by
  induction items with
  | nil => intro k it h; cases h
  | cons a rest ih =>
    intro k it h
    simp only [cuesLines2, cueLines2, cueCore, cons_append, mem_cons, mem_append]
    rcases mem_cons.mp h with rfl | h
    · right; left; right; right; left; rfl
    · right; right; exact ih (k + 1) it h

/-- **Defined before use.** in a `DocOk` document, a cue that refers to a region `r` has its timing
    line (carrying `region:r`) after the region block, and the region block holds the line
    `Region: id=r …` of a region of the list -/
theorem region_defined_before_use (s : Subs) (hok : DocOk s = true) (it : CItem) (hit : it ∈ s.items)
    (r : Str) (hr : it.region = some r) :
    ∃ d ∈ s.regions, d.id = r ∧ ("Region: id=".toList ++ r) <+: regionLine s d ∧
      ∃ pre, docLines2 s = pre ++ regionBlock s ++ cuesLines2 s 0 s.items ∧
        regionLine s d ∈ regionBlock s ∧ cueTiming s it ∈ cuesLines2 s 0 s.items := by
  have F := docOk_facts hok
  have := region_of_cueOk2 (F.cues it hit) r hr
  simp only [any_eq_true, decide_eq_true_eq] at this
  obtain ⟨d, hd, hid⟩ := this
  refine ⟨d, hd, hid, ?_, _, docLines2_split s, regionLine_mem s d hd, cueTiming_mem s s.items 0 it hit⟩
  rw [← hid]
  unfold regionLine
  simp only [append_assoc]
  exact prefix_append _ _

end VTT
end Astisub
