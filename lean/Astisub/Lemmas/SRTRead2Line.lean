import Astisub.Lemmas.SRTTokFuel
import Astisub.Lemmas.SRTSpecRuns
import Astisub.Lemmas.SRTSpecView

/-!
# Lemmas/SRTRead2Line — one text line: the reader model's `parseText` against the decoder's `runsOf`

The independent decoder scans a line character by character (`Spec.SRT.runsOf`: text accumulator,
running style, runs emitted so far); the reader model tokenizes the line with the HTML tokenizer
model (`Go.tokLoop`: text accumulator, tokens emitted so far) and then folds `SRT.stepTok` over
the tokens.  The two loops are related step by step (`sim`): at every position of the line the
tokens emitted so far, folded, give the decoder's running style and (through the view
`SRTDoc.drvRun` that `Driver.srtView` applies) the decoder's runs.
-/

namespace Astisub
namespace SRTRead2
open Go SRT SRTDoc
open Spec.SRT (GRun Sty runsOf tagAt cueLines)

/-- the contract of `Lemmas/SRTRead2Tag.lean` (`tag_sim`): a tag the decoder recognises is one
    token of the tokenizer model and acts in the same way on the running style -/
def TagSim : Prop :=
  ∀ (c : Char) (tl : Str) (f : Sty → Sty) (after : Str),
    tagAt ('<' :: c :: tl) = some (f, after) → ∀ (acc : Str) (out : List Tok),
    ∃ t : Tok, tokStep ('<' :: c :: tl) acc out = .next after [] (t :: flushText acc out) ∧
      ∀ (r : Run) (items : List LItem),
        (stepTok (r, items) t).2 = items ∧ styOf (stepTok (r, items) t).1 = f (styOf r)

/-! ## single iterations of the tokenizer loop -/

theorem tokStep_nil (acc : Str) (out : List Tok) :
    tokStep [] acc out = .done (.ok (flushText acc out).reverse) := rfl

theorem tokStep_nul (rest acc : Str) (out : List Tok) :
    tokStep ('\x00' :: rest) acc out = .done .unmodelled := by
  simp [tokStep]

theorem tokStep_plain (c : Char) (rest acc : Str) (out : List Tok) (h1 : c ≠ '<') (h0 : c ≠ '\x00') :
    tokStep (c :: rest) acc out = .next rest (c :: acc) out := by
  simp [tokStep, h1, h0]

theorem tokStep_lt_end (acc : Str) (out : List Tok) :
    tokStep ['<'] acc out = .done (.ok (flushText ('<' :: acc) out).reverse) := by
  simp [tokStep, flushText]

theorem tokStep_lt_other (c : Char) (tl acc : Str) (out : List Tok)
    (h : (runsOf.isLetter' c || c = '/' || c = '!' || c = '?') = false) :
    tokStep ('<' :: c :: tl) acc out = .next (c :: tl) ('<' :: acc) out := by
  simp only [Bool.or_eq_false_iff, decide_eq_false_iff_not] at h
  obtain ⟨⟨⟨h1, h2⟩, h3⟩, h4⟩ := h
  have e1 : isLetter c = false := h1
  unfold tokStep
  simp [e1, h2, h3, h4]

/-! ## folding the tokens emitted so far -/

/-- the reader's state after the tokens emitted so far (`out` holds them newest first) -/
def proc (init : Run × List LItem) (out : List Tok) : Run × List LItem := out.reverse.foldl stepTok init

theorem proc_cons (init : Run × List LItem) (t : Tok) (out : List Tok) :
    proc init (t :: out) = stepTok (proc init out) t := by
  simp [proc, List.foldl_append]

/-- the relation between the decoder's state and the reader's -/
def Rel (sty : Sty) (outd : List GRun) (p : Run × List LItem) : Prop :=
  styOf p.1 = sty ∧ p.2.map drvRun = outd

theorem drvRun_mk (r : Run) (t : Str) :
    drvRun { text := t, attrs := runAttrs r }
      = { text := t, bold := r.bold, italic := r.italics, underline := r.underline, color := r.color } := by
  simp only [drvRun, kvGet_runAttrs_bold, kvGet_runAttrs_italics, kvGet_runAttrs_underline, kvGet_runAttrs_color,
    optBool_isSome]

/-- flushing the pending text: the decoder emits a run exactly when the reader emits an item -/
theorem rel_flush (init : Run × List LItem) (sty : Sty) (acc : Str) (outd : List GRun) (outm : List Tok)
    (h : Rel sty outd (proc init outm)) : Rel sty (flushS sty acc outd) (proc init (flushText acc outm)) := by
  unfold flushText
  cases acc with
  | nil => simpa [flushS_nil] using h
  | cons a acc =>
    have hne : ((a :: acc).isEmpty) = false := rfl
    simp only [hne, Bool.false_eq_true, ↓reduceIte, proc_cons]
    obtain ⟨h1, h2⟩ := h
    unfold flushS stepTok
    by_cases hb : trimSpace (a :: acc).reverse = []
    · simp only [hb, ne_eq, not_true_eq_false, ↓reduceIte]
      exact ⟨h1, h2⟩
    · simp only [hb, ne_eq, not_false_eq_true, ↓reduceIte]
      refine ⟨h1, ?_⟩
      rw [List.map_append, h2, List.map_singleton, drvRun_mk, ← h1]
      rfl

/-! ## the simulation -/

theorem runsOf_zero (s : Str) (sty : Sty) (acc : Str) (out : List GRun) : runsOf 0 s sty acc out = none := by
  unfold runsOf; rfl

theorem runsOf_lt_end (fuel : Nat) (sty : Sty) (acc : Str) (out : List GRun) :
    runsOf (fuel + 1) ['<'] sty acc out = runsOf fuel [] sty ('<' :: acc) out := by
  rw [runsOf]

theorem runsOf_lt_other (fuel : Nat) (c : Char) (tl : Str) (sty : Sty) (acc : Str) (out : List GRun)
    (h : (runsOf.isLetter' c || c = '/' || c = '!' || c = '?') = false) :
    runsOf (fuel + 1) ('<' :: c :: tl) sty acc out = runsOf fuel (c :: tl) sty ('<' :: acc) out := by
  rw [runsOf]
  simp only [h, Bool.false_eq_true, ↓reduceIte]

theorem runsOf_lt_bad (fuel : Nat) (c : Char) (tl : Str) (sty : Sty) (acc : Str) (out : List GRun)
    (h : (runsOf.isLetter' c || c = '/' || c = '!' || c = '?') = true) (ht : tagAt ('<' :: c :: tl) = none) :
    runsOf (fuel + 1) ('<' :: c :: tl) sty acc out = none := by
  rw [runsOf]
  simp only [h, ↓reduceIte, ht]

/-- **Simulation.** wherever the decoder stands in the line, with the tokenizer at the same place and
    the tokens emitted so far folding to the decoder's state: if the decoder accepts the rest of the
    line and the tokenizer model is defined on it, then the tokenizer ends with tokens that fold to the
    decoder's final state -/
theorem sim (TS : TagSim) (init : Run × List LItem) : ∀ (fd fm : Nat) (s : Str) (sty : Sty) (acc : Str)
    (outd : List GRun) (outm : List Tok) (res : Sty × List GRun),
    s.length < fm → runsOf fd s sty acc outd = some res → tokLoop fm s acc outm ≠ .unmodelled →
    Rel sty outd (proc init outm) →
    ∃ toks, tokLoop fm s acc outm = .ok toks ∧ Rel res.1 res.2 (toks.foldl stepTok init) := by
  intro fd
  induction fd with
  | zero => intro fm s sty acc outd outm res _ h; rw [runsOf_zero] at h; cases h
  | succ fd ih =>
    intro fm s sty acc outd outm res hlen h hm hrel
    obtain ⟨g, rfl⟩ : ∃ g, fm = g + 1 := ⟨fm - 1, by omega⟩
    rw [tokLoop_succ] at hm ⊢
    cases s with
    | nil =>
      rw [runsOf_nil] at h; cases h
      refine ⟨(flushText acc outm).reverse, by rw [tokStep_nil]; rfl, ?_⟩
      exact rel_flush init sty acc outd outm hrel
    | cons c rest =>
      by_cases hc : c = '<'
      · subst hc
        cases rest with
        | nil =>
          rw [runsOf_lt_end] at h
          cases fd with
          | zero => rw [runsOf_zero] at h; cases h
          | succ fd =>
            rw [runsOf_nil] at h; cases h
            refine ⟨(flushText ('<' :: acc) outm).reverse, by rw [tokStep_lt_end]; rfl, ?_⟩
            exact rel_flush init sty ('<' :: acc) outd outm hrel
        | cons c tl =>
          by_cases hg : (runsOf.isLetter' c || c = '/' || c = '!' || c = '?') = true
          · cases ht : tagAt ('<' :: c :: tl) with
            | none => rw [runsOf_lt_bad _ _ _ _ _ _ hg ht] at h; cases h
            | some fa =>
              obtain ⟨f, after⟩ := fa
              rw [runsOf_tag _ _ _ _ _ _ _ _ hg ht] at h
              obtain ⟨t, hstep, hact⟩ := TS c tl f after ht acc outm
              rw [hstep] at hm ⊢
              have hl := tokStep_length _ _ _ _ _ _ hstep
              refine ih g after (f sty) [] _ _ res (by omega) h hm ?_
              rw [proc_cons]
              have hf := rel_flush init sty acc outd outm hrel
              obtain ⟨h1, h2⟩ := hf
              have := hact (proc init (flushText acc outm)).1 (proc init (flushText acc outm)).2
              exact ⟨by rw [this.2, h1], by rw [this.1, h2]⟩
          · have hg' : (runsOf.isLetter' c || c = '/' || c = '!' || c = '?') = false := by
              cases hb : (runsOf.isLetter' c || c = '/' || c = '!' || c = '?') <;> simp_all
            rw [runsOf_lt_other _ _ _ _ _ _ hg'] at h
            rw [tokStep_lt_other _ _ _ _ hg'] at hm ⊢
            exact ih g (c :: tl) sty ('<' :: acc) outd outm res (by simp only [List.length_cons] at hlen ⊢; omega) h hm hrel
      · by_cases h0 : c = '\x00'
        · subst h0; rw [tokStep_nul] at hm; exact absurd rfl hm
        · rw [runsOf_char _ _ _ _ _ _ hc] at h
          rw [tokStep_plain _ _ _ _ hc h0] at hm ⊢
          exact ih g rest sty (c :: acc) outd outm res (by simp only [List.length_cons] at hlen; omega) h hm hrel

/-! ## `parseText` -/

/-- **One line.** a non-blank line on which the decoder's `runsOf` succeeds (from the style `styOf sa`)
    and on which the tokenizer model is defined is parsed by the reader model into items whose view
    is the decoder's runs, and the running styles agree afterwards -/
theorem parseText_sim (TS : TagSim) (l : Str) (sa : Run) (res : Sty × List GRun) (hne : trimSpace l ≠ [])
    (h : runsOf (l.length + 2) l (styOf sa) [] [] = some res) (hm : parseText l sa ≠ .unmodelled) :
    ∃ sa' items, parseText l sa = .ok (sa', { items := items }) ∧ styOf sa' = res.1 ∧ items.map drvRun = res.2 := by
  unfold parseText at hm ⊢
  simp only [hne, ↓reduceIte] at hm ⊢
  have hm' : tokLoop (l.length + 2) l [] [] ≠ .unmodelled := by
    intro e
    have : tokenize l = .unmodelled := e
    rw [this] at hm
    exact hm rfl
  obtain ⟨toks, ht, hr⟩ := sim TS (sa, []) (l.length + 2) (l.length + 2) l (styOf sa) [] [] [] res (by omega) h hm'
    ⟨rfl, rfl⟩
  have ht' : tokenize l = .ok toks := ht
  rw [ht']
  exact ⟨_, _, rfl, hr.1, hr.2⟩

/-! ## the items of a parsed line have non-empty texts -/

theorem matchPair_mem (pairs : List (Str × Str)) (s rep : Str) (n : Nat)
    (h : matchPair pairs s = some (rep, n)) : ∃ p ∈ pairs, rep = p.2 := by
  unfold matchPair at h
  obtain ⟨p, hp, hq⟩ := List.exists_of_findSome?_eq_some h
  refine ⟨p, hp, ?_⟩
  split at hq
  · injection hq with hq; injection hq with hq _; exact hq.symm
  · cases hq

theorem replGo_ne_nil (x : Char) (xs : Str) : replGo unescapePairs (x :: xs) 0 ≠ [] := by
  rw [replGo]
  cases hmp : matchPair unescapePairs (x :: xs) with
  | none => simp
  | some p =>
    obtain ⟨rep, n⟩ := p
    obtain ⟨q, hq, hr⟩ := matchPair_mem _ _ _ _ hmp
    have : rep ≠ [] := by
      simp only [unescapePairs, List.mem_cons, List.not_mem_nil, or_false] at hq
      rcases hq with hq | hq | hq <;> (subst hq; subst hr; decide)
    cases rep with
    | nil => exact absurd rfl this
    | cons a r => simp

theorem unescapeHTML_ne_nil (s : Str) (h : s ≠ []) : unescapeHTML s ≠ [] := by
  cases s with
  | nil => exact absurd rfl h
  | cons x xs => exact replGo_ne_nil x xs

theorem trimSpace_nil : trimSpace ([] : Str) = [] := by decide

theorem stepTok_texts (st : Run × List LItem) (t : Tok) (h : ∀ it ∈ st.2, it.text ≠ []) :
    ∀ it ∈ (stepTok st t).2, it.text ≠ [] := by
  cases t with
  | text raw =>
    unfold stepTok
    by_cases hb : trimSpace raw = []
    · simpa [hb] using h
    · simp only [hb, ne_eq, not_false_eq_true, ↓reduceIte]
      intro it hit
      rw [List.mem_append] at hit
      rcases hit with hit | hit
      · exact h it hit
      · simp only [List.mem_singleton] at hit
        subst hit
        apply unescapeHTML_ne_nil
        intro e; subst e; exact hb trimSpace_nil
  | startTag raw name attrs => exact h
  | endTag raw name => exact h
  | selfClosing raw name attrs => exact h
  | other raw => exact h

theorem foldl_stepTok_texts (toks : List Tok) (st : Run × List LItem) (h : ∀ it ∈ st.2, it.text ≠ []) :
    ∀ it ∈ (toks.foldl stepTok st).2, it.text ≠ [] := by
  induction toks generalizing st with
  | nil => exact h
  | cons t ts ih => exact ih _ (stepTok_texts st t h)

/-- what the reader appends for an empty line -/
def blankLine : Line := { items := [{ text := [] }] }

/-- a parsed line is either the place holder of an empty line or has only items with text -/
theorem parseText_shape (l : Str) (sa sa' : Run) (ln : Line) (h : parseText l sa = .ok (sa', ln)) :
    (ln = blankLine ∧ sa' = sa ∧ trimSpace l = []) ∨ (trimSpace l ≠ [] ∧ ∀ it ∈ ln.items, it.text ≠ []) := by
  unfold parseText at h
  by_cases hb : trimSpace l = []
  · simp only [hb, ↓reduceIte] at h
    injection h with h
    injection h with h1 h2
    exact Or.inl ⟨h2.symm, h1.symm, hb⟩
  · simp only [hb, ↓reduceIte] at h
    right
    refine ⟨hb, ?_⟩
    cases ht : tokenize l with
    | unmodelled => rw [ht] at h; cases h
    | ok toks =>
      rw [ht] at h
      injection h with h
      injection h with h1 h2
      rw [← h2]
      exact foldl_stepTok_texts toks (sa, []) (by simp)

end SRTRead2
end Astisub
