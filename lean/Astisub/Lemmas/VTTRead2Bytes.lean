import Astisub.Lemmas.SRTBytes
import Astisub.Lemmas.Scan
import Astisub.Lemmas.VTTRead2Defs

/-!
# Lemmas/VTTRead2Bytes — from the bytes of a WebVTT document to the lines the decoder sees

The reader model cuts the *bytes* into lines (`Go.linesOf`, i.e. `bufio.ScanLines` with the repaired
CR handling) and decodes each line; the decoder (`Spec.VTT.decode`) cuts the *text* into lines
(`Spec.VTT.splitLines`).  The two agree for every text:

* `utf8_of_decodeLine`     : a byte string that decodes is the encoding of its text;
* `linesOf_utf8`           : `linesOf (utf8 text) = (splitLines text []).map utf8` — LF, CRLF and lone
                             CR each end a line, a final unterminated line is a line, a trailing
                             terminator adds none;
* `docLines_utf8`          : hence `docLines (utf8 text) = (splitLines text []).map some`;
* `docLines_of_decodeLine` : and the same for every document that decodes to `text`.
-/

namespace Astisub
namespace VTTRead
open Go List SRTDoc

/-! ## (1) decoding is injective: the bytes are the encoding of the decoded text -/

theorem utf8_of_decodeLine (bs : List UInt8) (text : Str) (h : Driver.decodeLine bs = some text) :
    Driver.utf8 text = bs := by
  unfold Driver.decodeLine at h
  rw [String.fromUTF8?] at h
  split at h
  · rename_i hv
    simp only [Option.map_some, Option.some.injEq] at h
    subst h
    unfold Driver.utf8
    rw [String.ofList_toList, byteArray_toList]
    rfl
  · simp at h

/-! ## the scanner's split function on the five shapes of a pending buffer -/

/-- no byte of `p` is LF or CR -/
abbrev NoEOL (p : List UInt8) : Prop := ∀ b ∈ p, b ≠ 10 ∧ b ≠ 13

theorem noEOL_tail {c : UInt8} {cs : List UInt8} (hp : NoEOL (c :: cs)) : NoEOL cs :=
  fun b hb => hp b (by simp [hb])

theorem breakEOL_cr (p rest : List UInt8) (hp : NoEOL p) :
    breakEOL (p ++ 13 :: rest) = (p, 13 :: rest) := by
  induction p with
  | nil => simp [breakEOL, isEOL]
  | cons c cs ih =>
    have hc := hp c (by simp)
    have := ih (noEOL_tail hp)
    simp [breakEOL, isEOL, hc.1, hc.2, this]

theorem breakEOL_none (p : List UInt8) (hp : NoEOL p) : breakEOL p = (p, []) := by
  induction p with
  | nil => simp [breakEOL]
  | cons c cs ih =>
    have hc := hp c (by simp)
    have := ih (noEOL_tail hp)
    simp [breakEOL, isEOL, hc.1, hc.2, this]

theorem splitLine_crlf (p rest : List UInt8) (hp : NoEOL p) :
    splitLine true (p ++ 13 :: 10 :: rest) true = .tok (p.length + 2) p := by
  unfold splitLine
  rw [breakEOL_cr p _ hp]
  simp

theorem splitLine_cr_other (p rest : List UInt8) (c : UInt8) (hp : NoEOL p) (hc : c ≠ 10) :
    splitLine true (p ++ 13 :: c :: rest) true = .tok (p.length + 1) p := by
  unfold splitLine
  rw [breakEOL_cr p _ hp]
  simp [hc]

theorem splitLine_cr_end (p : List UInt8) (hp : NoEOL p) :
    splitLine true (p ++ [13]) true = .tok (p.length + 1) p := by
  unfold splitLine
  rw [breakEOL_cr p _ hp]
  simp

theorem splitLine_end (p : List UInt8) (hp : NoEOL p) (hne : p ≠ []) :
    splitLine true p true = .tok p.length p := by
  unfold splitLine
  rw [breakEOL_none p hp]
  cases p with
  | nil => contradiction
  | cons c cs => simp

/-! ## `linesOf` on the five shapes -/

theorem linesOf_crlf (p rest : List UInt8) (hp : NoEOL p) :
    linesOf (p ++ 13 :: 10 :: rest) = p :: linesOf rest := by
  unfold linesOf
  rw [drain_tok (splitLine_crlf p rest hp)]
  have : drop (p.length + 2) (p ++ 13 :: 10 :: rest) = rest := by
    rw [show p ++ 13 :: 10 :: rest = (p ++ [13, 10]) ++ rest by simp]
    exact List.drop_left' (by simp)
  rw [this]

theorem linesOf_cr_other (p rest : List UInt8) (c : UInt8) (hp : NoEOL p) (hc : c ≠ 10) :
    linesOf (p ++ 13 :: c :: rest) = p :: linesOf (c :: rest) := by
  unfold linesOf
  rw [drain_tok (splitLine_cr_other p rest c hp hc)]
  simp

theorem linesOf_cr_end (p : List UInt8) (hp : NoEOL p) : linesOf (p ++ [13]) = [p] := by
  unfold linesOf
  rw [drain_tok (splitLine_cr_end p hp)]
  have : drop (p.length + 1) (p ++ [13]) = [] := List.drop_eq_nil_of_le (by simp)
  rw [this]
  exact congrArg _ linesOf_nil

theorem linesOf_end (p : List UInt8) (hp : NoEOL p) (hne : p ≠ []) : linesOf p = [p] := by
  unfold linesOf
  rw [drain_tok (splitLine_end p hp hne)]
  rw [List.drop_length]
  exact congrArg _ linesOf_nil

/-! ## the encoding, character by character -/

theorem utf8_cons (c : Char) (s : Str) :
    Driver.utf8 (c :: s) = String.utf8EncodeChar c ++ Driver.utf8 s := by
  simp [utf8_eq_flatMap]

theorem utf8_lf_cons (s : Str) : Driver.utf8 ('\n' :: s) = 10 :: Driver.utf8 s := by
  rw [utf8_cons]; rfl

theorem utf8_cr_cons (s : Str) : Driver.utf8 ('\r' :: s) = 13 :: Driver.utf8 s := by
  rw [utf8_cons]; rfl

/-- the encoding of a text that does not start with LF does not start with the byte 10 -/
theorem utf8_cons_head (c : Char) (s : Str) (hc : c ≠ '\n') :
    ∃ b bs, Driver.utf8 (c :: s) = b :: bs ∧ b ≠ 10 := by
  rw [utf8_cons]
  cases he : String.utf8EncodeChar c with
  | nil => exact absurd he String.utf8EncodeChar_ne_nil
  | cons b bs =>
    refine ⟨b, bs ++ Driver.utf8 s, rfl, ?_⟩
    intro e; subst e
    exact hc (lf_mem_encodeChar (by rw [he]; simp))

theorem utf8_eq_nil {s : Str} (h : Driver.utf8 s = []) : s = [] := by
  cases s with
  | nil => rfl
  | cons c s =>
    rw [utf8_cons] at h
    exact absurd (List.append_eq_nil_iff.mp h).1 String.utf8EncodeChar_ne_nil

/-! ## (2) byte lines = text lines -/

/-- the generalisation over the accumulator of `splitLines`: the pending line `acc` (reversed,
    without LF/CR) followed by the rest of the text -/
theorem linesOf_utf8_acc (rest acc : Str) (hacc : '\n' ∉ acc ∧ '\r' ∉ acc) :
    linesOf (Driver.utf8 acc.reverse ++ Driver.utf8 rest) =
      (Spec.VTT.splitLines rest acc).map Driver.utf8 := by
  have hrev : ∀ a : Str, '\n' ∉ a ∧ '\r' ∉ a → NoEOL (Driver.utf8 a.reverse) :=
    fun a ha => utf8_no_eol a.reverse (by simpa using ha)
  induction rest, acc using Spec.VTT.splitLines.induct with
  | case1 acc he =>
    have : acc = [] := by simpa using he
    subst this
    simp [Spec.VTT.splitLines, utf8_nil, linesOf_nil]
  | case2 acc he =>
    have hne : Driver.utf8 acc.reverse ≠ [] := by
      intro h
      have := utf8_eq_nil h
      simp at this
      exact he (by simp [this])
    rw [utf8_nil, List.append_nil, linesOf_end _ (hrev acc hacc) hne]
    simp [Spec.VTT.splitLines, he]
  | case3 rest acc ih =>
    have ih' := ih (by simp)
    simp only [List.reverse_nil, utf8_nil, List.nil_append] at ih'
    rw [utf8_cr_cons, utf8_lf_cons, linesOf_crlf _ _ (hrev acc hacc), ih']
    simp [Spec.VTT.splitLines]
  | case4 rest acc ih =>
    have ih' := ih (by simp)
    simp only [List.reverse_nil, utf8_nil, List.nil_append] at ih'
    rw [utf8_lf_cons, linesOf_lf _ _ (hrev acc hacc), ih']
    simp [Spec.VTT.splitLines]
  | case5 rest acc hnl ih =>
    have ih' := ih (by simp)
    simp only [List.reverse_nil, utf8_nil, List.nil_append] at ih'
    have hs : Spec.VTT.splitLines ('\r' :: rest) acc = acc.reverse :: Spec.VTT.splitLines rest [] := by
      cases rest with
      | nil => simp [Spec.VTT.splitLines]
      | cons d rest' =>
        have hd : d ≠ '\n' := fun e => hnl rest' (by rw [e])
        rw [Spec.VTT.splitLines]
        intro r e
        cases e
        exact hd rfl
    rw [hs, utf8_cr_cons]
    cases rest with
    | nil =>
      rw [utf8_nil, linesOf_cr_end _ (hrev acc hacc)]
      simp [Spec.VTT.splitLines]
    | cons d rest' =>
      have hd : d ≠ '\n' := fun e => hnl rest' (by rw [e])
      obtain ⟨b, bs, hb, hb10⟩ := utf8_cons_head d rest' hd
      rw [hb] at ih' ⊢
      rw [linesOf_cr_other _ _ _ (hrev acc hacc) hb10, ih']
      simp
  | case6 c rest acc _ hlf hcr ih =>
    have ih' := ih (by
      constructor
      · intro h; rcases List.mem_cons.mp h with h | h
        · exact hlf h.symm
        · exact hacc.1 h
      · intro h; rcases List.mem_cons.mp h with h | h
        · exact hcr h.symm
        · exact hacc.2 h)
    have hs : Spec.VTT.splitLines (c :: rest) acc = Spec.VTT.splitLines rest (c :: acc) := by
      rw [Spec.VTT.splitLines]
      · intro r e _; exact hcr e
      · exact hlf
      · exact hcr
    rw [hs, ← ih', List.reverse_cons, utf8_append (reverse acc), List.append_assoc, ← utf8_append [c]]
    rfl

/-- **Bytes to lines, for every text.**  Cutting the encoded text into lines the way the scanner
    does gives the encodings of the lines the decoder cuts the text into. -/
theorem linesOf_utf8 (text : Str) :
    linesOf (Driver.utf8 text) = (Spec.VTT.splitLines text []).map Driver.utf8 := by
  have := linesOf_utf8_acc text [] (by simp)
  simpa [utf8_nil] using this

/-! ## (3) the decoded lines of a document -/

theorem docLines_utf8 (text : Str) :
    Driver.docLines (Driver.utf8 text) = (Spec.VTT.splitLines text []).map some := by
  unfold Driver.docLines
  rw [linesOf_utf8 text, List.map_map]
  apply List.map_congr_left
  intro l _
  exact decodeLine_utf8 l

/-- a document that decodes as a whole is read as the lines of its text, each of them decoded -/
theorem docLines_of_decodeLine (doc : List UInt8) (text : Str)
    (h : Driver.decodeLine doc = some text) :
    Driver.docLines doc = (Spec.VTT.splitLines text []).map some := by
  rw [← utf8_of_decodeLine doc text h]
  exact docLines_utf8 text

end VTTRead
end Astisub

namespace Astisub
namespace VTTRead
open Go List SRTDoc

/-! ## a mixed-EOL check: "a⏎(CRLF) b⏎(CR) c⏎(LF) ⏎(LF) d⏎(CR)" is five lines on both sides -/

/-- the text side, by evaluation -/
example : Spec.VTT.splitLines "a\r\nb\rc\n\nd\r".toList [] =
    ["a".toList, "b".toList, "c".toList, [], "d".toList] := by decide

/-- the byte side, by the shape lemmas alone (not through `linesOf_utf8`) -/
example : linesOf [97, 13, 10, 98, 13, 99, 10, 10, 100, 13] = [[97], [98], [99], [], [100]] := by
  have h1 : NoEOL [97] := by decide
  have h2 : NoEOL [98] := by decide
  have h3 : NoEOL [99] := by decide
  have h4 : NoEOL [] := by decide
  have h5 : NoEOL [100] := by decide
  change linesOf ([97] ++ 13 :: 10 :: [98, 13, 99, 10, 10, 100, 13]) = _
  rw [linesOf_crlf _ _ h1]
  change _ :: linesOf ([98] ++ 13 :: 99 :: [10, 10, 100, 13]) = _
  rw [linesOf_cr_other _ _ _ h2 (by decide)]
  change _ :: _ :: linesOf ([99] ++ 10 :: [10, 100, 13]) = _
  rw [linesOf_lf _ _ h3]
  change _ :: _ :: _ :: linesOf ([] ++ 10 :: [100, 13]) = _
  rw [linesOf_lf _ _ h4]
  change _ :: _ :: _ :: _ :: linesOf ([100] ++ [13]) = _
  rw [linesOf_cr_end _ h5]

/-- and the encoding links the two -/
example : Driver.utf8 "a\r\nb\rc\n\nd\r".toList = [97, 13, 10, 98, 13, 99, 10, 10, 100, 13] := by
  rw [utf8_eq_flatMap]; decide

end VTTRead
end Astisub
