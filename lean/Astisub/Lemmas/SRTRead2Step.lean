import Astisub.Lemmas.SRTRead2Line
import Astisub.Lemmas.TotLines

/-!
# Lemmas/SRTRead2Step — the reader's loop body on an already prepared line

`SRT.step` trims the scanned line and, on the first line only, removes a byte order mark.  `stepG`
is the rest of the loop body, as a function of the prepared line (an equivalent formulation of
`SRT.step`, proved equal to it: `step_eq`); `runG` iterates it.  The three behaviours of `stepG`:
an empty line, a line without `-->` (handed to `parseText`), a timing line.
-/

namespace Astisub
namespace SRTRead2
open Go SRT SRTDoc

/-- the index candidate of the timing-line branch: the last line of the cue being filled, when it has
    text, is taken off and used as the index -/
def idxSplit (lines : List Line) : Str × List Line :=
  match lines.getLast? with
  | none => (([] : Str), lines)
  | some l => if l.str ≠ [] then (l.str, lines.dropLast) else ([], lines)

/-- the loop body of `ReadFromSRT` after the line has been trimmed (and the BOM removed) -/
def stepG (st : St) (line : Str) : Res St :=
    let lineNum := st.lineNum + 1
    if contains arrow line then
      let (index, lines) := idxSplit st.cur.lines
      let lines := stripLines lines
      let prev := { st.cur with lines := lines }
      let done := if st.curListed then st.done ++ [prev] else st.done
      let idx : Int := if index ≠ [] then atoiLoose index else 0
      let s1 := splitOn arrow line
      match s1 with
      | left :: right :: _ =>
        match fields right with
        | [] => .err
        | endTok :: _ =>
          match Duration.parseSRT left, Duration.parseSRT endTok with
          | some s, some e =>
            .ok { done := done, cur := { index := idx, startAt := s, endAt := e, lines := [] },
                  curListed := true, sa := {}, lineNum := lineNum }
          | _, _ => .err
      | _ => .err
    else
      match parseText line st.sa with
      | .unmodelled => .unmodelled
      | .err => .err
      | .ok (sa, l) =>
        let cur := if l.items.isEmpty then st.cur else { st.cur with lines := st.cur.lines ++ [l] }
        .ok { st with cur := cur, sa := sa, lineNum := lineNum }

/-- the line the loop body works on -/
def prepLine (lineNum : Nat) (raw : Str) : Str :=
  if lineNum + 1 = 1 then trimPrefix bom (trimSpace raw) else trimSpace raw

theorem step_eq (st : St) (raw : Str) : step st (some raw) = stepG st (prepLine st.lineNum raw) := by
  unfold step stepG prepLine idxSplit
  rfl

def runG : St → List Str → Res St
  | st, [] => .ok st
  | st, l :: ls =>
    match stepG st l with
    | .ok st' => runG st' ls
    | .err => .err
    | .unmodelled => .unmodelled

/-! ## the three behaviours -/

theorem contains_arrow_nil : contains arrow ([] : Str) = false := by decide

theorem stepG_plain (st : St) (line : Str) (h : contains arrow line = false) :
    stepG st line =
      match parseText line st.sa with
      | .unmodelled => .unmodelled
      | .err => .err
      | .ok (sa, l) =>
        .ok { st with cur := if l.items.isEmpty then st.cur else { st.cur with lines := st.cur.lines ++ [l] },
                      sa := sa, lineNum := st.lineNum + 1 } := by
  unfold stepG
  simp only [h, Bool.false_eq_true, ↓reduceIte]

theorem parseText_blank (l : Str) (sa : Run) (h : trimSpace l = []) : parseText l sa = .ok (sa, blankLine) := by
  unfold parseText
  simp only [h, ↓reduceIte]
  rfl

theorem stepG_blank (st : St) :
    stepG st [] = .ok { st with cur := { st.cur with lines := st.cur.lines ++ [blankLine] }, lineNum := st.lineNum + 1 } := by
  rw [stepG_plain st [] contains_arrow_nil, parseText_blank [] st.sa trimSpace_nil]
  rfl

theorem stepG_timing (st : St) (line left right endTok : Str) (rest1 rest2 : List Str) (s e : Int)
    (hc : contains arrow line = true) (hs : splitOn arrow line = left :: right :: rest1)
    (hf : fields right = endTok :: rest2) (h1 : Duration.parseSRT left = some s)
    (h2 : Duration.parseSRT endTok = some e) :
    stepG st line = .ok
      { done := if st.curListed then st.done ++ [{ st.cur with lines := stripLines (idxSplit st.cur.lines).2 }] else st.done,
        cur := { index := if (idxSplit st.cur.lines).1 ≠ [] then atoiLoose (idxSplit st.cur.lines).1 else 0,
                 startAt := s, endAt := e, lines := [] },
        curListed := true, sa := {}, lineNum := st.lineNum + 1 } := by
  unfold stepG
  simp only [hc, ↓reduceIte, hs, hf, h1, h2]

end SRTRead2
end Astisub
