import Astisub.Lemmas.SSARead2Step

/-!
# Lemmas/SSARead2Sec — section structure: the decoder's grouping of lines, and the reader on unknown / script-info sections
-/

namespace Astisub
namespace SSAR
open Go SSA
open Spec.SSA (SecKind secKind sectionsAux sections classify)

/-- `lines` is the concatenation of the sections `secs`, each a header line of its kind followed by its body lines
    (none of which is a header) -/
def Grouped : List Str → List (SecKind × List Str) → Prop
  | lines, [] => lines = []
  | lines, s :: rest =>
    ∃ h tail, lines = h :: (s.2 ++ tail) ∧ secKind h = some s.1 ∧ (∀ l ∈ s.2, secKind l = none) ∧ Grouped tail rest

theorem sectionsAux_cur : ∀ (ls : List Str) (k : SecKind) (rb : List Str) (acc out : List (SecKind × List Str)),
    sectionsAux ls (some (k, rb)) acc = some out →
    ∃ body tail rest, ls = body ++ tail ∧ (∀ l ∈ body, secKind l = none) ∧
      out = acc ++ (k, rb.reverse ++ body) :: rest ∧ Grouped tail rest := by
  intro ls
  induction ls with
  | nil =>
    intro k rb acc out h
    simp only [sectionsAux, Option.some.injEq] at h
    exact ⟨[], [], [], rfl, by simp, by simp [← h], rfl⟩
  | cons l ls ih =>
    intro k rb acc out h
    rw [sectionsAux] at h
    cases hk : secKind l with
    | some k' =>
      simp only [hk] at h
      obtain ⟨body', tail', rest', e1, e2, e3, e4⟩ := ih k' [] _ out h
      refine ⟨[], l :: ls, (k', body') :: rest', rfl, by simp, ?_, ?_⟩
      · rw [e3]; simp
      · exact ⟨l, tail', by simp [e1], hk, e2, e4⟩
    | none =>
      simp only [hk] at h
      obtain ⟨body', tail', rest', e1, e2, e3, e4⟩ := ih k (l :: rb) acc out h
      refine ⟨l :: body', tail', rest', by simp [e1], ?_, ?_, e4⟩
      · intro x hx
        rcases List.mem_cons.mp hx with rfl | hx
        · exact hk
        · exact e2 x hx
      · rw [e3]; simp

/-- **Grouping.** What `Spec.SSA.sections` returns is a grouping of the lines: header, body, header, body … -/
theorem sections_grouped (lines : List Str) (secs : List (SecKind × List Str)) (h : sections lines = some secs) :
    Grouped lines secs := by
  unfold sections at h
  cases lines with
  | nil =>
    simp only [sectionsAux, Option.some.injEq] at h
    subst h; rfl
  | cons l ls =>
    rw [sectionsAux] at h
    cases hk : secKind l with
    | some k =>
      simp only [hk] at h
      obtain ⟨body, tail, rest, e1, e2, e3, e4⟩ := sectionsAux_cur ls k [] [] secs h
      simp only [List.reverse_nil, List.nil_append] at e3
      subst e3
      exact ⟨l, tail, by simp [e1], hk, e2, e4⟩
    | none => simp [hk] at h

/-! ### `runL` -/

theorem runL_append : ∀ (a b : List Str) (st : St),
    runL st (a ++ b) = match runL st a with | .ok st' => runL st' b | .err => .err | .unmodelled => .unmodelled := by
  intro a
  induction a with
  | nil => intro b st; rfl
  | cons x xs ih =>
    intro b st
    simp only [List.cons_append, runL]
    cases stepL st x with
    | ok st' => exact ih b st'
    | err => rfl
    | unmodelled => rfl

/-- a body line: not a header, not empty -/
def BodyLine (l : Str) : Prop := secKind l = none ∧ l ≠ []

/-- **Unknown section.** Nothing of an unknown section reaches the state -/
theorem run_unknown : ∀ (body : List Str) (st : St), st.sec = .unknown → st.first = false →
    (∀ l ∈ body, BodyLine l) → runL st body = .ok st := by
  intro body
  induction body with
  | nil => intro st _ _ _; rfl
  | cons l ls ih =>
    intro st hs hf hb
    have hl := hb l (by simp)
    rw [runL, stepL_body st l hl.1 hl.2 hf, if_pos hs]
    exact ih st hs hf (fun x hx => hb x (by simp [hx]))

end SSAR
end Astisub
