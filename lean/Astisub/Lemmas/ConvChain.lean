import Astisub.Lemmas.ConvSRT
import Astisub.Lemmas.ConvVTT
import Astisub.Props.C07

/-!
# Lemmas/ConvChain — what SubRip returns for a plain cue list is plain for WebVTT (C07)
-/

namespace Astisub
namespace ConvChain
open Go SRT SRTDoc ConvView Spec.Conv Driver List

theorem truncView_idem (u : Int) (v : List VCue) : truncView u (truncView u v) = truncView u v := by
  simp only [truncView, List.map_map]
  apply List.map_congr_left
  intro c _
  simp [truncCue, C07.trunc_idem]

theorem runAttrs_plain (li : LItem) (h : plainRun li = true) : runAttrs (styleOf li) = none := by
  have hs : styled (styleOf li) = false := by simpa [plainRun] using h
  unfold styled at hs
  unfold runAttrs
  simp [hs]

/-- the line SubRip returns for a plain line: one attribute-free run with the line's text -/
theorem norm_merge_line (l : Line) (h : ConvSRT.plainLine l = true) :
    normLine (mergeLine l) = { items := [{ text := l.str }] } := by
  simp only [ConvSRT.plainLine, Bool.and_eq_true, List.all_eq_true, ConvSRT.edgesOk] at h
  obtain ⟨⟨hm, _⟩, he⟩ := h
  have hm1 : ∀ x ∈ l.items, plainRun x = true := by
    intro x hx
    have := hm x hx
    simp only [ConvSRT.noMarkup, Bool.and_eq_true] at this
    exact this.1
  cases hi : l.items with
  | nil => simp [Line.str, hi] at he
  | cons a rest =>
    have hmerge : mergePlain l.items = [{ a with text := l.str }] := by
      rw [hi, ConvSRT.mergePlain_all a rest (fun x hx => hm1 x (by rw [hi]; exact hx))]
      simp [Line.str, hi]
    have ha : runAttrs (styleOf a) = none := runAttrs_plain a (hm1 a (by rw [hi]; simp))
    simp only [normLine, mergeLine, hmerge, List.map_cons, List.map_nil, normRun, ConvSRT.styleOf_text, ha]

theorem plainLine_vtt (l : Line) (h : ConvSRT.plainLine l = true) :
    ConvVTT.plainLine (normLine (mergeLine l)) = true := by
  rw [norm_merge_line l h]
  simp only [ConvSRT.plainLine, Bool.and_eq_true] at h
  have hs : simpleText l.str = true := h.1.2
  have he : ConvSRT.edgesOk l.str = true := h.2
  have e : ({ items := [{ text := l.str }] } : Line).str = l.str := by simp [Line.str]
  simp only [ConvVTT.plainLine, e, hs, Bool.and_true]
  simp only [ConvSRT.edgesOk] at he
  simp [ConvVTT.bareLine, ConvVTT.bareRun, VTT.runColor, SRT.kvGet, ConvVTT.edgesOk, he]

theorem styleLines_nil (s : Subs) (h : s.styles = []) : VTT.styleLines s = [] := by
  simp [VTT.styleLines, VTT.sortDefs, h]

theorem normItems_mem (items : List CItem) (k : Nat) (x : CItem) (hx : x ∈ normItems k items) :
    ∃ j, ∃ it ∈ items, x = normItem j it := by
  induction items generalizing k with
  | nil => simp [normItems] at hx
  | cons a rest ih =>
    simp only [normItems, List.mem_cons] at hx
    rcases hx with rfl | hx
    · exact ⟨k, a, by simp, rfl⟩
    · obtain ⟨j, it, hit, e⟩ := ih (k + 1) hx
      exact ⟨j, it, by simp [hit], e⟩

theorem normItems_length (items : List CItem) (k : Nat) : (normItems k items).length = items.length := by
  induction items generalizing k with
  | nil => rfl
  | cons a rest ih => simp [normItems, ih]

/-- **What SubRip returned is plain for WebVTT and in its range** -/
theorem plainVTT_norm (s : Subs) (hr : inRange "srt" s = true) (hp : ConvSRT.PlainSRT s = true) :
    inRange "vtt" (norm (mergeS s)) = true ∧ ConvVTT.PlainVTT (norm (mergeS s)) = true := by
  have hrg := inRange_items (dst := "srt") (by decide) hr
  simp only [ConvSRT.PlainSRT, Bool.and_eq_true, Bool.not_eq_true', decide_eq_true_eq, List.all_eq_true] at hp
  obtain ⟨⟨hne, hlen⟩, hl⟩ := hp
  have hmem : ∀ x ∈ (norm (mergeS s)).items, ∃ j, ∃ it ∈ s.items, x = normItem j (mergeItem it) := by
    intro x hx
    obtain ⟨j, it', hit', e⟩ := normItems_mem _ 0 x hx
    obtain ⟨it, hit, rfl⟩ := List.mem_map.mp hit'
    exact ⟨j, it, hit, e⟩
  constructor
  · unfold inRange
    simp only [viewOf_eq, List.all_map, List.all_eq_true]
    intro x hx
    obtain ⟨j, it, hit, rfl⟩ := hmem x hx
    obtain ⟨h1, h2, h3, h4⟩ := hrg it hit
    have hd : ("vtt" = "stl") = False := by decide
    simp only [hd, if_false]
    have e1 : (mergeItem it).startAt = it.startAt := rfl
    have e2 : (mergeItem it).endAt = it.endAt := rfl
    simp [cueView, normItem, truncMs, e1, e2]
    omega
  · have hlen' : (norm (mergeS s)).items.length = s.items.length := by
      simp [norm, mergeS, normItems_length]
    have hne' : (norm (mergeS s)).items.isEmpty = false := by
      cases hi : s.items with
      | nil => rw [hi] at hne; cases hne
      | cons a rest => simp [norm, mergeS, hi, normItems]
    simp only [ConvVTT.PlainVTT, hne', hlen', hlen, Bool.not_false, decide_true, Bool.true_and, Bool.and_eq_true,
      List.all_eq_true]
    refine ⟨⟨⟨rfl, by rw [styleLines_nil _ rfl]; rfl⟩, rfl⟩, ?_⟩
    intro x hx
    obtain ⟨j, it, hit, rfl⟩ := hmem x hx
    have hset : ∀ k, VTT.cueSetting (norm (mergeS s)) (normItem j (mergeItem it)) k = none := fun _ => rfl
    simp only [ConvVTT.plainCue, hset, VTT.optOk, Bool.and_true, Bool.and_eq_true, List.all_eq_true]
    refine ⟨⟨rfl, rfl⟩, ?_⟩
    intro l' hl'
    simp only [normItem, mergeItem, List.map_map, List.mem_map] at hl'
    obtain ⟨l, hlm, rfl⟩ := hl'
    exact plainLine_vtt l (hl it hit l hlm)

end ConvChain
end Astisub
