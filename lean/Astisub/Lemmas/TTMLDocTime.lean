import Astisub.Props.C03

/-!
# Lemmas/TTMLDocTime — the TTML writer's time format under the TTML reader

`WriteToTTML` prints `begin` / `end` with `Duration.formatTTML` (`hh:mm:ss.mmm`).  The reader hands
that text to `TTMLInDuration.UnmarshalText` (`TTML.timeExpr`) and resolves it with the document's
frame / tick rate (`TTML.duration`).
-/

namespace Astisub
namespace TTMLDoc
open Go Duration List TTML C16

/-- the instant `t` is printable by the TTML writer: `0 ≤ t < 100 h` (decidable) -/
def timeOk (t : Int) : Bool := decide (0 ≤ t) && decide (t < 360000000000000)

example : timeOk 359999999999999 = true := by decide
example : timeOk 3723004000001 = true := by decide

theorem timeOk_iff {t : Int} : timeOk t = true ↔ 0 ≤ t ∧ t < 360000000000000 := by
  simp [timeOk]

/-- truncation to the millisecond -/
def truncMs (t : Int) : Int := t - t % 1000000

/-- what `UnmarshalText` makes of the written text: the truncated instant, no frames, no ticks -/
theorem timeExpr_formatTTML (t : Int) (h0 : 0 ≤ t) (h1 : t < 360000000000000) :
    timeExpr (formatTTML t) = some { d := truncMs t } := by
  obtain ⟨h, m, s, f, hh, hm, hs, hf, hfmt, hval⟩ := format_shape3 t '.' h0 h1
  unfold formatTTML
  rw [hfmt, C03.clock_frac3 h m s f hh (by omega) (by omega) hf]
  have e : (h : Int) * 3600000000000 + (m : Int) * 60000000000 + (s : Int) * 1000000000 + (f : Int) * 1000000
      = truncMs t := by
    unfold truncMs
    rw [← hval]; unfold nsPerMs nsPerS nsPerMin nsPerH; omega
  rw [e]

/-- … and `duration()` of that value is the truncated instant whatever the frame / tick rates -/
theorem duration_formatTTML (t : Int) (fr tr : Int) :
    duration { d := truncMs t } fr tr = truncMs t :=
  C03.duration_plain _ fr tr rfl rfl rfl rfl

theorem instant_formatTTML (t : Int) (h0 : 0 ≤ t) (h1 : t < 360000000000000) (fr tr : Int) :
    instant (formatTTML t) fr tr = some (truncMs t) :=
  C03.instant_plain fr tr (timeExpr_formatTTML t h0 h1)

/-- the attribute occurs once: `parseTimes` of the one written value -/
theorem parseTimes_formatTTML (t : Int) (h0 : 0 ≤ t) (h1 : t < 360000000000000) :
    parseTimes [formatTTML t] = some (some { d := truncMs t }) := by
  simp [parseTimes, timeExpr_formatTTML t h0 h1]

end TTMLDoc
end Astisub
