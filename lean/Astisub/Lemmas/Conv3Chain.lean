import Astisub.Lemmas.Conv3TTML
import Astisub.Lemmas.Conv2Chain

/-!
# Lemmas/Conv3Chain — chained conversions through TTML (C07)

* `plain_bare`, `plainCue_bare` : cue lists without styles, regions, references and `TTML…` attributes are plain
  for TTML as soon as their runs are simple text and every cue has a line;
* `plainTTML_norm_srt` : what SubRip returns for a plain cue list (every cue with text) is in TTML's range and
  plain for TTML;
* `norm_bare_lines`    : what TTML returns for lines of one attribute-free run each, explicitly;
* `plainSRT_norm_ttml` : what TTML returns for SubRip's answer is in SubRip's range and plain for SubRip.
-/

namespace Astisub
namespace Conv3Chain
open Go List Driver ConvView Spec.Conv

/-! ## cue lists without TTML-own parts -/

theorem attrsOk_none : TTMLDoc.attrsOk none = true := by decide
theorem legalAttrs_none : Conv3TTML.legalAttrs none = true := by decide
theorem refOk_none (ids : List Str) : TTMLDoc.refOk ids none = true := rfl
theorem inKV_none : TTMLDoc.inKV none = [] := by decide

theorem styleAttributes_nil : TTML.styleAttributes [] = [] := by
  simp [TTML.styleAttributes, TTML.get, mkAttrs, sortKV, TTML.attrTable]

/-- a `StyleAttributes` value without any `TTML…` attribute -/
def noTTML (a : Attrs) : Prop := ∀ p ∈ TTML.attrTable, TTML.kvGet a ("TTML" ++ p.1) = none

theorem noTTML_none : noTTML none := fun _ _ => rfl
theorem noTTML_nil : noTTML (some []) := fun _ _ => rfl

theorem inKV_noTTML {a : Attrs} (h : noTTML a) : TTMLDoc.inKV a = [] := by
  unfold TTMLDoc.inKV
  rw [filterMap_eq_nil_iff]
  intro p hp
  simp [TTMLDoc.inEntry, h p hp]

theorem outAttrs_noTTML {a : Attrs} (h : noTTML a) : TTML.outAttrs a = [] := by
  unfold TTML.outAttrs
  rw [filterMap_eq_nil_iff]
  intro p hp
  obtain ⟨f, x⟩ := p
  simp [h (f, x) hp]

theorem attrsOk_noTTML {a : Attrs} (h : noTTML a) : TTMLDoc.attrsOk a = true := by
  unfold TTMLDoc.attrsOk
  have : TTML.kvGet a "TTMLZIndex" = none := h ("ZIndex", "zIndex") (by decide)
  rw [this]

theorem legalAttrs_noTTML {a : Attrs} (h : noTTML a) : Conv3TTML.legalAttrs a = true := by
  unfold Conv3TTML.legalAttrs
  rw [outAttrs_noTTML h]
  rfl

/-- what the TTML reader makes of an attribute list without `TTML…` attributes: the empty (non-nil) list -/
theorem readAttrs_noTTML {a : Attrs} (h : noTTML a) : TTML.styleAttributes (TTMLDoc.inKV a) = [] := by
  rw [inKV_noTTML h, styleAttributes_nil]

/-- a run without inline style reference and without `TTML…` attributes is plain when its text is simple -/
theorem plainRun_bare (ids : List Str) (li : LItem) (hs : simpleText li.text = true) (hst : li.style = none)
    (ha : noTTML li.attrs) : Conv3TTML.plainRun ids li = true := by
  simp only [Conv3TTML.plainRun, Conv3TTML.ownRun, hs, hst, attrsOk_noTTML ha, legalAttrs_noTTML ha, refOk_none,
    Conv3TTML.legalRef, Bool.and_self]

/-- a cue without references and `TTML…` attributes is plain when it has a line and its runs are plain -/
theorem plainCue_bare (sids rids : List Str) (it : CItem) (hst : it.style = none) (hrg : it.region = none)
    (ha : noTTML it.attrs) (hne : it.lines ≠ [])
    (hl : ∀ l ∈ it.lines, ∀ li ∈ l.items, Conv3TTML.plainRun sids li = true) :
    Conv3TTML.plainCue sids rids it = true := by
  have he : it.lines.isEmpty = false := by
    cases h : it.lines with
    | nil => exact absurd h hne
    | cons a r => rfl
  simp only [Conv3TTML.plainCue, he, hst, hrg, attrsOk_noTTML ha, legalAttrs_noTTML ha, refOk_none, Conv3TTML.legalRef,
    Bool.not_false, Bool.true_and, all_eq_true]
  exact hl

/-- a cue list without styles, regions, title and copyright is plain when it is not empty and its cues are plain -/
theorem plain_bare (s : Subs) (hs : s.styles = []) (hg : s.regions = [])
    (ht : TTMLDoc.titleOf s = []) (hc : TTMLDoc.copyrightOf s = []) (hne : s.items.isEmpty = false)
    (hcues : ∀ it ∈ s.items, Conv3TTML.plainCue [] [] it = true) : Conv3TTML.PlainTTML s = true := by
  simp only [Conv3TTML.PlainTTML, hs, hg, ht, hc, hne, map_nil, all_nil, Bool.not_false, Bool.true_and, Bool.and_true,
    nodup_nil, decide_true]
  have e : Conv3TTML.legalStr [] = true := rfl
  rw [e, Bool.and_self, Bool.true_and, all_eq_true]
  exact hcues

/-! ## SubRip's answer is plain for TTML -/

/-- the lines SubRip returns for a cue with plain lines: one attribute-free run per line -/
theorem srt_norm_lines (j : Nat) (it : CItem) (h : ∀ l ∈ it.lines, ConvSRT.plainLine l = true) :
    (SRTDoc.normItem j (SRTDoc.mergeItem it)).lines = it.lines.map fun l => ({ items := [{ text := l.str }] } : Line) := by
  simp only [SRTDoc.normItem, SRTDoc.mergeItem, map_map]
  apply map_congr_left
  intro l hlm
  exact ConvChain.norm_merge_line l (h l hlm)

theorem srt_norm_nonempty (s : Subs) (hne : s.items.isEmpty = false) :
    (SRTDoc.norm (SRTDoc.mergeS s)).items.isEmpty = false := by
  cases hi : s.items with
  | nil => rw [hi] at hne; cases hne
  | cons a rest => simp [SRTDoc.norm, SRTDoc.mergeS, hi, SRTDoc.normItems]

/-- **What SubRip returned is plain for TTML and in its range**, when every cue has text -/
theorem plainTTML_norm_srt (s : Subs) (hr : inRange "srt" s = true) (hp : ConvSRT.PlainSRT s = true)
    (hl : ∀ it ∈ s.items, it.lines ≠ []) :
    inRange "ttml" (SRTDoc.norm (SRTDoc.mergeS s)) = true ∧
    Conv3TTML.PlainTTML (SRTDoc.norm (SRTDoc.mergeS s)) = true := by
  obtain ⟨hr2, _⟩ := ConvChain.plainVTT_norm s hr hp
  refine ⟨by rw [Conv2Chain.inRange_congr (d' := "vtt") (by decide) (by decide)]; exact hr2, ?_⟩
  simp only [ConvSRT.PlainSRT, Bool.and_eq_true, Bool.not_eq_true', decide_eq_true_eq, all_eq_true] at hp
  obtain ⟨⟨hne, _⟩, hpl⟩ := hp
  apply plain_bare _ rfl rfl rfl rfl (srt_norm_nonempty s hne)
  intro x hx
  obtain ⟨j, it', hit', rfl⟩ := ConvChain.normItems_mem _ 0 x hx
  obtain ⟨it, hit, rfl⟩ := mem_map.mp hit'
  have hlines := srt_norm_lines j it (hpl it hit)
  apply plainCue_bare [] [] _ rfl rfl noTTML_none
  · rw [hlines]
    have := hl it hit
    cases hi : it.lines with
    | nil => exact absurd hi this
    | cons a r => simp
  · rw [hlines]
    intro l hlm li hli
    obtain ⟨l0, hl0, rfl⟩ := mem_map.mp hlm
    simp only [mem_singleton] at hli
    subst hli
    have h0 := hpl it hit l0 hl0
    simp only [ConvSRT.plainLine, Bool.and_eq_true] at h0
    exact plainRun_bare [] _ h0.1.2 rfl noTTML_none

/-! ## TTML's answer for such lines -/

/-- the line TTML returns for a line of one run without reference and `TTML…` attributes: the run's text,
    no voice, an empty (non-nil) attribute list -/
def bareLine (t : Str) : Line := { voice := [], items := [{ text := t, startAt := 0, style := none, attrs := some [] }] }

theorem normLine_one (v : Str) (t : Str) (st : Int) (a : Attrs) (ha : noTTML a) :
    TTMLDoc.normLine { voice := v, items := [{ text := t, startAt := st, style := none, attrs := a }] } = bareLine t := by
  simp only [TTMLDoc.normLine, TTMLDoc.normLItem, map_cons, map_nil, readAttrs_noTTML ha, bareLine]
  rfl

theorem srt_plainLine_bare (t : Str) (hs : simpleText t = true) (he : ConvSRT.edgesOk t = true) :
    ConvSRT.plainLine (bareLine t) = true := by
  have e : (bareLine t).str = t := by simp [bareLine, Line.str]
  simp only [ConvSRT.plainLine, e, hs, he, Bool.and_true]
  rfl

/-- **What TTML returned for SubRip's answer is plain for SubRip and in its range** -/
theorem plainSRT_norm_ttml (s : Subs) (hr : inRange "srt" s = true) (hp : ConvSRT.PlainSRT s = true)
    (hl : ∀ it ∈ s.items, it.lines ≠ []) :
    inRange "srt" (TTMLDoc.norm (SRTDoc.norm (SRTDoc.mergeS s))) = true ∧
    ConvSRT.PlainSRT (TTMLDoc.norm (SRTDoc.norm (SRTDoc.mergeS s))) = true := by
  obtain ⟨hr1, hp1⟩ := plainTTML_norm_srt s hr hp hl
  obtain ⟨_, _, hl1⟩ := Conv3TTML.rep_of_plain _ hr1 hp1
  constructor
  · rw [Conv2Chain.inRange_congr (d' := "ttml") (by decide) (by decide)]
    exact Conv2Chain.inRange_of_view (by decide) 1000000 (by decide) _ _ hr1 (Conv3TTML.view_norm _ hl1)
  · simp only [ConvSRT.PlainSRT, Bool.and_eq_true, Bool.not_eq_true', decide_eq_true_eq, all_eq_true] at hp
    obtain ⟨⟨hne, hlen⟩, hpl⟩ := hp
    have hne1 := srt_norm_nonempty s hne
    have hne2 : (TTMLDoc.norm (SRTDoc.norm (SRTDoc.mergeS s))).items.isEmpty = false := by
      simpa [TTMLDoc.norm] using hne1
    have hlen2 : (TTMLDoc.norm (SRTDoc.norm (SRTDoc.mergeS s))).items.length = s.items.length := by
      simp [TTMLDoc.norm, SRTDoc.norm, SRTDoc.mergeS, ConvChain.normItems_length]
    simp only [ConvSRT.PlainSRT, hne2, hlen2, hlen, Bool.not_false, decide_true, Bool.true_and, all_eq_true]
    intro x hx
    simp only [TTMLDoc.norm, mem_map] at hx
    obtain ⟨y, hy, rfl⟩ := hx
    obtain ⟨j, it', hit', rfl⟩ := ConvChain.normItems_mem _ 0 y hy
    obtain ⟨it, hit, rfl⟩ := mem_map.mp hit'
    have hlines := srt_norm_lines j it (hpl it hit)
    have hne' : it.lines ≠ [] := hl it hit
    intro l hlm
    simp only [TTMLDoc.normItem, hlines, TTMLDoc.normLines] at hlm
    have he : (it.lines.map fun l => ({ items := [{ text := l.str }] } : Line)).isEmpty = false := by
      cases hi : it.lines with
      | nil => exact absurd hi hne'
      | cons a r => rfl
    rw [he] at hlm
    simp only [Bool.false_eq_true, if_false, map_map, mem_map, Function.comp_apply] at hlm
    obtain ⟨l0, hl0, rfl⟩ := hlm
    have h0 := hpl it hit l0 hl0
    simp only [ConvSRT.plainLine, Bool.and_eq_true] at h0
    rw [show ({ items := [{ text := l0.str }] } : Line) = { voice := [], items := [{ text := l0.str, startAt := 0, style := none, attrs := none }] } from rfl,
      normLine_one [] l0.str 0 none noTTML_none]
    exact srt_plainLine_bare _ h0.1.2 h0.2

/-! ## WebVTT's answer is plain for TTML -/

theorem mem_zipIdx_map {α β : Type} (f : α × Nat → β) (l : List α) (k : Nat) (y : β)
    (hy : y ∈ (l.zipIdx k).map f) : ∃ a ∈ l, ∃ j, y = f (a, j) := by
  induction l generalizing k with
  | nil => simp at hy
  | cons a rest ih =>
    simp only [zipIdx_cons, map_cons, mem_cons] at hy
    rcases hy with rfl | hy
    · exact ⟨a, by simp, k, rfl⟩
    · obtain ⟨b, hb, j, e⟩ := ih (k + 1) hy
      exact ⟨b, by simp [hb], j, e⟩

/-- an attribute list built from entries none of which is named `k` has no `k` -/
theorem kvGet_mkAttrs_none (l : List (String × Option Str)) (k : String) (h : ∀ p ∈ l, p.1.toList ≠ k.toList) :
    TTML.kvGet (some (mkAttrs l)) k = none := by
  show (mkAttrs l).lookup k.toList = none
  rw [lookup_eq_none_iff]
  intro p hp
  have hp' : p ∈ l.filterMap fun (x : String × Option Str) => x.2.map fun v => (x.1.toList, v) :=
    (mergeSort_perm _ _).mem_iff.mp hp
  obtain ⟨x, hx, hxe⟩ := mem_filterMap.mp hp'
  cases hv : x.2 with
  | none => simp [hv] at hxe
  | some v =>
    simp only [hv, Option.map_some, Option.some.injEq] at hxe
    subst hxe
    simp only [bne_iff_ne, ne_eq]
    exact fun e => h x hx e.symm

theorem webvtt_not_ttml : ∀ p ∈ TTML.attrTable,
    ∀ k ∈ ["WebVTTAlign", "WebVTTLine", "WebVTTPosition", "WebVTTSize", "WebVTTVertical"],
      k.toList ≠ ("TTML" ++ p.1).toList := by decide

/-- the cue settings the WebVTT reader returns are not `TTML…` attributes -/
theorem noTTML_settings (a b c d e : Option Str) :
    noTTML (some (mkAttrs [("WebVTTAlign", a), ("WebVTTLine", b), ("WebVTTPosition", c), ("WebVTTSize", d),
      ("WebVTTVertical", e)])) := by
  intro p hp
  apply kvGet_mkAttrs_none
  intro q hq
  simp only [mem_cons, not_mem_nil, or_false] at hq
  have := webvtt_not_ttml p hp q.1 (by rcases hq with rfl | rfl | rfl | rfl | rfl <;> simp)
  exact this

theorem readItem_bare (t : Str) : VTT.readItem [] { text := t } = { text := t, startAt := 0, attrs := none } := by
  simp [VTT.readItem, VTT.runTags, VTT.tagsOfAttrs, VTT.tagsAttrs, SRT.kvGet, VTT.truncMs_zero]

/-- the lines WebVTT returns for a cue with plain lines: one attribute-free run per line -/
theorem vtt_read_lines (s : Subs) (k : Nat) (it : CItem) :
    (VTT.readCue (ConvVTT.flatS s) k (ConvVTT.flatItem it)).lines
      = it.lines.map fun l => ({ voice := l.voice, items := [{ text := l.str, startAt := 0, attrs := none }] } : Line) := by
  simp only [VTT.readCue, ConvVTT.flatItem, map_map]
  apply map_congr_left
  intro l _
  simp only [Function.comp_apply, VTT.readLine, ConvVTT.flatLine, map_cons, map_nil, readItem_bare]

theorem readSubs_mem (s : Subs) (x : CItem) (hx : x ∈ (VTT.readSubs (ConvVTT.flatS s)).items) :
    ∃ it ∈ s.items, ∃ k, x = VTT.readCue (ConvVTT.flatS s) k (ConvVTT.flatItem it) := by
  obtain ⟨a, ha, j, e⟩ := mem_zipIdx_map _ _ 0 x hx
  obtain ⟨it, hit, rfl⟩ := mem_map.mp ha
  exact ⟨it, hit, j, e⟩

theorem readSubs_nonempty (s : Subs) (hne : s.items.isEmpty = false) :
    (VTT.readSubs (ConvVTT.flatS s)).items.isEmpty = false := by
  cases hi : s.items with
  | nil => rw [hi] at hne; cases hne
  | cons a rest => simp [VTT.readSubs, ConvVTT.flatS, hi, zipIdx_cons]

theorem plainVTT_parts {s : Subs} (hp : ConvVTT.PlainVTT s = true) :
    s.items.isEmpty = false ∧ ∀ it ∈ s.items, ∀ l ∈ it.lines,
      l.voice = [] ∧ simpleText l.str = true ∧ ConvSRT.edgesOk l.str = true := by
  simp only [ConvVTT.PlainVTT, Bool.and_eq_true, Bool.not_eq_true', all_eq_true] at hp
  refine ⟨hp.1.1.1.1.1, fun it hit l hl => ?_⟩
  have := hp.2 it hit
  simp only [ConvVTT.plainCue, Bool.and_eq_true, all_eq_true] at this
  have := this.2 l hl
  simp only [ConvVTT.plainLine, Bool.and_eq_true, beq_iff_eq] at this
  exact ⟨this.1.1.1, this.1.2, this.2⟩

/-- the view of WebVTT's answer for a plain cue list -/
theorem view_vtt_back (s : Subs) :
    viewOf (VTT.readSubs (ConvVTT.flatS s)) = truncView 1000000 (viewOf s) := by
  rw [ConvVTT.view_readSubs, ConvVTT.view_flatS]

/-- **What WebVTT returned is plain for TTML and in its range**, when every cue has text -/
theorem plainTTML_read_vtt (s : Subs) (hr : inRange "vtt" s = true) (hp : ConvVTT.PlainVTT s = true)
    (hl : ∀ it ∈ s.items, it.lines ≠ []) :
    inRange "ttml" (VTT.readSubs (ConvVTT.flatS s)) = true ∧
    Conv3TTML.PlainTTML (VTT.readSubs (ConvVTT.flatS s)) = true := by
  obtain ⟨hne, hlines⟩ := plainVTT_parts hp
  constructor
  · rw [Conv2Chain.inRange_congr (d' := "vtt") (by decide) (by decide)]
    exact Conv2Chain.inRange_of_view (by decide) 1000000 (by decide) s _ hr (view_vtt_back s)
  · apply plain_bare _ rfl rfl rfl rfl (readSubs_nonempty s hne)
    intro x hx
    obtain ⟨it, hit, k, rfl⟩ := readSubs_mem s x hx
    apply plainCue_bare [] [] _ rfl rfl (noTTML_settings _ _ _ _ _)
    · rw [vtt_read_lines]
      have := hl it hit
      cases hi : it.lines with
      | nil => exact absurd hi this
      | cons a r => simp
    · rw [vtt_read_lines]
      intro l hlm li hli
      obtain ⟨l0, hl0, rfl⟩ := mem_map.mp hlm
      simp only [mem_singleton] at hli
      subst hli
      exact plainRun_bare [] _ (hlines it hit l0 hl0).2.1 rfl noTTML_none

/-! ## TTML's answer for WebVTT's answer is plain for SSA -/

theorem normMeta_none : TTMLDoc.normMeta none = some [] := by
  simp [TTMLDoc.normMeta, mkAttrs, sortKV, TTMLDoc.langIn, TTML.langOut, TTML.kvGet, TTMLDoc.normRef, TTML.languageOf, optStr]

theorem tablesOK_ttml_bare (s : Subs) (hm : s.metadata = some []) (hs : s.styles = []) : Conv2SSA.tablesOK s = true := by
  unfold Conv2SSA.tablesOK
  rw [hm, hs]
  decide

theorem ssa_plainLine_bare (t : Str) (hs : simpleText t = true) (he : ConvSRT.edgesOk t = true) :
    Conv2SSA.plainLine (bareLine t) = true := by
  have e : (bareLine t).str = t := by simp [bareLine, Line.str]
  simp only [Conv2SSA.plainLine, e, hs, he, Bool.and_true]
  rfl

/-- the cells of the Dialogue row of a cue as TTML returns it for a cue without references and `TTML…`
    attributes: nothing but the instants and the text -/
theorem cueCells_ttml_bare (st en : Int) (ls : List Line) (h : ∀ l ∈ ls, l.voice = []) :
    Conv2SSA.CueCells { index := 0, startAt := st, endAt := en, style := none, region := none, attrs := some [],
                        comments := [], lines := ls } := by
  have e1 : (SSA.eventOfItem { index := 0, startAt := st, endAt := en, style := none, region := none, attrs := some [], comments := [], lines := ls }).layer = none := rfl
  have e2 : (SSA.eventOfItem { index := 0, startAt := st, endAt := en, style := none, region := none, attrs := some [], comments := [], lines := ls }).marginL = none := rfl
  have e3 : (SSA.eventOfItem { index := 0, startAt := st, endAt := en, style := none, region := none, attrs := some [], comments := [], lines := ls }).marginR = none := rfl
  have e4 : (SSA.eventOfItem { index := 0, startAt := st, endAt := en, style := none, region := none, attrs := some [], comments := [], lines := ls }).marginV = none := rfl
  have e5 : (SSA.eventOfItem { index := 0, startAt := st, endAt := en, style := none, region := none, attrs := some [], comments := [], lines := ls }).style = [] := rfl
  have e6 : (SSA.eventOfItem { index := 0, startAt := st, endAt := en, style := none, region := none, attrs := some [], comments := [], lines := ls }).effect = [] := rfl
  have e7 : (SSA.eventOfItem { index := 0, startAt := st, endAt := en, style := none, region := none, attrs := some [], comments := [], lines := ls }).name = [] :=
    Conv2Chain.foldl_voice_nil ls h
  unfold Conv2SSA.CueCells
  simp only [e1, e2, e3, e4, e5, e6, e7]
  decide

/-- the cue TTML returns for a cue of WebVTT's answer -/
theorem normItem_read_vtt (s : Subs) (k : Nat) (it : CItem) (hne : it.lines ≠ []) :
    TTMLDoc.normItem (VTT.readCue (ConvVTT.flatS s) k (ConvVTT.flatItem it))
      = { index := 0, startAt := TTMLDoc.truncMs (it.startAt - it.startAt % 1000000),
          endAt := TTMLDoc.truncMs (it.endAt - it.endAt % 1000000), style := none, region := none, attrs := some [],
          comments := [], lines := it.lines.map fun l => bareLine l.str } := by
  have hl : TTMLDoc.normLines (VTT.readCue (ConvVTT.flatS s) k (ConvVTT.flatItem it)).lines
      = it.lines.map fun l => bareLine l.str := by
    rw [vtt_read_lines]
    have he : (it.lines.map fun l => ({ voice := l.voice, items := [{ text := l.str, startAt := 0, attrs := none }] } : Line)).isEmpty = false := by
      cases hi : it.lines with
      | nil => exact absurd hi hne
      | cons a r => rfl
    simp only [TTMLDoc.normLines, he, Bool.false_eq_true, if_false, map_map]
    apply map_congr_left
    intro l _
    exact normLine_one l.voice l.str 0 none noTTML_none
  have ha : TTML.styleAttributes (TTMLDoc.inKV (VTT.readCue (ConvVTT.flatS s) k (ConvVTT.flatItem it)).attrs) = [] :=
    readAttrs_noTTML (noTTML_settings _ _ _ _ _)
  unfold TTMLDoc.normItem
  rw [hl, ha]
  rfl

/-- **What TTML returned for WebVTT's answer is plain for SSA and in its range**, when every cue has text and
    the SSA document written for it passes the scanner -/
theorem plainSSA_norm_ttml_vtt (s : Subs) (hr : inRange "vtt" s = true) (hp : ConvVTT.PlainVTT s = true)
    (hl : ∀ it ∈ s.items, it.lines ≠ [])
    (hfit : Conv2SSA.docFit (TTMLDoc.norm (VTT.readSubs (ConvVTT.flatS s))) = true) :
    inRange "ssa" (TTMLDoc.norm (VTT.readSubs (ConvVTT.flatS s))) = true ∧
    Conv2SSA.PlainSSA (TTMLDoc.norm (VTT.readSubs (ConvVTT.flatS s))) = true := by
  obtain ⟨hr1, hp1⟩ := plainTTML_read_vtt s hr hp hl
  obtain ⟨_, _, hl1⟩ := Conv3TTML.rep_of_plain _ hr1 hp1
  obtain ⟨hne, hlines⟩ := plainVTT_parts hp
  constructor
  · rw [Conv2Chain.inRange_congr (d' := "ttml") (by decide) (by decide)]
    exact Conv2Chain.inRange_of_view (by decide) 1000000 (by decide) _ _ hr1 (Conv3TTML.view_norm _ hl1)
  · have hne2 : (TTMLDoc.norm (VTT.readSubs (ConvVTT.flatS s))).items.isEmpty = false := by
      simpa [TTMLDoc.norm] using readSubs_nonempty s hne
    have htab : Conv2SSA.tablesOK (TTMLDoc.norm (VTT.readSubs (ConvVTT.flatS s))) = true :=
      tablesOK_ttml_bare _ normMeta_none (by simp [TTMLDoc.norm, VTT.readSubs, TTML.sortDefs])
    simp only [Conv2SSA.PlainSSA, hne2, htab, hfit, Bool.not_false, Bool.true_and, Bool.and_true, all_eq_true]
    intro x hx
    simp only [TTMLDoc.norm, mem_map] at hx
    obtain ⟨y, hy, rfl⟩ := hx
    obtain ⟨it, hit, k, rfl⟩ := readSubs_mem s y hy
    rw [normItem_read_vtt s k it (hl it hit)]
    have hvoice : ∀ l ∈ it.lines.map (fun l => bareLine l.str), l.voice = [] := by
      intro l hlm
      obtain ⟨l0, _, rfl⟩ := mem_map.mp hlm
      rfl
    have hcells := cueCells_ttml_bare (TTMLDoc.truncMs (it.startAt - it.startAt % 1000000))
      (TTMLDoc.truncMs (it.endAt - it.endAt % 1000000)) _ hvoice
    simp only [Conv2SSA.plainCue, hcells, decide_true, Bool.and_true, Bool.and_eq_true, Bool.not_eq_true', all_eq_true]
    constructor
    · have := hl it hit
      cases hi : it.lines with
      | nil => exact absurd hi this
      | cons a r => rfl
    · intro l hlm
      obtain ⟨l0, hl0, rfl⟩ := mem_map.mp hlm
      exact ssa_plainLine_bare _ (hlines it hit l0 hl0).2.1 (hlines it hit l0 hl0).2.2

end Conv3Chain
end Astisub
