import Astisub.Lemmas.STLFile

/-!
# Lemmas/STLDecide — the well-formedness predicates of the STL round trips are decidable
-/

namespace Astisub
namespace C05
open Go STL

/-- recogniser of repertoire units: one byte = a carried table character with its text; two bytes = a floating
    diacritic and a letter with the composed text -/
def repUnitB (u : Unit) : Bool :=
  match u.bytes with
  | [k] => carried.contains (k, u.text)
  | [a, l] => accents.contains a && letters.contains l && u.text == nfcPair l a
  | _ => false

theorem repUnitB_iff (u : Unit) : repUnitB u = true ↔ RepUnit u := by
  obtain ⟨t, b⟩ := u
  constructor
  · intro h
    unfold repUnitB at h
    simp only at h
    match b, h with
    | [k], h =>
      have : (k, t) ∈ carried := by simpa using h
      exact RepUnit.ch (k, t) this
    | [a, l], h =>
      simp only [Bool.and_eq_true, List.contains_iff_mem, beq_iff_eq] at h
      have e : (⟨t, [a, l]⟩ : Unit) = accentUnit a l := by simp [accentUnit, h.2]
      rw [e]; exact RepUnit.acc a l h.1.1 h.1.2
  · intro h
    cases h with
    | ch e he =>
      unfold repUnitB
      simpa using he
    | acc a l ha hl =>
      unfold repUnitB
      simp [ha, hl]

instance (u : Unit) : Decidable (RepUnit u) := decidable_of_iff _ (repUnitB_iff u)

instance (r : RRun) : Decidable r.ok := by unfold RRun.ok; infer_instance

instance (c : RCue) : Decidable c.ok := by unfold RCue.ok; infer_instance

end C05
end Astisub
