import Astisub.Props.C03doc
import Astisub.Lemmas.ConvView

/-!
# Lemmas/Conv3TTML — conversion to TTML (C07, destination `ttml`)

* `view_norm`       : what the TTML reader returns for a written cue list (`TTMLDoc.norm s`,
  `Props/C03doc.lean`) shows the cues of `s` with instants truncated to the millisecond, when every cue
  has at least one line;
* `convOk_norm`     : the check's predicate holds on `(s, norm s)` for EVERY cue list (a cue without lines
  comes back with one empty line, about which the predicate says nothing);
* `PlainTTML`       : plain cue lists (simple characters, representable TTML-own parts, any other attribute);
* `rep_of_plain`    : they satisfy the provisos `TTMLDoc.rep` and `TTMLDoc.xmlCarries` of `C03doc.write_read`;
* `viaTTML`, `via_rep` : the conversion (writer model, the `encoding/xml` contract, reader model).
-/

namespace Astisub
namespace Conv3TTML
open Go Spec.Conv ConvView List
open Driver (inRange convOk unitOfDst)

/-! ## the view of the normal form -/

theorem truncMs_eq (t : Int) : TTMLDoc.truncMs t = truncTo 1000000 t := rfl

theorem unit_ttml : unitOfDst "ttml" = 1000000 := by decide

/-- the texts of the lines survive: same lines, same runs, same texts -/
theorem lineTexts_normItem (it : CItem) (hne : it.lines ≠ []) : lineTexts (TTMLDoc.normItem it) = lineTexts it := by
  cases hl : it.lines with
  | nil => exact absurd hl hne
  | cons l ls =>
    simp [lineTexts, TTMLDoc.normItem, hl, TTMLDoc.normLines, TTMLDoc.normLine, TTMLDoc.normLItem, Function.comp_def]

theorem cueView_normItem (it : CItem) (hne : it.lines ≠ []) :
    cueView (TTMLDoc.normItem it) = truncCue 1000000 (cueView it) := by
  have h := cueView_congr (TTMLDoc.normItem it)
    { it with startAt := TTMLDoc.truncMs it.startAt, endAt := TTMLDoc.truncMs it.endAt } rfl rfl
    (by rw [lineTexts_normItem it hne]; rfl)
  rw [h]
  rfl

/-- a cue without lines is read back with one empty line: the view differs in the `blank` flag only -/
theorem cueView_normItem_nil (it : CItem) (hl : it.lines = []) :
    cueView (TTMLDoc.normItem it) = { truncCue 1000000 (cueView it) with blank := true } := by
  simp [cueView, TTMLDoc.normItem, hl, TTMLDoc.normLines, truncCue, truncMs_eq, squash]

/-- **View of what TTML gives back.** same cues in the same order, instants truncated to the
    millisecond, same text lines — for every cue list in which every cue has a line -/
theorem view_norm (s : Subs) (hl : ∀ it ∈ s.items, it.lines ≠ []) :
    viewOf (TTMLDoc.norm s) = truncView 1000000 (viewOf s) := by
  simp only [viewOf_eq, TTMLDoc.norm, truncView, map_map]
  apply map_congr_left
  intro it hit
  exact cueView_normItem it (hl it hit)

/-- one cue of the predicate -/
theorem cue_ok (it : CItem) :
    (cueView (TTMLDoc.normItem it)).startAt = truncTo 1000000 (cueView it).startAt ∧
    (cueView (TTMLDoc.normItem it)).endAt = truncTo 1000000 (cueView it).endAt ∧
    (cueView (TTMLDoc.normItem it)).lines = (cueView it).lines := by
  by_cases hl : it.lines = []
  · rw [cueView_normItem_nil it hl]; exact ⟨rfl, rfl, rfl⟩
  · rw [cueView_normItem it hl]; exact ⟨rfl, rfl, rfl⟩

theorem zip_map_map_all {α β γ : Type} (f : α → β) (g : α → γ) (p : β × γ → Bool) (l : List α) :
    (List.zip (l.map f) (l.map g)).all p = l.all fun a => p (f a, g a) := by
  induction l with
  | nil => rfl
  | cons a l ih => simp [ih]

/-- **The check's predicate holds on `(s, norm s)` for every cue list**, with or without cues that have no
    line: same number of cues, same order, instants truncated to the millisecond, same visible text lines -/
theorem convOk_norm (strict : Bool) (s : Subs) : convOk strict "ttml" s (TTMLDoc.norm s) = true := by
  unfold convOk
  have hd : ("ttml" = "stl") = False := by decide
  have e : viewOf (TTMLDoc.norm s) = s.items.map (fun it => cueView (TTMLDoc.normItem it)) := by
    simp [viewOf_eq, TTMLDoc.norm]
  rw [e, viewOf_eq]
  simp only [hd, if_false, length_map, beq_self_eq_true, Bool.true_and, zip_map_map_all, unit_ttml]
  rw [all_eq_true]
  intro it _
  obtain ⟨h1, h2, h3⟩ := cue_ok it
  simp [h1, h2, h3]

/-! ## plain cue lists -/

/-- character data `encoding/xml` carries unchanged (the domain of the contract, `TTMLDoc.xmlCarries`) -/
def legalStr (x : Str) : Bool := x.all TTMLDoc.xmlLegal
def legalRef (r : Option Str) : Bool := match r with | some x => legalStr x | none => true
/-- the values of the `TTML…` attributes (the ones the writer emits as `tts:*`) are XML-legal -/
def legalAttrs (a : Attrs) : Bool := (TTML.outAttrs a).all fun kv => legalStr kv.2

/-- the TTML-own parts of a run are representable: `TTMLZIndex`, if set, is an integer (`attrsOk`); the inline
    style reference is empty or the identifier of a defined style; reference and `TTML…` values are XML-legal.
    Every attribute of another format (`SRT…`, `WebVTT…`, `SSA…`, `STL…`, `Teletext…`) and the start offset are free. -/
def ownRun (styleIds : List Str) (li : LItem) : Bool :=
  TTMLDoc.attrsOk li.attrs && TTMLDoc.refOk styleIds li.style && legalRef li.style && legalAttrs li.attrs

/-- a plain run: simple text (letters, digits, blanks, `, . ! ?` — in particular no line feed, which the reader
    takes for a line break: known finding `ttml-newline-in-text-becomes-line-break`), own parts representable.
    The text may be empty and may begin or end with a blank (a `span` keeps its white space). -/
def plainRun (styleIds : List Str) (li : LItem) : Bool := simpleText li.text && ownRun styleIds li

/-- a style / region definition is representable: `zIndex` an integer, parent / style reference empty or
    defined, identifier, reference and `TTML…` values XML-legal -/
def ownDef (styleIds : List Str) (d : Def) : Bool :=
  TTMLDoc.defOk styleIds d && legalStr d.id && legalRef d.ref && legalAttrs d.attrs

/-- a plain cue: at least one line (a cue without lines is read back with one empty line); style and region
    references empty or defined; `zIndex` an integer; XML-legal own values; every run plain.  Free: every
    attribute of another format, index, comments, voices, how a line is cut into runs, empty lines. -/
def plainCue (styleIds regionIds : List Str) (it : CItem) : Bool :=
  !it.lines.isEmpty && TTMLDoc.attrsOk it.attrs && TTMLDoc.refOk styleIds it.style && TTMLDoc.refOk regionIds it.region &&
  legalRef it.style && legalRef it.region && legalAttrs it.attrs &&
  it.lines.all fun l => l.items.all (plainRun styleIds)

/-- **Plain cue lists for TTML.** at least one cue; style identifiers pairwise distinct, region identifiers
    pairwise distinct (they are map keys in Go); title and copyright XML-legal; every definition
    representable; every cue plain.  All other metadata is free. -/
def PlainTTML (s : Subs) : Bool :=
  !s.items.isEmpty && decide (s.styles.map Def.id).Nodup && decide (s.regions.map Def.id).Nodup &&
  legalStr (TTMLDoc.titleOf s) && legalStr (TTMLDoc.copyrightOf s) &&
  s.styles.all (ownDef (s.styles.map Def.id)) && s.regions.all (ownDef (s.styles.map Def.id)) &&
  s.items.all (plainCue (s.styles.map Def.id) (s.regions.map Def.id))

/-- non-vacuity: foreign attributes everywhere, several runs per line, an empty run, an empty line, blanks at
    the edges, a sub-millisecond instant, a voice, a comment, a region and two styles (one with a parent and a
    `zIndex`), references, TTML attributes, metadata -/
def exampleForeign : Subs :=
  { items := [
      { startAt := 1234567890, endAt := 3000000000, index := 7, region := some "r".toList, style := some "b".toList,
        attrs := some [("STLJustificationCode".toList, "2".toList), ("TTMLOrigin".toList, "10% 20%".toList),
                       ("WebVTTAlign".toList, "start".toList)],
        comments := ["seen".toList],
        lines := [ { voice := "Bob".toList,
                     items := [ { text := "Hello, ".toList, style := some "a".toList,
                                  attrs := some [("SRTBold".toList, "true".toList), ("TTMLColor".toList, "#ff0000".toList)] },
                                { text := "".toList, startAt := 5 },
                                { text := "world ".toList, attrs := some [("SSAEffect".toList, "{\\i1}".toList), ("WebVTTTags".toList, "b".toList)] } ] },
                   { items := [] },
                   { items := [ { text := " Is it?".toList, attrs := some [("TeletextSpacesBefore".toList, "1".toList)] } ] } ] },
      { startAt := 3000000000, endAt := 359999999999999, lines := [ { items := [ { text := "Yes.".toList } ] } ] } ],
    styles := [ { id := "b".toList, ref := some "a".toList, attrs := some [("SSAFontName".toList, "Arial".toList)] },
                { id := "a".toList, attrs := some [("TTMLColor".toList, "red".toList), ("TTMLZIndex".toList, " +7".toList)] } ],
    regions := [ { id := "r".toList, ref := some "a".toList, attrs := some [("WebVTTLines".toList, "3".toList)] } ],
    metadata := some [("Language".toList, "french".toList), ("SSAScriptType".toList, "v4.00+".toList), ("Title".toList, "T".toList)] }

theorem exampleForeign_plain : PlainTTML exampleForeign = true := by decide +kernel
theorem exampleForeign_range : inRange "ttml" exampleForeign = true := by decide +kernel
example : plainRun [] { text := "a\nb".toList } = false := by decide
example : plainRun [] { text := "a".toList, style := some "x".toList } = false := by decide
example : plainRun [] { text := "a".toList, attrs := some [("TTMLZIndex".toList, "auto".toList)] } = false := by decide
example : plainCue [] [] { startAt := 0, endAt := 1, lines := [] } = false := by decide
example : plainCue [] [] { startAt := 0, endAt := 1, region := some "r".toList, lines := [{ items := [] }] } = false := by decide

/-! ## plain cue lists in range are representable -/

theorem simple_no_nl {t : Str} (h : simpleText t = true) : t.contains '\n' = false := by
  rw [simpleText_eq, all_eq_true] at h
  rw [contains_eq_mem, decide_eq_false_iff_not]
  intro hm
  have := h _ hm
  revert this
  decide

theorem simpleChar_legal {c : Char} (h : simpleChar c = true) : TTMLDoc.xmlLegal c = true := by
  obtain ⟨h1, h2⟩ := simpleChar_le h
  simp only [TTMLDoc.xmlLegal, Bool.or_eq_true, Bool.and_eq_true, beq_iff_eq, decide_eq_true_eq]
  omega

theorem simple_legal {t : Str} (h : simpleText t = true) : legalStr t = true := by
  rw [simpleText_eq, all_eq_true] at h
  unfold legalStr
  rw [all_eq_true]
  exact fun c hc => simpleChar_legal (h c hc)

theorem plainRun_runOk {ids : List Str} {li : LItem} (h : plainRun ids li = true) : TTMLDoc.runOk ids li = true := by
  simp only [plainRun, ownRun, Bool.and_eq_true] at h
  obtain ⟨hs, ⟨⟨ha, hr⟩, _⟩, _⟩ := h
  simp only [TTMLDoc.runOk, ha, hr, simple_no_nl hs, Bool.not_false, Bool.and_self]

/-- `xmlCarries` in the vocabulary of this file -/
theorem xmlCarries_eq (s : Subs) : TTMLDoc.xmlCarries s =
    (legalStr (TTMLDoc.titleOf s) && legalStr (TTMLDoc.copyrightOf s) &&
     s.styles.all (fun d => legalStr d.id && legalRef d.ref && legalAttrs d.attrs) &&
     s.regions.all (fun d => legalStr d.id && legalRef d.ref && legalAttrs d.attrs) &&
     s.items.all fun it => legalRef it.style && legalRef it.region && legalAttrs it.attrs &&
       it.lines.all fun l => l.items.all fun li => legalStr li.text && legalRef li.style && legalAttrs li.attrs) := rfl

/-- **Plain cue lists in range satisfy the provisos of the TTML document round trip** (`C03doc.write_read`):
    `rep` (used by its proof) and `xmlCarries` (the domain on which the `encoding/xml` contract is claimed);
    and every cue has a line -/
theorem rep_of_plain (s : Subs) (hr : inRange "ttml" s = true) (hp : PlainTTML s = true) :
    TTMLDoc.rep s = true ∧ TTMLDoc.xmlCarries s = true ∧ ∀ it ∈ s.items, it.lines ≠ [] := by
  have hrg := inRange_items (dst := "ttml") (by decide) hr
  simp only [PlainTTML, Bool.and_eq_true, all_eq_true, decide_eq_true_eq] at hp
  obtain ⟨⟨⟨⟨⟨⟨⟨hne, hsn⟩, hrn⟩, hti⟩, hco⟩, hst⟩, hrg'⟩, hit⟩ := hp
  have hcue : ∀ it ∈ s.items, (it.lines.isEmpty = false ∧ TTMLDoc.attrsOk it.attrs = true ∧
      TTMLDoc.refOk (s.styles.map Def.id) it.style = true ∧ TTMLDoc.refOk (s.regions.map Def.id) it.region = true ∧
      legalRef it.style = true ∧ legalRef it.region = true ∧ legalAttrs it.attrs = true) ∧
      ∀ l ∈ it.lines, ∀ li ∈ l.items, plainRun (s.styles.map Def.id) li = true := by
    intro it hi
    have := hit it hi
    simp only [plainCue, Bool.and_eq_true, all_eq_true, Bool.not_eq_true'] at this
    obtain ⟨⟨⟨⟨⟨⟨⟨a1, a2⟩, a3⟩, a4⟩, a5⟩, a6⟩, a7⟩, a8⟩ := this
    exact ⟨⟨a1, a2, a3, a4, a5, a6, a7⟩, a8⟩
  refine ⟨?_, ?_, ?_⟩
  · simp only [TTMLDoc.rep, Bool.and_eq_true, all_eq_true, decide_eq_true_eq]
    refine ⟨⟨⟨⟨⟨hne, hsn⟩, hrn⟩, fun d hd => ?_⟩, fun d hd => ?_⟩, fun it hi => ?_⟩
    · have := hst d hd
      simp only [ownDef, Bool.and_eq_true] at this
      exact this.1.1.1
    · have := hrg' d hd
      simp only [ownDef, Bool.and_eq_true] at this
      exact this.1.1.1
    · obtain ⟨⟨_, b2, b3, b4, _⟩, b8⟩ := hcue it hi
      obtain ⟨t1, t2, t3, t4⟩ := hrg it hi
      simp only [TTMLDoc.cueOk, Bool.and_eq_true, all_eq_true]
      exact ⟨⟨⟨⟨⟨TTMLDoc.timeOk_iff.mpr ⟨t1, t2⟩, TTMLDoc.timeOk_iff.mpr ⟨t3, t4⟩⟩, b2⟩, b3⟩, b4⟩,
        fun l hl li hli => plainRun_runOk (b8 l hl li hli)⟩
  · rw [xmlCarries_eq]
    simp only [Bool.and_eq_true, all_eq_true]
    refine ⟨⟨⟨⟨hti, hco⟩, fun d hd => ?_⟩, fun d hd => ?_⟩, fun it hi => ?_⟩
    · have := hst d hd
      simp only [ownDef, Bool.and_eq_true] at this
      exact ⟨⟨this.1.1.2, this.1.2⟩, this.2⟩
    · have := hrg' d hd
      simp only [ownDef, Bool.and_eq_true] at this
      exact ⟨⟨this.1.1.2, this.1.2⟩, this.2⟩
    · obtain ⟨⟨_, _, _, _, b5, b6, b7⟩, b8⟩ := hcue it hi
      refine ⟨⟨⟨b5, b6⟩, b7⟩, fun l hl li hli => ?_⟩
      have := b8 l hl li hli
      simp only [plainRun, ownRun, Bool.and_eq_true] at this
      exact ⟨⟨simple_legal this.1, this.2.1.2⟩, this.2.2⟩
  · intro it hi
    obtain ⟨⟨b1, _⟩, _⟩ := hcue it hi
    intro e
    rw [e] at b1
    cases b1

/-! ## the conversion -/

/-- **the conversion to TTML**: the writer model, then the ASSUMED contract of `encoding/xml`
    (`TTMLDoc.unmarshal ix`, `Lemmas/TTMLDocXml.lean`: `Marshal` followed by `Decode` into `TTMLIn`, with
    the bytes of every paragraph's inner XML an arbitrary function `ix` of its tokens), then the reader
    model; `none` when the writer refuses or the reader fails or leaves its modelled class -/
def viaTTML (ix : List TTML.XTok → Str) (s : Subs) : Option Subs :=
  match TTML.write s with
  | none => none
  | some w => match TTML.read (TTMLDoc.unmarshal ix w) with
    | .ok back => some back
    | _ => none

/-- representable cue lists convert, and what comes back is the normal form of `Props/C03doc.lean` -/
theorem via_rep (ix : List TTML.XTok → Str) (s : Subs) (h : TTMLDoc.rep s = true) (hx : TTMLDoc.xmlCarries s = true) :
    viaTTML ix s = some (TTMLDoc.norm s) := by
  obtain ⟨w, hw, hrd⟩ := C03doc.write_read ix s h hx
  simp only [viaTTML, hw, hrd]

end Conv3TTML
end Astisub
