import Astisub.Lemmas.STLRWFile

/-!
# Lemmas/STLRWClock — the reader always supplies the dates, so a rewrite never looks at the clock

`WriteToSTL` stamps the creation / revision date with `Now()` only when the metadata has none.  `ReadFromSTL` always
sets both (a blank field is the zero time), as well as the maximum number of characters / rows.  Hence writing what
was read — any file, not only a written one — gives the same bytes on whatever day.
-/

namespace Astisub
namespace C05
open Go STL

theorem parseGSI_options (b : Bytes) (g : GSI) (h : parseGSI b = some g) :
    g.m.creation.isSome ∧ g.m.revisionDate.isSome ∧ g.m.maxChars.isSome ∧ g.m.maxRows.isSome := by
  unfold parseGSI at h
  split at h
  · cases h
  · simp only at h
    split at h
    · cases h
    · split at h
      · split at h
        · cases h
          exact ⟨rfl, rfl, rfl, rfl⟩
        · cases h
      · cases h

theorem read_options (ig : Bool) (doc : Bytes) (m2 : Meta) (items : List CItem) (h : STL.read ig doc = .ok (m2, items)) :
    m2.creation.isSome ∧ m2.revisionDate.isSome ∧ m2.maxChars.isSome ∧ m2.maxRows.isSome := by
  unfold STL.read at h
  split at h
  · cases h
  · split at h
    · cases h
    · rename_i g hg
      have := parseGSI_options _ g hg
      simp only at h
      split at h
      · cases h
      · split at h
        · cases h
        · cases h
          cases ig <;> exact this

theorem newGSI_clock (now now' : Date) (m : Meta) (cues : List WCue) (hc : m.creation.isSome) (hr : m.revisionDate.isSome) :
    newGSI now (some m) cues = newGSI now' (some m) cues := by
  unfold newGSI
  cases hcd : m.creation with
  | none => rw [hcd] at hc; cases hc
  | some cd =>
    cases hrd : m.revisionDate with
    | none => rw [hrd] at hr; cases hr
    | some rd => simp only [hcd, hrd, Option.getD_some, defaultMeta]

theorem write_clock (now now' : Date) (m : Meta) (cues : List WCue) (hc : m.creation.isSome) (hr : m.revisionDate.isSome) :
    write now (some m) cues = write now' (some m) cues := by
  unfold write writeBody
  rw [newGSI_clock now now' m cues hc hr]

end C05
end Astisub
