import Astisub.Lemmas.VTTRead2Defs
import Astisub.Lemmas.VTTLine
import Astisub.Lemmas.VTTRead2TextA

/-!
# Lemmas/VTTRead2TextB — cue text, read side: the tokenizer model and the tag expression

* `J'`: the judgement `VTT.J` with the alternative "the tokenizer model does not cover the input";
* `tagRe_general`: the tag expression on `<name.classes  annotation  >` (any run of white space
  before the annotation, trailing white space kept in sub-match 4);
* the reader's steps on the tokens of a line of the decoder's class.
-/

namespace Astisub
namespace VTTRead
open Go Spec.VTT List
open VTT (PT stepTok foldToks flushTok flushSt foldToks_flushTok foldToks_append tokLoop_nil tokLoop_char)
open SRT (unescapeHTML)

/-! ### the judgement -/

/-- from state `st` with pending text `acc`, input `s` is outside the tokenizer model or ends in state `f` -/
def J' (s acc : Str) (st f : PT) : Prop :=
  ∀ (out : List Tok) (st₀ : PT), foldToks st₀ out.reverse = some st →
    ∀ fuel, s.length + 1 ≤ fuel →
      tokLoop fuel s acc out = .unmodelled ∨
      ∃ toks, tokLoop fuel s acc out = .ok toks ∧ foldToks st₀ toks = some f

theorem J'_nil {acc : Str} {st f : PT} (h : flushSt st acc = some f) : J' [] acc st f := by
  intro out st₀ h0 fuel hf
  obtain ⟨k, rfl⟩ : ∃ k, fuel = k + 1 := ⟨fuel - 1, by simp at hf; omega⟩
  exact Or.inr ⟨_, tokLoop_nil k acc out, by rw [foldToks_flushTok st₀ st acc out h0, h]⟩

theorem tokLoop_nul (fuel : Nat) (s acc : Str) (out : List Tok) :
    tokLoop (fuel + 1) ('\x00' :: s) acc out = .unmodelled := by
  conv => lhs; rw [tokLoop.eq_def]
  simp

theorem J'_char {c : Char} {s acc : Str} {st f : PT} (h1 : c ≠ '<')
    (h : J' s (c :: acc) st f) : J' (c :: s) acc st f := by
  intro out st₀ h0 fuel hf
  obtain ⟨k, rfl⟩ : ∃ k, fuel = k + 1 := ⟨fuel - 1, by simp at hf; omega⟩
  by_cases h2 : c = '\x00'
  · subst h2; exact Or.inl (tokLoop_nul k s acc out)
  · rw [tokLoop_char k c s acc out h1 h2]
    exact h out st₀ h0 k (by simp at hf; omega)

theorem J'_text {x : Str} (hx : ∀ c ∈ x, c ≠ '<') {s acc : Str} {st f : PT}
    (h : J' s (x.reverse ++ acc) st f) : J' (x ++ s) acc st f := by
  induction x generalizing acc with
  | nil => simpa using h
  | cons c x ih =>
    rw [cons_append]
    apply J'_char (hx c (by simp))
    apply ih (fun d hd => hx d (by simp [hd]))
    simpa using h

/-- a piece that the tokenizer turns into one token `tok` (with `P tok`), after the pending text —
    or that it does not model -/
theorem J'_tok {c s acc : Str} {st st1 st2 f : PT} (P : Tok → Prop) (hlen : 1 ≤ c.length)
    (hc : ∀ fuel out, tokLoop (fuel + 1) (c ++ s) acc out = .unmodelled ∨
      ∃ tok, P tok ∧ tokLoop (fuel + 1) (c ++ s) acc out = tokLoop fuel s [] (tok :: flushTok acc out))
    (h1 : flushSt st acc = some st1) (h2 : ∀ tok, P tok → stepTok st1 tok = some st2)
    (h : J' s [] st2 f) : J' (c ++ s) acc st f := by
  intro out st₀ hst fuel hf
  obtain ⟨n, rfl⟩ : ∃ n, fuel = n + 1 := ⟨fuel - 1, by omega⟩
  rcases hc n out with hu | ⟨tok, hP, htl⟩
  · exact Or.inl hu
  · rw [htl]
    apply h (tok :: flushTok acc out) st₀ _ n (by simp at hf; omega)
    rw [reverse_cons, foldToks_append, foldToks_flushTok st₀ st acc out hst, h1]
    simp [foldToks, h2 tok hP]

/-- the judgement from the initial state is the result of `parseText` -/
theorem parseText_of_J' {s : Str} {sa : List VTT.Tag} {f : PT} (h : J' s [] { tags := sa } f) :
    VTT.parseText s sa = .unmodelled ∨
    VTT.parseText s sa = .ok (f.tags, { voice := f.voice, items := f.items }) := by
  rcases h [] { tags := sa } (by simp [foldToks]) (s.length + 2) (by omega) with h1 | ⟨toks, h1, h2⟩
  · left
    unfold VTT.parseText tokenize
    rw [h1]
  · right
    unfold VTT.parseText tokenize
    rw [h1]; simp only [h2]

/-! ### the pending text -/

theorem splitTs_plain (x : Str) (hx : ∀ c ∈ x, c ≠ '<') : splitTs (x.length + 1) x = (x, []) := by
  have hx' : '<' ∉ x := fun h => hx _ h rfl
  have := VTT.splitTs_text x hx' 1 []
  rw [Nat.add_comm] at this
  simpa [splitTs] using this

/-- a non-empty `<`-free pending text is one run (no instant is pending) -/
theorem flushSt_text (st : PT) (x : Str) (hx : ∀ c ∈ x, c ≠ '<') (hne : x ≠ []) (hp : st.pending = 0) :
    flushSt st x.reverse = some { st with
      items := st.items ++ [{ text := unescapeHTML x, startAt := 0, attrs := VTT.tagsAttrs st.tags }],
      pending := 0 } := by
  unfold flushSt
  rw [if_neg (by simpa using hne), List.reverse_reverse]
  simp only [stepTok, VTT.textToken, splitTs_plain x hx, List.isEmpty_nil, if_true, hp]
  by_cases hb : trimSpace x = []
  · simp [hb]
  · simp [hb]

theorem flushSt_empty (st : PT) : flushSt st ([] : Str).reverse = some st := by simp [flushSt]

/-! ### the tag expression, general form (M2) -/

/-- the tail `\s*([^/]*)\s*/*>` on `white-space  annotation >`: sub-match 4 is the annotation with its
    trailing white space -/
theorem tagRest_general (p w : Str) (hp : ∀ c ∈ p, reWS c = true) (hw : ∀ c ∈ w, c ≠ '/')
    (hw0 : ∀ c r, w = c :: r → reWS c = false) : tagRest (p ++ (w ++ ['>'])) = some w := by
  have hq : (p ++ (w ++ ['>'])).dropWhile reWS = w ++ ['>'] := by
    rw [VTT.TokAux.dropWhile_all p _ hp]
    cases w with
    | nil => have : reWS '>' = false := by decide
             simp [this]
    | cons y t => simp [hw0 y t rfl]
  have hrun : (w ++ ['>']).takeWhile (· != '/') = w ++ ['>'] := by
    apply VTT.takeWhile_all
    intro c hc
    rcases List.mem_append.mp hc with h | h
    · simpa using hw c h
    · simp at h; subst h; decide
  unfold tagRest
  simp only [hq, hrun, VTT.lastGt_snoc]
  simp

/-- `(\.[^\s/]*)*\s*([^/]*)\s*/*>` when no class follows the name -/
theorem tagAfterName_nocls (p w : Str) (hp : ∀ c ∈ p, reWS c = true) (hw : ∀ c ∈ w, c ≠ '/')
    (hw0 : ∀ c r, w = c :: r → reWS c = false) (hpw : p ≠ [] ∨ w = []) :
    tagAfterName (p ++ (w ++ ['>'])) = some ([], w) := by
  have ht := tagRest_general p w hp hw hw0
  have hne : ∀ r, p ++ (w ++ ['>']) ≠ '.' :: r := by
    intro r e
    cases p with
    | nil =>
      rcases hpw with h | h
      · exact h rfl
      · subst h; simp at e
    | cons x p' =>
      simp at e
      have := hp x (by simp)
      rw [e.1] at this
      revert this; decide
  unfold tagAfterName
  split
  · rename_i rest heq; exact absurd heq (hne rest)
  · rw [ht]; rfl

/-- `(\.[^\s/]*)*\s*([^/]*)\s*/*>` on `.classes  white-space  annotation >` -/
theorem tagAfterName_general (J p w : Str) (hJ : ∀ c ∈ J, reWS c = false ∧ c ≠ '/')
    (hp : ∀ c ∈ p, reWS c = true) (hw : ∀ c ∈ w, c ≠ '/')
    (hw0 : ∀ c r, w = c :: r → reWS c = false) (hpw : p ≠ [] ∨ w = []) :
    tagAfterName ('.' :: J ++ (p ++ (w ++ ['>']))) = some ('.' :: J, w) := by
  have ht := tagRest_general p w hp hw hw0
  have hJ' : ∀ c ∈ J, (fun c => !(reWS c || c == '/')) c = true := by
    intro c hc; simp [(hJ c hc).1, (hJ c hc).2]
  have e1 : '.' :: J ++ (p ++ (w ++ ['>'])) = '.' :: (J ++ (p ++ (w ++ ['>']))) := by simp
  rw [e1, VTT.tagAfterName_dot_eq, VTT.takeWhile_app_all J _ hJ']
  cases p with
  | nil =>
    have hw' : w = [] := by
      rcases hpw with h | h
      · exact absurd rfl h
      · exact h
    subst hw'
    have e2 : (([] : Str) ++ ([] ++ ['>'])).takeWhile (fun c => !(reWS c || c == '/')) = ['>'] := by decide
    have e3 : ([] : Str) ++ ([] ++ ['>']) = ['>'] := rfl
    rw [e2]
    rw [e3] at ht ⊢
    have hlen : (J ++ ['>']).length = J.length + 1 := by simp
    rw [hlen, VTT.firstDown_skip, VTT.firstDown_hit _ _ ('.' :: J, [])]
    · simp [ht]
    · simp [VTT.tagRest_nil]
  | cons x p' =>
    have hx : reWS x = true := hp x (by simp)
    have e2 : ((x :: p') ++ (w ++ ['>'])).takeWhile (fun c => !(reWS c || c == '/')) = [] := by
      simp [hx]
    rw [e2, List.append_nil, VTT.firstDown_hit _ _ ('.' :: J, w)]
    rw [List.cons_append] at ht
    simp [ht]

/-- **M2.** the tag expression on `<name.classes  white-space  annotation  >`: the name, the class
    part with its dot, the annotation with its trailing white space -/
theorem tagRe_general (x : Char) (xs cls p w : Str)
    (hx : reWS x = false ∧ x ≠ '/')
    (hn : ∀ c ∈ x :: xs, c ≠ '.' ∧ reWS c = false)
    (hcls : cls = [] ∨ ∃ J, cls = '.' :: J ∧ ∀ c ∈ J, reWS c = false ∧ c ≠ '/')
    (hp : ∀ c ∈ p, reWS c = true) (hw : ∀ c ∈ w, c ≠ '/')
    (hw0 : ∀ c r, w = c :: r → reWS c = false) (hpw : p ≠ [] ∨ w = []) :
    tagRe ('<' :: ((x :: xs) ++ (cls ++ (p ++ (w ++ ['>']))))) = some (x :: xs, cls, w) := by
  apply VTT.tagRe_lt
  rw [List.cons_append, VTT.tagAt_letter x _ hx, ← List.cons_append]
  rcases hcls with rfl | ⟨J, rfl, hJ⟩
  · rw [List.nil_append]
    cases p with
    | nil =>
      have hw' : w = [] := by
        rcases hpw with h | h
        · exact absurd rfl h
        · exact h
      subst hw'
      exact VTT.tagFromName_gt (x :: xs) (by simp) hn
    | cons y p' =>
      have hy : reWS y = true := hp y (by simp)
      exact VTT.tagFromName_stop (x :: xs) _ [] w (by simp) hn (by simp [hy])
        (tagAfterName_nocls (y :: p') w hp hw hw0 hpw)
  · have := VTT.tagFromName_stop (x :: xs) ('.' :: J ++ (p ++ (w ++ ['>']))) ('.' :: J) w (by simp) hn
      (by simp) (tagAfterName_general J p w hJ hp hw hw0 hpw)
    simpa using this

example : tagRe "<c.red.big \t Bob Smith  >".toList = some ("c".toList, ".red.big".toList, "Bob Smith  ".toList) := by decide

/-! ### the shape of a start tag of the decoder's class -/

theorem blank_ws {d : Char} (h : isBlank d = true) : isTagWS d = true ∧ reWS d = true ∧ isSpace d = true := by
  simp only [isBlank, Bool.or_eq_true, decide_eq_true_eq] at h
  rcases h with rfl | rfl <;> decide

theorem notblank_ws {d : Char} (h : isBlank d = false) (hok : tagCharOK d = true) :
    isTagWS d = false ∧ reWS d = false := by
  simp only [isBlank, Bool.or_eq_false_iff, decide_eq_false_iff_not] at h
  simp only [tagCharOK, Bool.not_eq_true', Bool.or_eq_false_iff, decide_eq_false_iff_not] at hok
  obtain ⟨⟨⟨⟨_, h2⟩, _⟩, h4⟩, h5⟩ := hok
  simp [isTagWS, reWS, h.1, h.2, h2, h4, h5]

theorem drop_length_takeWhile {p : Char → Bool} (l : Str) : l.drop (l.takeWhile p).length = l.dropWhile p := by
  induction l with
  | nil => rfl
  | cons a l ih => cases ha : p a <;> simp [List.takeWhile, List.dropWhile, ha, ih]

theorem trimSpace_ws_app (p w : Str) (hp : ∀ d ∈ p, isSpace d = true) : trimSpace (p ++ w) = trimSpace w := by
  unfold trimSpace trimLeft
  rw [VTT.TokAux.dropWhile_all p w hp]

/-- `<body>` = `<name cls p w>`: name, class part, white space, annotation -/
structure Shape (body : Str) (c : Char) (xs cls p w : Str) : Prop where
  eq : body = (c :: xs) ++ (cls ++ (p ++ w))
  head : headOf body = (c :: xs) ++ cls
  nameNoDot : ∀ d ∈ c :: xs, d ≠ '.'
  headOK : ∀ d ∈ (c :: xs) ++ cls, isBlank d = false
  cls : cls = [] ∨ ∃ J, cls = '.' :: J
  pws : ∀ d ∈ p, isBlank d = true
  w0 : ∀ d r, w = d :: r → isBlank d = false
  pw : p ≠ [] ∨ w = []
  ann : annOf body = trimSpace w

theorem shape_of_body (c : Char) (tl : Str) (hc : c ≠ '.') (hcb : isBlank c = false) :
    ∃ xs cls p w, Shape (c :: tl) c xs cls p w := by
  have hsplit1 : headOf (c :: tl) ++ (c :: tl).dropWhile (fun ch => !isBlank ch) = c :: tl :=
    List.takeWhile_append_dropWhile
  have hhead : ∀ d ∈ headOf (c :: tl), (fun ch => !isBlank ch) d = true := VTT.TokAux.takeWhile_all _
  have hh0 : headOf (c :: tl) = c :: tl.takeWhile (fun ch => !isBlank ch) := by
    simp [headOf, List.takeWhile, hcb]
  generalize hH : headOf (c :: tl) = head at hsplit1 hhead hh0
  generalize hR : (c :: tl).dropWhile (fun ch => !isBlank ch) = rem at hsplit1
  have hsplit2 : head.takeWhile (· != '.') ++ head.dropWhile (· != '.') = head := List.takeWhile_append_dropWhile
  have hn0 : head.takeWhile (· != '.') = c :: (tl.takeWhile (fun ch => !isBlank ch)).takeWhile (· != '.') := by
    have hc' : (c != '.') = true := by simp [hc]
    rw [hh0]; simp [List.takeWhile, hc']
  have hname : ∀ d ∈ head.takeWhile (· != '.'), (· != '.') d = true := VTT.TokAux.takeWhile_all _
  have hsplit3 : rem.takeWhile isBlank ++ rem.dropWhile isBlank = rem := List.takeWhile_append_dropWhile
  generalize (tl.takeWhile (fun ch => !isBlank ch)).takeWhile (· != '.') = xs at hn0
  refine ⟨xs, head.dropWhile (· != '.'), rem.takeWhile isBlank, rem.dropWhile isBlank, ⟨?_, ?_, ?_, ?_, ?_, ?_, ?_, ?_, ?_⟩⟩
  · rw [← hn0, hsplit3, ← List.append_assoc, hsplit2, hsplit1]
  · rw [hH, ← hn0, hsplit2]
  · intro d hd; rw [← hn0] at hd; simpa using hname d hd
  · intro d hd; rw [← hn0, hsplit2] at hd; simpa using hhead d hd
  · cases hcl : head.dropWhile (· != '.') with
    | nil => left; rfl
    | cons d J =>
      right
      have := VTT.TokAux.dropWhile_head _ d J hcl
      have hd : d = '.' := by simpa using this
      exact ⟨J, by rw [hd]⟩
  · exact VTT.TokAux.takeWhile_all _
  · intro d r e; exact VTT.TokAux.dropWhile_head _ d r e
  · cases hrem : rem with
    | nil => right; rfl
    | cons d r =>
      left
      have := VTT.TokAux.dropWhile_head _ d r (hR.trans hrem)
      have hd : isBlank d = true := by simpa using this
      simp [List.takeWhile, hd]
  · unfold annOf
    rw [hH, ← hsplit1, List.drop_left]
    conv => lhs; rw [← hsplit3]
    exact trimSpace_ws_app _ _ (fun d hd => (blank_ws (VTT.TokAux.takeWhile_all _ d hd)).2.2)

/-! ### the class list -/

theorem splitC_snoc_sep (c : Char) (a : Str) : ∃ init, init ≠ [] ∧ splitC c (a ++ [c]) = init ++ [[]] := by
  induction a with
  | nil => exact ⟨[[]], by simp, by simp [splitC]⟩
  | cons x a ih =>
    obtain ⟨init, hne, e⟩ := ih
    by_cases hx : x = c
    · exact ⟨[] :: init, by simp, by simp [splitC, hx, e]⟩
    · cases init with
      | nil => exact absurd rfl hne
      | cons h t => exact ⟨(x :: h) :: t, by simp, by simp [splitC, hx, e]⟩

/-- a dotted class list without empty class neither starts nor ends with a dot -/
theorem trimDots_classes (J : Str) (h : ∀ x ∈ splitC '.' J, x ≠ []) : VTT.trimDots ('.' :: J) = J := by
  cases J with
  | nil => exact absurd rfl (h [] (by simp [splitC]))
  | cons x xs =>
    have hx : x ≠ '.' := by
      intro e; subst e
      exact absurd rfl (h [] (by simp [splitC]))
    cases hr : (x :: xs).reverse with
    | nil => simp at hr
    | cons y ys =>
      have hy : y ≠ '.' := by
        intro e; subst e
        have e2 : x :: xs = ys.reverse ++ ['.'] := by
          have := congrArg List.reverse hr
          simpa using this
        obtain ⟨init, _, e3⟩ := splitC_snoc_sep '.' ys.reverse
        rw [← e2] at e3
        exact absurd rfl (h [] (by rw [e3]; simp))
      exact VTT.trimDots_dot x y xs ys hx hy hr

/-- the decoder's `name :: classes` against the sub-matches 2 and 3 of the tag expression -/
theorem classes_agree (nm cls name : Str) (classes : List Str) (hn : ∀ d ∈ nm, d ≠ '.')
    (hcls : cls = [] ∨ ∃ J, cls = '.' :: J) (hsp : splitC '.' (nm ++ cls) = name :: classes)
    (hne : classes.any (·.isEmpty) = false) :
    name = nm ∧ (if cls ≠ [] then splitC '.' (VTT.trimDots cls) else []) = classes := by
  have hnm : '.' ∉ nm := fun h => hn _ h rfl
  rcases hcls with rfl | ⟨J, rfl⟩
  · rw [List.append_nil, splitC_not_mem hnm] at hsp
    cases hsp
    exact ⟨rfl, by simp⟩
  · rw [splitC_append J hnm] at hsp
    cases hsp
    refine ⟨rfl, ?_⟩
    rw [if_pos (by simp), trimDots_classes]
    intro x hx e
    subst e
    simp only [List.any_eq_false, Bool.not_eq_true] at hne
    have := hne [] hx
    simp at this

/-! ### character-level facts of a start tag -/

/-- the characters of a tag body accepted by the decoder under `lineOK` -/
structure BodyOK (body : Str) : Prop where
  nomk : ∀ d ∈ body, d ≠ '>' ∧ d ≠ '<' ∧ d ≠ '&'
  ok : ∀ d ∈ body, tagCharOK d = true

structure ShapeF (c : Char) (xs cls p w : Str) : Prop where
  letter : isLetter c = true
  nameP : ∀ d ∈ c :: (xs ++ cls), VTT.TokAux.nameP d = true
  pTag : ∀ d ∈ p, isTagWS d = true
  wMark : ∀ d ∈ w, VTT.markup d = false
  w0Tag : ∀ d r, w = d :: r → isTagWS d = false
  cRe : reWS c = false ∧ c ≠ '/'
  nameRe : ∀ d ∈ c :: xs, d ≠ '.' ∧ reWS d = false
  clsRe : cls = [] ∨ ∃ J, cls = '.' :: J ∧ ∀ d ∈ J, reWS d = false ∧ d ≠ '/'
  pRe : ∀ d ∈ p, reWS d = true
  wSl : ∀ d ∈ w, d ≠ '/'
  w0Re : ∀ d r, w = d :: r → reWS d = false

theorem nameP_of {d : Char} (h1 : isTagWS d = false) (h2 : d ≠ '/') (h3 : d ≠ '>') : VTT.TokAux.nameP d = true := by
  simp [VTT.TokAux.nameP, h1, h2, h3]

theorem markup_of {d : Char} (h1 : d ≠ '<') (h2 : d ≠ '>') (h3 : d ≠ '&') (h4 : d ≠ '/') (h5 : tagCharOK d = true) :
    VTT.markup d = false := by
  simp only [tagCharOK, Bool.not_eq_true', Bool.or_eq_false_iff, decide_eq_false_iff_not] at h5
  simp [VTT.markup, h1, h2, h3, h4, h5.1.1.1.1]

theorem shapeF_of {body : Str} {c : Char} {xs cls p w : Str} (sh : Shape body c xs cls p w)
    (ha : isAlpha c = true) (hb : BodyOK body) (hs : ∀ d ∈ body, d ≠ '/') : ShapeF c xs cls p w := by
  have mhead : ∀ d ∈ (c :: xs) ++ cls, d ∈ body := by
    intro d hd; rw [sh.eq, ← List.append_assoc]; exact List.mem_append_left _ hd
  have mp : ∀ d ∈ p, d ∈ body := by
    intro d hd; rw [sh.eq]
    exact List.mem_append_right _ (List.mem_append_right _ (List.mem_append_left _ hd))
  have mw : ∀ d ∈ w, d ∈ body := by
    intro d hd; rw [sh.eq]
    exact List.mem_append_right _ (List.mem_append_right _ (List.mem_append_right _ hd))
  have hheadws : ∀ d ∈ (c :: xs) ++ cls, isTagWS d = false ∧ reWS d = false :=
    fun d hd => notblank_ws (sh.headOK d hd) (hb.ok d (mhead d hd))
  have hl : isLetter c = true := ha
  refine ⟨hl, ?_, ?_, ?_, ?_, VTT.letter_facts hl, ?_, ?_, ?_, ?_, ?_⟩
  · intro d hd
    have hd' : d ∈ (c :: xs) ++ cls := by simpa using hd
    exact nameP_of (hheadws d hd').1 (hs d (mhead d hd')) (hb.nomk d (mhead d hd')).1
  · intro d hd; exact (blank_ws (sh.pws d hd)).1
  · intro d hd
    have hm := hb.nomk d (mw d hd)
    exact markup_of hm.2.1 hm.1 hm.2.2 (hs d (mw d hd)) (hb.ok d (mw d hd))
  · intro d r e
    exact (notblank_ws (sh.w0 d r e) (hb.ok d (mw d (by rw [e]; simp)))).1
  · intro d hd
    exact ⟨sh.nameNoDot d hd, (hheadws d (List.mem_append_left _ hd)).2⟩
  · rcases sh.cls with h | ⟨J, h⟩
    · left; exact h
    · right
      refine ⟨J, h, ?_⟩
      intro d hd
      have hd' : d ∈ (c :: xs) ++ cls := by rw [h]; exact List.mem_append_right _ (List.mem_cons_of_mem _ hd)
      exact ⟨(hheadws d hd').2, hs d (mhead d hd')⟩
  · intro d hd; exact (blank_ws (sh.pws d hd)).2.1
  · intro d hd; exact hs d (mw d hd)
  · intro d r e
    exact (notblank_ws (sh.w0 d r e) (hb.ok d (mw d (by rw [e]; simp)))).2

/-! ### the start tag: one token, one step -/

/-- a start tag whose name is a raw-text element is outside the tokenizer model -/
theorem tokLoop_open_raw (d : Char) (hd p w : Str) (hl : isLetter d = true)
    (hhd : ∀ c ∈ d :: hd, VTT.TokAux.nameP c = true) (hp : ∀ c ∈ p, isTagWS c = true)
    (hw : ∀ c ∈ w, VTT.markup c = false) (hw0 : ∀ c r, w = c :: r → isTagWS c = false) (hpw : p ≠ [] ∨ w = [])
    (hraw : rawTags.contains (String.ofList (toLowerAscii (d :: hd))) = true)
    (fuel : Nat) (s acc : Str) (out : List Tok) :
    tokLoop (fuel + 1) ('<' :: ((d :: hd) ++ (p ++ (w ++ '>' :: s)))) acc out = .unmodelled := by
  obtain ⟨a, h1, _⟩ := VTT.TokAux.readTag_spec (d :: hd) p w s hhd hp hw hw0 hpw
  rw [List.cons_append] at h1 ⊢
  have e1 : ('<' == '\x00') = false := by decide
  have e2 : ('<' != '<') = false := by decide
  conv => lhs; rw [tokLoop.eq_def]
  simp only [hl, h1, e1, e2, hraw, if_true, Bool.false_eq_true, if_false]

theorem open_tok {body : Str} {c : Char} {xs cls p w : Str} (sh : Shape body c xs cls p w)
    (sf : ShapeF c xs cls p w) (fuel : Nat) (s acc : Str) (out : List Tok) :
    tokLoop (fuel + 1) (('<' :: body ++ ['>']) ++ s) acc out = .unmodelled ∨
    ∃ n a, tokLoop (fuel + 1) (('<' :: body ++ ['>']) ++ s) acc out
      = tokLoop fuel s [] (Tok.startTag ('<' :: body ++ ['>']) n a :: flushTok acc out) := by
  have e1 : ('<' :: body ++ ['>']) ++ s = '<' :: ((c :: (xs ++ cls)) ++ (p ++ (w ++ '>' :: s))) := by
    rw [sh.eq]; simp
  have e2 : '<' :: body ++ ['>'] = '<' :: ((c :: (xs ++ cls)) ++ (p ++ (w ++ ['>']))) := by
    rw [sh.eq]; simp
  rw [e1, e2]
  cases hraw : rawTags.contains (String.ofList (toLowerAscii (c :: (xs ++ cls)))) with
  | true =>
    left
    exact tokLoop_open_raw c (xs ++ cls) p w sf.letter sf.nameP sf.pTag sf.wMark sf.w0Tag sh.pw hraw fuel s acc out
  | false =>
    right
    obtain ⟨a, ha⟩ := VTT.TokAux.tokLoop_open c (xs ++ cls) p w sf.letter sf.nameP sf.pTag sf.wMark sf.w0Tag sh.pw hraw
      fuel s acc out
    exact ⟨_, a, ha⟩

theorem open_step {body : Str} {c : Char} {xs cls p w : Str} (sh : Shape body c xs cls p w)
    (sf : ShapeF c xs cls p w) (name : Str) (classes : List Str)
    (hsp : splitC '.' (headOf body) = name :: classes) (hne : classes.any (·.isEmpty) = false)
    (st : PT) (n : Str) (a : List (Str × Str)) :
    stepTok st (.startTag ('<' :: body ++ ['>']) n a) =
      some (if name = "v".toList then (if st.voice = [] then { st with voice := annOf body } else st)
            else { st with tags := st.tags ++ [{ name := name, classes := classes, annotation := annOf body }] }) := by
  have e2 : '<' :: body ++ ['>'] = '<' :: ((c :: xs) ++ (cls ++ (p ++ (w ++ ['>'])))) := by
    rw [sh.eq]; simp
  have hre := tagRe_general c xs cls p w sf.cRe sf.nameRe sf.clsRe sf.pRe sf.wSl sf.w0Re sh.pw
  rw [sh.head] at hsp
  obtain ⟨hname, hcl⟩ := classes_agree (c :: xs) cls name classes sh.nameNoDot sh.cls hsp hne
  have hann : (if w ≠ [] then trimSpace w else []) = annOf body := by
    rw [sh.ann]
    by_cases hw : w = []
    · subst hw; simp [trimSpace, trimLeft, trimRight]
    · simp [hw]
  rw [e2]
  simp only [stepTok, hre, hcl, hann, hname]
  split <;> rfl

/-! ### the end tag -/

/-- a tag name the tokenizer reads back from `</name>`: it starts with an ASCII letter and contains
    no white space of the tokenizer, `/` or `>` (every name the decoder pushes under `lineOK` is so) -/
def goodName (n : Str) : Bool :=
  match n with
  | c :: _ => isAlpha c && n.all VTT.TokAux.nameP
  | [] => false

theorem goodName_facts {n : Str} (h : goodName n = true) :
    ∃ e nm, n = e :: nm ∧ isLetter e = true ∧ ∀ c ∈ e :: nm, VTT.TokAux.nameP c = true := by
  cases n with
  | nil => simp [goodName] at h
  | cons e nm =>
    simp only [goodName, Bool.and_eq_true, List.all_eq_true] at h
    exact ⟨e, nm, rfl, h.1, h.2⟩

theorem goodName_of_shape {c : Char} {xs cls p w : Str} (sf : ShapeF c xs cls p w) : goodName (c :: xs) = true := by
  simp only [goodName, Bool.and_eq_true, List.all_eq_true]
  refine ⟨sf.letter, ?_⟩
  intro d hd
  apply sf.nameP d
  simp only [List.mem_cons, List.mem_append] at hd ⊢
  rcases hd with h | h
  · exact Or.inl h
  · exact Or.inr (Or.inl h)

theorem close_tok {name : Str} (h : goodName name = true) (fuel : Nat) (s acc : Str) (out : List Tok) :
    tokLoop (fuel + 1) (('<' :: '/' :: name ++ ['>']) ++ s) acc out
      = tokLoop fuel s [] (Tok.endTag ('<' :: '/' :: name ++ ['>']) (toLowerAscii name) :: flushTok acc out) := by
  obtain ⟨e, nm, rfl, hl, hnm⟩ := goodName_facts h
  have := VTT.TokAux.tokLoop_close e nm hl hnm fuel s acc out
  simpa using this

theorem close_step (st : PT) (name n : Str) :
    stepTok st (.endTag ('<' :: '/' :: name ++ ['>']) n) =
      some (if name = "v".toList then st else { st with tags := st.tags.dropLast }) := by
  by_cases hv : name = "v".toList
  · subst hv
    simp only [stepTok, if_true]
    rfl
  · have hne : ¬ ('<' :: '/' :: name ++ ['>'] = "</v>".toList) := by
      intro e
      apply hv
      have e' : name ++ ['>'] = ['v'] ++ ['>'] := by
        have : "</v>".toList = '<' :: '/' :: (['v'] ++ ['>']) := by decide
        rw [this] at e
        simpa using e
      exact List.append_cancel_right e'
    simp only [stepTok, if_neg hne, if_neg hv]

end VTTRead
end Astisub
