import Astisub.Lemmas.TTMLDocDecode
import Astisub.Lemmas.TTMLDocTime

/-!
# Lemmas/TTMLDocRead — `TTML.read` on what `encoding/xml` delivers for a written document

`norm s` is the cue list the reader returns for the document written from `s`; `rep s` is the
(decidable) proviso.
-/

namespace Astisub
namespace TTMLDoc
open Go TTML List

/-! ### what comes back -/

/-- a style / region definition as read back: identifier and parent reference kept, attributes through
    `TTMLInStyleAttributes.styleAttributes()` -/
def normDef (d : Def) : Def := { id := d.id, ref := normRef d.ref, attrs := some (styleAttributes (inKV d.attrs)) }

/-- a cue as read back: instants truncated to the millisecond, no index, no comments -/
def normItem (it : CItem) : CItem :=
  { index := 0, startAt := truncMs it.startAt, endAt := truncMs it.endAt, style := normRef it.style,
    region := normRef it.region, attrs := some (styleAttributes (inKV it.attrs)), comments := [],
    lines := normLines it.lines }

/-- the metadata as read back: title, copyright and the language when it is one of the five the library knows -/
def normMeta (m : Attrs) : Attrs :=
  some (mkAttrs [("Framerate", none), ("Language", languageOf (langIn m)),
                 ("TTMLCopyright", optStr ((kvGet m "TTMLCopyright").getD [])), ("Title", optStr ((kvGet m "Title").getD []))])

/-- **the cue list `ReadFromTTML` returns for the document `WriteToTTML` wrote from `s`** -/
def norm (s : Subs) : Subs :=
  { items := s.items.map normItem, regions := (sortDefs s.regions).map normDef,
    styles := (sortDefs s.styles).map normDef, metadata := normMeta s.metadata }

/-! ### the proviso -/

/-- representable definition: `zIndex` an integer, the parent reference empty or a defined style -/
def defOk (styleIds : List Str) (d : Def) : Bool := attrsOk d.attrs && refOk styleIds d.ref

/-- representable cue: instants in `[0, 100 h)`, `zIndex` an integer, style / region references empty or
    defined, every run representable (`runOk`: no line feed in the text) -/
def cueOk (styleIds regionIds : List Str) (it : CItem) : Bool :=
  timeOk it.startAt && timeOk it.endAt && attrsOk it.attrs && refOk styleIds it.style && refOk regionIds it.region &&
  it.lines.all fun l => l.items.all (runOk styleIds)

/-- **representable cue list** (decidable): at least one cue; style and region identifiers pairwise
    distinct (they are map keys in Go); every definition and every cue representable -/
def rep (s : Subs) : Bool :=
  !s.items.isEmpty && decide (s.styles.map Def.id).Nodup && decide (s.regions.map Def.id).Nodup &&
  s.styles.all (defOk (s.styles.map Def.id)) && s.regions.all (defOk (s.styles.map Def.id)) &&
  s.items.all (cueOk (s.styles.map Def.id) (s.regions.map Def.id))

/-- the contract of `Lemmas/TTMLDocXml` speaks about XML-legal character data only (`Encoder.EscapeText`
    replaces every other character by U+FFFD): all texts, identifiers, references, attribute values, title
    and copyright are XML-legal.  No proof uses this; it delimits where the contract is claimed. -/
def xmlCarries (s : Subs) : Bool :=
  let okS (x : Str) : Bool := x.all xmlLegal
  let okR (r : Option Str) : Bool := match r with | some x => okS x | none => true
  let okA (a : Attrs) : Bool := (outAttrs a).all fun kv => okS kv.2
  okS (titleOf s) && okS (copyrightOf s) &&
  s.styles.all (fun d => okS d.id && okR d.ref && okA d.attrs) &&
  s.regions.all (fun d => okS d.id && okR d.ref && okA d.attrs) &&
  s.items.all fun it => okR it.style && okR it.region && okA it.attrs &&
    it.lines.all fun l => l.items.all fun li => okS li.text && okR li.style && okA li.attrs

/-- a non-trivial representable value: two styles (one with a parent and a `zIndex`), a region, a cue with a
    style, a region, an inline attribute, three lines (the second one empty), an empty run, white space, metadata -/
def sample : Subs :=
  { items := [{ startAt := 1500000001, endAt := 359999999999999, style := some "b".toList, region := some "r".toList, attrs := some [("TTMLOrigin".toList, "10% 20%".toList)], lines := [{ items := [{ text := "x".toList, style := some "a".toList }, { text := [], attrs := some [("TTMLColor".toList, "blue".toList)] }] }, { items := [] }, { items := [{ text := " y ".toList }] }] }, { startAt := 0, endAt := 1, lines := [] }],
    styles := [{ id := "b".toList, ref := some "a".toList }, { id := "a".toList, attrs := some [("TTMLColor".toList, "red".toList), ("TTMLZIndex".toList, " +7".toList)] }],
    regions := [{ id := "r".toList, ref := some "a".toList }],
    metadata := some [("Language".toList, "french".toList), ("Title".toList, "T".toList)] }

example : rep sample = true := by decide
example : xmlCarries sample = true := by decide

/-! ### references -/

theorem refOk_iff {ids : List Str} {r : Option Str} : refOk ids r = true ↔ ∀ v, normRef r = some v → v ∈ ids := by
  unfold refOk
  cases normRef r with
  | none => simp
  | some v => simp

theorem refOk_perm {ids ids' : List Str} (h : ids.Perm ids') (r : Option Str) (hr : refOk ids r = true) :
    refOk ids' r = true := by
  rw [refOk_iff] at hr ⊢
  exact fun v hv => h.mem_iff.mp (hr v hv)

/-- the reader's test "reference set and not defined" fails -/
theorem ref_check {ids : List Str} {r : Option Str} (h : refOk ids r = true) :
    ¬ ((normRef r).getD [] ≠ [] ∧ (!ids.contains ((normRef r).getD [])) = true) := by
  rw [refOk_iff] at h
  cases hr : normRef r with
  | none => simp
  | some v =>
    have := h v hr
    simp [this]

theorem sortDefs_perm (l : List Def) : (sortDefs l).Perm l := mergeSort_perm l _

theorem sortDefs_ids_perm (l : List Def) : ((sortDefs l).map (·.id)).Perm (l.map (·.id)) :=
  (sortDefs_perm l).map _

/-! ### style and region definitions -/

/-- the `Def` the reader makes of a decoded `TTMLInStyle` / `TTMLInRegion` -/
def defOfIn (s : InDef) : Def :=
  { id := s.id, ref := if s.style ≠ [] then some s.style else none, attrs := some (styleAttributes s.attrs) }

theorem normRef_some_ne {r : Option Str} {v : Str} (h : normRef r = some v) : v ≠ [] := by
  cases r with
  | none => simp [normRef] at h
  | some x =>
    by_cases hx : x = []
    · simp [normRef, hx] at h
    · simp [normRef, hx] at h; exact h ▸ hx

theorem defOfIn_inDef (d : Def) : defOfIn (inDef d) = normDef d := by
  cases h : normRef d.ref with
  | none => simp [defOfIn, inDef, normDef, h]
  | some v => simp [defOfIn, inDef, normDef, h, normRef_some_ne h]

theorem ids_inDef (l : List Def) : (l.map inDef).map (·.id) = l.map (·.id) := by
  rw [map_map]; rfl

theorem ids_normDef (l : List Def) : (l.map normDef).map (·.id) = l.map (·.id) := by
  rw [map_map]; rfl

/-- **Definitions (target 3).** With pairwise distinct identifiers, every written `style` / `region`
    comes back (in identifier order), none is replaced by a later one. -/
theorem lastWins_written (l : List Def) (hnd : (l.map (·.id)).Nodup) :
    lastWins (((sortDefs l).map inDef).map defOfIn) = (sortDefs l).map normDef := by
  have e : ((sortDefs l).map inDef).map defOfIn = (sortDefs l).map normDef := by
    rw [map_map]
    apply map_congr_left
    intro d _
    exact defOfIn_inDef d
  rw [e]
  apply C03.lastWins_nodup
  rw [ids_normDef]
  exact (sortDefs_ids_perm l).nodup_iff.mpr hnd

/-- the parents / region styles are all defined: no error -/
theorem parents_ok (ids : List Str) (l : List Def) (h : ∀ d ∈ l, refOk ids d.ref = true) :
    (l.map inDef).any (fun s => s.style ≠ [] ∧ !ids.contains s.style) = false := by
  rw [any_eq_false]
  intro x hx
  obtain ⟨d, hd, rfl⟩ := mem_map.mp hx
  have := ref_check (h d hd)
  simpa [inDef] using this

/-! ### cues -/

theorem mapMRes_map {α β γ : Type} (f : β → Res γ) (g : α → β) (k : α → γ) (l : List α)
    (h : ∀ a ∈ l, f (g a) = .ok (k a)) : mapMRes f (l.map g) = .ok (l.map k) := by
  induction l with
  | nil => rfl
  | cons a l ih =>
    rw [map_cons, mapMRes, h a (by simp), ih (fun x hx => h x (by simp [hx]))]
    rfl

/-- **One cue (targets 1 and 2 together).** -/
theorem readSub_inSub (ix : List XTok → Str) (t : TIn) (styleIds regionIds : List Str) (it : CItem)
    (hok : cueOk styleIds regionIds it = true) :
    readSub t styleIds regionIds (inSub ix it) = .ok (normItem it) := by
  simp only [cueOk, Bool.and_eq_true, all_eq_true] at hok
  obtain ⟨⟨⟨⟨⟨hs, he⟩, ha⟩, hst⟩, hrg⟩, hl⟩ := hok
  rw [timeOk_iff] at hs he
  have hitems := decodeItems_pToks it.lines (fun l hl' li hli => by
    have := hl l hl' li hli
    simp only [runOk, Bool.and_eq_true] at this
    exact this.1.1)
  have hlines := linesLoop_itemsOf styleIds it.lines hl
  have hb := parseTimes_formatTTML _ hs.1 hs.2
  have hen := parseTimes_formatTTML _ he.1 he.2
  rw [refOk_iff] at hst hrg
  -- the two references as variables: `none`, or `some v` with `v` non-empty and defined
  have key : ∀ (rs rr : Option Str), (∀ v, rs = some v → v ≠ [] ∧ v ∈ styleIds) → (∀ v, rr = some v → v ≠ [] ∧ v ∈ regionIds) →
      readSub t styleIds regionIds
        { begins := [Duration.formatTTML it.startAt], ends := [Duration.formatTTML it.endAt], id := [],
          region := rr.getD [], style := rs.getD [], attrs := inKV it.attrs,
          inner := ix ((bodyW it.lines).map rawTok), stripped := stripIndent (ix ((bodyW it.lines).map rawTok)),
          toks := pToks it.lines, toksOk := true }
        = .ok { index := 0, startAt := truncMs it.startAt, endAt := truncMs it.endAt, style := rs, region := rr,
                attrs := some (styleAttributes (inKV it.attrs)), comments := [], lines := normLines it.lines } := by
    intro rs rr hrs hrr
    unfold readSub
    simp only [hb, hen]
    cases rs with
    | none =>
      cases rr with
      | none => simp [hitems, hlines, duration_formatTTML]
      | some v => simp [hitems, hlines, duration_formatTTML, (hrr v rfl).1, (hrr v rfl).2]
    | some w =>
      cases rr with
      | none => simp [hitems, hlines, duration_formatTTML, (hrs w rfl).1, (hrs w rfl).2]
      | some v =>
        simp [hitems, hlines, duration_formatTTML, (hrr v rfl).1, (hrr v rfl).2, (hrs w rfl).1, (hrs w rfl).2]
  exact key (normRef it.style) (normRef it.region) (fun v hv => ⟨normRef_some_ne hv, hst v hv⟩)
    (fun v hv => ⟨normRef_some_ne hv, hrg v hv⟩)

/-! ### the document -/

/-- **`ReadFromTTML` on what `encoding/xml` delivers for the written document.** -/
theorem read_tinOfSubs (ix : List XTok → Str) (s : Subs) (h : rep s = true) :
    read (some (tinOfSubs ix s)) = .ok (norm s) := by
  simp only [rep, Bool.and_eq_true, all_eq_true, decide_eq_true_eq] at h
  obtain ⟨⟨⟨⟨⟨_, hsnd⟩, hrnd⟩, hst⟩, hrg⟩, hit⟩ := h
  have hsp := sortDefs_ids_perm s.styles
  have hrp := sortDefs_ids_perm s.regions
  -- the identifiers the reader collects
  have e1 : ((sortDefs s.styles).map inDef).map (·.id) = (sortDefs s.styles).map (·.id) := ids_inDef _
  have e2 : ((sortDefs s.regions).map inDef).map (·.id) = (sortDefs s.regions).map (·.id) := ids_inDef _
  have p1 := parents_ok ((sortDefs s.styles).map (·.id)) (sortDefs s.styles) (fun d hd => by
    have := hst d (mem_sortDefs.mp hd)
    simp only [defOk, Bool.and_eq_true] at this
    exact refOk_perm hsp.symm _ this.2)
  have p2 := parents_ok ((sortDefs s.styles).map (·.id)) (sortDefs s.regions) (fun d hd => by
    have := hrg d (mem_sortDefs.mp hd)
    simp only [defOk, Bool.and_eq_true] at this
    exact refOk_perm hsp.symm _ this.2)
  have l1 := lastWins_written s.styles hsnd
  have l2 := lastWins_written s.regions hrnd
  have hsubs := mapMRes_map (readSub (tinOfSubs ix s) ((sortDefs s.styles).map (·.id)) ((sortDefs s.regions).map (·.id)))
    (inSub ix) normItem s.items (fun it hi => by
      apply readSub_inSub
      have := hit it hi
      simp only [cueOk, Bool.and_eq_true, all_eq_true] at this ⊢
      obtain ⟨⟨⟨⟨⟨a1, a2⟩, a3⟩, a4⟩, a5⟩, a6⟩ := this
      refine ⟨⟨⟨⟨⟨a1, a2⟩, a3⟩, refOk_perm hsp.symm _ a4⟩, refOk_perm hrp.symm _ a5⟩, fun l hl li hli => ?_⟩
      have := a6 l hl li hli
      simp only [runOk, Bool.and_eq_true] at this ⊢
      exact ⟨this.1, refOk_perm hsp.symm _ this.2⟩)
  have hmeta : metadataOf (tinOfSubs ix s) = normMeta s.metadata := by
    simp [metadataOf, normMeta, tinOfSubs, titleOf, copyrightOf]
  unfold TTML.read
  simp only [tinOfSubs] at hsubs hmeta ⊢
  simp only [e1, e2, map_map] at p1 p2 l1 l2 hsubs ⊢
  simp only [defOfIn, Function.comp_def] at l1 l2
  simp only [Function.comp_def, p1, p2, Bool.false_eq_true, ↓reduceIte, l1, l2, hsubs, hmeta, norm]

end TTMLDoc
end Astisub
