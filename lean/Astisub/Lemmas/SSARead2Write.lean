import Astisub.Lemmas.SSARead2Final
import Astisub.Lemmas.SSA2Read

/-!
# Lemmas/SSARead2Write — the read clause applied to written documents (second half of `decode_write`)
-/

namespace Astisub
namespace SSAR
open Go SSA
open Spec.SSA (decode view GDoc)

/-- prepend to the first element -/
def prependHead (a : Str) : List Str → List Str
  | [] => [a]
  | h :: r => (a ++ h) :: r

theorem splitC_cons_other (x : Char) (xs : Str) (h : x ≠ '\n') :
    splitC '\n' (x :: xs) = prependHead [x] (splitC '\n' xs) := by
  rw [splitC, if_neg h]
  cases splitC '\n' xs <;> rfl

theorem prependHead_prependHead (a b : Str) (l : List Str) (hl : l ≠ []) :
    prependHead a (prependHead b l) = prependHead (a ++ b) l := by
  cases l with
  | nil => exact absurd rfl hl
  | cons h r => simp [prependHead]

/-- without CR, `strings.Split(s, "\n")` gives the decoder's lines, possibly followed by one empty line -/
theorem splitC_nl_splitLines : ∀ (s acc : Str), '\r' ∉ s →
    prependHead acc.reverse (splitC '\n' s) = Spec.SSA.splitLines s acc ∨
    prependHead acc.reverse (splitC '\n' s) = Spec.SSA.splitLines s acc ++ [[]] := by
  intro s
  induction s with
  | nil =>
    intro acc _
    cases acc with
    | nil => right; rfl
    | cons a as => left; simp [splitC, prependHead, Spec.SSA.splitLines]
  | cons x xs ih =>
    intro acc hcr
    have hcr' : '\r' ∉ xs := fun h => hcr (List.mem_cons_of_mem _ h)
    have hx : x ≠ '\r' := fun e => hcr (by rw [e]; exact List.mem_cons_self)
    by_cases hn : x = '\n'
    · subst hn
      have e1 : splitC '\n' ('\n' :: xs) = [] :: splitC '\n' xs := by simp [splitC]
      have e2 : Spec.SSA.splitLines ('\n' :: xs) acc = acc.reverse :: Spec.SSA.splitLines xs [] := by
        simp [Spec.SSA.splitLines]
      rw [e1, e2]
      have := ih [] hcr'
      have e3 : prependHead ([] : Str).reverse (splitC '\n' xs) = splitC '\n' xs := by
        cases h : splitC '\n' xs with
        | nil => exact absurd h (splitC_ne_nil _ _)
        | cons a b => simp [prependHead]
      rw [e3] at this
      rcases this with h | h
      · left; simp [prependHead, h]
      · right; simp [prependHead, h]
    · have e2 : Spec.SSA.splitLines (x :: xs) acc = Spec.SSA.splitLines xs (x :: acc) := by
        rw [Spec.SSA.splitLines.eq_5 _ _ _ (by intros; simp_all) (by intros; simp_all) (by intros; simp_all)]
      rw [splitC_cons_other x xs hn, prependHead_prependHead _ _ _ (splitC_ne_nil _ _), e2]
      have := ih (x :: acc) hcr'
      simpa using this


theorem step_blank_any (st : St) : step st [] = .ok { st with first := false } := by
  rw [step_eq]
  have : (if st.first = true then trimPrefix bom (trimSpace []) else trimSpace []) = [] := by
    cases st.first <;> decide
  rw [this]
  rfl

/-- a trailing empty line does not change what `ReadFromSSA` answers -/
theorem read_blank_end (ls : List Str) : SSA.read (ls ++ [[]]) = SSA.read ls := by
  rw [read_eq_finish, read_eq_finish, SSA.run_append]
  cases run {} ls with
  | ok st => simp only [run, step_blank_any]; rfl
  | err => rfl
  | unmodelled => rfl

/-- without CR in the text, reading the `strings.Split(text, "\n")` lines and reading the scanner's lines agree -/
theorem read_splitC (text : Str) (h : '\r' ∉ text) :
    SSA.read (splitC '\n' text) = SSA.read (Spec.SSA.splitLines text []) := by
  have e3 : prependHead ([] : Str).reverse (splitC '\n' text) = splitC '\n' text := by
    cases h : splitC '\n' text with
    | nil => exact absurd h (splitC_ne_nil _ _)
    | cons a b => simp [prependHead]
  rcases splitC_nl_splitLines text [] h with e | e
  · rw [e3] at e; rw [e]
  · rw [e3] at e; rw [e, read_blank_end]

/-- **Second half of `C04doc2.decode_write_Statement`, given the first.** For a representable cue list whose written
    text `out` (without CR) the decoder accepts as `want` and that is in the class of the read clause: the view of the
    normal form (what the reader answers on `out`) is `want`. -/
theorem decode_write_view (s : Subs) (out : Str) (want : GDoc) (hr : RepRead s) (hw : write s = .ok out)
    (hcr : '\r' ∉ out) (hd : decode out = some want) (hc : InClass out = true) :
    view (norm s) = some want := by
  obtain ⟨s', hs', hv⟩ := read_view out want hd hc
  have h1 := SSA.write_read s out hr hw
  rw [read_splitC out hcr, hs'] at h1
  cases h1
  exact hv

end SSAR
end Astisub
