import Astisub.Lemmas.TotBase
import Astisub.Model.SRT
import Astisub.Model.VTT

/-!
# Lemmas/TotLines — the timing lines of the SubRip and WebVTT readers, with Go's index checks made explicit

`ReadFromSRT` (`srt.go`) and `ReadFromWebVTT` (`webvtt.go`) index the result of `strings.Split(line, "-->")`
at 0 and 1 and the result of `strings.Fields` of the right part at 0; the WebVTT reader also indexes
`strings.Split(p, ":")` (cue settings), `strings.Split(p, "=")` (Region parts, `X-TIMESTAMP-MAP`) and
`strings.SplitN(p, ":", 2)` at 0 and 1.  The model writes these as pattern matches with a catch-all
error arm.  Here they are `idx`, and it is proved that

* `s1[0]`, `s1[1]` are in range because the branch is entered only when `strings.Contains(line, "-->")`
  (`splitOn_length_of_contains`: a string that contains the separator splits into at least two parts) —
  the catch-all arm of the model is dead code;
* `s2[0]` / `right[0]` is in range because of the `len(…) == 0 ⇒ error` check in front of it (the repair
  of D4: "nothing after `-->`"); without it the index panics (`timing_unguarded_panics`);
* `split[0]`, `split[1]` are in range because of the `len(split) <= 1 ⇒ error` checks.
-/

namespace Astisub
namespace Tot
open Go

/-! ## `strings.Split` facts -/

theorem splitOnAux_length_pos (sep : Str) : ∀ (fuel : Nat) (s acc : Str), 1 ≤ (splitOnAux sep fuel s acc).length := by
  intro fuel
  induction fuel with
  | zero => intro s acc; simp [splitOnAux]
  | succ fuel ih =>
    intro s acc
    cases s with
    | nil => simp [splitOnAux]
    | cons x xs =>
      unfold splitOnAux
      split
      · simp
      · exact ih _ _

theorem splitOnAux_length_of_contains (sep : Str) (hsep : sep ≠ []) :
    ∀ (s : Str) (fuel : Nat) (acc : Str), s.length < fuel → contains sep s = true →
      2 ≤ (splitOnAux sep fuel s acc).length := by
  intro s
  induction s with
  | nil =>
    intro fuel acc _ hc
    unfold contains at hc
    cases sep with
    | nil => exact absurd rfl hsep
    | cons _ _ => simp at hc
  | cons x xs ih =>
    intro fuel acc hf hc
    cases fuel with
    | zero => omega
    | succ fuel =>
      unfold splitOnAux
      cases hd : dropPrefix? sep (x :: xs) with
      | some rest =>
        simp only [List.length_cons]
        have := splitOnAux_length_pos sep fuel rest []
        omega
      | none =>
        simp only
        unfold contains at hc
        have hp : hasPrefix sep (x :: xs) = false := by unfold hasPrefix; rw [hd]; rfl
        rw [hp, Bool.false_or] at hc
        exact ih fuel (x :: acc) (by simp at hf; omega) hc

/-- **a string that contains the (non-empty) separator splits into at least two parts**: this is what
    makes `s1[1]` safe after `strings.Contains(line, "-->")` -/
theorem splitOn_length_of_contains (sep s : Str) (hsep : sep ≠ []) (hc : contains sep s = true) :
    2 ≤ (splitOn sep s).length := by
  unfold splitOn
  have : sep.isEmpty = false := by cases sep with | nil => exact absurd rfl hsep | cons _ _ => rfl
  rw [this]
  exact splitOnAux_length_of_contains sep hsep s _ [] (Nat.lt_succ_self _) hc

theorem two_le_length {α} {l : List α} (h : 2 ≤ l.length) : ∃ a b t, l = a :: b :: t := by
  match l, h with
  | a :: b :: t, _ => exact ⟨a, b, t, rfl⟩

/-! ## the part of a timing line both readers share -/

/-- what the model's pattern matches extract: the text left of the first `-->`, the fields right of it -/
def timing (line : Str) : Option (Str × Str × List Str) :=
  match splitOn SRT.arrow line with
  | left :: right :: _ =>
    match fields right with
    | [] => none
    | endTok :: rest => some (left, endTok, rest)
  | _ => none

/-- the same with Go's indexing: `s1[0]`, `s1[1]`, `len(s2) == 0 ⇒ error`, `s2[0]`, `s2[1:]` -/
def timingC (line : Str) : Chk (Option (Str × Str × List Str)) := do
  let s1 := splitOn SRT.arrow line
  let left ← idx s1 0
  let right ← idx s1 1
  let s2 := fields right
  if s2.isEmpty then pure none else do
  let endTok ← idx s2 0
  let rest ← slcFrom s2 1
  pure (some (left, endTok, rest))

theorem timingC_eq (line : Str) (h : contains SRT.arrow line = true) : timingC line = .ok (timing line) := by
  unfold timingC timing
  obtain ⟨a, b, t, hs⟩ := two_le_length (splitOn_length_of_contains SRT.arrow line (by decide) h)
  rw [hs]
  simp only [idx, List.getElem?_cons_zero, List.getElem?_cons_succ, ok_bind]
  cases hf : fields b with
  | nil => rfl
  | cons e r => rfl

/-- the pinned code had no `len(s2) == 0` check: a line with nothing after `-->` indexes an empty slice -/
def timingUnguardedC (line : Str) : Chk (Str × Str) := do
  let s1 := splitOn SRT.arrow line
  let left ← idx s1 0
  let right ← idx s1 1
  let endTok ← idx (fields right) 0
  pure (left, endTok)

theorem timing_unguarded_panics : (timingUnguardedC "00:00:01,000 -->".toList).safe = false := by decide

/-! ## SubRip -/

namespace SRT
open Astisub.SRT

/-- one iteration of the scan loop of `ReadFromSRT` with the timing line indexed as in Go -/
def stepC (st : St) (raw : Option Str) : Chk (Res St) :=
  match raw with
  | none => pure .err
  | some raw =>
    let line := trimSpace raw
    let lineNum := st.lineNum + 1
    let line := if lineNum = 1 then trimPrefix bom line else line
    if contains arrow line then do
      let (index, lines) :=
        match st.cur.lines.getLast? with
        | none => (([] : Str), st.cur.lines)
        | some l => if l.str ≠ [] then (l.str, st.cur.lines.dropLast) else ([], st.cur.lines)
      let lines := stripLines lines
      let prev := { st.cur with lines := lines }
      let done := if st.curListed then st.done ++ [prev] else st.done
      let idx : Int := if index ≠ [] then atoiLoose index else 0
      let tm ← timingC line
      match tm with
      | none => pure .err
      | some (left, endTok, _) =>
        match Duration.parseSRT left, Duration.parseSRT endTok with
        | some s, some e =>
          pure (.ok { done := done, cur := { index := idx, startAt := s, endAt := e, lines := [] },
                      curListed := true, sa := {}, lineNum := lineNum })
        | _, _ => pure .err
    else
      match parseText line st.sa with
      | .unmodelled => pure .unmodelled
      | .err => pure .err
      | .ok (sa, l) =>
        let cur := if l.items.isEmpty then st.cur else { st.cur with lines := st.cur.lines ++ [l] }
        pure (.ok { st with cur := cur, sa := sa, lineNum := lineNum })

theorem stepC_eq (st : St) (raw : Option Str) : stepC st raw = .ok (step st raw) := by
  unfold stepC step
  cases raw with
  | none => rfl
  | some raw =>
    simp only
    generalize (if st.lineNum + 1 = 1 then trimPrefix bom (trimSpace raw) else trimSpace raw) = line
    by_cases hc : contains arrow line = true
    · rw [if_pos hc, if_pos hc, timingC_eq _ hc]
      simp only [ok_bind, timing]
      obtain ⟨a, b, t, hs⟩ := two_le_length (splitOn_length_of_contains arrow _ (by decide) hc)
      rw [hs]
      simp only
      cases hf : fields b with
      | nil => rfl
      | cons e r =>
        simp only
        cases Duration.parseSRT a <;> cases Duration.parseSRT e <;> rfl
    · rw [if_neg hc, if_neg hc]
      cases parseText line st.sa with
      | unmodelled => rfl
      | err => rfl
      | ok r => rfl

/-- the loop of `ReadFromSRT` -/
def runC : St → List (Option Str) → Chk (Res St)
  | st, [] => pure (.ok st)
  | st, l :: ls => do
    let r ← stepC st l
    match r with
    | .ok st' => runC st' ls
    | .err => pure .err
    | .unmodelled => pure .unmodelled

theorem runC_eq : ∀ (ls : List (Option Str)) (st : St), runC st ls = .ok (run st ls) := by
  intro ls
  induction ls with
  | nil => intro st; rfl
  | cons l ls ih =>
    intro st
    unfold runC run
    rw [stepC_eq]
    simp only [ok_bind]
    cases step st l with
    | ok st' => exact ih st'
    | err => rfl
    | unmodelled => rfl

/-- `ReadFromSRT` on the scanned lines -/
def readC (lines : List (Option Str)) : Chk (Res Subs) := do
  let r ← runC {} lines
  match r with
  | .ok st =>
    let last := { st.cur with lines := stripLines st.cur.lines }
    pure (.ok { items := if st.curListed then st.done ++ [last] else st.done })
  | .err => pure .err
  | .unmodelled => pure .unmodelled

theorem readC_eq (lines : List (Option Str)) : readC lines = .ok (Astisub.SRT.read lines) := by
  unfold readC Astisub.SRT.read
  rw [runC_eq]
  simp only [ok_bind]
  cases run {} lines <;> rfl

end SRT

/-! ## WebVTT -/

namespace VTT
open Astisub.VTT
open Astisub.SRT (Res)

/-- `split[0]`, `split[1]` behind the `len(split) <= 1 ⇒ error` check (cue settings, Region parts,
    `X-TIMESTAMP-MAP` parts of `webvtt.go`) -/
def kv (split : List Str) : Chk (Option (Str × Str)) :=
  if split.length ≤ 1 then pure none else do
  let k ← idx split 0
  let v ← idx split 1
  pure (some (k, v))

theorem kv_eq (split : List Str) :
    kv split = .ok (match split with | k :: v :: _ => some (k, v) | _ => none) := by
  unfold kv
  match split with
  | [] => rfl
  | [_] => rfl
  | k :: v :: t => rfl

/-- without the check a setting without `:` indexes past the one-element split -/
example : (idx (splitC ':' "middle".toList) 1).safe = false := by decide

/-- the loop over the parts of a `Region: ` line -/
def regionPartsC : List Str → RegAcc → Chk (Option RegAcc)
  | [], r => pure (some r)
  | p :: ps, r => do
    let s ← kv (splitC '=' p)
    match s with
    | some (k, v) =>
      if k = "id".toList then regionPartsC ps { r with id := v }
      else if k = "lines".toList then
        match atoi v with
        | some n => regionPartsC ps { r with lines := n }
        | none => pure none
      else if k = "regionanchor".toList then regionPartsC ps { r with anchor := v }
      else if k = "scroll".toList then regionPartsC ps { r with scroll := v }
      else if k = "viewportanchor".toList then regionPartsC ps { r with viewport := v }
      else if k = "width".toList then regionPartsC ps { r with width := v }
      else regionPartsC ps r
    | none => pure none

theorem regionPartsC_eq : ∀ (ps : List Str) (r : RegAcc), regionPartsC ps r = .ok (regionParts ps r) := by
  intro ps
  induction ps with
  | nil => intro r; rfl
  | cons p ps ih =>
    intro r
    unfold regionPartsC regionParts
    rw [kv_eq]
    simp only [ok_bind]
    match hs : splitC '=' p with
    | [] => rfl
    | [_] => rfl
    | k :: v :: t =>
      simp only
      cases atoi v with
      | none => repeat (first | rfl | exact ih _ | split)
      | some n => repeat (first | rfl | exact ih _ | split)

/-- the loop over the cue settings -/
def settingsC (regions : List Def) : List Str → SetAcc → Chk (Option SetAcc)
  | [], a => pure (some a)
  | p :: ps, a => do
    let s ← kv (splitC ':' p)
    match s with
    | some (k, v) =>
      if k = "align".toList then settingsC regions ps { a with align := v }
      else if k = "line".toList then settingsC regions ps { a with line := v }
      else if k = "position".toList then settingsC regions ps { a with position := v }
      else if k = "region".toList then
        if regions.any (·.id = v) then settingsC regions ps { a with region := some v } else pure none
      else if k = "size".toList then settingsC regions ps { a with size := v }
      else if k = "vertical".toList then settingsC regions ps { a with vertical := v }
      else settingsC regions ps a
    | none => pure none

theorem settingsC_eq (regions : List Def) : ∀ (ps : List Str) (a : SetAcc),
    settingsC regions ps a = .ok (settings regions ps a) := by
  intro ps
  induction ps with
  | nil => intro a; rfl
  | cons p ps ih =>
    intro a
    unfold settingsC settings
    rw [kv_eq]
    simp only [ok_bind]
    match hs : splitC ':' p with
    | [] => rfl
    | [_] => rfl
    | k :: v :: t =>
      simp only
      repeat (first | rfl | exact ih _ | split)

/-! `X-TIMESTAMP-MAP` -/

theorem splitOnce_go_length (sep : Str) : ∀ (fuel : Nat) (s acc : Str), (splitOnce.go sep fuel s acc).length ≤ 2 := by
  intro fuel
  induction fuel with
  | zero => intro s acc; simp [splitOnce.go]
  | succ fuel ih =>
    intro s acc
    cases s with
    | nil => simp [splitOnce.go]
    | cons x xs =>
      unfold splitOnce.go
      split
      · simp
      · exact ih _ _

/-- `strings.SplitN(s, sep, 2)` has at most two parts -/
theorem splitOnce_length (sep s : Str) : (splitOnce sep s).length ≤ 2 := by
  unfold splitOnce
  split
  · simp
  · exact splitOnce_go_length sep _ _ _

/-- the loop of `parseWebVTTTimestampMap`: `splits[0]`, `splits[1]` behind `len(splits) <= 1 ⇒ error` -/
def tsPartsC : List Str → Int × Int → Chk (Res (Int × Int))
  | [], acc => pure (.ok acc)
  | p :: ps, acc => do
    let s ← kv (splitOnce [':'] p)
    match s with
    | some (k, v) =>
      let key := toLowerAscii (trimSpace k)
      if key = "local".toList then
        if !smallNumbers v then pure .unmodelled else
        match Duration.parseVTT v with
        | some d => tsPartsC ps (d, acc.2)
        | none => pure .err
      else if key = "mpegts".toList then
        match parseInt v with
        | some n => tsPartsC ps (acc.1, n)
        | none => pure .err
      else tsPartsC ps acc
    | none => pure .err

theorem tsPartsC_eq : ∀ (ps : List Str) (acc : Int × Int), tsPartsC ps acc = .ok (tsParts ps acc) := by
  intro ps
  induction ps with
  | nil => intro a; rfl
  | cons p ps ih =>
    intro acc
    unfold tsPartsC tsParts
    rw [kv_eq]
    simp only [ok_bind]
    have hl := splitOnce_length [':'] p
    match hs : splitOnce [':'] p with
    | [] => rfl
    | [_] => rfl
    | [k, v] =>
      simp only
      cases Duration.parseVTT v <;> cases parseInt v <;> repeat (first | rfl | exact ih _ | split)
    | k :: v :: w :: t => rw [hs] at hl; simp at hl

/-- `parseWebVTTTimestampMap`: `splits[1]` behind `len(splits) <= 1 ⇒ error` -/
def parseTsMapC (line : Str) : Chk (Res (Int × Int)) := do
  let s ← kv (splitC '=' line)
  match s with
  | some (_, right) => tsPartsC (splitC ',' right) (0, 0)
  | none => pure .err

theorem parseTsMapC_eq (line : Str) : parseTsMapC line = .ok (parseTsMap line) := by
  unfold parseTsMapC parseTsMap
  rw [kv_eq]
  simp only [ok_bind]
  match hs : splitC '=' line with
  | [] => rfl
  | [_] => rfl
  | k :: v :: t => exact tsPartsC_eq _ _

/-- one iteration of the second scan loop of `ReadFromWebVTT` with the index expressions of the
    Region, timing and `X-TIMESTAMP-MAP` branches checked -/
def stepC (st : St) (raw : Option Str) : Chk (Res St) :=
  match raw with
  | none => pure .err
  | some raw =>
    let line := trimSpace raw
    if st.block ≠ .text && (line = "NOTE".toList || hasPrefix "NOTE ".toList line) then
      pure (.ok { st with
        block := .comment,
        comments := if line = "NOTE".toList then st.comments else st.comments ++ [trimPrefix "NOTE ".toList line] })
    else if line = [] then
      let keep := st.block = .style && !st.styles.isEmpty && !(hasSuffix ['}'] (st.styles.getLast?.getD []))
      pure (.ok { st with block := if keep then st.block else .none, tags := [] })
    else if st.block ≠ .text && st.block ≠ .comment && hasPrefix "Region: ".toList line then do
      let r? ← regionPartsC (splitC ' ' (trimPrefix "Region: ".toList line)) {}
      match r? with
      | some r => pure (.ok { st with regions := setDef st.regions (regionDef r) })
      | none => pure .err
    else if st.block ≠ .text && st.block ≠ .comment && hasPrefix "STYLE".toList line then
      if st.styleSeen then pure (.ok { st with block := .style })
      else pure (.ok { st with block := .style, styleSeen := true, tags := [], styles := [] })
    else if contains arrow line then do
      let tm ← timingC line
      match tm with
      | none => pure .err
      | some (left, endTok, rest) =>
        if !smallNumbers left || !smallNumbers endTok then pure .unmodelled else
        match Duration.parseVTT left, Duration.parseVTT endTok with
        | some s, some e => do
          let a? ← settingsC st.regions rest {}
          match a? with
          | none => pure .err
          | some a =>
            let item : CItem :=
             { index := st.index, startAt := s, endAt := e, region := a.region,
               comments := st.comments, lines := [],
               attrs := some (mkAttrs [("WebVTTAlign", optStr a.align), ("WebVTTLine", optStr a.line),
                ("WebVTTPosition", optStr a.position), ("WebVTTSize", optStr a.size),
                ("WebVTTVertical", optStr a.vertical)]) }
            pure (.ok { st with done := flush st, cur := item, curListed := true, block := .text, index := 0, comments := [] })
        | _, _ => pure .err
    else if st.block ≠ .text && st.block ≠ .comment && hasPrefix "X-TIMESTAMP-MAP".toList line then
      if !st.cur.lines.isEmpty then pure .err else do
      let m? ← parseTsMapC line
      match m? with
      | .ok m => pure (.ok { st with tsmap := some m })
      | .err => pure .err
      | .unmodelled => pure .unmodelled
    else
      match st.block with
      | .comment => pure (.ok { st with comments := st.comments ++ [line] })
      | .style => pure (.ok { st with styles := st.styles ++ [line] })
      | .text =>
        match parseText line st.tags with
        | .ok (tags, l) =>
          pure (.ok { st with tags := tags, cur := if l.items.isEmpty then st.cur else { st.cur with lines := st.cur.lines ++ [l] } })
        | .err => pure .err
        | .unmodelled => pure .unmodelled
      | .none => pure (.ok { st with index := atoiLoose line })

theorem stepC_eq (st : St) (raw : Option Str) : stepC st raw = .ok (step st raw) := by
  unfold stepC step
  cases raw with
  | none => rfl
  | some raw =>
    simp only
    generalize trimSpace raw = line
    split
    · rfl
    · split
      · rfl
      · split
        · rw [regionPartsC_eq]
          simp only [ok_bind]
          cases regionParts (splitC ' ' (trimPrefix "Region: ".toList line)) {} <;> rfl
        · split
          · split <;> rfl
          · split
            · rename_i hc
              rw [show Astisub.VTT.arrow = Astisub.SRT.arrow from rfl] at hc ⊢
              rw [timingC_eq _ hc]
              simp only [ok_bind, timing]
              obtain ⟨a, b, t, hs⟩ := two_le_length (splitOn_length_of_contains Astisub.SRT.arrow _ (by decide) hc)
              rw [hs]
              simp only
              cases hf : fields b with
              | nil => rfl
              | cons e r =>
                simp only
                split
                · rfl
                · cases Duration.parseVTT a with
                  | none => rfl
                  | some s =>
                    cases Duration.parseVTT e with
                    | none => rfl
                    | some e' =>
                      simp only [settingsC_eq, ok_bind]
                      cases settings st.regions r {} <;> rfl
            · split
              · split
                · rfl
                · rw [parseTsMapC_eq]
                  simp only [ok_bind]
                  cases parseTsMap line <;> rfl
              · cases st.block with
                | comment => rfl
                | style => rfl
                | none => rfl
                | text =>
                  simp only
                  cases parseText line st.tags with
                  | ok r => rfl
                  | err => rfl
                  | unmodelled => rfl

/-- the second loop of `ReadFromWebVTT` -/
def runC : St → List (Option Str) → Chk (Res St)
  | st, [] => pure (.ok st)
  | st, l :: ls => do
    let r ← stepC st l
    match r with
    | .ok st' => runC st' ls
    | .err => pure .err
    | .unmodelled => pure .unmodelled

theorem runC_eq : ∀ (ls : List (Option Str)) (st : St), runC st ls = .ok (run st ls) := by
  intro ls
  induction ls with
  | nil => intro st; rfl
  | cons l ls ih =>
    intro st
    unfold runC run
    rw [stepC_eq]
    simp only [ok_bind]
    cases step st l with
    | ok st' => exact ih st'
    | err => rfl
    | unmodelled => rfl

/-- `ReadFromWebVTT` on the scanned lines -/
def readC (lines : List (Option Str)) : Chk (Res Subs) :=
  match skipHeader lines with
  | none => pure .err
  | some rest => do
    let r ← runC {} rest
    match r with
    | .ok st => pure (.ok (result st))
    | .err => pure .err
    | .unmodelled => pure .unmodelled

theorem readC_eq (lines : List (Option Str)) : readC lines = .ok (Astisub.VTT.read lines) := by
  unfold readC Astisub.VTT.read
  cases skipHeader lines with
  | none => rfl
  | some rest =>
    simp only [runC_eq, ok_bind]
    cases run {} rest <;> rfl

end VTT

end Tot
end Astisub
