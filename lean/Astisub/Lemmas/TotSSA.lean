import Astisub.Lemmas.TotBase
import Astisub.Model.SSA

/-!
# Lemmas/TotSSA — the rows and the line loop of the SSA reader, with Go's index checks made explicit

Sites of `ssa.go`:

* `newSSAEventFromString`: `items[len(format)-1] = strings.Join(items[len(format)-1:], ",")`,
  `items = items[:len(format)]`, then `format[idx]` for every item — safe because of
  `len(items) < len(format) ⇒ error` in the function and `len(format) == 0 ⇒ error` in the caller;
* `newSSAStyleFromString`: `format[idx]` for every item — safe because of
  `len(items) != len(format) ⇒ error`;
* `ReadFromSSAWithOptions`: `line[1:len(line)-1]` of a `[section]` line, `line[0]`, `line[1:]` of a
  comment line, `split[0]`, `split[1:]` of a `key: value` line behind `len(split) < 2 ⇒ continue`.

The Format is a list here (a `map[int]string` with keys `0 … n-1` in Go); we check its look-ups as
list indexing, which is the stronger obligation.
-/

namespace Astisub
namespace Tot
namespace SSA
open Astisub.SSA Go

/-! ## pairing items with Format columns -/

/-- `for idx, item := range items { attr := format[idx] … }` from position `k` on -/
def pairC (format : List Str) : Nat → List Str → Chk (List (Str × Str))
  | _, [] => pure []
  | k, it :: its => do
    let a ← idx format k
    let rest ← pairC format (k + 1) its
    pure ((a, it) :: rest)

theorem pairC_eq (format : List Str) : ∀ (items : List Str) (k : Nat), k + items.length ≤ format.length →
    pairC format k items = .ok ((format.drop k).zip items) := by
  intro items
  induction items with
  | nil => intro k _; simp [pairC]
  | cons it its ih =>
    intro k hk
    have hk' : k < format.length := by simp at hk; omega
    unfold pairC
    rw [idx_ok hk' [], ih (k + 1) (by simp at hk ⊢; omega)]
    rw [List.drop_eq_getElem_cons hk']
    simp only [ok_bind, pure_eq, List.zip_cons_cons]
    rw [List.getD_eq_getElem?_getD, List.getElem?_eq_getElem hk']
    rfl

/-! ## events -/

theorem take_succ_set {α} (x : α) : ∀ (l : List α) (k : Nat), k < l.length → (l.set k x).take (k + 1) = l.take k ++ [x] := by
  intro l
  induction l with
  | nil => intro k h; simp at h
  | cons a as ih =>
    intro k h
    cases k with
    | zero => simp
    | succ k => simp at h; simp [ih k h]

/-- the "last item may contain commas" fix-up of `newSSAEventFromString`:
    `items[n-1] = strings.Join(items[n-1:], ",")`, `items = items[:n]` with `n = len(format)` -/
def absorbC (n : Nat) (items : List Str) : Chk (List Str) := do
  let k ← (if n = 0 then (.error .slice : Chk Nat) else pure (n - 1))   -- `items[-1:]`
  let tl ← slcFrom items k
  let _old ← idx items k                                               -- the assignment needs `k < len(items)`
  slcTo (items.set k (join [','] tl)) n

theorem absorbC_eq (n : Nat) (items : List Str) (hn : n ≠ 0) (hl : n ≤ items.length) :
    absorbC n items = .ok (absorb n items) := by
  obtain ⟨m, rfl⟩ : ∃ m, n = m + 1 := ⟨n - 1, by omega⟩
  unfold absorbC absorb
  rw [if_neg hn]
  simp only [pure_eq, ok_bind, Nat.add_sub_cancel]
  rw [slcFrom_ok (by omega), idx_ok (by omega) []]
  simp only [ok_bind]
  rw [slcTo_ok (by rw [List.length_set]; exact hl), take_succ_set _ _ _ (by omega)]

theorem absorb_length (n : Nat) (items : List Str) (hn : n ≠ 0) (hl : n ≤ items.length) :
    (absorb n items).length = n := by
  unfold absorb
  simp [List.length_take]; omega

/-- `newSSAEventFromString` (`format` as the caller passes it) -/
def eventRowC (header content : Str) (format : List Str) : Chk (Option Event) := do
  let items := splitC ',' content
  if items.length < format.length then pure none else do
  let items ← absorbC format.length items
  let pairs ← pairC format 0 items
  pure (eventFields { category := header } pairs)

theorem eventRowC_eq (header content : Str) (format : List Str) (hf : format ≠ []) :
    eventRowC header content format = .ok (eventRow header content format) := by
  unfold eventRowC eventRow
  simp only
  by_cases h : (splitC ',' content).length < format.length
  · rw [if_pos h, if_pos h]; rfl
  · rw [if_neg h, if_neg h]
    have hn : format.length ≠ 0 := by
      intro h0; exact hf (List.length_eq_zero_iff.mp h0)
    rw [absorbC_eq _ _ hn (by omega)]
    simp only [ok_bind]
    rw [pairC_eq format _ 0 (by rw [absorb_length _ _ hn (by omega)]; omega)]
    rfl

/-- with an empty Format the fix-up slices at -1: the `len(format) == 0 ⇒ error` check of the caller is necessary -/
theorem eventRowC_no_format (header content : Str) : (eventRowC header content []).safe = false := by
  unfold eventRowC
  simp only [List.length_nil, Nat.not_lt_zero, if_false]
  rfl

/-! ## styles -/

/-- `newSSAStyleFromString` -/
def styleRowC (content : Str) (format : List Str) : Chk (Res Style) := do
  let items := splitC ',' content
  if items.length ≠ format.length then pure .err else do
  let pairs ← pairC format 0 items
  pure (styleFields {} pairs)

theorem styleRowC_eq (content : Str) (format : List Str) : styleRowC content format = .ok (styleRow content format) := by
  unfold styleRowC styleRow
  simp only
  by_cases h : (splitC ',' content).length ≠ format.length
  · rw [if_pos h, if_pos h]; rfl
  · rw [if_neg h, if_neg h]
    rw [pairC_eq format _ 0 (by omega)]
    rfl

/-! ## the line loop -/

def eventsLineC (st : St) (header content : Str) : Chk (Res St) :=
  if header = "Format".toList then
    pure (.ok { st with format := mergeFormat st.format ((splitC ',' content).map trimSpace) })
  else if st.format.isEmpty then pure .err
  else if header ≠ "Dialogue".toList then pure (.ok st)
  else do
    let e? ← eventRowC header content st.format
    match e? with
    | some e => pure (.ok { st with events := st.events ++ [e] })
    | none => pure .err

theorem eventsLineC_eq (st : St) (header content : Str) : eventsLineC st header content = .ok (eventsLine st header content) := by
  unfold eventsLineC eventsLine
  split
  · rfl
  · split
    · rfl
    · rename_i hf
      split
      · rfl
      · rw [eventRowC_eq _ _ _ (by intro h0; rw [h0] at hf; exact hf rfl)]
        simp only [ok_bind]
        cases eventRow header content st.format <;> rfl

def stylesLineC (st : St) (header content : Str) : Chk (Res St) :=
  if header = "Format".toList then
    pure (.ok { st with format := mergeFormat st.format ((splitC ',' content).map trimSpace) })
  else if st.format.isEmpty then pure .err
  else if header ≠ "Style".toList then pure (.ok st)
  else do
    let s? ← styleRowC content st.format
    match s? with
    | .ok s => pure (.ok { st with styles := st.styles ++ [s] })
    | .err => pure .err
    | .unmodelled => pure .unmodelled

theorem stylesLineC_eq (st : St) (header content : Str) : stylesLineC st header content = .ok (stylesLine st header content) := by
  unfold stylesLineC stylesLine
  split
  · rfl
  · split
    · rfl
    · split
      · rfl
      · rw [styleRowC_eq]
        simp only [ok_bind]
        cases styleRow content st.format <;> rfl

/-- a line that starts with `[` and ends with `]` has at least two characters -/
theorem bracket_length (line : Str) (h1 : hasPrefix ['['] line = true) (h2 : hasSuffix [']'] line = true) : 2 ≤ line.length := by
  match line with
  | [] => simp [hasPrefix, dropPrefix?] at h1
  | [c] =>
    simp [hasPrefix, hasSuffix, dropPrefix?] at h1 h2
    subst h1
    exact absurd h2 (by decide)
  | _ :: _ :: _ => simp

/-- one iteration of the scan loop of `ReadFromSSAWithOptions` -/
def stepC (st : St) (raw : Str) : Chk (Res St) :=
  let line := trimSpace raw
  let line := if st.first then trimPrefix bom line else line
  let st := { st with first := false }
  if line.isEmpty then pure (.ok st)
  else if hasPrefix ['['] line && hasSuffix [']'] line then do
    let name ← slc line 1 (line.length - 1)                 -- `line[1:len(line)-1]`
    let n := toLowerSec name
    if n = "events".toList then pure (.ok { st with sec := .events, format := [] })
    else if n = "script info".toList then pure (.ok { st with sec := .scriptInfo })
    else if n = "v4 styles".toList || n = "v4+ styles".toList || n = "v4 styles+".toList then
      pure (.ok { st with sec := .styles, format := [] })
    else pure (.ok { st with sec := .unknown })
  else if st.sec = .unknown then pure (.ok st)
  else do
    let c0 ← idx line 0                                     -- `line[0] == ';'`
    if c0 = ';' then do
      let body ← slcFrom line 1                             -- `line[1:]`
      pure (.ok { st with info := { st.info with comments := st.info.comments ++ [trimSpace body] } })
    else
      let split := splitC ':' line
      if split.length < 2 then pure (.ok st) else do
      let s0 ← idx split 0                                  -- `split[0]`
      if s0 = [] then pure (.ok st) else do
      let tl ← slcFrom split 1                              -- `split[1:]`
      let header := trimSpace s0
      let content := trimSpace (join [':'] tl)
      match st.sec with
      | .scriptInfo =>
        match st.info.parse header content with
        | .ok i => pure (.ok { st with info := i })
        | .err => pure .err
        | .unmodelled => pure .unmodelled
      | .events => eventsLineC st header content
      | .styles => stylesLineC st header content
      | _ => pure (.ok st)

theorem stepC_eq (st : St) (raw : Str) : stepC st raw = .ok (step st raw) := by
  unfold stepC step
  simp only
  generalize (if st.first = true then trimPrefix bom (trimSpace raw) else trimSpace raw) = line
  by_cases he : line.isEmpty = true
  · rw [if_pos he, if_pos he]; rfl
  · rw [if_neg he, if_neg he]
    have hne : line ≠ [] := by simpa using he
    have hpos : 0 < line.length := List.length_pos_iff.mpr hne
    by_cases hb : (hasPrefix ['['] line && hasSuffix [']'] line) = true
    · rw [if_pos hb, if_pos hb]
      have h2 := bracket_length line (by simp at hb; exact hb.1) (by simp at hb; exact hb.2)
      rw [slc_ok (by omega) (by omega)]
      simp only [ok_bind]
      have : List.take (line.length - 1 - 1) (List.drop 1 line) = (line.drop 1).dropLast := by
        rw [List.dropLast_eq_take, List.length_drop]
      rw [this]
      repeat (first | rfl | split)
    · rw [if_neg hb, if_neg hb]
      by_cases hu : st.sec = .unknown
      · simp only [hu, if_true]; rfl
      · simp only [hu, if_false]
        obtain ⟨c, cs, rfl⟩ : ∃ c cs, line = c :: cs := by
          cases line with
          | nil => exact absurd rfl hne
          | cons c cs => exact ⟨c, cs, rfl⟩
        simp only [idx, List.getElem?_cons_zero, ok_bind, List.head?_cons, Option.some.injEq]
        by_cases hc : c = ';'
        · rw [if_pos hc, if_pos hc]; rfl
        · rw [if_neg hc, if_neg hc]
          match hs : splitC ':' (c :: cs) with
          | [] => rfl
          | [_] => rfl
          | s0 :: s1 :: t =>
            simp only [List.length_cons, List.getElem?_cons_zero, ok_bind, List.head?_cons, Option.some.injEq,
              List.headD_cons, List.tail_cons]
            have : ¬ (t.length + 1 + 1 < 2) := by omega
            simp only [this, if_false, decide_false, Bool.false_or, decide_eq_true_eq]
            by_cases h0 : s0 = []
            · rw [if_pos h0, if_pos h0]; rfl
            · rw [if_neg h0, if_neg h0]
              simp only [slcFrom, List.length_cons, List.drop_succ_cons, List.drop_zero]
              rw [if_pos (by omega)]
              simp only [ok_bind]
              cases st.sec with
              | scriptInfo =>
                simp only
                cases st.info.parse (trimSpace s0) (trimSpace (join [':'] (s1 :: t))) <;> rfl
              | events => exact eventsLineC_eq _ _ _
              | styles => exact stylesLineC_eq _ _ _
              | none => rfl
              | unknown => rfl

/-- the loop of `ReadFromSSAWithOptions` -/
def runC : St → List Str → Chk (Res St)
  | st, [] => pure (.ok st)
  | st, l :: ls => do
    let r ← stepC st l
    match r with
    | .ok st' => runC st' ls
    | .err => pure .err
    | .unmodelled => pure .unmodelled

theorem runC_eq : ∀ (ls : List Str) (st : St), runC st ls = .ok (run st ls) := by
  intro ls
  induction ls with
  | nil => intro st; rfl
  | cons l ls ih =>
    intro st
    unfold runC run
    rw [stepC_eq]
    simp only [ok_bind]
    cases step st l with
    | ok st' => exact ih st'
    | err => rfl
    | unmodelled => rfl

/-- `ReadFromSSA` on the scanned lines -/
def readC (lines : List Str) : Chk (Res Subs) := do
  let r ← runC {} lines
  match r with
  | .ok st =>
    let styles := styleMap st.styles
    let ids := styles.map (·.name)
    pure (.ok { items := (st.events.filter fun e => e.category = "Dialogue".toList).map (eventItem ids),
                styles := styles.map Style.toDef,
                metadata := st.info.metadata })
  | .err => pure .err
  | .unmodelled => pure .unmodelled

theorem readC_eq (lines : List Str) : readC lines = .ok (Astisub.SSA.read lines) := by
  unfold readC Astisub.SSA.read
  rw [runC_eq]
  simp only [ok_bind]
  cases run {} lines <;> rfl

end SSA
end Tot
end Astisub
