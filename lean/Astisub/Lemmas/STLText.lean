import Astisub.Props.C05

/-!
# Lemmas/STLText — the text field of a TTI block: encoding of text mixed with control codes, and the
open-subtitling row parser on what the writer emits

* `encodeText_units`: the writer's encoder on any sequence of *encodable* units (the weaker half of
  `C05.Unit.good`: no statement about decoding), so that style codes and the line break count as units;
* `openFold_text`: the row loop of `parseOpenSubtitleRow` on bytes that are neither C0 controls nor style
  codes is `decodeAll`;
* `openRow_run`: a row made of style-on codes, text, style-off codes and padding is read as one run.
-/

namespace Astisub
namespace C05
open Go STL

/-! ## encoding -/

/-- the unit is written as its bytes and is self-contained for NFD and for the writer's diacritic swap -/
def encGood (u : Unit) : Prop :=
  encodeText u.text = u.bytes ∧ startsStarter u.text = true ∧ startsBase u.text = true

theorem good_encGood {u : Unit} (h : u.good) : encGood u := ⟨h.1, h.2.2.1, h.2.2.2⟩

theorem nfdGo_units' (us : List Unit) (h : ∀ u ∈ us, encGood u) (out : List Nat) :
    (nfdGo out (us.flatMap (·.text))).reverse = out.reverse ++ us.flatMap (fun u => nfd u.text) := by
  induction us generalizing out with
  | nil => simp [nfdGo]
  | cons u us ih =>
    have hu := h u (by simp)
    rw [List.flatMap_cons, nfdGo_append, nfdGo_unit _ _ hu.2.1, ih (fun v hv => h v (by simp [hv]))]
    simp [nfd_eq]

theorem nfd_units' (us : List Unit) (h : ∀ u ∈ us, encGood u) :
    nfd (us.flatMap (·.text)) = us.flatMap (fun u => nfd u.text) := by
  rw [nfd_eq, nfdGo_units' us h []]; simp

theorem encGo_units' (us : List Unit) (h : ∀ u ∈ us, encGood u) (out : Bytes) :
    ((us.flatMap (fun u => nfd u.text)).foldl encStep out).reverse
      = out.reverse ++ us.flatMap (fun u => encodeText u.text) := by
  induction us generalizing out with
  | nil => simp
  | cons u us ih =>
    have hu := h u (by simp)
    rw [List.flatMap_cons, List.foldl_append, encGo_unit _ _ hu.2.2, ih (fun v hv => h v (by simp [hv]))]
    simp [encodeText]

/-- the encoder on a sequence of encodable units emits the units' bytes, one after the other -/
theorem encodeText_units (us : List Unit) (h : ∀ u ∈ us, encGood u) :
    encodeText (us.flatMap (·.text)) = us.flatMap (·.bytes) := by
  have := encGo_units' us h []
  unfold encodeText
  rw [nfd_units' us h, this]
  simp only [List.reverse_nil, List.nil_append]
  induction us with
  | nil => rfl
  | cons u us ih =>
    rw [List.flatMap_cons, List.flatMap_cons, (h u (by simp)).1, ih (fun v hv => h v (by simp [hv]))]
    exact encGo_units' us (fun v hv => h v (by simp [hv])) []

/-- a control code of the text field as a unit: style on / off (0x80–0x85) and the line break 0x8A -/
def codeUnit (c : Nat) : Unit := ⟨[c], [c]⟩

def ctlCodes : List Nat := [0x80, 0x81, 0x82, 0x83, 0x84, 0x85, 0x8A]

theorem codeUnit_encGoodB : ∀ c ∈ ctlCodes,
    (decide (encodeText [c] = [c]) && startsStarter [c] && startsBase [c]) = true := by
  decide +kernel

/-- the control codes pass the encoder unchanged, wherever they stand -/
theorem codeUnit_encGood (c : Nat) (h : c ∈ ctlCodes) : encGood (codeUnit c) := by
  have := codeUnit_encGoodB c h
  simp only [Bool.and_eq_true, decide_eq_true_eq] at this
  exact ⟨this.1.1, this.1.2, this.2⟩

theorem repUnit_good {u : Unit} (h : RepUnit u) : u.good := by
  cases h with
  | ch e he => exact goodB_good _ (char_units_good e he)
  | acc a l ha hl => exact goodB_good _ (accent_units_good a ha l hl)

/-! ## bytes of repertoire units -/

/-- a byte of the character table: not a C0 / C1 control -/
def tableByte (b : Nat) : Prop := 0x20 ≤ b ∧ (b < 0x7F ∨ 0xA0 ≤ b)

instance (b : Nat) : Decidable (tableByte b) := by unfold tableByte; infer_instance

theorem carried_tableByte : ∀ e ∈ carried, tableByte e.1 := by decide +kernel
theorem accents_tableByte : ∀ a ∈ accents, tableByte a := by decide
theorem letters_tableByte : ∀ l ∈ letters, tableByte l := by decide

theorem repUnit_bytes {u : Unit} (h : RepUnit u) : ∀ b ∈ u.bytes, tableByte b := by
  cases h with
  | ch e he =>
    intro b hb
    simp only [charUnit, List.mem_singleton] at hb
    subst hb; exact carried_tableByte e he
  | acc a l ha hl =>
    intro b hb
    simp only [accentUnit, List.mem_cons, List.not_mem_nil, or_false] at hb
    rcases hb with rfl | rfl
    · exact accents_tableByte _ ha
    · exact letters_tableByte _ hl

theorem units_bytes (us : List Unit) (h : ∀ u ∈ us, RepUnit u) : ∀ b ∈ us.flatMap (·.bytes), tableByte b := by
  intro b hb
  obtain ⟨u, hu, hbu⟩ := List.mem_flatMap.mp hb
  exact repUnit_bytes (h u hu) b hbu

/-! ## the row loop -/

/-- a byte the row loop hands to the character decoder: not a C0 control, not a style code -/
def textByte (b : Nat) : Prop := 0x20 ≤ b ∧ ¬ (0x80 ≤ b ∧ b ≤ 0x85)

theorem tableByte_textByte {b : Nat} (h : tableByte b) : textByte b := by
  unfold tableByte at h; unfold textByte; omega

theorem stlCode_none (s : LSty) (v : Nat) (h : ¬ (0x80 ≤ v ∧ v ≤ 0x85)) : stlCode s v = none := by
  unfold stlCode
  have : ¬ v = 0x80 ∧ ¬ v = 0x81 ∧ ¬ v = 0x82 ∧ ¬ v = 0x83 ∧ ¬ v = 0x84 ∧ ¬ v = 0x85 := by omega
  simp [this.1, this.2.1, this.2.2.1, this.2.2.2.1, this.2.2.2.2.1, this.2.2.2.2.2]

theorem stlCode_some (s : LSty) (v : Nat) (h : 0x80 ≤ v ∧ v ≤ 0x85) : ∃ s', stlCode s v = some s' := by
  have : v = 0x80 ∨ v = 0x81 ∨ v = 0x82 ∨ v = 0x83 ∨ v = 0x84 ∨ v = 0x85 := by omega
  rcases this with rfl | rfl | rfl | rfl | rfl | rfl <;> exact ⟨_, rfl⟩

theorem openStep_text (st : RowSt) (v : Nat) (h : textByte v) :
    openStep st v = some { st with text := st.text ++ str (decode st.acc v).1, acc := (decode st.acc v).2 } := by
  have hlo : ¬ v ≤ 0x1F := by unfold textByte at h; omega
  unfold openStep
  simp only [hlo, if_false, stlCode_none st.sty v h.2]

theorem openFold_append (st : RowSt) (a b : Bytes) :
    openFold st (a ++ b) = (match openFold st a with | some st' => openFold st' b | none => none) := by
  induction a generalizing st with
  | nil => rfl
  | cons v vs ih =>
    simp only [List.cons_append, openFold]
    cases openStep st v with
    | none => rfl
    | some st' => exact ih st'

/-- on bytes that are neither C0 controls nor style codes the row loop is the character decoder -/
theorem openFold_text (bs : Bytes) (h : ∀ b ∈ bs, textByte b) (st : RowSt) :
    openFold st bs = some { st with text := st.text ++ str (decodeAll st.acc bs).1, acc := (decodeAll st.acc bs).2 } := by
  induction bs generalizing st with
  | nil => cases st; simp [openFold, decodeAll, str]
  | cons v vs ih =>
    rw [openFold, openStep_text st v (h v (by simp))]
    simp only
    rw [ih (fun b hb => h b (by simp [hb]))]
    simp [decodeAll, str, List.append_assoc]

theorem decodeAll_pad (k : Nat) (acc : Option Nat) : decodeAll acc (List.replicate k 0x8F) = ([], acc) := by
  induction k with
  | zero => rfl
  | succ k ih =>
    have : decode acc 0x8F = ([], acc) := by
      have : tableGet 0x8F = none := by decide +kernel
      simp [decode, this]
    simp [List.replicate_succ, decodeAll, this, ih]

/-- the padding byte 0x8F changes nothing -/
theorem openFold_pad (k : Nat) (st : RowSt) : openFold st (List.replicate k 0x8F) = some st := by
  rw [openFold_text _ (by intro b hb; rw [List.eq_of_mem_replicate hb]; unfold textByte; omega), decodeAll_pad]
  cases st; simp [str]

def isCode (v : Nat) : Prop := 0x80 ≤ v ∧ v ≤ 0x85

/-- style codes while no text is pending only change the style of the run to come -/
theorem openFold_codes_empty (cs : Bytes) (h : ∀ c ∈ cs, isCode c) (st : RowSt) (ht : st.text = []) :
    ∃ sty', openFold st cs = some { st with sty := sty' } := by
  induction cs generalizing st with
  | nil => exact ⟨st.sty, by cases st; rfl⟩
  | cons c cs ih =>
    have hc := h c (by simp)
    obtain ⟨s', hs'⟩ := stlCode_some st.sty c hc
    have hlo : ¬ c ≤ 0x1F := by unfold isCode at hc; omega
    have hstep : openStep st c = some { st with sty := s' } := by
      unfold openStep
      simp [hlo, hs', ht]
    rw [openFold, hstep]
    simp only
    obtain ⟨s'', hs''⟩ := ih (fun x hx => h x (by simp [hx])) { st with sty := s' } ht
    exact ⟨s'', by rw [hs'']⟩

theorem trimSpace_nil : trimSpace [] = [] := rfl

/-- **closing a run.** With non-blank text pending, any sequence of style codes followed by padding ends
    the row with exactly one more run: the pending text, trimmed, in the pending style -/
theorem openFold_close (cs : Bytes) (h : ∀ c ∈ cs, isCode c) (k : Nat) (st : RowSt) (ht : trimSpace st.text ≠ []) :
    ∃ st', openFold st (cs ++ List.replicate k 0x8F) = some st' ∧ st'.acc = st.acc ∧
      appendOpen st' = st.items ++ [{ text := trimSpace st.text, attrs := some (mkAttrs (stlAttrs st.sty)) }] := by
  have hne : st.text ≠ [] := by intro e; rw [e] at ht; exact ht rfl
  have hap : appendOpen st = st.items ++ [{ text := trimSpace st.text, attrs := some (mkAttrs (stlAttrs st.sty)) }] := by
    unfold appendOpen; rw [if_pos ht]
  cases cs with
  | nil =>
    refine ⟨st, ?_, rfl, hap⟩
    rw [List.nil_append, openFold_pad]
  | cons c cs =>
    have hc := h c (by simp)
    obtain ⟨s', hs'⟩ := stlCode_some st.sty c hc
    have hlo : ¬ c ≤ 0x1F := by unfold isCode at hc; omega
    have hstep : openStep st c = some { st with items := appendOpen st, text := [], sty := s' } := by
      unfold openStep
      simp [hlo, hs', hne]
    obtain ⟨s'', hs''⟩ := openFold_codes_empty cs (fun x hx => h x (by simp [hx]))
      { st with items := appendOpen st, text := [], sty := s' } rfl
    refine ⟨{ st with items := appendOpen st, text := [], sty := s'' }, ?_, rfl, ?_⟩
    · rw [List.cons_append, openFold, hstep]
      simp only
      rw [openFold_append, hs'']
      simp only
      rw [openFold_pad]
    · unfold appendOpen
      simp only [trimSpace_nil, ne_eq, not_true_eq_false, if_false]
      exact hap

end C05
end Astisub
