import Astisub.Props.C05

/-!
# Witness/C05 — non-vacuity examples and the known findings on concrete inputs
-/

namespace Astisub
namespace C05.Witness
open STL C05

/-- "Café ½ Ω" is a sequence of repertoire units: the hypotheses of `repertoire_roundtrip` are satisfiable
    by a text that mixes ASCII, a composed letter and upper-half symbols -/
def cafe : List Unit :=
  [charUnit (0x43, [0x43]), charUnit (0x61, [0x61]), charUnit (0x66, [0x66]), accentUnit 0xC2 0x65,
   charUnit (0x20, [0x20]), charUnit (0xBD, [0xBD]), charUnit (0x20, [0x20]), charUnit (0xE0, [0x3A9])]

example : cafe.flatMap (·.text) = [0x43, 0x61, 0x66, 0xE9, 0x20, 0xBD, 0x20, 0x3A9] := by decide +kernel
example : encodeText (cafe.flatMap (·.text)) = [0x43, 0x61, 0x66, 0xC2, 0x65, 0x20, 0xBD, 0x20, 0xE0] := by decide +kernel
example : ∀ u ∈ cafe, goodB u = true := by decide +kernel

/-- D22 on a concrete text: "5$" is written as `35 24`, which reads back as "5¤" -/
example : decodeAll none (encodeText [0x35, 0x24]) = ([0x35, 0xA4], none) := by decide +kernel

/-- D23 on a concrete row: without box codes the teletext row parser returns no line at all;
    with a box the text is there -/
example : (teleRow none [0x48, 0x65, 0x6C, 0x6C, 0x6F]).1 = none := by decide +kernel
example : ((teleRow none [0x0B, 0x0B, 0x48, 0x69, 0x0A, 0x0A]).1.map fun l => l.items.map (·.text)) = some [['H', 'i']] := by
  decide +kernel

/-- fix-6 on a concrete row: an attribute code after the end of the box closes the run, so a second box
    on the same row is a run of its own (the pinned code glued "a" and "b" together, in cyan) -/
example : ((teleRow none [0x0B, 0x61, 0x0A, 0x06, 0x0B, 0x62]).1.map fun l => l.items.map (·.text)) = some [['a'], ['b']] := by
  decide +kernel

end C05.Witness
end Astisub
