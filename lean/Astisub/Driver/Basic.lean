import Astisub.Proto

namespace Astisub
namespace Driver

/-- outcome of one protocol line -/
inductive Verdict where
  | agree                                   -- model output = implementation output
  | disagree (specOk : Bool) (model : String) -- they differ; `specOk` = the property predicate of S holds on the implementation's output
  | bad (msg : String)                      -- the line could not be parsed (harness/driver bug)
  | unmodelled                              -- outside the class a partial library model covers: not compared
  deriving Repr

/-- compare a model output with the implementation output; `spec` is only evaluated on a disagreement -/
def compare (model impl : String) (spec : Unit → Bool) : Verdict :=
  if model = impl then .agree else .disagree (spec ()) model

/-- like `compare`, but the property predicate is evaluated on *every* case: agreement of model and
    implementation on an answer that violates the specification is a violation too -/
def compareS (model impl : String) (spec : Unit → Bool) : Verdict :=
  let ok := spec ()
  if model = impl then (if ok then .agree else .disagree false (model ++ " [model and implementation agree; the specification predicate fails]"))
  else .disagree ok model

end Driver
end Astisub
