import Astisub.Proto

namespace Astisub
namespace Driver

/-- outcome of one protocol line -/
inductive Verdict where
  | agree                                   -- model output = implementation output
  | disagree (specOk : Bool) (model : String) -- they differ; `specOk` = the property predicate of S holds on the implementation's output
  | bad (msg : String)                      -- the line could not be parsed (harness/driver bug)
  deriving Repr

/-- compare a model output with the implementation output; `spec` is only evaluated on a disagreement -/
def compare (model impl : String) (spec : Unit → Bool) : Verdict :=
  if model = impl then .agree else .disagree (spec ()) model

end Driver
end Astisub
