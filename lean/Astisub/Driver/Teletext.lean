import Astisub.Driver.Basic
import Astisub.Model.Teletext
import Astisub.Spec.Teletext

/-!
# Driver/Teletext — protocol handler of the `teletext.*` streams (C06)

* `teletext.read <page> <pid> x<ts> [G…] | <answer> D <demultiplexer record>` — `ReadFromTeletext` on a real
  transport stream; the model runs on what go-astits delivered (contract), the independent decoder on the
  PES packets of the chosen PID, the ground truth `G…` (when the harness generated the stream) on both.
* `teletext.pes <page> <n> (<ns> x<payload>)ⁿ [G…] | ok <subs>` — the reader from the PES level on (hook).
* `teletext.row <x28|-> <m29|-> <code> x<row> [G…] | ok <subs>` — `parseTeletextRow`.
* `teletext.charset <x28|-> <m29|-> <code> | x… (256)` — the character decoder.
* `teletext.lib ham|par|ident <byte> | …` — astikit's decoders, `teletextPESDataType`.
-/

namespace Astisub
namespace Driver
namespace TT
open Proto Go Teletext

def nats (bs : List UInt8) : List Nat := bs.map (·.toNat)

def decNats (tok : String) : Option (List Nat) := (decBytes tok).map nats

def optNat (tok : String) : Option (Option Nat) := if tok = "-" then some none else tok.toNat?.map some
def optInt (tok : String) : Option (Option Int) := if tok = "-" then some none else tok.toInt?.map some

def joinT (l : List String) : String := " ".intercalate l

/-! ## ground truth tokens -/

def decFlags (s : String) : Option (Bool × Bool × Bool) :=
  match s.toList with
  | [a, b, c] => some (a == '1', b == '1', c == '1')
  | _ => none

def decRun : List String → Option (Spec.Teletext.Run × List String)
  | "R" :: col :: fl :: codes :: rest =>
    match optNat col, decFlags fl, decNats codes with
    | some col, some (dh, dw, ds), some codes => some ({ attr := { color := col, dh := dh, dw := dw, ds := ds }, codes := codes }, rest)
    | _, _, _ => none
  | _ => none

def decGLine : List String → Option (List Spec.Teletext.Run × List String)
  | "L" :: rest => countP decRun rest
  | _ => none

def decGCue : List String → Option ((Int × Int × List (List Spec.Teletext.Run)) × List String)
  | "C" :: s :: e :: rest =>
    match s.toInt?, e.toInt?, countP decGLine rest with
    | some s, some e, some (lines, rest) => some ((s, e, lines), rest)
    | _, _, _ => none
  | _ => none

/-- `G key code n cue*` → the cues the ground truth denotes, in the character set it is written in -/
def decG : List String → Option (List Spec.Teletext.Cue)
  | [] => none
  | "G" :: key :: code :: rest =>
    match key.toNat?, code.toNat?, countP decGCue rest with
    | some key, some code, some (cues, []) =>
      Spec.Teletext.mapM (fun (c : Int × Int × List (List Spec.Teletext.Run)) =>
        (Spec.Teletext.mapM (fun l => Spec.Teletext.mapM (Spec.Teletext.viewRun key code) l) c.2.2).map fun lines =>
          Spec.Teletext.normCue { startNs := c.1, endNs := c.2.1, lines := lines.filter (!·.isEmpty) }) cues
    | _, _, _ => none
  | _ => none

/-- split the arguments at the ground truth -/
def splitG (args : List String) : List String × List String :=
  (args.takeWhile (· ≠ "G"), args.dropWhile (· ≠ "G"))

/-! ## the teletext view of the implementation's answer -/

def kvGet (a : Attrs) (k : String) : Option Str :=
  match a with
  | none => none
  | some kv => (kv.find? fun e => e.1 == k.toList).map (·.2)

/-- the eight teletext colours as the canonical print shows them (`Color.SSAString`, `"#"+TTMLString`), written from the
    colour values of ETS 300 706 as the package names them (ColorBlack … ColorWhite; green is `#008000`) -/
def colours : List (String × String) :=
  [("00000000", "#000000"), ("000000ff", "#ff0000"), ("00008000", "#008000"), ("0000ffff", "#ffff00"),
   ("00ff0000", "#0000ff"), ("00ff00ff", "#ff00ff"), ("00ffff00", "#00ffff"), ("00ffffff", "#ffffff")]

def viewItem (li : LItem) : Option Spec.Teletext.VRun :=
  let flag (k : String) : Bool := kvGet li.attrs k == some "true".toList
  let colour : Option (Option Nat) :=
    match kvGet li.attrs "TeletextColor" with
    | none => if (kvGet li.attrs "TTMLColor").isNone then some none else none
    | some c =>
      match colours.findIdx? (fun e => e.1.toList == c) with
      | some k => if kvGet li.attrs "TTMLColor" == ((colours[k]?).map (·.2.toList)) then some (some k) else none
      | none => none
  match colour, (kvGet li.attrs "TeletextSpacesBefore").bind (fun s => (String.ofList s).toNat?),
        (kvGet li.attrs "TeletextSpacesAfter").bind (fun s => (String.ofList s).toNat?) with
  | some col, some b, some a =>
    if li.style.isSome || li.startAt != 0 then none else
    some { attr := { color := col, dh := flag "TeletextDoubleHeight", dw := flag "TeletextDoubleWidth", ds := flag "TeletextDoubleSize" },
           text := li.text, before := b, after := a }
  | _, _, _ => none

def viewSubs (s : Subs) : Option (List Spec.Teletext.Cue) :=
  if !s.regions.isEmpty || !s.styles.isEmpty || s.metadata.isSome then none else
  Spec.Teletext.mapM (fun (it : CItem) =>
    if it.style.isSome || it.region.isSome || it.attrs.isSome || !it.comments.isEmpty || it.index != 0 then none else
    (Spec.Teletext.mapM (fun (l : Line) => if !l.voice.isEmpty || l.items.isEmpty then none else Spec.Teletext.mapM viewItem l.items) it.lines).map fun lines =>
      Spec.Teletext.normCue { startNs := it.startAt, endNs := it.endAt, lines := lines }) s.items

def viewAnswer (impl : List String) : Option (List Spec.Teletext.Cue) :=
  match impl with
  | "ok" :: rest => match decSubs rest with
    | some (s, []) => viewSubs s
    | _ => none
  | _ => none

/-- the property on one case: the answer is what the independent decoder says the stream denotes (when it is in the
    decoder's class) and what the ground truth says (when the harness knows it; then the decoder must agree too) -/
def specOk (impl : List String) (decoded : Option (List Spec.Teletext.Cue)) (g : List String) : Bool :=
  let v := viewAnswer impl
  (match decoded with | none => true | some cues => v == some cues) &&
  (if g.isEmpty then true else
   match decG g with
   | none => false
   | some cues => v == some cues && decoded == some cues)

/-! ## demultiplexer record -/

def decTags (s : String) : Option (List Nat) := if s = "" then some [] else mapM? String.toNat? (s.splitOn ",")

def decStream (tok : String) : Option (Nat × List Nat) :=
  match tok.splitOn ":" with
  | [pid, tags] => match pid.toNat?, decTags tags with
    | some p, some t => some (p, t)
    | _, _ => none
  | _ => none

/-- one pass: data until `E` (end of stream), `X` (error), `R` (rewind) or the end of the tokens -/
def decPass : Nat → List String → List Data → Option (List Data × String × List String)
  | 0, _, _ => none
  | _, [], acc => some (acc.reverse, "", [])
  | fuel + 1, tok :: rest, acc =>
    match tok with
    | "E" | "X" | "R" | "RX" => some (acc.reverse, tok, rest)
    | "O" => decPass fuel rest (.other :: acc)
    | "Z" => decPass fuel rest (.nil :: acc)
    | "M" =>
      match rest with
      | n :: rest =>
        match n.toNat? with
        | some n =>
          match mapM? decStream (rest.take n) with
          | some ss => if rest.length < n then none else decPass fuel (rest.drop n) (.pmt ss :: acc)
          | none => none
        | none => none
      | [] => none
    | "P" =>
      match rest with
      | pid :: sid :: pts :: pcr :: data :: rest =>
        match pid.toNat?, optNat sid, optInt pts, optInt pcr, decNats data with
        | some pid, some sid, some pts, some pcr, some data => decPass fuel rest (.pes pid sid pts pcr data :: acc)
        | _, _, _, _, _ => none
      | _ => none
    | _ => none

/-- (pid chosen, data of the reading pass, how it ended) or an early answer -/
def planOf (pidOpt : Nat) (rec : List String) : Option (Sum String (Nat × List Data × String)) :=
  match decPass (rec.length + 1) rec [] with
  | none => none
  | some (p1, end1, rest) =>
    if pidOpt > 0 then some (.inr (pidOpt, p1, end1))
    else
      let hasPMT := p1.any fun d => match d with | .pmt _ => true | _ => false
      if !hasPMT then some (.inl "err")          -- end of stream: ErrNoValidTeletextPID; another error: wrapped
      else
        match findPID p1 with
        | none => some (.inl "err")
        | some pid =>
          if end1 != "R" then some (.inl "err")  -- rewind failed
          else
            match decPass (rest.length + 1) rest [] with
            | some (p2, end2, _) => some (.inr (pid, p2, end2))
            | none => none

def pesOf (pid : Nat) (pass : List Data) : List (Int × List Nat) :=
  pass.filterMap fun d =>
    match d with
    | .pes p sid pts pcr payload => if p = pid % 65536 && sid = some 189 then (pts.orElse fun _ => pcr).map fun t => (t, payload) else none
    | _ => none

/-! ## handler -/

def decPesArgs : Nat → List String → Option (List (Int × List Nat))
  | 0, [] => some []
  | n + 1, t :: d :: rest =>
    match t.toInt?, decNats d, decPesArgs n rest with
    | some t, some d, some ps => some ((t, d) :: ps)
    | _, _, _ => none
  | _, _ => none

def keyOfTokens (x28 m29 : Option Nat) : Nat := ((x28.orElse fun _ => m29).getD 0) / 1024 % 16

def rowSubs (l : Option Line) : Subs := { items := [{ startAt := 0, endAt := 0, lines := l.toList }] }

/-- the independent decoder on its class; page options from 25600 on are outside it (the library keeps
    the magazine in a uint8, the specification in an unbounded number: `C06doc.inClass`) -/
def specDecode (page : Nat) (pes : List (Int × List Nat)) :=
  if page < 25600 then Spec.Teletext.decode page pes else none

def handleTeletext (op : String) (argsG impl : List String) : Verdict :=
  let (args, g) := splitG argsG
  match op, args with
  | "teletext.pes", page :: n :: rest =>
    match page.toNat?, n.toNat? with
    | some page, some n =>
      match decPesArgs n rest with
      | some pes =>
        compareS ("ok " ++ encSubs (runPES page pes)) (joinT impl) fun _ => specOk impl (specDecode page pes) g
      | none => .bad "teletext.pes payloads"
    | _, _ => .bad "teletext.pes"
  | "teletext.read", [page, pid, _ts] =>
    match page.toNat?, pid.toNat? with
    | some page, some pidOpt =>
      let ans := impl.takeWhile (· ≠ "D")
      let record := (impl.dropWhile (· ≠ "D")).drop 1
      if record == ["PANIC"] then compareS "PANIC" (joinT ans) (fun _ => g.isEmpty) else   -- go-astits itself panicked (known-3): contract
      match planOf pidOpt record with
      | none => .bad "teletext.read record"
      | some (.inl early) => compareS early (joinT ans) fun _ => g.isEmpty
      | some (.inr (pid, pass, ending)) =>
        match readLoop page pid pass (ending == "E") with
        | .err => compareS "err" (joinT ans) fun _ => g.isEmpty
        | .ok s => compareS ("ok " ++ encSubs s) (joinT ans) fun _ => specOk ans (specDecode page (pesOf pid pass)) g
    | _, _ => .bad "teletext.read"
  | "teletext.row", [x28, m29, code, row] =>
    match optNat x28, optNat m29, code.toNat?, decNats row with
    | some x28, some m29, some code, some row =>
      let c := computeCharset (tripletOf x28 m29) code
      compareS ("ok " ++ encSubs (rowSubs (parseRow c row))) (joinT impl) fun _ =>
        let key := keyOfTokens x28 m29
        let decoded : Option (List Spec.Teletext.Cue) :=
          (Spec.Teletext.rowRuns (row.map fun v => if v > 0x7f then none else some v)).bind fun runs =>
            (Spec.Teletext.mapM (Spec.Teletext.viewRun key code) runs).map fun l =>
              [Spec.Teletext.normCue { startNs := 0, endNs := 0, lines := [l].filter (!·.isEmpty) }]
        specOk impl decoded g
    | _, _, _, _ => .bad "teletext.row"
  | "teletext.charset", [x28, m29, code] =>
    match optNat x28, optNat m29, code.toNat? with
    | some x28, some m29, some code =>
      let c := computeCharset (tripletOf x28 m29) code
      let m := joinT ((List.range 256).map fun v => encS' (decodeChar c v))
      compareS m (joinT impl) fun _ =>
        -- characters below 0x20 and above 0x7f are no text; the others are those of the designated set
        (List.range 256).all fun v =>
          let got := impl[v]?
          if v < 0x20 || v > 0x7f then got == some "x"
          else match Spec.Teletext.charOf (keyOfTokens x28 m29) code v with
            | some s => got == some (encS' s)
            | none => true
    | _, _, _ => .bad "teletext.charset"
  | "teletext.lib", [what, b] =>
    match b.toNat? with
    | some b =>
      match what with
      | "ham" => compareS (match hammingDecode b with | some n => toString n | none => "-1") (joinT impl) fun _ =>
          match Spec.Teletext.hammingExact b with
          | some n => impl == [toString n]       -- an error-free codeword decodes to its data bits
          | none => true
      | "par" => compareS (toString (byteParity b).2) (joinT impl) fun _ => impl == [toString (Spec.Teletext.ones b % 2 == 1)]
      | "ident" => compareS (if 0x10 ≤ b && b ≤ 0x1f then "EBU" else "unknown") (joinT impl) fun _ => true
      | _ => .bad "teletext.lib what"
    | none => .bad "teletext.lib"
  | _, _ => .bad s!"unknown op {op}"

end TT

def handleTeletext := TT.handleTeletext

end Driver
end Astisub
