import Astisub.Driver.Basic
import Astisub.Driver.SRT
import Astisub.Go.Bufio
import Astisub.Model.SSA
import Astisub.Spec.SSA

namespace Astisub
namespace Driver
open Proto Go

namespace SSAD

def allSomeL {α} : List (Option α) → Option (List α)
  | [] => some []
  | a :: as => match a, allSomeL as with
    | some x, some xs => some (x :: xs)
    | _, _ => none

/-- durations the Go code would have wrapped around are outside the model -/
def inRange (s : Subs) : Bool :=
  s.items.all fun it => decide (it.startAt.natAbs < 2 ^ 62) && decide (it.endAt.natAbs < 2 ^ 62)

/-- model of `ReadFromSSA` on bytes; `none` = unmodelled -/
def readBytes (doc : List UInt8) : Option (SSA.Res Subs) :=
  if tooLong doc then none else
  match allSomeL (docLines doc) with
  | none => none
  | some lines =>
    match SSA.read lines with
    | .unmodelled => none
    | .ok s => if inRange s then some (.ok s) else none
    | .err => some .err

def resStr : SSA.Res Subs → String
  | .ok s => "ok " ++ encSubs s
  | .err => "err"
  | .unmodelled => "unmodelled"

/-- model of the `ssa.write` stream: bytes, what the reader makes of them, and the bytes written again -/
def writeOut (s : Subs) : Option String :=
  match SSA.write s with
  | .unmodelled => none
  | .err => some "err"
  | .ok out =>
    let bytes := utf8 out
    match readBytes bytes with
    | none => none
    | some .err => some s!"ok {encBytes bytes} err"
    | some .unmodelled => none
    | some (.ok back) =>
      match SSA.write back with
      | .unmodelled => none
      | .err => some s!"ok {encBytes bytes} ok {encSubs back} err"
      | .ok out2 => some s!"ok {encBytes bytes} ok {encSubs back} {encBytes (utf8 out2)}"

/-- Documents the independent decoder accepts but on which the library is known to differ
    (kernel-checked witnesses `cexBigInt`, `cexBom`, `cexDotI` in `Props/C04read.lean`); none is a rendering
    the property quantifies over, all can arise by mutation of a valid document: a number beyond 64 bits (the
    decoder counts in unbounded arithmetic, strconv.Atoi reports a range error), a byte order mark followed by
    blanks (the library trims the first line before removing the mark), and `İ` / `K` in a section name
    (strings.ToLower maps them to ASCII letters). The read predicate does not judge them. -/
def ssaOutside (doc : List UInt8) : Bool :=
  match decodeLine doc with
  | none => false
  | some text =>
    let rec longDigits : List Char → Nat → Bool
      | [], n => decide (19 ≤ n)
      | c :: rest, n => if c.isDigit then longDigits rest (n + 1) else decide (19 ≤ n) || longDigits rest 0
    longDigits text 0 ||
    (match text with
     | c :: d :: _ => c = Char.ofNat 0xFEFF && Go.isSpace d && d ≠ '\n' && d ≠ '\r'
     | _ => false) ||
    text.any fun c => c = Char.ofNat 0x130 || c = Char.ofNat 0x212A

/-- C04 (read): a well-formed document is read as what it denotes -/
def readOk (doc : List UInt8) (impl : List String) : Bool :=
  match decodeLine doc with
  | none => true
  | some text =>
    match Spec.SSA.decode text with
    | none => true
    | some g =>
      match impl with
      | "ok" :: rest =>
        match decSubs rest with
        | some (s, []) => Spec.SSA.view s == some g
        | _ => false
      | _ => false

/-- Cue lists `Spec.SSA.denote` accepts although the written document cannot denote them (kernel-checked
    counterexamples in `Props/C04w2.lean`, hypotheses `Extra.breaks`, `Extra.cr`, `Extra.styleRef`): a line break
    or carriage return inside an override block (`SSAEffect`), and a cue whose style reference is the empty
    string (read as "no style"). Not representable; the write predicate does not judge them. -/
def ssaWriteOutside (s : Subs) : Bool :=
  let badBlock (a : Attrs) : Bool :=
    match SRT.kvGet a "SSAEffect" with
    | some v => contains "\\n".toList v || contains "\\N".toList v || v.contains '\r' || v.contains '\n'
    | none => false
  s.items.any fun it =>
    it.style == some [] || badBlock it.attrs ||
    it.lines.any fun l => l.items.any fun li => badBlock li.attrs

/-- C04 (write): the bytes denote the same cues, styles and script info to the independent decoder and
    to the library's reader, and writing what was read back gives the same bytes -/
def writeOk (s : Subs) (impl : List String) : Bool :=
  if s.items.isEmpty then impl == ["err"] else
  if ssaWriteOutside s then true else
  match Spec.SSA.denote s with
  | none => true
  | some want =>
    match impl with
    | "ok" :: bytes :: "ok" :: rest =>
      match decBytes bytes, decSubs rest with
      | some b, some (back, [bytes2]) =>
        (match decodeLine b with
         | some text => Spec.SSA.decode text == some want
         | none => false) &&
        Spec.SSA.view back == some want &&
        bytes2 == bytes
      | _, _ => false
    | _ => false

end SSAD

open SSAD

def handleSSA (op : String) (args impl : List String) : Verdict :=
  match op, args with
  | "ssa.read", [doc] =>
    match decBytes doc with
    | none => .bad "ssa.read"
    | some doc =>
      match readBytes doc with
      | none => .unmodelled
      | some r =>
        compareS (SSAD.resStr r) (" ".intercalate impl) fun _ => ssaOutside doc || readOk doc impl
  | "ssa.write", toks =>
    match decSubs toks with
    | some (s, []) =>
      match writeOut s with
      | none => .unmodelled
      | some m => compareS m (" ".intercalate impl) fun _ => writeOk s impl
    | _ => .bad "ssa.write"
  | "ssa.specdef", [doc] =>
    -- diagnostic (not a stream): is the document in the class the specification speaks about?
    match decBytes doc with
    | some doc => match decodeLine doc with
      | some text => if (Spec.SSA.decode text).isSome then .agree else .unmodelled
      | none => .unmodelled
    | none => .bad "ssa.specdef"
  | "ssa.repdef", toks =>
    -- diagnostic (not a stream): is the cue list representable (does the write clause apply)?
    match decSubs toks with
    | some (s, []) => if (Spec.SSA.denote s).isSome then .agree else .unmodelled
    | _ => .bad "ssa.repdef"
  | "ssa.style", [fmt, content] =>
    -- newSSAStyleFromString: canonical definition of the style or err
    match decS' fmt, decS' content with
    | some fmt, some content =>
      let format := (splitC ',' fmt).map trimSpace
      match SSA.styleRow content format with
      | .unmodelled => .unmodelled
      | .err => compare "err" (" ".intercalate impl) fun _ => false
      | .ok st => compare ("ok " ++ " ".intercalate (encSDef st.toDef)) (" ".intercalate impl) fun _ => false
    | _, _ => .bad "ssa.style"
  | "ssa.text", [t] =>
    -- ssaEvent.item on a text: the lines and their runs
    match decS' t with
    | some t =>
      let it := SSA.eventItem [] { text := trimSpace t }
      compare (" ".intercalate (toString it.lines.length :: it.lines.flatMap encLine)) (" ".intercalate impl) fun _ => false
    | none => .bad "ssa.text"
  | "ssa.float", [k, v] =>
    -- k = p: ParseFloat; k = 3: FormatFloat(parse, 'f', 3); k = s: FormatFloat(parse, 'f', -1)
    match decS' v with
    | some v =>
      match parseFloat v with
      | .unmodelled => .unmodelled
      | .err => compare "err" (" ".intercalate impl) fun _ => false
      | .ok b =>
        let m : Option String :=
          if k = "p" then some s!"ok {b}"
          else if k = "3" then (formatFloat3 b).map fun s => "ok " ++ encS' s
          else (formatFloatShortest b).map fun s => "ok " ++ encS' s
        match m with
        | none => .unmodelled
        | some m => compare m (" ".intercalate impl) fun _ => false
    | none => .bad "ssa.float"
  | "ssa.colour", [v] =>
    match decS' v with
    | some v =>
      let m := if v.isEmpty then "nil" else match SSA.parseColour v with | some c => "ok " ++ String.ofList (hex8 c) | none => "err"
      compare m (" ".intercalate impl) fun _ => false
    | none => .bad "ssa.colour"
  | _, _ => .bad s!"unknown op {op}"

end Driver
end Astisub
