import Astisub.Driver.Basic
import Astisub.Go.Bufio
import Astisub.Model.SRT
import Astisub.Spec.SRT

namespace Astisub
namespace Driver
open Proto Go

def decodeLine (bs : List UInt8) : Option Str := (String.fromUTF8? (ByteArray.mk bs.toArray)).map String.toList

/-- bytes → the decoded lines the line-based readers see (all-at-once delivery) -/
def docLines (doc : List UInt8) : List (Option Str) := (linesOf doc).map decodeLine

/-- some line of the document has more than `maxLineSize = 65535` bytes (terminator excluded): the
    repaired scanner ends with `bufio.ErrTooLong` whatever ends the line and however the bytes are
    delivered (`C18.long_line_fails`); the readers' models do not cover that outcome -/
def tooLong (doc : List UInt8) : Bool := (linesOf doc).any fun l => l.length ≥ 65536   -- `= Go.firstLong doc`

def utf8 (s : Str) : List UInt8 := (String.ofList s).toUTF8.toList

/-- the SubRip view of a cue list: what `Spec.SRT.decode` speaks about -/
def srtView (s : Subs) : Option (List Spec.SRT.GCue) :=
  Spec.SRT.mapM (fun (it : CItem) =>
    if it.startAt % 1000000 ≠ 0 || it.endAt % 1000000 ≠ 0 || it.startAt < 0 || it.endAt < 0 then none else
    some { startMs := (it.startAt / 1000000).toNat, endMs := (it.endAt / 1000000).toNat,
           lines := it.lines.map fun l => l.items.map fun li =>
             { text := li.text, bold := (SRT.kvGet li.attrs "SRTBold").isSome, italic := (SRT.kvGet li.attrs "SRTItalics").isSome,
               underline := (SRT.kvGet li.attrs "SRTUnderline").isSome, color := SRT.kvGet li.attrs "SRTColor" } }) s.items

/-- adjacent runs with the same markup denote the same text: merge them before comparing -/
def mergeRuns : List Spec.SRT.GRun → List Spec.SRT.GRun
  | a :: b :: rest =>
    if a.bold == b.bold && a.italic == b.italic && a.underline == b.underline && a.color == b.color
    then mergeRuns ({ a with text := a.text ++ b.text } :: rest)
    else a :: mergeRuns (b :: rest)
  | l => l
termination_by l => l.length

def normCues (cs : Option (List Spec.SRT.GCue)) : Option (List Spec.SRT.GCue) :=
  cs.map fun cs => cs.map fun c => { c with lines := c.lines.map mergeRuns }

def resStr : SRT.Res Subs → Option String
  | .ok s => some ("ok " ++ encSubs s)
  | .err => some "err"
  | .unmodelled => none

/-- does the cue list only use what SubRip can carry (the proviso of the write clause of C01)? -/
def srtRep (s : Subs) : Bool :=
  s.items.all fun it =>
    decide (0 ≤ it.startAt) && decide (it.endAt < 360000000000000) && decide (0 ≤ it.endAt) && decide (it.startAt < 360000000000000) &&
    !it.lines.isEmpty && it.lines.all fun l => !l.items.isEmpty &&
      -- the reader trims every line: outer white space of an unstyled first / last run is not carried
      -- (with `Props/C01doc.lean`'s `Rep`, under which the round trip is proved)
      (match l.items.head?, l.items.getLast? with
       | some a, some b => (a.text.head?.map Go.isSpace) != some true && (b.text.getLast?.map Go.isSpace) != some true
       | _, _ => true) &&
      l.items.all fun li =>
      -- a visible character, or a no-break space (written &nbsp;, which is text to the reader)
      (trimSpace li.text ≠ [] || li.text.any (· = Char.ofNat 0xA0)) &&
      !(li.text.any fun c => c = '\n' || c = '\r') && !contains "-->".toList li.text &&
      (SRT.kvGet li.attrs "SRTPosition").isNone &&
      (match SRT.kvGet li.attrs "SRTColor" with | some c => c ≠ [] && !(c.any fun ch => ch = '"' || ch = '&' || ch = '>') | none => true)

def srtHugeField (text : Str) : Bool :=
  let rec longDigits : List Char → Nat → Bool
    | [], n => decide (19 ≤ n)
    | c :: rest, n => if c.isDigit then longDigits rest (n + 1) else decide (19 ≤ n) || longDigits rest 0
  (Spec.SRT.splitLines text []).any fun l => contains "-->".toList l && longDigits l 0

def handleSRT (op : String) (args impl : List String) : Verdict :=
  match op, args with
  | "srt.read", [doc] =>
    match decBytes doc with
    | some doc =>
      if tooLong doc then .unmodelled else
      -- int64 wrap-around is not modelled (`parseDuration` adds `time.Duration`s; from 2562048 hours on they wrap)
      let wraps := match SRT.read (docLines doc) with
        | .ok s => s.items.any fun it => it.startAt > 9223372036854775807 || it.endAt > 9223372036854775807 ||
                                        it.startAt < -9223372036854775808 || it.endAt < -9223372036854775808
        | _ => false
      if wraps then .unmodelled else
      match resStr (SRT.read (docLines doc)) with
      | none => .unmodelled
      | some m =>
        compareS m (" ".intercalate impl) fun _ =>
          -- C01 (read): a well-formed document is read as the cues it denotes
          match decodeLine doc with
          | none => true
          | some text =>
            -- a number field beyond int64 on a timing line: the decoder counts in unbounded arithmetic,
            -- strconv.Atoi does not (`C01read.inRange_needed`); outside the property's range, not judged
            if srtHugeField text then true else
            match Spec.SRT.decode text with
            | none => true
            | some cues =>
              match impl with
              | "ok" :: rest =>
                match decSubs rest with
                | some (s, []) => srtView s == some cues
                | _ => false
              | _ => false
    | none => .bad "srt.read"
  | "srt.write", toks =>
    match decSubs toks with
    | some (s, []) =>
      -- negative instants: `formatDuration` prints signs inside the fields (`00:00:0-1,000`), not modelled
      if s.items.any (fun it => it.startAt < 0 || it.endAt < 0) then .unmodelled else
      let m : Option String :=
        match SRT.write s with
        | none => some "err"
        | some out =>
          let bytes := utf8 out
          (resStr (SRT.read (docLines bytes))).map fun r => s!"ok {encBytes bytes} {r}"
      match m with
      | none => .unmodelled
      | some m =>
        compareS m (" ".intercalate impl) fun _ =>
          -- C01 (write): the bytes denote the same cues to an independent decoder and to the library's reader
          if s.items.isEmpty then impl == ["err"] else
          if !srtRep s then true else
          match impl with
          | "ok" :: bytes :: "ok" :: rest =>
            let want := srtView { s with items := s.items.map fun it =>
              { it with startAt := it.startAt - it.startAt % 1000000, endAt := it.endAt - it.endAt % 1000000 } }
            match decBytes bytes, decSubs rest with
            | some b, some (back, []) =>
              (match decodeLine b with
               | some text => normCues (Spec.SRT.decode text) == normCues want
               | none => false) &&
              normCues (srtView back) == normCues want &&
              -- cues are numbered consecutively from 1
              (back.items.zipIdx.all fun (it, k) => it.index == (k : Int) + 1)
            | _, _ => false
          | _ => false
    | _ => .bad "srt.write"
  | _, _ => .bad s!"unknown op {op}"

end Driver
end Astisub
