import Astisub.Driver.Basic
import Astisub.Model.Duration

namespace Astisub
namespace Driver
open Proto Go Duration

def okErr : Option Int → String
  | some d => s!"ok {d}"
  | none => "err"

def encS (s : Str) : String := encStr (String.ofList s)
def decS (tok : String) : Option Str := (decStr tok).map String.toList

def fmtF (f : String) (t : Int) : Option Str :=
  match f with
  | "srt" => some (formatSRT t)
  | "ssa" => some (formatSSA t)
  | "vtt" => some (formatVTT t)
  | "ttml" => some (formatTTML t)
  | _ => none

def parseF (f : String) (s : Str) : Option (Option Int) :=
  match f with
  | "srt" => some (parseSRT s)
  | "ssa" => some (parseSSA s)
  | "vtt" => some (parseVTT s)
  | "ttml" => some (parseVTT s)   -- clock-time path of `TTMLInDuration.UnmarshalText` (see Model/TTML for the other forms)
  | _ => none

def unitOf (f : String) : Int := if f = "ssa" then 10000000 else 1000000

def joinT (l : List String) : String := " ".intercalate l

/-- property predicate of C16 on one instant: rendering has the canonical shape, parses back to the
    truncated instant, and renders again identically (evaluated on the implementation's answers) -/
def shapeOk (f : String) (s : Str) : Bool :=
  let digits := if f = "ssa" then 2 else 3
  let sep := if f = "srt" then ',' else '.'
  let isD (c : Char) : Bool := '0' ≤ c && c ≤ '9'
  match s with
  | h1 :: h2 :: ':' :: m1 :: m2 :: ':' :: s1 :: s2 :: p :: frac =>
    isD h1 && isD h2 && isD m1 && isD m2 && isD s1 && isD s2 && p == sep && frac.length == digits && frac.all isD &&
      (m1.toNat - 48) * 10 + (m2.toNat - 48) < 60 && (s1.toNat - 48) * 10 + (s2.toNat - 48) < 60
  | _ => false

def handleTs (op : String) (args impl : List String) : Verdict :=
  match op, args with
  | "ts.text", ["fmt", f, t] =>
    match t.toInt?, fmtF f (t.toInt?.getD 0) with
    | some _, some s => compare (encS s) (joinT impl) fun _ => false
    | _, _ => .bad "ts.text fmt"
  | "ts.doc", f :: ts =>
    -- every boundary of the list comes back truncated to the format's unit
    let unit : Int := if f = "ssa" then 10000000 else 1000000
    match mapM? String.toInt? ts with
    | some ts => compare (joinT (ts.map fun t => toString (t - t % unit))) (joinT impl) fun _ => false
    | none => .bad "ts.doc"
  | "ts.text", ["parse", f, s] =>
    match decS s with
    | some s => match parseF f s with
      | some r =>
        -- Go's int64 arithmetic wraps for hour fields beyond 2 562 047 h; the model counts in unbounded integers.
        -- Such instants are outside every property's range: not compared.
        if (match r with | some v => decide (v < -9223372036854775808) || decide (9223372036854775807 < v) | none => false) then .unmodelled else
        compare (okErr r) (joinT impl) fun _ => true   -- malformed/variant inputs: not the property's domain; correspondence only
      | none => .bad "ts.text parse f"
    | none => .bad "ts.text parse"
  | "ts.text", ["gen", sep, digits, s] =>
    match decS s, sep.toList, digits.toNat? with
    | some s, [c], some d =>
      if (match parse s c d with | some v => decide (v < -9223372036854775808) || decide (9223372036854775807 < v) | none => false) then .unmodelled else
      compare (okErr (parse s c d)) (joinT impl) fun _ => true
    | _, _, _ => .bad "ts.text gen"
  | "ts.text", ["rt", f, t] =>
    match t.toInt? with
    | some t =>
      match fmtF f t with
      | some s =>
        let back := (parseF f s).getD none
        let s2 := match back with | some d => (fmtF f d).getD [] | none => []
        compare (joinT [encS s, okErr back, encS s2]) (joinT impl) fun _ =>
          -- the property itself, on the implementation's three answers
          match impl with
          | [is, "ok", ib, is2] =>
            match decS is, ib.toInt? with
            | some is', some ib' =>
              shapeOk f is' && ib' == t - t % unitOf f && is2 == is
            | _, _ => false
          | _ => false
      | none => .bad "ts.text rt f"
    | none => .bad "ts.text rt"
  | "ts.sweep", _ => compare "0" (joinT impl) fun _ => false
  | "ts.fracsweep", _ => compare "0" (joinT impl) fun _ => false
  | "ts.stl", ["rt", fr, t] =>
    match fr.toNat?, t.toInt? with
    | some fr, some t =>
      let s := formatSTL t fr
      let back := parseSTL true s fr
      let s2 := match back with | some d => formatSTL d fr | none => []
      let b := formatSTLBytes t fr
      let db := parseSTLBytes true b fr
      let b2 := formatSTLBytes db fr
      let encB (l : List Nat) := ",".intercalate (l.map toString)
      compare (joinT [encS s, okErr back, encS s2, encB b, toString db, encB b2]) (joinT impl) fun _ =>
        match impl with
        | [is, "ok", ib, is2, ibb, idb, ib2] =>
          match ib.toInt?, idb.toInt? with
          | some d, some dbi =>
            -- frame instant ⌊t·fr/1e9⌋·1e9/fr within 1 ns (exact rational comparison), second write identical
            let k := t * fr / 1000000000
            let within (d : Int) : Bool := decide ((d - 1) * fr < k * 1000000000) && decide (k * 1000000000 < (d + 1) * fr)
            within d && within dbi && is2 == is && ib2 == ibb
          | _, _ => false
        | _ => false
    | _, _ => .bad "ts.stl rt"
  | "ts.stl", ["parse", fr, s] =>
    match fr.toInt?, decS s with
    | some fr, some s =>
      if s.length < 8 then .bad "ts.stl parse: short" else
      compare (okErr (parseSTL true s fr)) (joinT impl) fun _ => true
    | _, _ => .bad "ts.stl parse"
  | "ts.stl", ["parseb", fr, b] =>
    match fr.toInt?, mapM? String.toNat? (b.splitOn ",") with
    | some fr, some b => compare (toString (parseSTLBytes true b fr)) (joinT impl) fun _ => true
    | _, _ => .bad "ts.stl parseb"
  | _, _ => .bad s!"unknown op {op}"

end Driver
end Astisub
