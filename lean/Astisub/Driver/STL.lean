import Astisub.Driver.Basic
import Astisub.Model.STL
import Astisub.Spec.STL

/-!
# Driver/STL — protocol handler of the `stl.*` streams (C05)

Model vs implementation, and the specification predicate evaluated on every case.
Metadata strings are raw bytes on the STL side (a GSI field need not be UTF-8): the canonical
metadata of a model result is printed here from `STL.Meta` directly.
-/

namespace Astisub
namespace Driver
open Proto Go

namespace STLD

def toNats (bs : List UInt8) : List Nat := bs.map (·.toNat)
def ofNats (b : List Nat) : List UInt8 := b.map UInt8.ofNat
def hx (b : List Nat) : String := encBytes (ofNats b)
def utf8N (s : Str) : List Nat := toNats (String.ofList s).toUTF8.toList
def asc (s : String) : List Nat := s.toList.map Char.toNat

def encMeta (m : STL.Meta) : List String :=
  let b (k : String) (v : List Nat) : Option String := if v.isEmpty then none else some (k ++ "=" ++ hx v)
  let i (k : String) (v : Int) : Option String := if v == 0 then none else some (k ++ "=" ++ hx (asc (toString v)))
  let oi (k : String) (v : Option Int) : Option String := v.map fun v => k ++ "=" ++ hx (asc (toString v))
  let d (k : String) (v : Option STL.Date) : Option String := v.map fun v => k ++ "=" ++ hx (STL.formatDate v)
  let l : List (Option String) := [
    i "Framerate" m.framerate, b "Language" m.language, b "STLCountryOfOrigin" m.country, d "STLCreationDate" m.creation,
    b "STLDisplayStandardCode" m.dsc, b "STLEditorContactDetails" m.editorContact, b "STLEditorName" m.editorName,
    oi "STLMaximumNumberOfDisplayableCharactersInAnyTextRow" m.maxChars, oi "STLMaximumNumberOfDisplayableRows" m.maxRows,
    b "STLOriginalEpisodeTitle" m.origEpisode, b "STLPublisher" m.publisher, d "STLRevisionDate" m.revisionDate,
    i "STLRevisionNumber" m.revisionNumber, b "STLSubtitleListReferenceCode" m.slr, i "STLTimecodeStartOfProgramme" m.tcp,
    b "STLTranslatedEpisodeTitle" m.translEpisode, b "STLTranslatedProgramTitle" m.translProgram,
    b "STLTranslatorContactDetails" m.translContact, b "STLTranslatorName" m.translName, b "Title" m.title]
  let set := l.filterMap id
  s!"A{set.length}" :: set

def encRead (r : STL.Meta × List CItem) : String :=
  " ".intercalate (["S", toString r.2.length] ++ r.2.flatMap encCItem ++ ["0", "0"] ++ encMeta r.1)

def kv (a : Attrs) (k : String) : Option Str := match a with | none => none | some l => l.lookup k.toList

def intOf (s : Str) : Option Int := (String.ofList s).toInt?

def dateOf (s : Str) : Option STL.Date :=
  match s.map Char.toNat with
  | [a, b, c, d, e, f] => some { yy := (a - 48) * 10 + (b - 48), mm := (c - 48) * 10 + (d - 48), dd := (e - 48) * 10 + (f - 48) }
  | _ => none

def metaOf (a : Attrs) : Option STL.Meta :=
  match a with
  | none => none
  | some _ =>
    let b (k : String) : List Nat := ((kv a k).map utf8N).getD []
    let i (k : String) : Int := ((kv a k).bind intOf).getD 0
    some { framerate := i "Framerate", language := b "Language", country := b "STLCountryOfOrigin",
           creation := (kv a "STLCreationDate").bind dateOf, dsc := b "STLDisplayStandardCode",
           editorContact := b "STLEditorContactDetails", editorName := b "STLEditorName",
           maxChars := (kv a "STLMaximumNumberOfDisplayableCharactersInAnyTextRow").bind intOf,
           maxRows := (kv a "STLMaximumNumberOfDisplayableRows").bind intOf,
           origEpisode := b "STLOriginalEpisodeTitle", publisher := b "STLPublisher",
           revisionDate := (kv a "STLRevisionDate").bind dateOf, revisionNumber := i "STLRevisionNumber",
           slr := b "STLSubtitleListReferenceCode", tcp := i "STLTimecodeStartOfProgramme",
           translEpisode := b "STLTranslatedEpisodeTitle", translProgram := b "STLTranslatedProgramTitle",
           translContact := b "STLTranslatorContactDetails", translName := b "STLTranslatorName", title := b "Title" }

def isTrue (a : Attrs) (k : String) : Bool := kv a k == some "true".toList

def cueOf (it : CItem) : STL.WCue :=
  { startAt := it.startAt, endAt := it.endAt,
    just := (kv it.attrs "STLJustification").bind intOf,
    vp := (kv it.attrs "STLPosition").bind fun s => intOf (s.takeWhile (· ≠ ',')),
    lines := it.lines.map fun l => l.items.map fun li =>
      { text := li.text.map Char.toNat, italics := isTrue li.attrs "STLItalics", underline := isTrue li.attrs "STLUnderline",
        boxing := isTrue li.attrs "STLBoxing" } }

/-! ### the view of an implementation result that the specification speaks about -/

def optBool (a : Attrs) (k : String) : Option Bool :=
  match kv a k with
  | some v => some (v == "true".toList)
  | none => none

def colorIdx (s : Str) : Option Nat :=
  ["00000000", "000000ff", "00008000", "0000ffff", "00ff0000", "00ff00ff", "00ffff00", "00ffffff"].idxOf? (String.ofList s)

def natOf (a : Attrs) (k : String) : Nat := (((kv a k).bind intOf).getD 0).toNat

def runView (li : LItem) : Spec.STL.Run :=
  { text := li.text, italic := optBool li.attrs "STLItalics", underline := optBool li.attrs "STLUnderline",
    boxing := optBool li.attrs "STLBoxing", color := (kv li.attrs "TeletextColor").bind colorIdx,
    dh := optBool li.attrs "TeletextDoubleHeight", ds := optBool li.attrs "TeletextDoubleSize",
    dw := optBool li.attrs "TeletextDoubleWidth", spacesBefore := natOf li.attrs "TeletextSpacesBefore",
    spacesAfter := natOf li.attrs "TeletextSpacesAfter" }

/-- `STLPosition` = `vp,maxRows,rows` -/
def posOf (a : Attrs) : Option (Int × Int × Int) :=
  match (kv a "STLPosition").map (splitC ',') with
  | some [x, y, z] => match intOf x, intOf y, intOf z with
    | some x, some y, some z => some (x, y, z)
    | _, _, _ => none
  | _ => none

def cueView (it : CItem) : Option Spec.STL.Cue :=
  match posOf it.attrs, (kv it.attrs "STLJustification").bind intOf with
  | some (vp, _, rows), some j =>
    -- Justification: 1 unchanged, 2 left, 3 centred, 4 right
    some { startNs := it.startAt, endNs := it.endAt, just := (j - 1).toNat, vp := vp.toNat, nrows := rows.toNat,
           lines := it.lines.map fun l => l.items.map runView }
  | _, _ => none

/-- the cross-format attributes the reader derives (`propagateSTLAttributes`, `propagateTeletextAttributes`),
    recomputed here from the STL attributes -/
def propagationOK (it : CItem) : Bool :=
  match posOf it.attrs, (kv it.attrs "STLJustification").bind intOf with
  | some (vp, maxRows, _), some j =>
    let wantAlign : Option Str := if j == 2 then some "left".toList else if j == 4 then some "right".toList else none
    let wantLine : Option Str :=
      if maxRows ≤ 0 then none
      else
        let pct : Int := if maxRows == 23 ∧ vp > 0 then (vp - 1) * 100 / maxRows else vp * 100 / maxRows
        some ((toString pct).toList ++ ['%'])
    kv it.attrs "WebVTTAlign" == wantAlign && kv it.attrs "WebVTTLine" == wantLine &&
    it.lines.all fun l => l.items.all fun li =>
      match (kv li.attrs "TeletextColor").bind colorIdx with
      | some c => kv li.attrs "TTMLColor" == some (["#000000", "#ff0000", "#008000", "#ffff00", "#0000ff", "#ff00ff", "#00ffff", "#ffffff"].getD c "").toList
      | none => (kv li.attrs "TTMLColor").isNone
  | _, _ => false

def two (n : Nat) : List Nat := [48 + n / 10 % 10, 48 + n % 10]

def clause (name : String) (ok : Bool) : List String := if ok then [] else [name]

/-- C05 (read): the value returned for a well-formed file is what the file denotes; the failed clauses -/
def readWhy (ignore : Bool) (doc : List Nat) (impl : List String) : List String :=
  match Spec.STL.decode ignore doc with
  | none => []
  | some d =>
    match impl with
    | "ok" :: rest =>
      match decSubs rest with
      | some (s, []) =>
        let b (k : String) : List Nat := ((kv s.metadata k).map utf8N).getD []
        let i (k : String) : Int := ((kv s.metadata k).bind intOf).getD 0
        let date (t : Nat × Nat × Nat) : List Nat := two t.1 ++ two t.2.1 ++ two t.2.2
        let lang : List Nat :=
          if d.lang == asc "0F" then asc "french" else if d.lang == asc "09" then asc "english"
          else if d.lang == asc "1E" then asc "norwegian" else if d.lang == asc "69" then asc "japanese"
          else if d.lang == asc "75" then asc "chinese" else b "Language"   -- other codes: the library has no name, nothing is claimed
        clause "frame rate / display standard / language" (i "Framerate" == d.fr && b "STLDisplayStandardCode" == [48 + d.dsc] && b "Language" == lang) ++
        clause "GSI text fields" ([b "Title", b "STLOriginalEpisodeTitle", b "STLTranslatedProgramTitle", b "STLTranslatedEpisodeTitle",
         b "STLTranslatorName", b "STLTranslatorContactDetails", b "STLSubtitleListReferenceCode", b "STLCountryOfOrigin",
         b "STLPublisher", b "STLEditorName", b "STLEditorContactDetails"] == d.texts) ++
        clause "GSI dates / numbers" (b "STLCreationDate" == date d.cd && b "STLRevisionDate" == date d.rd && i "STLRevisionNumber" == d.rn &&
          kv s.metadata "STLMaximumNumberOfDisplayableCharactersInAnyTextRow" == some (toString d.mnc).toList &&
          kv s.metadata "STLMaximumNumberOfDisplayableRows" == some (toString d.mnr).toList) ++
        clause "programme start" (i "STLTimecodeStartOfProgramme" == d.tcpNs) ++
        clause "number of cues" (s.items.length == d.cues.length) ++
        clause "cue timecodes" (s.items.map (fun it => (it.startAt, it.endAt)) == d.cues.map (fun c => (c.startNs, c.endNs))) ++
        clause "cue text / styling / position" (s.items.map cueView == d.cues.map some) ++
        clause "attribute propagation" (s.items.all propagationOK) ++
        clause "max rows in position" (s.items.all (fun it => (posOf it.attrs).any fun p => p.2.1 == (d.mnr : Int)))
      | _ => ["answer shape"]
    | _ => ["a well-formed file is refused"]

/-! ### write -/

/-- the frame-accurate instant the format can carry -/
def floorFrame (fr : Nat) (t : Int) : Int :=
  let n := t.toNat
  let f := n % 1000000000 * fr / 1000000000
  ((n / 1000000000 * 1000000000 + (f * 1000000000 + fr - 1) / fr : Nat) : Int)

/-- a character the Latin table can carry and the writer is claimed to encode (`$`, `¤` excluded: D22) -/
def tableChars : List (List Nat) := Generated.STL.cct12336.filterMap fun e =>
  if e.1 ≥ 0x21 && !(0xC0 ≤ e.1 && e.1 ≤ 0xCF) && e.1 != 0x24 && e.1 != 0xA4 && e.1 != 0xA0 then some e.2 else none

def composedChars : List (List Nat) := Generated.STL.nfcPairs.filterMap fun e =>
  if Spec.STL.isLetter e.1 then some e.2.2 else none

def markChars : List Nat := Generated.STL.cct12336.filterMap fun e =>
  if 0xC0 ≤ e.1 && e.1 ≤ 0xCF then e.2.head? else none

def repChars (strict : Bool) : Option Char → Str → Bool
  | _, [] => true
  | prev, c :: cs =>
    (c == ' ' || (strict && (c == '$' || c.toNat == 0xA4)) || tableChars.contains [c.toNat] || composedChars.contains [c.toNat] ||
      -- a letter and a floating diacritic Unicode has no composed character for
      (markChars.contains c.toNat && (prev.any fun p => Spec.STL.isLetter p.toNat))) && repChars strict (some c) cs

/-- text made of repertoire characters (table characters, letters with one diacritic, single spaces inside) -/
def repText (strict : Bool) (t : Str) : Bool :=
  t ≠ [] && trimSpace t == t && !contains "  ".toList t && repChars strict none t

def effSty (li : LItem) : Bool × Bool × Bool :=
  (isTrue li.attrs "STLItalics", isTrue li.attrs "STLUnderline", isTrue li.attrs "STLBoxing")

/-- adjacent runs with the same effective style are one stretch of text (the writer separates runs by a space) -/
def mergeRuns : List (Str × (Bool × Bool × Bool)) → List (Str × (Bool × Bool × Bool))
  | a :: b :: rest =>
    if a.2 == b.2 then mergeRuns ((a.1 ++ ' ' :: b.1, a.2) :: rest) else a :: mergeRuns (b :: rest)
  | l => l
termination_by l => l.length

def linesView (it : CItem) : List (List (Str × (Bool × Bool × Bool))) :=
  it.lines.map fun l => mergeRuns (l.items.map fun li => (li.text, effSty li))

def specLines (c : Spec.STL.Cue) : List (List (Str × (Bool × Bool × Bool))) :=
  c.lines.map fun l => mergeRuns (l.map fun r => (r.text, (r.italic == some true, r.underline == some true, r.boxing == some true)))

/-- timecode bytes (in, out) of every TTI block of a written file -/
def timecodes (b : List Nat) : List (List Nat) :=
  (Spec.STL.blocks b.length (b.drop 1024)).map fun p => (p.drop 5).take 8

def printableASCII (b : List Nat) : Bool := b.all fun c => 0x20 ≤ c && c ≤ 0x7E

/-- the metadata the writer was given (after its defaults), as far as STL can carry it: printable
    ASCII values that fit their field, compared with what the library reads back -/
def metaFields (m : STL.Meta) : List (List Nat × Nat) :=
  [(m.title, 32), (m.origEpisode, 32), (m.translProgram, 32), (m.translEpisode, 32), (m.translName, 32), (m.translContact, 32),
   (m.slr, 16), (m.country, 3), (m.publisher, 32), (m.editorName, 32), (m.editorContact, 32)]

def metaCarried (m : STL.Meta) : Bool :=
  (metaFields m).all (fun (v, n) => printableASCII v && v.length ≤ n && Spec.STL.strip v == v) &&
  0 ≤ m.revisionNumber && m.revisionNumber < 100 &&
  (m.maxChars.all fun v => 0 ≤ v && v < 100) && (m.maxRows.all fun v => 0 ≤ v && v < 100)

def metaBackOK (g : STL.WGSI) (back : Subs) : Bool :=
  if !metaCarried g.m then true else
  let b (k : String) : List Nat := ((kv back.metadata k).map utf8N).getD []
  let i (k : String) : Int := ((kv back.metadata k).bind intOf).getD 0
  [b "Title", b "STLOriginalEpisodeTitle", b "STLTranslatedProgramTitle", b "STLTranslatedEpisodeTitle",
   b "STLTranslatorName", b "STLTranslatorContactDetails", b "STLSubtitleListReferenceCode", b "STLCountryOfOrigin",
   b "STLPublisher", b "STLEditorName", b "STLEditorContactDetails"] == (metaFields g.m).map (·.1) &&
  i "Framerate" == g.m.framerate && b "STLDisplayStandardCode" == g.m.dsc &&
  some (b "STLCreationDate") == g.m.creation.map STL.formatDate && some (b "STLRevisionDate") == g.m.revisionDate.map STL.formatDate &&
  i "STLRevisionNumber" == g.m.revisionNumber &&
  (kv back.metadata "STLMaximumNumberOfDisplayableCharactersInAnyTextRow").bind intOf == g.m.maxChars &&
  (kv back.metadata "STLMaximumNumberOfDisplayableRows").bind intOf == g.m.maxRows &&
  i "STLTimecodeStartOfProgramme" == floorFrame g.m.framerate.toNat g.m.tcp &&
  (if (STL.languageCodeOf g.m.language).isSome then b "Language" == g.m.language else true)

def metaSpecOK (g : STL.WGSI) (d : Spec.STL.Doc) : Bool :=
  if !metaCarried g.m then true else
  d.texts == (metaFields g.m).map (·.1) && (d.fr : Int) == g.m.framerate && [48 + d.dsc] == g.m.dsc &&
  d.rn == g.m.revisionNumber && g.m.maxChars == some (d.mnc : Int) && g.m.maxRows == some (d.mnr : Int) &&
  g.m.creation == some { yy := d.cd.1, mm := d.cd.2.1, dd := d.cd.2.2 } &&
  g.m.revisionDate == some { yy := d.rd.1, mm := d.rd.2.1, dd := d.rd.2.2 } &&
  d.tcpNs == floorFrame d.fr g.m.tcp

/-- like `compareS`, with the names of the failed clauses of the predicate in the report -/
def compareW (model impl : String) (why : List String) : Verdict :=
  if model = impl then (if why.isEmpty then .agree else .disagree false (s!"[model and implementation agree; specification clauses failed: {why}] " ++ model))
  else .disagree why.isEmpty model

/-- C05 (write): the failed clauses -/
def writeWhy (strict : Bool) (now : STL.Date) (s : Subs) (md : Option STL.Meta) (cues : List STL.WCue) (impl : List String) : List String :=
  if s.items.isEmpty then clause "empty list refused" (impl == ["err"]) else
  match impl with
  | "ok" :: bytes :: "ok" :: rest =>
    match decBytes bytes, decSubs rest with
    | some b, some (back, [again]) =>
      let b := toNats b
      -- framing: one GSI block and one TTI block per cue
      clause "framing" (b.length == 1024 + 128 * s.items.length) ++
      -- reading then writing again changes no timecode
      clause "rewrite changes no timecode" (match decBytes again with
         | some b2 => timecodes (toNats b2) == timecodes b && ((toNats b2).drop 256).take 8 == (b.drop 256).take 8
         | none => false) ++
      -- the cues and metadata denoted
      (let g := STL.newGSI now md cues
       let fr := g.m.framerate.toNat
       let tcp := g.m.tcp
       let inRange := s.items.all fun it => 0 ≤ it.startAt + tcp && it.startAt + tcp < 86400000000000 && 0 ≤ it.endAt + tcp && it.endAt + tcp < 86400000000000
       if !inRange || tcp < 0 || tcp ≥ 86400000000000 then [] else
       -- cue times are relative to the programme start; the file carries frame numbers
       let wantTimes := s.items.map fun it => (floorFrame fr (it.startAt + tcp) - floorFrame fr tcp, floorFrame fr (it.endAt + tcp) - floorFrame fr tcp)
       -- timecodes: to the library's reader (always) …
       clause "timecodes read back" (back.items.map (fun it => (it.startAt, it.endAt)) == wantTimes) ++
       clause "metadata read back" (metaBackOK g back) ++
       -- justification and vertical position (teletext display standards: rows 1–23; default row 20, left)
       clause "justification / vertical position read back" (back.items.map (fun it => ((posOf it.attrs).map (·.1), (kv it.attrs "STLJustification").bind intOf))
            == s.items.map (fun it =>
                 let vp : Int := ((posOf it.attrs).map (·.1)).getD 20
                 let tele := g.m.dsc == [0x31] || g.m.dsc == [0x32]
                 let vp := if tele then max 1 (min 23 vp) else vp % 256
                 let j : Int := match (kv it.attrs "STLJustification").bind intOf with
                   | some 1 => 1 | some 3 => 3 | some 4 => 4 | _ => 2
                 (some vp, some j))) ++
       -- … text and styling: open subtitling, repertoire text that fits (teletext: known finding D23)
       -- (`strict`, used by the known-finding witnesses only: the classes of D22 / D23 are not excluded)
       (let textual := (strict || g.m.dsc == [0x30]) && s.items.all fun it =>
          !it.lines.isEmpty && (it.lines.all fun l => !l.items.isEmpty && l.items.all fun li => repText strict li.text) &&
          (STL.encodeText (STL.cueString (cueOf it))).length ≤ 112
        if !textual then [] else
        clause "text read back" (back.items.map linesView == s.items.map linesView) ++
        -- the independent decoder only speaks about GSI strings made of printable ASCII
        (if !metaCarried g.m then [] else
         match Spec.STL.decode false b with
         | some d => clause "independent decoder: text" (d.cues.map specLines == s.items.map linesView) ++
                     clause "independent decoder: timecodes" (d.cues.map (fun c => (c.startNs, c.endNs)) == wantTimes) ++
                     clause "independent decoder: metadata" (metaSpecOK g d)
         | none => ["independent decoder rejects the file"])))
    | _, _ => ["answer shape"]
  | _ => ["write or re-read failed"]

end STLD

open STLD

def resStrSTL : STL.Res (STL.Meta × List CItem) → Option String
  | .ok r => some ("ok " ++ encRead r)
  | .err => some "err"
  | .unmodelled => none

def handleSTL (op : String) (args impl : List String) : Verdict :=
  match op, args with
  | "stl.read", [ig, doc] =>
    match decBytes doc with
    | some doc =>
      let doc := toNats doc
      match resStrSTL (STL.read (ig == "1") doc) with
      | none => .unmodelled
      | some m => compareW m (" ".intercalate impl) (readWhy (ig == "1") doc impl)
    | none => .bad "stl.read"
  | "stl.write", now :: toks | "stl.kf", now :: toks =>
    match decSubs toks, dateOf now.toList with
    | some (s, []), some now =>
      let md := metaOf s.metadata
      let cues := s.items.map cueOf
      -- from 4096 h on, `Duration.Hours()` (a float64 sum) can round the last nanoseconds of an hour up
      -- (`C16float.stl_hours_sharp`), and cue time + programme start can leave int64: not modelled
      let tcp : Int := (md.map (·.tcp)).getD 0
      let far := decide (tcp ≥ 14745600000000000) ||
        cues.any fun c => decide (c.startAt + tcp ≥ 14745600000000000) || decide (c.endAt + tcp ≥ 14745600000000000)
      let m : Option String :=
        if far then none else
        match STL.write now md cues with
        | .err => some "err"
        | .unmodelled => none
        | .ok out =>
          match STL.read false out with
          | .ok (m2, items2) =>
            (match STL.write now (some m2) (items2.map cueOf) with
             | .ok again => some s!"ok {hx out} ok {encRead (m2, items2)} {hx again}"
             | .err => some s!"ok {hx out} ok {encRead (m2, items2)} err"
             | .unmodelled => none)
          | .err => some s!"ok {hx out} err -"
          | .unmodelled => none
      match m with
      | none => .unmodelled
      | some m =>
        compareW m (" ".intercalate impl) (writeWhy (op == "stl.kf") now s md cues impl)
    | _, _ => .bad op
  | "stl.enc", [t] =>
    match decS' t with
    | some s =>
      let cps := s.map Char.toNat
      if !STL.inDomain cps then .unmodelled
      else compareS s!"ok {hx (STL.encodeText cps)}" (" ".intercalate impl) fun _ => true
    | none => .bad "stl.enc"
  | "stl.dec", [b] =>
    match decBytes b with
    | some bs =>
      let r := (toNats bs).foldl (fun (st : List Nat × Option Nat) k => let (o, a) := STL.decode st.2 k; (st.1 ++ o, a)) ([], none)
      compareS s!"ok {encS' (STL.str r.1)} {r.2.getD 0}" (" ".intercalate impl) fun _ => true
    | none => .bad "stl.dec"
  | "stl.row", [isOpen, acc, row] =>
    match decBytes row, acc.toNat? with
    | some row, some acc =>
      let acc := if acc == 0 then none else some acc
      let r : Option (Option Line × Option Nat) := if isOpen == "1" then STL.openRow acc (toNats row) else some (STL.teleRow acc (toNats row))
      let m := match r with
        | none => "err"
        | some (l, a) => s!"ok {a.getD 0} {encSubs { items := [{ startAt := 0, endAt := 0, lines := l.toList }] }}"
      compareS m (" ".intercalate impl) fun _ => true
    | _, _ => .bad "stl.row"
  | _, _ => .bad s!"unknown op {op}"

end Driver
end Astisub
