import Astisub.Driver.Basic
import Astisub.Driver.SRT
import Astisub.Go.Bufio
import Astisub.Model.VTT
import Astisub.Spec.VTT

namespace Astisub
namespace Driver
open Proto Go

def vttResStr : SRT.Res Subs → Option String
  | .ok s => some ("ok " ++ encSubs s)
  | .err => some "err"
  | .unmodelled => none

/-! ### the WebVTT view of a cue list: what `Spec.VTT.decode` speaks about -/

def specTag (t : VTT.Tag) : Spec.VTT.GTag := { name := t.name, classes := t.classes, annotation := t.annotation }

def attrStr (a : Attrs) (k : String) : Str := (SRT.kvGet a k).getD []

/-- `none` when an instant is negative or not a whole millisecond -/
def vttView (s : Subs) : Option Spec.VTT.GDoc :=
  let cues := Spec.VTT.mapM (fun (it : CItem) =>
    if it.startAt % 1000000 ≠ 0 || it.endAt % 1000000 ≠ 0 || it.startAt < 0 || it.endAt < 0 then none else
    match Spec.VTT.mapM (fun (l : Line) =>
        match Spec.VTT.mapM (fun (li : LItem) =>
            if li.startAt % 1000000 ≠ 0 || li.startAt < 0 then none else
            some ({ text := li.text, tags := (VTT.tagsOfAttrs li.attrs).map specTag,
                    ts := if li.startAt = 0 then none else some (li.startAt / 1000000).toNat } : Spec.VTT.GRun)) l.items with
        | some runs => some ({ voice := l.voice, runs := runs } : Spec.VTT.GLine)
        | none => none) it.lines with
    | none => none
    | some lines =>
      some ({ id := it.index, comments := it.comments, startMs := (it.startAt / 1000000).toNat, endMs := (it.endAt / 1000000).toNat,
              align := attrStr it.attrs "WebVTTAlign", line := attrStr it.attrs "WebVTTLine",
              position := attrStr it.attrs "WebVTTPosition", size := attrStr it.attrs "WebVTTSize",
              vertical := attrStr it.attrs "WebVTTVertical", region := it.region, lines := lines } : Spec.VTT.GCue)) s.items
  match cues with
  | none => none
  | some cues =>
    some { cues := cues,
           regions := (Proto.sortDefs s.regions).map fun d =>
             { id := d.id, lines := attrStr d.attrs "WebVTTLines", anchor := attrStr d.attrs "WebVTTRegionAnchor",
               scroll := attrStr d.attrs "WebVTTScroll", viewport := attrStr d.attrs "WebVTTViewportAnchor",
               width := attrStr d.attrs "WebVTTWidth" },
           styles := VTT.styleLines s,
           tsmap := match SRT.kvGet s.metadata "WebVTTTimestampMap" with
             | some v => match splitC ',' v with
               | [l, m] => match atoi l, atoi m with
                 | some l, some m => some (l, m)
                 | _, _ => none
               | _ => none
             | none => none }

/-- what the writer is asked to carry, with the referenced styles' fall-backs resolved and the
    instants truncated to the millisecond -/
def vttWanted (s : Subs) : Subs :=
  { s with
    items := s.items.zipIdx.map fun (it, k) =>
      let sty := VTT.styleAttrs s it.style
      let own : Attrs := it.attrs
      { it with index := (k : Int) + 1,
                startAt := it.startAt - it.startAt % 1000000, endAt := it.endAt - it.endAt % 1000000,
                attrs := some (mkAttrs [("WebVTTAlign", VTT.fallback own sty "WebVTTAlign"), ("WebVTTLine", VTT.fallback own sty "WebVTTLine"),
                  ("WebVTTPosition", VTT.fallback own sty "WebVTTPosition"), ("WebVTTSize", VTT.fallback own sty "WebVTTSize"),
                  ("WebVTTVertical", VTT.fallback own sty "WebVTTVertical")]),
                lines := it.lines.map fun l => { l with items := l.items.map fun li => { li with startAt := li.startAt - li.startAt % 1000000 } } },
    regions := s.regions.map fun d =>
      let sty := VTT.styleAttrs s d.ref
      { d with attrs := some (mkAttrs [("WebVTTLines", VTT.fallback d.attrs sty "WebVTTLines"),
          ("WebVTTRegionAnchor", VTT.fallback d.attrs sty "WebVTTRegionAnchor"), ("WebVTTScroll", VTT.fallback d.attrs sty "WebVTTScroll"),
          ("WebVTTViewportAnchor", VTT.fallback d.attrs sty "WebVTTViewportAnchor"), ("WebVTTWidth", VTT.fallback d.attrs sty "WebVTTWidth")]) } }

def plainValue (v : Str) : Bool := v ≠ [] && v.all fun c => !(isSpace c || c = ':' || c = '=' || c = '<' || c = '>')

def plainText (t : Str) : Bool :=
  !(t.any fun c => c = '\n' || c = '\r') && !contains "-->".toList t

/-- does the cue list only use what WebVTT (in the library's dialect) can carry? — the proviso of
    the write clause of C02 -/
def vttRep (s : Subs) : Bool :=
  let attrsOk (a : Attrs) (keys : List String) : Bool :=
    match a with
    | none => true
    | some kv => kv.all fun (k, v) => if keys.contains (String.ofList k) then plainValue v else
        -- attributes of other formats are ignored by the writer, except the colour class
        k ≠ "TTMLColor".toList
  let hour100 : Int := 360000000000000
  (s.items.all fun it =>
    decide (0 ≤ it.startAt) && decide (it.startAt < hour100) && decide (0 ≤ it.endAt) && decide (it.endAt < hour100) &&
    attrsOk it.attrs ["WebVTTAlign", "WebVTTLine", "WebVTTPosition", "WebVTTSize", "WebVTTVertical"] &&
    attrsOk (VTT.styleAttrs s it.style) ["WebVTTAlign", "WebVTTLine", "WebVTTPosition", "WebVTTSize", "WebVTTVertical"] &&
    (match it.region with | some r => plainValue r && s.regions.any (·.id = r) | none => true) &&
    (it.comments.all fun c => trimSpace c = c && c ≠ [] && plainText c && !hasPrefix "NOTE ".toList c && !hasPrefix "NOTE\t".toList c && c ≠ "NOTE".toList) &&
    !it.lines.isEmpty && it.lines.all fun l =>
      (l.voice = trimSpace l.voice && !(l.voice.any fun c => c = '<' || c = '>' || c = '&' || c = '/' || c = '=' || c = '"' || c = '\'' || c = '\n' || c = '\r') &&
        !hasSuffix "--".toList l.voice) &&
      !l.items.isEmpty &&
      -- runs written without a tag in between are one text: "--" then ">" must not meet
      plainText (l.items.foldl (fun acc li => acc ++ li.text) []) &&
      -- the line as a whole keeps its outer white space only if there is none
      (match l.items.head?, l.items.getLast? with
       | some a, some b => (a.text.head?.map isSpace) != some true && (b.text.getLast?.map isSpace) != some true
       | _, _ => true) &&
      l.items.all fun li =>
        trimSpace li.text ≠ [] && plainText li.text && decide (0 ≤ li.startAt) && decide (li.startAt < hour100) &&
        -- an in-cue instant below the millisecond is written as <00:00:00.000>, which is "no instant" to the library
        (li.startAt == 0 || decide (1000000 ≤ li.startAt)) &&
        attrsOk li.attrs [] &&
        (VTT.tagsOfAttrs li.attrs).all fun t =>
          t.name ≠ [] && t.name ≠ "v".toList && (t.name.all fun c => c.isAlphanum || c = '_') && (t.name.head?.map Char.isAlpha) == some true &&
          (t.classes.all fun c => c ≠ [] && c.all fun ch => ch.isAlphanum || ch = '_' || ch = '-') &&
          t.annotation = trimSpace t.annotation && (t.annotation.all fun c => c.isAlphanum || c = '-' || c = ' ' || c = '_') &&
          -- the tag as written must not end in "--" (with the closing '>' the line would hold "-->")
          !hasSuffix "--".toList t.annotation && !hasSuffix "--".toList (t.classes.getLast?.getD []) &&
          -- names the HTML tokenizer treats as raw text elements are outside its model
          !(Go.rawTags.contains (String.ofList (Go.toLowerAscii t.name)))) &&
  -- region identifiers are the keys of a map
  (s.regions.map (·.id)).eraseDups.length == s.regions.length &&
  (s.regions.all fun d => plainValue d.id &&
    -- the number of lines is an int in the library: canonical decimal, and 0 means unset
    (match SRT.kvGet d.attrs "WebVTTLines" with
     | some v => (match atoi v with | some n => decide (0 < n) && itoa n == v | none => false)
     | none => true) &&
    attrsOk d.attrs ["WebVTTLines", "WebVTTRegionAnchor", "WebVTTScroll", "WebVTTViewportAnchor", "WebVTTWidth"] &&
    attrsOk (VTT.styleAttrs s d.ref) ["WebVTTLines", "WebVTTRegionAnchor", "WebVTTScroll", "WebVTTViewportAnchor", "WebVTTWidth"]) &&
  ((VTT.styleLines s).all fun l => trimSpace l = l && l ≠ [] && plainText l &&
    -- a CSS line that looks like the start of another block ends the STYLE block (the library's dialect)
    !(l = "NOTE".toList || hasPrefix "NOTE ".toList l || hasPrefix "NOTE\t".toList l || hasPrefix "Region: ".toList l || hasPrefix "STYLE".toList l ||
      hasPrefix "X-TIMESTAMP-MAP".toList l)) &&
  ((VTT.styleLines s).getLast?.map (hasSuffix ['}'])) != some false &&
  (match SRT.kvGet s.metadata "WebVTTTimestampMap" with
   | some v => match splitC ',' v with
     | [l, m] => match atoi l, atoi m with
       -- LOCAL is carried to the millisecond; MPEGTS is a non-negative tick count
       | some l, some mv => decide (0 ≤ l) && decide (l < hour100) && l % 1000000 == 0 && decide (0 ≤ mv) && itoa mv == m &&
                            decide (mv < 4611686018427387904)
       | _, _ => false
     | _ => false
   | none => true)

/-- every `region:` setting of the document names a region defined on an earlier line -/
def regionsDefinedBeforeUse (doc : Str) : Bool :=
  let lines := Spec.VTT.splitLines doc []
  let rec go : List Str → List Str → Bool
    | [], _ => true
    | l :: ls, defined =>
      if hasPrefix "Region: ".toList l then
        let ids := (splitC ' ' l).filterMap fun p => dropPrefix? "id=".toList p
        go ls (ids ++ defined)
      else if contains "-->".toList l then
        let uses := (fields l).filterMap fun p => dropPrefix? "region:".toList p
        uses.all (defined.contains ·) && go ls defined
      else go ls defined
  go lines []

/-- Documents the independent decoder accepts but on which the library's dialect is known to differ
    (machine-checked witnesses in `Props/C02read.lean`, reported in `notes/agents/proof-vttread-report.txt`);
    none is a rendering the property quantifies over, all can arise by mutation of a valid document:
    `NOTE` followed by a tab (the library only knows `NOTE␣`), a region `lines=` value beyond int64, and a
    tag that contains `=` or a form feed (the HTML tokenizer reads quoted attribute values and takes the
    form feed for white space). The read predicate does not judge them. -/
def vttOutside (text : Str) : Bool :=
  let lines := Spec.VTT.splitLines text []
  let rec inTag : List Char → Bool → Bool
    | [], _ => false
    | '<' :: c :: rest, false => if c.isAlpha || c = '/' then inTag rest true else inTag (c :: rest) false
    | '>' :: rest, true => inTag rest false
    | c :: rest, true => c = '=' || c = Char.ofNat 12 || inTag rest true
    | _ :: rest, false => inTag rest false
  let rec longDigits : List Char → Nat → Bool
    | [], n => decide (19 ≤ n)
    | c :: rest, n => if c.isDigit then longDigits rest (n + 1) else decide (19 ≤ n) || longDigits rest 0
  -- a piece of text between two tags that is nothing but `&nbsp;` on a line with an inline timestamp: blank
  -- for the decoder (U+00A0 after decoding), text for the library (it tests the raw characters), so the pending
  -- timestamp lands on different runs (`C02read2.findingNbsp…`)
  -- the pieces of text outside `<…>`
  let rec chunks : List Char → Bool → List Char → List (List Char) → List (List Char)
    | [], _, cur, acc => (cur.reverse :: acc)
    | '<' :: rest, false, cur, acc => chunks rest true [] (cur.reverse :: acc)
    | '>' :: rest, true, _, acc => chunks rest false [] acc
    | _ :: rest, true, cur, acc => chunks rest true cur acc
    | c :: rest, false, cur, acc => chunks rest false (c :: cur) acc
  let nbspOnly (c : List Char) : Bool :=
    contains "&nbsp;".toList c && trimSpace (replaceAll "&nbsp;".toList [] c) = []
  let hasTs (l : List Char) : Bool :=
    (l.zip l.tail).any fun (a, b) => a = '<' && b.isDigit
  lines.any fun l =>
    let t := trimSpace l
    (hasTs t && (chunks t false [] []).any nbspOnly) ||
    hasPrefix "NOTE\t".toList t ||
    (hasPrefix "Region: ".toList t && longDigits t 0) ||
    inTag t false

/-- an inline timestamp of zero is "no timestamp" to the library (`LineItem.StartAt = 0`) -/
def zeroTs (g : Spec.VTT.GDoc) : Spec.VTT.GDoc :=
  { g with cues := g.cues.map fun c => { c with lines := c.lines.map fun l =>
      { l with runs := l.runs.map fun r => if r.ts == some 0 then { r with ts := none } else r } } }

def handleVTT (op : String) (args impl : List String) : Verdict :=
  match op, args with
  | "vtt.read", [doc] =>
    match decBytes doc with
    | some doc =>
      if tooLong doc then .unmodelled else
      match vttResStr (VTT.read (docLines doc)) with
      | none => .unmodelled
      | some m =>
        compareS m (" ".intercalate impl) fun _ =>
          -- C02 (read): a well-formed document is read as what it denotes
          match decodeLine doc with
          | none => true
          | some text =>
            if vttOutside text then true else
            match (Spec.VTT.decode text).map zeroTs with
            | none => true
            | some g =>
              match impl with
              | "ok" :: rest =>
                match decSubs rest with
                | some (s, []) => (vttView s).map Spec.VTT.norm == some (Spec.VTT.norm g)
                | _ => false
              | _ => false
    | none => .bad "vtt.read"
  | "vtt.write", toks =>
    match decSubs toks with
    | some (s, []) =>
      -- not modelled: negative instants (`formatDuration` prints signs inside the fields) and a tag whose class
      -- list holds an empty name (what the reader returns for `<c.>`: the writer's common-prefix test compares
      -- the dot-joined class names, the model compares the lists)
      let negTs := match SRT.kvGet s.metadata "WebVTTTimestampMap" with
        | some v => v.head? = some '-'
        | none => false
      if negTs || (s.items.any fun it => it.startAt < 0 || it.endAt < 0 ||
          it.lines.any fun l => l.items.any fun li => li.startAt < 0 ||
            (VTT.tagsOfAttrs li.attrs).any fun t => t.classes.any (·.isEmpty)) then .unmodelled else
      let m : Option String :=
        match VTT.write s with
        | none => some "err"
        | some out =>
          let bytes := utf8 out
          (vttResStr (VTT.read (docLines bytes))).map fun r => s!"ok {encBytes bytes} {r}"
      match m with
      | none => .unmodelled
      | some m =>
        compareS m (" ".intercalate impl) fun _ =>
          -- C02 (write): the bytes denote the same things to an independent decoder and to the library's reader
          if s.items.isEmpty then impl == ["err"] else
          if !vttRep s then true else
          match impl with
          | "ok" :: bytes :: "ok" :: rest =>
            let want := (vttView (vttWanted s)).map Spec.VTT.norm
            match decBytes bytes, decSubs rest with
            | some b, some (back, []) =>
              want.isSome &&
              (match decodeLine b with
               | some text => (Spec.VTT.decode text).map Spec.VTT.norm == want && regionsDefinedBeforeUse text
               | none => false) &&
              (vttView back).map Spec.VTT.norm == want &&
              (back.items.zipIdx.all fun (it, k) => it.index == (k : Int) + 1)
            | _, _ => false
          | _ => false
    | _ => .bad "vtt.write"
  | "vtt.tagre", [s] =>
    match decS' s with
    | some s =>
      let m := match tagRe s with
        | none => "-"
        | some (a, b, c) => s!"{encS' a} {encS' b} {encS' c}"
      compare m (" ".intercalate impl) fun _ => false
    | none => .bad "vtt.tagre"
  | "vtt.texttok", [s, p] =>
    match decS' s, p.toInt? with
    | some s, some p =>
      match VTT.textToken none s p with
      | none => .unmodelled
      | some (its, next) =>
        let m := " ".intercalate (toString its.length :: (its.flatMap fun it => [encS' it.text, toString it.startAt]) ++ [toString next])
        compare m (" ".intercalate impl) fun _ => false
    | _, _ => .bad "vtt.texttok"
  | "vtt.tsmap", [s] =>
    match decS' s with
    | some s =>
      match VTT.parseTsMap s with
      | .unmodelled => .unmodelled
      | .err => compare "err" (" ".intercalate impl) fun _ => false
      | .ok (l, m) =>
        if l < 0 || m.natAbs > 9000000000 then .unmodelled else
        let str := "X-TIMESTAMP-MAP=LOCAL:".toList ++ Duration.formatVTT l ++ ",MPEGTS:".toList ++ itoa m
        let off : Int := Int.tdiv (m * 1000000000) 90000 - l
        compareS s!"ok {l} {m} {encS' str} {off}" (" ".intercalate impl) fun _ =>
          -- the header line printed for a value parses back to the value
          (match VTT.parseTsMap str with
           | .ok (l', m') => l' == l - l % 1000000 && m' == m
           | _ => false)
    | none => .bad "vtt.tsmap"
  | "vtt.line", toks =>
    match decSubs toks with
    | some (s, []) =>
      let out := (s.items.flatMap fun it => it.lines.map VTT.lineBytes).flatten
      compare (encBytes (utf8 out)) (" ".intercalate impl) fun _ => false
    | _ => .bad "vtt.line"
  | _, _ => .bad s!"unknown op {op}"

end Driver
end Astisub
