import Astisub.Driver.Basic
import Astisub.Model.TTML
import Astisub.Spec.TTML

/-!
# Driver/TTML — protocol handler of the `ttml.*` streams (see `harness/ttml.go` for the grammar)
-/

namespace Astisub
namespace Driver
open Proto Go

namespace TTMLD

abbrev P (α : Type) := List String → Option (α × List String)

def pStr : P Str
  | t :: rest => (decS' t).map fun s => (s, rest)
  | [] => none

def pInt : P Int
  | t :: rest => t.toInt?.map fun i => (i, rest)
  | [] => none

/-- `<letter><n>` -/
def pCount (c : Char) : P Nat
  | t :: rest =>
    match t.toList with
    | x :: n => if x = c then (String.ofList n).toNat?.map fun n => (n, rest) else none
    | [] => none
  | [] => none

def pTriples : Nat → P (List (Str × Str × Str))
  | 0, ts => some ([], ts)
  | n + 1, a :: b :: c :: ts =>
    match decS' a, decS' b, decS' c, pTriples n ts with
    | some a, some b, some c, some (l, ts') => some ((a, b, c) :: l, ts')
    | _, _, _, _ => none
  | _ + 1, _ => none

def pTok : P TTML.XTok
  | "S" :: sp :: nm :: n :: rest =>
    match decS' sp, decS' nm, n.toNat? with
    | some sp, some nm, some n => (pTriples n rest).map fun (a, r) => (.start sp nm a, r)
    | _, _, _ => none
  | "E" :: sp :: nm :: rest =>
    match decS' sp, decS' nm with
    | some sp, some nm => some (.stop sp nm, rest)
    | _, _ => none
  | "C" :: t :: rest => (decS' t).map fun s => (.text s, rest)
  | "O" :: rest => some (.other, rest)
  | _ => none

/-- `T<n> tok* ok|err` -/
def pToks : P (List TTML.XTok × Bool) := fun ts =>
  match pCount 'T' ts with
  | some (n, rest) =>
    match repeatP pTok n rest with
    | some (toks, "ok" :: r) => some ((toks, true), r)
    | some (toks, "err" :: r) => some ((toks, false), r)
    | _ => none
  | none => none

def pKV : P KV := fun ts =>
  match decAttrs ts with
  | some (some kv, r) => some (kv, r)
  | _ => none

def pRaw : P (List Str) := fun ts =>
  match pCount 'B' ts with
  | some (n, rest) => repeatP pStr n rest
  | none => none

def pHdr : P TTML.InDef
  | "H" :: rest =>
    match pStr rest with
    | some (id, r) => match pStr r with
      | some (sty, r) => (pKV r).map fun (a, r) => ({ id := id, style := sty, attrs := a }, r)
      | none => none
    | none => none
  | _ => none

def pSub : P TTML.InSub
  | "P" :: rest =>
    match pRaw rest with
    | none => none
    | some (b, r) => match pRaw r with
      | none => none
      | some (e, r) => match pStr r with
        | none => none
        | some (id, r) => match pStr r with
          | none => none
          | some (reg, r) => match pStr r with
            | none => none
            | some (sty, r) => match pKV r with
              | none => none
              | some (a, r) => match pStr r with
                | none => none
                | some (inner, r) => match pStr r with
                  | none => none
                  | some (stripped, r) => (pToks r).map fun ((toks, ok), r) =>
                    ({ begins := b, ends := e, id := id, region := reg, style := sty, attrs := a, inner := inner,
                       stripped := stripped, toks := toks, toksOk := ok }, r)
  | _ => none

/-- `err` | `ok …` -/
def pTIn : P (Option TTML.TIn)
  | "err" :: rest => some (none, rest)
  | "ok" :: rest =>
    match pInt rest with
    | none => none
    | some (fr, r) => match pInt r with
      | none => none
      | some (tr, r) => match pStr r with
        | none => none
        | some (lang, r) => match pStr r with
          | none => none
          | some (title, r) => match pStr r with
            | none => none
            | some (cr, r) => match countP pHdr r with
              | none => none
              | some (regions, r) => match countP pHdr r with
                | none => none
                | some (styles, r) => (countP pSub r).map fun (subs, r) =>
                  (some { framerate := fr, tickrate := tr, lang := lang, title := title, copyright := cr,
                          regions := regions, styles := styles, subs := subs }, r)
  | _ => none

structure Views where
  toks : List TTML.XTok
  toksOk : Bool
  tin : Option TTML.TIn
  res : List String

/-- `TOK tokens XML tin RES result…` -/
def pViews (ts : List String) : Option Views :=
  match ts with
  | "TOK" :: rest =>
    match pToks rest with
    | some ((toks, ok), "XML" :: r) =>
      match pTIn r with
      | some (tin, "RES" :: res) => some { toks := toks, toksOk := ok, tin := tin, res := res }
      | _ => none
    | _ => none
  | _ => none

def resStr : TTML.Res Subs → Option String
  | .ok s => some ("ok " ++ encSubs s)
  | .err => some "err"
  | .unmodelled => none

def specToks (l : List TTML.XTok) : List Spec.TTML.Tok :=
  l.map fun
    | .start sp n a => .start sp n a
    | .stop _ _ => .stop
    | .text s => .text s
    | .other => .other

/-! ### the view of a cue list the specification speaks about -/

/-- styling attributes a `StyleAttributes` carries for TTML: `TTMLFontSize` ↦ `fontSize` -/
def ttmlAttrsOf (a : Attrs) : Spec.TTML.AttrL :=
  Spec.TTML.stylingNames.filterMap fun n =>
    let field := "TTML" ++ String.ofList (match n.toList with | c :: r => c.toUpper :: r | [] => [])
    (TTML.kvGet a field).map fun v => (n.toList, v)

def runsOf (l : Line) : List Spec.TTML.GRun := l.items.map fun li => { text := li.text, style := li.style, attrs := ttmlAttrsOf li.attrs }

def linesOf' (ls : List Line) : List (List Spec.TTML.GRun) := if ls.isEmpty then [[]] else ls.map runsOf

def defsOf (l : List Def) : List Spec.TTML.GDef :=
  (sortDefs l).map fun d => { id := d.id, ref := d.ref, attrs := ttmlAttrsOf d.attrs }

def sortG (l : List Spec.TTML.GDef) : List Spec.TTML.GDef := l.mergeSort (fun a b => !strLt b.id a.id)

/-- the cue list agrees with what the document denotes (the read clause of C03) -/
def readOk (d : Spec.TTML.GDoc) (s : Subs) : Bool :=
  s.items.length == d.cues.length &&
  (s.items.zip d.cues).all (fun (it, c) =>
    Spec.TTML.within1 it.startAt c.b && Spec.TTML.within1 it.endAt c.e &&
    it.style == c.style && it.region == c.region && ttmlAttrsOf it.attrs == c.attrs && linesOf' it.lines == c.lines) &&
  defsOf s.styles == sortG d.styles && defsOf s.regions == sortG d.regions &&
  (TTML.kvGet s.metadata "Title").getD [] == d.title && (TTML.kvGet s.metadata "TTMLCopyright").getD [] == d.copyright &&
  (match Spec.TTML.languageName d.lang with
   | some n => TTML.kvGet s.metadata "Language" == some n
   | none => true)

def xmlLegal (c : Char) : Bool :=
  let n := c.toNat
  n == 9 || n == 10 || n == 13 || (0x20 ≤ n && n ≤ 0xD7FF) || (0xE000 ≤ n && n ≤ 0xFFFD) || (0x10000 ≤ n && n ≤ 0x10FFFF)

/-- what TTML can carry (the proviso of the write clause): non-negative times, XML-legal text,
    non-empty identifiers, every reference defined -/
def rep (s : Subs) : Bool :=
  let sids := s.styles.map (·.id)
  let rids := s.regions.map (·.id)
  let okRef (r : Option Str) (ids : List Str) : Bool := match r with | none => true | some x => !x.isEmpty && ids.contains x
  -- the independent decoder refuses a start tag that carries a line feed in an attribute value, and prints zIndex in
  -- canonical form (`C03w2.needs_attr`, `needs_zcanon`)
  let okAttrs (a : Attrs) : Bool := (ttmlAttrsOf a).all fun (k, v) => v.all xmlLegal && !v.contains '\n' &&
    (k != "zIndex".toList || (match atoi v with | some n => itoa n == v | none => false))
  let okId (x : Str) : Bool := !x.isEmpty && x.all xmlLegal && !x.contains '\n'
  let okMeta := ((TTML.kvGet s.metadata "Title").getD []).all xmlLegal && ((TTML.kvGet s.metadata "TTMLCopyright").getD []).all xmlLegal
  okMeta &&
  -- identifiers are map keys
  sids.eraseDups.length == sids.length && rids.eraseDups.length == rids.length &&
  s.styles.all (fun d => okId d.id && okRef d.ref sids && okAttrs d.attrs) &&
  s.regions.all (fun d => okId d.id && okRef d.ref sids && okAttrs d.attrs) &&
  s.items.all fun it =>
    decide (0 ≤ it.startAt) && decide (0 ≤ it.endAt) && okRef it.style sids && okRef it.region rids && okAttrs it.attrs &&
    it.lines.all fun l => l.items.all fun li =>
      li.text.all xmlLegal && okRef li.style sids && okAttrs li.attrs

/-- the document the cue list should denote once written (times truncated to the millisecond) -/
def docOf (s : Subs) : Spec.TTML.GDoc :=
  { cues := s.items.map fun it =>
      { b := ((it.startAt - it.startAt % 1000000).toNat, 1), e := ((it.endAt - it.endAt % 1000000).toNat, 1),
        style := it.style, region := it.region, attrs := ttmlAttrsOf it.attrs, lines := linesOf' it.lines },
    styles := defsOf s.styles, regions := defsOf s.regions,
    title := (TTML.kvGet s.metadata "Title").getD [], copyright := (TTML.kvGet s.metadata "TTMLCopyright").getD [],
    lang := match TTML.kvGet s.metadata "Language" with
      | some l => (Spec.TTML.languageCode l).getD []
      | none => [] }

def normDoc (d : Spec.TTML.GDoc) : Spec.TTML.GDoc := { d with styles := sortG d.styles, regions := sortG d.regions }

/-! ### writer: element tree vs. tokens of the bytes -/

def nsTTML : Str := "http://www.w3.org/ns/ttml".toList
def nsTTS : Str := "http://www.w3.org/ns/ttml#styling".toList
def nsTTM : Str := "http://www.w3.org/ns/ttml#metadata".toList
def nsXML : Str := "http://www.w3.org/XML/1998/namespace".toList

def splitName (n : Str) : Str × Str :=
  match splitC ':' n with
  | [p, l] => (p, l)
  | _ => ([], n)

def resolveEl (n : Str) : Str × Str :=
  let (p, l) := splitName n
  if p = "ttm".toList then (nsTTM, l) else (nsTTML, l)

def resolveAttr (n : Str) : Str × Str :=
  let (p, l) := splitName n
  if p = "xmlns".toList then (p, l)
  else if p = "xml".toList then (nsXML, l)
  else if p = "tts".toList then (nsTTS, l)
  else ([], l)

def resolve (l : List TTML.WTok) : List TTML.XTok :=
  l.map fun
    | .start n a => let (sp, nm) := resolveEl n; .start sp nm (a.map fun (k, v) => let (s, l) := resolveAttr k; (s, l, v))
    | .stop n => let (sp, nm) := resolveEl n; .stop sp nm
    | .text s => .text s

/-- drop what `Encoder.Indent` adds: white-space-only character data outside `span` / `title` / `copyright` -/
def dropIndent : List TTML.XTok → List Str → List TTML.XTok
  | [], _ => []
  | .start sp n a :: rest, stack => .start sp n a :: dropIndent rest (n :: stack)
  | .stop sp n :: rest, stack => .stop sp n :: dropIndent rest stack.tail
  | .text s :: rest, stack =>
    let keep := match stack with
      | p :: _ => p = "span".toList || p = "title".toList || p = "copyright".toList
      | [] => false
    if !keep && s.all isSpace then dropIndent rest stack else .text s :: dropIndent rest stack
  | .other :: rest, stack => .other :: dropIndent rest stack

def encXTok : TTML.XTok → String
  | .start sp n a => s!"S {encS' sp} {encS' n} {a.length}" ++ String.join (a.map fun (x, y, z) => s!" {encS' x} {encS' y} {encS' z}")
  | .stop sp n => s!"E {encS' sp} {encS' n}"
  | .text s => s!"C {encS' s}"
  | .other => "O"

def encXToks (l : List TTML.XTok) : String := " ".intercalate (l.map encXTok)

/-- Documents the independent decoder accepts but on which the library is known to differ, outside the
    property's quantifier (kernel-checked witnesses `cexBig`, `cexBr` in `Props/C03read.lean`): a number of 19
    digits or more in an attribute value (the decoder computes with exact rationals, the library reports a range
    error) and a `br` element carrying a `zIndex` that is not an integer (the decoder ignores the attributes of
    `br`, encoding/xml decodes every child of `p` into an item and fails). Not judged by the read predicate. -/
def longDigits : List Char → Nat → Bool
  | [], n => decide (19 ≤ n)
  | c :: rest, n => if c.isDigit then longDigits rest (n + 1) else decide (19 ≤ n) || longDigits rest 0

def ttmlOutside (toks : List TTML.XTok) : Bool :=
  toks.any fun t =>
    match t with
    | .start _ name attrs =>
      attrs.any (fun (_, _, v) => longDigits v 0) ||
      (TTML.isBr name && attrs.any fun (_, k, v) => toLowerAscii k = "zindex".toList && (atoi (trimSpace v)).isNone)
    | _ => false

end TTMLD

open TTMLD in
def handleTTML (op : String) (args impl : List String) : Verdict :=
  match op, args with
  | "ttml.time", [e, fr, tr] =>
    match decS' e, fr.toInt?, tr.toInt? with
    | some e, some fr, some tr =>
      let r := TTML.instant e fr tr
      if (match r with | some d => decide (d > 9223372036854775807) || decide (d < -9223372036854775808) | none => false) then .unmodelled else   -- int64 wrap-around is not modelled
      let m := match r with | some d => s!"ok {d}" | none => "err"
      compareS m (" ".intercalate impl) fun _ =>
        -- C03 (time expressions): every form denotes the instant it means, within 1 ns
        match Spec.TTML.denote e fr.toNat tr.toNat with
        | none => true
        | some q =>
          if q.1 ≥ 9223372036854775807 * q.2 then true else     -- beyond time.Duration
          if longDigits e 0 then true else                        -- a count beyond int64: strconv reports a range error
          match impl with
          | ["ok", t] => (t.toInt?.map fun t => Spec.TTML.within1 t q).getD false
          | _ => false
    | _, _, _ => .bad "ttml.time"
  | "ttml.read", [_doc] =>
    match pViews impl with
    | none => .bad "ttml.read views"
    | some v =>
      -- int64 wrap-around is not modelled: an instant the model puts outside `time.Duration`
      let wraps := match TTML.read v.tin with
        | .ok s => s.items.any fun it => it.startAt > 9223372036854775807 || it.startAt < -9223372036854775808 ||
                                        it.endAt > 9223372036854775807 || it.endAt < -9223372036854775808
        | _ => false
      if wraps then .unmodelled else
      match resStr (TTML.read v.tin) with
      | none => .unmodelled
      | some m =>
        compareS m (" ".intercalate v.res) fun _ =>
          -- C03 (read): a well-formed document is read as what it denotes
          if !v.toksOk then true else
          if ttmlOutside v.toks then true else
          match Spec.TTML.decode (specToks v.toks) with
          | none => true
          | some d =>
            match v.res with
            | "ok" :: rest =>
              match decSubs rest with
              | some (s, []) => readOk d s
              | _ => false
            | _ => false
  | "ttml.write", ind :: toks =>
    match decSubs toks with
    | some (s, []) =>
      if ind ≠ "D" && (decS' ind).isNone then .bad "ttml.write indent" else
      if s.items.any fun it => it.startAt < 0 || it.endAt < 0 then .unmodelled else
      match TTML.write s, impl with
      | none, _ => compareS "err" (" ".intercalate impl) fun _ => s.items.isEmpty
      | some w, "ok" :: bytes :: rest =>
        match pViews rest with
        | none => .bad "ttml.write views"
        | some v =>
          match resStr (TTML.read v.tin) with
          | none => .unmodelled
          | some back =>
            let m := "ok " ++ encXToks (resolve w) ++ " | " ++ back
            let i := "ok " ++ encXToks (dropIndent v.toks []) ++ " | " ++ " ".intercalate v.res
            let _ := bytes
            compareS m i fun _ =>
              -- C03 (write): the bytes denote the same cues, styles, regions, title, copyright and language
              -- to an independent decoder and to the library's reader
              if !rep s then true else
              let want := docOf s
              v.toksOk &&
              (match Spec.TTML.decode (specToks v.toks) with
               | some d => normDoc d == want
               | none => false) &&
              (match v.res with
               | "ok" :: r =>
                 match decSubs r with
                 | some (b, []) => readOk want b && b.items.length == s.items.length
                 | _ => false
               | _ => false)
      | some w, _ => compareS ("ok " ++ encXToks (resolve w)) (" ".intercalate impl) fun _ => false
    | _ => .bad "ttml.write"
  | _, _ => .bad s!"unknown op {op}"

end Driver
end Astisub
