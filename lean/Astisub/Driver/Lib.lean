import Astisub.Driver.Basic
import Astisub.Go.HTML

namespace Astisub
namespace Driver
open Proto Go

def encKVs (kv : List (Str × Str)) : String :=
  if kv.isEmpty then "-" else ",".intercalate (kv.map fun (k, v) => encS' k ++ "=" ++ encS' v)

def encTok : Tok → List String
  | .text raw => ["T", encS' raw]
  | .startTag raw name attrs => ["S", encS' raw, encS' name, encKVs attrs]
  | .endTag raw name => ["E", encS' raw, encS' name]
  | .selfClosing raw name attrs => ["C", encS' raw, encS' name, encKVs attrs]
  | .other raw => ["O", encS' raw]

def handleLib (op : String) (args impl : List String) : Verdict :=
  match op, args with
  | "lib.html", [s] =>
    match decS' s with
    | some s =>
      match tokenize s with
      | .unmodelled => .unmodelled
      | .ok toks => compare (" ".intercalate (toks.flatMap encTok)) (" ".intercalate impl) fun _ => true
    | none => .bad "lib.html"
  | _, _ => .bad s!"unknown op {op}"

end Driver
end Astisub
