import Astisub.Driver.Basic
import Astisub.Model.Ops
import Astisub.Spec.OpsSpec
import Astisub.Spec.Reach
import Astisub.Model.Graph
import Astisub.Model.CLIRun

namespace Astisub
namespace Driver
open Proto

def joinToks (l : List String) : String := " ".intercalate l

def handleOps (op : String) (args impl : List String) : Verdict :=
  match op, args with
  | "ops.add", d :: _spare :: rest =>
    match d.toInt?, decItems rest with
    | some d, some (xs, []) =>
      let m := Ops.add d xs
      compare (encItems m) (joinToks impl) fun _ =>
        match decItems impl with
        | some (ys, []) => if decide (Spec.WF xs) then ys == Spec.addSpec d xs else true
        | _ => false
    | _, _ => .bad "ops.add: parse"
  | "ops.cli", kind :: par :: rest =>
    -- one operation through the command-line tool on a SubRip file: what comes out is the model's result
    match par.toInt?, decItems rest with
    | some p, some (xs, []) =>
      -- the whole tool as modelled by `CLI.run` (validation, the one library call, `Write` refusing an empty list)
      let fl0 : CLI.Flags := { inputs := 1, output := true }
      let r : Option CLI.Outcome :=
        if kind = "frag" then some (CLI.run "fragment" { fl0 with f := p } "srt" (some xs) none)
        else if kind = "unfrag" then some (CLI.run "unfragment" fl0 "srt" (some xs) none)
        else if kind = "add" then some (CLI.run "sync" { fl0 with s := p } "srt" (some xs) none)
        else none
      match r with
      | none => .bad "ops.cli: kind"
      | some out =>
        -- a refusal and the nothing-to-write error both end the tool with a failure exit status and no file
        let m := match out with
          | .wrote _ ys => " ".intercalate (toString ys.length :: ys.map fun it =>
              s!"{it.startAt},{it.endAt},{encStr ("\n".intercalate (it.lines.map lineStr))}")
          | _ => "EXIT"
        compare m (joinToks impl) fun _ => false
    | _, _ => .bad "ops.cli: parse"
  | "ops.add2", d1 :: d2 :: _spare :: rest =>
    match d1.toInt?, d2.toInt?, decItems rest with
    | some d1, some d2, some (xs, []) =>
      -- two calls in a row: the second one knows nothing of the first
      compare (encItems (Ops.add d2 (Ops.add d1 xs))) (joinToks impl) fun _ =>
        match decItems impl with
        | some (ys, []) => if decide (Spec.WF xs) then ys == Spec.addSpec d2 (Spec.addSpec d1 xs) else true
        | _ => false
    | _, _, _ => .bad "ops.add2: parse"
  | "ops.frag2", f :: g :: sh :: _spare :: rest =>
    match f.toInt?, g.toInt?, sh.toInt?, decItems rest with
    | some f, some g, some sh, some (xs, []) =>
      let mid := (Ops.fragment f xs).map fun it => { it with startAt := it.startAt + sh, endAt := it.endAt + sh }
      compare (encItems (Ops.fragment g mid)) (joinToks impl) fun _ =>
        match decItems impl with
        | some (ys, []) =>
          if decide (0 < g) && decide (Spec.WF mid) && decide (Spec.StartOrdered mid) then Spec.fragmentOk g mid ys else true
        | _ => false
    | _, _, _, _ => .bad "ops.frag2: parse"
  | "ops.forceduration", d :: b :: _spare :: rest =>
    match d.toInt?, b.toNat?, decItems rest with
    | some d, some b, some (xs, []) =>
      let m := Ops.forceDuration d (b != 0) xs
      compare (encItems m) (joinToks impl) fun _ =>
        match decItems impl with
        | some (ys, []) => ys == Spec.forceDurationSpec d (b != 0) xs
        | _ => false
    | _, _, _ => .bad "ops.forceduration: parse"
  | _, _ => .bad s!"unknown op {op}"

end Driver
end Astisub

namespace Astisub
namespace Driver
open Proto

def sameGraph (a b : Graph) : Bool := encGraph a == encGraph b

def handleOps2 (op : String) (args impl : List String) : Verdict :=
  match op, args with
  | "ops.order", _spare :: rest =>
    match decItems rest with
    | some (xs, []) =>
      compare (encItems (Ops.order xs)) (joinToks impl) fun _ =>
        match decItems impl with
        | some (ys, []) => Spec.orderOk xs ys
        | _ => false
    | _ => .bad "ops.order: parse"
  | "ops.fragment", f :: _spare :: rest =>
    match f.toInt?, decItems rest with
    | some f, some (xs, []) =>
      compare (encItems (Ops.fragment f xs)) (joinToks impl) fun _ =>
        match decItems impl with
        | some (ys, []) =>
          if decide (0 < f) && decide (Spec.WF xs) && decide (Spec.StartOrdered xs) then Spec.fragmentOk f xs ys else true
        | _ => false
    | _, _ => .bad "ops.fragment: parse"
  | "ops.unfragment", _spare :: rest =>
    match decItems rest with
    | some (xs, []) =>
      compare (encItems (Ops.unfragment xs)) (joinToks impl) fun _ =>
        match decItems impl with
        | some (ys, []) => if decide (Spec.WF xs) then Spec.unfragmentOk xs ys else true
        | _ => false
    | _ => .bad "ops.unfragment: parse"
  | "ops.fragunfrag", f :: _spare :: rest =>
    match f.toInt?, decItems rest with
    | some f, some (xs, []) =>
      compare (encItems (Ops.unfragment (Ops.fragment f xs))) (joinToks impl) fun _ =>
        match decItems impl with
        | some (ys, []) =>
          -- inverse law: start-ordered input without touching same-text cues is restored
          -- (times and text of every cue; order up to equal starts)
          let pre := decide (0 < f) && decide (Spec.WF xs) && decide (Spec.StartOrdered xs) &&
            (xs.zipIdx.all fun (a, i) => xs.zipIdx.all fun (b, j) => i ≥ j || !decide (Spec.Touch a b))
          if pre then
            Spec.sortedByStart ys &&
              (ys.map fun y => (y.startAt, y.endAt, y.content)).isPerm (xs.map fun x => (x.startAt, x.endAt, x.content))
          else true
        | _ => false
    | _, _ => .bad "ops.fragunfrag: parse"
  | "ops.merge", _kind :: rest =>
    match decItems rest with
    | some (xa, r1) =>
      match decItems r1 with
      | some (xb, r2) =>
        match decGraph r2 with
        | some (ga, r3) =>
          match decGraph r3 with
          | some (gb, []) =>
            let ma := Ops.mergeItems xa xb
            let g' : Graph := { items := [], regions := Graph.mergeDefs (·.id) ga.regions gb.regions,
                                styles := Graph.mergeDefs (·.id) ga.styles gb.styles }
            -- … and the argument once more, after a further merge into the same receiver
            let m := s!"{encItems ma} {encItems xb} {encGraph g'} {encGraph gb} {encItems xb} {encGraph gb}"
            compare m (joinToks impl) fun _ =>
              -- property predicate: A' = stable ordered union, B unchanged, maps = union with A winning
              match decItems impl with
              | some (ya, s1) =>
                match decItems s1 with
                | some (yb, s2) =>
                  match decGraph s2 with
                  | some (ha, s3) =>
                    match decGraph s3 with
                    | some (hb, tail) =>
                      (tail == (s!"{encItems xb} {encGraph gb}").splitOn " ") &&
                      let ids := ((ga.regions ++ gb.regions).map (·.2.id)).eraseDups
                      let sids := ((ga.styles ++ gb.styles).map (·.2.id)).eraseDups
                      Spec.orderOk (xa ++ xb) ya && yb == xb && sameGraph hb gb &&
                        (ids.all fun q => ha.regions.lookup q == (ga.regions.lookup q <|> gb.regions.lookup q)) &&
                        (sids.all fun q => ha.styles.lookup q == (ga.styles.lookup q <|> gb.styles.lookup q)) &&
                        ha.regions.length == (ga.regions.map (·.1) ++ gb.regions.map (·.1)).eraseDups.length &&
                        ha.styles.length == (ga.styles.map (·.1) ++ gb.styles.map (·.1)).eraseDups.length
                    | _ => false
                  | _ => false
                | _ => false
              | _ => false
          | _ => .bad "ops.merge: parse gb"
        | _ => .bad "ops.merge: parse ga"
      | _ => .bad "ops.merge: parse xb"
    | _ => .bad "ops.merge: parse xa"
  | "ops.optimize", rest =>
    match decGraph rest with
    | some (g, []) =>
      -- `same=true`: times, numbers, voices, run texts and in-cue instants of every cue are untouched
      compare (encGraph (Graph.optimize g) ++ " same=true") (joinToks impl) fun _ =>
        match decGraph impl with
        | some (h, ["same=true"]) => if Spec.consistentB g then sameGraph h (Spec.optimizeSpec g) else true
        | _ => false
    | _ => .bad "ops.optimize: parse"
  | _, _ => handleOps op args impl

end Driver
end Astisub

namespace Astisub
namespace Driver
open Proto

def handleOps3 (op : String) (args impl : List String) : Verdict :=
  match op with
  | "ops.removestyling" =>
    match decGraph args with
    | some (g, []) =>
      compare (encGraph (Graph.removeStyling g) ++ " clean=true same=true") (joinToks impl) fun _ => false
    | _ => .bad "ops.removestyling: parse"
  | _ => handleOps2 op args impl

end Driver
end Astisub
