import Astisub.Driver.Basic
import Astisub.Model.Ops
import Astisub.Spec.OpsSpec

namespace Astisub
namespace Driver
open Proto

def joinToks (l : List String) : String := " ".intercalate l

def handleOps (op : String) (args impl : List String) : Verdict :=
  match op, args with
  | "ops.add", d :: _spare :: rest =>
    match d.toInt?, decItems rest with
    | some d, some (xs, []) =>
      let m := Ops.add d xs
      compare (encItems m) (joinToks impl) fun _ =>
        match decItems impl with
        | some (ys, []) => if decide (Spec.WF xs) then ys == Spec.addSpec d xs else true
        | _ => false
    | _, _ => .bad "ops.add: parse"
  | "ops.forceduration", d :: b :: _spare :: rest =>
    match d.toInt?, b.toNat?, decItems rest with
    | some d, some b, some (xs, []) =>
      let m := Ops.forceDuration d (b != 0) xs
      compare (encItems m) (joinToks impl) fun _ =>
        match decItems impl with
        | some (ys, []) => ys == Spec.forceDurationSpec d (b != 0) xs
        | _ => false
    | _, _, _ => .bad "ops.forceduration: parse"
  | _, _ => .bad s!"unknown op {op}"

end Driver
end Astisub
