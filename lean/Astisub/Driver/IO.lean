import Astisub.Driver.Basic
import Astisub.Model.SSAStyleKeys
import Astisub.Go.Bufio
import Astisub.Model.Dispatch

namespace Astisub
namespace Driver
open Proto Go

def chunksOf (doc : List UInt8) : List Nat → List (List UInt8)
  | [] => []
  | n :: ns => doc.take n :: chunksOf (doc.drop n) ns

def errName : Option ScanErr → String
  | none => "none"
  | some .io => "io"
  | some .tooLong => "toolong"
  | some .noProgress => "noprogress"
  | some .badRead => "badread"

def decIntsP (s : String) : Option (List Nat) :=
  if s = "-" then some [] else mapM? String.toNat? (s.splitOn ",")

def handleIO (op : String) (args impl : List String) : Verdict :=
  match op, args with
  | "lib.scanner", [endA, doc, _sizes] =>
    match decBytes doc, impl with
    | some doc, e :: eff :: n :: rest =>
      match decIntsP eff, n.toNat? with
      | some eff, some n =>
        let toksI := rest.take n
        let kindI := (rest.drop n).headD "?"
        -- the recorded schedule stops where the scanner stopped reading; what it never asked for is still
        -- in the stream: model it as one more chunk
        let rest := doc.drop (eff.foldl (· + ·) 0)
        -- `fault` (unlike `wfault`): the reader reports its error in a `Read` of its own, after the one that
        -- returned the last bytes with a nil error, so the split function sees those bytes with atEOF = false
        -- first: an empty chunk before the end marker. It matters for one thing only: a final line of more than
        -- 65535 bytes then ends with too-long rather than with the reader's error (`C17.long_line_fault_both`).
        -- With `eof`/`weof` both deliveries give the same result (`C17.schedule_independent_full`).
        let sep : List (List UInt8) := if endA = "fault" then [[]] else []
        let chunks := chunksOf doc eff ++ (if rest.isEmpty then [] else [rest]) ++ sep
        let e' : End := if e = "fault" then .fault else .eof
        let (toks, err) := scan true [] chunks e' 0
        let m := " ".intercalate (toks.map encBytes ++ [errName err])
        let i := " ".intercalate (toksI ++ [kindI])
        compare m i fun _ =>
          -- C17/C18 on the scanner level, evaluated on the implementation's answer (`C17.scan_bytes`):
          -- the tokens are the lines of the bytes read before the first line of more than 65535 bytes;
          -- the error is too-long if there is such a line (or the reader's own error, when that came
          -- first), else the reader's own error or none
          if kindI = "noprogress" || kindI = "badread" then true
          else
            let bs := (chunksOf doc eff).flatten
            toksI == (linesBefore bs).map encBytes &&
              (if firstLong bs then kindI = "toolong" || (e = "fault" && kindI = "io")
               else if e = "fault" then kindI = "io" else kindI = "none")
      | _, _ => .bad "lib.scanner impl"
    | _, _ => .bad "lib.scanner"
  | "io.sched", _ => compare "same" (" ".intercalate impl) fun _ => false
  | "io.fault", _ => compare "err" (" ".intercalate impl) fun _ => false
  | "io.wfault", [_f, _seed, k, total] =>
    match k.toNat?, total.toNat? with
    | some k, some total =>
      compare (if k < total then "err" else "ok-complete") (" ".intercalate impl) fun _ => false
    | _, _ => .bad "io.wfault"
  | "io.wsize", _ => compare "linear" (" ".intercalate impl) fun _ => false
  | "io.file", [what, ext] =>
    let expected :=
      match what with
      | "open-missing" => "err"
      | "open-dir" => "err"
      | "write-nodir" => "err"
      | "write-full" => if impl = ["no-dev-full"] then "no-dev-full" else "err"   -- a failing device: the error is reported
      | "write-ok" => "ok"
      | "write-over" => "ok"     -- an existing longer destination is replaced, not overwritten in place
      | "write-empty" => if (Dispatch.writeCodec (Dispatch.lowerExt ext)).isSome then "no-subtitles" else "invalid-extension"
      | "write-ext" => if (Dispatch.writeCodec (Dispatch.lowerExt ext)).isSome then "dispatched" else "invalid-extension"
      | "open-ext" => if (Dispatch.openCodec (Dispatch.lowerExt ext)).isSome then "dispatched" else "invalid-extension"
      | _ => "?"
    compare expected (" ".intercalate impl) fun _ => false
  | "tot.read", _ | "tot.write", _ =>
    -- a value or an error: never a panic, never a timeout
    let i := " ".intercalate impl
    -- a crash inside the third-party demultiplexer is outside the property's scope: counted, not judged
    if i = "demuxer-crashed" then .unmodelled else
    compare "total" (if i = "ok" || i = "err" then "total" else i) fun _ => false
  | "tot.scale", _ => compare "linear" (impl.headD "") fun _ => false
  | "det.write", _ =>
    -- the harness wrote the list 50 times in all writer orders and snapshotted it: the answer must start with `same`
    compare "same" (impl.headD "") fun _ => false
  | "det.dupid", toks =>
    -- style entries `key,id,font` (several keys may carry one id): the `Style:` lines WriteToSSA emits, as `id=font`
    let entry (t : String) : Option SSAKeys.Entry := match t.splitOn "," with
      | [k, i, f] => some { key := k.toList, d := { id := i.toList, attrs := some [("f".toList, f.toList)] } }
      | _ => none
    match toks.mapM entry with
    | none => .bad "det.dupid: parse"
    | some es =>
      let line (o : Option Def) : String := match o with
        | some d => String.ofList d.id ++ "=" ++ (match d.attrs with | some [(_, f)] => String.ofList f | _ => "?")
        | none => "?"
      compare (" ".intercalate ((SSAKeys.emitted es).map line)) (" ".intercalate impl) fun _ => false
  | "conc.batch", _ => compare "same" (" ".intercalate impl) fun _ => false
  | "io.file", [what] =>   -- empty extension
    handleIOEmptyExt what impl
  | _, _ => .bad s!"unknown op {op}"
where
  handleIOEmptyExt (what : String) (impl : List String) : Verdict :=
    let expected := match what with
      | "write-ext" | "open-ext" | "write-empty" => "invalid-extension"
      | _ => "err"
    compare expected (" ".intercalate impl) fun _ => false

end Driver
end Astisub
