import Astisub.Driver.Basic
import Astisub.Model.Ops
import Astisub.Model.LinCorr
import Astisub.Model.CLIRun
import Astisub.Spec.Conv
import Astisub.Driver.SRT

namespace Astisub
namespace Driver
open Proto Go Spec.Conv

/-- the transformation models work on `Item`s; the payload of a cue is its position -/
def itemsOf (s : Subs) : List Item :=
  s.items.zipIdx.map fun (it, k) =>
    { uid := k + 1, startAt := it.startAt, endAt := it.endAt, pay := k + 1,
      lines := it.lines.map fun l => l.items.map fun li => String.ofList li.text }

def vOfItems (xs : List Item) : List VCue :=
  xs.map fun it =>
    let ls := it.lines.map fun l => squash (String.join l).toList
    { startAt := it.startAt, endAt := it.endAt, lines := ls.filter (· ≠ []), blank := ls.any (· = []) }

def splitAtTok (tok : String) (l : List String) : List String × List String :=
  (l.takeWhile (· ≠ tok), (l.dropWhile (· ≠ tok)).drop 1)

/-- apply one operation of the history to the model items; merge arguments are consumed from `args` -/
def applyOp (xs : List Item) (args : List (List Item)) (op : String) : Option (List Item × List (List Item)) :=
  match op.splitOn ":" with
  | ["-"] => some (xs, args)
  | ["add", d] => d.toInt?.map fun d => (Ops.add d xs, args)
  | ["frag", f] => f.toInt?.map fun f => (Ops.fragment f xs, args)
  | ["unfrag"] => some (Ops.unfragment xs, args)
  | ["order"] => some (Ops.order xs, args)
  | ["opt"] => some (xs, args)
  | ["lin", a1, d1, a2, d2] =>
    match a1.toInt?, d1.toInt?, a2.toInt?, d2.toInt? with
    | some a1, some d1, some a2, some d2 => some (LinCorr.apply a1 d1 a2 d2 xs, args)
    | _, _, _, _ => none
  | ["merge", _] =>
    match args with
    | b :: rest => some (Ops.mergeItems xs b, rest)
    | [] => none
  | _ => none

def applyOps (xs : List Item) (args : List (List Item)) : List String → Option (List Item)
  | [] => some xs
  | op :: ops => match applyOp xs args op with
    | some (ys, args') => applyOps ys args' ops
    | none => none

/-- is the `k`-th `-i` of a `conv.cli` command line the file that does not exist? -/
def inputMissing : Nat → List String → Bool
  | 0, "-i" :: v :: _ => v = "MISSING"
  | k + 1, "-i" :: _ :: r => inputMissing k r
  | k, _ :: r => inputMissing k r
  | _, [] => false

def unitOfDst (dst : String) : Int := if dst = "ssa" || dst = "ass" then 10000000 else 1000000

def stlParams (s : Subs) : Int × Int :=
  let fr := match SRT.kvGet s.metadata "Framerate" with
    | some v => if v = "30".toList then 30 else 25
    | none => 25
  let tcp := match SRT.kvGet s.metadata "STLTimecodeStartOfProgramme" with
    | some v => (String.ofList v).toInt?.getD 0
    | none => 0
  (fr, tcp)

/-- the C07 predicate on (operations result, re-read destination) -/
def inRange (dst : String) (ops : Subs) : Bool :=
  let lim : Int := if dst = "stl" then 86400000000000 else 360000000000000
  (viewOf ops).all fun c => decide (0 ≤ c.startAt) && decide (0 ≤ c.endAt) && decide (c.startAt < lim) && decide (c.endAt < lim)

/-- text the destination can carry: the plain repertoire every format carries (`simpleText`, the class of the
    `conv_all` theorems), and for the destinations that escape markup characters (SubRip, WebVTT, TTML) also
    `&`, `<`, `>` and `;` — so that a text which spells an entity (`&lt;`, `a & b`) is compared as well -/
def textFor (dst : String) (s : Str) : Bool :=
  simpleText s ||
    ((dst = "srt" || dst = "vtt" || dst = "ttml") &&
      s.all fun c => simpleText [c] || c = '&' || c = '<' || c = '>' || c = ';')

def convOk (strict : Bool) (dst : String) (ops : Subs) (back : Subs) : Bool :=
  let v := viewOf ops
  let w := viewOf back
  let tr : Int → Int :=
    if dst = "stl" then (let (fr, tcp) := stlParams ops; truncSTL fr tcp) else truncTo (unitOfDst dst)
  -- the text clause needs text the destination can carry; under the STL teletext display standards the
  -- library's own reader returns no text at all (known finding D23): timing, count and order are still compared
  let textDst := if dst = "stl" && !strict then SRT.kvGet ops.metadata "STLDisplayStandardCode" = some "0".toList else true
  v.length == w.length &&
    (List.zip v w).all fun (a, b) =>
      b.startAt == tr a.startAt && b.endAt == tr a.endAt &&
        (!(textDst && !a.blank && a.lines.all (textFor dst) && !a.lines.isEmpty) || a.lines == b.lines)

def opRefusedByCLI (ops : List String) : Bool :=
  match ops with
  | [op] => match op.splitOn ":" with
    | ["add", d] => d.toInt? == some 0
    | _ => false
  | _ => false

def handleConvS (strict : Bool) (op : String) (args impl : List String) : Verdict :=
  match op, args with
  | "conv.pair", [_src, dst, _cv, _page, opsTok, _doc] =>
    let ops := opsTok.splitOn ","
    match impl with
    | ["OPENERR"] => .unmodelled       -- the generated source was not readable: nothing to convert (reader fidelity is C01–C06)
    | ["OPENERR", "READABLE"] =>
      .disagree false "the file API refused a source that the reader of its format accepts (codec selection by extension)"
    | "SRC" :: rest =>
      match decSubs rest with
      | none => .bad "conv.pair SRC"
      | some (src, r1) =>
        -- merge arguments
        let rec argsOf (fuel : Nat) (r : List String) (acc : List Subs) : Option (List Subs × List String) :=
          match fuel, r with
          | 0, _ => none
          | fuel + 1, "ARG" :: r' => match decSubs r' with
            | some (a, r'') => argsOf fuel r'' (acc ++ [a])
            | none => none
          | _, "OPS" :: r' => some (acc, r')
          | _, _ => none
        match argsOf 8 r1 [] with
        | none => .bad "conv.pair ARG/OPS"
        | some (margs, r2) =>
          match decSubs r2 with
          | none => .bad "conv.pair OPS"
          | some (opsS, r3) =>
            match applyOps (itemsOf src) (margs.map itemsOf) ops with
            | none => .bad "conv.pair ops"
            | some expected =>
              let m := vOfItems expected
              let i := viewOf opsS
              let (backToks, cliToks) := splitAtTok "CLI" r3
              let specAll : Bool :=
                -- the property quantifies over non-negative instants below the destination's range
                if !inRange dst opsS then true else
                match backToks with
                | ["NOSUBS"] => opsS.items.isEmpty
                | "BACK" :: b =>
                  match decSubs b with
                  | some (back, []) =>
                    !opsS.items.isEmpty && convOk strict dst opsS back &&
                      (match cliToks with
                       | [] => true
                       | ["NOBINARY"] => false
                       | ["EXIT"] => opRefusedByCLI ops
                       | c => match decSubs c with
                         | some (cli, []) => !opRefusedByCLI ops && viewOf cli == viewOf back
                         | _ => false)
                  | _ => false
                | _ => false     -- WRITEERR / REOPENERR: the conversion must succeed
              -- correspondence: the operations composed in the model vs. the library; then the property
              if m == i then (if specAll then .agree else .disagree false "ops-agree; conversion predicate fails")
              -- "the result then matching the operations' specifications composed" is a clause of C07: the model's
              -- composition equals the composed specifications (C09-C15 theorems), so a difference here fails the property
              else .disagree false s!"the operations' result differs from the composed specifications (specAll={specAll})"
    | _ => .bad "conv.pair impl"
  | "conv.cli", cmd :: flags =>
    -- flags of the fixed little command lines of the stream
    let dur (s : String) : Int :=
      -- `flag.Duration` spellings used by the stream: [-]<n>s, [-]<n>ms
      let neg := s.startsWith "-"
      let body := if neg then (s.drop 1).toString else s
      let v : Int :=
        if body.endsWith "ms" then ((body.dropEnd 2).toString.toNat?.getD 0 : Nat) * 1000000
        else if body.endsWith "s" then ((body.dropEnd 1).toString.toNat?.getD 0 : Nat) * 1000000000
        else 0
      if neg then -v else v
    let rec parse (fl : CLI.Flags) (outBad missing : Bool) : List String → CLI.Flags × Bool × Bool
      | "-i" :: v :: r => parse { fl with inputs := fl.inputs + 1 } outBad (missing || v = "MISSING") r
      | "-o" :: v :: r => parse { fl with output := true } (outBad || v = "OUTBAD") missing r
      | "-s" :: v :: r => parse { fl with s := dur v } outBad missing r
      | "-f" :: v :: r => parse { fl with f := dur v } outBad missing r
      | "-a1" :: v :: r => parse { fl with a1 := dur v } outBad missing r
      | "-d1" :: v :: r => parse { fl with d1 := dur v } outBad missing r
      | "-a2" :: v :: r => parse { fl with a2 := dur v } outBad missing r
      | "-d2" :: v :: r => parse { fl with d2 := dur v } outBad missing r
      | _ :: r => parse fl outBad missing r
      | [] => (fl, outBad, missing)
    -- `astikit.FlagCmd()`: the sub-command is the first argument unless it starts with '-'
    let (cmd', flags') := if cmd.startsWith "-" then ("", cmd :: flags) else (cmd, flags)
    let (fl, outBad, _) := parse {} false false flags'
    let missing := inputMissing 0 flags'
    let missing2 := inputMissing 1 flags'
    -- the stream's input files hold one cue; a missing input cannot be opened
    let one : Item := { uid := 1, startAt := 1000000000, endAt := 2000000000, lines := [["hello"]], pay := 0 }
    let two : Item := { uid := 2, startAt := 3000000000, endAt := 4000000000, lines := [["world"]], pay := 0 }
    -- the stream's destinations: OUT = out.vtt, OUTBAD = out.xyz
    let out := CLI.run cmd' fl (if outBad then "xyz" else "vtt") (if missing then none else some [one])
      (if missing2 then none else some [two])
    -- exit status, and whether the destination exists afterwards (`Write` creates it before anything can fail)
    compare s!"exit-ok={out.ok} wrote={out.touched}" (" ".intercalate impl) fun _ => false
  | _, _ => .bad s!"unknown op {op}"

/-- `ops.seq <op,op,…> <spare> <items>`: a history of operations on one cue list (any operation may occur several
    times: nothing is remembered between calls); the answer is the models composed. `force:<d>:<0|1>` is
    ForceDuration. -/
def handleSeq (args impl : List String) : Verdict :=
  match args with
  | opsTok :: _spare :: rest =>
    match decItems rest with
    | some (xs, []) =>
      let step (acc : Option (List Item)) (op : String) : Option (List Item) :=
        match acc with
        | none => none
        | some ys =>
          match op.splitOn ":" with
          | ["force", d, b] => match d.toInt?, b.toNat? with
            | some d, some b => some (Ops.forceDuration d (b != 0) ys)
            | _, _ => none
          | ["selfmerge"] => some (Ops.mergeItems ys ys)
          | ["swap"] =>
            -- the first and the last cue exchange their times (a re-timing by hand between two calls)
            match ys, ys.getLast? with
            | a :: rest, some b =>
              if rest.isEmpty then some ys else
              some ({ a with startAt := b.startAt, endAt := b.endAt } :: rest.dropLast ++ [{ b with startAt := a.startAt, endAt := a.endAt }])
            | _, _ => some ys
          | _ => (applyOp ys [] op).map (·.1)
      match (opsTok.splitOn ",").foldl step (some xs) with
      | some m => compare (encItems m) (" ".intercalate impl) fun _ => false
      | none => .bad "ops.seq: ops"
    | _ => .bad "ops.seq: items"
  | _ => .bad "ops.seq"

def handleConv (op : String) (args impl : List String) : Verdict :=
  if op = "conv.kf" then handleConvS true "conv.pair" args impl else handleConvS false op args impl

end Driver
end Astisub
