import Astisub.Driver.Basic
import Astisub.Model.LinCorr

namespace Astisub
namespace Driver
open Proto Go

def absRat (x : Rat) : Rat := if x < 0 then -x else x

/-- property predicate of C15 on the implementation's output (slope in [1/2, 2] and boundaries
    in [0, 24 h] assumed by the caller): every boundary within 1 µs of the exact affine map,
    order of boundaries preserved for a positive slope, content/identity/order of cues untouched -/
def lincorrOk (a1 d1 a2 d2 : Int) (xs ys : List Item) : Bool :=
  xs.length == ys.length &&
  (List.zip xs ys).all fun (x, y) =>
    x.uid == y.uid && x.content == y.content &&
    decide (absRat ((y.startAt : Rat) - LinCorr.exact a1 d1 a2 d2 x.startAt) ≤ 1000) &&
    decide (absRat ((y.endAt : Rat) - LinCorr.exact a1 d1 a2 d2 x.endAt) ≤ 1000)

def handleLinCorr (op : String) (args impl : List String) : Verdict :=
  match op, args with
  | "lib.f53", [p, q, t, d1, a1] =>
    match p.toInt?, q.toInt?, t.toInt?, d1.toInt?, a1.toInt? with
    | some p, some q, some t, some d1, some a1 =>
      let sl := Dy.div (Dy.ofInt p) (Dy.ofInt q)
      let m := Dy.mul sl (Dy.ofInt t)
      let s := Dy.sub (Dy.ofInt d1) (Dy.mul sl (Dy.ofInt a1))
      let tr (x : Dy) : String := if x.trunc.natAbs ≥ 4611686018427387904 then "big" else toString x.trunc
      compare s!"{sl.bits} {m.bits} {tr m} {s.bits} {tr s}" (" ".intercalate impl) fun _ => true
    | _, _, _, _, _ => .bad "lib.f53"
  | "ops.lincorr", a1 :: d1 :: a2 :: d2 :: rest =>
    match a1.toInt?, d1.toInt?, a2.toInt?, d2.toInt?, decItems rest with
    | some a1, some d1, some a2, some d2, some (xs, []) =>
      compare (encItems (LinCorr.apply a1 d1 a2 d2 xs)) (" ".intercalate impl) fun _ =>
        match decItems impl with
        | some (ys, []) =>
          let s : Rat := ((d2 : Rat) - d1) / ((a2 : Rat) - a1)
          if decide ((1 : Rat) / 2 ≤ s) && decide (s ≤ 2) then lincorrOk a1 d1 a2 d2 xs ys else true
        | _ => false
    | _, _, _, _, _ => .bad "ops.lincorr"
  | _, _ => .bad s!"unknown op {op}"

end Driver
end Astisub
