def hello := "world"
